#!/bin/bash
# tools_allseeds.sh [ids...]: runs, for every seeded change, the quick check named first in its meta "caught_by" (against a scratch
# worktree) and prints one line per change: caught / MISSED.
cd /verif
ids="$@"; [ -z "$ids" ] && ids=$(ls seeded | grep -v README)
for id in $ids; do
  chk=$(python3 -c "import json,re;m=json.load(open('/verif/seeded/$id/meta.json'));c=m['caught_by'];c=c[0] if isinstance(c,list) else c;print(re.search(r'C\d\d',c).group(0))" 2>/dev/null)
  [ -z "$chk" ] && chk=${id%%-*}
  tier=quick
  python3 -c "import json;m=json.load(open('/verif/seeded/$id/meta.json'));c=m['caught_by'];c=c[0] if isinstance(c,list) else c;import sys;sys.exit(0 if c.startswith('C') and ' thorough' in c.split('(')[0] else 1)" && tier=thorough
  out=$(./tools_seeded.sh /verif/seeded/$id/patch.diff $tier $chk 2>&1 | tail -1)
  if echo "$out" | grep -q "rc=1"; then echo "$id: caught by $chk $tier: $(echo "$out" | grep -o 'key=[^ ]*' | head -2 | tr '\n' ' ')"; else echo "$id: MISSED by $chk $tier: $out" | cut -c1-300; fi
done
