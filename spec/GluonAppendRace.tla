-------------------------- MODULE GluonAppendRace --------------------------
(***************************************************************************)
(* C17, "issued sequentially or by several sessions at once": the          *)
(* message-count limit of a mailbox under concurrent APPENDs.              *)
(*                                                                         *)
(* Mailbox.AppendRegular (internal/state/mailbox.go) works in two database *)
(* transactions: a READ transaction that compares the mailbox's message    *)
(* count with the limit, and - after some work outside any transaction -   *)
(* a WRITE transaction that inserts the message.  Sessions run in their    *)
(* own goroutines; the database lock admits one writer or many readers, so *)
(* the steps of different sessions interleave at transaction boundaries:   *)
(*   Begin(s)   the client sends APPEND                                    *)
(*   Check(s)   the read transaction: refuse (NO) when the mailbox is full *)
(*   Commit(s)  the write transaction: insert, answer OK                   *)
(*                                                                         *)
(* Recheck = FALSE  the write transaction inserts unconditionally          *)
(*                  (the code before fix "limits are checked in the        *)
(*                  transaction that inserts"): WithinLimit fails          *)
(* Recheck = TRUE   the write transaction compares the count again and     *)
(*                  refuses when the mailbox has filled up in between      *)
(*                                                                         *)
(* The UID limit is checked in the same two places.  A third party may    *)
(* remove messages in between (Expunge: STORE \Deleted + EXPUNGE of one    *)
(* message by another session, one write transaction): the count goes down *)
(* again but the UID counter never does - "the mailbox did not grow since  *)
(* my check" says nothing about UIDs.                                      *)
(*                                                                         *)
(* Every behaviour is finite (each session appends at most PerSession      *)
(* times); the module prints each complete behaviour so that the harness   *)
(* can force exactly that interleaving on the real server (the hook        *)
(* "append.checked" parks a session between its two transactions).         *)
(***************************************************************************)
EXTENDS Integers, Sequences, FiniteSets, TLC, Json

CONSTANTS Sessions,     \* e.g. {"s1", "s2"}
          Max,          \* message-count limit of the mailbox
          Start,        \* messages in the mailbox at the beginning
          PerSession,   \* APPENDs per session
          Recheck,      \* see above
          LimitUid,     \* configured UID limit: an insertion needs uidNext + 1 <= LimitUid (exclusive, as the code has it)
          Expunges,     \* how many times the extra party removes one message (0: never)
          Record        \* TRUE: keep and print behaviours

VARIABLES count,    \* messages in the mailbox
          pc,       \* [Sessions -> {"idle", "begun", "checked"}]
          done,     \* [Sessions -> Nat] finished APPENDs
          uidNext,  \* the UID the next insertion gets
          expd,     \* removals done so far
          last,     \* the last step [act, s, status]
          hist

vars == <<count, pc, done, uidNext, expd, last, hist>>

Init ==
  /\ count = Start
  /\ pc = [s \in Sessions |-> "idle"]
  /\ done = [s \in Sessions |-> 0]
  /\ uidNext = Start + 1
  /\ expd = 0
  /\ last = [act |-> "Init", s |-> "", status |-> "", count |-> Start, uidnext |-> Start + 1]
  /\ hist = <<>>

Log(a, s, st, c, u) == last' = [act |-> a, s |-> s, status |-> st, count |-> c, uidnext |-> u]
Full == count + 1 > Max \/ uidNext + 1 > LimitUid

Begin(s) ==
  /\ pc[s] = "idle" /\ done[s] < PerSession
  /\ pc' = [pc EXCEPT ![s] = "begun"]
  /\ Log("Begin", s, "", count, uidNext)
  /\ UNCHANGED <<count, done, uidNext, expd>>

\* the read transaction
Check(s) ==
  /\ pc[s] = "begun"
  /\ IF Full
     THEN /\ pc' = [pc EXCEPT ![s] = "idle"]
          /\ done' = [done EXCEPT ![s] = @ + 1]
          /\ Log("Check", s, "NO", count, uidNext)
     ELSE /\ pc' = [pc EXCEPT ![s] = "checked"]
          /\ UNCHANGED done
          /\ Log("Check", s, "pass", count, uidNext)
  /\ UNCHANGED <<count, uidNext, expd>>

\* the write transaction
Commit(s) ==
  /\ pc[s] = "checked"
  /\ pc' = [pc EXCEPT ![s] = "idle"]
  /\ done' = [done EXCEPT ![s] = @ + 1]
  /\ IF Recheck /\ Full
     THEN /\ UNCHANGED <<count, uidNext>>
          /\ Log("Commit", s, "NO", count, uidNext)
     ELSE /\ count' = count + 1
          /\ uidNext' = uidNext + 1
          /\ Log("Commit", s, "OK", count + 1, uidNext + 1)
  /\ UNCHANGED expd

\* another session removes the first message of the mailbox: one write transaction
Expunge ==
  /\ expd < Expunges /\ count > 0
  /\ count' = count - 1
  /\ expd' = expd + 1
  /\ Log("Expunge", "x", "OK", count - 1, uidNext)
  /\ UNCHANGED <<pc, done, uidNext>>

Step == (\E s \in Sessions : Begin(s) \/ Check(s) \/ Commit(s)) \/ Expunge
Finished == \A s \in Sessions : pc[s] = "idle" /\ done[s] = PerSession

Keep == IF Record THEN hist' = Append(hist, last') ELSE hist' = hist
Next == Step /\ Keep
Spec == Init /\ [][Next]_vars /\ WF_vars(Next)

EmitBehaviour == (Record /\ Finished) => PrintT(ToJson([trace |-> hist]))

-----------------------------------------------------------------------------
\* the property
WithinLimit == count <= Max /\ uidNext <= LimitUid
\* operations that fit are still accepted: an APPEND is only refused when the mailbox is full at that moment
RefusedOnlyWhenFull == last.status = "NO" => (last.count = Max \/ last.uidnext = LimitUid)
\* every APPEND is answered
AllAnswered == <>Finished
=============================================================================
