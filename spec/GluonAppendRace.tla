-------------------------- MODULE GluonAppendRace --------------------------
(***************************************************************************)
(* C17, "issued sequentially or by several sessions at once": the          *)
(* message-count limit of a mailbox under concurrent APPENDs.              *)
(*                                                                         *)
(* Mailbox.AppendRegular (internal/state/mailbox.go) works in two database *)
(* transactions: a READ transaction that compares the mailbox's message    *)
(* count with the limit, and - after some work outside any transaction -   *)
(* a WRITE transaction that inserts the message.  Sessions run in their    *)
(* own goroutines; the database lock admits one writer or many readers, so *)
(* the steps of different sessions interleave at transaction boundaries:   *)
(*   Begin(s)   the client sends APPEND                                    *)
(*   Check(s)   the read transaction: refuse (NO) when the mailbox is full *)
(*   Commit(s)  the write transaction: insert, answer OK                   *)
(*                                                                         *)
(* Recheck = FALSE  the write transaction inserts unconditionally          *)
(*                  (the code before fix "limits are checked in the        *)
(*                  transaction that inserts"): WithinLimit fails          *)
(* Recheck = TRUE   the write transaction compares the count again and     *)
(*                  refuses when the mailbox has filled up in between      *)
(*                                                                         *)
(* Every behaviour is finite (each session appends at most PerSession      *)
(* times); the module prints each complete behaviour so that the harness   *)
(* can force exactly that interleaving on the real server (the hook        *)
(* "append.checked" parks a session between its two transactions).         *)
(***************************************************************************)
EXTENDS Integers, Sequences, FiniteSets, TLC, Json

CONSTANTS Sessions,     \* e.g. {"s1", "s2"}
          Max,          \* message-count limit of the mailbox
          Start,        \* messages in the mailbox at the beginning
          PerSession,   \* APPENDs per session
          Recheck,      \* see above
          Record        \* TRUE: keep and print behaviours

VARIABLES count,    \* messages in the mailbox
          pc,       \* [Sessions -> {"idle", "begun", "checked"}]
          done,     \* [Sessions -> Nat] finished APPENDs
          last,     \* the last step [act, s, status]
          hist

vars == <<count, pc, done, last, hist>>

Init ==
  /\ count = Start
  /\ pc = [s \in Sessions |-> "idle"]
  /\ done = [s \in Sessions |-> 0]
  /\ last = [act |-> "Init", s |-> "", status |-> "", count |-> Start]
  /\ hist = <<>>

Log(a, s, st, c) == last' = [act |-> a, s |-> s, status |-> st, count |-> c]

Begin(s) ==
  /\ pc[s] = "idle" /\ done[s] < PerSession
  /\ pc' = [pc EXCEPT ![s] = "begun"]
  /\ Log("Begin", s, "", count)
  /\ UNCHANGED <<count, done>>

\* the read transaction
Check(s) ==
  /\ pc[s] = "begun"
  /\ IF count + 1 > Max
     THEN /\ pc' = [pc EXCEPT ![s] = "idle"]
          /\ done' = [done EXCEPT ![s] = @ + 1]
          /\ Log("Check", s, "NO", count)
     ELSE /\ pc' = [pc EXCEPT ![s] = "checked"]
          /\ UNCHANGED done
          /\ Log("Check", s, "pass", count)
  /\ UNCHANGED count

\* the write transaction
Commit(s) ==
  /\ pc[s] = "checked"
  /\ pc' = [pc EXCEPT ![s] = "idle"]
  /\ done' = [done EXCEPT ![s] = @ + 1]
  /\ IF Recheck /\ count + 1 > Max
     THEN /\ UNCHANGED count
          /\ Log("Commit", s, "NO", count)
     ELSE /\ count' = count + 1
          /\ Log("Commit", s, "OK", count + 1)

Step == \E s \in Sessions : Begin(s) \/ Check(s) \/ Commit(s)
Finished == \A s \in Sessions : pc[s] = "idle" /\ done[s] = PerSession

Keep == IF Record THEN hist' = Append(hist, last') ELSE hist' = hist
Next == Step /\ Keep
Spec == Init /\ [][Next]_vars /\ WF_vars(Next)

EmitBehaviour == (Record /\ Finished) => PrintT(ToJson([trace |-> hist]))

-----------------------------------------------------------------------------
\* the property
WithinLimit == count <= Max
\* operations that fit are still accepted: an APPEND is only refused when the mailbox is full at that moment
RefusedOnlyWhenFull == last.status = "NO" => last.count = Max
\* every APPEND is answered
AllAnswered == <>Finished
=============================================================================
