---------------------------- MODULE GluonValidity ----------------------------
(***************************************************************************)
(* C04, second half: UIDVALIDITY only ever grows per mailbox name.          *)
(*                                                                         *)
(* The default generator (imap/uid_validity_generator.go,                  *)
(* EpochUIDValidityGenerator) hands out  max(seconds since epoch, last+1)  *)
(* and keeps `last` in memory only.  Mailboxes are created, deleted and     *)
(* re-created, the connector bumps all validities, the server restarts     *)
(* (dt seconds later).                                                     *)
(*                                                                         *)
(* PersistGenerator = FALSE is what the code does: `last` is forgotten at a *)
(* restart.  When the generator had run ahead of the clock (several values *)
(* within one second) and the restart happens before the clock has caught  *)
(* up, a re-created name gets a LOWER value than it had before (known      *)
(* finding F16); the specification marks that step so that the replay can  *)
(* attribute exactly this shape.                                           *)
(***************************************************************************)
EXTENDS Integers, Sequences, FiniteSets, TLC, Json

CONSTANTS Names,             \* mailbox names (strings)
          Kinds,             \* the kinds of steps this configuration explores: Create, CreateRefused, Delete, Bump, Restart
          Sessions,          \* the client sessions that issue CREATE / DELETE ("conn" = the connector creates / deletes)
          MaxSteps,
          MaxNow,            \* bound on the abstract clock
          Dts,               \* seconds that may pass at a restart, e.g. {0, 1, 3}
          PersistGenerator,  \* TRUE: the intended design (generator state survives restarts)
          Record

None == 0

VARIABLES now,      \* seconds since the generator's epoch (>= 1)
          last,     \* the generator's in-memory last value
          val,      \* [Names -> Nat]: UIDVALIDITY of the existing mailbox with that name, None = does not exist
          best,     \* [Names -> Nat]: the highest UIDVALIDITY the name ever had
          ahead,    \* TRUE: a restart has lost generator state that was ahead of the clock (F16 can show from now on)
          lastAct, steps, hist

vars == <<now, last, val, best, ahead, lastAct, steps, hist>>

Gen(l) == IF l >= now THEN l + 1 ELSE now       \* EpochUIDValidityGenerator.Generate with last value l

Init ==
  /\ now = 1 /\ last = 2      \* the recovery mailbox and INBOX took the first two values when the user was added
  /\ val = [n \in Names |-> None]
  /\ best = [n \in Names |-> 0]
  /\ ahead = FALSE
  /\ lastAct = [act |-> "Init", s |-> "", name |-> "", dt |-> 0, value |-> 0, f16 |-> FALSE]
  /\ steps = 0 /\ hist = <<>>

LogS(a, s, n, dt, v, f) == lastAct' = [act |-> a, s |-> s, name |-> n, dt |-> dt, value |-> v, f16 |-> f] /\ steps' = steps + 1
Log(a, n, dt, v, f) == LogS(a, "", n, dt, v, f)

\* CREATE by session s (State.Create) or MailboxCreated from the connector (s = "conn"): one Generate() call
Create(s, n) ==
  /\ val[n] = None
  /\ LET v == Gen(last) IN
     /\ val' = [val EXCEPT ![n] = v]
     /\ best' = [best EXCEPT ![n] = IF v > @ THEN v ELSE @]
     /\ last' = v
     \* the value is not above what the name had before: only possible after generator state was lost
     /\ LogS("Create", s, n, 0, v, v <= best[n])
  /\ UNCHANGED <<now, ahead>>

\* CREATE of a name that exists: answered NO - State.Create has asked the generator for a value before it looks,
\* so a refused CREATE uses one value up; it must not influence what any later CREATE of any session gets
\* beyond that.  (The connector's MailboxCreated for a known mailbox is a no-op and asks for nothing.)
CreateRefused(s, n) ==
  /\ val[n] # None /\ s # "conn"
  /\ last' = Gen(last)
  /\ LogS("CreateRefused", s, n, 0, 0, FALSE)
  /\ UNCHANGED <<now, val, best, ahead>>

\* RENAME INBOX n (State.renameInbox): the name n is (re-)created with a fresh value - one Generate() call - and takes over
\* INBOX's messages; INBOX itself stays as it is
RenameInbox(s, n) ==
  /\ val[n] = None /\ s # "conn"
  /\ LET v == Gen(last) IN
     /\ val' = [val EXCEPT ![n] = v]
     /\ best' = [best EXCEPT ![n] = IF v > @ THEN v ELSE @]
     /\ last' = v
     /\ LogS("RenameInbox", s, n, 0, v, v <= best[n])
  /\ UNCHANGED <<now, ahead>>

Delete(s, n) ==
  /\ val[n] # None
  /\ val' = [val EXCEPT ![n] = None]
  /\ LogS("Delete", s, n, 0, 0, FALSE)
  /\ UNCHANGED <<now, last, best, ahead>>

\* UIDValidityBumped: every existing mailbox gets a fresh value, one Generate() call each (in a fixed order)
NameSeq == CHOOSE s \in [1..Cardinality(Names) -> Names] : \A i, j \in 1..Cardinality(Names) : i # j => s[i] # s[j]
RECURSIVE BumpFrom(_, _, _)
BumpFrom(i, l, v) ==
  IF i > Len(NameSeq) THEN [last |-> l, val |-> v]
  ELSE LET n == NameSeq[i] IN
       IF v[n] = None THEN BumpFrom(i + 1, l, v)
       ELSE LET g == IF l >= now THEN l + 1 ELSE now IN BumpFrom(i + 1, g, [v EXCEPT ![n] = g])
Bump ==
  /\ \E n \in Names : val[n] # None
  /\ LET b == BumpFrom(1, last, val) IN
     /\ val' = b.val /\ last' = b.last
     /\ best' = [n \in Names |-> IF b.val[n] > best[n] THEN b.val[n] ELSE best[n]]
     /\ Log("Bump", "", 0, b.last, \E n \in Names : b.val[n] # None /\ b.val[n] <= best[n])
  /\ UNCHANGED <<now, ahead>>

Restart(dt) ==
  /\ now + dt <= MaxNow
  /\ now' = now + dt
  \* start-up asks the generator for one value (for the recovery mailbox, whether or not it exists already)
  /\ last' = IF PersistGenerator THEN (IF last >= now + dt THEN last + 1 ELSE now + dt) ELSE now + dt
  /\ ahead' = (ahead \/ (~PersistGenerator /\ last > now + dt))
  /\ Log("Restart", "", dt, 0, FALSE)
  /\ UNCHANGED <<val, best>>

Free ==
  \/ "Create" \in Kinds /\ \E s \in Sessions, n \in Names : Create(s, n)
  \/ "Delete" \in Kinds /\ \E s \in Sessions, n \in Names : Delete(s, n)
  \/ "RenameInbox" \in Kinds /\ \E s \in Sessions, n \in Names : RenameInbox(s, n)
  \/ "CreateRefused" \in Kinds /\ \E s \in Sessions, n \in Names : CreateRefused(s, n)
  \/ "Bump" \in Kinds /\ Bump
  \/ "Restart" \in Kinds /\ \E dt \in Dts : Restart(dt)

StepRecord == [act |-> lastAct'.act, s |-> lastAct'.s, name |-> lastAct'.name, dt |-> lastAct'.dt, value |-> lastAct'.value, f16 |-> lastAct'.f16,
               val |-> val', ahead |-> ahead']
Keep == IF Record THEN hist' = Append(hist, StepRecord) ELSE hist' = hist
Closing == steps = MaxSteps /\ steps' = steps + 1 /\ UNCHANGED <<now, last, val, best, ahead, lastAct, hist>>
Next == (steps < MaxSteps /\ Free /\ Keep) \/ Closing

EmitBehaviour == (Record /\ steps > MaxSteps) => PrintT(ToJson([trace |-> hist]))

-----------------------------------------------------------------------------
\* the property: a name never gets a value that is not above everything it had before
ValidityGrows == lastAct.f16 = FALSE
\* what holds of the code as it is: a decrease only ever happens after generator state was lost at a restart
DecreaseOnlyAfterLoss == lastAct.f16 => ahead
\* existing mailboxes have distinct values
Distinct == \A a, b \in Names : (a # b /\ val[a] # None /\ val[b] # None) => val[a] # val[b]
=============================================================================
