---------------------------- MODULE GluonRecovery ----------------------------
(***************************************************************************)
(* C20: a message handed to APPEND is never silently lost.                 *)
(*                                                                         *)
(* One session, the connector fails the remote calls a schedule names.     *)
(* State: per mailbox the ordered (uid, literal) pairs, the UIDNEXT        *)
(* counters and the content-hash set of the recovery mailbox.              *)
(* Actions are the client commands as internal/state/mailbox.go and        *)
(* actions.go perform them:                                                *)
(*   Append        AppendRegular, and on any error but "too large"         *)
(*                 actionCreateRecoveredMessage (once per distinct hash)   *)
(*   CopyOut/MoveOut   actionCopy/MoveMessagesOutOfRecoveryMailbox:        *)
(*                 import to the remote (CreateMessage), then label        *)
(*                 (AddMessagesToMailbox); MOVE also removes from the      *)
(*                 recovery mailbox and forgets the hash                   *)
(*   protected operations on the recovery mailbox are refused              *)
(*   Restart       the hash set is rebuilt from the mailbox content        *)
(***************************************************************************)
EXTENDS Integers, Sequences, FiniteSets, TLC, SequencesExt, Json

CONSTANTS Lits,        \* distinct literals (strings)
          Unhashable,  \* literals whose content hash cannot be computed (e.g. a part that announces base64 and is not):
                       \* duplicate detection does not apply to them, they are kept at every rejected APPEND
          Normal,      \* normal mailboxes (strings)
          MaxSteps,    \* length of a generated behaviour
          MaxUid,      \* bound
          Dedup,       \* TRUE: the remote identifies messages by their content - creating (importing) a literal it already holds
                       \* answers with the id of that message, and gluon adds the message it knows to the mailbox instead of
                       \* creating one (a message that is in the mailbox already is removed there and added again: new UID)
          Record       \* TRUE: keep the behaviour (simulation)

Rec == "Recovered Messages"
AllBoxes == Normal \cup {Rec}

VARIABLES content,  \* [AllBoxes -> Seq([lit, uid])]
          uidNext,  \* [AllBoxes -> Nat]
          hashes,   \* SUBSET Lits: content hashes the server believes to be in the recovery mailbox
          last, steps, hist

vars == <<content, uidNext, hashes, last, steps, hist>>
view == <<content, uidNext, hashes>>

LitsOf(b) == {content[b][i].lit : i \in 1..Len(content[b])}
Count(b, l) == Cardinality({i \in 1..Len(content[b]) : content[b][i].lit = l})
DropPositions(sq, P) == [i \in 1..Len(SelectSeq([j \in 1..Len(sq) |-> j], LAMBDA j : j \notin P)) |->
                      sq[SelectSeq([j \in 1..Len(sq) |-> j], LAMBDA j : j \notin P)[i]]]
RECURSIVE AscSeq(_)
AscSeq(S) == IF S = {} THEN <<>> ELSE LET x == CHOOSE y \in S : \A z \in S : y <= z IN <<x>> \o AscSeq(S \ {x})

Init ==
  /\ content = [b \in AllBoxes |-> <<>>]
  /\ uidNext = [b \in AllBoxes |-> 1]
  /\ hashes = {}
  /\ last = [act |-> "Init", args |-> <<>>, fail |-> "none", status |-> "OK", listed |-> FALSE]
  /\ steps = 0
  /\ hist = <<>>

\* the recovery mailbox is listed exactly while it is non-empty - in the LIST of every session, whatever that session has
\* selected and whatever it has been told so far (the harness asks the acting session and a second one that keeps the
\* recovery mailbox selected and never sends a command that flushes)
Listed(c) == c[Rec] # <<>>

Log(act, args, fail, status) ==
  /\ last' = [act |-> act, args |-> args, fail |-> fail, status |-> status, listed |-> Listed(content')]
  /\ steps' = steps + 1

AddTo(b, ls) ==     \* append literals ls (a sequence of distinct literals when Dedup) to mailbox b
  LET keep == IF Dedup THEN SelectSeq(content[b], LAMBDA e : e.lit \notin {ls[i] : i \in 1..Len(ls)}) ELSE content[b]
  IN [content EXCEPT ![b] = keep \o [i \in 1..Len(ls) |-> [lit |-> ls[i], uid |-> uidNext[b] + i - 1]]]

\* COPY / MOVE out of the recovery mailbox (actionAddRecoveredMessagesToMailbox): a message the destination holds already
\* (only possible when the remote de-duplicates) stays as it is there - no new UID, no entry in COPYUID
NewFor(d, ls) == IF Dedup THEN SelectSeq(ls, LAMBDA l : l \notin LitsOf(d)) ELSE ls
AddOut(d, ls) == [content EXCEPT ![d] = @ \o [i \in 1..Len(NewFor(d, ls)) |-> [lit |-> NewFor(d, ls)[i], uid |-> uidNext[d] + i - 1]]]

-----------------------------------------------------------------------------
\* fail: "none", "create" (CreateMessage fails), "size" (the remote says the message is too large)
CmdAppend(l, b, fail) ==
  /\ uidNext[b] <= MaxUid /\ uidNext[Rec] <= MaxUid
  /\ IF b = Rec
     THEN /\ UNCHANGED <<content, uidNext, hashes>>
          /\ Log("Append", <<b, l, 0>>, "none", "NO")
     ELSE CASE fail = "none" ->
                 /\ content' = AddTo(b, <<l>>)
                 /\ uidNext' = [uidNext EXCEPT ![b] = @ + 1]
                 /\ UNCHANGED hashes
                 /\ Log("Append", <<b, l, uidNext[b]>>, fail, "OK")
            [] fail = "size" ->
                 /\ UNCHANGED <<content, uidNext, hashes>>
                 /\ Log("Append", <<b, l, 0>>, fail, "NO")
            [] fail = "create" ->
                 /\ IF l \in hashes
                    THEN UNCHANGED <<content, uidNext, hashes>>
                    ELSE /\ content' = AddTo(Rec, <<l>>)
                         /\ uidNext' = [uidNext EXCEPT ![Rec] = @ + 1]
                         /\ hashes' = hashes \cup ({l} \ Unhashable)
                 /\ Log("Append", <<b, l, 0>>, fail, "NO")

\* COPY positions P of the recovery mailbox to a normal mailbox d.
\* fail: "none", "create" (import fails), "add" (labelling fails): any failure rolls everything back
CopyOut(P, d, fail) ==
  /\ P # {} /\ P \subseteq 1..Len(content[Rec]) /\ d \in Normal
  /\ uidNext[d] + Cardinality(P) - 1 <= MaxUid
  /\ LET ps == AscSeq(P)
         ls == [i \in 1..Len(ps) |-> content[Rec][ps[i]].lit]
     IN IF fail = "none"
        THEN /\ content' = AddOut(d, ls)
             /\ uidNext' = [uidNext EXCEPT ![d] = @ + Len(NewFor(d, ls))]
             /\ UNCHANGED hashes
             /\ Log("CopyOut", <<ps, d, [i \in 1..Len(NewFor(d, ls)) |-> uidNext[d] + i - 1]>>, fail, "OK")
        ELSE /\ UNCHANGED <<content, uidNext, hashes>>
             /\ Log("CopyOut", <<ps, d, <<>>>>, fail, "NO")

\* MOVE positions P of the recovery mailbox to d: the recovery mailbox loses them and forgets their hashes
MoveOut(P, d, fail) ==
  /\ P # {} /\ P \subseteq 1..Len(content[Rec]) /\ d \in Normal
  /\ uidNext[d] + Cardinality(P) - 1 <= MaxUid
  /\ LET ps == AscSeq(P)
         ls == [i \in 1..Len(ps) |-> content[Rec][ps[i]].lit]
     IN IF fail = "none"
        THEN /\ content' = [AddOut(d, ls) EXCEPT ![Rec] = DropPositions(content[Rec], P)]
             /\ uidNext' = [uidNext EXCEPT ![d] = @ + Len(NewFor(d, ls))]
             /\ hashes' = hashes \ {ls[i] : i \in 1..Len(ls)}
             /\ Log("MoveOut", <<ps, d, [i \in 1..Len(NewFor(d, ls)) |-> uidNext[d] + i - 1]>>, fail, "OK")
        ELSE \* a refused MOVE changes nothing - in particular the hashes are still known
             /\ UNCHANGED <<content, uidNext, hashes>>
             /\ Log("MoveOut", <<ps, d, <<>>>>, fail, "NO")

\* STORE \Deleted + EXPUNGE inside the recovery mailbox: the user throws recovered messages away
ExpungeRec(P) ==
  /\ P # {} /\ P \subseteq 1..Len(content[Rec])
  /\ content' = [content EXCEPT ![Rec] = DropPositions(@, P)]
  /\ hashes' = hashes \ {content[Rec][i].lit : i \in P}
  /\ UNCHANGED uidNext
  /\ Log("ExpungeRec", <<AscSeq(P)>>, "none", "OK")

\* operations on the recovery mailbox that clients may not perform
ProtectedKinds == {"CreateRec", "CreateRecLower", "CreateRecChild", "DeleteRec", "DeleteRecUpper",
                   "RenameRecAway", "RenameOntoRec", "CopyIntoRec", "MoveIntoRec", "AppendRecLower"}
Protected(k) ==
  /\ k \in ProtectedKinds
  \* COPY/MOVE into it need a message in a normal mailbox to address
  /\ (k \in {"CopyIntoRec", "MoveIntoRec"} => \E b \in Normal : content[b] # <<>>)
  /\ UNCHANGED <<content, uidNext, hashes>>
  /\ Log("Protected", <<k>>, "none", "NO")

\* close and reopen the server: the hash set is rebuilt from what the recovery mailbox holds
Restart ==
  /\ hashes' = LitsOf(Rec) \ Unhashable
  /\ UNCHANGED <<content, uidNext>>
  /\ Log("Restart", <<>>, "none", "OK")

Fails == {"none", "create", "size"}
OutFails == {"none", "create", "add"}

Free ==
  \/ \E l \in Lits, b \in AllBoxes, f \in Fails : CmdAppend(l, b, f)
  \/ \E d \in Normal, f \in OutFails : \E P \in SUBSET (1..Len(content[Rec])) : CopyOut(P, d, f) \/ MoveOut(P, d, f)
  \/ \E P \in SUBSET (1..Len(content[Rec])) : ExpungeRec(P)
  \/ \E k \in ProtectedKinds : Protected(k)
  \/ Restart

StepRecord ==
  [act |-> last'.act, args |-> last'.args, fail |-> last'.fail, status |-> last'.status, listed |-> last'.listed,
   content |-> [b \in AllBoxes |-> content'[b]], uidnext |-> uidNext']
Keep == IF Record THEN hist' = Append(hist, StepRecord) ELSE hist' = hist

\* the closing step has exactly one successor, so a simulated behaviour is printed exactly once
Closing == steps = MaxSteps /\ steps' = steps + 1 /\ UNCHANGED <<content, uidNext, hashes, last, hist>>
Next == (steps < MaxSteps /\ Free /\ Keep) \/ Closing
Spec == Init /\ [][Next]_vars

EmitBehaviour == (Record /\ steps > MaxSteps) => PrintT(ToJson([trace |-> hist]))

-----------------------------------------------------------------------------
(* Properties *)

\* the hash set is exactly what the recovery mailbox holds: nothing is "known" that is not there
HashesMatch == hashes = LitsOf(Rec) \ Unhashable

\* once per distinct message
OncePerDistinct == \A l \in Lits \ Unhashable : Count(Rec, l) <= 1

\* APPEND answered OK => the message is in the target mailbox under the announced UID
OkMeansPresent ==
  (last.act = "Append" /\ last.status = "OK") =>
     \E i \in 1..Len(content[last.args[1]]) :
        content[last.args[1]][i].lit = last.args[2] /\ content[last.args[1]][i].uid = last.args[3]

\* APPEND rejected by the remote for another reason than size => the bytes are in the recovery mailbox
RejectedMeansRecovered ==
  (last.act = "Append" /\ last.fail = "create") => last.args[2] \in LitsOf(Rec)

\* a refused command changes nothing (except the recovery insertion of a rejected APPEND)
RefusedIsClean ==
  [][(last'.status = "NO" /\ ~(last'.act = "Append" /\ last'.fail = "create")) =>
        (content' = content /\ uidNext' = uidNext /\ hashes' = hashes)]_vars

\* a message that left the recovery mailbox by an OK'd MOVE / COPY is in the destination (also when the remote de-duplicates)
OutMeansPresent ==
  [][(last'.act \in {"MoveOut", "CopyOut"} /\ last'.status = "OK" /\ steps < MaxSteps) =>
        \A i \in 1..Len(last'.args[1]) : content[Rec][last'.args[1][i]].lit \in {content'[last'.args[2]][j].lit : j \in 1..Len(content'[last'.args[2]])}]_vars

\* messages can be moved out: a MOVE without failure empties the positions it names
CanMoveOut ==
  [][(steps < MaxSteps /\ last'.act = "MoveOut" /\ last'.status = "OK") => Len(content'[Rec]) < Len(content[Rec])]_vars

UidsAscending == \A b \in AllBoxes : \A i \in 1..(Len(content[b]) - 1) : content[b][i].uid < content[b][i + 1].uid
=============================================================================
