------------------------------ MODULE GluonCore ------------------------------
(***************************************************************************)
(* The message pipeline of gluon: authoritative mailboxes (SQLite rows),   *)
(* per-session snapshots, responder queues, per-state update queues, the   *)
(* connector update stream and the client-side mirror.                     *)
(*                                                                         *)
(* One action = one critical section of the implementation:                *)
(*   Cmd*        a client command: one DB transaction built from the       *)
(*               action* helpers (internal/state/actions.go), the          *)
(*               command's own updates applied to its own state at once    *)
(*               (QueueOrApplyStateUpdate), the same updates queued to all *)
(*               other states, then the flush the handler performs         *)
(*   Deliver(s)  the session loop takes one update from its queue:         *)
(*               State.ApplyUpdate = Filter, then Apply -> PushResponder   *)
(*   Conn*       backend.user.apply of one connector update: one DB        *)
(*               transaction, then queueStateUpdate to every state         *)
(*                                                                         *)
(* Deliberate deviations of the code from the intended design are switches *)
(* (FixFilter, FixFetchHold, ...): FALSE = what the pinned code does.      *)
(* \Recent is not modelled (the harness ignores it on the wire).           *)
(***************************************************************************)
EXTENDS Integers, Sequences, FiniteSets, TLC, SequencesExt, Json

CONSTANTS Sessions,      \* session names (strings)
          Msgs,          \* abstract messages = distinct literals (strings)
          Boxes,         \* mailbox names (strings)
          MaxUid,        \* no UID above this is handed out in the bounded model
          MaxRes,        \* bound on the responder queue (state constraint)
          MaxQ,          \* bound on the update queue (state constraint)
          MaxSteps,      \* simulation: length of the free phase
          MaxMsgs,       \* configured limit: messages per mailbox (C17); use a big number for "no limit"
          LimitUid,      \* configured limit: highest UID (C17)
          FixFilter,     \* TRUE: update filters also look at queued Exists responders (repair of F1)
          FixFetchHold,  \* TRUE: popResponders holds Fetch responders of held-back messages (repair of F15)
          FixHoldOrder,  \* TRUE: once an Exists is held back, every later Exists is held back too (keeps UID order)
          DrainFirst,    \* TRUE: a session only runs a command when its update queue is empty
          Acts,          \* names of the actions this configuration explores
          StoreArgs,     \* set of [op, F, silent, asuid] records tried by STORE
          ConnFlagSets,  \* flag sets the connector may set
          Record,        \* TRUE: keep the behaviour in hist (simulation)
          PrefixSets,    \* TRUE: position sets tried by commands are the prefixes {1}, {1,2}, ... only (messages are symmetric)
          Actors,        \* the sessions that issue commands in the free phase (the others only observe)
          Script         \* <<>> or a sequence of [act, s, args]: the free phase follows exactly this schedule

None == "none"
RecoveryBox == "Recovered Messages"
Unknown == {"?"}
\* the keyword "forwarded" has two spellings; a STORE that names one of them means both (internal/state/updates.go)
Fwd == {"$Forwarded", "Forwarded"}
ConnShared == {"Seen", "Flagged"}      \* what the connector's updates of the model carry
SharedFlags == ConnShared \cup Fwd
AllFlags == SharedFlags \cup {"Deleted"}

\* fixed orders (strings cannot be compared by TLC)
FlagOrder == <<"$Forwarded", "Deleted", "Flagged", "Forwarded", "Seen">>
AscFlags(F) == SelectSeq(FlagOrder, LAMBDA x : x \in F)
BoxSeq == SetToSeq(Boxes)
AscBoxes(B) == SelectSeq(BoxSeq, LAMBDA x : x \in B)

VARIABLES
  rows,     \* [Boxes -> Seq([m, uid, del])]         mailbox_message_<box> table, ordered by uid
  uidNext,  \* [Boxes -> Nat]                        AUTOINCREMENT counter + 1
  flg,      \* [Msgs -> SUBSET SharedFlags]          message_flags_v2 (shared by all mailboxes)
  used,     \* SUBSET Msgs                           message entities that exist
  dead,     \* SUBSET Msgs                           deleted by the remote: never referred to again
  recd,     \* SUBSET Msgs                           literals kept in the recovery mailbox after a refused APPEND
  sel,      \* [Sessions -> Boxes \cup {None}]
  ro,       \* [Sessions -> BOOLEAN]                 EXAMINE
  snap,     \* [Sessions -> Seq([m, uid, f])]        f includes "Deleted"
  res,      \* [Sessions -> Seq(responder)]
  q,        \* [Sessions -> Seq(update)]
  idle,     \* [Sessions -> BOOLEAN]
  mirror,   \* [Sessions -> Seq([uid, f])]           what a client knows: uid 0 / f Unknown = not learned
  taint,    \* [Sessions -> SUBSET STRING]           known deviations that already hit this session
  ever,     \* [Boxes -> SUBSET (Nat \X Msgs)]       every (uid, message) pair ever assigned (C04)
  inv,      \* [Sessions -> BOOLEAN]                 the state was invalidated (UIDValidityBumped applied): next command is answered BYE
  epoch,    \* [Boxes -> Nat]                        number of UIDVALIDITY bumps of the mailbox
  wire,     \* [Sessions -> Seq(response)]           output of the step just taken (not part of the view)
  last,     \* record describing the step just taken (not part of the view)
  steps,    \* number of steps taken (simulation only)
  pick,     \* simulation: the kind of action drawn for the next step (None = not drawn yet)
  hist      \* simulation: the behaviour so far (not part of the view)

vars == <<rows, uidNext, flg, used, dead, recd, sel, ro, snap, res, q, idle, mirror, taint, ever, inv, epoch, wire, last, steps, pick, hist>>
view == <<rows, uidNext, flg, used, dead, recd, sel, ro, snap, res, q, idle, mirror, taint, inv, epoch>>
viewNoMirror == <<rows, uidNext, flg, used, dead, recd, sel, ro, snap, res, q, idle, taint, inv, epoch>>

-----------------------------------------------------------------------------
(* Sequences of records carrying a message id in field m *)
HasMsg(sq, m) == \E i \in 1..Len(sq) : sq[i].m = m
PosOf(sq, m) == CHOOSE i \in 1..Len(sq) : sq[i].m = m
RemoveAtPos(sq, i) == SubSeq(sq, 1, i - 1) \o SubSeq(sq, i + 1, Len(sq))
RemoveMsgs(sq, ms) == SelectSeq(sq, LAMBDA r : r.m \notin ms)
InsertByUid(sq, r) ==
  LET k == Cardinality({i \in 1..Len(sq) : sq[i].uid < r.uid})
  IN SubSeq(sq, 1, k) \o <<r>> \o SubSeq(sq, k + 1, Len(sq))
SeqToSet(sq) == {sq[i] : i \in 1..Len(sq)}
MsgsOf(sq) == {sq[i].m : i \in 1..Len(sq)}

\* positions of a view in ascending order as a sequence
RECURSIVE AscSeq(_)
AscSeq(S) == IF S = {} THEN <<>> ELSE LET x == CHOOSE y \in S : \A z \in S : y <= z IN <<x>> \o AscSeq(S \ {x})

\* the authoritative view of a mailbox, in the shape of a snapshot
DbFlags(b, i) == flg[rows[b][i].m] \cup (IF rows[b][i].del THEN {"Deleted"} ELSE {})
DbView(b) == [i \in 1..Len(rows[b]) |-> [m |-> rows[b][i].m, uid |-> rows[b][i].uid, f |-> DbFlags(b, i)]]

-----------------------------------------------------------------------------
(* Responders: internal/state/responders.go                                 *)
ApplyOp(cur, op, f) ==
  CASE op = "add" -> cur \cup f
    [] op = "rem" -> cur \ f
    [] op = "set" -> f

\* one responder against a snapshot: new snapshot, output, out-of-order insertion?
HandleOne(sn, r, closing) ==
  CASE r.k = "Exists" ->
         IF HasMsg(sn, r.m) THEN [snap |-> sn, out |-> <<>>, ooo |-> FALSE]
         ELSE LET sn2 == InsertByUid(sn, [m |-> r.m, uid |-> r.uid, f |-> r.f])
              IN [snap |-> sn2, out |-> <<[t |-> "EXISTS", n |-> Len(sn2)]>>,
                  ooo |-> (Len(sn) > 0 /\ sn[Len(sn)].uid > r.uid)]
    [] r.k = "Expunge" ->
         IF ~HasMsg(sn, r.m) THEN [snap |-> sn, out |-> <<>>, ooo |-> FALSE]
         ELSE LET p == PosOf(sn, r.m)
              IN [snap |-> RemoveAtPos(sn, p),
                  out |-> IF closing THEN <<>> ELSE <<[t |-> "EXPUNGE", n |-> p]>>, ooo |-> FALSE]
    [] r.k = "Fetch" ->
         IF ~HasMsg(sn, r.m) THEN [snap |-> sn, out |-> <<>>, ooo |-> FALSE]
         ELSE LET p == PosOf(sn, r.m)
                  cur == sn[p].f
                  new0 == ApplyOp(cur, r.op, r.f)
                  \* a flag change made in another mailbox never touches this mailbox's \Deleted
                  new == IF r.other
                         THEN (new0 \ {"Deleted"}) \cup (cur \cap {"Deleted"})
                         ELSE new0
                  sn2 == [sn EXCEPT ![p].f = new]
              IN IF new = cur \/ r.silent
                 THEN [snap |-> sn2, out |-> <<>>, ooo |-> FALSE]
                 ELSE [snap |-> sn2,
                       out |-> <<[t |-> "FETCH", n |-> p, f |-> new, uid |-> IF r.asuid THEN sn[p].uid ELSE 0]>>,
                       ooo |-> FALSE]

RECURSIVE HandleAll(_, _, _)
HandleAll(sn, rs, closing) ==
  IF rs = <<>> THEN [snap |-> sn, out |-> <<>>, ooo |-> FALSE]
  ELSE LET h == HandleOne(sn, Head(rs), closing)
           t == HandleAll(h.snap, Tail(rs), closing)
       IN [snap |-> t.snap, out |-> h.out \o t.out, ooo |-> (h.ooo \/ t.ooo)]

(* popResponders(permitExpunge = FALSE): expunges stay, and so does the first Exists  *)
(* of a message whose expunge is held back.  passed = a Fetch was popped although an  *)
(* Exists of its message was held back (deviation F15).                               *)
RECURSIVE Pop(_, _, _, _, _, _)
Pop(rs, skip, held, pop, rem, passed) ==
  IF rs = <<>> THEN [pop |-> pop, rem |-> rem, passed |-> passed]
  ELSE LET r == Head(rs) IN
       IF r.k = "Expunge" THEN Pop(Tail(rs), skip \cup {r.m}, held, pop, Append(rem, r), passed)
       ELSE IF r.k = "Exists" /\ (r.m \in skip \/ (FixHoldOrder /\ held # {}))
            THEN Pop(Tail(rs), skip \ {r.m}, held \cup {r.m}, pop, Append(rem, r), passed)
       ELSE IF r.k = "Fetch" /\ r.m \in held
            THEN IF FixFetchHold THEN Pop(Tail(rs), skip, held, pop, Append(rem, [r EXCEPT !.silent = FALSE]), passed)
                 ELSE Pop(Tail(rs), skip, held, Append(pop, r), rem, TRUE)
       ELSE Pop(Tail(rs), skip, held, Append(pop, r), rem, passed)

PopResponders(rs, permit) ==
  IF permit THEN [pop |-> rs, rem |-> <<>>, passed |-> FALSE] ELSE Pop(rs, {}, {}, <<>>, <<>>, FALSE)

FlushResult(sn, rs0, permit, closing) ==
  LET pr == PopResponders(rs0, permit)
      h  == HandleAll(sn, pr.pop, closing)
  IN [snap |-> h.snap, res |-> pr.rem, out |-> h.out, ooo |-> h.ooo, passed |-> pr.passed]

-----------------------------------------------------------------------------
(* The client-side mirror: the weakest client that follows RFC 3501          *)
RECURSIVE MirrorApply(_, _)
MirrorApply(mi, out) ==
  IF out = <<>> THEN mi
  ELSE LET o == Head(out)
           mi2 == CASE o.t = "EXISTS" ->
                        IF o.n >= Len(mi)
                        THEN mi \o [i \in 1..(o.n - Len(mi)) |-> [uid |-> 0, f |-> Unknown]]
                        ELSE mi    \* a shrinking EXISTS is never produced; kept total
                     [] o.t = "EXPUNGE" -> IF o.n <= Len(mi) THEN RemoveAtPos(mi, o.n) ELSE mi
                     [] o.t = "FETCH" ->
                        IF o.n > Len(mi) THEN mi
                        ELSE IF o.uid # 0
                             THEN [mi EXCEPT ![o.n] = [uid |-> o.uid, f |-> IF o.f = Unknown THEN @.f ELSE o.f]]
                             ELSE IF o.f = Unknown THEN mi        \* a FETCH line without FLAGS teaches nothing about flags
                             ELSE [mi EXCEPT ![o.n].f = o.f]
                     [] OTHER -> mi
       IN MirrorApply(mi2, Tail(out))

Forget(mi, P) == [i \in 1..Len(mi) |-> IF i \in P THEN [mi[i] EXCEPT !.f = Unknown] ELSE mi[i]]

-----------------------------------------------------------------------------
(* State updates (internal/state/updates*.go) and their filters (filters.go)  *)
ExistsU(b, items, origin) == [k |-> "Exists", box |-> b, items |-> items, origin |-> origin]
ExpungeU(b, m) == [k |-> "Expunge", box |-> b, m |-> m]
\* a combo of flag sub-updates, each [op, ms (sequence), f, box, st, asuid, silent]
FlagsU(subs) == [k |-> "Flags", subs |-> subs]
RemoteFlagU(m, op, f) == [k |-> "RFlag", m |-> m, op |-> op, f |-> f]
\* MessageIDChanged: the new remote id travels to the snapshots as an update without client-visible effect
IdU(m) == [k |-> "IdChg", m |-> m]
\* UIDValidityBumped: every state that has a mailbox selected is marked invalid (AllStateFilter: snap # nil)
BumpU == [k |-> "Bump"]

QueuedExists(rs, m) == \E i \in 1..Len(rs) : rs[i].k = "Exists" /\ rs[i].m = m

\* does session s (with snapshot sn and responder queue rs) pass the update's filter?
Passes(u, s, sn, rs) ==
  /\ sel[s] # None
  /\ CASE u.k = "Exists"  -> sel[s] = u.box
       [] u.k = "Expunge" -> sel[s] = u.box /\ (HasMsg(sn, u.m) \/ (FixFilter /\ QueuedExists(rs, u.m)))
       [] u.k = "Flags"   -> TRUE
       [] u.k = "RFlag"   -> HasMsg(sn, u.m) \/ (FixFilter /\ QueuedExists(rs, u.m))
       [] u.k = "IdChg"   -> HasMsg(sn, u.m) \/ (FixFilter /\ QueuedExists(rs, u.m))
       [] u.k = "Bump"    -> TRUE

\* the filter drops an update although an Exists for its message is queued (deviation F1)
DropsQueued(u, s, sn, rs) ==
  /\ sel[s] # None /\ ~FixFilter
  /\ \/ (u.k = "Expunge" /\ sel[s] = u.box /\ ~HasMsg(sn, u.m) /\ QueuedExists(rs, u.m))
     \/ (u.k = "RFlag" /\ ~HasMsg(sn, u.m) /\ QueuedExists(rs, u.m))

RECURSIVE SubResponders(_, _, _)
SubResponders(subs, s, own) ==
  IF subs = <<>> THEN <<>>
  ELSE LET su == Head(subs) IN
       [i \in 1..Len(su.ms) |->
          [k |-> "Fetch", m |-> su.ms[i], f |-> su.f, op |-> su.op,
           asuid |-> (own /\ su.asuid),
           silent |-> (own /\ su.silent),
           other |-> (sel[s] # su.box)]]
       \o SubResponders(Tail(subs), s, own)

\* responders an update yields for session s; own = s runs the command that made the update
Responders(u, s, own) ==
  CASE u.k = "Exists"  -> [i \in 1..Len(u.items) |->
                             [k |-> "Exists", m |-> u.items[i].m, uid |-> u.items[i].uid, f |-> u.items[i].f,
                              own |-> (u.origin = s)]]
    [] u.k = "Expunge" -> <<[k |-> "Expunge", m |-> u.m]>>
    [] u.k = "Flags"   -> SubResponders(u.subs, s, own)
    [] u.k = "RFlag"   -> <<[k |-> "Fetch", m |-> u.m, f |-> u.f, op |-> u.op, asuid |-> FALSE, silent |-> FALSE, other |-> FALSE]>>
    [] u.k = "IdChg"   -> <<>>
    [] u.k = "Bump"    -> <<>>

\* the command's own updates are applied to its own state at once, in order:
\* filter on the *current* snapshot, then PushResponder (queue: the session is not idle)
RECURSIVE OwnApply(_, _, _, _)
OwnApply(s, us, sn, acc) ==
  IF us = <<>> THEN acc
  ELSE LET u == Head(us) IN
       IF Passes(u, s, sn, acc) THEN OwnApply(s, Tail(us), sn, acc \o Responders(u, s, TRUE))
       ELSE OwnApply(s, Tail(us), sn, acc)

\* an own update is applied although an older update for the same message is still queued (deviation F14)
MsgsOfUpdate(u) ==
  CASE u.k = "Exists"  -> {u.items[i].m : i \in 1..Len(u.items)}
    [] u.k = "Expunge" -> {u.m}
    [] u.k = "Flags"   -> UNION {SeqToSet(u.subs[i].ms) : i \in 1..Len(u.subs)}
    [] u.k = "RFlag"   -> {u.m}
    [] u.k = "IdChg"   -> {}          \* nothing a client can see depends on its position in the queue
    [] u.k = "Bump"    -> {}
JumpsQueue(s, us) ==
  \E i \in 1..Len(us), j \in 1..Len(q[s]) : MsgsOfUpdate(us[i]) \cap MsgsOfUpdate(q[s][j]) # {}

\* could update u pass the filter of a session that has mailbox b selected?
Relevant(u, b) == IF u.k \in {"Exists", "Expunge"} THEN u.box = b ELSE u.k \notin {"IdChg", "Bump"}

EnqueueOthers(s, us) == [t \in Sessions |-> IF t = s THEN q[t] ELSE q[t] \o us]
EnqueueAll(us) == [t \in Sessions |-> q[t] \o us]

-----------------------------------------------------------------------------
(* bookkeeping of a step *)
Quiet == [t \in Sessions |-> <<>>]
Log(act, s, args, status) ==
  /\ last' = [act |-> act, s |-> s, args |-> args, status |-> status]
  /\ steps' = steps + 1
  /\ pick' = None

\* end of a command of a selected session: own updates, flush, mirror, wire
\*   mode = "exp" (flush with permitExpunge), "noexp", "none"; pre = data responses sent before the flush
FinishSel(s, us, mode, pre, forget, closing) ==
  LET rs0 == OwnApply(s, us, snap[s], res[s])
      fr  == IF mode = "none"
             THEN [snap |-> snap[s], res |-> rs0, out |-> <<>>, ooo |-> FALSE, passed |-> FALSE]
             ELSE FlushResult(snap[s], rs0, mode = "exp", closing)
      out == pre \o fr.out
      mi  == Forget(MirrorApply(mirror[s], out), forget)
      tn  == (IF fr.ooo THEN {"F13"} ELSE {}) \cup (IF fr.passed THEN {"F15"} ELSE {})
                \cup (IF JumpsQueue(s, us) THEN {"F14"} ELSE {})
  IN /\ snap' = [snap EXCEPT ![s] = fr.snap]
     /\ res'  = [res EXCEPT ![s] = fr.res]
     /\ wire' = [Quiet EXCEPT ![s] = out]
     /\ mirror' = [mirror EXCEPT ![s] = mi]
     /\ taint' = [taint EXCEPT ![s] = @ \cup tn]

\* a command of a session that has no mailbox selected (or that does not touch its selection)
FinishPlain(s) ==
  /\ wire' = Quiet
  /\ UNCHANGED <<snap, res, mirror, taint>>

Expunging(s) == \E i \in 1..Len(res[s]) : res[s][i].k = "Expunge"

-----------------------------------------------------------------------------
Init ==
  /\ rows = [b \in Boxes |-> <<>>]
  /\ uidNext = [b \in Boxes |-> 1]
  /\ flg = [m \in Msgs |-> {}]
  /\ used = {}
  /\ dead = {}
  /\ recd = {}
  /\ sel = [s \in Sessions |-> None]
  /\ ro = [s \in Sessions |-> FALSE]
  /\ snap = [s \in Sessions |-> <<>>]
  /\ res = [s \in Sessions |-> <<>>]
  /\ q = [s \in Sessions |-> <<>>]
  /\ idle = [s \in Sessions |-> FALSE]
  /\ mirror = [s \in Sessions |-> <<>>]
  /\ taint = [s \in Sessions |-> {}]
  /\ ever = [b \in Boxes |-> {}]
  /\ inv = [s \in Sessions |-> FALSE]
  /\ epoch = [b \in Boxes |-> 0]
  /\ wire = Quiet
  /\ last = [act |-> "Init", s |-> None, args |-> <<>>, status |-> "OK"]
  /\ steps = 0
  /\ pick = None
  /\ hist = <<>>

Ready(s) == ~idle[s] /\ ~inv[s] /\ (DrainFirst => q[s] = <<>>)
Fresh(m) == m \notin used /\ m \notin dead /\ m \notin recd

\* commands are not explored on messages the remote has deleted meanwhile (the entity is purged from the
\* database at an unspecified later time - when the last session that still sees it goes away)
NoDead(s, P) == \A i \in P : i \in 1..Len(snap[s]) => snap[s][i].m \notin dead

\* add messages (a sequence) at the end of mailbox b; returns the new rows and the items of the Exists update
AddRows(rw, b, next, ms) ==
  [rows  |-> rw \o [i \in 1..Len(ms) |-> [m |-> ms[i], uid |-> next + i - 1, del |-> FALSE]],
   items |-> [i \in 1..Len(ms) |-> [m |-> ms[i], uid |-> next + i - 1, f |-> flg[ms[i]]]],
   next  |-> next + Len(ms)]

FitsLimits(b, rw, next, n) == Len(rw) + n <= MaxMsgs /\ next + n <= LimitUid /\ next + n - 1 <= MaxUid

EverAdd(b, items) == [ever EXCEPT ![b] = @ \cup {<<items[i].uid, items[i].m>> : i \in 1..Len(items)}]

-----------------------------------------------------------------------------
(* SELECT / EXAMINE / CLOSE / UNSELECT                                        *)
CmdSelect(s, b, readonly) ==
  /\ Ready(s)
  /\ sel' = [sel EXCEPT ![s] = b]
  /\ ro' = [ro EXCEPT ![s] = readonly]
  /\ snap' = [snap EXCEPT ![s] = DbView(b)]
  /\ res' = [res EXCEPT ![s] = <<>>]
  /\ mirror' = [mirror EXCEPT ![s] = [i \in 1..Len(rows[b]) |-> [uid |-> 0, f |-> Unknown]]]
  /\ wire' = [Quiet EXCEPT ![s] = <<[t |-> "EXISTS", n |-> Len(rows[b])]>>]
  \* a snapshot taken while older updates for this mailbox are still queued: they will be applied
  \* on top of a state that already contains them (same family as F14)
  /\ taint' = [taint EXCEPT ![s] = IF \E i \in 1..Len(q[s]) : Relevant(q[s][i], b) THEN {"F14"} ELSE {}]
  /\ Log(IF readonly THEN "Examine" ELSE "Select", s, <<b>>, "OK")
  /\ UNCHANGED <<rows, uidNext, flg, used, dead, recd, q, idle, ever>>

\* the messages EXPUNGE / CLOSE remove: marked \Deleted in the *session's view* and still rows of the mailbox
ToExpunge(s, P) ==
  LET b == sel[s]
      cand == {i \in P : "Deleted" \in snap[s][i].f}
  IN [i \in 1..Len(AscSeq({j \in cand : HasMsg(rows[b], snap[s][j].m)})) |->
        snap[s][AscSeq({j \in cand : HasMsg(rows[b], snap[s][j].m)})[i]].m]

ExpungeUpdates(b, ms) == [i \in 1..Len(ms) |-> ExpungeU(b, ms[i])]

CmdClose(s, unselect) ==
  /\ Ready(s) /\ sel[s] # None
  /\ LET b == sel[s]
         ms == IF unselect \/ ro[s] THEN <<>> ELSE ToExpunge(s, 1..Len(snap[s]))
         us == ExpungeUpdates(b, ms)
     IN /\ rows' = [rows EXCEPT ![b] = RemoveMsgs(@, SeqToSet(ms))]
        /\ q' = EnqueueOthers(s, us)
  /\ sel' = [sel EXCEPT ![s] = None]
  /\ ro' = [ro EXCEPT ![s] = FALSE]
  /\ snap' = [snap EXCEPT ![s] = <<>>]
  /\ res' = [res EXCEPT ![s] = <<>>]
  /\ mirror' = [mirror EXCEPT ![s] = <<>>]
  /\ wire' = Quiet
  /\ taint' = [taint EXCEPT ![s] = {}]
  /\ Log(IF unselect THEN "Unselect" ELSE "Close", s, <<>>, "OK")
  /\ UNCHANGED <<uidNext, flg, used, dead, recd, idle, ever>>

-----------------------------------------------------------------------------
(* APPEND of a fresh literal m into mailbox b                                 *)
CmdAppend(s, b, m) ==
  /\ Ready(s) /\ m \notin used /\ m \notin dead
  /\ IF FitsLimits(b, rows[b], uidNext[b], 1)
     THEN LET ar == AddRows(rows[b], b, uidNext[b], <<m>>)
              same == sel[s] = b
              u == ExistsU(b, ar.items, IF same THEN s ELSE None)
          IN /\ rows' = [rows EXCEPT ![b] = ar.rows]
             /\ uidNext' = [uidNext EXCEPT ![b] = ar.next]
             /\ used' = used \cup {m}
             /\ dead' = dead /\ recd' = recd
             /\ ever' = EverAdd(b, ar.items)
             /\ q' = EnqueueOthers(s, <<u>>)
             /\ IF same THEN FinishSel(s, <<u>>, "exp", <<>>, {}, FALSE)
                ELSE IF sel[s] # None THEN FinishSel(s, <<u>>, "none", <<>>, {}, FALSE) ELSE FinishPlain(s)
             /\ Log("Append", s, <<b, m, uidNext[b]>>, "OK")
     ELSE \* refused (limit): the literal is kept in the recovery mailbox, once per distinct literal, and the
          \* arrival there is published like any other (nobody in this model has that mailbox selected)
          /\ UNCHANGED <<rows, uidNext, used, dead, ever>>
          /\ recd' = recd \cup {m}
          /\ q' = IF m \in recd THEN q
                  ELSE EnqueueOthers(s, <<ExistsU(RecoveryBox, <<[m |-> m, uid |-> Cardinality(recd) + 1, f |-> {}]>>, None)>>)
          /\ FinishPlain(s)
          /\ Log("Append", s, <<b, m, 0>>, "NO")
  /\ UNCHANGED <<flg, sel, ro, idle>>

-----------------------------------------------------------------------------
(* STORE on positions P of the session's view                                 *)
\*   op in add/rem/set, F a set of flags, silent, asuid
CmdStore(s, P, op, F0, silent, asuid) ==
  /\ Ready(s) /\ sel[s] # None /\ ~ro[s]
  /\ NoDead(s, P)
  /\ P # {} /\ P \subseteq 1..Len(snap[s])
  /\ LET b == sel[s]
         F == IF F0 \cap Fwd # {} THEN F0 \cup Fwd ELSE F0   \* what is committed AND published
         ps == AscSeq(P)
         ms == [i \in 1..Len(ps) |-> snap[s][ps[i]].m]
         mset == SeqToSet(ms)
         sh == F \cap SharedFlags
         sub(o, list, f) == [op |-> o, ms |-> list, f |-> f, box |-> b, st |-> s, asuid |-> asuid, silent |-> silent]
         \* per shared flag: the messages whose DB value changes (in the order of the set)
         chg(fl) == SelectSeq(ms, LAMBDA m : IF op = "add" THEN fl \notin flg[m] ELSE fl \in flg[m])
         flagSubs == [i \in 1..Len(AscFlags(sh)) |-> sub(op, chg(AscFlags(sh)[i]), sh)]
         delSub == IF "Deleted" \in F THEN <<sub(op, ms, {"Deleted"})>> ELSE <<>>
         u == IF op = "set" THEN FlagsU(<<sub("set", ms, F)>>) ELSE FlagsU(delSub \o flagSubs)
     IN /\ rows' = [rows EXCEPT ![b] =
                      [i \in 1..Len(@) |->
                         IF @[i].m \in mset /\ (op = "set" \/ "Deleted" \in F)
                         THEN [@[i] EXCEPT !.del = IF op = "rem" THEN FALSE ELSE "Deleted" \in F]
                         ELSE @[i]]]
        /\ flg' = [m \in Msgs |->
                     IF m \notin mset THEN flg[m]
                     ELSE CASE op = "add" -> flg[m] \cup sh
                            [] op = "rem" -> flg[m] \ sh
                            [] op = "set" -> sh]
        /\ q' = EnqueueOthers(s, <<u>>)
        /\ FinishSel(s, <<u>>, "noexp", <<>>, IF silent THEN P ELSE {}, FALSE)
  /\ Log("Store", s, <<AscSeq(P), op, AscFlags(F0), silent, asuid>>, "OK")
  /\ UNCHANGED <<uidNext, used, dead, recd, sel, ro, idle, ever>>

(* commands that are refused with NO in the selected state: STORE in a read-only (EXAMINE) selection, and    *)
(* FETCH of a body part the message does not have (with .PEEK, and without: the \Seen side effect of a      *)
(* body fetch belongs to a fetch that succeeds).  Nothing changes; the handler still flushes, and that       *)
(* flush must not release removals either.                                                                   *)
CmdRefused(s, kind) ==
  /\ Ready(s) /\ sel[s] # None /\ Len(snap[s]) > 0
  /\ kind \in {"StoreRO", "FetchNoPart", "FetchBodyNoPart"}
  /\ (kind = "StoreRO" => ro[s])
  /\ FinishSel(s, <<>>, "noexp", <<>>, {}, FALSE)
  /\ Log("Refused", s, <<kind>>, "NO")
  /\ UNCHANGED <<rows, uidNext, flg, used, dead, recd, sel, ro, q, idle, ever>>

-----------------------------------------------------------------------------
(* EXPUNGE, UID EXPUNGE (P = positions addressed by the UID set)              *)
CmdExpunge(s, P, byuid) ==
  /\ Ready(s) /\ sel[s] # None /\ ~ro[s]
  /\ P \subseteq 1..Len(snap[s])
  /\ (~byuid => P = 1..Len(snap[s]))
  /\ LET b == sel[s]
         ms == ToExpunge(s, P)
         us == ExpungeUpdates(b, ms)
     IN /\ rows' = [rows EXCEPT ![b] = RemoveMsgs(@, SeqToSet(ms))]
        /\ q' = EnqueueOthers(s, us)
        /\ FinishSel(s, us, "exp", <<>>, {}, FALSE)
  /\ Log(IF byuid THEN "UidExpunge" ELSE "Expunge", s, <<AscSeq(P)>>, "OK")
  /\ UNCHANGED <<uidNext, flg, used, dead, recd, sel, ro, idle, ever>>

-----------------------------------------------------------------------------
(* NOOP / CHECK: flush with permitExpunge                                     *)
CmdNoop(s) ==
  /\ Ready(s)
  /\ IF sel[s] # None THEN FinishSel(s, <<>>, "exp", <<>>, {}, FALSE) ELSE FinishPlain(s)
  /\ Log("Noop", s, <<>>, "OK")
  /\ UNCHANGED <<rows, uidNext, flg, used, dead, recd, sel, ro, q, idle, ever>>

(* CHECK: exactly like NOOP in a selection *)
CmdCheck(s) ==
  /\ Ready(s) /\ sel[s] # None
  /\ FinishSel(s, <<>>, "exp", <<>>, {}, FALSE)
  /\ Log("Check", s, <<>>, "OK")
  /\ UNCHANGED <<rows, uidNext, flg, used, dead, recd, sel, ro, q, idle, ever>>

(* STATUS b (MESSAGES UIDNEXT): handleStatus flushes the session's selection with permitExpunge whichever mailbox is asked *)
(* for (state.Mailbox hands the handler a Mailbox with a snapshot in either case, so Mailbox.Selected() is always true);   *)
(* the numbers are those of the session's own view for the selected mailbox and of the database for another one           *)
CmdStatus(s, b) ==
  /\ Ready(s)
  /\ IF sel[s] # None
     THEN FinishSel(s, <<>>, "exp", <<>>, {}, FALSE)
     ELSE FinishPlain(s)
  /\ IF sel[s] = b
     THEN Log("StatusSel", s, <<b, Len(FlushResult(snap[s], res[s], TRUE, FALSE).snap), uidNext[b]>>, "OK")
     ELSE Log(IF sel[s] = None THEN "StatusOther" ELSE "StatusSel", s, <<b, Len(rows[b]), uidNext[b]>>, "OK")
  /\ UNCHANGED <<rows, uidNext, flg, used, dead, recd, sel, ro, q, idle, ever>>

(* FETCH 1:* (UID FLAGS): answers from the snapshot, then flush without expunge *)
CmdFetch(s) ==
  /\ Ready(s) /\ sel[s] # None /\ Len(snap[s]) > 0
  /\ LET pre == [i \in 1..Len(snap[s]) |-> [t |-> "FETCH", n |-> i, uid |-> snap[s][i].uid, f |-> snap[s][i].f]]
     IN FinishSel(s, <<>>, "noexp", pre, {}, FALSE)
  /\ Log("Fetch", s, <<>>, IF Expunging(s) THEN "OK-EXPUNGEISSUED" ELSE "OK")
  /\ UNCHANGED <<rows, uidNext, flg, used, dead, recd, sel, ro, q, idle, ever>>

(* SEARCH ALL / SEARCH DELETED (or UID SEARCH): answers from the snapshot - one SEARCH line with the matching      *)
(* sequence numbers (UIDs) in ascending order - then flush without expunge; says EXPUNGEISSUED like FETCH          *)
CmdSearch(s, key, byuid) ==
  /\ Ready(s) /\ sel[s] # None /\ key \in {"ALL", "DELETED"}
  /\ LET hit == {i \in 1..Len(snap[s]) : key = "ALL" \/ "Deleted" \in snap[s][i].f}
         nums == [i \in 1..Cardinality(hit) |-> IF byuid THEN snap[s][AscSeq(hit)[i]].uid ELSE AscSeq(hit)[i]]
     IN FinishSel(s, <<>>, "noexp", <<[t |-> "SEARCH", n |-> Len(snap[s]), nums |-> nums]>>, {}, FALSE)
  /\ Log("Search", s, <<key, byuid>>, IF Expunging(s) THEN "OK-EXPUNGEISSUED" ELSE "OK")
  /\ UNCHANGED <<rows, uidNext, flg, used, dead, recd, sel, ro, q, idle, ever>>

(* FETCH P (BODY[]) in a read-write selection: \Seen is written straight into the    *)
(* snapshot and reported in the same FETCH line, then the +FLAGS (\Seen) action runs  *)
CmdFetchBody(s, P) ==
  /\ Ready(s) /\ sel[s] # None /\ P # {} /\ P \subseteq 1..Len(snap[s])
  /\ NoDead(s, P)
  /\ LET b == sel[s]
         ps == AscSeq(P)
         ms == [i \in 1..Len(ps) |-> snap[s][ps[i]].m]
         sn1 == IF ro[s] THEN snap[s]
                ELSE [i \in 1..Len(snap[s]) |-> IF i \in P THEN [snap[s][i] EXCEPT !.f = @ \cup {"Seen"}] ELSE snap[s][i]]
         pre == [i \in 1..Len(ps) |->
                   [t |-> "FETCH", n |-> ps[i], uid |-> 0,
                    f |-> IF ~ro[s] /\ "Seen" \notin snap[s][ps[i]].f THEN sn1[ps[i]].f ELSE Unknown]]
         chg == SelectSeq(ms, LAMBDA m : "Seen" \notin flg[m])
         u == FlagsU(<<[op |-> "add", ms |-> chg, f |-> {"Seen"}, box |-> b, st |-> s, asuid |-> FALSE, silent |-> FALSE]>>)
     IN IF ro[s]
        THEN /\ FinishSel(s, <<>>, "noexp", pre, {}, FALSE)
             /\ UNCHANGED <<flg, q>>
        ELSE /\ flg' = [m \in Msgs |-> IF m \in SeqToSet(ms) THEN flg[m] \cup {"Seen"} ELSE flg[m]]
             /\ q' = EnqueueOthers(s, <<u>>)
             /\ LET rs0 == OwnApply(s, <<u>>, sn1, res[s])
                    fr  == FlushResult(sn1, rs0, FALSE, FALSE)
                    out == pre \o fr.out
                IN /\ snap' = [snap EXCEPT ![s] = fr.snap]
                   /\ res' = [res EXCEPT ![s] = fr.res]
                   /\ wire' = [Quiet EXCEPT ![s] = out]
                   /\ mirror' = [mirror EXCEPT ![s] = MirrorApply(mirror[s], out)]
                   /\ taint' = [taint EXCEPT ![s] = @ \cup (IF fr.passed THEN {"F15"} ELSE {})
                                                     \cup (IF fr.ooo THEN {"F13"} ELSE {})
                                                     \cup (IF JumpsQueue(s, <<u>>) THEN {"F14"} ELSE {})]
  /\ Log("FetchBody", s, <<AscSeq(P)>>, "OK")
  /\ UNCHANGED <<rows, uidNext, used, dead, recd, sel, ro, idle, ever>>

-----------------------------------------------------------------------------
(* COPY / MOVE of positions P (ascending) to mailbox d                        *)
\* actionAddMessagesToMailbox: messages already in d are removed from it first, then all are added
CopyEffect(s, ms, d, origin) ==
  LET have == SelectSeq(ms, LAMBDA m : HasMsg(rows[d], m))
      rw1 == RemoveMsgs(rows[d], SeqToSet(have))
      ar == AddRows(rw1, d, uidNext[d], ms)
  IN [ok |-> FitsLimits(d, rw1, uidNext[d], Len(ms)),
      rows |-> ar.rows, next |-> ar.next, items |-> ar.items,
      ups |-> ExpungeUpdates(d, have) \o <<ExistsU(d, ar.items, origin)>>]

CmdCopy(s, P, d) ==
  /\ Ready(s) /\ sel[s] # None /\ ~ro[s] /\ P # {} /\ P \subseteq 1..Len(snap[s])
  /\ NoDead(s, P)
  /\ LET ps == AscSeq(P)
         ms == [i \in 1..Len(ps) |-> snap[s][ps[i]].m]
         ce == CopyEffect(s, ms, d, s)
     IN IF ce.ok
        THEN /\ rows' = [rows EXCEPT ![d] = ce.rows]
             /\ uidNext' = [uidNext EXCEPT ![d] = ce.next]
             /\ ever' = EverAdd(d, ce.items)
             /\ q' = EnqueueOthers(s, ce.ups)
             /\ FinishSel(s, ce.ups, "noexp", <<>>, {}, FALSE)
             /\ Log("Copy", s, <<ps, d, [i \in 1..Len(ce.items) |-> ce.items[i].uid]>>, "OK")
        ELSE /\ UNCHANGED <<rows, uidNext, ever, q>>
             /\ FinishSel(s, <<>>, "noexp", <<>>, {}, FALSE)
             /\ Log("Copy", s, <<ps, d, <<>>>>, "NO")
  /\ UNCHANGED <<flg, used, dead, recd, sel, ro, idle>>

CmdMove(s, P, d) ==
  /\ Ready(s) /\ sel[s] # None /\ ~ro[s] /\ P # {} /\ P \subseteq 1..Len(snap[s])
  /\ NoDead(s, P)
  /\ LET b == sel[s]
         ps == AscSeq(P)
         ms == [i \in 1..Len(ps) |-> snap[s][ps[i]].m]
     IN IF d = b
        THEN \* onto itself: remove everything addressed (unchecked), add again without an origin
             LET rw1 == RemoveMsgs(rows[b], SeqToSet(ms))
                 ar == AddRows(rw1, b, uidNext[b], ms)
                 ups == ExpungeUpdates(b, ms) \o <<ExistsU(b, ar.items, None)>>
             IN IF FitsLimits(b, rw1, uidNext[b], Len(ms))
                THEN /\ rows' = [rows EXCEPT ![b] = ar.rows]
                     /\ uidNext' = [uidNext EXCEPT ![b] = ar.next]
                     /\ ever' = EverAdd(b, ar.items)
                     /\ q' = EnqueueOthers(s, ups)
                     /\ FinishSel(s, ups, "exp", <<>>, {}, FALSE)
                     /\ Log("Move", s, <<ps, d, [i \in 1..Len(ar.items) |-> ar.items[i].uid]>>, "OK")
                ELSE /\ UNCHANGED <<rows, uidNext, ever, q>>
                     /\ FinishSel(s, <<>>, "noexp", <<>>, {}, FALSE)
                     /\ Log("Move", s, <<ps, d, <<>>>>, "NO")
        ELSE LET have == SelectSeq(ms, LAMBDA m : HasMsg(rows[d], m))
                 rwd1 == RemoveMsgs(rows[d], SeqToSet(have))
                 mv == SelectSeq(ms, LAMBDA m : HasMsg(rows[b], m))       \* only what is still in the source
                 ar == AddRows(rwd1, d, uidNext[d], mv)
                 ups == ExpungeUpdates(d, have) \o <<ExistsU(d, ar.items, s)>> \o ExpungeUpdates(b, mv)
             IN IF FitsLimits(d, rwd1, uidNext[d], Len(mv))
                THEN /\ rows' = [rows EXCEPT ![d] = ar.rows, ![b] = RemoveMsgs(@, SeqToSet(mv))]
                     /\ uidNext' = [uidNext EXCEPT ![d] = ar.next]
                     /\ ever' = EverAdd(d, ar.items)
                     /\ q' = EnqueueOthers(s, ups)
                     /\ FinishSel(s, ups, "exp", <<>>, {}, FALSE)
                     /\ Log("Move", s, <<ps, d, [i \in 1..Len(ar.items) |-> ar.items[i].uid]>>, "OK")
                ELSE /\ UNCHANGED <<rows, uidNext, ever, q>>
                     /\ FinishSel(s, <<>>, "noexp", <<>>, {}, FALSE)
                     /\ Log("Move", s, <<ps, d, <<>>>>, "NO")
  /\ UNCHANGED <<flg, used, dead, recd, sel, ro, idle>>

-----------------------------------------------------------------------------
(* IDLE: begin = flush with expunge; while idle, responders are handled at once *)
IdleBegin(s) ==
  /\ Ready(s) /\ sel[s] # None
  /\ idle' = [idle EXCEPT ![s] = TRUE]
  /\ FinishSel(s, <<>>, "exp", <<>>, {}, FALSE)
  /\ Log("IdleBegin", s, <<>>, "OK")
  /\ UNCHANGED <<rows, uidNext, flg, used, dead, recd, sel, ro, q, ever>>

IdleDone(s) ==
  /\ idle[s]
  /\ idle' = [idle EXCEPT ![s] = FALSE]
  /\ wire' = Quiet
  /\ Log("IdleDone", s, <<>>, "OK")
  /\ UNCHANGED <<rows, uidNext, flg, used, dead, recd, sel, ro, snap, res, q, mirror, taint, ever>>

-----------------------------------------------------------------------------
(* The session loop takes one update from its queue: State.ApplyUpdate        *)
Deliver(s) ==
  /\ q[s] # <<>>
  /\ LET u == Head(q[s])
         pass == Passes(u, s, snap[s], res[s])
         rs == IF pass THEN Responders(u, s, FALSE) ELSE <<>>
     IN /\ q' = [q EXCEPT ![s] = Tail(q[s])]
        /\ IF idle[s]
           THEN LET h == HandleAll(snap[s], rs, FALSE)
                IN /\ snap' = [snap EXCEPT ![s] = h.snap]
                   /\ wire' = [Quiet EXCEPT ![s] = h.out]
                   /\ mirror' = [mirror EXCEPT ![s] = MirrorApply(mirror[s], h.out)]
                   /\ taint' = [taint EXCEPT ![s] = @ \cup (IF h.ooo THEN {"F13"} ELSE {})]
                   /\ UNCHANGED res
           ELSE /\ res' = [res EXCEPT ![s] = res[s] \o rs]
                /\ taint' = [taint EXCEPT ![s] = @ \cup (IF DropsQueued(u, s, snap[s], res[s]) THEN {"F1"} ELSE {})]
                /\ wire' = Quiet
                /\ UNCHANGED <<snap, mirror>>
        /\ inv' = [inv EXCEPT ![s] = @ \/ (u.k = "Bump" /\ pass)]
        /\ Log("Deliver", s, <<u.k, pass>>, "OK")
  /\ UNCHANGED <<rows, uidNext, flg, used, dead, recd, sel, ro, idle, ever, epoch>>

-----------------------------------------------------------------------------
(* Connector updates: backend/connector_updates.go                            *)
\* effect of "message m is in exactly the mailboxes B": additions (in the order given) then removals
BoxEffect(m, B) ==
  LET addTo == {b \in B : ~HasMsg(rows[b], m)}
      remFrom == {b \in Boxes \ B : HasMsg(rows[b], m)}
      ab == AscBoxes(addTo)
      rb == AscBoxes(remFrom)
  IN [fits |-> \A b \in addTo : FitsLimits(b, rows[b], uidNext[b], 1),
      rows |-> [b \in Boxes |->
                  IF b \in addTo THEN Append(rows[b], [m |-> m, uid |-> uidNext[b], del |-> FALSE])
                  ELSE IF b \in remFrom THEN RemoveMsgs(rows[b], {m}) ELSE rows[b]],
      next |-> [b \in Boxes |-> IF b \in addTo THEN uidNext[b] + 1 ELSE uidNext[b]],
      ever |-> [b \in Boxes |-> IF b \in addTo THEN ever[b] \cup {<<uidNext[b], m>>} ELSE ever[b]],
      ups |-> [i \in 1..Len(ab) |-> ExistsU(ab[i], <<[m |-> m, uid |-> uidNext[ab[i]], f |-> flg[m]]>>, None)]
              \o [i \in 1..Len(rb) |-> ExpungeU(rb[i], m)]]

\* effect of "the shared flags of m are exactly F": one update per flag that changes, removals first
FlagEffect(m, F) ==
  LET remF == AscFlags(flg[m] \ F)
      addF == AscFlags(F \ flg[m])
  IN [flg |-> [flg EXCEPT ![m] = F],
      ups |-> [i \in 1..Len(remF) |-> RemoteFlagU(m, "rem", {remF[i]})]
              \o [i \in 1..Len(addF) |-> RemoteFlagU(m, "add", {addF[i]})]]

\* MessagesCreated (m unknown) / MessageMailboxesUpdated (m known): the message is in exactly the mailboxes B
\* afterwards.  Creation is explored with one mailbox here: with several, the code enqueues the per-mailbox
\* Exists updates in map-iteration order, which no replay can steer.
ConnSetBoxes(m, B) ==
  /\ m \notin dead
  /\ (m \in used \/ Cardinality(B) = 1)
  /\ LET be == BoxEffect(m, B)
     IN /\ be.fits
        /\ rows' = be.rows /\ uidNext' = be.next /\ ever' = be.ever
        /\ q' = EnqueueAll(be.ups)
  /\ used' = used \cup {m}
  /\ dead' = dead /\ recd' = recd
  /\ wire' = Quiet
  /\ Log("ConnSetBoxes", None, <<m, AscBoxes(B)>>, "OK")
  /\ UNCHANGED <<flg, sel, ro, snap, res, idle, mirror, taint>>

\* a connector update that would exceed a configured limit in one of its mailboxes is refused as a whole
ConnSetBoxesRefused(m, B) ==
  /\ m \notin dead
  /\ (m \in used \/ Cardinality(B) = 1)
  /\ ~BoxEffect(m, B).fits
  /\ wire' = Quiet
  /\ Log("ConnSetBoxes", None, <<m, AscBoxes(B)>>, "ERR")
  /\ UNCHANGED <<rows, uidNext, flg, used, dead, recd, sel, ro, snap, res, q, idle, mirror, taint, ever>>

\* (the code walks the flag sets in map order: with two additions or two removals in one update the order of the two
\* state updates is up to the Go runtime and no replay can steer it - explored with at most one of each)
OneEach(m, F) == Cardinality(F \ flg[m]) <= 1 /\ Cardinality(flg[m] \ F) <= 1

\* MessageFlagsUpdated: the shared flags of m become exactly F
ConnSetFlags(m, F) ==
  /\ m \in used /\ F \subseteq SharedFlags /\ OneEach(m, F)
  /\ LET fe == FlagEffect(m, F)
     IN /\ flg' = fe.flg
        /\ q' = EnqueueAll(fe.ups)
  /\ wire' = Quiet
  /\ Log("ConnSetFlags", None, <<m, AscFlags(F)>>, "OK")
  /\ UNCHANGED <<rows, uidNext, used, dead, recd, sel, ro, snap, res, idle, mirror, taint, ever>>

\* MessageUpdated with an unchanged literal: flags, then mailboxes, in one transaction
ConnUpdateSame(m, B, F) ==
  /\ m \in used /\ F \subseteq SharedFlags /\ OneEach(m, F)
  /\ LET fe == FlagEffect(m, F)
         be == BoxEffect(m, B)
     IN /\ be.fits
        /\ flg' = fe.flg
        /\ rows' = be.rows /\ uidNext' = be.next /\ ever' = be.ever
        \* the Exists updates carry the flags as they are after the flag part
        /\ q' = EnqueueAll(fe.ups \o [i \in 1..Len(be.ups) |->
                                       IF be.ups[i].k = "Exists"
                                       THEN [be.ups[i] EXCEPT !.items = <<[@[1] EXCEPT !.f = F]>>]
                                       ELSE be.ups[i]])
  /\ wire' = Quiet
  /\ Log("ConnUpdateSame", None, <<m, AscBoxes(B), AscFlags(F)>>, "OK")
  /\ UNCHANGED <<used, dead, recd, sel, ro, snap, res, idle, mirror, taint>>

\* updates that must change nothing: duplicates, echoes, references to unknown or protected objects.
\* status = what the connector must see acknowledged ("OK" = applied/ignored, "ERR" = error)
BadKinds == {"Noop", "FlagsUnknownMsg", "BoxesUnknownMsg", "DeleteUnknownMsg", "CreateUnknownBox",
             "BoxesIntoRecovery", "CreateIntoRecovery", "MailboxCreatedDup", "MailboxDeletedRecovery",
             "MailboxDeletedUnknown", "MailboxUpdatedUnknown", "UpdatedUnknownNoCreate"}
BadStatus(k) == IF k \in {"FlagsUnknownMsg", "BoxesUnknownMsg", "CreateUnknownBox", "BoxesIntoRecovery",
                          "MailboxDeletedRecovery"} THEN "ERR" ELSE "OK"
ConnBad(k) ==
  /\ k \in BadKinds
  /\ wire' = Quiet
  /\ Log("ConnBad", None, <<k>>, BadStatus(k))
  /\ UNCHANGED <<rows, uidNext, flg, used, dead, recd, sel, ro, snap, res, q, idle, mirror, taint, ever>>

\* MessagesCreated again for a message that exists, with the mailboxes it is in: nothing happens
ConnCreateDup(m) ==
  /\ m \in used /\ (\E b \in Boxes : HasMsg(rows[b], m))
  /\ wire' = Quiet
  /\ Log("ConnCreateDup", None, <<m, AscBoxes({b \in Boxes : HasMsg(rows[b], m)})>>, "OK")
  /\ UNCHANGED <<rows, uidNext, flg, used, dead, recd, sel, ro, snap, res, q, idle, mirror, taint, ever>>

\* MessagesCreated for a message that exists, naming one mailbox more than it is in (a re-sync after a remote label
\* change): the message is added there; MessagesCreated never removes anything
ConnCreateKnown(m, b) ==
  /\ m \in used /\ ~HasMsg(rows[b], m)
  /\ LET cur == {x \in Boxes : HasMsg(rows[x], m)}
         be == BoxEffect(m, cur \cup {b})
     IN /\ be.fits
        /\ rows' = be.rows /\ uidNext' = be.next /\ ever' = be.ever
        /\ q' = EnqueueAll(be.ups)
        /\ Log("ConnCreateKnown", None, <<m, AscBoxes(cur \cup {b})>>, "OK")
  /\ wire' = Quiet
  /\ UNCHANGED <<flg, used, dead, recd, sel, ro, snap, res, idle, mirror, taint>>

\* MessageIDChanged: the remote id of m changes; nothing a client can observe
ConnIDChanged(m) ==
  /\ m \in used
  /\ wire' = Quiet
  \* (a message that is in no mailbox cannot be addressed by the replay: the step is a no-op there)
  /\ q' = IF \E b \in Boxes : HasMsg(rows[b], m) THEN EnqueueAll(<<IdU(m)>>) ELSE q
  /\ Log("ConnIDChanged", None, <<m>>, "OK")
  /\ UNCHANGED <<rows, uidNext, flg, used, dead, recd, sel, ro, snap, res, idle, mirror, taint, ever>>

\* MessageDeleted: removed from every mailbox (the entity is only marked deleted)
ConnDelete(m) ==
  /\ m \in used
  /\ LET rb == AscBoxes({b \in Boxes : HasMsg(rows[b], m)})
     IN /\ rows' = [b \in Boxes |-> RemoveMsgs(rows[b], {m})]
        /\ q' = EnqueueAll([i \in 1..Len(rb) |-> ExpungeU(rb[i], m)])
  /\ used' = used \ {m}
  /\ dead' = dead \cup {m} /\ recd' = recd
  /\ wire' = Quiet
  /\ Log("ConnDelete", None, <<m>>, "OK")
  /\ UNCHANGED <<uidNext, flg, sel, ro, snap, res, idle, mirror, taint, ever>>

-----------------------------------------------------------------------------
(* Further connector update kinds (C06): creation with flags, batches, ignored unknown mailboxes,           *)
(* MessageUpdated with a changed literal, UIDValidityBumped; and the BYE a session with an invalidated      *)
(* state gets.  These actions say what happens to inv and epoch themselves.                                *)

\* MessagesCreated carrying flags F (how = "created") or MessageUpdated with AllowCreate for a message nobody knows
\* (how = "updated", which the code turns into a MessagesCreated): m arrives in mailbox b with the shared flags F
ConnCreateWith(m, b, F, how) ==
  /\ Fresh(m) /\ F \subseteq SharedFlags /\ how \in {"created", "updated"}
  /\ IF FitsLimits(b, rows[b], uidNext[b], 1)
     THEN /\ rows' = [rows EXCEPT ![b] = Append(@, [m |-> m, uid |-> uidNext[b], del |-> FALSE])]
          /\ uidNext' = [uidNext EXCEPT ![b] = @ + 1]
          /\ ever' = [ever EXCEPT ![b] = @ \cup {<<uidNext[b], m>>}]
          /\ flg' = [flg EXCEPT ![m] = F]
          /\ used' = used \cup {m}
          /\ q' = EnqueueAll(<<ExistsU(b, <<[m |-> m, uid |-> uidNext[b], f |-> F]>>, None)>>)
          /\ Log("ConnCreateWith", None, <<m, b, AscFlags(F), how>>, "OK")
     ELSE /\ UNCHANGED <<rows, uidNext, ever, flg, used, q>>
          /\ Log("ConnCreateWith", None, <<m, b, AscFlags(F), how>>, "ERR")
  /\ wire' = Quiet
  /\ UNCHANGED <<dead, recd, sel, ro, snap, res, idle, mirror, taint, inv, epoch>>

\* one MessagesCreated update with two new messages for the same mailbox: ONE Exists update carrying both,
\* refused as a whole when both do not fit
ConnCreateBatch(m1, m2, b) ==
  /\ Fresh(m1) /\ Fresh(m2) /\ m1 # m2
  /\ IF FitsLimits(b, rows[b], uidNext[b], 2)
     THEN LET ar == AddRows(rows[b], b, uidNext[b], <<m1, m2>>)
          IN /\ rows' = [rows EXCEPT ![b] = ar.rows]
             /\ uidNext' = [uidNext EXCEPT ![b] = ar.next]
             /\ ever' = EverAdd(b, ar.items)
             /\ used' = used \cup {m1, m2}
             /\ q' = EnqueueAll(<<ExistsU(b, ar.items, None)>>)
             /\ Log("ConnCreateBatch", None, <<m1, m2, b>>, "OK")
     ELSE /\ UNCHANGED <<rows, uidNext, ever, used, q>>
          /\ Log("ConnCreateBatch", None, <<m1, m2, b>>, "ERR")
  /\ wire' = Quiet
  /\ UNCHANGED <<flg, dead, recd, sel, ro, snap, res, idle, mirror, taint, inv, epoch>>

\* MessagesCreated with IgnoreUnknownMailboxIDs naming a mailbox nobody knows besides the mailboxes B (at most one):
\* the unknown one is skipped; with B = {} the message exists afterwards without being in any mailbox
ConnCreateIgnore(m, B) ==
  /\ Fresh(m) /\ B \subseteq Boxes /\ Cardinality(B) <= 1
  /\ LET be == BoxEffect(m, B)
     IN IF be.fits
        THEN /\ rows' = be.rows /\ uidNext' = be.next /\ ever' = be.ever
             /\ q' = IF B = {} THEN q ELSE EnqueueAll(be.ups)
             /\ used' = used \cup {m}
             /\ Log("ConnCreateIgnore", None, <<m, AscBoxes(B)>>, "OK")
        ELSE /\ UNCHANGED <<rows, uidNext, ever, q, used>>
             /\ Log("ConnCreateIgnore", None, <<m, AscBoxes(B)>>, "ERR")
  /\ wire' = Quiet
  /\ UNCHANGED <<flg, dead, recd, sel, ro, snap, res, idle, mirror, taint, inv, epoch>>

\* MessageUpdated with a changed literal: the old entity m is removed from every mailbox and marked deleted, a new
\* entity n (the new literal, same remote id) is created with the flags F and put into the mailboxes B - one
\* transaction; removals first (so the limits are checked against the mailboxes without m), all or nothing
ConnUpdateNew(m, n, B, F) ==
  /\ m \in used /\ Fresh(n) /\ n # m /\ F \subseteq SharedFlags /\ B \subseteq Boxes
  /\ LET cur   == AscBoxes({b \in Boxes : HasMsg(rows[b], m)})
         rows1 == [b \in Boxes |-> RemoveMsgs(rows[b], {m})]
         ab    == AscBoxes(B)
         fits  == \A b \in B : FitsLimits(b, rows1[b], uidNext[b], 1)
     IN IF fits
        THEN /\ rows' = [b \in Boxes |-> IF b \in B THEN Append(rows1[b], [m |-> n, uid |-> uidNext[b], del |-> FALSE])
                                         ELSE rows1[b]]
             /\ uidNext' = [b \in Boxes |-> IF b \in B THEN uidNext[b] + 1 ELSE uidNext[b]]
             /\ ever' = [b \in Boxes |-> IF b \in B THEN ever[b] \cup {<<uidNext[b], n>>} ELSE ever[b]]
             /\ flg' = [flg EXCEPT ![n] = F]
             /\ used' = (used \ {m}) \cup {n}
             /\ dead' = dead \cup {m}
             /\ q' = EnqueueAll([i \in 1..Len(cur) |-> ExpungeU(cur[i], m)]
                                \o [i \in 1..Len(ab) |-> ExistsU(ab[i], <<[m |-> n, uid |-> uidNext[ab[i]], f |-> F]>>, None)])
             /\ Log("ConnUpdateNew", None, <<m, n, ab, AscFlags(F)>>, "OK")
        ELSE /\ UNCHANGED <<rows, uidNext, ever, flg, used, dead, q>>
             /\ Log("ConnUpdateNew", None, <<m, n, ab, AscFlags(F)>>, "ERR")
  /\ wire' = Quiet
  /\ UNCHANGED <<recd, sel, ro, snap, res, idle, mirror, taint, inv, epoch>>

\* UIDValidityBumped: every mailbox gets a new, greater UIDVALIDITY; the update travels to every state
ConnBump ==
  /\ epoch' = [b \in Boxes |-> epoch[b] + 1]
  /\ q' = EnqueueAll(<<BumpU>>)
  /\ wire' = Quiet
  /\ Log("ConnBump", None, <<>>, "OK")
  /\ UNCHANGED <<rows, uidNext, flg, used, dead, recd, sel, ro, snap, res, idle, mirror, taint, ever, inv>>

\* the next command of a session whose state was invalidated: untagged BYE, no completion, connection closed.
\* The client of the model connects and logs in again at once: a new state, nothing selected, an empty queue.
CmdBye(s) ==
  /\ ~idle[s] /\ inv[s] /\ (DrainFirst => q[s] = <<>>)
  /\ sel' = [sel EXCEPT ![s] = None]
  /\ ro' = [ro EXCEPT ![s] = FALSE]
  /\ snap' = [snap EXCEPT ![s] = <<>>]
  /\ res' = [res EXCEPT ![s] = <<>>]
  /\ q' = [q EXCEPT ![s] = <<>>]
  /\ mirror' = [mirror EXCEPT ![s] = <<>>]
  /\ taint' = [taint EXCEPT ![s] = {}]
  /\ inv' = [inv EXCEPT ![s] = FALSE]
  /\ wire' = [Quiet EXCEPT ![s] = <<[t |-> "BYE", n |-> 0]>>]
  /\ Log("Bye", s, <<>>, "BYE")
  /\ UNCHANGED <<rows, uidNext, flg, used, dead, recd, idle, ever, epoch>>

-----------------------------------------------------------------------------
(* Argument sets a configuration can substitute for StoreArgs (cfg: StoreArgs <- SA_...) *)
SA(op, F, silent, asuid) == [op |-> op, F |-> F, silent |-> silent, asuid |-> asuid]
SA_AddDeleted == {SA("add", {"Deleted"}, FALSE, FALSE)}
SA_Deleted == {SA("add", {"Deleted"}, FALSE, FALSE), SA("rem", {"Deleted"}, FALSE, FALSE)}
SA_Seen == {SA(o, {"Seen"}, si, FALSE) : o \in {"add", "rem"}, si \in BOOLEAN}
SA_SeenSet == SA_Seen \cup {SA("set", {}, FALSE, FALSE), SA("set", {"Seen"}, FALSE, FALSE), SA("set", {"Deleted"}, FALSE, FALSE)}
SA_All == {SA(o, F, si, au) : o \in {"add", "rem", "set"}, F \in {{"Seen"}, {"Deleted"}, {"Seen", "Deleted"}, {"Flagged"}}, si \in BOOLEAN, au \in BOOLEAN}
                \cup {SA("set", {}, FALSE, FALSE)}
                \cup {SA(o, {"$Forwarded"}, si, FALSE) : o \in {"add", "rem", "set"}, si \in BOOLEAN}
                \cup {SA("set", {"Forwarded", "Seen"}, FALSE, FALSE), SA("add", {"Forwarded"}, FALSE, TRUE)}
SA_Small == {SA("add", {"Deleted"}, FALSE, FALSE), SA("add", {"Seen"}, FALSE, FALSE), SA("rem", {"Seen"}, TRUE, FALSE),
             SA("set", {"Flagged"}, FALSE, TRUE), SA("set", {}, FALSE, FALSE), SA("set", {"$Forwarded"}, FALSE, FALSE)}
SA_Cross == {SA("add", {"Deleted"}, FALSE, FALSE), SA("set", {"Seen"}, FALSE, FALSE), SA("set", {"Deleted", "Flagged"}, FALSE, FALSE),
             SA("rem", {"Seen"}, FALSE, FALSE), SA("add", {"Flagged"}, TRUE, FALSE)}
SA_CrossDel == {SA("add", {"Deleted"}, FALSE, FALSE), SA("add", {"Seen"}, FALSE, FALSE), SA("add", {"Flagged"}, FALSE, FALSE), SA("rem", {"Seen"}, FALSE, FALSE),
                SA("set", {"Flagged"}, FALSE, FALSE)}
SA_Obs == {SA("add", {"Seen"}, FALSE, FALSE), SA("add", {"Flagged"}, FALSE, FALSE), SA("add", {"Deleted"}, FALSE, FALSE),
           SA("rem", {"Seen"}, FALSE, FALSE)}
CF_None == {{}}
CF_Seen == {{}, {"Seen"}}
CF_All == SUBSET ConnShared

NoScript == <<>>
Sc(a, s, args) == [act |-> a, s |-> s, args |-> args]
\* F13: an own APPEND is applied before the older queued EXISTS of another session's APPEND;
\* the client learned sequence 1 = UID 2, after the flush sequence 1 is UID 1
ScriptF13 == <<
  Sc("Select", "s1", <<"A">>), Sc("Select", "s2", <<"A">>),
  Sc("Append", "s1", <<"A", "m1", 1>>), Sc("Append", "s2", <<"A", "m2", 2>>),
  Sc("Fetch", "s2", <<>>), Sc("Deliver", "s2", <<"Exists", TRUE>>), Sc("Noop", "s2", <<>>) >>
\* prefix: both sessions have A selected and know m1 and m2
ScriptTwoOnA == <<
  Sc("Select", "s1", <<"A">>), Sc("Select", "s2", <<"A">>),
  Sc("Append", "s1", <<"A", "m1", 1>>), Sc("Deliver", "s2", <<"Exists", TRUE>>), Sc("Noop", "s2", <<>>),
  Sc("Append", "s1", <<"A", "m2", 2>>), Sc("Deliver", "s2", <<"Exists", TRUE>>), Sc("Noop", "s2", <<>>) >>
\* prefix: both sessions have A selected and know m1, m2 and m3
ScriptThreeOnA == ScriptTwoOnA \o <<
  Sc("Append", "s1", <<"A", "m3", 3>>), Sc("Deliver", "s2", <<"Exists", TRUE>>), Sc("Noop", "s2", <<>>) >>
\* prefix: m1 is in A and in B; s1 has A selected, s2 has B selected
ScriptCross == <<
  Sc("Select", "s1", <<"A">>), Sc("Append", "s1", <<"A", "m1", 1>>), Sc("Append", "s1", <<"A", "m2", 2>>),
  Sc("Copy", "s1", <<<<1>>, "B", <<1>>>>), Sc("Select", "s2", <<"B">>) >>
\* prefix: as ScriptCross, and s1 has marked m1 \Deleted in A (the flag is per mailbox: B does not show it)
ScriptCrossDel == ScriptCross \o << Sc("Store", "s1", <<<<1>>, "add", <<"Deleted">>, FALSE, FALSE>>) >>
\* prefix: as ScriptCrossDel, and s2 has set \Seen on its copy in B; the update is in s1's responder queue
ScriptCrossDelTold == ScriptCrossDel \o << Sc("Store", "s2", <<<<1>>, "add", <<"Seen">>, FALSE, FALSE>>),
                                          Sc("Deliver", "s1", <<"Flags", TRUE>>) >>
\* prefix: both sessions know m1 and m2 in A; the connector has taken m1 out of A and put it back, s2 has been handed both
\* updates and has not flushed: its responder queue holds the removal and the re-arrival
ScriptReAddTold == ScriptTwoOnA \o <<
  Sc("ConnSetBoxes", None, <<"m1", <<>>>>), Sc("Deliver", "s2", <<"Expunge", TRUE>>),
  Sc("ConnSetBoxes", None, <<"m1", <<"A">>>>), Sc("Deliver", "s2", <<"Exists", TRUE>>) >>
\* prefix (limits: LimitUid = 5, MaxMsgs = 2): m1 is in A and in B; copying it onto B again and again has used up B's UIDs
\* (UIDNEXT 4): one more arrival fits, a replaced copy needs a fresh UID as well
ScriptUidTight == <<
  Sc("Select", "s1", <<"A">>), Sc("Append", "s1", <<"A", "m1", 1>>),
  Sc("Copy", "s1", <<<<1>>, "B", <<1>>>>), Sc("Copy", "s1", <<<<1>>, "B", <<2>>>>), Sc("Copy", "s1", <<<<1>>, "B", <<3>>>>) >>
\* prefix: both sessions know m1 and m2 in A; the connector has taken m1 out of A, s2 has been handed the removal and has
\* not flushed it (beginIdle has to flush it - with EXPUNGE permitted - before responders are pushed past the queue)
ScriptRemovedTold == ScriptTwoOnA \o <<
  Sc("ConnSetBoxes", None, <<"m1", <<>>>>), Sc("Deliver", "s2", <<"Expunge", TRUE>>) >>
\* prefix: as ScriptReAddTold, and a further message has arrived behind the held-back pair (s2 has been handed its EXISTS):
\* it carries a higher UID than the re-arrival and has to wait for it (popResponders, fix e8273a5)
ScriptReAddToldArrival == ScriptReAddTold \o <<
  Sc("Append", "s1", <<"A", "m3", 4>>), Sc("Deliver", "s2", <<"Exists", TRUE>>) >>
\* F14: s2 sets \Seen (queued to s1); s1 removes \Seen before applying it; the queued "add" lands afterwards
ScriptF14 == <<
  Sc("Select", "s1", <<"A">>), Sc("Append", "s1", <<"A", "m1", 1>>), Sc("Select", "s2", <<"A">>),
  Sc("Store", "s2", <<<<1>>, "add", <<"Seen">>, FALSE, FALSE>>),
  Sc("Store", "s1", <<<<1>>, "rem", <<"Seen">>, FALSE, FALSE>>),
  Sc("Deliver", "s1", <<"Flags", TRUE>>), Sc("Noop", "s1", <<>>) >>

-----------------------------------------------------------------------------
(* Next-state relation: the configuration chooses the actions (Acts)          *)
\* the position sets a command is tried with
PSets(n) == IF PrefixSets THEN {1..k : k \in 0..n} ELSE SUBSET (1..n)
\* the scripted prefix may use any action; the free phase only those the configuration names
On(a) == a \in Acts \/ (Script # <<>> /\ steps < Len(Script))
\* who may issue commands now: everybody during a scripted prefix, the Actors afterwards
Cmdrs == IF Script # <<>> /\ steps < Len(Script) THEN Sessions ELSE Actors
FreeOld ==
  \/ On("Select") /\ \E s \in Cmdrs, b \in Boxes : CmdSelect(s, b, FALSE)
  \/ On("Examine") /\ \E s \in Cmdrs, b \in Boxes : CmdSelect(s, b, TRUE)
  \/ On("Close") /\ \E s \in Cmdrs : CmdClose(s, FALSE)
  \/ On("Unselect") /\ \E s \in Cmdrs : CmdClose(s, TRUE)
  \/ On("Append") /\ \E s \in Cmdrs, b \in Boxes, m \in Msgs : CmdAppend(s, b, m)
  \/ On("Store") /\ \E s \in Cmdrs : \E P \in PSets(Len(snap[s])) : \E a \in StoreArgs :
                              CmdStore(s, P, a.op, a.F, a.silent, a.asuid)
  \/ On("Refused") /\ \E s \in Cmdrs, k \in {"StoreRO", "FetchNoPart", "FetchBodyNoPart"} : CmdRefused(s, k)
  \/ On("Expunge") /\ \E s \in Cmdrs : CmdExpunge(s, 1..Len(snap[s]), FALSE)
  \/ On("UidExpunge") /\ \E s \in Cmdrs : \E P \in PSets(Len(snap[s])) : CmdExpunge(s, P, TRUE)
  \/ On("Noop") /\ \E s \in Cmdrs : CmdNoop(s)
  \/ On("Fetch") /\ \E s \in Cmdrs : CmdFetch(s)
  \/ On("Check") /\ \E s \in Cmdrs : CmdCheck(s)
  \/ On("Status") /\ \E s \in Cmdrs, b \in Boxes : CmdStatus(s, b)
  \/ On("Search") /\ \E s \in Cmdrs, key \in {"ALL", "DELETED"}, byuid \in BOOLEAN : CmdSearch(s, key, byuid)
  \/ On("FetchBody") /\ \E s \in Cmdrs : \E P \in PSets(Len(snap[s])) : CmdFetchBody(s, P)
  \/ On("Copy") /\ \E s \in Cmdrs, d \in Boxes : \E P \in PSets(Len(snap[s])) : CmdCopy(s, P, d)
  \/ On("Move") /\ \E s \in Cmdrs, d \in Boxes : \E P \in PSets(Len(snap[s])) : CmdMove(s, P, d)
  \/ On("Idle") /\ \E s \in Cmdrs : IdleBegin(s) \/ IdleDone(s)
  \/ On("ConnSetBoxes") /\ \E m \in Msgs : \E B \in SUBSET Boxes : ConnSetBoxes(m, B) \/ ConnSetBoxesRefused(m, B)
  \/ On("ConnSetFlags") /\ \E m \in Msgs : \E F \in ConnFlagSets : ConnSetFlags(m, F)
  \/ On("ConnDelete") /\ \E m \in Msgs : ConnDelete(m)
  \/ On("ConnUpdateSame") /\ \E m \in Msgs : \E B \in SUBSET Boxes : \E F \in ConnFlagSets : ConnUpdateSame(m, B, F)
  \/ On("ConnBad") /\ \E k \in BadKinds : ConnBad(k)
  \/ On("ConnCreateDup") /\ \E m \in Msgs : ConnCreateDup(m)
  \/ On("ConnCreateKnown") /\ \E m \in Msgs, b \in Boxes : ConnCreateKnown(m, b)
  \/ On("ConnIDChanged") /\ \E m \in Msgs : ConnIDChanged(m)
\* the actions above were written before inv and epoch existed and leave them alone
Free ==
  \/ FreeOld /\ UNCHANGED <<inv, epoch>>
  \/ On("Deliver") /\ \E s \in Sessions : Deliver(s)
  \/ On("ConnCreateWith") /\ \E m \in Msgs, b \in Boxes : \E F \in SUBSET ConnShared : \E how \in {"created", "updated"} :
                                  (how = "created" => F # {}) /\ ConnCreateWith(m, b, F, how)
  \/ On("ConnCreateBatch") /\ \E m1, m2 \in Msgs, b \in Boxes : ConnCreateBatch(m1, m2, b)
  \/ On("ConnCreateIgnore") /\ \E m \in Msgs : \E B \in SUBSET Boxes : ConnCreateIgnore(m, B)
  \/ On("ConnUpdateNew") /\ \E m, n \in Msgs : \E B \in SUBSET Boxes : \E F \in ConnFlagSets : ConnUpdateNew(m, n, B, F)
  \/ On("ConnBump") /\ ConnBump
  \/ On("Bye") /\ \E s \in Cmdrs : CmdBye(s)

(* after MaxSteps free steps a simulated behaviour is driven to quiescence:    *)
(* leave IDLE, deliver everything, then NOOP wherever responders are queued    *)
Drain ==
  \/ \E s \in Sessions : IdleDone(s) /\ UNCHANGED <<inv, epoch>>
  \/ (\A t \in Sessions : ~idle[t]) /\ \E s \in Sessions : Deliver(s)
  \/ (\A t \in Sessions : ~idle[t] /\ q[t] = <<>>) /\ \E s \in Sessions : CmdBye(s)
  \/ (\A t \in Sessions : ~idle[t] /\ q[t] = <<>>) /\ \E s \in Sessions : sel[s] # None /\ res[s] # <<>> /\ CmdNoop(s) /\ UNCHANGED <<inv, epoch>>

Quiescent == \A t \in Sessions : ~idle[t] /\ q[t] = <<>> /\ res[t] = <<>> /\ ~inv[t]

ViewOfSnap(sn) == [i \in 1..Len(sn) |-> [uid |-> sn[i].uid, f |-> AscFlags(sn[i].f), m |-> sn[i].m]]
ViewOfMirror(mi) == [i \in 1..Len(mi) |-> [uid |-> mi[i].uid, f |-> IF mi[i].f = Unknown THEN <<"?">> ELSE AscFlags(mi[i].f)]]

StepRecord ==
  [act |-> last'.act, s |-> last'.s, args |-> last'.args, status |-> last'.status,
   wire |-> [t \in Sessions |-> wire'[t]],
   sel |-> sel', ro |-> ro', idle |-> idle',
   snaps |-> [t \in Sessions |-> ViewOfSnap(snap'[t])],
   mirrors |-> [t \in Sessions |-> ViewOfMirror(mirror'[t])],
   reslen |-> [t \in Sessions |-> Len(res'[t])],
   expunging |-> [t \in Sessions |-> \E i \in 1..Len(res'[t]) : res'[t][i].k = "Expunge"],
   qlen |-> [t \in Sessions |-> Len(q'[t])],
   taint |-> [t \in Sessions |-> taint'[t]],
   db |-> [b \in Boxes |-> [i \in 1..Len(rows'[b]) |->
              [uid |-> rows'[b][i].uid, m |-> rows'[b][i].m,
               f |-> AscFlags(flg'[rows'[b][i].m] \cup (IF rows'[b][i].del THEN {"Deleted"} ELSE {}))]]],
   flg |-> [m \in Msgs |-> AscFlags(flg'[m])], used |-> used',
   uidnext |-> uidNext', inv |-> inv', epoch |-> epoch']

Keep == IF Record THEN hist' = Append(hist, StepRecord) ELSE hist' = hist

Next == Free /\ Keep

\* a scripted behaviour takes, at each step, the one Free step that is the scripted one
\* a script is a prefix; MaxSteps free steps follow it
PhaseLen == IF Script # <<>> THEN Len(Script) + MaxSteps ELSE MaxSteps
Scripted ==
  (Script # <<>> /\ steps < Len(Script)) =>
     LET sc == Script[steps + 1] IN last'.act = sc.act /\ last'.s = sc.s /\ last'.args = sc.args
\* Simulation draws the KIND of the next action first (one successor per kind, so kinds are equally likely
\* whatever the number of argument variants), then one action of that kind - or nothing, if the draw is skipped.
KindActs == [sel |-> {"Select", "Examine", "Close", "Unselect"}, append |-> {"Append"}, store |-> {"Store"},
             fetch |-> {"Fetch", "FetchBody", "Refused", "Search"}, expunge |-> {"Expunge", "UidExpunge"}, noop |-> {"Noop", "Check", "StatusSel", "StatusOther"},
             copymove |-> {"Copy", "Move"}, idle |-> {"IdleBegin", "IdleDone"},
             deliver |-> {"Deliver"}, deliver2 |-> {"Deliver"}, deliver3 |-> {"Deliver"},
             conn |-> {"ConnSetBoxes", "ConnSetFlags", "ConnDelete", "ConnUpdateSame", "ConnBad", "ConnCreateDup", "ConnCreateKnown", "ConnIDChanged"},
             conn2 |-> {"ConnCreateWith", "ConnCreateBatch", "ConnCreateIgnore", "ConnUpdateNew", "ConnBump"},
             bye |-> {"Bye"}]
Kinds == {k \in DOMAIN KindActs : \E a \in KindActs[k] : a \in Acts \/ (a \in {"IdleBegin", "IdleDone"} /\ "Idle" \in Acts)
                                                        \/ (a \in {"StatusSel", "StatusOther"} /\ "Status" \in Acts)}
DrawKind ==
  /\ pick = None
  /\ \E k \in Kinds : pick' = k
  /\ wire' = Quiet
  /\ UNCHANGED <<rows, uidNext, flg, used, dead, recd, sel, ro, snap, res, q, idle, mirror, taint, ever, inv, epoch, last, steps, hist>>
SkipDraw ==
  /\ pick # None /\ pick' = None
  /\ wire' = Quiet
  /\ UNCHANGED <<rows, uidNext, flg, used, dead, recd, sel, ro, snap, res, q, idle, mirror, taint, ever, inv, epoch, last, steps, hist>>
SimNext ==
  \/ (steps < PhaseLen /\ Script # <<>> /\ steps < Len(Script)) /\ Free /\ Scripted /\ Keep
  \/ (steps < PhaseLen /\ ~(Script # <<>> /\ steps < Len(Script))) /\
       \/ DrawKind
       \/ (pick # None /\ Free /\ last'.act \in KindActs[pick] /\ Keep)
       \/ SkipDraw
  \/ (steps >= PhaseLen /\ pick = None /\ Drain /\ Keep)
  \/ (steps >= PhaseLen /\ SkipDraw)

\* Bounded exhaustive behaviours: after the scripted prefix EVERY sequence of MaxSteps free steps is explored
\* (breadth-first, hist is part of the state so every path is a state) and driven to quiescence by a
\* deterministic drain, so that each behaviour is printed exactly once and can be replayed.
SessSeq == SetToSeq(Sessions)
FirstSuch(Pd(_)) == LET idx == {i \in 1..Len(SessSeq) : Pd(SessSeq[i])} IN
                    IF idx = {} THEN None ELSE SessSeq[CHOOSE i \in idx : \A j \in idx : i <= j]
DrainDet ==
  LET si == FirstSuch(LAMBDA t : idle[t])
      sd == FirstSuch(LAMBDA t : q[t] # <<>>)
      sn == FirstSuch(LAMBDA t : sel[t] # None /\ res[t] # <<>>)
      sb == FirstSuch(LAMBDA t : inv[t])
  IN IF si # None THEN IdleDone(si) /\ UNCHANGED <<inv, epoch>>
     ELSE IF sd # None THEN Deliver(sd)
     ELSE IF sb # None THEN CmdBye(sb)
     ELSE IF sn # None THEN CmdNoop(sn) /\ UNCHANGED <<inv, epoch>>
     ELSE FALSE
AllNext == ((steps < PhaseLen /\ Free /\ Scripted) \/ (steps >= PhaseLen /\ DrainDet)) /\ Keep

Spec == Init /\ [][Next]_vars

\* state constraint for the exhaustive configurations
Bound == \A s \in Sessions : Len(res[s]) <= MaxRes /\ Len(q[s]) <= MaxQ
\* ... and for configurations with UIDValidityBumped (epoch grows for ever otherwise)
BoundE == Bound /\ \A b \in Boxes : epoch[b] <= 1

\* simulation: print the behaviour once it is quiescent after the free phase (used as an "invariant")
EmitBehaviour ==
  (Record /\ steps >= PhaseLen /\ Quiescent) => PrintT(ToJson([trace |-> hist]))
\* ... and stop this behaviour there
SimDone == ~(Record /\ steps >= PhaseLen /\ Quiescent)

-----------------------------------------------------------------------------
(* Properties                                                                 *)

\* sanity of the authoritative state
RowsAscending == \A b \in Boxes : \A i \in 1..(Len(rows[b]) - 1) : rows[b][i].uid < rows[b][i + 1].uid
RowsBelowNext == \A b \in Boxes : \A i \in 1..Len(rows[b]) : rows[b][i].uid < uidNext[b]
RowsDistinct == \A b \in Boxes : \A i, j \in 1..Len(rows[b]) : rows[b][i].m = rows[b][j].m => i = j
RowsUsed == \A b \in Boxes : MsgsOf(rows[b]) \subseteq used /\ used \cap dead = {}

\* C01 -- sequence numbers are dense by construction; UIDs strictly ascending
SnapAscending == \A s \in Sessions : \A i \in 1..(Len(snap[s]) - 1) : snap[s][i].uid < snap[s][i + 1].uid

\* C01 -- what the client reconstructed agrees with what the server answers from
MirrorAgrees ==
  \A s \in Sessions : (sel[s] # None /\ "F13" \notin taint[s]) =>
    /\ Len(mirror[s]) = Len(snap[s])
    /\ \A i \in 1..Len(mirror[s]) :
         /\ mirror[s][i].uid # 0 => mirror[s][i].uid = snap[s][i].uid
         /\ mirror[s][i].f # Unknown => mirror[s][i].f = snap[s][i].f

\* C01 -- the announced count only shrinks through announced EXPUNGEs: no EXISTS ever announces a
\* number below the count the client has at that point of the stream (re-SELECT starts a new view)
RECURSIVE ExistsNeverShrinks(_, _)
ExistsNeverShrinks(cnt, out) ==
  IF out = <<>> THEN TRUE
  ELSE LET o == Head(out) IN
       CASE o.t = "EXISTS"  -> o.n >= cnt /\ ExistsNeverShrinks(o.n, Tail(out))
         [] o.t = "EXPUNGE" -> o.n <= cnt /\ ExistsNeverShrinks(cnt - 1, Tail(out))
         [] o.t = "FETCH"   -> o.n <= cnt /\ ExistsNeverShrinks(cnt, Tail(out))
         [] OTHER -> ExistsNeverShrinks(cnt, Tail(out))
CountShrinksOnlyByExpunge ==
  [][\A s \in Sessions :
       (sel'[s] # None /\ last'.act \notin {"Select", "Examine"} /\ "F13" \notin taint'[s]) =>
          ExistsNeverShrinks(Len(mirror[s]), wire'[s])]_vars

\* C02 -- at quiescence the view is the authoritative mailbox
Diverging == {"F1", "F14", "F15"}
Converges ==
  \A s \in Sessions :
    (sel[s] # None /\ q[s] = <<>> /\ res[s] = <<>> /\ taint[s] \cap Diverging = {}) =>
       snap[s] = DbView(sel[s])

\* the intended design has no deviation at all
NoTaint == \A s \in Sessions : taint[s] = {}

\* witness goals for the known deviations: violated exactly when the deviation has produced a visible
\* divergence at global quiescence; TLC's shortest counterexample is the schedule replayed on the real code
DivergedAtQuiescence(s) == sel[s] # None /\ snap[s] # DbView(sel[s])
MirrorBroken(s) ==
  sel[s] # None /\ (Len(mirror[s]) # Len(snap[s])
     \/ \E i \in 1..Len(mirror[s]) : i <= Len(snap[s]) /\
          ((mirror[s][i].uid # 0 /\ mirror[s][i].uid # snap[s][i].uid)
           \/ (mirror[s][i].f # Unknown /\ mirror[s][i].f # snap[s][i].f)))
WitnessF13 == ~(Quiescent /\ \E s \in Sessions : "F13" \in taint[s] /\ MirrorBroken(s))
WitnessF14 == ~(Quiescent /\ \E s \in Sessions : "F14" \in taint[s] /\ DivergedAtQuiescence(s))

\* C04
UidNextMonotone == [][\A b \in Boxes : uidNext'[b] >= uidNext[b]]_vars
NewUidAboveAllEver ==
  [][\A b \in Boxes : \A p \in ever'[b] \ ever[b] : p[1] >= uidNext[b] /\ p[1] < uidNext'[b]]_vars
UidDenotesOneMessage == \A b \in Boxes : \A p1, p2 \in ever[b] : p1[1] = p2[1] => p1[2] = p2[2]
EverBelowNext == \A b \in Boxes : \A p \in ever[b] : p[1] < uidNext[b]
RowsAreEver == \A b \in Boxes : \A i \in 1..Len(rows[b]) : <<rows[b][i].uid, rows[b][i].m>> \in ever[b]

\* C05
NoExpungeKinds == {"Fetch", "FetchBody", "Store", "Copy", "Refused", "Search"}
NoExpungeDuringFetchStore ==
  [][last'.act \in NoExpungeKinds =>
       \A s \in Sessions : \A i \in 1..Len(wire'[s]) : wire'[s][i].t # "EXPUNGE"]_vars
PermitKinds == {"Noop", "Check", "StatusSel", "Expunge", "UidExpunge", "IdleBegin", "Move"}
RemovalsAnnouncedWhenPermitted ==
  [][(last'.act \in PermitKinds /\ last'.s # None /\ last'.status = "OK") =>
        ~(\E i \in 1..Len(res'[last'.s]) : res'[last'.s][i].k = "Expunge")]_vars
\* a held-back removal keeps the later re-add of the same message held back too
RemovalBeforeReAdd ==
  \A s \in Sessions : \A i \in 1..Len(res[s]) :
     (res[s][i].k = "Expunge" /\ "F14" \notin taint[s]) =>
        \A j \in (i + 1)..Len(res[s]) :
           (res[s][j].k = "Exists" /\ res[s][j].m = res[s][i].m) =>
              ~(\E p \in 1..Len(snap[s]) : snap[s][p].m = res[s][j].m /\ snap[s][p].uid = res[s][j].uid)

\* C03 -- a refused command changes nothing
FailedIsNoop == [][last'.status \in {"NO", "ERR"} =>
                     (rows' = rows /\ flg' = flg /\ uidNext' = uidNext /\ (last'.act # "Append" => q' = q))]_vars

\* C06 -- UIDValidityBumped: a state is invalid only while it has a mailbox selected; BYE is sent for nothing else and
\* ends the selection; UIDVALIDITY (epoch) changes through ConnBump only, for every mailbox, upwards
InvalidHasSelection == \A s \in Sessions : inv[s] => sel[s] # None
ByeOnlyWhenInvalid ==
  [][\A s \in Sessions : (\E i \in 1..Len(wire'[s]) : wire'[s][i].t = "BYE") => (inv[s] /\ ~inv'[s] /\ sel'[s] = None /\ last'.act = "Bye")]_vars
EpochOnlyByBump ==
  [][\A b \in Boxes : /\ epoch'[b] >= epoch[b]
                       /\ (epoch'[b] # epoch[b] => last'.act = "ConnBump" /\ \A c \in Boxes : epoch'[c] = epoch[c] + 1)]_vars
\* a connector update that names a message addresses the entity that currently carries that name: nothing dead is in a mailbox
DeadNowhere == \A b \in Boxes : MsgsOf(rows[b]) \cap dead = {}

\* C17
WithinLimits == \A b \in Boxes : Len(rows[b]) <= MaxMsgs /\ uidNext[b] - 1 <= LimitUid

=============================================================================
