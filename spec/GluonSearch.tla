--------------------------- MODULE GluonSearch ---------------------------
(***************************************************************************)
(* SEARCH (RFC 3501 section 6.4.4) as a function of the session's view.    *)
(* Property C15.                                                           *)
(*                                                                         *)
(* A mailbox content ("box") is a fixed sequence of up to 4 messages whose *)
(* attributes come from small domains.  The text of a message is defined   *)
(* here, character by character (strings are sequences of one-character    *)
(* strings, because the specification has to look inside them: text keys   *)
(* are case-insensitive substring matches), and the harness appends        *)
(* exactly these lines.  A key tree is a leaf (one of the 38 key kinds     *)
(* with its argument), NOT t, OR t t or a parenthesised list; a command is *)
(* the juxtaposition of one or more trees.                                 *)
(*                                                                         *)
(* The module is "function shaped": every state is one case (box, keys);   *)
(* the invariant PrintCase hands the case with the expected ascending list *)
(* of sequence numbers and of UIDs to the harness.  One more state per box *)
(* (keys = <<>>) prints the box itself.                                    *)
(*                                                                         *)
(* The VIEW is what is searched, not the database: a message with          *)
(* gone = TRUE has been expunged by another session after this session     *)
(* selected the mailbox; until the session is told (it is not, SEARCH must *)
(* not send EXPUNGE) it keeps its sequence number and is searched like any *)
(* other message.  Holds() therefore never looks at `gone`.                *)
(*                                                                         *)
(* Choices of gluon that the property does not judge, modelled as they are: *)
(*  - the internal date of a message is kept as an instant and reported    *)
(*    (FETCH INTERNALDATE) in UTC; "the internal date disregarding time    *)
(*    and timezone" is the calendar date of that UTC rendering.  idate is  *)
(*    that date; `ivar` tells the harness which date-time text to APPEND   *)
(*    (start/end of the UTC day, or a local time in a +0800/-0800 zone     *)
(*    whose local calendar date differs from the UTC one).                 *)
(*  - the Date: header is message text: its date is the one written there, *)
(*    whatever the zone says (sdate; `svar` = how the harness writes it).  *)
(*  - gluon stores every message with one extra first header line          *)
(*    "X-Pm-Gluon-Id: <uuid>" (53 bytes with CRLF) which the session sees  *)
(*    in BODY[] and RFC822.SIZE; sizes here include it (IdLineLen) and no  *)
(*    TEXT pattern of the model can match inside it.                       *)
(*  - the value of the Date: header is opaque here (31 characters, no       *)
(*    pattern of the model matches inside it).                             *)
(*  - a sequence-set key that names a number above the size of the view    *)
(*    (or "*" in an empty view) makes the whole command BAD, wherever in   *)
(*    the tree it stands; UID keys never fail.                             *)
(***************************************************************************)
EXTENDS Integers, Sequences, FiniteSets, TLC, Json

CONSTANTS Boxes,        \* names of the boxes to run, e.g. {"A", "B", "AS", "E"}
          PairLeaves,   \* leaves combined pairwise at depth 2 (OR a b, (a b), a b)
          DeepLeaves,   \* leaves used below depth-2 trees at depth 3 ({} = no depth 3)
          Emit          \* TRUE: print every case as JSON

-----------------------------------------------------------------------------
(* characters and strings *)

UC == <<"A","B","C","D","E","F","G","H","I","J","K","L","M","N","O","P","Q","R","S","T","U","V","W","X","Y","Z">>
LC == <<"a","b","c","d","e","f","g","h","i","j","k","l","m","n","o","p","q","r","s","t","u","v","w","x","y","z">>
UCSet == {UC[i] : i \in 1..26}
UpLow == [c \in UCSet |-> LC[CHOOSE i \in 1..26 : UC[i] = c]]
LowC(c) == IF c \in UCSet THEN UpLow[c] ELSE c
Low(s) == [i \in 1..Len(s) |-> LowC(s[i])]

\* p occurs in s (both already in one case); the empty string occurs in every string
IsSubstr(p, s) == \E i \in 0..(Len(s) - Len(p)) : \A j \in 1..Len(p) : s[i + j] = p[j]

RECURSIVE Str(_)
Str(s) == IF s = <<>> THEN "" ELSE Head(s) \o Str(Tail(s))

Dots(k) == [i \in 1..k |-> "."]

\* the tokens of the model
tAnn == <<"A","n","n","@","x",".","i","o">>
tBob == <<"b","o","b","@","y",".","i","o">>
tCyd == <<"C","y","d","@","z",".","i","o">>
tDan == <<"d","a","n","@","w",".","i","o">>
tRedFox  == <<"R","e","d"," ","f","o","x">>
tBlueJay == <<"B","l","u","e"," ","J","a","y">>
tGnu     == <<"g","n","u">>
tEmuEgg  == <<"E","m","u"," ","e","g","g">>
tGnuFox  == <<"g","n","u"," ","f","o","x">>
tVal == <<"V","a","l">>
tKw1 == <<"K","w","1">>

\* header field names as the harness writes them
hFrom == <<"F","r","o","m">>
hTo == <<"T","o">>
hCc == <<"C","c">>
hBcc == <<"B","c","c">>
hDate == <<"D","a","t","e">>
hSubject == <<"S","u","b","j","e","c","t">>
hXCust == <<"X","-","C","u","s","t">>

\* search patterns
pAnn == <<"a","n","n">>
pNX == <<"N","@","X">>
pBob == <<"b","o","b">>
pCYD == <<"C","Y","D">>
pZed == <<"z","e","d">>
pDan == <<"d","a","n">>
pFox == <<"f","o","x">>
pREDF == <<"R","E","D"," ","F">>
pJay == <<"j","a","y">>
pGnu == <<"g","n","u">>
pGNU == <<"G","N","U">>
pEMUE == <<"E","M","U"," ","E">>
pXCustLow == <<"x","-","c","u","s","t">>
pXCUST == <<"X","-","C","U","S","T">>
pXNone == <<"X","-","N","o","n","e">>
pVal == <<"v","a","l">>
pKw1 == <<"k","w","1">>
pKW1 == <<"K","W","1">>
pKw2 == <<"k","w","2">>
pSubjectLow == <<"s","u","b","j","e","c","t">>

-----------------------------------------------------------------------------
(* messages *)

None == [has |-> FALSE, v |-> <<>>]
Some(v) == [has |-> TRUE, v |-> v]

IdLineLen == 53      \* "X-Pm-Gluon-Id: " + 36 + CRLF, added by gluon in front of every stored message
DateOpaque == [i \in 1..31 |-> "#"]   \* e.g. "Thu, 10 Feb 1994 12:00:00 +0000"

Thr == 200           \* threshold of the LARGER / SMALLER keys
Big == 400

Msg(uid, sys, kws, recent, idate, ivar, sdate, svar, from, to, cc, bcc, subj, xc, body, size, gone) ==
  [uid |-> uid, sys |-> sys, kws |-> kws, recent |-> recent, idate |-> idate, ivar |-> ivar,
   sdate |-> sdate, svar |-> svar, from |-> from, to |-> to, cc |-> cc, bcc |-> bcc,
   subj |-> subj, xc |-> xc, body |-> body, size |-> size, gone |-> gone]

\* header fields in the order they are written
Hdr(m) ==
  <<[n |-> hFrom, v |-> m.from], [n |-> hTo, v |-> m.to]>>
  \o (IF m.cc.has THEN <<[n |-> hCc, v |-> m.cc.v]>> ELSE <<>>)
  \o (IF m.bcc.has THEN <<[n |-> hBcc, v |-> m.bcc.v]>> ELSE <<>>)
  \o <<[n |-> hDate, v |-> DateOpaque], [n |-> hSubject, v |-> m.subj]>>
  \o (IF m.xc.has THEN <<[n |-> hXCust, v |-> m.xc.v]>> ELSE <<>>)

Line(e) == e.n \o <<":", " ">> \o e.v

RECURSIVE SumLen(_, _)
SumLen(h, i) == IF i > Len(h) THEN 0 ELSE Len(Line(h[i])) + 2 + SumLen(h, i + 1)

\* size without padding: gluon's id line, header lines, empty line, body line (each with CRLF)
BaseLen(m) == IdLineLen + SumLen(Hdr(m), 1) + 2 + Len(m.body) + 2
BodyLine(m) == m.body \o Dots(m.size - BaseLen(m))      \* padded so that the size is exactly m.size

\* the (lower-cased) header field of that name (field names are case-insensitive); first occurrence
Field(d, name) ==
  LET ln == Low(name)
      hit == {i \in 1..Len(d.hdr) : d.hdr[i].n = ln}
  IN IF hit = {} THEN None ELSE Some(d.hdr[CHOOSE i \in hit : \A j \in hit : i <= j].v)

-----------------------------------------------------------------------------
(* the boxes *)

UidSeq == <<2, 3, 5, 8>>       \* gaps on purpose

BoxA(goneAt) == <<
  Msg(2, {"Seen"}, {}, FALSE, 1, "mid", 2, "mid", tAnn, tBob, None, None, tRedFox, None, tGnu, Thr - 1, FALSE),
  Msg(3, {"Answered", "Flagged"}, {tKw1}, FALSE, 2, "mid", 1, "mid", tBob, tCyd, Some(tAnn), None, tBlueJay, Some(<<>>), tEmuEgg, Thr, FALSE),
  Msg(5, {"Deleted", "Seen"}, {}, TRUE, 2, "mid", 3, "mid", tAnn, tCyd, None, Some(tDan), tRedFox, Some(tVal), tEmuEgg, Thr + 1, goneAt = 3),
  Msg(8, {"Draft"}, {tKw1}, TRUE, 3, "mid", 3, "mid", tBob, tBob, Some(tAnn), Some(tDan), tBlueJay, None, tGnuFox, Big, FALSE) >>

\* boundary times and zones: every internal date is d2 in UTC, every Date: header differs
BoxB(goneAt) == <<
  Msg(2, {}, {}, FALSE, 2, "start", 2, "east", tBob, tBob, None, None, tBlueJay, Some(tVal), tGnu, Thr, FALSE),
  Msg(3, {"Seen", "Answered", "Flagged", "Deleted", "Draft"}, {tKw1}, FALSE, 2, "end", 2, "west", tAnn, tCyd, Some(tAnn), Some(tDan), tRedFox, Some(<<>>), tGnuFox, Thr + 1, goneAt = 2),
  Msg(5, {"Flagged"}, {}, FALSE, 2, "east", 1, "west", tAnn, tBob, None, None, tRedFox, None, tEmuEgg, Thr - 1, FALSE),
  Msg(8, {"Seen"}, {}, TRUE, 2, "west", 3, "east", tBob, tCyd, Some(tAnn), None, tBlueJay, None, tEmuEgg, Big, FALSE) >>

\* three messages, dates spread, zones that cross the day boundary
BoxC == <<
  Msg(2, {"Deleted"}, {tKw1}, TRUE, 1, "east", 1, "east", tAnn, tBob, Some(tAnn), None, tBlueJay, None, tGnuFox, Big, FALSE),
  Msg(3, {"Seen", "Draft"}, {}, TRUE, 3, "west", 2, "west", tBob, tCyd, None, Some(tDan), tRedFox, Some(<<>>), tGnu, Thr - 1, FALSE),
  Msg(5, {"Answered"}, {}, TRUE, 2, "end", 3, "mid", tBob, tBob, None, None, tRedFox, Some(tVal), tEmuEgg, Thr, FALSE) >>

AllBoxNames == {"A", "B", "C", "AS", "BS", "E"}
BoxData == [b \in AllBoxNames |->
  CASE b = "A" -> BoxA(0)
    [] b = "B" -> BoxB(0)
    [] b = "C" -> BoxC
    [] b = "AS" -> BoxA(3)     \* the \Deleted message 3 of 4 expunged by another session
    [] b = "BS" -> BoxB(2)     \* the \Deleted message 2 of 4 expunged by another session
    [] b = "E" -> <<>>]
View(b) == BoxData[b]

\* lower-cased text of every message, computed once (TLC evaluates constant definitions once)
LowData == [b \in AllBoxNames |-> [i \in 1..Len(BoxData[b]) |->
  LET m == BoxData[b][i]
      h == Hdr(m)
  IN [hdr |-> [j \in 1..Len(h) |-> [n |-> Low(h[j].n), v |-> Low(h[j].v), line |-> Low(Line(h[j]))]],
      body |-> Low(BodyLine(m)),
      kws |-> {Low(kw) : kw \in m.kws}]]]

ASSUME \A b \in AllBoxNames : \A i \in 1..Len(View(b)) :
         /\ View(b)[i].size >= BaseLen(View(b)[i])
         /\ View(b)[i].uid = UidSeq[i]
         /\ View(b)[i].gone => "Deleted" \in View(b)[i].sys
         \* \Recent is a suffix of the view (messages delivered after the last other session looked)
         /\ (View(b)[i].recent /\ i < Len(View(b))) => View(b)[i + 1].recent

-----------------------------------------------------------------------------
(* key trees: one record shape; n = number / date index, s = string, f = header field name,
   set = sequence of ranges [a, b] (0 = "*"), sub = sub-trees *)

Leaf(k) == [k |-> k, n |-> 0, s |-> <<>>, f |-> <<>>, set |-> <<>>, sub |-> <<>>]
LeafN(k, n) == [k |-> k, n |-> n, s |-> <<>>, f |-> <<>>, set |-> <<>>, sub |-> <<>>]
LeafS(k, s) == [k |-> k, n |-> 0, s |-> s, f |-> <<>>, set |-> <<>>, sub |-> <<>>]
LeafH(f, s) == [k |-> "HEADER", n |-> 0, s |-> s, f |-> f, set |-> <<>>, sub |-> <<>>]
LeafSet(k, set) == [k |-> k, n |-> 0, s |-> <<>>, f |-> <<>>, set |-> set, sub |-> <<>>]
Not(t) == [k |-> "NOT", n |-> 0, s |-> <<>>, f |-> <<>>, set |-> <<>>, sub |-> <<t>>]
Or(a, b) == [k |-> "OR", n |-> 0, s |-> <<>>, f |-> <<>>, set |-> <<>>, sub |-> <<a, b>>]
List(ts) == [k |-> "LIST", n |-> 0, s |-> <<>>, f |-> <<>>, set |-> <<>>, sub |-> ts]

R(a, b) == [a |-> a, b |-> b]
\* unions whose ranges are not written in ascending order (0 stands for "*")
UnorderedUid == {<<R(8, 8), R(2, 3)>>, <<R(5, 5), R(2, 2)>>, <<R(0, 0), R(2, 2)>>, <<R(5, 8), R(3, 3), R(2, 2)>>}
UnorderedSeq == {<<R(3, 4), R(1, 1)>>, <<R(3, 3), R(1, 1)>>, <<R(0, 0), R(1, 1)>>, <<R(3, 3), R(2, 2), R(1, 1)>>, <<R(2, 3), R(1, 2)>>}

FlagKinds == {"ALL", "ANSWERED", "DELETED", "DRAFT", "FLAGGED", "NEW", "OLD", "RECENT", "SEEN",
              "UNANSWERED", "UNDELETED", "UNDRAFT", "UNFLAGGED", "UNSEEN"}
DateKinds == {"BEFORE", "ON", "SINCE", "SENTBEFORE", "SENTON", "SENTSINCE"}

FullLeaves ==
  {Leaf(k) : k \in FlagKinds}
  \cup {LeafS(k, s) : k \in {"KEYWORD", "UNKEYWORD"}, s \in {pKw1, pKW1, pKw2}}
  \cup {LeafN(k, d) : k \in DateKinds, d \in 1..3}
  \cup {LeafN("LARGER", Thr - 1), LeafN("LARGER", Thr), LeafN("SMALLER", Thr), LeafN("SMALLER", Thr + 1)}
  \cup {LeafS("FROM", s) : s \in {pAnn, pNX, pBob}}
  \cup {LeafS("TO", s) : s \in {pBob, pCYD}}
  \cup {LeafS("CC", s) : s \in {pAnn, pZed}}
  \cup {LeafS("BCC", s) : s \in {pDan, pAnn}}
  \cup {LeafS("SUBJECT", s) : s \in {pFox, pREDF, pJay}}
  \cup {LeafS("BODY", s) : s \in {pGnu, pEMUE, pFox}}
  \cup {LeafS("TEXT", s) : s \in {pFox, pGNU, pXCustLow, pZed}}
  \cup {LeafH(hXCust, <<>>), LeafH(pXCUST, pVal), LeafH(pXCustLow, tVal), LeafH(pSubjectLow, pFox), LeafH(pXNone, <<>>)}
  \cup {LeafSet("UID", s) : s \in {<<R(5, 5)>>, <<R(4, 4)>>, <<R(3, 6)>>, <<R(0, 0)>>, <<R(1, 0)>>, <<R(9, 9)>>}}
  \cup {LeafSet("SEQ", s) : s \in {<<R(1, 1)>>, <<R(2, 3)>>, <<R(0, 0)>>, <<R(1, 0)>>, <<R(4, 4)>>, <<R(5, 5)>>, <<R(3, 1)>>, <<R(1, 1), R(3, 3)>>}}
  \* unions written in any order: ranges of a set are NOT sorted by the client (UnorderedSets)
  \cup {LeafSet("UID", s) : s \in UnorderedUid} \cup {LeafSet("SEQ", s) : s \in UnorderedSeq}

\* representative leaves, one or two per family
Pair_Quick ==
  {LeafSet("UID", <<R(8, 8), R(2, 3)>>), LeafSet("SEQ", <<R(3, 4), R(1, 1)>>), LeafSet("SEQ", <<R(3, 3), R(2, 2), R(1, 1)>>)} \cup
  {Leaf(k) : k \in {"ALL", "SEEN", "UNSEEN", "DELETED", "FLAGGED", "NEW", "RECENT"}}
  \cup {LeafS("KEYWORD", pKW1), LeafS("UNKEYWORD", pKw1)}
  \cup {LeafN("BEFORE", 2), LeafN("ON", 2), LeafN("SINCE", 2), LeafN("SENTBEFORE", 3), LeafN("SENTON", 2), LeafN("SENTSINCE", 2)}
  \cup {LeafN("LARGER", Thr), LeafN("SMALLER", Thr)}
  \cup {LeafS("FROM", pAnn), LeafS("TO", pBob), LeafS("CC", pAnn), LeafS("BCC", pDan), LeafS("SUBJECT", pFox),
        LeafS("BODY", pGnu), LeafS("TEXT", pFox), LeafH(hXCust, <<>>)}
  \cup {LeafSet("UID", <<R(3, 6)>>), LeafSet("SEQ", <<R(2, 3)>>), LeafSet("SEQ", <<R(5, 5)>>)}
Pair_Thorough == FullLeaves

Deep_None == {}
Deep_Quick == {Leaf("SEEN"), LeafS("FROM", pAnn), LeafSet("SEQ", <<R(2, 3)>>)}   \* a small sample of depth 3
Deep_Thorough ==
  {Leaf("SEEN"), Leaf("DELETED"), Leaf("NEW"), LeafS("KEYWORD", pKW1), LeafN("ON", 2), LeafN("SENTSINCE", 2),
   LeafN("LARGER", Thr), LeafS("FROM", pAnn), LeafS("BODY", pGnu), LeafH(hXCust, <<>>),
   LeafSet("UID", <<R(3, 6)>>), LeafSet("SEQ", <<R(2, 3)>>)}

\* depth 2 over a leaf set L, leaves excluded
Composite(L) ==
  {Not(a) : a \in L} \cup {List(<<a>>) : a \in L}
  \cup {Or(a, b) : a \in L, b \in L} \cup {List(<<a, b>>) : a \in L, b \in L}

\* commands of depth <= 2
Keys2 ==
  {<<t>> : t \in FullLeaves}
  \cup {<<Not(a)>> : a \in FullLeaves} \cup {<<List(<<a>>)>> : a \in FullLeaves}
  \cup {<<Or(a, b)>> : a \in PairLeaves, b \in PairLeaves}
  \cup {<<List(<<a, b>>)>> : a \in PairLeaves, b \in PairLeaves}
  \cup {<<a, b>> : a \in PairLeaves, b \in PairLeaves}

\* commands of depth 3: a depth-2 tree under or beside one more operator
Keys3 ==
  LET C == Composite(DeepLeaves) IN
  {<<Not(t)>> : t \in C}
  \cup {<<Or(t, a)>> : t \in C, a \in DeepLeaves} \cup {<<Or(a, t)>> : t \in C, a \in DeepLeaves}
  \cup {<<List(<<t, a>>)>> : t \in C, a \in DeepLeaves} \cup {<<List(<<a, t>>)>> : t \in C, a \in DeepLeaves}
  \cup {<<t, a>> : t \in C, a \in DeepLeaves} \cup {<<a, t>> : t \in C, a \in DeepLeaves}
  \cup {<<List(<<a, b, c>>)>> : a \in DeepLeaves, b \in DeepLeaves, c \in DeepLeaves}
  \cup {<<a, b, c>> : a \in DeepLeaves, b \in DeepLeaves, c \in DeepLeaves}

\* CHARSET: the patterns of the model are ASCII, so every ASCII-compatible charset gives the result of the
\* command without CHARSET.  RFC 3501: US-ASCII MUST and UTF-8 SHOULD be supported; a charset the server
\* does not support MUST be refused with a tagged NO.  Which further charsets are supported is the
\* server's business: for those either outcome is right (orno), anything else (BAD, no reply) is not.
MustCharsets == {"UTF-8", "US-ASCII"}
MayCharsets == {"ISO-8859-1", "ISO-2022-CN", "X-NO-SUCH-CHARSET"}    \* ASCII compatible / registered, rarely implemented / not registered
CharsetKeys == {<<Leaf("ALL")>>, <<LeafS("FROM", pAnn)>>, <<LeafS("CC", pAnn)>>, <<Not(LeafS("SUBJECT", pFox))>>,
                <<LeafS("BODY", pGnu), Leaf("SEEN")>>}

VARIABLES box, keys, cs
vars == <<box, keys, cs>>

-----------------------------------------------------------------------------
(* evaluation *)

MaxUid(n) == IF n = 0 THEN 0 ELSE UidSeq[n]
Min(x, y) == IF x < y THEN x ELSE y
Max(x, y) == IF x > y THEN x ELSE y

SeqVal(x, n) == IF x = 0 THEN n ELSE x
UidVal(x, n) == IF x = 0 THEN MaxUid(n) ELSE x

InSeqSet(set, i, n) ==
  \E j \in 1..Len(set) :
    LET a == SeqVal(set[j].a, n)
        b == SeqVal(set[j].b, n)
    IN i >= Min(a, b) /\ i <= Max(a, b)

InUidSet(set, uid, n) ==
  n > 0 /\ \E j \in 1..Len(set) :
    LET a == UidVal(set[j].a, n)
        b == UidVal(set[j].b, n)
    IN uid >= Min(a, b) /\ uid <= Max(a, b)

\* d = LowData of the message: both sides of every text comparison are lower case,
\* which is what "case-insensitive" means
FieldHas(d, name, p) == LET e == Field(d, name) IN e.has /\ IsSubstr(Low(p), e.v)

\* TEXT: the pattern occurs in a header line or in the body (patterns never contain CRLF)
TextHas(d, p) ==
  LET lp == Low(p) IN
  \/ \E i \in 1..Len(d.hdr) : IsSubstr(lp, d.hdr[i].line)
  \/ IsSubstr(lp, d.body)

HasKw(d, p) == Low(p) \in d.kws

\* does key tree t hold for the message at position i of the view of box b
RECURSIVE Holds(_, _, _)
Holds(t, i, b) ==
  LET v == BoxData[b]
      m == v[i]
      d == LowData[b][i]
      n == Len(v)
  IN CASE t.k = "ALL" -> TRUE
       [] t.k = "ANSWERED" -> "Answered" \in m.sys
       [] t.k = "UNANSWERED" -> "Answered" \notin m.sys
       [] t.k = "DELETED" -> "Deleted" \in m.sys
       [] t.k = "UNDELETED" -> "Deleted" \notin m.sys
       [] t.k = "DRAFT" -> "Draft" \in m.sys
       [] t.k = "UNDRAFT" -> "Draft" \notin m.sys
       [] t.k = "FLAGGED" -> "Flagged" \in m.sys
       [] t.k = "UNFLAGGED" -> "Flagged" \notin m.sys
       [] t.k = "SEEN" -> "Seen" \in m.sys
       [] t.k = "UNSEEN" -> "Seen" \notin m.sys
       [] t.k = "RECENT" -> m.recent
       [] t.k = "OLD" -> ~m.recent
       [] t.k = "NEW" -> m.recent /\ "Seen" \notin m.sys
       [] t.k = "KEYWORD" -> HasKw(d, t.s)
       [] t.k = "UNKEYWORD" -> ~HasKw(d, t.s)
       [] t.k = "BEFORE" -> m.idate < t.n
       [] t.k = "ON" -> m.idate = t.n
       [] t.k = "SINCE" -> m.idate >= t.n
       [] t.k = "SENTBEFORE" -> m.sdate < t.n
       [] t.k = "SENTON" -> m.sdate = t.n
       [] t.k = "SENTSINCE" -> m.sdate >= t.n
       [] t.k = "LARGER" -> m.size > t.n
       [] t.k = "SMALLER" -> m.size < t.n
       [] t.k = "FROM" -> FieldHas(d, hFrom, t.s)
       [] t.k = "TO" -> FieldHas(d, hTo, t.s)
       [] t.k = "CC" -> FieldHas(d, hCc, t.s)
       [] t.k = "BCC" -> FieldHas(d, hBcc, t.s)
       [] t.k = "SUBJECT" -> FieldHas(d, hSubject, t.s)
       [] t.k = "HEADER" -> FieldHas(d, t.f, t.s)     \* "" matches every message that HAS the field
       [] t.k = "BODY" -> IsSubstr(Low(t.s), d.body)
       [] t.k = "TEXT" -> TextHas(d, t.s)
       [] t.k = "UID" -> InUidSet(t.set, m.uid, n)
       [] t.k = "SEQ" -> InSeqSet(t.set, i, n)
       [] t.k = "NOT" -> ~Holds(t.sub[1], i, b)
       [] t.k = "OR" -> Holds(t.sub[1], i, b) \/ Holds(t.sub[2], i, b)
       [] t.k = "LIST" -> \A j \in 1..Len(t.sub) : Holds(t.sub[j], i, b)

\* a sequence-set key names a message that the view does not have
RECURSIVE Beyond(_, _)
Beyond(t, n) ==
  IF t.k = "SEQ" THEN n = 0 \/ \E j \in 1..Len(t.set) : SeqVal(t.set[j].a, n) > n \/ SeqVal(t.set[j].b, n) > n
  ELSE \E j \in 1..Len(t.sub) : Beyond(t.sub[j], n)

Ascending(S, n) == SelectSeq([i \in 1..n |-> i], LAMBDA i : i \in S)

\* juxtaposed keys ks over the view of box b
Result(ks, b) ==
  LET v == BoxData[b]
      n == Len(v)
      P == {i \in 1..n : \A j \in 1..Len(ks) : Holds(ks[j], i, b)}
      sq == Ascending(P, n)
  IN IF \E j \in 1..Len(ks) : Beyond(ks[j], n)
     THEN [res |-> "BAD", pos |-> {}, seqs |-> <<>>, uids |-> <<>>]
     ELSE [res |-> "OK", pos |-> P, seqs |-> sq, uids |-> [x \in 1..Len(sq) |-> v[sq[x]].uid]]

-----------------------------------------------------------------------------
Init == /\ box \in Boxes
        /\ \/ cs = "" /\ (keys = <<>> \/ keys \in Keys2 \/ (box # "E" /\ keys \in Keys3))
           \/ cs \in MustCharsets \cup MayCharsets /\ keys \in CharsetKeys
Next == UNCHANGED vars          \* every case is an initial state
Spec == Init /\ [][Next]_vars

V == View(box)
N == Len(V)
Expected == Result(keys, box)
Pos(ks) == Result(ks, box).pos

(* printing *)
RECURSIVE Pr(_)
Pr(t) ==
  CASE t.k \in FlagKinds -> [k |-> t.k]
    [] t.k \in DateKinds \cup {"LARGER", "SMALLER"} -> [k |-> t.k, n |-> t.n]
    [] t.k = "HEADER" -> [k |-> t.k, f |-> Str(t.f), s |-> Str(t.s)]
    [] t.k \in {"UID", "SEQ"} -> [k |-> t.k, r |-> t.set]
    [] t.k \in {"NOT", "OR", "LIST"} -> [k |-> t.k, c |-> [j \in 1..Len(t.sub) |-> Pr(t.sub[j])]]
    [] OTHER -> [k |-> t.k, s |-> Str(t.s)]

FlagOrder == <<"Seen", "Answered", "Flagged", "Deleted", "Draft">>
PrMsg(m) ==
  [uid |-> m.uid, sys |-> SelectSeq(FlagOrder, LAMBDA f : f \in m.sys), kws |-> {Str(kw) : kw \in m.kws},
   recent |-> m.recent, idate |-> m.idate, ivar |-> m.ivar, sdate |-> m.sdate, svar |-> m.svar,
   size |-> m.size, gone |-> m.gone,
   lines |-> [j \in 1..Len(Hdr(m)) |-> Str(Line(Hdr(m)[j]))] \o <<"", Str(BodyLine(m))>>]

PrintCase ==
  Emit => IF keys = <<>>
          THEN PrintT(ToJson([def |-> box, idlen |-> IdLineLen, msgs |-> [i \in 1..N |-> PrMsg(V[i])]]))
          ELSE LET e == Expected IN
               PrintT(ToJson([box |-> box, cs |-> cs, orno |-> cs \in MayCharsets,
                              keys |-> [j \in 1..Len(keys) |-> Pr(keys[j])],
                              exp |-> [res |-> e.res, seqs |-> e.seqs, uids |-> e.uids]]))

-----------------------------------------------------------------------------
(* Laws of the evaluation function (the design), checked on every case *)

Ok == keys # <<>> /\ Expected.res = "OK"
All == 1..N

\* results lie in the view, ascending without duplicates; UID SEARCH names the same messages
InsideView == Expected.pos \subseteq All
AscendingNoDup ==
  LET e == Expected IN
  /\ \A i \in 1..(Len(e.seqs) - 1) : e.seqs[i] < e.seqs[i + 1]
  /\ {e.seqs[i] : i \in 1..Len(e.seqs)} = e.pos
UidsSameMessages ==
  LET e == Expected IN
  /\ Len(e.uids) = Len(e.seqs)
  /\ \A i \in 1..Len(e.seqs) : e.uids[i] = UidSeq[e.seqs[i]]

\* NOT is the complement within the view (a gone message is still part of it); NOT NOT = id
NotIsComplement ==
  LET e == Expected IN
  (keys # <<>> /\ e.res = "OK" /\ Len(keys) = 1) => /\ Pos(<<Not(keys[1])>>) = All \ e.pos
                                                    /\ Pos(<<Not(Not(keys[1]))>>) = e.pos

\* OR is the union, commutative; De Morgan
OrIsUnion ==
  (Len(keys) = 1 /\ keys[1].k = "OR" /\ Ok) =>
     LET a == keys[1].sub[1]
         b == keys[1].sub[2]
         e == Expected
     IN /\ e.pos = Pos(<<a>>) \cup Pos(<<b>>)
        /\ e.pos = Pos(<<Or(b, a)>>)
        /\ Pos(<<Not(keys[1])>>) = Pos(<<Not(a), Not(b)>>)
        /\ Pos(<<Not(keys[1])>>) = Pos(<<List(<<Not(a), Not(b)>>)>>)

RECURSIVE Inter(_, _)
Inter(ks, j) == IF j > Len(ks) THEN All ELSE Pos(<<ks[j]>>) \cap Inter(ks, j + 1)

\* a parenthesised list and juxtaposition are the intersection
ListIsIntersection ==
  LET e == Expected IN
  /\ (Len(keys) = 1 /\ keys[1].k = "LIST" /\ e.res = "OK") =>
        /\ e.pos = Inter(keys[1].sub, 1)
        /\ e.pos = Pos(keys[1].sub)
  /\ (Len(keys) > 1 /\ e.res = "OK") =>
        /\ e.pos = Inter(keys, 1)
        /\ e.pos = Pos(<<List(keys)>>)

\* BAD exactly when some sequence-set leaf names a number above the view
RECURSIVE Leaves(_)
Leaves(t) == IF t.sub = <<>> THEN {t} ELSE UNION {Leaves(t.sub[j]) : j \in 1..Len(t.sub)}
BadIffBeyond ==
  keys # <<>> =>
    (Expected.res = "BAD" <=>
       \E j \in 1..Len(keys) : \E l \in Leaves(keys[j]) :
          l.k = "SEQ" /\ (N = 0 \/ \E x \in 1..Len(l.set) : SeqVal(l.set[x].a, N) > N \/ SeqVal(l.set[x].b, N) > N))

\* the ranges of a set are a union: writing them in another order selects the same messages
Reverse(sq) == [i \in 1..Len(sq) |-> sq[Len(sq) + 1 - i]]
SetOrderIrrelevant ==
  keys = <<>> =>
    \A t \in {x \in FullLeaves : x.k \in {"UID", "SEQ"}} : Pos(<<t>>) = Pos(<<[t EXCEPT !.set = Reverse(t.set)]>>)

\* relations between leaf keys, checked once per box
L1(t) == Pos(<<t>>)
LeafLaws ==
  keys = <<>> =>
    /\ L1(Leaf("ALL")) = All
    /\ \A p \in {<<"ANSWERED", "UNANSWERED">>, <<"DELETED", "UNDELETED">>, <<"DRAFT", "UNDRAFT">>,
                 <<"FLAGGED", "UNFLAGGED">>, <<"SEEN", "UNSEEN">>, <<"RECENT", "OLD">>} :
          L1(Leaf(p[2])) = All \ L1(Leaf(p[1]))
    /\ L1(Leaf("NEW")) = L1(Leaf("RECENT")) \cap L1(Leaf("UNSEEN"))
    /\ \A s \in {pKw1, pKW1, pKw2} : L1(LeafS("UNKEYWORD", s)) = All \ L1(LeafS("KEYWORD", s))
    /\ L1(LeafS("KEYWORD", pKw1)) = L1(LeafS("KEYWORD", pKW1))
    /\ \A pre \in {"", "SENT"} : \A d \in 1..3 :
          /\ L1(LeafN(pre \o "SINCE", d)) = All \ L1(LeafN(pre \o "BEFORE", d))
          /\ L1(LeafN(pre \o "ON", d)) = L1(LeafN(pre \o "SINCE", d)) \ (IF d < 3 THEN L1(LeafN(pre \o "SINCE", d + 1)) ELSE {})
    /\ \A k \in {Thr - 1, Thr} : L1(LeafN("SMALLER", k + 1)) = All \ L1(LeafN("LARGER", k))
    /\ N = 0 => \A t \in FullLeaves : t.k # "SEQ" => L1(t) = {}
=============================================================================
