--------------------------- MODULE GluonLocksTrace ---------------------------
(***************************************************************************)
(* Trace validation for C19.                                               *)
(*                                                                         *)
(* trace.ndjson is a recording of one run of the real server under stress  *)
(* (harness/drivers/c19): one line per hook event (verifhook.Event placed  *)
(* after an acquisition / wait / receive and before a release / Done /     *)
(* close / send), in the order of a global atomic counter taken inside the *)
(* hook, after the harness mapped goroutine ids to the goroutines of       *)
(* GluonLocks:                                                             *)
(*   {"g": kind, "id": session or user or "-", "op": .., "obj": ..}        *)
(* TLC decides whether the recording is a behaviour of GluonLocks with the *)
(* switches of the pinned code: every event must be the label of a step    *)
(* that is enabled at that point (steps without a hook are interleaved     *)
(* freely), and the invariants of GluonLocks are evaluated along the way.  *)
(* Clients, connector and listener are open (OpenEnv): what is bound is    *)
(* the order of lock, wait-group, channel-close and lifecycle operations.  *)
(* "touch" events (a goroutine read or wrote the snapshot of a state) are  *)
(* not steps of a goroutine: they only feed the history variable touches   *)
(* on which OnlyOwner is evaluated.                                        *)
(***************************************************************************)
EXTENDS GluonLocks, Json, TLCExt

TraceLog == ndJsonDeserialize("trace.ndjson")

VARIABLE l
traceVars == <<vars, l>>

TraceInit == Init /\ l = 1 /\ TLCSet(1, 1)

Ev == TraceLog[l]

\* A step of GluonLocks: labelled with exactly the next event, or silent.  Without clients and connector (OpenEnv) a
\* silent step only ever enables a later step of the SAME goroutine, so silent steps are tried for the goroutine of the
\* next event only (the accept step of srv carries the label of the session goroutine it starts).
Cand == IF l <= Len(TraceLog) THEN {<<Ev.g, Ev.id>>} \cup (IF Ev.op = "go.start" THEN {Srv} ELSE {}) ELSE {}
Follows ==
  IF lab' = Silent THEN l' = l
  ELSE /\ l <= Len(TraceLog) /\ Ev.op # "touch"
       /\ lab' = <<Ev.g, Ev.id, Ev.op, Ev.obj>>
       /\ l' = l + 1
TStep ==
  \/ \E g \in Cand \cap G : Step(g) /\ Follows
  \/ Env /\ lab' # Silent /\ Follows

\* the snapshot of the state of session Ev.obj was accessed by goroutine <<Ev.g, Ev.id>>
TTouch ==
  /\ l <= Len(TraceLog) /\ Ev.op = "touch"
  /\ touches' = touches \cup {<<Ev.g, IF Ev.g \in {"loop", "h"} /\ Ev.id = Ev.obj THEN "own" ELSE "foreign">>}
  /\ l' = l + 1
  /\ UNCHANGED <<pc, lk, wg, chan, listener, backlog, accHand, cli, inbox, infl, sent, srvClosed, cur, mode, sstate,
                 userIn, states, dbClosed, qItems, qChan, qClosed, connQ, fwdHeld, submitted, arg, afterClose, lab>>

TraceNext == TStep \/ TTouch

\* lab is part of the view only through what it allowed; two states that differ in lab alone continue alike
TraceView == <<pc, lk, wg, chan, srvClosed, cur, mode, sstate, userIn, states, dbClosed, qClosed, arg, touches, afterClose, l>>

TraceConstraint == IF l > TLCGet(1) THEN TLCSet(1, l) ELSE TRUE
TraceAccepted == TLCGet(1) = Len(TraceLog) + 1
TraceReport == PrintT(ToJson([highwater |-> TLCGet(1), len |-> Len(TraceLog)])) /\ TraceAccepted
=============================================================================
