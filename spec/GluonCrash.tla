----------------------------- MODULE GluonCrash -----------------------------
(***************************************************************************)
(* Durability of acknowledged state across restart, process death and      *)
(* failing storage / database steps.  Property C07.                        *)
(*                                                                         *)
(* What is on disk:  disk = [db, tx, open, files]                          *)
(*   db    the committed SQLite database: mailboxes (UIDVALIDITY, UIDNEXT, *)
(*         subscription, the (uid, message, \Deleted) rows of the mailbox  *)
(*         table), message rows (marked-for-deletion bit, flags), deleted  *)
(*         subscriptions                                                   *)
(*   tx    the working copy of the open write transaction (open = TRUE)    *)
(*   files the message ids that have a file in the store directory         *)
(*                                                                         *)
(* Every operation is its real STEP LIST as the code executes it: one step *)
(* per call of the message store and per statement of a write transaction, *)
(* plus BEGIN and COMMIT (read from internal/state/actions.go, state.go,   *)
(* mailbox.go, internal/backend/connector_updates.go, user.go; the step    *)
(* names are the method names of db.Transaction / store.Store, and the     *)
(* harness compares them with what the wrapped real code goes through).    *)
(* A step belongs to a handler region (field h): when the step returns an  *)
(* error the open transaction is rolled back (sqlite3 wrapTx) and the code *)
(* continues with the steps of that handler (APPEND: the message is put    *)
(* into the recovery mailbox; MessagesCreated: the files written so far    *)
(* are deleted; selected-state commands: the final flush).  A step whose   *)
(* error the code swallows is "soft".                                      *)
(*                                                                         *)
(*   Step      execute the next step                                       *)
(*   Crash     the process is killed at the boundary in front of the next  *)
(*             step: tx is gone, files stay                                *)
(*   FailStep  the next step returns an error instead of being executed    *)
(*   Ack       tagged OK / NO, Done(err) of the connector update - only    *)
(*             after the last step                                         *)
(*   Close     clean shutdown                                              *)
(*   Recover   start-up (newUser): purge messages marked deleted           *)
(*             (deleteAllMessagesMarkedDeleted), delete files without a    *)
(*             row (cleanupStaleStoreData)                                 *)
(*                                                                         *)
(* Each behaviour is one (operation, step index, kill | error) triple (or  *)
(* the clean restart); the terminal state of the behaviour is printed with *)
(* the steps reached and the state allowed after recovery: that list is    *)
(* the fault plan the harness executes against the real server.            *)
(***************************************************************************)
EXTENDS Integers, Sequences, FiniteSets, TLC, Json

CONSTANTS Ops,      \* operations to enumerate
          Design,   \* "code" = what gluon does; other values are broken designs used to show that the
                    \* invariants have teeth: "no_cleanup" (start-up does not delete files without a row),
                    \* "no_purge" (start-up does not purge marked messages), "row_first" (APPEND commits the
                    \* row before the literal is stored and nothing re-downloads), "split_move" (MOVE removes
                    \* and adds in two transactions)
          AppendFix,   \* FALSE = the code as it is: Mailbox.Append rescues the message into the recovery mailbox whenever
                       \* AppendRegular returns an error, also when only the second transaction failed (see Deviation);
                       \* TRUE = the proposed fix (no rescue once the first transaction has committed)
          ErrThenKill, \* TRUE: also enumerate "step k fails, the operation is answered, then the process is killed"
          BigN,     \* size of the connector batch of operation CONN_CREATE_BIG (the code stores and inserts in chunks of 1000)
          Emit      \* TRUE: print every terminal state as JSON

Recovery == "Recovered Messages"

\* message ids; Content maps an id to the bytes it carries (r1 is the copy of the APPEND literal that
\* ends up in the recovery mailbox, m1b the new incarnation of m1 after MessageUpdated, r0 a message rescued
\* into the recovery mailbox earlier, n0 its new incarnation when it is moved / copied out of there)
\* b1 .. b<BigN>: the messages of one big MessagesCreated batch (each carries its own name as content)
BigId(i) == "b" \o ToString(i)
BigIds == [i \in 1..BigN |-> BigId(i)]
Chunk == 1000
Content == [m1 |-> "m1", m2 |-> "m2", m3 |-> "m3", m4 |-> "m4", m5 |-> "m5", m1b |-> "m1v2", r1 |-> "m4", r0 |-> "m0", n0 |-> "m0"]
           @@ [x \in {BigId(i) : i \in 1..BigN} |-> x]
\* the connector can be asked for the literal of every message except recovered ones (state.getLiteral)
Redownloadable(id) == id \notin {"r0", "r1"} /\ Design # "row_first"

-----------------------------------------------------------------------------
(* steps *)

NoMs == <<>>
\* alt: steps the code inserts when this (soft) step fails - the fallback path
\* cut: after the fallback path the rest of the list is skipped; rb: the failing soft step belongs to a transaction, which is rolled back
S(n, k, a, b, ms, fl) == [n |-> n, k |-> k, h |-> "end", soft |-> FALSE, alt |-> <<>>, cut |-> FALSE, rb |-> FALSE, a |-> a, b |-> b, ms |-> ms, fl |-> fl]

Begin  == S("tx.begin", "begin", "", "", NoMs, {})
Commit == S("tx.commit", "commit", "", "", NoMs, {})
Rd(n)  == S(n, "rd", "", "", NoMs, {})                       \* a read inside the transaction
Nop(n) == S(n, "nop", "", "", NoMs, {})                      \* a statement without durable meaning here (\Recent)
Set(m) == S("store.Set", "set", "", "", <<m>>, {})
Del(m) == S("store.Delete", "del", "", "", <<m>>, {})
Get(m) == S("store.Get", "get", "", "", <<m>>, {})
List   == S("store.List", "get", "", "", NoMs, {})
CreateAdd(box, m, fl) == S("tx.CreateMessageAndAddToMailbox", "createAdd", box, "", <<m>>, fl)
CreateMsg(m, fl)      == S("tx.CreateMessages", "createMsg", "", "", <<m>>, fl)
Add(box, m)           == S("tx.AddMessagesToMailbox", "add", box, "", <<m>>, {})
CreateMsgs(ms)        == S("tx.CreateMessages", "createMsgs", "", "", ms, {})       \* one call, many messages
AddMany(box, ms)      == S("tx.AddMessagesToMailbox", "addMany", box, "", ms, {})   \* one call, many messages
Remove(box, m)        == S("tx.RemoveMessagesFromMailbox", "remove", box, "", <<m>>, {})
MkBox(name)           == S("tx.CreateMailboxIfNotExists", "mkbox", name, "", NoMs, {})
RmBox(name)           == S("tx.DeleteMailboxWithRemoteID", "rmbox", name, "", NoMs, {})
MvBox(old, new)       == S("tx.RenameMailboxWithRemoteID", "mvbox", old, new, NoMs, {})
SetSub(name, v)       == S("tx.SetMailboxSubscribed", "sub", name, v, NoMs, {})
Flag(m, fl)           == S("tx.AddFlagToMessages", "flag", "", "", <<m>>, fl)
Mark(n, m)            == S(n, "mark", "", "", <<m>>, {})
DelRows(m)            == S("tx.DeleteMessages", "delrows", "", "", <<m>>, {})

H(seq, h) == [i \in DOMAIN seq |-> [seq[i] EXCEPT !.h = h]]
Soft(s)   == [s EXCEPT !.soft = TRUE]
SoftAlt(s, alt) == [s EXCEPT !.soft = TRUE, !.alt = alt]
\* the caller logs the error of this part and goes on with `rest` instead of what follows in the list
SoftCut(s, rest)   == [s EXCEPT !.soft = TRUE, !.alt = rest, !.cut = TRUE]
SoftCutTx(s, rest) == [s EXCEPT !.soft = TRUE, !.alt = rest, !.cut = TRUE, !.rb = TRUE]

EmptyTx == <<Begin, Commit>>

\* the step list of each operation (session S1 has A selected; connector operations run while S1 watches INBOX)
StepsOf(op) ==
  CASE op = "APPEND" ->      \* APPEND A {m4}: Mailbox.Append -> actionCreateMessage; literal stored before the row is committed
         IF Design = "row_first"
         THEN H(<<Begin, Rd("tx.GetMailboxMessageCountAndUID"), Rd("tx.GetMessageIDFromRemoteID"), CreateAdd("A", "m4", {}), Commit, Set("m4")>>, "recover")
              \o H(EmptyTx, "recover") \o H(<<Begin, Nop("tx.ClearRecentFlagInMailboxOnMessage"), Commit>>, "end")
         ELSE H(<<Begin, Rd("tx.GetMailboxMessageCountAndUID"), Rd("tx.GetMessageIDFromRemoteID"), Set("m4"), CreateAdd("A", "m4", {}), Commit>>, "recover")
              \o H(EmptyTx, IF AppendFix THEN "end" ELSE "recover")                                                 \* stateDBWrite: second transaction (state updates)
              \o H(<<Begin, Nop("tx.ClearRecentFlagInMailboxOnMessage"), Commit>>, "end")   \* flush
    [] op = "FETCH" ->       \* FETCH 1 (BODY.PEEK[]) in A: State.getLiteral - when the cache file cannot be read the literal is
                             \* asked from the connector again and written back (the command still answers OK with the bytes)
         <<SoftAlt(Get("m1"), <<Set("m1")>>)>> \o H(EmptyTx, "end")
    [] op = "COPY" ->        \* COPY 1 B
         H(<<Begin, Rd("tx.MailboxFilterContains"), Rd("tx.GetMailboxMessageCountAndUID"), Add("B", "m1"), Commit>>, "flush")
         \o H(EmptyTx, "flush") \o H(EmptyTx, "end")
    [] op = "MOVE" ->        \* MOVE 1 B: remove from A and add to B are two statements of one transaction
         (IF Design = "split_move"
          THEN H(<<Begin, Rd("tx.MailboxFilterContains"), Rd("tx.MailboxFilterContains"), Rd("tx.GetMailboxMessageCountAndUID"),
                   Remove("A", "m1"), Commit, Begin, Add("B", "m1"), Commit>>, "flush")
          ELSE H(<<Begin, Rd("tx.MailboxFilterContains"), Rd("tx.MailboxFilterContains"), Rd("tx.GetMailboxMessageCountAndUID"),
                   Remove("A", "m1"), Add("B", "m1"), Commit>>, "flush"))
         \o H(EmptyTx, "flush") \o H(EmptyTx, "flush") \o H(EmptyTx, "end")
    [] op = "MOVE_REC" ->    \* MOVE 1 B with the recovery mailbox selected: actionMoveMessagesOutOfRecoveryMailbox re-creates the
                             \* message (new id n0), marks the old one deleted, takes it out of the recovery mailbox, adds the new one to B
         H(<<Begin, Rd("tx.GetImportedMessageData"), Get("r0"), Rd("tx.GetMessageIDFromRemoteID"), Set("n0"), CreateMsg("n0", {}),
             Mark("tx.MarkMessageAsDeleted", "r0"), Remove(Recovery, "r0"),
             Rd("tx.MailboxFilterContains"), Rd("tx.GetMailboxMessageCountAndUID"), Add("B", "n0"), Commit>>, "flush")
         \o H(EmptyTx, "flush") \o H(EmptyTx, "flush") \o H(EmptyTx, "end")
    [] op = "COPY_REC" ->    \* COPY 1 B with the recovery mailbox selected
         H(<<Begin, Rd("tx.GetImportedMessageData"), Get("r0"), Rd("tx.GetMessageIDFromRemoteID"), Set("n0"), CreateMsg("n0", {}),
             Rd("tx.MailboxFilterContains"), Rd("tx.GetMailboxMessageCountAndUID"), Add("B", "n0"), Commit>>, "flush")
         \o H(EmptyTx, "flush") \o H(EmptyTx, "end")
    [] op = "EXPUNGE" ->     \* EXPUNGE in A (m2 carries \Deleted)
         H(<<Begin, Rd("tx.MailboxFilterContains"), Remove("A", "m2"), Commit>>, "flush")
         \o H(EmptyTx, "flush") \o H(EmptyTx, "flush") \o H(EmptyTx, "end")
    [] op = "STORE" ->       \* STORE 1 +FLAGS (\Flagged)
         H(<<Begin, Rd("tx.GetMessagesFlags"), Flag("m1", {"Flagged"}), Commit>>, "flush")
         \o H(EmptyTx, "flush") \o H(EmptyTx, "flush") \o H(EmptyTx, "end")
    [] op = "CREATE" ->      \* CREATE C/D creates C and C/D in one transaction
         <<Begin, Rd("tx.MailboxExistsWithName"), Rd("tx.MailboxExistsWithName"), Rd("tx.GetMailboxCount"),
           MkBox("C"), MkBox("C/D"), Commit>>
    [] op = "DELETE" ->      \* DELETE B (subscribed, one message)
         <<Begin, Rd("tx.GetMailboxByName"), RmBox("B"), Commit>> \o EmptyTx
    [] op = "RENAME" ->      \* RENAME A X renames A and its inferior A/K in one transaction
         <<Begin, Rd("tx.GetMailboxByName"), Rd("tx.MailboxExistsWithName"), MvBox("A", "X"),
           Rd("tx.GetAllMailboxesWithAttr"), Rd("tx.GetMailboxByName"), MvBox("A/K", "X/K"), Commit>>
    [] op = "SUBSCRIBE" ->   <<Begin, Rd("tx.GetMailboxByName"), SetSub("A/K", "T"), Commit>>
    [] op = "UNSUBSCRIBE" -> \* State.Unsubscribe takes ANY error of GetMailboxByName for "no such mailbox" and looks for a deleted subscription
         <<Begin>> \o H(<<Rd("tx.GetMailboxByName")>>, "unsub") \o <<SetSub("B", "F"), Commit>>
    [] op = "CONN_CREATE" -> \* MessagesCreated(m5 in A and B): applyMessagesCreated
         H(<<Begin, Rd("tx.GetMessageIDFromRemoteID")>>, "end")
         \o H(<<Rd("tx.GetMailboxIDFromRemoteID"), Rd("tx.GetMailboxIDFromRemoteID"), Set("m5"), CreateMsg("m5", {"Flagged"}),
                Rd("tx.MailboxFilterContains"), Rd("tx.GetMailboxMessageCountAndUID"), Add("A", "m5"),
                Rd("tx.MailboxFilterContains"), Rd("tx.GetMailboxMessageCountAndUID"), Add("B", "m5"), Commit>>, "cleanup")
    [] op = "CONN_CREATE_BIG" -> \* MessagesCreated with BigN new messages for B: the literals are stored and the rows created chunk by
                                 \* chunk (1000 at a time; the store calls of a chunk run in parallel), then ONE AddMessagesToMailbox
         LET c1 == SubSeq(BigIds, 1, IF BigN < Chunk THEN BigN ELSE Chunk)
             c2 == SubSeq(BigIds, Chunk + 1, BigN)
         IN H(<<Begin, Rd("tx.GetMessageIDFromRemoteID"), Rd("tx.GetMailboxIDFromRemoteID")>>
              \o [i \in 1..(BigN - 1) |-> Rd("tx.GetMessageIDFromRemoteID")], "cleanupBig")
            \o H([i \in 1..Len(c1) |-> Set(c1[i])] \o <<CreateMsgs(c1)>>
                 \o (IF c2 = <<>> THEN <<>> ELSE [i \in 1..Len(c2) |-> Set(c2[i])] \o <<CreateMsgs(c2)>>)
                 \o <<Rd("tx.MailboxFilterContains"), Rd("tx.GetMailboxMessageCountAndUID"), AddMany("B", BigIds), Commit>>, "cleanupBig")
    [] op = "CONN_UPDATE" -> \* MessageUpdated(m1, new literal): the old row is marked deleted, a new message takes its place
         <<Begin, Soft(Get("m1")), Rd("tx.GetMessageMailboxIDs"), Remove("A", "m1"),
           Mark("tx.MarkMessageAsDeletedAndAssignRandomRemoteID", "m1"), CreateMsg("m1b", {"Seen"}), Set("m1b"),
           Rd("tx.GetMailboxIDFromRemoteID"), Rd("tx.GetMailboxMessageCountAndUID"), Add("A", "m1b"), Commit>>
    [] op = "CONN_DELETE" -> \* MessageDeleted(m3)
         <<Begin, Mark("tx.MarkMessageAsDeletedWithRemoteID", "m3"), Rd("tx.GetMessageIDFromRemoteID"),
           Rd("tx.GetMessageMailboxIDs"), Remove("B", "m3"), Commit>>
    [] op = "RELEASE" ->     \* the last session that still showed m1 (deleted by the remote) goes away: user.removeState
         <<Begin, DelRows("m1"), Commit, Soft(Del("m1"))>>
    [] op = "RECOVER" ->     \* the start-up itself (backend.newUser) on a directory that holds a message marked for deletion:
                             \* the recovery mailbox is loaded (hashes of its messages), the marked messages are purged -
                             \* rows in one transaction, THEN their files (deleteAllMessagesMarkedDeleted) - and the store is
                             \* listed for files without a row (cleanupStaleStoreData; none here).  A step that fails makes the
                             \* start fail; the fault may also be a kill: start-up must be restartable at every boundary
         \* (an unreadable file of a recovered message only costs its hash; a failing purge or clean-up is logged and start-up
         \* goes on: after a failed purge transaction nothing is stale, after a failed deletion of the purged files the
         \* clean-up finds them without a row and deletes them)
         H(<<Begin, Rd("tx.GetOrCreateMailboxAlt"), Rd("tx.GetMailboxMessageIDPairs"), Soft(Get("r0")), Commit>>, "startfail")
         \o <<SoftCutTx(Begin, <<List>>), SoftCutTx(Rd("tx.GetMessageIDsMarkedAsDelete"), <<List>>),
              SoftCutTx(DelRows("m1"), <<List>>), SoftCutTx(Commit, <<List>>),
              SoftCut(Del("m1"), <<Soft(List), Soft(Del("m1"))>>), Soft(List)>>

\* what the code does after a step of region h returned an error (after the rollback)
Handler(op, h) ==
  CASE h = "end"     -> <<>>
    [] h = "startfail" -> <<>>                                    \* newUser returns the error: the server does not start
    [] h = "flush"   -> EmptyTx                                   \* handleSelectedCommand: flush(false) also after a failure
    [] h = "unsub"   -> <<Nop("tx.RemoveDeletedSubscriptionWithName")>>   \* finds none -> ErrNoSuchMailbox -> rollback (modelled before it)
    [] h = "cleanup" -> <<Del("m5")>>                             \* applyMessagesCreated: delete the files written so far
    [] h = "cleanupBig" -> [i \in 1..BigN |-> Del(BigIds[i])]      \* ... one DeleteUnchecked per message of the batch
    [] h = "recover" -> <<Begin, Set("r1"), CreateAdd(Recovery, "r1", {}), Commit, Begin, Commit>>  \* Mailbox.Append

AckOnError(op) == IF op = "RELEASE" THEN "OK" ELSE "NO"       \* a released session just sees its connection closed

-----------------------------------------------------------------------------
(* the database *)

Box(v, nxt, sub, msgs) == [uidv |-> v, next |-> nxt, sub |-> sub, msgs |-> msgs]
Ent(uid, id, del) == [uid |-> uid, id |-> id, del |-> del]
Row(fl) == [marked |-> FALSE, flags |-> fl]

BaseDB ==
  [boxes |-> [b \in {"INBOX", "A", "A/K", "B", Recovery} |->
                CASE b = "INBOX"  -> Box("v:INBOX", 1, TRUE, <<>>)
                  [] b = "A"      -> Box("v:A", 3, TRUE, <<Ent(1, "m1", FALSE), Ent(2, "m2", TRUE)>>)
                  [] b = "A/K"    -> Box("v:A/K", 1, FALSE, <<>>)
                  [] b = "B"      -> Box("v:B", 2, TRUE, <<Ent(1, "m3", FALSE)>>)
                  [] b = Recovery -> Box("any", 2, TRUE, <<Ent(1, "r0", FALSE)>>)],   \* r0: an APPEND whose store step failed once
   rows  |-> [m \in {"m1", "m2", "m3", "r0"} |-> IF m = "m1" THEN Row({"Seen"}) ELSE Row({})],
   dsubs |-> {}]

BaseDisk == [db |-> BaseDB, tx |-> BaseDB, open |-> FALSE, files |-> {"m1", "m2", "m3", "r0"}]

Range(s) == {s[i] : i \in DOMAIN s}
Without(f, keys) == [x \in DOMAIN f \ keys |-> f[x]]

Stmt(d, s) ==
  CASE s.k = "createAdd" ->
         [d EXCEPT !.rows = (s.ms[1] :> Row(s.fl)) @@ @,
                   !.boxes[s.a].msgs = Append(@, Ent(d.boxes[s.a].next, s.ms[1], FALSE)),
                   !.boxes[s.a].next = @ + 1]
    [] s.k = "createMsg" -> [d EXCEPT !.rows = (s.ms[1] :> Row(s.fl)) @@ @]
    [] s.k = "createMsgs" -> [d EXCEPT !.rows = [m \in Range(s.ms) |-> Row(s.fl)] @@ @]
    [] s.k = "addMany" ->
         [d EXCEPT !.boxes[s.a].msgs = @ \o [i \in 1..Len(s.ms) |-> Ent(d.boxes[s.a].next + i - 1, s.ms[i], FALSE)],
                   !.boxes[s.a].next = @ + Len(s.ms)]
    [] s.k = "add" ->
         [d EXCEPT !.boxes[s.a].msgs = Append(@, Ent(d.boxes[s.a].next, s.ms[1], FALSE)),
                   !.boxes[s.a].next = @ + 1]
    [] s.k = "remove" -> [d EXCEPT !.boxes[s.a].msgs = SelectSeq(@, LAMBDA e : e.id \notin Range(s.ms))]
    [] s.k = "mkbox" ->
         IF s.a \in DOMAIN d.boxes THEN d
         ELSE [d EXCEPT !.boxes = (s.a :> Box("new", 1, TRUE, <<>>)) @@ @]
    [] s.k = "rmbox" ->
         [d EXCEPT !.dsubs = IF d.boxes[s.a].sub THEN @ \cup {s.a} ELSE @,
                   !.boxes = Without(@, {s.a})]
    [] s.k = "mvbox" -> [d EXCEPT !.boxes = (s.b :> d.boxes[s.a]) @@ Without(@, {s.a})]
    [] s.k = "sub" -> [d EXCEPT !.boxes[s.a].sub = (s.b = "T")]
    [] s.k = "flag" -> [d EXCEPT !.rows[s.ms[1]].flags = @ \cup s.fl]
    [] s.k = "mark" -> [d EXCEPT !.rows[s.ms[1]].marked = TRUE]
    [] s.k = "delrows" ->
         [d EXCEPT !.rows = Without(@, Range(s.ms)),
                   !.boxes = [b \in DOMAIN @ |-> [@[b] EXCEPT !.msgs = SelectSeq(@, LAMBDA e : e.id \notin Range(s.ms))]]]
    [] OTHER -> d      \* rd, nop

Effect(dk, s) ==
  CASE s.k = "begin"  -> [dk EXCEPT !.tx = dk.db, !.open = TRUE]
    [] s.k = "commit" -> [dk EXCEPT !.db = dk.tx, !.open = FALSE]
    [] s.k = "set"    -> [dk EXCEPT !.files = @ \cup Range(s.ms)]
    [] s.k = "del"    -> [dk EXCEPT !.files = @ \ Range(s.ms)]
    [] s.k = "get"    -> dk
    [] OTHER          -> [dk EXCEPT !.tx = Stmt(dk.tx, s)]

Rollback(dk) == [dk EXCEPT !.open = FALSE, !.tx = dk.db]

\* start-up: the open transaction never happened; purge marked messages (rows, then files); delete files without a row
RecoverDisk(dk) ==
  LET d0     == dk.db
      marked == IF Design = "no_purge" THEN {} ELSE {m \in DOMAIN d0.rows : d0.rows[m].marked}
      d2     == [d0 EXCEPT !.rows = Without(@, marked),
                           !.boxes = [b \in DOMAIN @ |-> [@[b] EXCEPT !.msgs = SelectSeq(@, LAMBDA e : e.id \notin marked)]]]
      f1     == dk.files \ marked
      f2     == IF Design = "no_cleanup" THEN f1 ELSE f1 \cap DOMAIN d2.rows
  IN [db |-> d2, tx |-> d2, open |-> FALSE, files |-> f2]

RECURSIVE RunAll(_, _, _)
RunAll(dk, seq, i) == IF i > Len(seq) THEN dk ELSE RunAll(Effect(dk, seq[i]), seq, i + 1)

\* RELEASE starts from the state in which the remote has deleted m1 while the session still showed it
PreDisk(op) ==
  IF op \in {"RELEASE", "RECOVER"}
  THEN RunAll(BaseDisk, <<Begin, Mark("tx.MarkMessageAsDeletedWithRemoteID", "m1"), Remove("A", "m1"), Commit>>, 1)
  ELSE BaseDisk
PostDisk(op) == RecoverDisk(RunAll(PreDisk(op), StepsOf(op), 1))

\* what a client can see: mailboxes with their messages and flags, and the subscription list
ViewOf(boxes, d) ==
  [boxes |-> boxes, dsubs |-> d.dsubs,
   flags |-> [m \in {e.id : e \in UNION {Range(boxes[b].msgs) : b \in DOMAIN boxes}} |-> d.rows[m].flags]]
View(d)     == ViewOf(d.boxes, d)
UserView(d) == ViewOf(Without(d.boxes, {Recovery}), d)      \* without the recovery mailbox

-----------------------------------------------------------------------------
VARIABLES op, list, pc, disk, mode, fault, acked, trace, live
vars == <<op, list, pc, disk, mode, fault, acked, trace, live>>

NoFault == [k |-> 0, kind |-> "none"]
LiveNone == [none |-> TRUE, v |-> BaseDB]

Init == /\ op \in Ops
        /\ list = StepsOf(op)
        /\ pc = 1
        /\ disk = PreDisk(op)
        /\ mode = "run"
        /\ fault = NoFault
        /\ acked = "none"
        /\ trace = <<>>
        /\ live = LiveNone

Running == mode \in {"run", "err"}

\* Where faults are injected.  Every step of every operation - except in the big batch, whose ~3 BigN steps are sampled at
\* the chunk boundaries: kills in front of the first / last store call of a chunk and of every later statement; errors only
\* at the statements that run alone (the store calls of a chunk run in parallel: which of them are still reached after one
\* failed is up to the scheduler)
AtChunkEdge(l, i) == l[i].k = "set" /\ (i = 1 \/ l[i - 1].k # "set" \/ i = Len(l) \/ l[i + 1].k # "set")
FaultPoint(kind) ==
  op # "CONN_CREATE_BIG" \/
    CASE list[pc].k = "rd" -> FALSE
      [] list[pc].k = "set" -> kind = "kill" /\ AtChunkEdge(list, pc)
      [] list[pc].k = "begin" -> FALSE
      [] OTHER -> TRUE

Step == /\ Running /\ pc <= Len(list)
        /\ disk' = Effect(disk, list[pc])
        /\ trace' = Append(trace, list[pc].n)
        /\ pc' = pc + 1
        /\ UNCHANGED <<op, list, mode, fault, acked, live>>

\* kill -9 at the boundary in front of step pc (the step is reached, not executed) ...
Crash == /\ mode = "run" /\ fault = NoFault /\ pc <= Len(list) /\ FaultPoint("kill")
         /\ fault' = [k |-> Len(trace) + 1, kind |-> "kill"]
         /\ trace' = Append(trace, list[pc].n)
         /\ disk' = Rollback(disk)
         /\ mode' = "crashed"
         /\ UNCHANGED <<op, list, pc, acked, live>>

\* ... or right after the acknowledgement
CrashAcked == /\ mode = "run" /\ fault = NoFault /\ pc = Len(list) + 1 /\ acked = "OK"
              /\ fault' = [k |-> Len(trace) + 1, kind |-> "kill"]
              /\ disk' = Rollback(disk)
              /\ mode' = "crashed"
              /\ UNCHANGED <<op, list, pc, acked, trace, live>>

\* step pc returns an error: not executed; rollback; continue with the handler of its region (or, soft, just go on)
FailStep == /\ mode = "run" /\ fault = NoFault /\ pc <= Len(list) /\ FaultPoint("error")
            /\ fault' = [k |-> Len(trace) + 1, kind |-> "error"]
            /\ trace' = Append(trace, list[pc].n)
            /\ IF list[pc].soft
               THEN /\ pc' = pc + 1
                    /\ list' = SubSeq(list, 1, pc) \o list[pc].alt \o (IF list[pc].cut THEN <<>> ELSE SubSeq(list, pc + 1, Len(list)))
                    /\ disk' = IF list[pc].rb THEN Rollback(disk) ELSE disk
                    /\ UNCHANGED mode
               ELSE /\ disk' = Rollback(disk)
                    /\ list' = Handler(op, list[pc].h)
                    /\ pc' = 1
                    /\ mode' = "err"
            /\ UNCHANGED <<op, acked, live>>

\* a step failed, the operation has been answered, and now the process dies instead of shutting down
CrashAfterError == /\ ErrThenKill /\ Running /\ fault.kind = "error" /\ pc = Len(list) + 1 /\ acked # "none"
                   /\ fault' = [fault EXCEPT !.kind = "errkill"]
                   /\ disk' = Rollback(disk)
                   /\ mode' = "crashed"
                   /\ UNCHANGED <<op, list, pc, acked, trace, live>>

Ack == /\ Running /\ pc = Len(list) + 1 /\ acked = "none"
       /\ acked' = IF mode = "err" THEN AckOnError(op) ELSE "OK"
       /\ live' = [none |-> FALSE, v |-> disk.db]
       /\ UNCHANGED <<op, list, pc, disk, mode, fault, trace>>

Close == /\ Running /\ acked # "none"
         /\ mode' = "closed"
         /\ UNCHANGED <<op, list, pc, disk, fault, acked, trace, live>>

Recover == /\ mode \in {"crashed", "closed"}
           /\ disk' = RecoverDisk(disk)
           /\ mode' = "recovered"
           /\ UNCHANGED <<op, list, pc, fault, acked, trace, live>>

Done == mode = "recovered" /\ UNCHANGED vars

Next == Step \/ Crash \/ CrashAcked \/ FailStep \/ CrashAfterError \/ Ack \/ Close \/ Recover \/ Done
Spec == Init /\ [][Next]_vars

-----------------------------------------------------------------------------
(* invariants: what must hold after start-up, whatever happened before *)

Recovered == mode = "recovered"
Pre  == PreDisk(op).db
Post == PostDisk(op).db
Listed(d) == UNION {Range(d.boxes[b].msgs) : b \in DOMAIN d.boxes}

\* everything acknowledged before the crash / shutdown is in the committed database
AckedSurvives == (Recovered /\ acked = "OK") => View(disk.db) = View(Post)

\* all mailboxes and the subscriptions are those before or those after the operation - never a mixture.
\* Rescued: gluon's answer to an APPEND it could not perform - the target mailbox is untouched and the recovery
\* mailbox has gained the message (it loses nothing that way): this is the designed outcome of a failed APPEND.
KeepsRecovered(d) == \A e \in Range(Pre.boxes[Recovery].msgs) : e \in Range(d.boxes[Recovery].msgs)
Rescued(d) == /\ op = "APPEND" /\ fault.kind \in {"error", "errkill"}
              /\ UserView(d) = UserView(Pre) /\ KeepsRecovered(d)
StrictBoA(d) == View(d) \in {View(Pre), View(Post)} \/ Rescued(d)

\* What the code does but the property does not allow (the harness reports it from the real server when it sees it):
\*   appended-and-rescued   stateDBWriteResult also fails when only its SECOND transaction (telling the sessions)
\*                          fails; Mailbox.Append takes that for "not appended" and rescues the message although
\*                          the first transaction has committed it: answered NO, in the target AND in the recovery mailbox.
Deviation(d) ==
  IF /\ op = "APPEND" /\ fault.kind \in {"error", "errkill"}
     /\ UserView(d) = UserView(Post) /\ View(d) # View(Post) /\ KeepsRecovered(d)
  THEN "appended-and-rescued" ELSE ""

BoA(d) == StrictBoA(d) \/ Deviation(d) # ""
BeforeOrAfter == Recovered => BoA(disk.db)

\* a message someone was told NO about is not lost either: after a failed APPEND the bytes are in the target or rescued
AppendNeverLost ==
  (Recovered /\ op = "APPEND" /\ acked = "NO") => \E e \in Listed(disk.db) : Content[e.id] = "m4"

\* every listed message has a row and its bytes: in the store, or the connector can be asked again
EveryListedFetchable ==
  Recovered => \A e \in Listed(disk.db) : e.id \in DOMAIN disk.db.rows /\ (e.id \in disk.files \/ Redownloadable(e.id))

\* no left-overs: no file without a row, no row still marked for deletion
NoOrphans ==
  Recovered => /\ disk.files \subseteq DOMAIN disk.db.rows
               /\ \A m \in DOMAIN disk.db.rows : ~disk.db.rows[m].marked

\* the live server after a failed step (before any restart) already shows before-or-after
LiveBeforeOrAfter == ~live.none => BoA(live.v)

-----------------------------------------------------------------------------
Proj(dk) == [boxes |-> dk.db.boxes, rows |-> dk.db.rows, dsubs |-> dk.db.dsubs, files |-> dk.files]

PrintCase ==
  (Emit /\ Recovered) =>
     PrintT(ToJson([op |-> op, k |-> fault.k, kind |-> fault.kind, nsteps |-> Len(StepsOf(op)),
                    steps |-> trace, ack |-> acked,
                    live |-> [none |-> live.none, boxes |-> View(live.v).boxes, dsubs |-> View(live.v).dsubs, flags |-> View(live.v).flags],
                    allowed |-> IF StrictBoA(disk.db) THEN {Proj(disk)} ELSE {},    \* what the property allows
                    yields |-> Proj(disk), deviation |-> Deviation(disk.db),        \* what this model of the code ends in
                    pre |-> Proj(PreDisk(op)), post |-> Proj(PostDisk(op)),
                    content |-> Content]))
=============================================================================
