------------------------------ MODULE GluonLocks ------------------------------
(***************************************************************************)
(* C19 - concurrent sessions, connector updates and shutdown of gluon:     *)
(* no deadlock, every command completes, RemoveUser and Close return and   *)
(* nothing is left behind.                                                 *)
(*                                                                         *)
(* The model is a set of goroutines, each a small program-counter machine  *)
(* whose steps are the operations on SHARED synchronisation objects in the *)
(* order of the Go code (file:function cited next to every step list):     *)
(*                                                                         *)
(*   acc        server.go:newConnCh            accept loop                 *)
(*   srv        server.go:serve                hands connections out       *)
(*   loop(s)    session.go:Serve/serve/done    per-session serve loop,     *)
(*              + handle_idle.go:handleIdle, handle_logout.go,             *)
(*              user.go:removeState, state.go:ApplyUpdate                  *)
(*   rd(s)      command.go:startCommandReader  command reader              *)
(*   h(s)       handle.go:handleOther          command handler             *)
(*   pump(s)    async/queued_channel.go        pump of the state's queue   *)
(*   upd(u)     user.go:newUser (closure)      connector update loop       *)
(*   fwd(u)     update_injector.go:forward     update forwarder            *)
(*   closer     server.go:Close -> backend.go:Close -> user.go:close       *)
(*   rem(u)     backend.go:RemoveUser -> user.go:close                     *)
(* and two goroutines without a step of their own, because all they do is  *)
(* range over one channel until it is closed:                              *)
(*   IDLE sender handle_idle.go (closure)      ended <=> idleCh closed     *)
(*   publisher   server.go:newEventCh          ended <=> eventCh closed    *)
(*                                                                         *)
(* Objects: backend.usersLock, user.statesLock (RW), the db client lock    *)
(* (RW: Read = shared, Write = exclusive), session.userLock,               *)
(* session.capsLock, the per-state update queue (items + buffered channel, *)
(* closed by state.Close), idleCh, cmdCh, eventCh, updateQuitCh,           *)
(* forwardQuitCh, injector.updatesCh, doneCh, serveDoneCh, connCh, and the *)
(* wait groups statesWG, updateWG, forwardWG, serveWG, handleWG.           *)
(*                                                                         *)
(* The environment: clients dial, send commands of every class (any-state, *)
(* LOGIN, authenticated, selected, IDLE, DONE, LOGOUT, a command with a    *)
(* literal) and disconnect abruptly in every phase; the connector submits  *)
(* updates; the application calls RemoveUser(u) and Server.Close at any    *)
(* moment and closes its listener after Close returned.                    *)
(*                                                                         *)
(* Deviations of the pinned code from the intended design are switches     *)
(* named Fix...: FALSE = what the code does.  Bug seeds a defect           *)
(* (detection power).  Writes to a connection never block (a client that   *)
(* stops reading without disconnecting is outside the model).              *)
(*                                                                         *)
(* Three ways of running it (spec/cfg/GluonLocks.*.cfg):                   *)
(*  - exhaustive, every step separate (Coarse = FALSE): one session;       *)
(*  - exhaustive, several sessions (Coarse = TRUE): critical sections      *)
(*    without other shared operations are one step;                        *)
(*  - trace validation (GluonLocksTrace.tla: Labels, FreeSections,         *)
(*    OpenEnv): every step carries the label of its hook event, handlers   *)
(*    and the update loop run any sequence of db sections, and what        *)
(*    clients / connector / listener do is left open.                      *)
(* Properties: TLC's deadlock check (Terminated is the only legitimate     *)
(* end), LockOrder, OnlyOwner, StatesCounted, NoUseAfterDbClose,           *)
(* DbClosedMeansNoStates, NoGoroutineLeft, and under weak fairness         *)
(* CloseReturns, RemoveUserReturns, EveryCommandCompletes,                 *)
(* NothingLeftEventually.                                                  *)
(***************************************************************************)
EXTENDS Integers, Sequences, FiniteSets, TLC

CONSTANTS
  Users,          \* user names
  Sessions,       \* session names; a session owns at most one state (one successful LOGIN)
  LoginTo,        \* [Sessions -> SUBSET Users]: users a session's LOGIN may name
  PreLogged,      \* [Sessions -> Users \cup {NoUser}]: sessions that start connected and authenticated (families without the accept/LOGIN prefix)
  CmdKinds,       \* command classes clients send: SUBSET AllCmdKinds
  MaxCmds,        \* commands per session
  UpdKinds,       \* SUBSET {"normal", "idchg"}: connector update classes
  MaxUpdates,     \* connector updates per user
  ChanCap,        \* buffer of the state update channel (32 in state.go:NewState)
  Removable,      \* SUBSET Users: users the application may RemoveUser
  LateDial,       \* TRUE: clients may also dial after Server.Close began
  CtxCancel,      \* TRUE: the application may cancel the context it handed to Server.Serve ("stops serving when the context is canceled")
  FreeSections,   \* TRUE: a handler runs any sequence of db sections (trace validation); FALSE: the program of its command class
  WriterPref,     \* TRUE: a waiting writer blocks new readers (sync.RWMutex); FALSE in trace validation (waiting is not observable)
  Labels,         \* TRUE: lab carries the label of the step just taken (trace validation)
  Eager,          \* TRUE: the environment's first moves are already made in Init (all clients dialed with their first command
                  \*       sent, all updates submitted, Close and RemoveUser called): the goroutine that consumes each of them
                  \*       may still do so arbitrarily late, so no interleaving is lost, but far fewer states are distinct
  OpenEnv,        \* TRUE (trace validation only): clients, connector and listener are not modelled - a step that waits for them
                  \*       (accept, read of a command, read failure, next update, a full queue) is simply allowed; what stays
                  \*       bound is the order of lock, wait-group, channel-close and lifecycle operations of gluon's goroutines
  Coarse,         \* TRUE: a critical section that holds one lock and contains no other operation on a shared object is ONE
                  \*       step (Lipton reduction: acquire = right mover, release = left mover); nested acquisitions, waits and
                  \*       channel operations stay separate steps, so every deadlock and every lock order is kept
  FixAcceptSelect,   \* TRUE: newConnCh's send also selects on serveDoneCh            (code: FALSE)
  FixQueueDiscard,   \* TRUE: state.Close closes the queue with CloseAndDiscardQueued  (code: FALSE)
  FixIDChanged,      \* TRUE: MessageIDChanged reaches snapshots through the queues    (code: FALSE)
  FixPeek,           \* TRUE: removeState does not read other states' snapshots        (code: FALSE)
  FixCapsOrder,      \* TRUE: CAPABILITY takes userLock before capsLock                (code: FALSE)
  FixReleaseCtx,     \* TRUE: Session.done releases the state with a context that is not cancelled (code: FALSE - it passes Serve's
                     \*       context on, user.removeState's first db.Read fails and it returns before delete(states), statesWG.Done
                     \*       and state.Close)
  Bug             \* "none" or a seeded defect

AllCmdKinds == {"noop", "caps", "login", "auth", "sel", "idle", "done", "logout", "lit"}
Bugs == {"none", "removeStateHoldsLock", "closeNoStatesWait", "doneNoRelease", "idleNotStopped", "sendIgnoresQuit"}

ASSUME /\ CmdKinds \subseteq AllCmdKinds /\ UpdKinds \subseteq {"normal", "idchg"}
       /\ Bug \in Bugs /\ Removable \subseteq Users /\ ChanCap \in Nat \ {0}

None == <<"none", "-">>
NoUser == "-"

\* goroutines ---------------------------------------------------------------
Acc == <<"acc", "-">>      Srv == <<"srv", "-">>     Closer == <<"closer", "-">>
Loop(s) == <<"loop", s>>   Rd(s) == <<"rd", s>>      H(s) == <<"h", s>>     Pump(s) == <<"pump", s>>
Upd(u) == <<"upd", u>>     Fwd(u) == <<"fwd", u>>    Rem(u) == <<"rem", u>>

SessionG == {"loop", "rd", "h", "pump"} \X Sessions
UserG == {"upd", "fwd"} \X Users
ServerG == {Acc, Srv} \cup SessionG \cup UserG          \* goroutines gluon starts
AppG == {Closer} \cup ({"rem"} \X Users)                  \* threads of the application
G == ServerG \cup AppG

\* locks --------------------------------------------------------------------
UsersLock == <<"usersLock", "-">>
UserLock(s) == <<"userLock", s>>
CapsLock(s) == <<"capsLock", s>>
StatesLock(u) == <<"statesLock", u>>
DB(u) == <<"db", u>>
\* user.publishLock (fix 6fecf1e): held from the transaction that commits a change until its state updates have been handed
\* to the states - by a command's stateDBWrite and by the update goroutine's userDBWrite
PublishLock(u) == <<"publish", u>>
Locks == {UsersLock} \cup ({"userLock", "capsLock"} \X Sessions) \cup ({"statesLock", "db", "publish"} \X (Users \cup {NoUser}))

\* The lock hierarchy derived from the code (see LockOrder): a goroutine that holds a lock only acquires locks further right.
\*   session.userLock < session.capsLock < backend.usersLock < user.publishLock < db client lock < user.statesLock
Rank(l) == CASE l[1] = "userLock" -> 1 [] l[1] = "capsLock" -> 2 [] l[1] = "usersLock" -> 3
             [] l[1] = "publish" -> 4 [] l[1] = "db" -> 5 [] l[1] = "statesLock" -> 6

VARIABLES
  pc,         \* [G -> STRING]   "off" = not started, "end" = returned
  lk,         \* [Locks -> [w : G \cup {None}, r : SUBSET G]]
  wg,         \* wait groups: [statesWG, updateWG, forwardWG : Users -> Nat; handleWG : Sessions -> Nat; serveWG : Nat]
  chan,       \* set of closed channels <<name, id>>
  listener,   \* "open" | "closed"  (owned by the application)
  backlog,    \* sessions dialed and not yet taken by Accept
  accHand,    \* the connection newConnCh holds while sending it on connCh ("-" = none)
  cli,        \* [Sessions -> "idle" | "up" | "gone"]   client side of the connection
  inbox,      \* [Sessions -> command kind | "litdata" | "none"]  bytes sent by the client, not yet read
  infl,       \* [Sessions -> BOOLEAN]  the client waits for the completion of a command
  sent,       \* [Sessions -> Nat]
  srvClosed,  \* [Sessions -> BOOLEAN]  the server closed the connection
  cur,        \* [Sessions -> command kind | "none"]  command the reader / loop / handler is working on
  mode,       \* [Sessions -> "normal" | "idle"]
  sstate,     \* [Sessions -> Users \cup {NoUser}]   Session.state (NoUser = nil)
  userIn,     \* [Users -> BOOLEAN]  entry of backend.users
  states,     \* [Users -> SUBSET Sessions]   user.states
  dbClosed,   \* [Users -> BOOLEAN]
  qItems,     \* [Sessions -> Nat]  QueuedChannel.items
  qChan,      \* [Sessions -> Nat]  QueuedChannel.ch (buffered)
  qClosed,    \* [Sessions -> BOOLEAN]
  connQ,      \* [Users -> Seq(update kind)]  the connector's update channel
  fwdHeld,    \* [Users -> update kind | "none"]  update the forwarder / update loop is working on
  submitted,  \* [Users -> Nat]
  arg,        \* [AppG \cup handlers -> Users \cup {NoUser}]  user argument of user.close / of LOGIN's GetState
  touches,    \* history: <<goroutine kind, "own" | "foreign">> accesses to a state's snapshot / responders
  afterClose, \* history: a db section was entered after the database of that user had been closed
  lab         \* label of the step just taken (only when Labels)

vars == <<pc, lk, wg, chan, listener, backlog, accHand, cli, inbox, infl, sent, srvClosed, cur, mode, sstate,
          userIn, states, dbClosed, qItems, qChan, qClosed, connQ, fwdHeld, submitted, arg, touches, afterClose, lab>>

\* everything except pc, lk, lab
rest == <<wg, chan, listener, backlog, accHand, cli, inbox, infl, sent, srvClosed, cur, mode, sstate,
          userIn, states, dbClosed, qItems, qChan, qClosed, connQ, fwdHeld, submitted, arg, touches, afterClose>>

Silent == <<"-", "-", "silent", "-">>
SetLab(g, op, obj) == lab' = IF Labels THEN <<g[1], g[2], op, obj>> ELSE Silent
NoLab == lab' = Silent

-----------------------------------------------------------------------------
\* lock primitives
Free(l) == lk[l].w = None /\ lk[l].r = {}
HeldBy(g) == {l \in Locks : lk[l].w = g \/ g \in lk[l].r}
Locked(l, g, m) == IF m = "X" THEN [lk EXCEPT ![l].w = g] ELSE [lk EXCEPT ![l].r = @ \cup {g}]
Unlocked(l, g) == [lk EXCEPT ![l] = [w |-> IF @.w = g THEN None ELSE @.w, r |-> @.r \ {g}]]
ModeName(l, m) == IF l[1] \in {"statesLock", "db"} THEN l[1] \o "." \o (IF m = "X" THEN "W" ELSE "R") ELSE l[1]

Go(g, to) == pc' = [pc EXCEPT ![g] = to]
Go2(g, to, g2, to2) == pc' = [pc EXCEPT ![g] = to, ![g2] = to2]

Closed(c) == c \in chan
ServeCtx == <<"serveCtx", "-">>          \* Done() of the context given to Server.Serve; every session context derives from it

\* what an acquire step of g may want: a set of [l, m ("X" exclusive | "R" shared), to (set of next pcs)]; {} = no acquire step
A(l, m, to) == [l |-> l, m |-> m, to |-> to]

UOf(s) == sstate[s]      \* the user a session works for

\* Handler programs: db sections in code order.  "R" = db.Read, "W" = db.Write, "Q" = db.Write with
\* QueueOrApplyStateUpdate -> forState (statesLock R) inside.
\*   sel  (STORE ...)   handle.go:handleSelectedCommand: userLock; State.Selected (R); stateDBWrite (W, then Q); flush (W)
\*   auth (CREATE ...)  handle.go:handleAuthenticatedCommand: userLock; stateDBWrite (W, then Q)
\*   noop               handle_noop.go:handleNoop: no userLock; State.Selected (R); flush (W)
\* The bounded model keeps one section of every nesting shape: a W section is a Q section without the inner lock.
EndPc(s) == IF cur[s] = "noop" THEN "H.fin" ELSE "H.cmd.ru"
SecNext(s, after) ==    \* pcs that may follow position `after` ("start" | "R" | "W" | "Q") of the handler's program
  IF FreeSections THEN {"H.sec"}
  \* (stateDBWrite: publishLock around the committing and the publishing transaction - P ... Prel; flush and NOOP do not take it)
  ELSE CASE cur[s] = "sel"  -> (CASE after = "start" -> {"H.R.acq"} [] after = "R" -> {"H.P.acq"} [] after = "P" -> {"H.Q.acq"}
                                  [] after = "Q" -> {"H.P.rel"} [] OTHER -> {EndPc(s)})
         [] cur[s] = "noop" -> (CASE after = "start" -> {"H.R.acq"} [] after = "R" -> {"H.W.acq"} [] OTHER -> {EndPc(s)})
         [] OTHER           -> (CASE after = "start" -> {"H.P.acq"} [] after = "P" -> {"H.Q.acq"} [] after = "Q" -> {"H.P.rel"}
                                  [] OTHER -> {EndPc(s)})

\* the sections of one user.apply: bounded model: [db.Read]; db.Write; forState.  Trace validation: any sequence.
UNext(after) ==
  IF FreeSections THEN {"U.sec"}
  \* (userDBWrite: publishLock around db.Write and queueStateUpdate)
  ELSE CASE after = "start" -> {"U.R.acq", "U.P.acq"} [] after = "R" -> {"U.P.acq"} [] after = "P" -> {"U.W.acq"}
         [] after = "W" -> {"U.sl.acq"} [] after = "SL" -> {"U.P.rel"} [] OTHER -> {"U.sel"}

AcqAt(g, p) ==
  LET k == g[1]  id == g[2] IN
  CASE
    \* handle_capability.go:handleCapability: capsLock.Lock, then getCaps: userLock.Lock (repaired: the other way round)
       k = "h" /\ p = "H.caps.1" -> {A(IF FixCapsOrder THEN UserLock(id) ELSE CapsLock(id), "X", {"H.caps.2"})}
    [] k = "h" /\ p = "H.caps.2" -> {A(IF FixCapsOrder THEN CapsLock(id) ELSE UserLock(id), "X", {"H.caps.3"})}
    \* handle_login.go:handleLogin: userLock, capsLock; s.state != nil -> BAD; backend.go:GetState: usersLock; user.go:newState: statesLock W
    [] k = "h" /\ p = "H.login.u" -> {A(UserLock(id), "X", {"H.login.c"})}
    [] k = "h" /\ p = "H.login.c" -> {A(CapsLock(id), "X", {IF UOf(id) # NoUser THEN "H.login.rc" ELSE "H.login.ul"})}
    [] k = "h" /\ p = "H.login.ul" -> {A(UsersLock, "X", {"H.login.auth"})}
    [] k = "h" /\ p = "H.login.sl" -> {A(StatesLock(arg[g]), "X", {"H.login.new"})}
    \* handle.go:handleAuthenticatedCommand / handleSelectedCommand: userLock; s.state == nil -> ErrNotAuthenticated; then the sections
    [] k = "h" /\ p = "H.cmd.u" -> {A(UserLock(id), "X", IF UOf(id) = NoUser THEN {"H.cmd.ru"} ELSE SecNext(id, "start"))}
    [] k = "h" /\ p = "H.P.acq" -> {A(PublishLock(UOf(id)), "X", SecNext(id, "P"))}
    [] k = "upd" /\ p = "U.P.acq" -> {A(PublishLock(id), "X", UNext("P"))}
    [] k = "h" /\ p = "H.R.acq" -> {A(DB(UOf(id)), "R", {"H.R.rel"})}
    [] k = "h" /\ p = "H.W.acq" -> {A(DB(UOf(id)), "X", {"H.W.rel"})}
    [] k = "h" /\ p = "H.Q.acq" -> {A(DB(UOf(id)), "X", {"H.Q.sl"})}
    [] k = "h" /\ p = "H.Q.sl"  -> {A(StatesLock(UOf(id)), "R", {"H.Q.in"})}
    \* handle_logout.go:handleLogout (runs on the serve loop): userLock, capsLock
    [] k = "loop" /\ p = "L.logout.u" -> {A(UserLock(id), "X", {"L.logout.c"})}
    [] k = "loop" /\ p = "L.logout.c" -> {A(CapsLock(id), "X", {"L.logout.rel"})}
    \* state.go:ApplyUpdate: user.GetDB().Write
    [] k = "loop" /\ p = "L.apply.acq" -> {A(DB(UOf(id)), "X", {"L.apply.in"})}
    \* state.go:Idle -> beginIdle -> flushResponses: user.GetDB().Write
    [] k = "loop" /\ p = "L.idle.acq" -> {A(DB(UOf(id)), "X", {"L.idle.begin"})}
    \* user.go:removeState: db.Read; fn(): statesLock W; db.Write
    [] k = "loop" /\ p = "RS.R.acq" -> {A(DB(UOf(id)), "R", {"RS.R.rel"})}
    [] k = "loop" /\ p = "RS.sl.acq" -> {A(StatesLock(UOf(id)), "X", {"RS.sl.in"})}
    [] k = "loop" /\ p = "RS.W.acq" -> {A(DB(UOf(id)), "X", {"RS.W.rel"})}
    \* connector_updates.go:apply*: [db.Read]; userDBWrite: db.Write; queueStateUpdate -> forState: statesLock R
    [] k = "upd" /\ p = "U.R.acq" -> {A(DB(id), "R", {"U.R.rel"})}
    [] k = "upd" /\ p = "U.W.acq" -> {A(DB(id), "X", {"U.W.rel"})}
    [] k = "upd" /\ p = "U.sl.acq" -> {A(StatesLock(id), "R", {"U.sl.in"})}
    \* user.go:close: closeStates (statesLock R); db.Close (db lock W)
    [] k \in {"closer", "rem"} /\ p = "K.cs.acq" -> {A(StatesLock(arg[g]), "R", {"K.cs.in"})}
    [] k \in {"closer", "rem"} /\ p = "K.db.acq" -> {A(DB(arg[g]), "X", {"K.db.in"})}
    \* backend.go:Close / RemoveUser: usersLock
    [] k = "closer" /\ p = "C.ul" -> {A(UsersLock, "X", {"C.next"})}
    [] k = "rem" /\ p = "X.ul" -> {A(UsersLock, "X", {"X.chk"})}
    \* ---- FreeSections (trace validation): the next section is not chosen ahead of time; the choice is the step itself
    [] FreeSections /\ k = "h" /\ p = "H.sec" -> {A(DB(UOf(id)), "R", {"H.R.rel"}), A(DB(UOf(id)), "X", {"H.W.in"})}
    [] FreeSections /\ k = "h" /\ p = "H.W.in" -> {A(StatesLock(UOf(id)), "R", {"H.Q.in"})}
    [] FreeSections /\ k = "upd" /\ p = "U.sec" -> {A(DB(id), "R", {"U.R.rel"}), A(DB(id), "X", {"U.W.rel"}), A(StatesLock(id), "R", {"U.sl.in"})}
    [] OpenEnv /\ k = "loop" /\ UOf(id) # NoUser /\ (p \in {"L.sel", "L.idle"} \/ (p = "L.wait" /\ pc[<<"h", id>>] \in {"off", "end"}))
         -> {A(DB(UOf(id)), "X", {"L.apply.in"})}
    [] OTHER -> {}

AcqOf(g) == AcqAt(g, pc[g])

WantsWrite(l) == \E g \in G : \E a \in AcqOf(g) : a.m = "X" /\ a.l = l
CanAcquire(g, l, m) ==
  IF m = "X" THEN Free(l)
  ELSE /\ lk[l].w = None
       /\ (WriterPref /\ l[1] \in {"statesLock", "db"}) => ~WantsWrite(l)

\* a db section entered after db.Close of that user ("sql: database is closed")
DbUse(l) == afterClose' = (afterClose \/ (l[1] = "db" /\ l[2] # NoUser /\ dbClosed[l[2]]))

\* pure release steps: pc -> [l, to (set of next pcs)]
NoRel == [l |-> None, to |-> {}]
RelAt(g, p) ==
  LET k == g[1]  id == g[2] IN
  CASE k = "h" /\ p = "H.caps.3" -> [l |-> IF FixCapsOrder THEN CapsLock(id) ELSE UserLock(id), to |-> {"H.caps.4"}]
    [] k = "h" /\ p = "H.caps.4" -> [l |-> IF FixCapsOrder THEN UserLock(id) ELSE CapsLock(id), to |-> {"H.fin"}]
    [] k = "h" /\ p = "H.login.rc" -> [l |-> CapsLock(id), to |-> {"H.login.ru"}]
    [] k = "h" /\ p = "H.login.ru" -> [l |-> UserLock(id), to |-> {"H.fin"}]
    [] k = "h" /\ p = "H.login.rul" -> [l |-> UsersLock, to |-> {"H.login.ev"}]
    [] k = "h" /\ p = "H.cmd.ru" -> [l |-> UserLock(id), to |-> {"H.fin"}]
    [] k = "h" /\ p = "H.P.rel" -> [l |-> PublishLock(UOf(id)), to |-> SecNext(id, "Prel")]
    [] k = "upd" /\ p = "U.P.rel" -> [l |-> PublishLock(id), to |-> UNext("Prel")]
    [] k = "h" /\ p = "H.R.rel" -> [l |-> DB(UOf(id)), to |-> SecNext(id, "R")]
    [] k = "h" /\ p = "H.W.rel" -> [l |-> DB(UOf(id)), to |-> SecNext(id, "W")]
    [] k = "h" /\ p = "H.Q.rel" -> [l |-> DB(UOf(id)), to |-> SecNext(id, "Q")]
    [] FreeSections /\ k = "h" /\ p = "H.W.in" -> [l |-> DB(UOf(id)), to |-> {"H.sec"}]
    [] FreeSections /\ k = "h" /\ p = "H.sec" /\ cur[id] # "noop" -> [l |-> UserLock(id), to |-> {"H.fin"}]
    \* user.go:removeState: `if err != nil { return err }` after the first read - taken when the context is cancelled
    [] k = "loop" /\ p = "RS.R.rel" -> [l |-> DB(UOf(id)), to |-> IF OpenEnv THEN {"RS.sl.acq", "L.connclose"}
                                                                 ELSE IF Closed(ServeCtx) /\ ~FixReleaseCtx THEN {"L.connclose"} ELSE {"RS.sl.acq"}]
    [] k = "loop" /\ p = "RS.W.rel" -> [l |-> DB(UOf(id)), to |-> {"RS.close"}]
    [] k = "upd" /\ p = "U.R.rel" -> [l |-> DB(id), to |-> UNext("R")]
    [] k = "upd" /\ p = "U.W.rel" -> [l |-> DB(id), to |-> UNext("W")]
    [] OTHER -> NoRel

RelOf(g) == RelAt(g, pc[g])

AcquireStep(g) ==
  \E a \in AcqOf(g) :
  /\ CanAcquire(g, a.l, a.m)
  /\ \E t \in a.to :
       LET r == RelAt(g, t) IN
       IF Coarse /\ r.to # {} /\ r.l = a.l
         THEN lk' = lk /\ \E t2 \in r.to : Go(g, t2)          \* the whole section at once
         ELSE lk' = Locked(a.l, g, a.m) /\ Go(g, t)
  /\ DbUse(a.l)
  /\ SetLab(g, "acq", ModeName(a.l, a.m))
  /\ UNCHANGED <<wg, chan, listener, backlog, accHand, cli, inbox, infl, sent, srvClosed, cur, mode, sstate,
                 userIn, states, dbClosed, qItems, qChan, qClosed, connQ, fwdHeld, submitted, arg, touches>>

ReleaseStep(g) ==
  LET r == RelOf(g) IN
  /\ r.to # {}
  /\ lk' = Unlocked(r.l, g)
  /\ \E t \in r.to : Go(g, t)
  /\ SetLab(g, "rel", r.l[1])
  /\ UNCHANGED rest

-----------------------------------------------------------------------------
Close(c) == chan' = chan \cup {c}
ConnDown(s) == cli[s] = "gone" \/ srvClosed[s]
Complete(s) == infl' = [infl EXCEPT ![s] = FALSE]
Enqueue(T) == qItems' = [s \in Sessions |-> IF s \in T /\ ~qClosed[s] /\ ~OpenEnv THEN qItems[s] + 1 ELSE qItems[s]]
Touch(k, who) == touches' = touches \cup {<<k, who>>}

-----------------------------------------------------------------------------
\* acc: server.go:newConnCh   { for { conn, err := l.Accept(); if err != nil { close(connCh); return }; connCh <- conn } }
AccUnch == <<lk, wg, listener, cli, inbox, infl, sent, cur, mode, sstate, userIn, states, dbClosed,
             qItems, qChan, qClosed, connQ, fwdHeld, submitted, arg, touches, afterClose>>
AccStep ==
  \/ /\ pc[Acc] = "A.accept" /\ backlog # {} /\ listener = "open"
     /\ \E s \in backlog : backlog' = backlog \ {s} /\ accHand' = s
     /\ Go(Acc, "A.send") /\ NoLab /\ UNCHANGED <<chan, srvClosed>> /\ UNCHANGED AccUnch
  \/ /\ (pc[Acc] = "A.accept" /\ listener = "closed") \/ (OpenEnv /\ pc[Acc] \in {"A.accept", "end"})
     /\ Close(<<"connCh", "-">>) /\ Go(Acc, "end") /\ SetLab(Acc, "go.end", "accept")
     /\ UNCHANGED <<backlog, accHand, srvClosed>> /\ UNCHANGED AccUnch
  \* repaired design only: select { case connCh <- conn: ; case <-serveDoneCh: conn.Close(); return }
  \/ /\ pc[Acc] = "A.send" /\ FixAcceptSelect /\ Closed(<<"serveDone", "-">>)
     /\ srvClosed' = [srvClosed EXCEPT ![accHand] = TRUE] /\ accHand' = "-"
     /\ Close(<<"connCh", "-">>) /\ Go(Acc, "end") /\ SetLab(Acc, "go.end", "accept")
     /\ UNCHANGED backlog /\ UNCHANGED AccUnch

\* srv: server.go:Serve { serveWG.Go(serve) } ; serve { for { select { <-serveDoneCh: return ; conn, ok := <-connCh: !ok -> return;
\*        defer conn.Close(); connWG.Go(func() { addSession; session.Serve; removeSession }) } } }
\*      the deferred conn.Close() of every accepted connection runs when serve returns; the session goroutines are not waited for
SrvUnch == <<lk, listener, backlog, cli, inbox, infl, sent, cur, mode, sstate, userIn, states, dbClosed,
             qItems, qChan, qClosed, connQ, fwdHeld, submitted, arg, touches, afterClose>>
SrvStep ==
  \* (OpenEnv: the application may have called Serve for several listeners: further serve loops end the same way)
  \/ /\ \/ pc[Srv] = "S.sel" /\ (Closed(<<"serveDone", "-">>) \/ Closed(ServeCtx) \/ (Closed(<<"connCh", "-">>) /\ pc[Acc] = "end"))
        \/ OpenEnv /\ pc[Srv] \in {"S.sel", "end"}
     /\ srvClosed' = [s \in Sessions |-> srvClosed[s] \/ pc[Loop(s)] # "off"]
     /\ wg' = [wg EXCEPT !.serveWG = IF @ > 0 THEN @ - 1 ELSE 0]
     /\ Go(Srv, "end") /\ SetLab(Srv, "go.end", "serve")
     /\ UNCHANGED <<chan, accHand>> /\ UNCHANGED SrvUnch
  \/ /\ (pc[Srv] = "S.sel" \/ (OpenEnv /\ pc[Srv] = "end"))     \* a connection arrives (OpenEnv: the new goroutine's hook may fire late): the session goroutine greets and starts its command reader
     /\ \E s \in Sessions :
          /\ IF OpenEnv THEN pc[Loop(s)] = "off" ELSE pc[Acc] = "A.send" /\ s = accHand
          /\ pc' = [pc EXCEPT ![Acc] = IF OpenEnv THEN @ ELSE "A.accept", ![Loop(s)] = "L.sel", ![Rd(s)] = "R.read"]
          /\ SetLab(Loop(s), "go.start", "session")
     /\ accHand' = "-"
     /\ UNCHANGED <<wg, chan, srvClosed>> /\ UNCHANGED SrvUnch

-----------------------------------------------------------------------------
\* rd(s): command.go:startCommandReader { defer close(cmdCh)
\*   for { cmd, err := parser.Parse() (conn.Read; a literal: send the continuation, read on); a read error: return;
\*         select { cmdCh <- cmd ; <-ctx.Done(): return } } }
RdUnch == <<lk, wg, listener, backlog, accHand, cli, infl, sent, srvClosed, mode, sstate, userIn, states,
            dbClosed, qItems, qChan, qClosed, connQ, fwdHeld, submitted, arg, touches, afterClose>>
RdStep(s) ==
  LET g == Rd(s) IN
  \/ /\ pc[g] = "R.read" /\ inbox[s] \notin {"none", "litdata"} /\ ~srvClosed[s] /\ (Coarse => inbox[s] = "lit")
     /\ cur' = [cur EXCEPT ![s] = inbox[s]] /\ inbox' = [inbox EXCEPT ![s] = "none"]
     /\ Go(g, IF inbox[s] = "lit" THEN "R.lit" ELSE "R.send") /\ NoLab /\ UNCHANGED chan /\ UNCHANGED RdUnch
  \/ /\ pc[g] = "R.lit" /\ inbox[s] = "litdata" /\ ~srvClosed[s]      \* mid-literal: the rest arrived
     /\ inbox' = [inbox EXCEPT ![s] = "none"] /\ Go(g, "R.send") /\ NoLab /\ UNCHANGED <<chan, cur>> /\ UNCHANGED RdUnch
  \/ /\ pc[g] \in {"R.read", "R.lit"}   \* conn.Read fails: closed by the server, or by the client after all it sent was read
     /\ \/ srvClosed[s] \/ OpenEnv
        \/ cli[s] = "gone" /\ ((pc[g] = "R.read" /\ inbox[s] = "none") \/ (pc[g] = "R.lit" /\ inbox[s] # "litdata"))
     /\ Close(<<"cmdCh", s>>) /\ Go(g, "end") /\ SetLab(g, "ch.close", "cmdCh") /\ UNCHANGED <<inbox, cur>> /\ UNCHANGED RdUnch
  \/ /\ pc[g] = "R.send" /\ Closed(<<"ctx", s>>)
     /\ Close(<<"cmdCh", s>>) /\ Go(g, "end") /\ SetLab(g, "ch.close", "cmdCh") /\ UNCHANGED <<inbox, cur>> /\ UNCHANGED RdUnch

-----------------------------------------------------------------------------
\* loop(s): session.go:Serve { defer s.done(ctx); defer s.handleWG.Wait(); greet; serve }
\*          session.go:serve { ctx, cancel := WithCancel; defer cancel(); cmdCh := startCommandReader; for { select {
\*             update := <-state.GetStateUpdatesCh(): state.ApplyUpdate
\*             res, ok := <-cmdCh: !ok -> return; Logout -> handleLogout, return; Idle -> handleIdle; default -> handleOther, range respCh
\*             <-state.Done(): return } } }
HStart(k) == CASE k = "caps" -> "H.caps.1" [] k = "login" -> "H.login.u" [] k \in {"auth", "sel", "lit"} -> "H.cmd.u"
               [] k = "noop" -> "H.noop" [] OTHER -> "H.fin"

LoopUnch2 == <<listener, backlog, accHand, cli, sent, userIn, dbClosed, connQ, fwdHeld, submitted, arg, afterClose>>
LoopUnch == <<inbox, LoopUnch2>>
\* a command is ready for the loop: the reader offers it on cmdCh
\* (Coarse: the reader's Read and its send on cmdCh are private to the session: the loop takes the command in one step)
FromInbox(s) == Coarse /\ pc[Rd(s)] = "R.read" /\ inbox[s] \notin {"none", "litdata", "lit"} /\ ~srvClosed[s]
CmdReady(s) == pc[Rd(s)] = "R.send" \/ FromInbox(s) \/ (OpenEnv /\ pc[Rd(s)] \in {"R.read", "end"})
\* (OpenEnv: the hook of a receive fires after it, the hook of the reader's close before it: the reader may already be logged
\*  as ended when the loop's receive of its last command is logged)
RdAfter(s) == IF OpenEnv THEN pc[Rd(s)] ELSE "R.read"
CmdKinds0(s) == IF OpenEnv THEN AllCmdKinds ELSE {IF pc[Rd(s)] = "R.send" THEN cur[s] ELSE inbox[s]}
TakeCmd(s) == inbox' = IF pc[Rd(s)] = "R.send" \/ OpenEnv THEN inbox ELSE [inbox EXCEPT ![s] = "none"]
\* leaving serve: the deferred cancel() runs before Serve's deferred handleWG.Wait()
\* (Coarse: when no handler is running, Wait returns at once and done()'s close(eventCh) follows: one step)
AfterWait(s) == IF sstate[s] = NoUser \/ Bug = "doneNoRelease" THEN "L.connclose" ELSE "RS.R.acq"
Leave(g, s) == IF Coarse /\ wg.handleWG[s] = 0
                 THEN Go(g, AfterWait(s)) /\ chan' = chan \cup {<<"ctx", s>>, <<"eventCh", s>>}
                 ELSE Go(g, "L.hwait") /\ chan' = chan \cup {<<"ctx", s>>}

\* the loop is in its select (OpenEnv: also when the handler has closed respCh - that transition has no hook)
AtSel(s) == pc[Loop(s)] = "L.sel" \/ (OpenEnv /\ pc[Loop(s)] = "L.wait" /\ pc[H(s)] \in {"off", "end"})

LoopStep(s) ==
  LET g == Loop(s)  u == sstate[s] IN
  \* select: an update from the state's queue channel (in the main loop and inside handleIdle); update.Filter(state) may drop it
  \* (OpenEnv: whether ApplyUpdate follows is not decided here - its db.Write may be entered from the select)
  \/ /\ (AtSel(s) \/ pc[g] = "L.idle") /\ u # NoUser /\ (qChan[s] > 0 \/ OpenEnv)
     /\ qChan' = [qChan EXCEPT ![s] = IF @ > 0 THEN @ - 1 ELSE 0]
     /\ IF OpenEnv THEN Go(g, pc[g]) ELSE (Go(g, "L.apply.acq") \/ Go(g, pc[g]))
     /\ Touch("loop", "own") /\ SetLab(g, "ch.recv", "updateQueue")
     /\ UNCHANGED <<lk, wg, chan, infl, srvClosed, cur, mode, sstate, states, qItems, qClosed>> /\ UNCHANGED LoopUnch
  \* ApplyUpdate inside db.Write: update.Apply -> PushResponder; while idling every response goes to idleCh (unbuffered;
  \* the IDLE sender takes it and writes it to the connection)
  \/ /\ pc[g] = "L.apply.in" /\ mode[s] = "idle" /\ ~Closed(<<"idleCh", s>>) /\ ~OpenEnv
     /\ Go(g, "L.apply.out") /\ NoLab
     /\ UNCHANGED <<lk, wg, chan, infl, srvClosed, cur, mode, sstate, states, qItems, qChan, qClosed, touches>> /\ UNCHANGED LoopUnch
  \/ /\ pc[g] \in {"L.apply.in", "L.apply.out"}
     /\ lk' = Unlocked(DB(u), g) /\ Go(g, IF mode[s] = "idle" THEN "L.idle" ELSE "L.sel") /\ SetLab(g, "rel", "db")
     /\ UNCHANGED <<wg, chan, infl, srvClosed, cur, mode, sstate, states, qItems, qChan, qClosed, touches>> /\ UNCHANGED LoopUnch
  \* select: a command from the reader (rendezvous on the unbuffered cmdCh)
  \/ /\ AtSel(s) /\ CmdReady(s)
     /\ \E k \in CmdKinds0(s) :
        /\ SetLab(g, "ch.recv", "cmd." \o k)
        /\ CASE k = "logout" -> /\ Go2(g, "L.logout.u", Rd(s), RdAfter(s)) /\ cur' = [cur EXCEPT ![s] = k] /\ UNCHANGED <<wg, infl>>
          [] k = "idle" /\ u # NoUser -> /\ Go2(g, "L.idle.acq", Rd(s), RdAfter(s)) /\ cur' = [cur EXCEPT ![s] = k] /\ UNCHANGED <<wg, infl>>
          [] k = "done" \/ (k = "idle" /\ u = NoUser) ->       \* parse error -> BAD / ErrNotAuthenticated -> NO
               /\ Go2(g, "L.sel", Rd(s), RdAfter(s)) /\ Complete(s) /\ cur' = [cur EXCEPT ![s] = "none"] /\ UNCHANGED wg
          [] OTHER -> /\ pc' = [pc EXCEPT ![g] = "L.wait", ![Rd(s)] = RdAfter(s), ![H(s)] = HStart(k)]   \* handleWG.Go
                      /\ wg' = [wg EXCEPT !.handleWG[s] = @ + 1] /\ cur' = [cur EXCEPT ![s] = k] /\ UNCHANGED infl
     /\ TakeCmd(s)
     /\ UNCHANGED <<lk, chan, srvClosed, mode, sstate, states, qItems, qChan, qClosed, touches>> /\ UNCHANGED LoopUnch2
  \* for res := range respCh: the handler closed respCh; or res.Send failed (connection down) while the handler may still run:
  \* return fmt.Errorf("failed to send response to client") (a helper goroutine drains respCh)
  \/ /\ pc[g] = "L.wait" /\ pc[H(s)] \in {"off", "end"} /\ ~OpenEnv
     /\ Go(g, "L.sel") /\ Complete(s) /\ cur' = [cur EXCEPT ![s] = "none"] /\ NoLab
     /\ UNCHANGED <<lk, wg, chan, srvClosed, mode, sstate, states, qItems, qChan, qClosed, touches>> /\ UNCHANGED LoopUnch
  \/ /\ pc[g] = "L.wait" /\ ConnDown(s) /\ ~OpenEnv
     /\ Leave(g, s) /\ Complete(s) /\ NoLab
     /\ UNCHANGED <<lk, wg, srvClosed, cur, mode, sstate, states, qItems, qChan, qClosed, touches>> /\ UNCHANGED LoopUnch
  \* select: cmdCh closed / state.Done()
  \* (OpenEnv: also a failed write to the client, an invalidated state, too many bad commands)
  \/ /\ pc[g] = "L.sel" /\ (Closed(<<"cmdCh", s>>) \/ (u # NoUser /\ Closed(<<"doneCh", s>>)) \/ Closed(ServeCtx)) /\ ~OpenEnv
     /\ Leave(g, s) /\ NoLab
     /\ UNCHANGED <<lk, wg, infl, srvClosed, cur, mode, sstate, states, qItems, qChan, qClosed, touches>> /\ UNCHANGED LoopUnch
  \* handle_logout.go:handleLogout: BYE and the tagged OK are written while both locks are held
  \/ /\ pc[g] = "L.logout.rel"
     /\ Complete(s) /\ lk' = Unlocked(CapsLock(s), g) /\ Go(g, "L.logout.ru") /\ SetLab(g, "rel", "capsLock")
     /\ UNCHANGED <<wg, chan, srvClosed, cur, mode, sstate, states, qItems, qChan, qClosed, touches>> /\ UNCHANGED LoopUnch
  \/ /\ pc[g] = "L.logout.ru"       \* userLock released; serve returns: deferred cancel()
     /\ lk' = Unlocked(UserLock(s), g) /\ Leave(g, s) /\ SetLab(g, "rel", "userLock")
     /\ UNCHANGED <<wg, infl, srvClosed, cur, mode, sstate, states, qItems, qChan, qClosed, touches>> /\ UNCHANGED LoopUnch
  \* handle_idle.go:handleIdle -> state.go:Idle: beginIdle (flushResponses: db.Write; idleCh = make); go IDLE sender; "+" continuation
  \/ /\ pc[g] = "L.idle.begin"
     /\ lk' = Unlocked(DB(u), g) /\ Go(g, "L.idle") /\ mode' = [mode EXCEPT ![s] = "idle"]
     /\ chan' = chan \ {<<"idleCh", s>>}
     /\ Complete(s) /\ cur' = [cur EXCEPT ![s] = "none"] /\ Touch("loop", "own") /\ SetLab(g, "rel", "db")
     /\ UNCHANGED <<wg, srvClosed, sstate, states, qItems, qChan, qClosed>> /\ UNCHANGED LoopUnch
  \* handleIdle's select: a command (DONE -> OK, anything else -> BAD), cmdCh closed, state.Done(): return; deferred endIdle: close(idleCh)
  \/ /\ pc[g] = "L.idle"
     /\ \/ /\ CmdReady(s) /\ Go2(g, "L.sel", Rd(s), RdAfter(s)) /\ Complete(s) /\ cur' = [cur EXCEPT ![s] = "none"] /\ TakeCmd(s)
        \/ /\ (Closed(<<"cmdCh", s>>) \/ Closed(<<"doneCh", s>>) \/ Closed(ServeCtx)) /\ Go(g, "L.sel") /\ UNCHANGED <<infl, cur, inbox>>
     /\ mode' = [mode EXCEPT ![s] = "normal"]
     /\ chan' = IF Bug = "idleNotStopped" THEN chan ELSE chan \cup {<<"idleCh", s>>}
     /\ SetLab(g, "ch.close", "idleCh")
     /\ UNCHANGED <<lk, wg, srvClosed, sstate, states, qItems, qChan, qClosed, touches>> /\ UNCHANGED LoopUnch2
  \* Serve: deferred s.handleWG.Wait(); then session.go:done: close(s.eventCh); s.state != nil -> state.ReleaseState -> user.removeState
  \* (OpenEnv: serve may return from its select or from `range respCh` for reasons the model leaves open - a failed write,
  \*  an invalidated state, too many bad commands, the closed cmdCh or doneCh; the hook fires when Wait has returned)
  \/ /\ (pc[g] = "L.hwait" \/ (OpenEnv /\ pc[g] \in {"L.sel", "L.wait"})) /\ wg.handleWG[s] = 0
     /\ chan' = chan \cup {<<"eventCh", s>>, <<"ctx", s>>}
     /\ Go(g, AfterWait(s))
     /\ SetLab(g, "wg.wait", "handleWG")
     /\ UNCHANGED <<lk, wg, infl, srvClosed, cur, mode, sstate, states, qItems, qChan, qClosed, touches>> /\ UNCHANGED LoopUnch
  \* user.go:removeState fn() under statesLock W: other.HasMessage(...) of every other state (reads foreign snapshots); delete(user.states, id)
  \/ /\ pc[g] = "RS.sl.in"
     /\ states' = [states EXCEPT ![u] = @ \ {s}]
     /\ IF ~FixPeek /\ ~OpenEnv /\ states[u] \ {s} # {} THEN Touch("loop", "foreign") ELSE UNCHANGED touches
     /\ IF Bug = "removeStateHoldsLock" THEN UNCHANGED lk ELSE lk' = Unlocked(StatesLock(u), g)
     /\ Go(g, "RS.W.acq") /\ SetLab(g, "rel", "statesLock")
     /\ UNCHANGED <<wg, chan, infl, srvClosed, cur, mode, sstate, qItems, qChan, qClosed>> /\ UNCHANGED LoopUnch
  \* state.go:Close -> closeUpdateQueue: updatesQueue.Close()
  \* (Coarse: Close of the queue, statesWG.Done and conn.Close never block and only enable others: one step)
  \/ /\ pc[g] = "RS.close" /\ ~Coarse
     /\ qClosed' = [qClosed EXCEPT ![s] = TRUE]
     /\ IF Bug = "removeStateHoldsLock" THEN lk' = Unlocked(StatesLock(u), g) ELSE UNCHANGED lk
     /\ Go(g, "RS.wgdone") /\ SetLab(g, "queue.close", "updateQueue")
     /\ UNCHANGED <<wg, chan, infl, srvClosed, cur, mode, sstate, states, qItems, qChan, touches>> /\ UNCHANGED LoopUnch
  \/ /\ pc[g] = "RS.close" /\ Coarse
     /\ qClosed' = [qClosed EXCEPT ![s] = TRUE]
     /\ IF Bug = "removeStateHoldsLock" THEN lk' = Unlocked(StatesLock(u), g) ELSE UNCHANGED lk
     /\ wg' = [wg EXCEPT !.statesWG[u] = @ - 1]
     /\ srvClosed' = [srvClosed EXCEPT ![s] = TRUE] /\ infl' = [infl EXCEPT ![s] = FALSE]
     /\ Go(g, "end") /\ NoLab
     /\ UNCHANGED <<chan, cur, mode, sstate, states, qItems, qChan, touches>> /\ UNCHANGED LoopUnch
  \* removeState's deferred statesWG.Done()
  \/ /\ pc[g] = "RS.wgdone"
     /\ wg' = [wg EXCEPT !.statesWG[u] = @ - 1]
     /\ Go(g, "L.connclose") /\ SetLab(g, "wg.done", "statesWG")
     /\ UNCHANGED <<lk, chan, infl, srvClosed, cur, mode, sstate, states, qItems, qChan, qClosed, touches>> /\ UNCHANGED LoopUnch
  \* done: s.conn.Close()
  \/ /\ pc[g] = "L.connclose"
     /\ srvClosed' = [srvClosed EXCEPT ![s] = TRUE] /\ infl' = [infl EXCEPT ![s] = FALSE]
     /\ Go(g, "end") /\ SetLab(g, "go.end", "session")
     /\ UNCHANGED <<lk, wg, chan, cur, mode, sstate, states, qItems, qChan, qClosed, touches>> /\ UNCHANGED LoopUnch

-----------------------------------------------------------------------------
\* h(s): handle.go:handleOther { s.handleWG.Go(func() { defer close(resCh); s.handleCommand(...) }) }
HUnch == <<chan, listener, backlog, accHand, cli, inbox, infl, sent, srvClosed, cur, mode, userIn, dbClosed, qChan, qClosed,
           connQ, fwdHeld, submitted, afterClose>>

HStep(s) ==
  LET g == H(s)  u == sstate[s] IN
  \* backend.go:GetState under usersLock: getUserID (loginLock; connector.Authorize): unknown user / wrong password -> error
  \/ /\ pc[g] = "H.login.auth"
     /\ \/ Go(g, "H.login.rul") /\ UNCHANGED arg
        \/ \E v \in LoginTo[s] : userIn[v] /\ arg' = [arg EXCEPT ![g] = v] /\ Go(g, "H.login.sl")
     /\ NoLab
     /\ UNCHANGED <<lk, wg, sstate, states, qItems, touches>> /\ UNCHANGED HUnch
  \* user.go:newState under statesLock W: states[id] = state.NewState (starts the queue pump); statesWG.Add(1)
  \/ /\ pc[g] = "H.login.new"
     /\ states' = [states EXCEPT ![arg[g]] = @ \cup {s}]
     /\ wg' = [wg EXCEPT !.statesWG[arg[g]] = @ + 1]
     /\ lk' = Unlocked(StatesLock(arg[g]), g)
     /\ Go2(g, "H.login.rul", Pump(s), "P.pop")
     /\ SetLab(g, "rel", "statesLock")
     /\ UNCHANGED <<arg, sstate, qItems, touches>> /\ UNCHANGED HUnch
  \* handle_login.go: s.state = state; s.eventCh <- events.Login / LoginFailed (unbuffered; the publisher ranges over eventCh
  \* until done() closes it, which happens after handleWG.Wait)
  \/ /\ pc[g] = "H.login.ev"
     /\ ~Closed(<<"eventCh", s>>)
     /\ sstate' = [sstate EXCEPT ![s] = arg[g]] /\ arg' = [arg EXCEPT ![g] = NoUser]
     /\ Go(g, "H.login.rc") /\ SetLab(g, "ch.send", "eventCh")
     /\ UNCHANGED <<lk, wg, states, qItems, touches>> /\ UNCHANGED HUnch
  \* handle_noop.go:handleNoop: no userLock; flushes only when a mailbox is selected
  \/ /\ pc[g] = "H.noop"
     /\ \/ (~FreeSections /\ Go(g, "H.fin"))
        \/ ((u # NoUser \/ FreeSections) /\ \E n \in SecNext(s, "start") : Go(g, n))
     /\ NoLab
     /\ UNCHANGED <<lk, wg, arg, sstate, states, qItems, touches>> /\ UNCHANGED HUnch
  \* state_user_interface_impl.go:QueueOrApplyStateUpdate inside the second db.Write: forState (statesLock R):
  \*   own state: update.Apply at once; every other state: state.QueueUpdates
  \/ /\ pc[g] = "H.Q.in"
     /\ Enqueue(states[u] \ {s}) /\ Touch("h", "own")
     /\ lk' = Unlocked(StatesLock(u), g) /\ Go(g, IF FreeSections THEN "H.W.in" ELSE "H.Q.rel") /\ SetLab(g, "rel", "statesLock")
     /\ UNCHANGED <<wg, arg, sstate, states>> /\ UNCHANGED HUnch
  \* deferred close(resCh); handleWG.Done
  \* (Coarse: the loop waiting in `range respCh` goes on in the same step - nothing else can observe the difference)
  \/ /\ (pc[g] = "H.fin" \/ (FreeSections /\ pc[g] = "H.sec" /\ cur[s] = "noop")) /\ ~(Coarse /\ pc[Loop(s)] = "L.wait")
     /\ wg' = [wg EXCEPT !.handleWG[s] = @ - 1] /\ Go(g, "end") /\ SetLab(g, "wg.done", "handleWG")
     /\ UNCHANGED <<lk, arg, sstate, states, qItems, touches>> /\ UNCHANGED HUnch
  \/ /\ pc[g] = "H.fin" /\ Coarse /\ pc[Loop(s)] = "L.wait"
     /\ wg' = [wg EXCEPT !.handleWG[s] = @ - 1] /\ Go2(g, "end", Loop(s), "L.sel") /\ NoLab
     /\ Complete(s) /\ cur' = [cur EXCEPT ![s] = "none"]
     /\ UNCHANGED <<lk, arg, sstate, states, qItems, touches, chan, listener, backlog, accHand, cli, inbox, sent, srvClosed, mode, userIn,
                    dbClosed, qChan, qClosed, connQ, fwdHeld, submitted, afterClose>>

\* pump(s): async/queued_channel.go:NewQueuedChannel closure { defer close(ch)
\*   for { item, ok := pop() (cond.Wait until items or closed; closed and empty -> !ok); !ok -> return
\*         select { ch <- item ; <-stopCh: return } } }      Close() leaves stopCh open; CloseAndDiscardQueued() closes it
PumpUnch == <<lk, wg, chan, listener, backlog, accHand, cli, inbox, infl, sent, srvClosed, cur, mode, sstate, userIn, states,
              dbClosed, qClosed, connQ, fwdHeld, submitted, arg, touches, afterClose>>
PumpStep(s) ==
  LET g == Pump(s) IN
  \/ /\ pc[g] = "P.pop" /\ qItems[s] > 0 /\ ~OpenEnv
     /\ qItems' = [qItems EXCEPT ![s] = @ - 1] /\ Go(g, "P.send") /\ NoLab /\ UNCHANGED qChan /\ UNCHANGED PumpUnch
  \/ /\ pc[g] = "P.pop" /\ (qItems[s] = 0 \/ OpenEnv) /\ qClosed[s]
     /\ Go(g, "end") /\ SetLab(g, "go.end", "pump") /\ UNCHANGED <<qItems, qChan>> /\ UNCHANGED PumpUnch
  \/ /\ pc[g] = "P.send" /\ qChan[s] < ChanCap
     /\ qChan' = [qChan EXCEPT ![s] = @ + 1] /\ Go(g, "P.pop") /\ NoLab /\ UNCHANGED qItems /\ UNCHANGED PumpUnch
  \/ /\ pc[g] = "P.send" /\ FixQueueDiscard /\ qClosed[s]
     /\ Go(g, "end") /\ SetLab(g, "go.end", "pump") /\ UNCHANGED <<qItems, qChan>> /\ UNCHANGED PumpUnch

-----------------------------------------------------------------------------
\* fwd(u): update_injector.go:forward { defer { close(updatesCh); forwardWG.Done() }
\*     for { select { update := <-connector.GetUpdates(): send(update) ; <-forwardQuitCh: return } } }
\*   send { select { <-forwardQuitCh: return ; updatesCh <- update } }
FwdUnch == <<lk, listener, backlog, accHand, cli, inbox, infl, sent, srvClosed, cur, mode, sstate, userIn, states,
             dbClosed, qItems, qChan, qClosed, submitted, arg, touches, afterClose>>
FwdStep(u) ==
  LET g == Fwd(u) IN
  \/ /\ pc[g] = "F.sel" /\ connQ[u] # <<>> /\ ~Closed(<<"forwardQuit", u>>)
     /\ fwdHeld' = [fwdHeld EXCEPT ![u] = Head(connQ[u])] /\ connQ' = [connQ EXCEPT ![u] = Tail(@)]
     /\ Go(g, "F.send") /\ NoLab /\ UNCHANGED <<wg, chan>> /\ UNCHANGED FwdUnch
  \* (seeded "sendIgnoresQuit": send() only offers the update to updatesCh - once the update loop is gone it blocks for ever)
  \/ /\ pc[g] = "F.send" /\ Closed(<<"forwardQuit", u>>) /\ Bug # "sendIgnoresQuit"   \* the update is dropped; nobody calls update.Done for it
     /\ fwdHeld' = [fwdHeld EXCEPT ![u] = "none"]
     /\ Go(g, "F.sel") /\ NoLab /\ UNCHANGED <<wg, chan, connQ>> /\ UNCHANGED FwdUnch
  \/ /\ pc[g] = "F.sel" /\ Closed(<<"forwardQuit", u>>)
     /\ Close(<<"updatesCh", u>>) /\ wg' = [wg EXCEPT !.forwardWG[u] = @ - 1]
     /\ Go(g, "end") /\ SetLab(g, "wg.done", "forwardWG") /\ UNCHANGED <<connQ, fwdHeld>> /\ UNCHANGED FwdUnch

\* upd(u): user.go:newUser closure { defer updateWG.Done(); for { select { update, ok := <-updateCh: !ok -> return; user.apply(update)
\*                                                                          <-user.updateQuitCh: return } } }
\*   connector_updates.go:apply*: [db.Read]; userDBWrite: db.Write; queueStateUpdate -> forState (statesLock R): state.QueueUpdates
\*   applyMessageIDChanged: db.Write; forState: state.UpdateMessageRemoteID - mutates every snapshot from THIS goroutine
UpdUnch == <<listener, backlog, accHand, cli, inbox, infl, sent, srvClosed, cur, mode, sstate, userIn, states,
             dbClosed, qChan, qClosed, connQ, submitted, arg, afterClose>>
UpdStep(u) ==
  LET g == Upd(u) IN
  \/ /\ pc[g] = "U.sel" /\ ~OpenEnv /\ pc[Fwd(u)] = "F.send" /\ ~Closed(<<"forwardQuit", u>>)
     /\ \E n \in UNext("start") : Go2(g, n, Fwd(u), "F.sel")
     /\ SetLab(g, "ch.recv", "updatesCh") /\ UNCHANGED <<lk, wg, chan, qItems, fwdHeld, touches>> /\ UNCHANGED UpdUnch
  \/ /\ pc[g] \in {"U.sel", "U.sec"} /\ OpenEnv
     /\ \E n \in UNext("start") : Go(g, n)
     /\ SetLab(g, "ch.recv", "updatesCh") /\ UNCHANGED <<lk, wg, chan, qItems, fwdHeld, touches>> /\ UNCHANGED UpdUnch
  \/ /\ pc[g] \in {"U.sel", "U.sec"} /\ (Closed(<<"updateQuit", u>>) \/ Closed(<<"updatesCh", u>>))
     /\ wg' = [wg EXCEPT !.updateWG[u] = @ - 1] /\ Go(g, "end") /\ SetLab(g, "wg.done", "updateWG")
     /\ UNCHANGED <<lk, chan, qItems, fwdHeld, touches>> /\ UNCHANGED UpdUnch
  \/ /\ pc[g] = "U.sl.in"
     /\ IF fwdHeld[u] = "idchg" /\ ~FixIDChanged /\ ~OpenEnv
          THEN /\ (IF states[u] # {} THEN Touch("upd", "foreign") ELSE UNCHANGED touches) /\ UNCHANGED qItems
          ELSE /\ Enqueue(states[u]) /\ UNCHANGED touches
     /\ fwdHeld' = [fwdHeld EXCEPT ![u] = "none"]
     /\ lk' = Unlocked(StatesLock(u), g) /\ (\E n \in UNext("SL") : Go(g, n)) /\ SetLab(g, "rel", "statesLock")
     /\ UNCHANGED <<wg, chan>> /\ UNCHANGED UpdUnch

-----------------------------------------------------------------------------
\* user.close (user.go:close), executed by closer or rem(u) while holding usersLock:
\*   close(updateQuitCh); updateWG.Wait(); updateInjector.Close { close(forwardQuitCh); forwardWG.Wait() }; connector.Close();
\*   closeStates (statesLock R: state.SignalClose = close(doneCh) for every state); statesWG.Wait(); store.Close(); db.Close() (db lock W)
KUnch == <<listener, backlog, accHand, cli, inbox, infl, sent, srvClosed, cur, mode, sstate, states, qItems, qChan, qClosed,
           connQ, fwdHeld, submitted, touches, afterClose>>

CloseUserStep(g) ==
  LET u == arg[g]  back == IF g = Closer THEN "C.next" ELSE "X.rel" IN
  \/ /\ pc[g] = "K.quit" /\ Close(<<"updateQuit", u>>) /\ Go(g, "K.uwait") /\ SetLab(g, "ch.close", "updateQuitCh")
     /\ UNCHANGED <<lk, wg, userIn, dbClosed, arg>> /\ UNCHANGED KUnch
  \/ /\ pc[g] = "K.uwait" /\ wg.updateWG[u] = 0 /\ Go(g, "K.fquit") /\ SetLab(g, "wg.wait", "updateWG")
     /\ UNCHANGED <<lk, wg, chan, userIn, dbClosed, arg>> /\ UNCHANGED KUnch
  \/ /\ pc[g] = "K.fquit" /\ Close(<<"forwardQuit", u>>) /\ Go(g, "K.fwait") /\ SetLab(g, "ch.close", "forwardQuitCh")
     /\ UNCHANGED <<lk, wg, userIn, dbClosed, arg>> /\ UNCHANGED KUnch
  \/ /\ pc[g] = "K.fwait" /\ wg.forwardWG[u] = 0 /\ Go(g, "K.cs.acq") /\ SetLab(g, "wg.wait", "forwardWG")
     /\ UNCHANGED <<lk, wg, chan, userIn, dbClosed, arg>> /\ UNCHANGED KUnch
  \/ /\ pc[g] = "K.cs.in"
     /\ chan' = chan \cup {<<"doneCh", s>> : s \in states[u]}
     /\ lk' = Unlocked(StatesLock(u), g)
     /\ Go(g, IF Bug = "closeNoStatesWait" THEN "K.db.acq" ELSE "K.swait") /\ SetLab(g, "rel", "statesLock")
     /\ UNCHANGED <<wg, userIn, dbClosed, arg>> /\ UNCHANGED KUnch
  \/ /\ pc[g] = "K.swait" /\ wg.statesWG[u] = 0 /\ Go(g, "K.db.acq") /\ SetLab(g, "wg.wait", "statesWG")
     /\ UNCHANGED <<lk, wg, chan, userIn, dbClosed, arg>> /\ UNCHANGED KUnch
  \/ /\ pc[g] = "K.db.in"       \* db.Close under the db lock; back in Backend: delete(b.users, userID)
     /\ dbClosed' = [dbClosed EXCEPT ![u] = TRUE] /\ userIn' = [userIn EXCEPT ![u] = FALSE]
     /\ lk' = Unlocked(DB(u), g) /\ arg' = [arg EXCEPT ![g] = NoUser]
     /\ Go(g, back) /\ SetLab(g, "rel", "db")
     /\ UNCHANGED <<wg, chan>> /\ UNCHANGED KUnch

\* closer: server.go:Close { close(serveDoneCh); serveWG.Wait(); backend.Close { usersLock; for each user: user.close };
\*                           serveErrCh.Close(); watchers }
CloserStep ==
  LET g == Closer IN
  \/ /\ pc[g] = "C.start" /\ Close(<<"serveDone", "-">>) /\ Go(g, "C.swait") /\ SetLab(g, "ch.close", "serveDoneCh")
     /\ UNCHANGED <<lk, wg, userIn, dbClosed, arg>> /\ UNCHANGED KUnch
  \/ /\ pc[g] = "C.swait" /\ wg.serveWG = 0 /\ Go(g, "C.ul") /\ SetLab(g, "wg.wait", "serveWG")
     /\ UNCHANGED <<lk, wg, chan, userIn, dbClosed, arg>> /\ UNCHANGED KUnch
  \/ /\ pc[g] = "C.next"
     /\ IF \E u \in Users : userIn[u]
          THEN /\ \E u \in Users : userIn[u] /\ arg' = [arg EXCEPT ![g] = u] /\ SetLab(g, "call", "user.close:" \o u)
               /\ Go(g, "K.quit") /\ UNCHANGED lk
          ELSE /\ lk' = Unlocked(UsersLock, g) /\ Go(g, "end") /\ UNCHANGED arg /\ SetLab(g, "rel", "usersLock")
     /\ UNCHANGED <<wg, chan, userIn, dbClosed>> /\ UNCHANGED KUnch
  \/ CloseUserStep(g)

\* rem(u): backend.go:RemoveUser { usersLock; user, ok := users[id]; !ok -> ErrNoSuchUser; user.close; delete(users, id) }
RemStep(u) ==
  LET g == Rem(u) IN
  \/ /\ pc[g] = "X.chk"
     /\ IF userIn[u] THEN Go(g, "K.quit") /\ arg' = [arg EXCEPT ![g] = u] /\ SetLab(g, "call", "user.close:" \o u)
                   ELSE Go(g, "X.rel") /\ UNCHANGED arg /\ NoLab
     /\ UNCHANGED <<lk, wg, chan, userIn, dbClosed>> /\ UNCHANGED KUnch
  \/ /\ pc[g] = "X.rel" /\ lk' = Unlocked(UsersLock, g) /\ Go(g, "end") /\ SetLab(g, "rel", "usersLock")
     /\ UNCHANGED <<wg, chan, userIn, dbClosed, arg>> /\ UNCHANGED KUnch
  \/ CloseUserStep(g)

-----------------------------------------------------------------------------
\* the environment
EnvUnch == <<lk, wg, chan, srvClosed, cur, mode, sstate, userIn, states, dbClosed, qItems, qChan, qClosed, fwdHeld, arg,
             touches, afterClose>>

Dial(s) ==
  /\ cli[s] = "idle" /\ listener = "open" /\ (LateDial \/ pc[Closer] = "idle")
  /\ cli' = [cli EXCEPT ![s] = "up"] /\ backlog' = backlog \cup {s}
  /\ NoLab /\ UNCHANGED <<pc, accHand, inbox, infl, sent, listener, connQ, submitted>> /\ UNCHANGED EnvUnch

SendCmd(s, k) ==
  /\ cli[s] = "up" /\ inbox[s] = "none" /\ ~infl[s] /\ sent[s] < MaxCmds /\ ~srvClosed[s]
  /\ inbox' = [inbox EXCEPT ![s] = k] /\ infl' = [infl EXCEPT ![s] = TRUE] /\ sent' = [sent EXCEPT ![s] = @ + 1]
  /\ NoLab /\ UNCHANGED <<pc, accHand, cli, backlog, listener, connQ, submitted>> /\ UNCHANGED EnvUnch

SendLitData(s) ==      \* the client answers the continuation request
  /\ cli[s] = "up" /\ pc[Rd(s)] = "R.lit" /\ inbox[s] = "none"
  /\ inbox' = [inbox EXCEPT ![s] = "litdata"]
  /\ NoLab /\ UNCHANGED <<pc, accHand, cli, backlog, listener, infl, sent, connQ, submitted>> /\ UNCHANGED EnvUnch

Disconnect(s) ==       \* abrupt, in any phase (before the greeting, with a command in flight, mid-literal, while idling)
  /\ cli[s] = "up"
  /\ cli' = [cli EXCEPT ![s] = "gone"] /\ infl' = [infl EXCEPT ![s] = FALSE]
  /\ NoLab /\ UNCHANGED <<pc, accHand, inbox, backlog, listener, sent, connQ, submitted>> /\ UNCHANGED EnvUnch

Submit(u, k) ==
  /\ submitted[u] < MaxUpdates /\ userIn[u]
  /\ connQ' = [connQ EXCEPT ![u] = Append(@, k)] /\ submitted' = [submitted EXCEPT ![u] = @ + 1]
  /\ NoLab /\ UNCHANGED <<pc, accHand, cli, inbox, backlog, listener, infl, sent>> /\ UNCHANGED EnvUnch

StartClose ==
  /\ pc[Closer] = "idle" /\ Go(Closer, "C.start") /\ SetLab(Closer, "call", "Close")
  /\ UNCHANGED lk /\ UNCHANGED rest

StartRemove(u) ==
  \* (OpenEnv: the application may call RemoveUser for the same user again once the earlier call returned)
  /\ u \in Removable /\ (pc[Rem(u)] = "idle" \/ (OpenEnv /\ pc[Rem(u)] = "end"))
  /\ Go(Rem(u), "X.ul") /\ SetLab(Rem(u), "call", "RemoveUser")
  /\ UNCHANGED lk /\ UNCHANGED rest

CancelCtx ==           \* the application cancels the context it gave to Server.Serve
  /\ CtxCancel /\ ~Closed(ServeCtx)
  /\ Close(ServeCtx)
  /\ NoLab /\ UNCHANGED <<pc, lk, wg, listener, backlog, accHand, cli, inbox, infl, sent, srvClosed, cur, mode, sstate,
                          userIn, states, dbClosed, qItems, qChan, qClosed, connQ, fwdHeld, submitted, arg, touches, afterClose>>

CloseListener ==       \* the application closes its listener once Server.Close returned; pending connections are reset
  /\ pc[Closer] = "end" /\ listener = "open"
  /\ listener' = "closed" /\ backlog' = {}
  /\ cli' = [s \in Sessions |-> IF s \in backlog THEN "gone" ELSE cli[s]]
  /\ infl' = [s \in Sessions |-> IF s \in backlog THEN FALSE ELSE infl[s]]
  /\ NoLab /\ UNCHANGED <<pc, accHand, inbox, sent, connQ, submitted>> /\ UNCHANGED EnvUnch

Env ==
  \/ ~OpenEnv /\ \E s \in Sessions : Dial(s) \/ SendLitData(s) \/ Disconnect(s) \/ \E k \in CmdKinds : SendCmd(s, k)
  \/ ~OpenEnv /\ \E u \in Users : \E k \in UpdKinds : Submit(u, k)
  \/ ~OpenEnv /\ CloseListener
  \/ ~OpenEnv /\ CancelCtx
  \/ \E u \in Users : StartRemove(u)
  \/ StartClose

-----------------------------------------------------------------------------
Step(g) ==
  \/ AcquireStep(g) \/ ReleaseStep(g)
  \/ CASE g = Acc -> AccStep [] g = Srv -> SrvStep [] g = Closer -> CloserStep
       [] g[1] = "loop" -> LoopStep(g[2]) [] g[1] = "rd" -> RdStep(g[2]) [] g[1] = "h" -> HStep(g[2])
       [] g[1] = "pump" -> PumpStep(g[2])
       [] g[1] = "upd" -> UpdStep(g[2]) [] g[1] = "fwd" -> FwdStep(g[2]) [] g[1] = "rem" -> RemStep(g[2])

\* the two goroutines without steps: ended exactly when the channel they range over is closed
SenderEnded(s) == Closed(<<"idleCh", s>>)
PublisherEnded(s) == pc[Loop(s)] = "off" \/ Closed(<<"eventCh", s>>)
AllEnded == /\ \A g \in ServerG : pc[g] \in {"off", "end"}
            /\ \A s \in Sessions : SenderEnded(s) /\ PublisherEnded(s)
AppDone == pc[Closer] = "end" /\ \A u \in Users : pc[Rem(u)] \in {"idle", "end"}
Terminated == AppDone /\ listener = "closed" /\ AllEnded /\ UNCHANGED vars

Next == (\E g \in G : Step(g)) \/ Env \/ Terminated

Pre(s) == PreLogged[s] # NoUser
SeqsOf(S, n) == [1..n -> S]
Init ==
  /\ pc = [g \in G |-> CASE g = Acc -> "A.accept" [] g = Srv -> "S.sel" [] g[1] = "upd" -> "U.sel" [] g[1] = "fwd" -> "F.sel"
                         [] g = Closer -> IF Eager THEN "C.start" ELSE "idle"
                         [] g[1] = "rem" -> IF Eager /\ g[2] \in Removable THEN "X.ul" ELSE "idle"
                         [] g[1] = "loop" /\ Pre(g[2]) -> "L.sel" [] g[1] = "rd" /\ Pre(g[2]) -> "R.read"
                         [] g[1] = "pump" /\ Pre(g[2]) -> "P.pop"
                         [] OTHER -> "off"]
  /\ lk = [l \in Locks |-> [w |-> None, r |-> {}]]
  /\ wg = [statesWG |-> [u \in Users |-> Cardinality({s \in Sessions : PreLogged[s] = u})],
           updateWG |-> [u \in Users |-> 1], forwardWG |-> [u \in Users |-> 1],
           handleWG |-> [s \in Sessions |-> 0], serveWG |-> 1]
  /\ chan = {<<"idleCh", s>> : s \in Sessions}
  /\ listener = "open" /\ accHand = "-"
  /\ backlog = IF Eager THEN {s \in Sessions : ~Pre(s)} ELSE {}
  /\ cli = [s \in Sessions |-> IF Pre(s) \/ Eager THEN "up" ELSE "idle"]
  /\ IF Eager /\ MaxCmds > 0 /\ CmdKinds # {}
       THEN inbox \in [Sessions -> CmdKinds] /\ infl = [s \in Sessions |-> TRUE] /\ sent = [s \in Sessions |-> 1]
       ELSE inbox = [s \in Sessions |-> "none"] /\ infl = [s \in Sessions |-> FALSE] /\ sent = [s \in Sessions |-> 0]
  /\ srvClosed = [s \in Sessions |-> FALSE]
  /\ cur = [s \in Sessions |-> "none"] /\ mode = [s \in Sessions |-> "normal"]
  /\ sstate = [s \in Sessions |-> PreLogged[s]]
  /\ userIn = [u \in Users |-> TRUE] /\ states = [u \in Users |-> {s \in Sessions : PreLogged[s] = u}]
  /\ dbClosed = [u \in Users |-> FALSE]
  /\ qItems = [s \in Sessions |-> 0] /\ qChan = [s \in Sessions |-> 0] /\ qClosed = [s \in Sessions |-> FALSE]
  /\ IF Eager /\ MaxUpdates > 0 /\ UpdKinds # {}
       THEN connQ \in [Users -> SeqsOf(UpdKinds, MaxUpdates)] /\ submitted = [u \in Users |-> MaxUpdates]
       ELSE connQ = [u \in Users |-> <<>>] /\ submitted = [u \in Users |-> 0]
  /\ fwdHeld = [u \in Users |-> "none"]
  /\ arg = [g \in AppG \cup ({"h"} \X Sessions) |-> NoUser]
  /\ touches = {} /\ afterClose = FALSE
  /\ lab = Silent

\* Fairness: every goroutine that can take a step eventually does; the application eventually calls Close and closes
\* its listener afterwards; a client that was asked for the rest of a literal sends it or disconnects.
\* Nothing else is assumed about clients or the connector.
FairnessPerGoroutine ==
  /\ \A g \in G : WF_vars(Step(g))
  /\ WF_vars(StartClose) /\ WF_vars(CloseListener)
  /\ \A s \in Sessions : WF_vars(SendLitData(s))
\* In the bounded model every step consumes something (a command, an update, a program position of a goroutine that
\* never goes back): there is no cycle besides stuttering, so weak fairness of the disjunction below forces exactly the
\* same behaviours to continue as FairnessPerGoroutine does, and TLC checks one fairness condition instead of |G| + 3.
Progress == (\E g \in G : Step(g)) \/ StartClose \/ CloseListener \/ (\E s \in Sessions : SendLitData(s))
Fairness == WF_vars(Progress)

Spec == Init /\ [][Next]_vars /\ Fairness
SpecPerGoroutine == Init /\ [][Next]_vars /\ FairnessPerGoroutine

-----------------------------------------------------------------------------
\* Properties

TypeOK ==
  /\ \A l \in Locks : lk[l].w \in G \cup {None} /\ lk[l].r \subseteq G /\ (lk[l].w # None => lk[l].r = {})
  /\ \A u \in Users : wg.statesWG[u] >= 0 /\ wg.updateWG[u] >= 0 /\ wg.forwardWG[u] >= 0
  /\ \A s \in Sessions : wg.handleWG[s] \in {0, 1} /\ qItems[s] >= 0 /\ qChan[s] \in 0..ChanCap
  /\ wg.serveWG >= 0

\* Lock-order consistency: whenever a goroutine holds l1 and is about to acquire l2, l1 is left of l2 in ONE fixed
\* hierarchy (Rank).  The held-while-acquiring relation is contained in a strict order, hence acyclic.
LockOrder == \A g \in G : \A a \in AcqOf(g) : \A l \in HeldBy(g) : Rank(l) < Rank(a.l)
\* What the pinned code satisfies: handleCapability takes a session's capsLock before the same session's userLock
\* (FixCapsOrder = FALSE).  Both locks are private to one session, whose commands are handled one at a time, so the
\* pair cannot close a cycle; that no deadlock follows is not assumed but checked by TLC (the configurations run with
\* FixCapsOrder = FALSE and deadlock checking on).  Every other held-while-acquiring pair obeys the hierarchy.
LockOrderCode == \A g \in G : \A a \in AcqOf(g) : \A l \in HeldBy(g) :
                    \/ Rank(l) < Rank(a.l)
                    \/ (~FixCapsOrder /\ l[1] = "capsLock" /\ a.l[1] = "userLock" /\ l[2] = a.l[2])

\* user.statesWG covers every state in user.states
StatesCounted == \A u \in Users : Cardinality(states[u]) <= wg.statesWG[u]

\* the database of a user is only closed when no state of that user is left, and nobody uses it afterwards
NoUseAfterDbClose == ~afterClose
DbClosedMeansNoStates == \A u \in Users : dbClosed[u] => (states[u] = {} /\ wg.statesWG[u] = 0)

\* single-owner rule: a state's snapshot / responder queue is touched by its own session's goroutines only
OnlyOwner == \A t \in touches : t[2] = "own"

\* at a state from which nothing can happen any more, nothing gluon started is left
\* (TLC's deadlock check reports every such state that is not Terminated; this invariant names the leak case)
Quiet == \A g \in G : ~ENABLED Step(g)
NoGoroutineLeft == (AppDone /\ listener = "closed" /\ Quiet) => AllEnded

\* liveness (under Fairness)
CloseReturns == <>(pc[Closer] = "end")
RemoveUserReturns == \A u \in Users : (pc[Rem(u)] # "idle") ~> (pc[Rem(u)] = "end")
\* a command the client waits for is answered, or the connection is closed under it
Waiting(s) == infl[s] /\ ~srvClosed[s]
EveryCommandCompletes == \A s \in Sessions : Waiting(s) ~> ~Waiting(s)
NothingLeftEventually == <>[]AllEnded

\* instances for the cfg files (cfg files cannot contain functions)
LT_Any == [s \in Sessions |-> Users]
PL_None == [s \in Sessions |-> NoUser]
OneUser == CHOOSE u \in Users : TRUE
PL_All == [s \in Sessions |-> OneUser]
SymSessions == Permutations(Sessions)
\* two users, sessions split between them in a fixed way
PL_Split == LET us == CHOOSE q \in [1..2 -> Users] : q[1] # q[2]
                ss == CHOOSE q \in [1..Cardinality(Sessions) -> Sessions] : \A i, j \in DOMAIN q : i # j => q[i] # q[j]
            IN [s \in Sessions |-> IF s = ss[1] THEN us[1] ELSE us[2]]
=============================================================================
