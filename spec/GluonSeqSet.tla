--------------------------- MODULE GluonSeqSet ---------------------------
(***************************************************************************)
(* Message-set resolution (RFC 3501 section 9 "sequence-set") as a         *)
(* function of the session's view.  Property C16.                          *)
(*                                                                         *)
(* A view is a sequence of UIDs (strictly ascending, with gaps).  A number *)
(* is a small natural, "*", or a symbolic HUGE value (2^32+1, 2^32+2,      *)
(* 2^64+1, 2^32-1, 2^32, 2^64 as rendered by the harness): TLC integers are *)
(* 32 bit, and the only thing the specification needs to know about a huge *)
(* value is its meaning - it is greater than every sequence number and     *)
(* every UID of the view.                                                  *)
(*                                                                         *)
(* The module is "function shaped": every state is one case               *)
(* (view size, mode, set) and the invariant PrintCase hands the case with  *)
(* the expected result to the harness, which executes it against the real  *)
(* server with FETCH, STORE, COPY, MOVE, SEARCH and UID EXPUNGE.           *)
(***************************************************************************)
EXTENDS Integers, Sequences, FiniteSets, TLC, Json

CONSTANTS MaxN,        \* largest view size
          MaxRanges,   \* sets have 1..MaxRanges ranges
          SmallNums,   \* small naturals used as set elements, e.g. 1..5
          HugeKinds,   \* e.g. 1..6
          Oversize,    \* the huge kinds whose decimal text exceeds 2^32-1: not a valid IMAP number at all
          Emit         \* TRUE: print every case as JSON

\* UIDs of the view of size n are the first n elements (gaps on purpose; UID 1 and 2
\* exist so that a 2^32+1 or 2^32+2 that wraps around would hit a real message).
UidSeq == <<1, 2, 5, 8, 9, 13>>

Inf(k) == 1000 + k            \* value of huge kind k: above everything
Huge(k) == [k |-> "huge", v |-> k]
Star == [k |-> "star", v |-> 0]
Small(i) == [k |-> "n", v |-> i]

Nums == {Small(i) : i \in SmallNums} \cup {Star} \cup {Huge(k) : k \in HugeKinds}

\* a range is a pair; a single number x is the range <<x, x>> with single = TRUE
Ranges == [a : Nums, b : Nums, single : {FALSE}] \cup {[a |-> x, b |-> x, single |-> TRUE] : x \in Nums}

SetsOfLen(k) == [1..k -> Ranges]
Sets == UNION {SetsOfLen(k) : k \in 1..MaxRanges}

Modes == {"seq", "uid"}

VARIABLES n, mode, set
vars == <<n, mode, set>>

-----------------------------------------------------------------------------
Uids(size) == [i \in 1..size |-> UidSeq[i]]
MaxUid(size) == IF size = 0 THEN 0 ELSE UidSeq[size]

Min(x, y) == IF x < y THEN x ELSE y
Max(x, y) == IF x > y THEN x ELSE y

\* numeric meaning of a number in a view of the given size
Val(x, size, md) ==
  CASE x.k = "n"    -> x.v
    [] x.k = "huge" -> Inf(x.v)
    [] x.k = "star" -> IF md = "seq" THEN size ELSE MaxUid(size)

Bad == [res |-> "BAD", pos |-> {}, judged |-> TRUE]
Ok(P) == [res |-> "OK", pos |-> P, judged |-> TRUE]

\* one range, sequence-number mode: every number must denote an existing message
SeqRange(r, size) ==
  LET a == Val(r.a, size, "seq")
      b == Val(r.b, size, "seq")
      lo == Min(a, b)
      hi == Max(a, b)
  IN IF size = 0 \/ lo < 1 \/ hi > size THEN Bad ELSE Ok(lo..hi)

\* one range, UID mode: UIDs that do not exist are skipped silently
UidRange(r, size) ==
  LET a == Val(r.a, size, "uid")
      b == Val(r.b, size, "uid")
      lo == Min(a, b)
      hi == Max(a, b)
      hit == {i \in 1..size : UidSeq[i] >= lo /\ UidSeq[i] <= hi}
      \* the one case the property does not judge: n:* (or *:n) with n above the highest UID
      star == (r.a.k = "star") # (r.b.k = "star")
      other == IF r.a.k = "star" THEN b ELSE a
  IN IF size = 0 THEN Ok({})
     ELSE IF ~r.single /\ star /\ other > MaxUid(size)
          THEN [res |-> "OK", pos |-> {}, judged |-> FALSE]
          ELSE Ok(hit)

\* RFC 3501: number = unsigned 32 bit.  A larger numeral is a syntax error, so the whole
\* command is BAD in either mode; 2^32-1 is the one huge value that is a valid number.
IsOversize(x) == x.k = "huge" /\ x.v \in Oversize
HasOversize(s) == \E i \in 1..Len(s) : IsOversize(s[i].a) \/ IsOversize(s[i].b)

RECURSIVE Combine(_, _, _, _)
Combine(s, i, size, md) ==
  IF i > Len(s) THEN Ok({})
  ELSE LET h == IF md = "seq" THEN SeqRange(s[i], size) ELSE UidRange(s[i], size)
           t == Combine(s, i + 1, size, md)
       IN IF h.res = "BAD" \/ t.res = "BAD" THEN Bad
          ELSE [res |-> "OK", pos |-> h.pos \cup t.pos, judged |-> h.judged /\ t.judged]

Resolve(s, size, md) == IF HasOversize(s) THEN Bad ELSE Combine(s, 1, size, md)

-----------------------------------------------------------------------------
Init == n \in 0..MaxN /\ mode \in Modes /\ set \in Sets
Next == UNCHANGED vars          \* every case is an initial state
Spec == Init /\ [][Next]_vars

Expected == Resolve(set, n, mode)

\* A message set is also a SEARCH key and as such may sit under NOT, inside OR or in a parenthesised key list:
\* it denotes the same messages there (NOT: the others of the view), and a set that is BAD is BAD at any depth.
NestedForms == {"paren", "or", "notnot", "not"}
InSearch(form, e, size) ==
  IF e.res = "BAD" THEN Bad
  ELSE [res |-> "OK", pos |-> IF form = "not" THEN (1..size) \ e.pos ELSE e.pos, judged |-> e.judged]

PrintCase ==
  Emit => PrintT(ToJson([n |-> n, mode |-> mode, set |-> set, uids |-> Uids(n), exp |-> Expected,
                         nested |-> [f \in NestedForms |-> InSearch(f, Expected, n)]]))

-----------------------------------------------------------------------------
(* Properties of the resolution function itself (the design), checked on every case *)

\* never a position outside the view
InsideView == Expected.pos \subseteq 1..n /\ \A f \in NestedForms : InSearch(f, Expected, n).pos \subseteq 1..n
\* nesting never turns a refused set into an accepted one, and double negation is the identity
NestingKeepsBad == \A f \in NestedForms : (Expected.res = "BAD") <=> (InSearch(f, Expected, n).res = "BAD")
NotNotIsIdentity == Expected.res = "OK" =>
   InSearch("not", InSearch("not", Expected, n), n).pos = InSearch("notnot", Expected, n).pos

\* a number beyond the view is BAD in sequence mode whatever else the set contains
BeyondIsBad ==
  mode = "seq" =>
    ((HasOversize(set) \/ \E i \in 1..Len(set) : \E x \in {set[i].a, set[i].b} : Val(x, n, "seq") > n \/ Val(x, n, "seq") < 1)
       <=> Expected.res = "BAD")

\* UID mode never fails
UidNeverBad == (mode = "uid" /\ ~HasOversize(set)) => Expected.res = "OK"

\* order of the two ends of a range is irrelevant
Swap(r) == [a |-> r.b, b |-> r.a, single |-> r.single]
RangeOrderIrrelevant ==
  LET sw == [i \in 1..Len(set) |-> Swap(set[i])]
      e2 == Resolve(sw, n, mode)
  IN e2.res = Expected.res /\ e2.pos = Expected.pos

\* a comma is a union
CommaIsUnion ==
  (Len(set) = 2 /\ Expected.res = "OK") =>
     Expected.pos = Resolve(<<set[1]>>, n, mode).pos \cup Resolve(<<set[2]>>, n, mode).pos
=============================================================================
