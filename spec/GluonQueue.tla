----------------------------- MODULE GluonQueue -----------------------------
(***************************************************************************)
(* C02, "FIFO, loss-free queue between writer and session":                *)
(* async/queued_channel.go.  Writers Enqueue batches under a mutex; a pump *)
(* goroutine pops one item at a time and offers it on a buffered channel   *)
(* (capacity Cap) the session reads from; Close lets the pump drain what   *)
(* is queued and then closes the channel; CloseAndDiscardQueued also       *)
(* releases a pump that is blocked offering an item nobody takes.          *)
(*                                                                         *)
(*   Enqueue(n)   the writer appends n items (refused once closed)         *)
(*   Pop, Offer   the pump's two steps (the item it holds in between)      *)
(*   Receive      the reader takes the head of the channel                 *)
(*   Close, CloseDiscard                                                   *)
(*   Exit         the pump ends: closed and nothing queued (after its pop  *)
(*                loop), or released by CloseDiscard while offering        *)
(*                                                                         *)
(* Fifo: what the reader got is a prefix of what was accepted.  NoLoss:    *)
(* after Close (not discard) the reader gets everything: when the channel  *)
(* is closed and drained it has received all accepted items.  PumpEnds     *)
(* (liveness): once closed, the pump ends if the reader keeps reading or   *)
(* the queue was discarded.  Behaviours of the external calls are printed  *)
(* for the harness, which runs them against the real QueuedChannel.        *)
(***************************************************************************)
EXTENDS Integers, Sequences, FiniteSets, TLC, Json, SequencesExt

CONSTANTS Cap,        \* buffer of the channel
          Batches,    \* batch sizes Enqueue may use
          MaxItems,   \* bound on the number of items ever accepted
          MaxCalls,   \* bound on the number of external calls (behaviours)
          Record

None == 0
VARIABLES items,    \* queued, not yet popped
          held,     \* the item the pump holds (None: none)
          ch,       \* the channel buffer
          pump,     \* "pop" | "offer" | "end"
          closed, discarded, chClosed,
          next,     \* the next item number
          accepted, \* every item accepted by Enqueue, in order
          got,      \* what the reader has received
          calls, hist
vars == <<items, held, ch, pump, closed, discarded, chClosed, next, accepted, got, calls, hist>>

Init ==
  /\ items = <<>> /\ held = None /\ ch = <<>> /\ pump = "pop"
  /\ closed = FALSE /\ discarded = FALSE /\ chClosed = FALSE
  /\ next = 1 /\ accepted = <<>> /\ got = <<>> /\ calls = 0 /\ hist = <<>>

Call(c) == /\ calls' = calls + 1
           /\ hist' = IF Record THEN Append(hist, c) ELSE hist
NoCall == UNCHANGED <<calls, hist>>

Enqueue(n) ==
  /\ calls < MaxCalls
  /\ IF closed
     THEN /\ Call([c |-> "Enqueue", n |-> n, ok |-> FALSE, want |-> <<>>])
          /\ UNCHANGED <<items, next, accepted>>
     ELSE /\ next + n - 1 <= MaxItems
          /\ items' = items \o [i \in 1..n |-> next + i - 1]
          /\ accepted' = accepted \o [i \in 1..n |-> next + i - 1]
          /\ next' = next + n
          /\ Call([c |-> "Enqueue", n |-> n, ok |-> TRUE, want |-> <<>>])
  /\ UNCHANGED <<held, ch, pump, closed, discarded, chClosed, got>>

Pop ==
  /\ pump = "pop" /\ items # <<>>
  /\ held' = Head(items) /\ items' = Tail(items) /\ pump' = "offer"
  /\ NoCall /\ UNCHANGED <<ch, closed, discarded, chClosed, next, accepted, got>>

Offer ==
  /\ pump = "offer" /\ Len(ch) < Cap
  /\ ch' = Append(ch, held) /\ held' = None /\ pump' = "pop"
  /\ NoCall /\ UNCHANGED <<items, closed, discarded, chClosed, next, accepted, got>>

Exit ==
  /\ \/ (pump = "pop" /\ items = <<>> /\ closed)
     \/ (pump = "offer" /\ discarded)
  /\ pump' = "end" /\ chClosed' = TRUE /\ held' = None
  /\ NoCall /\ UNCHANGED <<items, ch, closed, discarded, next, accepted, got>>

\* the reader takes k items that are certain to arrive: what is buffered, held or queued (unless discarded)
Available == Len(ch) + (IF held # None THEN 1 ELSE 0) + (IF pump # "end" THEN Len(items) ELSE 0)
Receive ==
  /\ ch # <<>>
  /\ got' = Append(got, Head(ch)) /\ ch' = Tail(ch)
  /\ Call([c |-> "Receive", n |-> 1, ok |-> TRUE, want |-> <<Head(ch)>>])
  /\ UNCHANGED <<items, held, pump, closed, discarded, chClosed, next, accepted>>

Close ==
  /\ ~closed /\ calls < MaxCalls
  /\ closed' = TRUE
  /\ Call([c |-> "Close", n |-> 0, ok |-> TRUE, want |-> <<>>])
  /\ UNCHANGED <<items, held, ch, pump, discarded, chClosed, next, accepted, got>>

CloseDiscard ==
  /\ ~closed /\ calls < MaxCalls
  /\ closed' = TRUE /\ discarded' = TRUE
  /\ Call([c |-> "CloseDiscard", n |-> 0, ok |-> TRUE, want |-> <<>>])
  /\ UNCHANGED <<items, held, ch, pump, chClosed, next, accepted, got>>

Internal == Pop \/ Offer \/ Exit
External == (\E n \in Batches : Enqueue(n)) \/ Receive \/ Close \/ CloseDiscard
Next == Internal \/ External
Spec == Init /\ [][Next]_vars /\ WF_vars(Internal) /\ WF_vars(Receive)

-----------------------------------------------------------------------------
(* Behaviours for the harness: external calls only, the pump runs as far as it can after each (Settle).  Between two   *)
(* calls the real pump is given time to do the same, and a Receive names how many items the reader takes.              *)
Settle(it, hd, c, cl, di) ==
  LET T == c \o (IF hd # None THEN <<hd>> ELSE <<>>) \o it
      k == IF Len(T) < Cap THEN Len(T) ELSE Cap
      rest == SubSeq(T, k + 1, Len(T))
  IN IF di
     THEN [items |-> it, held |-> hd, ch |-> c, pump |-> "end", chClosed |-> TRUE]       \* (what it still offers is open)
     ELSE IF rest = <<>>
          THEN [items |-> <<>>, held |-> None, ch |-> SubSeq(T, 1, k), pump |-> IF cl THEN "end" ELSE "pop", chClosed |-> cl]
          ELSE [items |-> Tail(rest), held |-> Head(rest), ch |-> SubSeq(T, 1, k), pump |-> "offer", chClosed |-> FALSE]

Apply(st) == /\ items' = st.items /\ held' = st.held /\ ch' = st.ch /\ pump' = st.pump /\ chClosed' = st.chClosed

CEnqueue(n) ==
  /\ calls < MaxCalls
  /\ IF closed
     THEN /\ Call([c |-> "Enqueue", n |-> n, ok |-> FALSE, want |-> <<>>])
          /\ UNCHANGED <<items, held, ch, pump, chClosed, next, accepted>>
     ELSE /\ next + n - 1 <= MaxItems
          /\ Apply(Settle(items \o [i \in 1..n |-> next + i - 1], held, ch, closed, discarded))
          /\ accepted' = accepted \o [i \in 1..n |-> next + i - 1]
          /\ next' = next + n
          /\ Call([c |-> "Enqueue", n |-> n, ok |-> TRUE, want |-> <<>>])
  /\ UNCHANGED <<closed, discarded, got>>

\* the reader takes k items (all of which are certain to arrive: nothing was discarded)
CReceive(k) ==
  /\ calls < MaxCalls /\ ~discarded
  /\ LET T == ch \o (IF held # None THEN <<held>> ELSE <<>>) \o items IN
     /\ k >= 1 /\ k <= Len(T)
     /\ got' = got \o SubSeq(T, 1, k)
     /\ Apply(Settle(SubSeq(T, k + 1, Len(T)), None, <<>>, closed, discarded))
     /\ Call([c |-> "Receive", n |-> k, ok |-> TRUE, want |-> SubSeq(T, 1, k)])
  /\ UNCHANGED <<closed, discarded, next, accepted>>

CClose(discard) ==
  /\ ~closed /\ calls < MaxCalls
  /\ closed' = TRUE /\ discarded' = discard
  /\ Apply(Settle(items, held, ch, TRUE, discard))
  /\ Call([c |-> IF discard THEN "CloseDiscard" ELSE "Close", n |-> 0, ok |-> TRUE, want |-> <<>>])
  /\ UNCHANGED <<next, accepted, got>>

ReceiveSizes == {1, 2, 32, 33, 40}
CoarseNext == (\E n \in Batches : CEnqueue(n)) \/ (\E k \in ReceiveSizes : CReceive(k)) \/ (\E d \in BOOLEAN : CClose(d))

-----------------------------------------------------------------------------
Fifo == IsPrefix(got, accepted)
InFlight == got \o ch \o (IF held # None THEN <<held>> ELSE <<>>) \o items
\* nothing is lost or reordered on the way (until a discard)
Conserved == ~discarded => InFlight = accepted
NoLoss == (chClosed /\ ch = <<>> /\ ~discarded) => got = accepted
AcceptedOnlyWhileOpen == closed => (Len(accepted) = next - 1)
PumpEnds == closed ~> (pump = "end")

\* for the harness: the external calls of a behaviour with what the reader must have got in the end
Done == calls >= MaxCalls
\* rest: what the reader still gets when it reads on until the channel is closed (exactly this after Close; some prefix
\* of it after CloseDiscard; nothing is known while the queue is open)
EmitBehaviour == (Record /\ Done) =>
  PrintT(ToJson([calls |-> hist, closed |-> closed, discarded |-> discarded, accepted |-> Len(accepted),
                 rest |-> ch \o (IF held # None THEN <<held>> ELSE <<>>) \o items]))
=============================================================================
