----------------------------- MODULE GluonMerge -----------------------------
(***************************************************************************)
(* C01, "response merging keeps the net effect of the stream"              *)
(* (internal/response/merge.go: Merge is applied to the untagged responses *)
(* of every flush before they are sent).                                   *)
(*                                                                         *)
(* The module enumerates every stream of untagged responses a flush can    *)
(* produce, up to MaxLen responses, for a client that counts Start         *)
(* messages:                                                               *)
(*   EXISTS n    n above the running count                                 *)
(*   RECENT r    between the last announced value and the count (the       *)
(*               number of recent messages only falls through an EXPUNGE)  *)
(*   EXPUNGE n   n within the count                                        *)
(*   FETCH n (FLAGS f [UID u])   n within the count                        *)
(* and computes what the weakest client knows after the stream (Mirror:    *)
(* the count, the last RECENT, per sequence number the flags and the UID   *)
(* it was told).  The harness builds the same stream out of real response  *)
(* objects, passes it through the real Merge and applies what comes out to *)
(* a client of its own: the two clients must end in the same knowledge.    *)
(* Law checked on the model: the stream is well-formed for the client      *)
(* (WithinCount) - otherwise the comparison would be meaningless.          *)
(***************************************************************************)
EXTENDS Integers, Sequences, FiniteSets, TLC, Json

CONSTANTS MaxLen, Start, MaxCount, Emit

FlagSets == {{}, {"Seen"}, {"Flagged", "Seen"}}
Unknown == {"?"}
FlagOrder == <<"Flagged", "Seen">>
Asc(F) == IF F = Unknown THEN <<"?">> ELSE SelectSeq(FlagOrder, LAMBDA x : x \in F)

VARIABLES stream,   \* the responses so far
          cnt,      \* the running count
          rec,      \* the running number of recent messages (what the next RECENT may announce at least)
          mirror,   \* [i \in 1..cnt |-> [f, uid]] what the client knows
          told      \* the last RECENT the client saw (-1: none)
vars == <<stream, cnt, rec, mirror, told>>

Init ==
  /\ stream = <<>> /\ cnt = Start /\ rec = 0 /\ told = -1
  /\ mirror = [i \in 1..Start |-> [f |-> Unknown, uid |-> 0]]

RemoveAt(sq, i) == SubSeq(sq, 1, i - 1) \o SubSeq(sq, i + 1, Len(sq))

Exists(n) ==
  /\ n > cnt /\ n <= MaxCount
  /\ stream' = Append(stream, [t |-> "EXISTS", n |-> n, f |-> <<>>, uid |-> 0])
  /\ cnt' = n
  /\ mirror' = mirror \o [i \in 1..(n - cnt) |-> [f |-> Unknown, uid |-> 0]]
  /\ UNCHANGED <<rec, told>>

Recent(r) ==
  /\ r >= rec /\ r <= cnt
  /\ stream' = Append(stream, [t |-> "RECENT", n |-> r, f |-> <<>>, uid |-> 0])
  /\ rec' = r /\ told' = r
  /\ UNCHANGED <<cnt, mirror>>

Expunge(n, wasRecent) ==
  /\ n >= 1 /\ n <= cnt /\ (wasRecent => rec > 0)
  /\ stream' = Append(stream, [t |-> "EXPUNGE", n |-> n, f |-> <<>>, uid |-> 0])
  /\ cnt' = cnt - 1
  /\ rec' = IF wasRecent THEN rec - 1 ELSE (IF rec > cnt - 1 THEN cnt - 1 ELSE rec)
  /\ mirror' = RemoveAt(mirror, n)
  /\ UNCHANGED told

Fetch(n, F, withUid) ==
  /\ n >= 1 /\ n <= cnt
  /\ stream' = Append(stream, [t |-> "FETCH", n |-> n, f |-> Asc(F), uid |-> IF withUid THEN 100 + n ELSE 0])
  /\ mirror' = [mirror EXCEPT ![n] = [f |-> F, uid |-> IF withUid THEN 100 + n ELSE @.uid]]
  /\ UNCHANGED <<cnt, rec, told>>

Next ==
  /\ Len(stream) < MaxLen
  /\ \/ \E n \in 1..MaxCount : Exists(n)
     \/ \E r \in 0..MaxCount : Recent(r)
     \/ \E n \in 1..MaxCount, w \in BOOLEAN : Expunge(n, w)
     \/ \E n \in 1..MaxCount, F \in FlagSets, u \in BOOLEAN : Fetch(n, F, u)
Spec == Init /\ [][Next]_vars

WithinCount == Len(mirror) = cnt /\ rec <= cnt /\ cnt <= MaxCount

PrintCase ==
  (Emit /\ stream # <<>>) =>
    PrintT(ToJson([stream |-> stream, start |-> Start,
                   exp |-> [count |-> cnt, recent |-> told,
                            msgs |-> [i \in 1..cnt |-> [f |-> Asc(mirror[i].f), uid |-> mirror[i].uid]]]]))
=============================================================================
