---------------------------- MODULE GluonRecent ----------------------------
(***************************************************************************)
(* The \Recent flag (C01: "every flag set the client has already learned"  *)
(* - GluonCore leaves \Recent out; this module is its complement).         *)
(*                                                                         *)
(* What the code does (internal/state/responders.go ExistsStateUpdate,     *)
(* targetedExists.handle; internal/state/state.go Select / Examine;        *)
(* internal/state/actions.go actionCreateMessage, actionAddMessagesTo-     *)
(* Mailbox, actionMoveMessages):                                           *)
(*  - a row of the mailbox table is inserted with recent = TRUE;           *)
(*  - SELECT takes the snapshot with \Recent on every row whose bit is set *)
(*    and then clears all bits of the mailbox; EXAMINE shows them and      *)
(*    clears nothing;                                                      *)
(*  - the arrival is broadcast as ONE ExistsStateUpdate object shared by   *)
(*    all sessions.  It carries a target state: the acting session for an  *)
(*    APPEND to its selected mailbox and for every COPY and MOVE (as       *)
(*    coded); nobody for an APPEND into a mailbox the acting session has   *)
(*    not selected and for the connector - then the first session that     *)
(*    APPLIES the update becomes the target;                               *)
(*  - when a session flushes the arrival (EXISTS), the new snapshot entry  *)
(*    carries \Recent iff the session is the target, and then the row's    *)
(*    bit is cleared; "* n RECENT" follows the EXISTS whenever the         *)
(*    snapshot holds a \Recent message.                                    *)
(* The module follows ONE mailbox A.  Sessions select / examine / close    *)
(* it, messages arrive in it (kinds below), updates are delivered one at a *)
(* time (the harness uses the update gate) and flushed by NOOP; Fetch      *)
(* probes the flags.  Every step records what the client is told:          *)
(* out = [exists, recent] of the command (0 = line absent) and, for Fetch, *)
(* the set of positions shown with \Recent.                                *)
(*                                                                         *)
(* Checked on the model:                                                   *)
(*   Sticky        within one selection a message never gains or loses     *)
(*                 \Recent after it entered the snapshot (C01: no flag     *)
(*                 change without an untagged FETCH)                       *)
(*   CountIsFlags  every announced RECENT count is the number of snapshot  *)
(*                 entries with \Recent                                    *)
(*   OneClaimant   (RFC 3501 2.3.2: "this session is the first to have     *)
(*                 been notified") at most one read-write session shows a  *)
(*                 message \Recent.  The code does NOT satisfy it - see    *)
(*                 cfg ascode.one: an EXISTS that waits in a session's     *)
(*                 responder queue keeps its claim while another session's *)
(*                 SELECT shows and clears the same bit.  Not one of the   *)
(*                 listed properties: documented in DESIGN.md, the         *)
(*                 configurations that generate behaviours do not check it *)
(***************************************************************************)
EXTENDS Integers, Sequences, FiniteSets, TLC, Json

CONSTANTS Sessions, MaxArrivals, MaxSteps, Kinds, Record

None == "none"

VARIABLES rows,     \* Seq([m, recent]) - the mailbox table of A
          nextM,    \* next message number
          target,   \* [message -> session | None]: the target of its ExistsStateUpdate (shared by all queues)
          sel,      \* [Sessions -> "none" | "rw" | "ro"]
          snap,     \* [Sessions -> Seq([m, recent])]
          q,        \* [Sessions -> Seq(message)]: arrivals in the session's update queue
          res,      \* [Sessions -> Seq(message)]: arrivals applied, not yet flushed (responder queue)
          steps, last, hist

vars == <<rows, nextM, target, sel, snap, q, res, steps, last, hist>>

Msgs == 1..(1 + MaxArrivals)

Init ==
  /\ rows = <<[m |-> 1, recent |-> FALSE]>>       \* one old message
  /\ nextM = 2
  /\ target = [m \in Msgs |-> None]
  /\ sel = [s \in Sessions |-> "none"]
  /\ snap = [s \in Sessions |-> <<>>]
  /\ q = [s \in Sessions |-> <<>>]
  /\ res = [s \in Sessions |-> <<>>]
  /\ steps = 0
  /\ last = [act |-> "Init", s |-> None, k |-> "", exists |-> 0, recent |-> 0, shown |-> <<>>]
  /\ hist = <<>>

RecentCount(sn) == Cardinality({i \in 1..Len(sn) : sn[i].recent})
Shown(sn) == [i \in 1..Len(sn) |-> sn[i].recent]
Has(sn, m) == \E i \in 1..Len(sn) : sn[i].m = m
ClearBit(rw, m) == [i \in 1..Len(rw) |-> IF rw[i].m = m THEN [rw[i] EXCEPT !.recent = FALSE] ELSE rw[i]]

Log(a, s, k, ex, rc, sh) == last' = [act |-> a, s |-> s, k |-> k, exists |-> ex, recent |-> rc, shown |-> sh]

\* flush of the responder queue of s (NOOP, or the end of the session's own APPEND): snapshot, table, what is announced
FlushOf(s, pend, sn, rw, tgt) ==
  LET RECURSIVE Go(_, _, _)
      Go(p, sn1, rw1) ==
        IF p = <<>> THEN [snap |-> sn1, rows |-> rw1]
        ELSE LET m == Head(p) IN
             IF Has(sn1, m) THEN Go(Tail(p), sn1, rw1)
             ELSE LET rec == (tgt[m] = s) IN
                  Go(Tail(p), Append(sn1, [m |-> m, recent |-> rec]), IF rec THEN ClearBit(rw1, m) ELSE rw1)
  IN Go(pend, sn, rw)

Select(s, ro) ==
  /\ snap' = [snap EXCEPT ![s] = rows]
  /\ rows' = IF ro THEN rows ELSE [i \in 1..Len(rows) |-> [rows[i] EXCEPT !.recent = FALSE]]
  /\ sel' = [sel EXCEPT ![s] = IF ro THEN "ro" ELSE "rw"]
  /\ res' = [res EXCEPT ![s] = <<>>]
  /\ Log(IF ro THEN "Examine" ELSE "Select", s, "", Len(rows), RecentCount(rows), Shown(rows))
  /\ UNCHANGED <<nextM, target, q>>

Close(s) ==
  /\ sel[s] # "none"
  /\ sel' = [sel EXCEPT ![s] = "none"]
  /\ snap' = [snap EXCEPT ![s] = <<>>]
  /\ res' = [res EXCEPT ![s] = <<>>]
  /\ Log("Close", s, "", 0, 0, <<>>)
  /\ UNCHANGED <<rows, nextM, target, q>>

\* a message arrives in A.  kind:
\*   "append"  APPEND by s: to its selected mailbox when s has A selected read-write or read-only (target s, applied to s at
\*             once and flushed with the command), else to a mailbox it has not selected (no target)
\*   "copy"    COPY by s from another mailbox (s has A not selected): target s - Mailbox.Copy passes "is the SOURCE the
\*             selected mailbox" (always true) where the destination is meant - which never applies it
\*   "move"    MOVE by s from another mailbox: target s likewise (actionMoveMessages always passes the acting state)
\*   "conn"    the connector's MessagesCreated: no target
Arrive(s, kind) ==
  /\ nextM <= 1 + MaxArrivals
  /\ kind \in Kinds
  /\ (kind \in {"copy", "move"} => sel[s] = "none")     \* the harness has s select the other mailbox meanwhile
  /\ LET m == nextM
         own == kind = "append" /\ sel[s] # "none"
         rw1 == Append(rows, [m |-> m, recent |-> TRUE])
         tg == IF own \/ kind \in {"move", "copy"} THEN s ELSE None
     IN /\ nextM' = m + 1
        /\ target' = [target EXCEPT ![m] = tg]
        /\ q' = [t \in Sessions |-> IF own /\ t = s THEN q[t] ELSE IF kind = "conn" \/ t # s THEN Append(q[t], m) ELSE q[t]]
        /\ IF own
           THEN LET f == FlushOf(s, res[s] \o <<m>>, snap[s], rw1, [target EXCEPT ![m] = tg])
                IN /\ snap' = [snap EXCEPT ![s] = f.snap]
                   /\ rows' = f.rows
                   /\ res' = [res EXCEPT ![s] = <<>>]
                   /\ Log("Arrive", s, kind, Len(f.snap), RecentCount(f.snap), <<>>)
           ELSE /\ rows' = rw1
                /\ Log("Arrive", s, kind, 0, 0, <<>>)
                /\ UNCHANGED <<snap, res>>
  /\ UNCHANGED sel

\* the next update of s's queue is applied: dropped when A is not selected; otherwise the first to apply becomes the target
Deliver(s) ==
  /\ q[s] # <<>>
  /\ LET m == Head(q[s]) IN
     /\ q' = [q EXCEPT ![s] = Tail(@)]
     /\ IF sel[s] = "none"
        THEN UNCHANGED <<target, res>>
        ELSE /\ target' = IF target[m] = None THEN [target EXCEPT ![m] = s] ELSE target
             /\ res' = [res EXCEPT ![s] = Append(@, m)]
     /\ Log("Deliver", s, IF sel[s] = "none" THEN "dropped" ELSE "applied", 0, 0, <<>>)
  /\ UNCHANGED <<rows, nextM, sel, snap>>

Noop(s) ==
  /\ sel[s] # "none"
  /\ LET f == FlushOf(s, res[s], snap[s], rows, target)
         grew == Len(f.snap) > Len(snap[s])
     IN /\ snap' = [snap EXCEPT ![s] = f.snap]
        /\ rows' = f.rows
        /\ res' = [res EXCEPT ![s] = <<>>]
        /\ Log("Noop", s, "", IF grew THEN Len(f.snap) ELSE 0, IF grew THEN RecentCount(f.snap) ELSE 0, <<>>)
  /\ UNCHANGED <<nextM, target, sel, q>>

Fetch(s) ==
  /\ sel[s] # "none" /\ res[s] = <<>> /\ snap[s] # <<>>
  /\ Log("Fetch", s, "", 0, 0, Shown(snap[s]))
  /\ UNCHANGED <<rows, nextM, target, sel, snap, q, res>>

Step ==
  \E s \in Sessions :
     \/ Select(s, FALSE) \/ Select(s, TRUE) \/ Close(s)
     \/ \E k \in Kinds : Arrive(s, k)
     \/ Deliver(s) \/ Noop(s) \/ Fetch(s)

Keep == IF Record THEN hist' = Append(hist, last') ELSE hist' = hist
Next == steps < MaxSteps /\ Step /\ steps' = steps + 1 /\ Keep
Spec == Init /\ [][Next]_vars

-----------------------------------------------------------------------------
TypeOK ==
  /\ \A s \in Sessions : sel[s] \in {"none", "rw", "ro"} /\ (sel[s] = "none" => snap[s] = <<>>)
  /\ \A i \in 1..Len(rows) : rows[i].m < nextM

\* a snapshot entry keeps its \Recent for the whole selection (action property)
Sticky == [][\A s \in Sessions :
                (sel[s] # "none" /\ ~(last'.act \in {"Select", "Examine", "Close"} /\ last'.s = s))
                   => (Len(snap'[s]) >= Len(snap[s]) /\ \A i \in 1..Len(snap[s]) : snap'[s][i] = snap[s][i])]_vars

\* at most one read-write session shows a message \Recent
OneClaimant ==
  \A m \in Msgs : Cardinality({s \in Sessions : sel[s] = "rw" /\ \E i \in 1..Len(snap[s]) : snap[s][i].m = m /\ snap[s][i].recent}) <= 1

\* a message that no session claims keeps its bit: the next SELECT will show it
BitOrClaim ==
  \A i \in 1..Len(rows) : rows[i].recent => \A s \in Sessions : sel[s] = "rw" => ~(\E j \in 1..Len(snap[s]) : snap[s][j].m = rows[i].m /\ snap[s][j].recent)

EmitBehaviour == (Record /\ steps = MaxSteps) => PrintT(ToJson([trace |-> hist]))
=============================================================================
