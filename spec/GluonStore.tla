----------------------------- MODULE GluonStore -----------------------------
(***************************************************************************)
(* The message store of gluon (store/disk.go, store/write_controlled_      *)
(* store.go).  Property C09: the store returns exactly the bytes that were *)
(* stored under an id, or an error.                                        *)
(*                                                                         *)
(* Three layers, selected by INIT / NEXT of the cfg file:                  *)
(*                                                                         *)
(*  KV    kv[id] \in Contents \cup {Absent} with the public calls Set,     *)
(*        SetUnchecked, Get, Delete(id...), List as atomic actions.  TLC   *)
(*        explores it exhaustively and prints every transition (PrintStep, *)
(*        an ACTION_CONSTRAINT); the harness replays a covering walk on    *)
(*        store.NewWriteControlledStore(store.NewOnDiskStore(..)).  The    *)
(*        same actions are the sequential specification against which      *)
(*        recorded concurrent histories are linearized (GluonStoreTrace).  *)
(*                                                                         *)
(*  File  one state = one (content class, corruption class, position).     *)
(*        A file is <<header, nonce, blocks>>; a content class fixes the   *)
(*        number of 256 KiB blocks of the compressed stream.  ReadFile     *)
(*        models Get under a design D = [idx, id, end]: which facts a      *)
(*        block's authentication binds.  Intended = everything bound;      *)
(*        AsCode = what disk.go does today (same nonce for every block, no *)
(*        associated data, io.EOF of the decompressor swallowed).          *)
(*                                                                         *)
(*  Conc  one id; Set is the multi-step write of disk.go (create/truncate, *)
(*        header, nonce, block*, close), Get is open + read, Delete is     *)
(*        unlink; all three guarded by the per-id RW lock taken from the   *)
(*        reference-counted lock table of WriteControlledStore.            *)
(***************************************************************************)
EXTENDS Integers, Sequences, FiniteSets, TLC, Json

CONSTANTS
  Ids,            \* KV: ids, strings
  Contents,       \* KV: content classes, strings (never "absent")
  MaxDel,         \* KV: longest argument list of Delete
  Emit,           \* print transitions (KV) / cases (File)
  FileContents,   \* File: content classes explored
  Design,         \* File: "intended" | "code" - the design the invariant is checked on
  Readers, Writers, Deleters,   \* Conc: process names (strings)
  WriterVals,     \* Conc: sequence of values a writer stores, one Set each
  MaxGets,        \* Conc: calls per reader
  NRefs,          \* Conc: lock objects that can be told apart
  UseLock,        \* Conc: FALSE drops the RW lock (non-vacuity of ReadersSeeCompleteValue)
  AtomicRelease   \* Conc: TRUE = reference dropped under the table mutex (intended);
                  \*       FALSE = as the code: atomic decrement first, table mutex afterwards

VARIABLES
  kv, last,                                   \* KV
  fc,                                         \* File
  pc, left, tab, cnt, pool, ref, rwR, rwW, rwP, dir, ino, fd, got, stored   \* Conc

kvVars   == <<kv, last>>
fileVars == <<fc>>
concVars == <<pc, left, tab, cnt, pool, ref, rwR, rwW, rwP, dir, ino, fd, got, stored>>
vars     == <<kvVars, fileVars, concVars>>

Absent == "absent"

\* values for WriterVals (a cfg file cannot hold a sequence)
WV_None == <<>>
WV_One  == <<"v1">>
WV_Two  == <<"v1", "v2">>

-----------------------------------------------------------------------------
(*                                 KV layer                                *)
-----------------------------------------------------------------------------
Reply(st, val, ids) == [st |-> st, val |-> val, ids |-> ids]
Present(f) == {i \in DOMAIN f : f[i] # Absent}

\* Delete(id1, id2, ...) removes one id after the other and stops with an error at the
\* first one that is not there (what was removed before stays removed).
RECURSIVE DelSeq(_, _, _)
DelSeq(f, s, i) ==
  IF i > Len(s) THEN [kv |-> f, st |-> "ok"]
  ELSE IF f[s[i]] = Absent THEN [kv |-> f, st |-> "error"]
  ELSE DelSeq([f EXCEPT ![s[i]] = Absent], s, i + 1)

KVSet(id, c, op) ==
  /\ kv' = [kv EXCEPT ![id] = c]
  /\ last' = [op |-> op, ids |-> <<id>>, c |-> c, reply |-> Reply("ok", "", {})]

KVGet(id) ==
  /\ kv' = kv
  /\ last' = [op |-> "Get", ids |-> <<id>>, c |-> "",
              reply |-> IF kv[id] = Absent THEN Reply("notfound", "", {}) ELSE Reply("ok", kv[id], {})]

KVDelete(s) ==
  LET r == DelSeq(kv, s, 1)
  IN /\ kv' = r.kv
     /\ last' = [op |-> "Delete", ids |-> s, c |-> "", reply |-> Reply(r.st, "", {})]

KVList ==
  /\ kv' = kv
  /\ last' = [op |-> "List", ids |-> <<>>, c |-> "", reply |-> Reply("ok", "", Present(kv))]

DelArgs == UNION {[1..n -> Ids] : n \in 1..MaxDel}

FileIdle == fc = [none |-> TRUE]
ConcIdle ==
  /\ pc = <<>> /\ left = <<>> /\ tab = 0 /\ cnt = <<>> /\ pool = {} /\ ref = <<>>
  /\ rwR = <<>> /\ rwW = <<>> /\ rwP = <<>> /\ dir = 0 /\ ino = <<>> /\ fd = <<>>
  /\ got = <<>> /\ stored = {}
KVIdle == kv = <<>> /\ last = <<>>

KVInit ==
  /\ kv = [i \in Ids |-> Absent]
  /\ last = [op |-> "init", ids |-> <<>>, c |-> "", reply |-> Reply("ok", "", {})]
  /\ FileIdle /\ ConcIdle

KVNext ==
  /\ \/ \E i \in Ids, c \in Contents : KVSet(i, c, "Set")
     \/ \E i \in Ids, c \in Contents : KVSet(i, c, "SetUnchecked")
     \/ \E i \in Ids : KVGet(i)
     \/ \E s \in DelArgs : KVDelete(s)
     \/ KVList
  /\ UNCHANGED <<fileVars, concVars>>

KVView == kv

\* ACTION_CONSTRAINT: hands every explored transition to the harness
PrintStep == Emit => PrintT(ToJson([pre |-> kv, act |-> last', post |-> kv']))

KVTypeOK == kv \in [Ids -> Contents \cup {Absent}]

\* The laws of the property, as action properties of the KV layer.
Touched == {last'.ids[k] : k \in 1..Len(last'.ids)}
IdsIndependent    == [][\A i \in Ids : i \notin Touched => kv'[i] = kv[i]]_kvVars
OverwriteReplaces == [][last'.op \in {"Set", "SetUnchecked"} => kv'[last'.ids[1]] = last'.c]_kvVars
GetReturnsStored  == [][last'.op = "Get" =>
                          /\ kv' = kv
                          /\ (last'.reply.st = "ok") = (kv[last'.ids[1]] # Absent)
                          /\ last'.reply.st = "ok" => last'.reply.val = kv[last'.ids[1]]]_kvVars
DeletedAreGone    == [][(last'.op = "Delete" /\ last'.reply.st = "ok") =>
                          \A i \in Touched : kv'[i] = Absent]_kvVars
ListIsDomain      == [][last'.op = "List" => (kv' = kv /\ last'.reply.ids = Present(kv))]_kvVars
OnlySetCreates    == [][\A i \in Ids : (kv[i] = Absent /\ kv'[i] # Absent) =>
                          (last'.op \in {"Set", "SetUnchecked"} /\ last'.ids[1] = i)]_kvVars

-----------------------------------------------------------------------------
(*                                File layer                               *)
-----------------------------------------------------------------------------
(* Content classes, named after the length L of the LZ4 frame that Set     *)
(* cuts into blocks of B = 256 KiB (B is a length of the COMPRESSED        *)
(* stream): "empty" and "one" are the contents of 0 and 1 bytes, "Bm1",    *)
(* "B", "Bp1" have L = B-1, B, B+1, "Bp4" has L = B+4 (the second block    *)
(* holds nothing but the 4-byte end mark of the frame), "BAlign" has an    *)
(* LZ4 data block ending exactly at B and further data after it, "2B",     *)
(* "2Bp1" have L = 2B, 2B+1, "4Bp" a little more than 4B and "multi" is    *)
(* multi-megabyte (modelled as 6 blocks: more than any other class).       *)
BlockCount(c) ==
  CASE c \in {"empty", "one", "Bm1", "B"}        -> 1
    [] c \in {"Bp1", "Bp4", "BAlign", "2B"}      -> 2
    [] c = "2Bp1"                                -> 3
    [] c = "4Bp"                                 -> 5
    [] c = "multi"                               -> 6

\* block boundaries k (1 <= k < BlockCount) at which a data block of the LZ4 frame ends
\* exactly: a stream cut there looks like a frame whose end mark is merely missing
AlignedAt(c) == IF c \in {"Bp4", "BAlign"} THEN {1} ELSE {}
\* do the blocks after boundary k carry content (TRUE) or only the end mark (FALSE)
PayloadAfter(c, k) == ~(c = "Bp4" /\ k = 1)
\* blocks that are full (B bytes): all but the last, and the last of "B" and "2B"
IsFull(c, i) == i < BlockCount(c) \/ c \in {"B", "2B"}

Intended == [idx |-> TRUE,  id |-> TRUE,  end |-> TRUE]
AsCode   == [idx |-> FALSE, id |-> FALSE, end |-> FALSE]
TheDesign == IF Design = "intended" THEN Intended ELSE AsCode

\* a block as Set seals it: what the seal depends on, and which piece of which frame it carries
Block(key, id, c, i) == [key |-> key, nonce |-> "n", id |-> id, idx |-> i, of |-> c, chunk |-> i,
                         body |-> "ok", tag |-> "ok"]
GoodFile(key, id, c) == [hdr |-> "ok", nonce |-> "n",
                         blocks |-> [i \in 1..BlockCount(c) |-> Block(key, id, c, i)]]

CorruptClasses == {"cutHeader", "cutNonce", "cutHeaderNonce", "cutBlockBoundary", "cutMidBlock", "cutLastTag",
                   "flipHeader", "flipNonce", "flipCipher", "flipTag", "swapBlocks", "otherPass", "otherId"}

\* positions a class can be applied at (block index, boundary index or pair); 0 = no choice
Positions(c, cls) ==
  LET n == BlockCount(c) IN
  CASE cls = "cutBlockBoundary" -> {<<k, 0>> : k \in 1..(n - 1)}
    [] cls \in {"cutMidBlock", "flipCipher", "flipTag"} -> {<<k, 0>> : k \in 1..n}
    [] cls = "swapBlocks" -> {p \in (1..n) \X (1..n) : p[1] < p[2]}
    [] OTHER -> {<<0, 0>>}

OtherContent(c) == IF c = "one" THEN "Bm1" ELSE "one"

SubSeqTo(s, k) == [i \in 1..k |-> s[i]]

Corrupt(f, c, cls, at) ==
  LET n == Len(f.blocks) IN
  CASE cls = "cutHeader"        -> [hdr |-> "short", nonce |-> "short", blocks |-> <<>>]
    [] cls = "cutNonce"         -> [f EXCEPT !.nonce = "short", !.blocks = <<>>]
    [] cls = "cutHeaderNonce"   -> [f EXCEPT !.blocks = <<>>]
    [] cls = "cutBlockBoundary" -> [f EXCEPT !.blocks = SubSeqTo(f.blocks, at[1])]
    [] cls = "cutMidBlock"      -> [f EXCEPT !.blocks = [i \in 1..at[1] |->
                                       IF i = at[1] THEN [f.blocks[i] EXCEPT !.body = "cut", !.tag = "none"] ELSE f.blocks[i]]]
    [] cls = "cutLastTag"       -> [f EXCEPT !.blocks[n].tag = "cut"]
    [] cls = "flipHeader"       -> [f EXCEPT !.hdr = "flipped"]
    [] cls = "flipNonce"        -> [f EXCEPT !.nonce = "flipped"]
    [] cls = "flipCipher"       -> [f EXCEPT !.blocks[at[1]].body = "flipped"]
    [] cls = "flipTag"          -> [f EXCEPT !.blocks[at[1]].tag = "flipped"]
    [] cls = "swapBlocks"       -> [f EXCEPT !.blocks[at[1]] = f.blocks[at[2]], !.blocks[at[2]] = f.blocks[at[1]]]
    [] cls = "otherPass"        -> GoodFile("k2", "a", c)
    [] cls = "otherId"          -> GoodFile("k1", "b", OtherContent(c))

\* swapping a full block with a short last one also moves every later block boundary: the reader,
\* which reads B + tag bytes at a time, then sees no block of the file where Set put it
Misaligned(c, cls, at) == cls = "swapBlocks" /\ IsFull(c, at[1]) # IsFull(c, at[2])

\* What Get(id) with the key `key` makes of file f under design D.
\*   [k |-> "error"] | [k |-> "bytes", of |-> content class, upto |-> number of chunks, whole |-> BOOLEAN]
\*   | [k |-> "garbled"]   (an authentic but reordered stream reached the decompressor: nothing guarantees an error)
Err == [k |-> "error"]
ReadFile(f, key, id, D, misaligned) ==
  LET n == Len(f.blocks)
      auth(i) == LET b == f.blocks[i] IN
                   /\ b.body = "ok" /\ b.tag = "ok" /\ b.key = key /\ b.nonce = f.nonce
                   /\ ~misaligned
                   /\ D.idx => b.idx = i
                   /\ D.id => b.id = id
      inOrder == \A i \in 1..n : f.blocks[i].chunk = i /\ f.blocks[i].of = f.blocks[1].of
  IN IF f.hdr # "ok" THEN Err                      \* short read of the header, or not the store header
     ELSE IF f.nonce = "short" THEN Err            \* short read of the nonce
     ELSE IF \E i \in 1..n : ~auth(i) THEN Err     \* a block does not authenticate
     ELSE IF n = 0 THEN (IF D.end THEN Err ELSE [k |-> "bytes", of |-> "nothing", upto |-> 0, whole |-> FALSE])
     ELSE IF ~inOrder THEN [k |-> "garbled"]
     ELSE LET c == f.blocks[1].of IN
          IF n = BlockCount(c) THEN [k |-> "bytes", of |-> c, upto |-> n, whole |-> TRUE]
          ELSE IF D.end THEN Err                   \* the end mark of the frame was not reached
          ELSE IF n \in AlignedAt(c) THEN [k |-> "bytes", of |-> c, upto |-> n, whole |-> ~PayloadAfter(c, n)]
          ELSE Err                                 \* the decompressor runs out of input inside a data block

\* outcome relative to what was stored under id "a": "error" | "same" | "other"
Outcome(c, r) ==
  IF r.k = "error" THEN "error"
  ELSE IF r.k = "bytes" /\ r.of = c /\ r.whole THEN "same"
  ELSE IF r.k = "bytes" /\ r.upto = 0 /\ c = "empty" THEN "same"   \* no bytes at all is what was stored
  ELSE "other"

CaseOutcome(D) ==
  Outcome(fc.c, ReadFile(Corrupt(GoodFile("k1", "a", fc.c), fc.c, fc.cls, fc.at), "k1", "a", D,
                         Misaligned(fc.c, fc.cls, fc.at)))

FileCases == {[c |-> c, cls |-> cls, at |-> at] : c \in FileContents, cls \in CorruptClasses, at \in (0..6) \X (0..6)}

FileInit ==
  /\ fc \in {x \in FileCases : x.at \in Positions(x.c, x.cls)}
  /\ KVIdle /\ ConcIdle
FileNext == UNCHANGED vars

\* the property of this layer
CorruptNeverYieldsOtherBytes == CaseOutcome(TheDesign) \in {"error", "same"}
\* an undamaged file is read back (the model of Get is not vacuous)
IntactReadsBack ==
  \A D \in {Intended, AsCode} :
     Outcome(fc.c, ReadFile(GoodFile("k1", "a", fc.c), "k1", "a", D, FALSE)) = "same"

PrintCase ==
  Emit => PrintT(ToJson([c |-> fc.c, cls |-> fc.cls, at |-> fc.at, blocks |-> BlockCount(fc.c),
                         exp |-> CaseOutcome(Intended), code |-> CaseOutcome(AsCode)]))

-----------------------------------------------------------------------------
(*                            Concurrency layer                            *)
-----------------------------------------------------------------------------
Procs == Readers \cup Writers \cup Deleters
Refs == 1..NRefs
Inodes == 1..(1 + Len(WriterVals))
None == "none"

\* blocks per value: an overwrite can both shrink and grow the file
ValBlocks(v) == IF v = "v1" THEN 2 ELSE 1
Fresh(v) == [val |-> v, hdr |-> FALSE, nonce |-> FALSE, blocks |-> 0]
Whole(v) == [val |-> v, hdr |-> TRUE, nonce |-> TRUE, blocks |-> ValBlocks(v)]
Complete(r) == r.hdr /\ r.nonce /\ r.blocks = ValBlocks(r.val)

ConcInit ==
  /\ pc = [p \in Procs |-> "idle"]
  /\ left = [p \in Procs |-> IF p \in Readers THEN MaxGets ELSE IF p \in Writers THEN Len(WriterVals) ELSE 1]
  /\ tab = 0
  /\ cnt = [r \in Refs |-> 0]
  /\ pool = {}
  /\ ref = [p \in Procs |-> 0]
  /\ rwR = [r \in Refs |-> {}]
  /\ rwW = [r \in Refs |-> None]
  /\ rwP = [r \in Refs |-> {}]
  /\ \/ dir = 0 /\ stored = {}
     \/ dir = 1 /\ stored = {"v0"}
  /\ ino = [k \in Inodes |-> Whole("v0")]
  /\ fd = [p \in Procs |-> 0]
  /\ got = [p \in Readers |-> <<>>]
  /\ KVIdle /\ FileIdle

Held == {ref[p] : p \in Procs} \ {0}
FreshRefs == {r \in Refs : r \notin pool /\ r # tab /\ r \notin Held}
MinOf(S) == CHOOSE x \in S : \A y \in S : x <= y

Goto(p, l) == pc' = [pc EXCEPT ![p] = l]

\* a call begins
Start(p) ==
  /\ pc[p] = "idle" /\ left[p] > 0
  /\ left' = [left EXCEPT ![p] = @ - 1]
  /\ Goto(p, "acq")
  /\ UNCHANGED <<tab, cnt, pool, ref, rwR, rwW, rwP, dir, ino, fd, got, stored>>

\* acquireSyncRef: under the table mutex (one step)
Acquire(p) ==
  /\ pc[p] = "acq"
  /\ \/ /\ tab # 0
        /\ ref' = [ref EXCEPT ![p] = tab]
        /\ cnt' = [cnt EXCEPT ![tab] = @ + 1]
        /\ UNCHANGED <<tab, pool>>
     \/ /\ tab = 0
        \* sync.Pool.Get: some pooled object, or a new one
        /\ \E r \in pool \cup (IF FreshRefs = {} THEN {} ELSE {MinOf(FreshRefs)}) :
              /\ ref' = [ref EXCEPT ![p] = r]
              /\ cnt' = [cnt EXCEPT ![r] = 1]
              /\ tab' = r
              /\ pool' = pool \ {r}
  /\ Goto(p, IF UseLock THEN "lock" ELSE "impl")
  /\ UNCHANGED <<left, rwR, rwW, rwP, dir, ino, fd, got, stored>>

\* RLock: blocked by a writer that holds or waits for the lock (sync.RWMutex prefers writers)
RLock(p) ==
  /\ pc[p] = "lock" /\ p \in Readers
  /\ rwW[ref[p]] = None /\ rwP[ref[p]] = {}
  /\ rwR' = [rwR EXCEPT ![ref[p]] = @ \cup {p}]
  /\ Goto(p, "impl")
  /\ UNCHANGED <<left, tab, cnt, pool, ref, rwW, rwP, dir, ino, fd, got, stored>>

\* Lock, first half: announce
WAnnounce(p) ==
  /\ pc[p] = "lock" /\ p \notin Readers
  /\ rwP' = [rwP EXCEPT ![ref[p]] = @ \cup {p}]
  /\ Goto(p, "wait")
  /\ UNCHANGED <<left, tab, cnt, pool, ref, rwR, rwW, dir, ino, fd, got, stored>>

\* Lock, second half: wait for the readers and the other writer to leave
WLock(p) ==
  /\ pc[p] = "wait"
  /\ rwW[ref[p]] = None /\ rwR[ref[p]] = {}
  /\ rwW' = [rwW EXCEPT ![ref[p]] = p]
  /\ rwP' = [rwP EXCEPT ![ref[p]] = @ \ {p}]
  /\ Goto(p, "impl")
  /\ UNCHANGED <<left, tab, cnt, pool, ref, rwR, dir, ino, fd, got, stored>>

NextVal(p) == WriterVals[Len(WriterVals) - left[p]]

\* onDiskStore.Set: os.OpenFile(O_CREATE|O_TRUNC)
WOpen(p) ==
  /\ pc[p] = "impl" /\ p \in Writers
  /\ LET v == NextVal(p) IN
       /\ stored' = stored \cup {v}
       /\ IF dir = 0
          THEN LET k == MinOf({j \in Inodes : \A q \in Procs : fd[q] # j} \ {dir}) IN
                 /\ dir' = k /\ ino' = [ino EXCEPT ![k] = Fresh(v)] /\ fd' = [fd EXCEPT ![p] = k]
          ELSE /\ dir' = dir /\ ino' = [ino EXCEPT ![dir] = Fresh(v)] /\ fd' = [fd EXCEPT ![p] = dir]
  /\ Goto(p, "w.hdr")
  /\ UNCHANGED <<left, tab, cnt, pool, ref, rwR, rwW, rwP, got>>

WHeader(p) ==
  /\ pc[p] = "w.hdr"
  /\ ino' = [ino EXCEPT ![fd[p]].hdr = TRUE]
  /\ Goto(p, "w.nonce")
  /\ UNCHANGED <<left, tab, cnt, pool, ref, rwR, rwW, rwP, dir, fd, got, stored>>

WNonce(p) ==
  /\ pc[p] = "w.nonce"
  /\ ino' = [ino EXCEPT ![fd[p]].nonce = TRUE]
  /\ Goto(p, "w.blk")
  /\ UNCHANGED <<left, tab, cnt, pool, ref, rwR, rwW, rwP, dir, fd, got, stored>>

WBlock(p) ==
  /\ pc[p] = "w.blk"
  /\ ino[fd[p]].blocks < ValBlocks(ino[fd[p]].val)
  /\ ino' = [ino EXCEPT ![fd[p]].blocks = @ + 1]
  /\ UNCHANGED <<pc, left, tab, cnt, pool, ref, rwR, rwW, rwP, dir, fd, got, stored>>

WClose(p) ==
  /\ pc[p] = "w.blk"
  /\ ino[fd[p]].blocks = ValBlocks(ino[fd[p]].val)
  /\ fd' = [fd EXCEPT ![p] = 0]
  /\ Goto(p, IF UseLock THEN "unlock" ELSE "dec")
  /\ UNCHANGED <<left, tab, cnt, pool, ref, rwR, rwW, rwP, dir, ino, got, stored>>

\* onDiskStore.Get: os.Open
ROpen(p) ==
  /\ pc[p] = "impl" /\ p \in Readers
  /\ IF dir = 0
     THEN /\ got' = [got EXCEPT ![p] = Append(@, [k |-> "notfound", v |-> ""])]
          /\ Goto(p, IF UseLock THEN "unlock" ELSE "dec")
          /\ fd' = fd
     ELSE /\ fd' = [fd EXCEPT ![p] = dir]
          /\ Goto(p, "r.read")
          /\ got' = got
  /\ UNCHANGED <<left, tab, cnt, pool, ref, rwR, rwW, rwP, dir, ino, stored>>

\* ... and reading what the open file holds at that moment
RRead(p) ==
  /\ pc[p] = "r.read"
  /\ LET r == ino[fd[p]] IN
       got' = [got EXCEPT ![p] = Append(@, [k |-> IF Complete(r) THEN "value" ELSE "partial", v |-> r.val])]
  /\ fd' = [fd EXCEPT ![p] = 0]
  /\ Goto(p, IF UseLock THEN "unlock" ELSE "dec")
  /\ UNCHANGED <<left, tab, cnt, pool, ref, rwR, rwW, rwP, dir, ino, stored>>

\* onDiskStore.Delete: os.Remove (an error if the file is not there; open descriptors keep their inode)
DRemove(p) ==
  /\ pc[p] = "impl" /\ p \in Deleters
  /\ dir' = 0
  /\ Goto(p, IF UseLock THEN "unlock" ELSE "dec")
  /\ UNCHANGED <<left, tab, cnt, pool, ref, rwR, rwW, rwP, ino, fd, got, stored>>

Unlock(p) ==
  /\ pc[p] = "unlock"
  /\ IF p \in Readers
     THEN rwR' = [rwR EXCEPT ![ref[p]] = @ \ {p}] /\ rwW' = rwW
     ELSE rwW' = [rwW EXCEPT ![ref[p]] = None] /\ rwR' = rwR
  /\ Goto(p, "dec")
  /\ UNCHANGED <<left, tab, cnt, pool, ref, rwP, dir, ino, fd, got, stored>>

\* releaseSyncRef as the code has it: atomic.AddInt32(&ref.counter, -1) outside the table mutex ...
Decrement(p) ==
  /\ pc[p] = "dec" /\ ~AtomicRelease
  /\ cnt' = [cnt EXCEPT ![ref[p]] = @ - 1]
  /\ IF cnt[ref[p]] - 1 <= 0
     THEN Goto(p, "rel") /\ ref' = ref
     ELSE Goto(p, "idle") /\ ref' = [ref EXCEPT ![p] = 0]
  /\ UNCHANGED <<left, tab, pool, rwR, rwW, rwP, dir, ino, fd, got, stored>>

\* ... then, under the mutex: if the counter is (still) <= 0, delete(entryTable, id) and Put the object back
Remove(p) ==
  /\ pc[p] = "rel"
  /\ IF cnt[ref[p]] <= 0
     THEN tab' = 0 /\ pool' = pool \cup {ref[p]}
     ELSE UNCHANGED <<tab, pool>>
  /\ ref' = [ref EXCEPT ![p] = 0]
  /\ Goto(p, "idle")
  /\ UNCHANGED <<left, cnt, rwR, rwW, rwP, dir, ino, fd, got, stored>>

\* the intended release: decrement and removal are one critical section of the table mutex
ReleaseAtomic(p) ==
  /\ pc[p] = "dec" /\ AtomicRelease
  /\ cnt' = [cnt EXCEPT ![ref[p]] = @ - 1]
  /\ IF cnt[ref[p]] - 1 <= 0
     THEN tab' = 0 /\ pool' = pool \cup {ref[p]}
     ELSE UNCHANGED <<tab, pool>>
  /\ ref' = [ref EXCEPT ![p] = 0]
  /\ Goto(p, "idle")
  /\ UNCHANGED <<left, rwR, rwW, rwP, dir, ino, fd, got, stored>>

AllDone == \A p \in Procs : pc[p] = "idle" /\ left[p] = 0
Finished == AllDone /\ UNCHANGED vars

ConcNext ==
  /\ \/ \E p \in Procs :
          \/ Start(p) \/ Acquire(p) \/ RLock(p) \/ WAnnounce(p) \/ WLock(p)
          \/ WOpen(p) \/ WHeader(p) \/ WNonce(p) \/ WBlock(p) \/ WClose(p)
          \/ ROpen(p) \/ RRead(p) \/ DRemove(p)
          \/ Unlock(p) \/ Decrement(p) \/ Remove(p) \/ ReleaseAtomic(p)
     \/ Finished
  /\ UNCHANGED <<kvVars, fileVars>>

ConcView == concVars

InImpl(p) == pc[p] \in {"impl", "w.hdr", "w.nonce", "w.blk", "r.read"}

\* the property of this layer: a Get returns a complete value that was stored, or not-found
ReadersSeeCompleteValue ==
  \A p \in Readers : \A i \in 1..Len(got[p]) :
     \/ got[p][i].k = "notfound"
     \/ got[p][i].k = "value" /\ got[p][i].v \in stored

\* the contract of the per-id lock: a writer or deleter is alone with the file
MutualExclusion ==
  \A p \in Procs, q \in Procs :
     (p # q /\ InImpl(p) /\ InImpl(q)) => (p \in Readers /\ q \in Readers)

\* callers of one id share one lock object: everyone between acquire and release holds the table's entry
OneLockPerId ==
  AtomicRelease =>
    \A p \in Procs : (ref[p] # 0 /\ pc[p] # "idle") => (tab = ref[p] /\ cnt[tab] = Cardinality({q \in Procs : ref[q] = tab}))

\* when everything is over the table is empty again and the file is whole or gone
QuiescentClean ==
  AllDone => /\ (AtomicRelease => tab = 0)
             /\ \A r \in Refs : rwR[r] = {} /\ rwW[r] = None /\ rwP[r] = {}
             /\ (UseLock /\ AtomicRelease /\ dir # 0) => Complete(ino[dir])

ConcTypeOK ==
  /\ tab \in 0..NRefs
  /\ \A r \in Refs : cnt[r] \in -4..8
  /\ dir \in 0..(1 + Len(WriterVals))
=============================================================================
