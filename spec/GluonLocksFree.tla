--------------------------- MODULE GluonLocksFree ---------------------------
(***************************************************************************)
(* C19, second judge of a recorded run.  GluonLocksTrace follows a         *)
(* recording step by step through the goroutine programs of GluonLocks;    *)
(* a recording it cannot follow is either a gap of that specification or a *)
(* change of the code.  This module judges such a recording by the lock    *)
(* discipline alone, whatever the goroutines' programs are: every          *)
(* goroutine (role, id) keeps the sequence of locks it holds, in the order *)
(* of acquisition ("acq" is recorded after the acquisition, "rel" before   *)
(* the release), and that sequence must ascend in the ONE hierarchy on     *)
(* which deadlock freedom of the design rests (GluonLocks!Rank):           *)
(*   session.userLock < session.capsLock < backend.usersLock <             *)
(*   user.publishLock < db client lock < user.statesLock                   *)
(* (the latent pair of handleCapability - capsLock before the same         *)
(* session's userLock - is tolerated exactly as LockOrderCode does).       *)
(* A violation is a held-while-acquiring pair against the hierarchy in the *)
(* real run: with the pairs the code has otherwise it closes a cycle.      *)
(* trace.ndjson lines carry the lock name in field "lock" ("" for events   *)
(* that are not lock operations).                                          *)
(***************************************************************************)
EXTENDS Integers, Sequences, FiniteSets, TLC, Json

TraceLog == ndJsonDeserialize("trace.ndjson")

VARIABLES l, held
vars == <<l, held>>

Key(e) == <<e.g, e.id>>
Keys == {Key(TraceLog[i]) : i \in 1..Len(TraceLog)}

Rank(n) == CASE n = "userLock" -> 1 [] n = "capsLock" -> 2 [] n = "usersLock" -> 3
             [] n = "publish" -> 4 [] n = "db" -> 5 [] n = "statesLock" -> 6 [] OTHER -> 0

Init == l = 1 /\ held = [k \in Keys |-> <<>>] /\ TLCSet(1, 1)

\* the last occurrence of n leaves the sequence
RECURSIVE DropLast(_, _)
DropLast(s, n) == IF s = <<>> THEN <<>>
                  ELSE IF s[Len(s)] = n THEN SubSeq(s, 1, Len(s) - 1)
                  ELSE Append(DropLast(SubSeq(s, 1, Len(s) - 1), n), s[Len(s)])

Next ==
  /\ l <= Len(TraceLog)
  /\ LET e == TraceLog[l] IN
       held' = CASE e.op = "acq" /\ Rank(e.lock) > 0 -> [held EXCEPT ![Key(e)] = Append(@, e.lock)]
                 [] e.op = "rel" /\ Rank(e.lock) > 0 -> [held EXCEPT ![Key(e)] = DropLast(@, e.lock)]
                 [] OTHER -> held
  /\ l' = l + 1

\* held-while-acquiring pairs respect the hierarchy
LockOrderRespected ==
  \A k \in Keys : \A i, j \in 1..Len(held[k]) :
     i < j => \/ Rank(held[k][i]) < Rank(held[k][j])
              \/ (held[k][i] = "capsLock" /\ held[k][j] = "userLock")

\* (a postcondition cannot read variables: the position reached is kept in a TLC register; one worker)
Mark == IF l > TLCGet(1) THEN TLCSet(1, l) ELSE TRUE
Report == PrintT(ToJson([consumed |-> TLCGet(1) - 1, len |-> Len(TraceLog)])) /\ TLCGet(1) = Len(TraceLog) + 1
=============================================================================
