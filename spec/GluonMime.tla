----------------------------- MODULE GluonMime -----------------------------
(***************************************************************************)
(* MIME structure of a message and the byte relations between its IMAP     *)
(* sections (RFC 3501 6.4.5 / 7.4.2, RFC 2045/2046).  Properties C12, C13. *)
(*                                                                         *)
(* A message is an abstract tree                                           *)
(*     Leaf(kind)  |  Multi(subtype, kids 1..3, preamble?, epilogue?)      *)
(*                 |  Emb(tree)      (message/rfc822 holding a message)    *)
(* rendered as a sequence of abstract CHUNKS (the "layout"): header field  *)
(* lines, the blank line, leaf bodies, preamble, delimiters, the closing   *)
(* delimiter, the newline after it, the epilogue - and, for a message that *)
(* went through the server, the one header line the server adds in front   *)
(* of the first field ("idline").  The harness gives every chunk bytes     *)
(* (pkg/mimegen); the concatenation of all chunks is the message.          *)
(*                                                                         *)
(* Everything the property says is a statement about chunk index ranges:   *)
(*   - the body of part p is the range Body(p); "size" is its length in    *)
(*     octets and "lines" the number of text lines of those octets         *)
(*     (line terminators, plus one for a last unterminated line);          *)
(*   - BODY[p], BODY[p.MIME], BODY[p.HEADER], BODY[p.TEXT],                *)
(*     BODY[p.HEADER.FIELDS (S)], BODY[p.HEADER.FIELDS.NOT (S)] are the    *)
(*     chunk sequences given by SectionValue;                              *)
(*   - a partial <o.n> of a value X is Partial(X, o, n).                   *)
(* Which paths exist at which node follows RFC 3501 6.4.5: a multipart     *)
(* numbers its children; a message whose body is not a multipart has only  *)
(* part 1 (its body); HEADER/TEXT/HEADER.FIELDS exist at the top level and *)
(* at message/rfc822 parts only; MIME exists at numbered parts that have a *)
(* MIME header of their own.                                               *)
(*                                                                         *)
(* The module is function shaped: every state is one case.                 *)
(*   Family = "structure" (C12): (tree, shape)   -> layout + expected      *)
(*            structure; shape has damage classes, for which only the weak *)
(*            expectation holds (strong = FALSE).                          *)
(*   Family = "fetch" (C13): (tree, shape, section, partial class) ->      *)
(*            expected chunk sequence.  The pseudo section "LAYOUT" prints *)
(*            the layout of (tree, shape) once.                            *)
(***************************************************************************)
EXTENDS Integers, Sequences, FiniteSets, TLC, Json

CONSTANTS Family,          \* "structure" | "fetch"
          LeafKinds,       \* subset of DOMAIN LeafDef
          Subtypes,        \* multipart subtypes
          MaxDepth,        \* tree depth <= 3
          MaxNodes,        \* nodes per tree
          MaxKids,         \* children per multipart (1..3)
          PreEpi,          \* set of <<preamble?, epilogue?>>
          HdrShapes, LineEnds, BoundaryClasses, Damages, SizeClasses,
          MaxVary,         \* at most this many shape dimensions differ from their default
          FieldSetIds,     \* subset of DOMAIN FieldSetDef
          PartialClasses,  \* subset of {"none","zero","mid","atlen","beyond","midhuge"}
          SizeTreeNodes,   \* size classes other than "small" only for trees with at most this many nodes
          Emit

-----------------------------------------------------------------------------
(* vocabulary *)

LeafDef ==
  [ plain  |-> [type |-> "text",        sub |-> "plain",        cte |-> "7bit",             body |-> "lines"],
    html   |-> [type |-> "text",        sub |-> "html",         cte |-> "quoted-printable", body |-> "nonl"],
    bin    |-> [type |-> "application", sub |-> "octet-stream", cte |-> "base64",           body |-> "b64"],
    empty  |-> [type |-> "text",        sub |-> "plain",        cte |-> "7bit",             body |-> "empty"],
    eight  |-> [type |-> "text",        sub |-> "plain",        cte |-> "8bit",             body |-> "eightbit"],
    blank  |-> [type |-> "text",        sub |-> "plain",        cte |-> "7bit",             body |-> "blanklines"],
    dashes |-> [type |-> "text",        sub |-> "plain",        cte |-> "7bit",             body |-> "dashes"] ]

\* header-list arguments of HEADER.FIELDS / HEADER.FIELDS.NOT (canonical names; the harness varies the case)
FieldSetDef ==
  << <<"Subject">>, <<"From", "To">>, <<"X-Dup">>, <<"Content-Type", "Date">>,
     <<"X-Absent">>, <<"X-Pm-Gluon-Id", "Subject">>, <<"Content-Transfer-Encoding", "X-Empty", "Message-Id">> >>

\* values for the constant PreEpi (cfg files cannot hold tuples): PreEpi <- PreEpi_Both
PreEpi_None == {<<FALSE, FALSE>>}
PreEpi_Both == {<<FALSE, FALSE>>, <<TRUE, TRUE>>}
PreEpi_All  == {<<FALSE, FALSE>>, <<TRUE, FALSE>>, <<FALSE, TRUE>>, <<TRUE, TRUE>>}

DefaultShape == [hdr |-> "plain", le |-> "crlf", bnd |-> "normal", dmg |-> "none", size |-> "small"]

\* boundary placement classes that leave the message well formed
WellFormedBnd == {"normal", "nofinalnl", "inline", "quoted", "padding"}

LeafT(kd)         == [k |-> "leaf",  kind |-> kd, sub |-> "", kids |-> <<>>,  pre |-> FALSE, epi |-> FALSE]
EmbT(t)           == [k |-> "emb",   kind |-> "", sub |-> "", kids |-> <<t>>, pre |-> FALSE, epi |-> FALSE]
MultiT(s, ks, pe) == [k |-> "multi", kind |-> "", sub |-> s,  kids |-> ks,    pre |-> pe[1], epi |-> pe[2]]

RECURSIVE SeqSum(_)
SeqSum(s) == IF s = <<>> THEN 0 ELSE Head(s) + SeqSum(Tail(s))

RECURSIVE Size(_)
Size(t) == 1 + SeqSum([i \in 1..Len(t.kids) |-> Size(t.kids[i])])

\* all trees of depth <= d with at most n nodes
RECURSIVE Trees(_, _), KidSeqs(_, _, _)
Trees(d, n) ==
  IF n < 1 THEN {}
  ELSE {LeafT(kd) : kd \in LeafKinds} \cup
       (IF d <= 1 \/ n < 2 THEN {}
        ELSE {EmbT(t) : t \in Trees(d - 1, n - 1)} \cup
             {MultiT(s, ks, pe) : s \in Subtypes, ks \in KidSeqs(d - 1, n - 1, MaxKids), pe \in PreEpi})
KidSeqs(d, n, m) ==
  IF n < 1 \/ m < 1 THEN {}
  ELSE {<<t>> : t \in Trees(d, n)} \cup
       UNION {{<<t>> \o r : r \in KidSeqs(d, n - Size(t), m - 1)} : t \in Trees(d, n - 1)}

AllTrees == Trees(MaxDepth, MaxNodes)

NonDefault(s) ==
  (IF s.hdr  # DefaultShape.hdr  THEN 1 ELSE 0) + (IF s.le   # DefaultShape.le   THEN 1 ELSE 0) +
  (IF s.bnd  # DefaultShape.bnd  THEN 1 ELSE 0) + (IF s.dmg  # DefaultShape.dmg  THEN 1 ELSE 0) +
  (IF s.size # DefaultShape.size THEN 1 ELSE 0)

AllShapes ==
  {s \in [hdr : HdrShapes, le : LineEnds, bnd : BoundaryClasses, dmg : Damages, size : SizeClasses] :
     NonDefault(s) <= MaxVary}

-----------------------------------------------------------------------------
(* layout: the message as a sequence of chunks.  A node is addressed by the  *)
(* sequence of child indexes leading to it (the child of an Emb is 1).       *)

Fld(a, f)   == [c |-> "fld", a |-> a, f |-> f]
Chk(c, a)   == [c |-> c,     a |-> a, f |-> ""]

\* names of the header fields of a node, in order.  isMsg: the node is the root of a message
\* (top level or embedded) and so carries the RFC 5322 fields besides the MIME ones.
MsgFields(top, hdr) ==
  LET base == IF top THEN <<"From", "To", "Date", "Subject", "Message-Id", "MIME-Version">>
                     ELSE <<"From", "To", "Subject">>
  IN CASE hdr = "dup"      -> <<"X-Dup">> \o base \o <<"X-Dup">>
       [] hdr = "emptyval" -> base \o <<"X-Empty">>
       [] OTHER            -> base

\* hdr = "ext": every node also carries the fields behind BODYSTRUCTURE's extension data, each with a value of its own
\* (derived from the node's address): an embedded message has them on the message/rfc822 part AND on its own root
ExtFields == <<"Content-Disposition", "Content-Language", "Content-Location", "Content-MD5">>
MimeFields(t, hdr) ==
  (IF t.k = "leaf"
   THEN IF hdr = "noct" THEN <<>> ELSE <<"Content-Type", "Content-Transfer-Encoding">>
   ELSE <<"Content-Type">>)
  \o (IF hdr = "ext" THEN ExtFields ELSE <<>>)

FieldNames(t, isMsg, top, hdr) == (IF isMsg THEN MsgFields(top, hdr) ELSE <<>>) \o MimeFields(t, hdr)

HdrChunks(t, a, isMsg, top, sh) ==
  LET names == FieldNames(t, isMsg, top, sh.hdr)
  IN (IF top /\ Family = "fetch" THEN <<[c |-> "idline", a |-> a, f |-> "X-Pm-Gluon-Id"]>> ELSE <<>>)
     \o [i \in 1..Len(names) |-> Fld(a, names[i])]
     \o <<Chk("blank", a)>>

RECURSIVE BodyChunks(_, _, _), KidChunks(_, _, _, _)
BodyChunks(t, a, sh) ==
  CASE t.k = "leaf"  -> <<Chk("body", a)>>
    [] t.k = "emb"   -> HdrChunks(t.kids[1], a \o <<1>>, TRUE, FALSE, sh) \o BodyChunks(t.kids[1], a \o <<1>>, sh)
    [] t.k = "multi" -> (IF t.pre THEN <<Chk("pre", a)>> ELSE <<>>)
                        \o KidChunks(t, a, sh, 1)
                        \o (IF sh.bnd = "noclose" THEN <<>> ELSE <<Chk("close", a)>>)
                        \o (IF sh.bnd = "noclose" THEN <<>> ELSE <<Chk("closenl", a)>>)
                        \o (IF t.epi /\ sh.bnd # "noclose" THEN <<Chk("epi", a)>> ELSE <<>>)
KidChunks(t, a, sh, i) ==
  IF i > Len(t.kids) THEN <<>>
  ELSE <<[c |-> "delim", a |-> a \o <<i>>, f |-> ""]>>
       \o HdrChunks(t.kids[i], a \o <<i>>, FALSE, FALSE, sh)
       \o BodyChunks(t.kids[i], a \o <<i>>, sh)
       \o KidChunks(t, a, sh, i + 1)

Layout(t, sh) == HdrChunks(t, <<>>, TRUE, TRUE, sh) \o BodyChunks(t, <<>>, sh)

IsPrefix(p, q) == Len(p) <= Len(q) /\ SubSeq(q, 1, Len(p)) = p

Idx(L, P(_)) == {i \in 1..Len(L) : P(L[i])}
Lo(S) == CHOOSE x \in S : \A y \in S : x <= y
Hi(S) == CHOOSE x \in S : \A y \in S : x >= y
Span(S) == IF S = {} THEN <<>> ELSE [i \in 1..(Hi(S) - Lo(S) + 1) |-> Lo(S) + i - 1]
Contiguous(S) == S = {} \/ S = Lo(S)..Hi(S)

\* chunk indexes of the header of the node at address a (field lines, the blank line, the id line)
HdrIdx(L, a) == Idx(L, LAMBDA ch : ch.a = a /\ ch.c \in {"fld", "blank", "idline"})
\* chunk indexes of the body of the node at address a: every chunk of the nodes below it, and its
\* own body / preamble / closing delimiter / epilogue chunks.  The delimiter in front of child i is
\* addressed like the child (a \o <<i>>) and so belongs to the parent's body, not to the child.
BodyIdx(L, a) ==
  Idx(L, LAMBDA ch : \/ (ch.a = a /\ ch.c \in {"body", "pre", "close", "closenl", "epi"})
                     \/ (IsPrefix(a, ch.a) /\ Len(ch.a) > Len(a)))
PartBodyIdx(L, a) == BodyIdx(L, a)

RECURSIVE NodeAt(_, _)
NodeAt(t, a) == IF a = <<>> THEN t ELSE NodeAt(t.kids[Head(a)], Tail(a))

-----------------------------------------------------------------------------
(* IMAP part numbering.  A "part" is [path, a, own]: the section path, the    *)
(* address of the node, and own = TRUE when the part is the body of a         *)
(* non-multipart message (its header is the message header: no MIME section). *)

RECURSIVE MsgParts(_, _, _), NodeParts(_, _, _, _)
MsgParts(t, a, prefix) ==
  IF t.k = "multi"
  THEN UNION {NodeParts(t.kids[i], a \o <<i>>, prefix \o <<i>>, FALSE) : i \in 1..Len(t.kids)}
  ELSE NodeParts(t, a, prefix \o <<1>>, TRUE)
NodeParts(n, a, path, own) ==
  {[path |-> path, a |-> a, own |-> own]} \cup
  CASE n.k = "multi" -> UNION {NodeParts(n.kids[i], a \o <<i>>, path \o <<i>>, FALSE) : i \in 1..Len(n.kids)}
    [] n.k = "emb"   -> MsgParts(n.kids[1], a \o <<1>>, path)
    [] OTHER         -> {}

Parts(t) == MsgParts(t, <<>>, <<>>)

\* a section: path, kind in {"", "HEADER", "TEXT", "MIME", "FIELDS", "NOT"}, fs = field set id (0: none)
Sect(p, kd, fs) == [path |-> p, kind |-> kd, fs |-> fs]

MsgTextSections(p) ==
  {Sect(p, "HEADER", 0), Sect(p, "TEXT", 0)} \cup
  {Sect(p, kd, fs) : kd \in {"FIELDS", "NOT"}, fs \in FieldSetIds}

Sections(t) ==
  {Sect(<<>>, "", 0)} \cup MsgTextSections(<<>>) \cup
  UNION {{Sect(pt.path, "", 0)}
         \cup (IF pt.own THEN {} ELSE {Sect(pt.path, "MIME", 0)})
         \cup (IF NodeAt(t, pt.a).k = "emb" THEN MsgTextSections(pt.path) ELSE {})
         : pt \in Parts(t)}

\* the message (root node address) a section's HEADER/TEXT refer to.  P = Parts(t)
MsgAddr(P, s) ==
  IF s.path = <<>> THEN <<>>
  ELSE LET pt == CHOOSE q \in P : q.path = s.path IN pt.a \o <<1>>

InSet(f, fs) == \E j \in 1..Len(FieldSetDef[fs]) : FieldSetDef[fs][j] = f

RECURSIVE SortedSeq(_)
SortedSeq(S) == IF S = {} THEN <<>> ELSE <<Lo(S)>> \o SortedSeq(S \ {Lo(S)})

\* the value of a section as a sequence of chunk indexes of the layout L (P = Parts(t))
SectionValue(L, P, s) ==
  CASE s.kind = "" /\ s.path = <<>> -> Span(1..Len(L))
    [] s.kind = "" /\ s.path # <<>> ->
         LET pt == CHOOSE q \in P : q.path = s.path IN Span(PartBodyIdx(L, pt.a))
    [] s.kind = "MIME" ->
         LET pt == CHOOSE q \in P : q.path = s.path IN Span(HdrIdx(L, pt.a))
    [] s.kind = "HEADER" -> Span(HdrIdx(L, MsgAddr(P, s)))
    [] s.kind = "TEXT"   -> Span(PartBodyIdx(L, MsgAddr(P, s)))
    [] s.kind = "FIELDS" ->
         LET H == HdrIdx(L, MsgAddr(P, s))
         IN SortedSeq({i \in H : L[i].c = "blank" \/ InSet(L[i].f, s.fs)})
    [] s.kind = "NOT" ->
         LET H == HdrIdx(L, MsgAddr(P, s))
         IN SortedSeq({i \in H : L[i].c = "blank" \/ ~InSet(L[i].f, s.fs)})

\* partial <o.n> of a value X (a sequence): octets o+1 .. o+n that exist
Min(x, y) == IF x < y THEN x ELSE y
Partial(X, o, n) == IF o >= Len(X) THEN <<>> ELSE SubSeq(X, o + 1, Min(o + n, Len(X)))

-----------------------------------------------------------------------------
(* expected structure (C12): BODYSTRUCTURE as a tree over the layout *)

ParamNames(t, sh) ==
  CASE t.k = "multi" -> <<"boundary">>
    [] t.k = "emb"   -> <<>>
    [] t.k = "leaf"  -> IF sh.hdr = "noct" THEN <<>>
                        ELSE IF LeafDef[t.kind].type = "text" THEN <<"charset">> ELSE <<"name">>

Range(S) == IF S = {} THEN <<0, 0>> ELSE <<Lo(S), Hi(S)>>   \* <<0,0>>: empty (no chunk)

RECURSIVE Struct(_, _, _, _, _)
Struct(t, a, L, sh, isMsgRoot) ==
  LET d == IF t.k = "leaf" THEN LeafDef[t.kind] ELSE [type |-> "", sub |-> "", cte |-> "", body |-> ""]
      noct == t.k = "leaf" /\ sh.hdr = "noct"
  IN [ k      |-> t.k,
       a      |-> a,
       type   |-> (IF t.k = "multi" THEN "multipart" ELSE IF t.k = "emb" THEN "message" ELSE IF noct THEN "text" ELSE d.type),
       sub    |-> (IF t.k = "multi" THEN t.sub ELSE IF t.k = "emb" THEN "rfc822" ELSE IF noct THEN "plain" ELSE d.sub),
       params |-> ParamNames(t, sh),
       cte    |-> IF t.k = "leaf" /\ ~noct THEN d.cte ELSE "",
       hdr    |-> Range(HdrIdx(L, a)),
       body   |-> Range(PartBodyIdx(L, a)),
       lines  |-> (t.k = "emb") \/ (t.k = "leaf" /\ (noct \/ d.type = "text")),
       ext    |-> sh.hdr = "ext",     \* extension data of THIS node: disposition, language, location (and MD5 unless multipart)
       kids   |-> IF t.k = "multi" THEN [i \in 1..Len(t.kids) |-> Struct(t.kids[i], a \o <<i>>, L, sh, FALSE)]
                  ELSE IF t.k = "emb" THEN <<Struct(t.kids[1], a \o <<1>>, L, sh, TRUE)>>
                  ELSE <<>>,
       env    |-> IF isMsgRoot THEN MsgFields(a = <<>>, sh.hdr) ELSE <<>> ]

Strong(sh) == sh.dmg = "none" /\ sh.bnd \in WellFormedBnd

-----------------------------------------------------------------------------
VARIABLES tree, shape, sect, pc
vars == <<tree, shape, sect, pc>>

NoSect == Sect(<<>>, "-", 0)
LayoutSect == Sect(<<>>, "LAYOUT", 0)

\* sections judged for a case: all of them for a well-formed message; for a damaged one only
\* the whole message (the header/body split and the parts are not defined by the property)
FetchSections(t, sh) == IF Strong(sh) THEN Sections(t) ELSE {Sect(<<>>, "", 0)}

\* A top level message whose own content type is message/rfc822: RFC 3501 does not settle how its
\* parts are numbered (is 1 the embedded message or already its first part?).  Not judged.
JudgedParts(t) == IF t.k = "emb" THEN {} ELSE Parts(t)
FetchTrees == {t \in AllTrees : t.k # "emb"}

Init ==
  IF Family = "structure"
  THEN tree \in AllTrees /\ shape \in AllShapes /\ shape.size = "small" /\ sect = NoSect /\ pc = "none"
  ELSE /\ tree \in FetchTrees /\ shape \in AllShapes
       /\ (shape.size = "small" \/ Size(tree) <= SizeTreeNodes)
       /\ \/ sect = LayoutSect /\ pc = "none"
          \/ sect \in FetchSections(tree, shape) /\ pc \in PartialClasses
Next == UNCHANGED vars
Spec == Init /\ [][Next]_vars

L0 == Layout(tree, shape)

Expected ==
  IF Family = "structure"
  THEN [strong |-> Strong(shape),
        struct |-> Struct(tree, <<>>, L0, shape, TRUE),
        parts  |-> LET L == L0 IN {[path |-> pt.path, body |-> Range(PartBodyIdx(L, pt.a))] : pt \in JudgedParts(tree)}]
  ELSE IF sect = LayoutSect THEN [strong |-> Strong(shape)]
  ELSE [value |-> SectionValue(L0, Parts(tree), sect)]

\* How a message reaches the mailbox it is fetched from is not an argument of SectionValue: what FETCH returns
\* is a function of the stored bytes alone.  The harness runs every case of a group once per arrival path:
\* "append" (APPEND into the mailbox), "recovered" (an APPEND the server refused - the literal is found in the
\* recovery mailbox) and "movedout" (MOVE out of the recovery mailbox: the literal is stored again).
\* Groups in a non-default shape take the plain path only (the dimensions are explored one at a time).
Arrivals == IF Family = "fetch" /\ (shape = DefaultShape \/ shape.size # DefaultShape.size)
            THEN <<"append", "recovered", "movedout">> ELSE <<"append">>

PrintCase ==
  Emit =>
    IF Family = "structure" \/ sect = LayoutSect
    THEN PrintT(ToJson([tree |-> tree, shape |-> shape, sect |-> sect, pc |-> pc, layout |-> L0, exp |-> Expected,
                        arrivals |-> Arrivals]))
    ELSE PrintT(ToJson([tree |-> tree, shape |-> shape, sect |-> sect, pc |-> pc,
                        fields |-> IF sect.fs = 0 THEN <<>> ELSE FieldSetDef[sect.fs], exp |-> Expected]))

-----------------------------------------------------------------------------
(* Laws of the design, checked on every case.  The laws about the whole tree are evaluated on *)
(* the states that print a layout (once per (tree, shape)); PartialLaws on every fetch case.   *)

WholeTreeCase == Family = "structure" \/ sect = LayoutSect

EmbParts(P) == {q \in P : NodeAt(tree, q.a).k = "emb"}
MsgAddrsOf(P) == {<<>>} \cup {pt.a \o <<1>> : pt \in EmbParts(P)}
SectOf(P, a) == IF a = <<>> THEN <<>> ELSE (CHOOSE q \in EmbParts(P) : q.a \o <<1>> = a).path

\* every range the property speaks about is a contiguous piece of the message
RangesContiguous ==
  WholeTreeCase =>
    LET L == L0  P == Parts(tree)
    IN \A pt \in P : Contiguous(PartBodyIdx(L, pt.a)) /\ Contiguous(HdrIdx(L, pt.a))

\* HEADER followed by TEXT is the whole message, at top level and in every embedded message
HeaderTextIsAll ==
  WholeTreeCase =>
    LET L == L0  P == Parts(tree)
    IN \A a \in MsgAddrsOf(P) :
         LET p == SectOf(P, a)
         IN SectionValue(L, P, Sect(p, "HEADER", 0)) \o SectionValue(L, P, Sect(p, "TEXT", 0))
              = SectionValue(L, P, Sect(p, "", 0))

\* FIELDS(S) and FIELDS.NOT(S) split the field lines without loss or duplication, keep their order,
\* and both end with the blank line
FieldsPartition ==
  WholeTreeCase =>
    LET L == L0  P == Parts(tree)
    IN \A a \in MsgAddrsOf(P) : \A fs \in FieldSetIds :
         LET p == SectOf(P, a)
             H == SectionValue(L, P, Sect(p, "HEADER", 0))
             F == SectionValue(L, P, Sect(p, "FIELDS", fs))
             N == SectionValue(L, P, Sect(p, "NOT", fs))
             set(X) == {X[i] : i \in 1..Len(X)}
             flds(X) == {i \in set(X) : L[i].c # "blank"}
             asc(X) == \A i \in 1..(Len(X) - 1) : X[i] < X[i + 1]
         IN /\ flds(F) \cap flds(N) = {}
            /\ flds(F) \cup flds(N) = flds(H)
            /\ asc(F) /\ asc(N)
            /\ Len(F) > 0 /\ L[F[Len(F)]].c = "blank" /\ Len(N) > 0 /\ L[N[Len(N)]].c = "blank"
            /\ Len(F) + Len(N) = Len(H) + 1

\* a part lies inside its parent part and inside the message; sibling parts do not overlap
PartInsideParent ==
  WholeTreeCase =>
    LET L == L0  P == Parts(tree)
        B == [pt \in P |-> PartBodyIdx(L, pt.a)]
        W == [pt \in P |-> B[pt] \cup (IF pt.own THEN {} ELSE HdrIdx(L, pt.a))]
    IN \A pt \in P :
         /\ W[pt] \subseteq 1..Len(L)
         /\ \A q \in P :
              (Len(q.path) + 1 = Len(pt.path) /\ IsPrefix(q.path, pt.path)) => W[pt] \subseteq B[q]
         /\ \A q \in P :
              (q.path # pt.path /\ Len(q.path) = Len(pt.path) /\ SubSeq(q.path, 1, Len(q.path) - 1) = SubSeq(pt.path, 1, Len(pt.path) - 1))
                => W[pt] \cap B[q] = {}

\* the parts of the top level lie inside TEXT
TopPartsInsideText ==
  WholeTreeCase =>
    LET L == L0  P == Parts(tree)
        T == SectionValue(L, P, Sect(<<>>, "TEXT", 0))
        TS == {T[i] : i \in 1..Len(T)}
    IN \A pt \in P : Len(pt.path) = 1 => PartBodyIdx(L, pt.a) \subseteq TS

\* section paths are unique names
PathsUnique == WholeTreeCase => LET P == Parts(tree) IN \A p, q \in P : p.path = q.path => p = q

\* partial laws (on the abstract value of the current section; chunk = octet)
PartialLaws ==
  (Family = "fetch" /\ sect # LayoutSect) =>
    LET X == SectionValue(L0, Parts(tree), sect)
        n == Len(X)
    IN /\ Partial(X, 0, n) = X
       /\ Partial(X, n, 5) = <<>> /\ Partial(X, n + 1, 5) = <<>>
       /\ \A k \in 0..n : Partial(X, 0, k) \o Partial(X, k, 1000000) = X
=============================================================================
