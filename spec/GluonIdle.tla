----------------------------- MODULE GluonIdle -----------------------------
(***************************************************************************)
(* C01 at the end of IDLE: what is pushed to an idling client and when.    *)
(*                                                                         *)
(* During IDLE (internal/session/handle_idle.go, internal/state/state.go   *)
(* PushResponder) an update that reaches the session is applied to the     *)
(* snapshot AT ONCE and its untagged response is handed to a second        *)
(* goroutine, the SENDER, which buffers the responses (sendResponsesIn-    *)
(* Bulks) and writes them to the connection                                *)
(*   Tick    whenever its ticker fires (idleBulkTime, 500 ms by default)   *)
(*   Final   once the channel from the session to it is closed (endIdle).  *)
(* The client ends IDLE with DONE; the session goroutine answers with the  *)
(* tagged OK and goes on with the next command.                            *)
(*                                                                         *)
(* FlushBeforeOk = FALSE is the code as it was: the tagged OK is written   *)
(* FIRST, the channel is closed afterwards (a deferred endIdle) and the    *)
(* sender writes what it still buffers whenever it is scheduled - after    *)
(* the completion of IDLE, possibly after (or in the middle of) the        *)
(* responses of the following commands, which are computed from the        *)
(* snapshot that already contains the changes.  The client's               *)
(* reconstruction then disagrees with what the server answers (a count     *)
(* that shrank without EXPUNGE, a FETCH for a sequence number beyond the   *)
(* count, a flag set that is older than one the client learned before).    *)
(* FlushBeforeOk = TRUE is the design (and the code since the fix that     *)
(* makes IDLE complete only after the sender has written everything):      *)
(*   Done   the channel is closed, the session waits for the sender        *)
(*   Final  the sender writes its buffer and ends                          *)
(*   Ok     the tagged completion                                          *)
(*                                                                         *)
(* The client keeps a mirror built only from the untagged responses in the *)
(* order in which they arrive; Probe (FETCH 1:* (UID FLAGS) after the      *)
(* completion) compares it with the snapshot; After is a further change    *)
(* announced by an ordinary command (NOOP) after the completion.           *)
(* ViewAgrees is C01.  The configurations that generate behaviours keep    *)
(* FlushBeforeOk = FALSE: the harness tries to force every interleaving    *)
(* TLC prints on the real server (the hook "idle.flush" parks the sender   *)
(* before Final); where the server does not complete IDLE while the sender *)
(* is parked (hook "idle.wait"), Final simply happens first.  The verdict  *)
(* is the predicate on what the real server sent.                          *)
(***************************************************************************)
EXTENDS Integers, Sequences, FiniteSets, TLC, Json

CONSTANTS Start,          \* messages in the mailbox when IDLE begins
          Kinds,          \* subset of {"exists", "expunge", "seen"}: what may be pushed
          MaxPush,        \* pushes during IDLE
          MaxTick,        \* ticker flushes during IDLE
          MaxAfter,       \* changes announced by a command after the completion
          FlushBeforeOk,
          Record

VARIABLES snap,     \* Seq([uid, seen]): the snapshot the server answers from
          nextUid,
          pc,       \* session goroutine: "idling" | "closing" | "ready"
          closed,   \* the channel to the sender is closed
          sender,   \* "running" | "finished"
          buf,      \* responses the sender has buffered
          mirror,   \* the client's reconstruction: Seq("?" | "T" | "F") - what it knows about \Seen per sequence number
          bad,      \* "" or the first disagreement the client noticed
          probed, pushes, ticks, afters,
          last, hist

vars == <<snap, nextUid, pc, closed, sender, buf, mirror, bad, probed, pushes, ticks, afters, last, hist>>

Init ==
  /\ snap = [i \in 1..Start |-> [uid |-> i, seen |-> FALSE]]
  /\ nextUid = Start + 1
  /\ pc = "idling" /\ closed = FALSE /\ sender = "running" /\ buf = <<>>
  /\ mirror = [i \in 1..Start |-> "?"]
  /\ bad = "" /\ probed = FALSE /\ pushes = 0 /\ ticks = 0 /\ afters = 0
  /\ last = [act |-> "Init", k |-> "", n |-> 0]
  /\ hist = <<>>

Remove(s, i) == [j \in 1..(Len(s) - 1) |-> IF j < i THEN s[j] ELSE s[j + 1]]
Known(b) == IF b THEN "T" ELSE "F"

(* one untagged response reaches the client *)
Line(st, l) ==
  IF st.bad # "" THEN st
  ELSE CASE l.k = "exists" ->
              IF l.n < Len(st.m) THEN [st EXCEPT !.bad = "count-shrinks-without-expunge"]
              ELSE [st EXCEPT !.m = st.m \o [i \in 1..(l.n - Len(st.m)) |-> "?"]]
         [] l.k = "expunge" ->
              IF l.n > Len(st.m) THEN [st EXCEPT !.bad = "expunge-beyond-count"]
              ELSE [st EXCEPT !.m = Remove(st.m, l.n)]
         [] l.k = "fetch" ->
              IF l.n > Len(st.m) THEN [st EXCEPT !.bad = "fetch-beyond-count"]
              ELSE [st EXCEPT !.m[l.n] = l.seen]

RECURSIVE Lines(_, _)
Lines(st, q) == IF q = <<>> THEN st ELSE Lines(Line(st, Head(q)), Tail(q))

Receive(q) ==
  LET r == Lines([m |-> mirror, bad |-> bad], q) IN mirror' = r.m /\ bad' = r.bad

(* a change of the mailbox as this session's snapshot takes it, and its untagged response *)
RespOf(k, i) ==
  CASE k = "exists"  -> [k |-> "exists", n |-> Len(snap) + 1, seen |-> "?"]
    [] k = "expunge" -> [k |-> "expunge", n |-> i, seen |-> "?"]
    [] k = "seen"    -> [k |-> "fetch", n |-> i, seen |-> Known(~snap[i].seen)]

Change(k, i) ==
  CASE k = "exists"  -> snap' = Append(snap, [uid |-> nextUid, seen |-> FALSE]) /\ nextUid' = nextUid + 1
    [] k = "expunge" -> snap' = Remove(snap, i) /\ UNCHANGED nextUid
    [] k = "seen"    -> snap' = [snap EXCEPT ![i].seen = ~snap[i].seen] /\ UNCHANGED nextUid

Pos(k) == IF k = "exists" THEN {0} ELSE 1..Len(snap)

\* PushResponder: applied to the snapshot at once, the response goes to the sender
Push(k, i) ==
  /\ pc = "idling" /\ pushes < MaxPush
  /\ Change(k, i)
  /\ buf' = Append(buf, RespOf(k, i))
  /\ pushes' = pushes + 1
  /\ last' = [act |-> "Push", k |-> k, n |-> i]
  /\ UNCHANGED <<pc, closed, sender, mirror, bad, probed, ticks, afters>>

Tick ==
  /\ sender = "running" /\ ~closed /\ buf # <<>> /\ ticks < MaxTick
  /\ Receive(buf) /\ buf' = <<>>
  /\ ticks' = ticks + 1
  /\ last' = [act |-> "Tick", k |-> "", n |-> Len(buf)]
  /\ UNCHANGED <<snap, nextUid, pc, closed, sender, probed, pushes, afters>>

\* the client's DONE is read
Done ==
  /\ pc = "idling"
  /\ closed' = TRUE
  /\ pc' = IF FlushBeforeOk THEN "closing" ELSE "ready"
  /\ last' = [act |-> "Done", k |-> "", n |-> Len(buf)]
  /\ UNCHANGED <<snap, nextUid, sender, buf, mirror, bad, probed, pushes, ticks, afters>>

Final ==
  /\ closed /\ sender = "running"
  /\ Receive(buf) /\ buf' = <<>>
  /\ sender' = "finished"
  /\ last' = [act |-> "Final", k |-> "", n |-> Len(buf)]
  /\ UNCHANGED <<snap, nextUid, pc, closed, probed, pushes, ticks, afters>>

Ok ==
  /\ pc = "closing" /\ sender = "finished"
  /\ pc' = "ready"
  /\ last' = [act |-> "Ok", k |-> "", n |-> 0]
  /\ UNCHANGED <<snap, nextUid, closed, sender, buf, mirror, bad, probed, pushes, ticks, afters>>

\* FETCH 1:* (UID FLAGS) after the completion: what the server reports against what the client reconstructed
Probe ==
  /\ pc = "ready" /\ ~probed
  /\ probed' = TRUE
  /\ bad' = IF bad # "" THEN bad
            ELSE IF Len(mirror) # Len(snap) THEN "count-differs"
            ELSE IF \E i \in 1..Len(snap) : mirror[i] # "?" /\ mirror[i] # Known(snap[i].seen) THEN "flags-differ"
            ELSE ""
  /\ mirror' = IF Len(mirror) = Len(snap) THEN [i \in 1..Len(snap) |-> Known(snap[i].seen)] ELSE mirror
  /\ last' = [act |-> "Probe", k |-> "", n |-> Len(snap)]
  /\ UNCHANGED <<snap, nextUid, pc, closed, sender, buf, pushes, ticks, afters>>

\* a change after the completion, announced by the next command (its responses are written by the session goroutine)
After(k, i) ==
  /\ pc = "ready" /\ afters < MaxAfter
  /\ Change(k, i)
  /\ Receive(<<RespOf(k, i)>>)
  /\ afters' = afters + 1
  /\ last' = [act |-> "After", k |-> k, n |-> i]
  /\ UNCHANGED <<pc, closed, sender, buf, probed, pushes, ticks>>

Step ==
  \/ \E k \in Kinds : \E i \in Pos(k) : Push(k, i) \/ After(k, i)
  \/ Tick \/ Done \/ Final \/ Ok \/ Probe
Keep == IF Record THEN hist' = Append(hist, last') ELSE hist' = hist
Next == Step /\ Keep
Spec == Init /\ [][Next]_vars

-----------------------------------------------------------------------------
Complete == pc = "ready" /\ sender = "finished" /\ probed

\* C01: the client never notices a disagreement
ViewAgrees == bad = ""

\* the sender has nothing left once IDLE is complete (what the fix establishes)
NothingBufferedAfterOk == (FlushBeforeOk /\ pc = "ready") => (buf = <<>> /\ sender = "finished")

TypeOK ==
  /\ pc \in {"idling", "closing", "ready"} /\ sender \in {"running", "finished"}
  /\ Len(snap) <= Start + MaxPush + MaxAfter
  /\ \A i \in 1..Len(mirror) : mirror[i] \in {"?", "T", "F"}

\* (tick family: behaviours that end IDLE without any ticker flush belong to the other family)
AtLeastOneTick == (pc # "idling") => ticks > 0

EmitBehaviour == (Record /\ Complete) =>
  PrintT(ToJson([trace |-> hist, bad |-> bad, count |-> Len(snap)]))
=============================================================================
