--------------------------- MODULE GluonGrammar ---------------------------
(***************************************************************************)
(* Generator of IMAP commands.  Property C10: every syntactically valid    *)
(* command is parsed into exactly the command that was written.            *)
(*                                                                         *)
(* The module is "function shaped": every state is one case                *)
(*      (abstract command with its encoding choices, keyword case, tag)    *)
(* and PrintCase hands it to the harness together with Expected(cmd), the  *)
(* denotation of the command: the command without the choices that the     *)
(* grammar says are irrelevant (how a string was encoded, letter case of   *)
(* keywords, optional parentheses, zero padding, x versus x:x, the letter  *)
(* case of INBOX, a zone written +hhmm versus its offset, NIL versus "" in *)
(* ID).  The harness renders the bytes (a pure pretty printer driven by    *)
(* the choices), feeds them to imap/command.Parser in one piece and split  *)
(* across reads, and compares the public AST with Expected.                *)
(*                                                                         *)
(* Grammar: RFC 3501 section 9 (commands of all states), RFC 2971 (ID),    *)
(* RFC 4315 (UID EXPUNGE), RFC 6851 (MOVE), RFC 2177 (IDLE/DONE),          *)
(* RFC 3691 (UNSELECT).                                                    *)
(*                                                                         *)
(* Conventions: every field name has one type everywhere; optional parts   *)
(* are sequences of length 0 or 1; search keys, fetch attributes and body  *)
(* sections are *uniform* nodes (kind + typed child lists) so that         *)
(* Expected, WellFormed and the walkers are generic.  A string value is    *)
(* text `s` followed by raw bytes `hi` (TLC cannot print non-ASCII text).  *)
(***************************************************************************)
EXTENDS Integers, Sequences, FiniteSets, TLC, Json

CONSTANTS KeywordCases,   \* subset of {"upper", "lower", "mixed", "mixed2"}
          MaxSetRanges,   \* the full sequence-set family has 1..MaxSetRanges ranges
          SearchDepth,    \* nesting depth of search keys: 2 or 3
          Rich,           \* TRUE: the large pools (thorough tier)
          Emit            \* TRUE: print every case as JSON

VARIABLE case
vars == <<case>>

Big == 2147483647          \* largest integer TLC can hold; a valid IMAP number

-----------------------------------------------------------------------------
(* Strings.  atom / list / quoted: may the value be written as an astring  *)
(* atom (1*ASTRING-CHAR), as a list-mailbox atom (1*list-char), as a       *)
(* quoted string (TEXT-CHAR only).  A literal can hold every value.        *)

V(t, a, l, q) == [s |-> t, hi |-> <<>>, atom |-> a, list |-> l, quoted |-> q]

SPlain == V("abc", TRUE, TRUE, TRUE)
SNum   == V("123", TRUE, TRUE, TRUE)              \* digits only is still an atom
SResp  == V("a]b", TRUE, TRUE, TRUE)              \* resp-specials is an ASTRING-CHAR
SPath  == V("Archive/2020.x-y_z", TRUE, TRUE, TRUE)
\* ATOM-CHAR = any CHAR except atom-specials ( ) { SP CTL % * " \ ]  : all of these are atom characters
SPunct == V("x!#$&'+,-.:;<=>?@^_`|~}", TRUE, TRUE, TRUE)
SBrack == V("a[b", TRUE, TRUE, TRUE)
SUtf7  == V("&AOk-t&AOk-", TRUE, TRUE, TRUE)
SSpace == V("a b", FALSE, FALSE, TRUE)
SEsc   == V("q\"uo\\te", FALSE, FALSE, TRUE)      \* needs \" and \\ when quoted
SEmpty == V("", FALSE, FALSE, TRUE)
SBrace == V("{3}", FALSE, FALSE, TRUE)            \* looks like a literal header
SParen == V("(x y)", FALSE, FALSE, TRUE)
SCrlf  == V("l1\r\nl2", FALSE, FALSE, FALSE)      \* literal only
SHi    == [s |-> "caf", hi |-> <<195, 169>>, atom |-> FALSE, list |-> FALSE, quoted |-> FALSE]
SStar  == V("*", FALSE, TRUE, TRUE)               \* list wildcards: atoms only as list-mailbox
SPct   == V("%", FALSE, TRUE, TRUE)
SPat   == V("a/%/b*", FALSE, TRUE, TRUE)
SPatSp == V("My Folder/*", FALSE, FALSE, TRUE)
SInbox1 == V("INBOX", TRUE, TRUE, TRUE)
SInbox2 == V("inbox", TRUE, TRUE, TRUE)
SInbox3 == V("iNbOx", TRUE, TRUE, TRUE)
SInboxSub == V("INBOX/sub", TRUE, TRUE, TRUE)     \* not INBOX: left alone
SRef   == V("a/", TRUE, TRUE, TRUE)
SUtf8  == V("UTF-8", TRUE, TRUE, TRUE)
SAscii == V("US-ASCII", TRUE, TRUE, TRUE)
SSubject == V("Subject", TRUE, TRUE, TRUE)
SFrom  == V("From", TRUE, TRUE, TRUE)
STo    == V("to", TRUE, TRUE, TRUE)
SMsgId == V("Message-ID", TRUE, TRUE, TRUE)
SXHdr  == V("X-My Hdr", FALSE, FALSE, TRUE)
SName  == V("name", TRUE, TRUE, TRUE)
SVers  == V("version", TRUE, TRUE, TRUE)
SOs    == V("os", TRUE, TRUE, TRUE)
SClient == V("gluon client 1.0", FALSE, FALSE, TRUE)
SKw1   == V("$Forwarded", TRUE, TRUE, TRUE)
SKw2   == V("custom_kw", TRUE, TRUE, TRUE)

InboxTexts == {"INBOX", "inbox", "iNbOx"}

AllValues == {SPlain, SNum, SResp, SPath, SPunct, SBrack, SUtf7, SSpace, SEsc, SEmpty, SBrace, SParen, SCrlf, SHi,
              SStar, SPct, SPat, SPatSp, SInbox1, SInbox2, SInbox3, SInboxSub, SRef, SUtf8, SAscii,
              SSubject, SFrom, STo, SMsgId, SXHdr, SName, SVers, SOs, SClient, SKw1, SKw2}

E(v, e) == [s |-> v.s, hi |-> v.hi, e |-> e]

\* admissible encodings per grammatical context
EncsAs(v) == (IF v.atom THEN {"atom"} ELSE {}) \cup (IF v.quoted THEN {"quoted"} ELSE {}) \cup {"literal"}
EncsLm(v) == (IF v.list THEN {"atom"} ELSE {}) \cup (IF v.quoted THEN {"quoted"} ELSE {}) \cup {"literal"}
EncsSt(v) == (IF v.quoted THEN {"quoted"} ELSE {}) \cup {"literal"}
Encs(ctx, v) == CASE ctx = "astring" -> EncsAs(v)
                  [] ctx = "listmb"  -> EncsLm(v)
                  [] ctx = "string"  -> EncsSt(v)
                  [] ctx = "atom"    -> IF v.atom THEN {"atom"} ELSE {}

AStr(P) == UNION {{E(v, e) : e \in EncsAs(v)} : v \in P}    \* astring
LStr(P) == UNION {{E(v, e) : e \in EncsLm(v)} : v \in P}    \* list-mailbox
QStr(P) == UNION {{E(v, e) : e \in EncsSt(v)} : v \in P}    \* string

\* the denotation of a string leaf
St(x) == [s |-> x.s, hi |-> x.hi]
Txt(t) == [s |-> t, hi |-> <<>>]
\* mailbox = "INBOX" / astring: INBOX is case-insensitive
Mb(x) == IF x.s \in InboxTexts /\ x.hi = <<>> THEN Txt("INBOX") ELSE St(x)

APool == {SPlain, SNum, SResp, SPunct, SBrack, SSpace, SEsc, SEmpty, SBrace, SParen, SCrlf, SHi}
AFull == AStr(APool)                                         \* 27 encoded astrings
\* three values, three encodings
ARep == {E(SPlain, "atom"), E(SSpace, "quoted"), E(SEsc, "literal")}
ARep4 == ARep \cup {E(SEsc, "quoted")}

MPool == {SInbox1, SInbox2, SInbox3, SInboxSub, SPath, SUtf7} \cup APool
MFull == AStr(MPool)
MRep == {E(SInbox2, "atom"), E(SPath, "atom"), E(SSpace, "quoted"), E(SEsc, "literal")}

-----------------------------------------------------------------------------
(* Sequence sets *)
Nn(i) == [k |-> "n", v |-> i]
Star == [k |-> "star", v |-> 0]
Max32 == [k |-> "max32", v |-> 0]        \* 4294967295, rendered by the harness

Rng(a, b) == [a |-> a, b |-> b, single |-> FALSE]
One(a) == [a |-> a, b |-> a, single |-> TRUE]

FullNums == {Nn(1), Nn(2), Nn(10), Star}
FullRanges == {Rng(a, b) : a \in FullNums, b \in FullNums} \cup {One(a) : a \in FullNums}
FullSets == UNION {[1..n -> FullRanges] : n \in 1..MaxSetRanges}

Set1 == <<One(Nn(1))>>
Set2 == <<Rng(Nn(1), Star)>>
Set3 == <<One(Nn(2)), Rng(Nn(10), Star)>>
Set4 == <<Rng(Star, Max32), One(Nn(Big)), Rng(Nn(2), Nn(2))>>
SmallSets == {Set1, Set2, Set3, Set4}
TwoSets == {Set1, Set3}

\* seq-number x denotes the range x:x; the order of the two ends is kept as written
ExpRange(r) == [a |-> r.a, b |-> r.b]
ExpSet(s) == [i \in 1..Len(s) |-> ExpRange(s[i])]

-----------------------------------------------------------------------------
(* Dates and date-times *)
DaysIn(m, y) == IF m = 2 THEN (IF y % 4 = 0 /\ (y % 100 # 0 \/ y % 400 = 0) THEN 29 ELSE 28)
                ELSE IF m \in {4, 6, 9, 11} THEN 30 ELSE 31

\* date = date-text / DQUOTE date-text DQUOTE ; date-day = 1*2DIGIT
\* q: written in quotes; pad: a day below 10 written with two digits
SDate(d, m, y, q, p) == [day |-> d, mon |-> m, year |-> y, q |-> q, pad |-> p]
SDatesOf(B) == {SDate(b[1], b[2], b[3], q, p) : b \in B, q \in BOOLEAN, p \in BOOLEAN}
DateBaseSmall == {<<1, 1, 2020>>, <<29, 2, 2024>>, <<31, 12, 1999>>, <<5, 5, 2023>>}
DateBaseMonths == {<<m + 9, m, 2000 + m>> : m \in 1..12}
ValidSDate(d) == d.day \in 1..DaysIn(d.mon, d.year) /\ d.mon \in 1..12 /\ d.year \in 1000..9999
                 /\ (d.pad => d.day < 10)
SDates == {d \in SDatesOf(IF Rich THEN DateBaseSmall \cup DateBaseMonths ELSE DateBaseSmall) : ValidSDate(d)}
SDateRep == SDate(5, 5, 2023, TRUE, FALSE)
SDateRep2 == SDate(31, 12, 1999, FALSE, FALSE)
ExpDate(d) == [day |-> d.day, mon |-> d.mon, year |-> d.year]

\* date-time = DQUOTE date-day-fixed "-" date-month "-" date-year SP time SP zone DQUOTE
\* dsp: a day below 10 written (SP DIGIT) instead of 2DIGIT
DT(d, dsp, m, y, hh, mi, ss, zs, zh, zm) ==
  [day |-> d, dsp |-> dsp, mon |-> m, year |-> y, hh |-> hh, mi |-> mi, ss |-> ss, zs |-> zs, zh |-> zh, zm |-> zm]
ValidDT(t) == /\ t.day \in 1..DaysIn(t.mon, t.year) /\ t.mon \in 1..12 /\ t.year \in 1000..9999
              /\ t.hh \in 0..23 /\ t.mi \in 0..59 /\ t.ss \in 0..59
              /\ t.zs \in {"+", "-"} /\ t.zh \in 0..23 /\ t.zm \in 0..59
              /\ (t.dsp => t.day < 10)
DTMonths == {DT(m + 16, FALSE, m, 1990 + m, m, 2 * m, 3 * m, "+", 0, 0) : m \in 1..12}
DTZones  == {DT(17, FALSE, 7, 1996, 2, 44, 25, zs, z[1], z[2]) : zs \in {"+", "-"}, z \in {<<0, 0>>, <<0, 30>>, <<5, 30>>, <<8, 0>>, <<12, 45>>}}
DTDays   == {DT(d, sp, 2, 2024, 23, 59, 59, "-", 7, 0) : d \in {1, 9}, sp \in BOOLEAN} \cup {DT(29, FALSE, 2, 2024, 0, 0, 0, "+", 1, 0)}
DateTimes == {t \in (IF Rich THEN DTMonths \cup DTZones \cup DTDays
                     ELSE {t \in DTMonths : t.mon \in {1, 12}} \cup {t \in DTZones : t.zh \in {0, 5}} \cup DTDays) : ValidDT(t)}
ExpDT(t) == [day |-> t.day, mon |-> t.mon, year |-> t.year, hh |-> t.hh, mi |-> t.mi, ss |-> t.ss,
             off |-> (IF t.zs = "+" THEN 1 ELSE -1) * (t.zh * 3600 + t.zm * 60)]

-----------------------------------------------------------------------------
(* Flags: flag = "\" atom / atom (not \Recent).  The text is data: kept as written. *)
FlagLists == {<<>>, <<"\\Seen">>, <<"\\Deleted", "\\seen">>, <<"$Forwarded">>,
              <<"\\Answered", "\\Flagged", "\\Draft", "custom_kw", "\\XExt">>}

-----------------------------------------------------------------------------
(* Body sections and fetch attributes (uniform nodes) *)
\* sk: "HEADER" "TEXT" "MIME" "FIELDS" "NOTFIELDS" "PART"
Sec(sk, flds, path, sub) == [sk |-> sk, flds |-> flds, path |-> path, sub |-> sub]

HL1 == <<E(SSubject, "atom")>>
HL2 == <<E(SFrom, "atom"), E(STo, "quoted")>>
HL3 == <<E(SXHdr, "quoted"), E(SSubject, "literal"), E(SMsgId, "atom")>>
HL4 == <<E(SXHdr, "literal")>>
HL5 == <<E(SSubject, "quoted"), E(SFrom, "literal"), E(STo, "atom"), E(SNum, "atom"), E(SResp, "atom")>>
HeaderLists == IF Rich THEN {HL1, HL2, HL3, HL4, HL5} ELSE {HL1, HL2, HL3}

Paths == IF Rich THEN {<<1>>, <<2, 3>>, <<1, 2, 10>>, <<Big>>} ELSE {<<1>>, <<2, 3>>}

MsgText == {Sec("HEADER", <<>>, <<>>, <<>>), Sec("TEXT", <<>>, <<>>, <<>>)}
           \cup {Sec(sk, h, <<>>, <<>>) : sk \in {"FIELDS", "NOTFIELDS"}, h \in HeaderLists}
\* section-text = section-msgtext / "MIME" (only below a part)
SecText == MsgText \cup {Sec("MIME", <<>>, <<>>, <<>>)}
PartSecs == {Sec("PART", <<>>, p, <<>>) : p \in Paths} \cup {Sec("PART", <<>>, p, <<t>>) : p \in Paths, t \in SecText}
\* section = "[" [section-spec] "]"
Sections == {<<>>} \cup {<<x>> : x \in MsgText \cup PartSecs}

\* "<" number "." nz-number ">"
Partials == {<<>>, <<[off |-> 0, cnt |-> 1]>>, <<[off |-> 5, cnt |-> 10]>>}
            \cup (IF Rich THEN {<<[off |-> Big, cnt |-> Big]>>} ELSE {})

Att(a, peek, sec, part) == [a |-> a, peek |-> peek, sec |-> sec, part |-> part]
SimpleAttNames == {"ENVELOPE", "FLAGS", "INTERNALDATE", "RFC822", "RFC822.HEADER", "RFC822.SIZE",
                   "RFC822.TEXT", "BODY", "BODYSTRUCTURE", "UID"}
MacroNames == {"ALL", "FULL", "FAST"}
SimpleAtts == {Att(a, FALSE, <<>>, <<>>) : a \in SimpleAttNames}
MacroAtts == {Att(a, FALSE, <<>>, <<>>) : a \in MacroNames}
SecAtts == {Att("BODYSEC", pk, sc, pt) : pk \in BOOLEAN, sc \in Sections, pt \in Partials}
RepAtts == {Att("FLAGS", FALSE, <<>>, <<>>), Att("UID", FALSE, <<>>, <<>>), Att("RFC822.SIZE", FALSE, <<>>, <<>>),
            Att("BODY", FALSE, <<>>, <<>>),
            Att("BODYSEC", FALSE, <<>>, <<>>),
            Att("BODYSEC", TRUE, <<Sec("FIELDS", HL2, <<>>, <<>>)>>, <<[off |-> 0, cnt |-> 1]>>),
            Att("BODYSEC", FALSE, <<Sec("PART", <<>>, <<1>>, <<Sec("MIME", <<>>, <<>>, <<>>)>>)>>, <<>>),
            Att("BODYSEC", TRUE, <<Sec("PART", <<>>, <<2, 3>>, <<Sec("NOTFIELDS", HL3, <<>>, <<>>)>>)>>, <<[off |-> 5, cnt |-> 10]>>)}

\* paren: the attributes are written in parentheses (mandatory for more than one)
AttLists ==
       {[atts |-> <<a>>, paren |-> FALSE] : a \in SimpleAtts \cup MacroAtts \cup SecAtts}
  \cup {[atts |-> <<a>>, paren |-> TRUE] : a \in SimpleAtts \cup SecAtts}
  \cup {[atts |-> <<a, b>>, paren |-> TRUE] : a \in RepAtts, b \in RepAtts}
  \cup {[atts |-> <<a, b, c>>, paren |-> TRUE] : a \in {Att("UID", FALSE, <<>>, <<>>)}, b \in RepAtts, c \in SimpleAtts}

ExpSec(x) == [sk |-> x.sk, flds |-> [i \in 1..Len(x.flds) |-> St(x.flds[i])], path |-> x.path,
              sub |-> [i \in 1..Len(x.sub) |->
                         [sk |-> x.sub[i].sk, flds |-> [j \in 1..Len(x.sub[i].flds) |-> St(x.sub[i].flds[j])],
                          path |-> x.sub[i].path, sub |-> <<>>]]]
ExpAtt(x) == [a |-> x.a, peek |-> x.peek, sec |-> [i \in 1..Len(x.sec) |-> ExpSec(x.sec[i])], part |-> x.part]

-----------------------------------------------------------------------------
(* Search keys (uniform nodes): kind + strings + dates + numbers + sets + sub-keys *)
K(k, str, date, num, set, sub) == [k |-> k, str |-> str, date |-> date, num |-> num, set |-> set, sub |-> sub]

NullaryKeys == {"ALL", "ANSWERED", "DELETED", "FLAGGED", "NEW", "OLD", "RECENT", "SEEN", "UNANSWERED",
                "UNDELETED", "UNFLAGGED", "UNSEEN", "DRAFT", "UNDRAFT"}
StringKeys == {"BCC", "BODY", "CC", "FROM", "SUBJECT", "TEXT", "TO"}
DateKeys == {"BEFORE", "ON", "SINCE", "SENTBEFORE", "SENTON", "SENTSINCE"}
NumKeys == {"LARGER", "SMALLER"}
FlagKeys == {"KEYWORD", "UNKEYWORD"}
AllKeyKinds == NullaryKeys \cup StringKeys \cup DateKeys \cup NumKeys \cup FlagKeys
               \cup {"HEADER", "UID", "SEQ", "NOT", "OR", "LIST"}

Leaf0(k) == K(k, <<>>, <<>>, <<>>, <<>>, <<>>)
KNot(x) == K("NOT", <<>>, <<>>, <<>>, <<>>, <<x>>)
KOr(x, y) == K("OR", <<>>, <<>>, <<>>, <<>>, <<x, y>>)
KList(xs) == K("LIST", <<>>, <<>>, <<>>, <<>>, xs)
KStr(k, s) == K(k, <<s>>, <<>>, <<>>, <<>>, <<>>)

Leaves ==
       {Leaf0(k) : k \in NullaryKeys}
  \cup {KStr(k, s) : k \in StringKeys, s \in (IF Rich THEN AFull ELSE ARep)}
  \cup {KStr("SUBJECT", s) : s \in AFull}
  \cup {K(k, <<>>, <<d>>, <<>>, <<>>, <<>>) : k \in DateKeys, d \in SDates}
  \cup {K(k, <<E(f, "atom")>>, <<>>, <<>>, <<>>, <<>>) : k \in FlagKeys, f \in {SKw1, SKw2}}
  \cup {K("HEADER", <<f, v>>, <<>>, <<>>, <<>>, <<>>) : f \in AStr({SSubject, SXHdr}), v \in (IF Rich THEN AFull ELSE ARep4)}
  \cup {K(k, <<>>, <<>>, <<n>>, <<>>, <<>>) : k \in NumKeys, n \in {0, 1, Big}}
  \cup {K(k, <<>>, <<>>, <<>>, <<s>>, <<>>) : k \in {"UID", "SEQ"}, s \in SmallSets}

\* one representative per shape of leaf, used below operators
Rep0 == {Leaf0("ALL"), KStr("FROM", E(SSpace, "quoted")), KStr("CC", E(SPlain, "atom")),
         K("SINCE", <<>>, <<SDateRep>>, <<>>, <<>>, <<>>),
         K("KEYWORD", <<E(SKw1, "atom")>>, <<>>, <<>>, <<>>, <<>>),
         K("HEADER", <<E(SSubject, "atom"), E(SEsc, "literal")>>, <<>>, <<>>, <<>>, <<>>),
         K("LARGER", <<>>, <<>>, <<1>>, <<>>, <<>>),
         K("UID", <<>>, <<>>, <<>>, <<Set3>>, <<>>),
         K("SEQ", <<>>, <<>>, <<>>, <<Set2>>, <<>>)}

\* all keys of nesting depth exactly d built from the representatives of depth d-1 and Rep0
\* (every operator, every position of the deeper operand)
Ops(deep, flat) ==
       {KNot(x) : x \in deep}
  \cup {KOr(x, y) : x \in deep, y \in flat} \cup {KOr(x, y) : x \in flat, y \in deep}
  \cup {KList(<<x>>) : x \in deep}
  \cup {KList(<<x, y>>) : x \in deep, y \in flat} \cup {KList(<<x, y>>) : x \in flat, y \in deep}

Depth1 == Ops(Rep0, Rep0) \cup {KNot(x) : x \in Leaves}
          \cup {KList(<<Leaf0("SEEN"), KStr("TO", E(SPlain, "atom")), Leaf0("DRAFT")>>),
                KList(<<K("SEQ", <<>>, <<>>, <<>>, <<Set1>>, <<>>), K("UID", <<>>, <<>>, <<>>, <<Set4>>, <<>>),
                        K("SMALLER", <<>>, <<>>, <<Big>>, <<>>, <<>>), K("BEFORE", <<>>, <<SDateRep2>>, <<>>, <<>>, <<>>)>>)}
Rep1 == {KNot(Leaf0("ALL")), KNot(KStr("FROM", E(SSpace, "quoted"))),
         KOr(Leaf0("ALL"), KStr("FROM", E(SSpace, "quoted"))),
         KOr(K("SEQ", <<>>, <<>>, <<>>, <<Set2>>, <<>>), K("UID", <<>>, <<>>, <<>>, <<Set3>>, <<>>)),
         KList(<<Leaf0("ALL")>>),
         KList(<<KStr("FROM", E(SEsc, "literal")), K("SINCE", <<>>, <<SDateRep>>, <<>>, <<>>, <<>>)>>)}
Depth2 == Ops(Rep1, Rep0 \cup Rep1)
Rep2 == {KNot(KNot(Leaf0("ALL"))),
         KNot(KList(<<KStr("FROM", E(SEsc, "literal")), K("SINCE", <<>>, <<SDateRep>>, <<>>, <<>>, <<>>)>>)),
         KOr(KNot(Leaf0("ALL")), K("UID", <<>>, <<>>, <<>>, <<Set3>>, <<>>)),
         KList(<<KList(<<Leaf0("ALL")>>)>>),
         KList(<<KOr(Leaf0("ALL"), KStr("FROM", E(SSpace, "quoted"))), Leaf0("SEEN")>>)}
Depth3 == Ops(Rep2, Rep0 \cup Rep2)

KeysAnyDepth == Leaves \cup Depth1 \cup Depth2 \cup (IF SearchDepth >= 3 THEN Depth3 ELSE {})
RepKeys == Rep0 \cup Rep1 \cup {KStr("CC", E(SEsc, "quoted")), Leaf0("NEW")}

Charsets == {<<>>} \cup {<<c>> : c \in AStr({SUtf8}) \cup {E(SAscii, "quoted")}}

\* search = "SEARCH" [SP "CHARSET" SP astring] 1*(SP search-key)
SearchArgs ==
       {[charset |-> <<>>, keys |-> <<x>>] : x \in KeysAnyDepth}
  \cup {[charset |-> c, keys |-> <<x>>] : c \in Charsets \ {<<>>}, x \in RepKeys}
  \cup {[charset |-> <<>>, keys |-> <<x, y>>] : x \in RepKeys, y \in RepKeys}
  \cup {[charset |-> <<E(SUtf8, "atom")>>, keys |-> <<x, y, z>>] : x \in {Leaf0("UNSEEN")}, y \in Rep1, z \in Rep0}

RECURSIVE ExpKey(_)
ExpKey(x) == [k |-> x.k,
              str  |-> [i \in 1..Len(x.str) |-> St(x.str[i])],
              date |-> [i \in 1..Len(x.date) |-> ExpDate(x.date[i])],
              num  |-> x.num,
              set  |-> [i \in 1..Len(x.set) |-> ExpSet(x.set[i])],
              sub  |-> [i \in 1..Len(x.sub) |-> ExpKey(x.sub[i])]]

RECURSIVE KeyDepth(_)
Max(S) == CHOOSE m \in S : \A o \in S : o <= m
KeyDepth(x) == IF Len(x.sub) = 0 THEN 0 ELSE 1 + Max({KeyDepth(x.sub[i]) : i \in 1..Len(x.sub)})

RECURSIVE KeyKinds(_)
KeyKinds(x) == {x.k} \cup UNION {KeyKinds(x.sub[i]) : i \in 1..Len(x.sub)}

-----------------------------------------------------------------------------
(* Commands *)
SimpleKinds == {"CAPABILITY", "NOOP", "LOGOUT", "STARTTLS", "CHECK", "CLOSE", "EXPUNGE", "UNSELECT", "IDLE", "DONE"}
MailboxKinds == {"SELECT", "EXAMINE", "CREATE", "DELETE", "SUBSCRIBE", "UNSUBSCRIBE"}
AllKinds == SimpleKinds \cup MailboxKinds \cup {"LOGIN", "RENAME", "LIST", "LSUB", "STATUS", "APPEND",
             "COPY", "MOVE", "UIDEXPUNGE", "STORE", "FETCH", "SEARCH", "ID"}
UidKinds == {"COPY", "MOVE", "STORE", "FETCH", "SEARCH"}

CSimple == {[k |-> k] : k \in SimpleKinds}
CLogin == IF Rich THEN {[k |-> "LOGIN", user |-> u, pass |-> p] : u \in AFull, p \in AFull}
          ELSE {[k |-> "LOGIN", user |-> u, pass |-> p] : u \in AFull, p \in ARep4}
               \cup {[k |-> "LOGIN", user |-> u, pass |-> p] : u \in ARep4, p \in AFull}
CMailbox == {[k |-> k, mbox |-> m] : k \in MailboxKinds, m \in MFull}
CRename == {[k |-> "RENAME", mbox |-> m, to |-> t] : m \in MFull, t \in MRep}
           \cup {[k |-> "RENAME", mbox |-> m, to |-> t] : m \in MRep, t \in MFull}

Refs == AStr({SEmpty, SInbox2, SRef, SSpace})
Pats == LStr({SStar, SPct, SPat, SPatSp, SEmpty, SInbox2, SResp, SCrlf})
CList == {[k |-> k, mbox |-> r, pat |-> p] : k \in {"LIST", "LSUB"}, r \in Refs, p \in Pats}

StatusAttNames == <<"MESSAGES", "RECENT", "UIDNEXT", "UIDVALIDITY", "UNSEEN">>
StatusLists == {<<StatusAttNames[i]>> : i \in 1..5}
               \cup {<<StatusAttNames[i], StatusAttNames[j]>> : i \in 1..5, j \in 1..5}
               \cup {StatusAttNames, <<"UNSEEN", "UIDVALIDITY", "UIDNEXT", "RECENT", "MESSAGES", "UNSEEN">>}
CStatus == {[k |-> "STATUS", mbox |-> m, satts |-> a] : m \in MRep, a \in StatusLists}

\* append = "APPEND" SP mailbox [SP flag-list] [SP date-time] SP literal
Messages == {[s |-> "From: a@b.c\r\nSubject: x\r\n\r\nbody\r\n", hi |-> <<>>, e |-> "literal"],
             [s |-> "x", hi |-> <<>>, e |-> "literal"],
             [s |-> "Subject: 8bit \r\n\r\n(\"{5}\r\n", hi |-> <<226, 130, 172, 13, 10>>, e |-> "literal"]}
CAppend == {[k |-> "APPEND", mbox |-> m, hasflags |-> hf, flags |-> f, dt |-> d, lit |-> l] :
              m \in MRep, hf \in BOOLEAN, f \in FlagLists, d \in {<<>>} \cup {<<t>> : t \in DateTimes}, l \in Messages}

WithUid(S) == {[c EXCEPT !.uid = u] : c \in S, u \in BOOLEAN}

CCopyMove == WithUid({[k |-> k, uid |-> FALSE, set |-> s, mbox |-> m] : k \in {"COPY", "MOVE"}, s \in SmallSets, m \in MRep})
\* the full sequence-set family in front of another argument (thorough); UID EXPUNGE has it at the end of the line
CCopyFull == IF Rich THEN {[k |-> "COPY", uid |-> FALSE, set |-> s, mbox |-> E(SPlain, "atom")] : s \in FullSets} ELSE {}
CUidExpunge == {[k |-> "UIDEXPUNGE", set |-> s] : s \in FullSets \cup SmallSets}

\* store-att-flags = (["+" / "-"] "FLAGS" [".SILENT"]) SP (flag-list / (flag *(SP flag)))
CStore == WithUid({[k |-> "STORE", uid |-> FALSE, set |-> s, act |-> a, silent |-> sl, flags |-> f, paren |-> p] :
                     s \in SmallSets, a \in {"add", "rem", "set"}, sl \in BOOLEAN, f \in FlagLists, p \in BOOLEAN})

CFetch == WithUid({[k |-> "FETCH", uid |-> FALSE, set |-> s, atts |-> al.atts, paren |-> al.paren] :
                     s \in (IF Rich THEN SmallSets ELSE TwoSets), al \in AttLists})

CSearch == WithUid({[k |-> "SEARCH", uid |-> FALSE, charset |-> a.charset, keys |-> a.keys] : a \in SearchArgs})

\* id_params_list ::= "(" #(string SPACE nstring) ")" / nil       (RFC 2971)
\* a value is a sequence of 0 (NIL) or 1 strings
IdVals == {<<>>} \cup {<<v>> : v \in QStr({SClient, SEmpty, SEsc})}
IdParamLists ==
       {<<>>}
  \cup {<<[key |-> k, val |-> v]>> : k \in QStr({SName}), v \in IdVals}
  \cup {<<[key |-> E(SName, "quoted"), val |-> v], [key |-> k2, val |-> v2]>> :
          v \in IdVals, k2 \in QStr({SVers}), v2 \in IdVals}
  \cup {<<[key |-> E(SName, "literal"), val |-> <<E(SClient, "literal")>>], [key |-> E(SVers, "quoted"), val |-> <<>>],
          [key |-> E(SOs, "quoted"), val |-> <<E(SPlain, "quoted")>>]>>}
CId == {[k |-> "ID", nil |-> TRUE, params |-> <<>>]} \cup {[k |-> "ID", nil |-> FALSE, params |-> p] : p \in IdParamLists}

AllCmds == CSimple \cup CLogin \cup CMailbox \cup CRename \cup CList \cup CStatus \cup CAppend
           \cup CCopyMove \cup CCopyFull \cup CUidExpunge \cup CStore \cup CFetch \cup CSearch \cup CId

\* the tag is data (1*<any ASTRING-CHAR except "+">); one per keyword case keeps the product small
TagOf(kc) == CASE kc = "upper" -> "A001" [] kc = "lower" -> "a.b-1" [] kc = "mixed" -> "x]Y_2" [] OTHER -> "9#:z~"

WellFormedCmd(c) ==
  CASE c.k = "STORE" -> (~c.paren => Len(c.flags) > 0)       \* a bare flag sequence has at least one flag
    [] c.k = "APPEND" -> (~c.hasflags => Len(c.flags) = 0)
    [] OTHER -> TRUE

AllCases == {[cmd |-> c, kc |-> kc, tag |-> IF c.k = "DONE" THEN "" ELSE TagOf(kc)] :
               c \in {x \in AllCmds : WellFormedCmd(x)}, kc \in KeywordCases}

-----------------------------------------------------------------------------
(* The denotation: what the parser must deliver *)
Expected(c) ==
  CASE c.k \in SimpleKinds  -> [k |-> c.k]
    [] c.k = "LOGIN"        -> [k |-> c.k, user |-> St(c.user), pass |-> St(c.pass)]
    [] c.k \in MailboxKinds -> [k |-> c.k, mbox |-> Mb(c.mbox)]
    [] c.k = "RENAME"       -> [k |-> c.k, mbox |-> Mb(c.mbox), to |-> Mb(c.to)]
    [] c.k \in {"LIST", "LSUB"} -> [k |-> c.k, mbox |-> Mb(c.mbox), pat |-> St(c.pat)]
    [] c.k = "STATUS"       -> [k |-> c.k, mbox |-> Mb(c.mbox), satts |-> c.satts]
    [] c.k = "APPEND"       -> [k |-> c.k, mbox |-> Mb(c.mbox), flags |-> c.flags,
                                dt |-> [i \in 1..Len(c.dt) |-> ExpDT(c.dt[i])], lit |-> St(c.lit)]
    [] c.k \in {"COPY", "MOVE"} -> [k |-> c.k, uid |-> c.uid, set |-> ExpSet(c.set), mbox |-> Mb(c.mbox)]
    [] c.k = "UIDEXPUNGE"   -> [k |-> c.k, set |-> ExpSet(c.set)]
    [] c.k = "STORE"        -> [k |-> c.k, uid |-> c.uid, set |-> ExpSet(c.set), act |-> c.act, silent |-> c.silent, flags |-> c.flags]
    [] c.k = "FETCH"        -> [k |-> c.k, uid |-> c.uid, set |-> ExpSet(c.set), atts |-> [i \in 1..Len(c.atts) |-> ExpAtt(c.atts[i])]]
    [] c.k = "SEARCH"       -> [k |-> c.k, uid |-> c.uid, charset |-> [i \in 1..Len(c.charset) |-> St(c.charset[i])],
                                keys |-> [i \in 1..Len(c.keys) |-> ExpKey(c.keys[i])]]
    [] c.k = "ID"           -> [k |-> c.k, nil |-> c.nil,
                                params |-> [i \in 1..Len(c.params) |->
                                   [key |-> St(c.params[i].key),
                                    val |-> IF Len(c.params[i].val) = 0 THEN Txt("") ELSE St(c.params[i].val[1])]]]

Init == case \in AllCases
Next == UNCHANGED vars          \* every case is an initial state
Spec == Init /\ [][Next]_vars

PrintCase ==
  Emit => PrintT(ToJson([tag |-> case.tag, kc |-> case.kc, cmd |-> case.cmd, exp |-> Expected(case.cmd)]))

-----------------------------------------------------------------------------
(* Design checks on every case: an independent recogniser of the side      *)
(* conditions of the grammar, and admissibility of every encoding choice.  *)

Seq2Set(s) == {s[i] : i \in 1..Len(s)}

OkNum(x) == x.k \in {"n", "star", "max32"} /\ (x.k = "n" => x.v >= 1)      \* seq-number = nz-number / "*"
OkSet(s) == Len(s) >= 1 /\ \A i \in 1..Len(s) : OkNum(s[i].a) /\ OkNum(s[i].b) /\ (s[i].single => s[i].a = s[i].b)

\* arity of every search key kind: <<strings, dates, numbers, sets, min sub, max sub>>
Arity(k) == CASE k \in NullaryKeys -> <<0, 0, 0, 0, 0, 0>>
              [] k \in StringKeys  -> <<1, 0, 0, 0, 0, 0>>
              [] k \in FlagKeys    -> <<1, 0, 0, 0, 0, 0>>
              [] k = "HEADER"      -> <<2, 0, 0, 0, 0, 0>>
              [] k \in DateKeys    -> <<0, 1, 0, 0, 0, 0>>
              [] k \in NumKeys     -> <<0, 0, 1, 0, 0, 0>>
              [] k \in {"UID", "SEQ"} -> <<0, 0, 0, 1, 0, 0>>
              [] k = "NOT"         -> <<0, 0, 0, 0, 1, 1>>
              [] k = "OR"          -> <<0, 0, 0, 0, 2, 2>>
              [] k = "LIST"        -> <<0, 0, 0, 0, 1, 99>>

RECURSIVE OkKey(_)
OkKey(x) == LET a == Arity(x.k) IN
  /\ x.k \in AllKeyKinds
  /\ Len(x.str) = a[1] /\ Len(x.date) = a[2] /\ Len(x.num) = a[3] /\ Len(x.set) = a[4]
  /\ Len(x.sub) >= a[5] /\ Len(x.sub) <= a[6]
  /\ \A i \in 1..Len(x.date) : ValidSDate(x.date[i])
  /\ \A i \in 1..Len(x.num) : x.num[i] >= 0
  /\ \A i \in 1..Len(x.set) : OkSet(x.set[i])
  /\ \A i \in 1..Len(x.sub) : OkKey(x.sub[i])

OkSecLeaf(x) == /\ x.sk \in {"HEADER", "TEXT", "MIME", "FIELDS", "NOTFIELDS"}
                /\ Len(x.path) = 0 /\ Len(x.sub) = 0
                /\ (x.sk \in {"FIELDS", "NOTFIELDS"} <=> Len(x.flds) >= 1)     \* header-list has at least one name
OkSec(x) == IF x.sk = "PART"
            THEN /\ Len(x.path) >= 1 /\ \A i \in 1..Len(x.path) : x.path[i] >= 1   \* nz-number
                 /\ Len(x.flds) = 0 /\ Len(x.sub) <= 1
                 /\ \A i \in 1..Len(x.sub) : OkSecLeaf(x.sub[i])
            ELSE OkSecLeaf(x) /\ x.sk # "MIME"                                  \* MIME only below a part
OkAtt(x) == IF x.a = "BODYSEC"
            THEN /\ Len(x.sec) <= 1 /\ \A i \in 1..Len(x.sec) : OkSec(x.sec[i])
                 /\ Len(x.part) <= 1 /\ \A i \in 1..Len(x.part) : x.part[i].off >= 0 /\ x.part[i].cnt >= 1
            ELSE x.a \in SimpleAttNames \cup MacroNames /\ ~x.peek /\ Len(x.sec) = 0 /\ Len(x.part) = 0

OkFlag(f) == f \notin {"\\Recent", "\\recent", "\\RECENT", ""}

WellFormed ==
  LET c == case.cmd IN
  /\ c.k \in AllKinds /\ case.kc \in {"upper", "lower", "mixed", "mixed2"}
  /\ (c.k = "DONE" <=> case.tag = "")
  /\ (c.k \in UidKinds => c.uid \in BOOLEAN)
  /\ (c.k \in {"COPY", "MOVE", "UIDEXPUNGE", "STORE", "FETCH"} => OkSet(c.set))
  /\ (c.k = "STATUS" => Len(c.satts) >= 1 /\ Seq2Set(c.satts) \subseteq Seq2Set(StatusAttNames))
  /\ (c.k = "STORE" => /\ c.act \in {"add", "rem", "set"} /\ (~c.paren => Len(c.flags) >= 1)
                       /\ \A i \in 1..Len(c.flags) : OkFlag(c.flags[i]))
  /\ (c.k = "APPEND" => /\ Len(c.dt) <= 1 /\ \A i \in 1..Len(c.dt) : ValidDT(c.dt[i])
                        /\ (Len(c.flags) > 0 => c.hasflags) /\ \A i \in 1..Len(c.flags) : OkFlag(c.flags[i])
                        /\ c.lit.e = "literal")
  /\ (c.k = "FETCH" => /\ Len(c.atts) >= 1 /\ \A i \in 1..Len(c.atts) : OkAtt(c.atts[i])
                       /\ (Len(c.atts) > 1 => c.paren)
                       \* the macros stand alone and are not parenthesised
                       /\ \A i \in 1..Len(c.atts) : c.atts[i].a \in MacroNames => (Len(c.atts) = 1 /\ ~c.paren))
  /\ (c.k = "SEARCH" => /\ Len(c.keys) >= 1 /\ Len(c.charset) <= 1
                        /\ \A i \in 1..Len(c.keys) : OkKey(c.keys[i]) /\ KeyDepth(c.keys[i]) <= SearchDepth)
  /\ (c.k = "ID" => /\ (c.nil => Len(c.params) = 0)
                    \* the AST is a map: the generator keeps the field names distinct
                    /\ \A i, j \in 1..Len(c.params) : i # j => St(c.params[i].key) # St(c.params[j].key)
                    /\ \A i \in 1..Len(c.params) : Len(c.params[i].val) <= 1)

\* every string leaf with the grammatical context it is written in
RECURSIVE KeyStrs(_)
KeyStrs(x) == {<<IF x.k \in FlagKeys THEN "atom" ELSE "astring", x.str[i]>> : i \in 1..Len(x.str)}
              \cup UNION {KeyStrs(x.sub[i]) : i \in 1..Len(x.sub)}
SecStrs(x) == {<<"astring", x.flds[i]>> : i \in 1..Len(x.flds)}
              \cup UNION {{<<"astring", x.sub[j].flds[i]>> : i \in 1..Len(x.sub[j].flds)} : j \in 1..Len(x.sub)}
StrsOf(c) ==
  CASE c.k = "LOGIN" -> {<<"astring", c.user>>, <<"astring", c.pass>>}
    [] c.k \in MailboxKinds \cup {"STATUS", "COPY", "MOVE"} -> {<<"astring", c.mbox>>}
    [] c.k = "APPEND" -> {<<"astring", c.mbox>>, <<"literalonly", c.lit>>}
    [] c.k = "RENAME" -> {<<"astring", c.mbox>>, <<"astring", c.to>>}
    [] c.k \in {"LIST", "LSUB"} -> {<<"astring", c.mbox>>, <<"listmb", c.pat>>}
    [] c.k = "FETCH" -> UNION {UNION {SecStrs(c.atts[i].sec[j]) : j \in 1..Len(c.atts[i].sec)} : i \in 1..Len(c.atts)}
    [] c.k = "SEARCH" -> {<<"astring", c.charset[i]>> : i \in 1..Len(c.charset)}
                         \cup UNION {KeyStrs(c.keys[i]) : i \in 1..Len(c.keys)}
    [] c.k = "ID" -> {<<"string", c.params[i].key>> : i \in 1..Len(c.params)}
                     \cup UNION {{<<"string", c.params[i].val[j]>> : j \in 1..Len(c.params[i].val)} : i \in 1..Len(c.params)}
    [] OTHER -> {}

ClassOf(x) == CHOOSE v \in AllValues : v.s = x.s /\ v.hi = x.hi
EncodingAdmissible ==
  \A p \in StrsOf(case.cmd) :
     IF p[1] = "literalonly" THEN p[2].e = "literal"
     ELSE /\ \E v \in AllValues : v.s = p[2].s /\ v.hi = p[2].hi
          /\ p[2].e \in Encs(p[1], ClassOf(p[2]))

\* the denotation keeps the kind and forgets every choice
ExpectedForgetsChoices ==
  LET c == case.cmd
      e == Expected(c)
  IN /\ e.k = c.k
     /\ (c.k \in MailboxKinds => (e.mbox.s = "INBOX" <=> c.mbox.s \in InboxTexts))
     /\ (c.k = "FETCH" => Len(e.atts) = Len(c.atts))
     /\ (c.k = "SEARCH" => Len(e.keys) = Len(c.keys) /\ \A i \in 1..Len(c.keys) : KeyKinds(e.keys[i]) = KeyKinds(c.keys[i]))
     /\ (c.k \in {"COPY", "MOVE", "UIDEXPUNGE", "STORE", "FETCH"} =>
           \A i \in 1..Len(c.set) : (e.set[i].a = e.set[i].b) <=> (c.set[i].single \/ c.set[i].a = c.set[i].b))

-----------------------------------------------------------------------------
(* Laws and coverage of the generator, checked once (constant level) *)

\* x and x:x denote the same range; nothing else is identified (the two ends are not reordered)
ASSUME SeqNumberIsDegenerateRange ==
  /\ \A x \in FullNums : ExpRange(One(x)) = ExpRange(Rng(x, x))
  /\ \A r1, r2 \in FullRanges : (ExpRange(r1) = ExpRange(r2)) <=> (r1.a = r2.a /\ r1.b = r2.b)

\* a zone is its offset: +0000 and -0000 coincide, nothing else does
ASSUME ZoneIsOffset ==
  \A t1, t2 \in DTZones : (ExpDT(t1).off = ExpDT(t2).off) <=> (t1.zs = t2.zs /\ t1.zh = t2.zh /\ t1.zm = t2.zm) \/ (t1.zh = 0 /\ t1.zm = 0 /\ t2.zh = 0 /\ t2.zm = 0)

AllSearchKeys == UNION {Seq2Set(c.keys) : c \in CSearch}
AllSections == UNION {UNION {Seq2Set(c.atts[i].sec) : i \in 1..Len(c.atts)} : c \in CFetch}
Enc3 == {"atom", "quoted", "literal"}
AllLeafEncs(S) == UNION {{p[2].e : p \in StrsOf(c)} : c \in S}

ASSUME CoverageComplete ==
  /\ {c.k : c \in AllCmds} = AllKinds
  /\ \A k \in UidKinds : \E c \in AllCmds : c.k = k /\ c.uid
  \* every search key kind at top level, and below NOT, OR and a list
  /\ {x.k : x \in AllSearchKeys} = AllKeyKinds
  /\ \A k \in AllKeyKinds \ {"OR", "LIST"} : \E x \in AllSearchKeys : x.k = "NOT" /\ x.sub[1].k = k
  /\ {"NOT", "OR", "LIST", "SEQ", "UID", "HEADER", "SINCE", "KEYWORD", "LARGER"} \subseteq UNION {KeyKinds(x) : x \in {y \in AllSearchKeys : y.k = "OR"}}
  /\ \E x \in AllSearchKeys : KeyDepth(x) = SearchDepth
  /\ \E c \in CSearch : Len(c.charset) = 1 /\ c.keys[1].k = "CC"
  /\ \E c \in CSearch : Len(c.charset) = 0 /\ c.keys[1].k = "CC"
  \* every month in a date and in a date-time
  /\ Rich => {d.mon : d \in SDates} = 1..12 /\ {t.mon : t \in DateTimes} = 1..12
  \* every section form, alone and below a part, with and without partial, PEEK or not
  /\ {x.sk : x \in AllSections} = {"HEADER", "TEXT", "FIELDS", "NOTFIELDS", "PART"}
  /\ {x.sub[1].sk : x \in {y \in AllSections : y.sk = "PART" /\ Len(y.sub) = 1}} = {"HEADER", "TEXT", "MIME", "FIELDS", "NOTFIELDS"}
  /\ \A sc \in Sections : \A pk \in BOOLEAN : \A pt \in Partials : Att("BODYSEC", pk, sc, pt) \in SecAtts
  /\ {c.atts[1].a : c \in CFetch} = SimpleAttNames \cup MacroNames \cup {"BODYSEC"}
  \* every STORE form
  /\ {<<c.act, c.silent>> : c \in CStore} = {"add", "rem", "set"} \X BOOLEAN
  /\ Seq2Set(StatusAttNames) = UNION {Seq2Set(c.satts) : c \in CStatus}
  \* all three encodings in every family that has strings
  /\ AllLeafEncs(CLogin) = Enc3 /\ AllLeafEncs(CMailbox) = Enc3 /\ AllLeafEncs(CRename) = Enc3 /\ AllLeafEncs(CList) = Enc3
  /\ AllLeafEncs(CStatus) = Enc3 /\ AllLeafEncs(CCopyMove) = Enc3 /\ AllLeafEncs(CFetch) = Enc3 /\ AllLeafEncs(CSearch) = Enc3
  /\ AllLeafEncs(CId) = {"quoted", "literal"}
  /\ \E c \in CAppend : Len(c.dt) = 0 /\ ~c.hasflags
  /\ \E c \in CAppend : Len(c.dt) = 1 /\ c.hasflags /\ Len(c.flags) = 0
=============================================================================
