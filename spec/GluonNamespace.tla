--------------------------- MODULE GluonNamespace ---------------------------
(***************************************************************************)
(* Mailbox namespace and LIST/LSUB (RFC 3501 6.3.3 - 6.3.9).  Property C14.*)
(*                                                                         *)
(* A mailbox name is a sequence of components; a component is a sequence   *)
(* of characters (one-character strings; "U+00E4" stands for the single    *)
(* non-ASCII character a-umlaut, "Recovered Messages" is kept as one       *)
(* token).  The hierarchy delimiter is the constant Delim.  What the       *)
(* client types is a *text* (sequence of characters): a name rendered with *)
(* the delimiter, possibly with a trailing / leading / doubled delimiter   *)
(* and possibly spelling INBOX in another case.                            *)
(*                                                                         *)
(* State: the set of existing mailboxes, the subscription list (a set of   *)
(* NAMES: a name stays on it when its mailbox is deleted - RFC 3501 6.3.9  *)
(* "MUST NOT unilaterally remove"), and which mailbox holds the one test   *)
(* message (RENAME of INBOX moves messages, RENAME of anything else keeps  *)
(* them with the mailbox).                                                 *)
(*                                                                         *)
(* LIST/LSUB is a function of that state, computed by the glob matcher     *)
(* Glob below ( * = anything, % = anything but the delimiter).             *)
(*                                                                         *)
(* Decisions of gluon the specification adopts (RFC 3501 leaves them open; *)
(* the property does not judge them):                                      *)
(*   G1 names beginning with the delimiter or containing two adjacent      *)
(*      delimiters are refused (NO); one trailing delimiter is trimmed;    *)
(*   G2 CREATE of any name starting with "recovered messages" (any case)   *)
(*      is NO; DELETE / RENAME from or to "Recovered Messages" is NO;      *)
(*   G3 new mailboxes (also implicitly created superiors) are subscribed;  *)
(*   G4 DELETE removes only that mailbox, inferiors stay and the name is   *)
(*      listed \Noselect while it has inferiors; DELETE of a name that is  *)
(*      only such a placeholder is NO;                                     *)
(*   G5 RENAME refuses an existing target and a target underneath the      *)
(*      source, creates missing superiors of the target, carries inferiors;*)
(*      the subscription of a mailbox travels with it (and replaces what   *)
(*      the subscription list said about the target name);                 *)
(*   G6 SUBSCRIBE needs an existing mailbox; SUBSCRIBE / UNSUBSCRIBE of a  *)
(*      name already in that state is NO;                                  *)
(*   G7 every name that is a superior of an existing mailbox and is not a  *)
(*      mailbox itself is listed by LIST as \Noselect (not only with a     *)
(*      trailing %); LSUB lists unsubscribed superiors (as \Noselect) only *)
(*      when the pattern ends in %  (RFC 3501 6.3.9); names on the         *)
(*      subscription list without a mailbox are listed \Noselect;          *)
(*   G8 LIST with an empty pattern answers (\Noselect) delimiter root,     *)
(*      where root = first level of the reference incl. delimiter, or ""   *)
(*      if the reference has no delimiter; LSUB "" "" is not judged;       *)
(*   G9 the first level "inbox" in any case is INBOX, also as the first    *)
(*      level of a deeper name and of a LIST pattern; deeper levels are    *)
(*      ordinary case-sensitive components;                                *)
(*   G10 connector updates: MailboxCreated creates just that mailbox       *)
(*      (subscribed, no superiors), MailboxUpdated renames just that       *)
(*      mailbox (no inferiors), MailboxDeleted deletes it and also takes   *)
(*      the name off the subscription list; an update that would produce a *)
(*      second mailbox with an existing name fails; updates that name the  *)
(*      recovery mailbox's id fail;                                        *)
(*   G11 the target of RENAME obeys the same name rules as CREATE (G1).    *)
(*                                                                         *)
(* Exhaustive configurations (Bounded = TRUE, NEXT Next) let TLC check the *)
(* invariants and action properties on the whole bounded space; the        *)
(* simulation configurations (NEXT SimNext, one per delimiter) print whole *)
(* behaviours (hist) with the expected reply of every command, the         *)
(* expected LIST "" "*" / LSUB "" "*" after every step, a few random       *)
(* queries per step and the table of all queries at the final state.       *)
(***************************************************************************)
EXTENDS Integers, Sequences, FiniteSets, TLC, Json, Randomization

CONSTANTS Delim,      \* the hierarchy delimiter, a one-character string
          Comps,      \* component ids the clients use in names
          RecComps,   \* {} or {"R", "r"}: spellings of the recovery mailbox (only as whole names)
          MaxDepth,   \* names typed by clients have 1..MaxDepth components
          MaxBoxes,   \* bound on mailboxes besides INBOX
          Limit,      \* the configured mailbox-count limit as a client counts (INBOX included, the hidden recovery
                      \* mailbox not: the server is configured with Limit + 1); 0 = no limit (C17)
          MaxDsub,    \* bound on names that are subscribed without a mailbox (exhaustive runs)
          Forms,      \* subset of {"plain", "trail", "lead", "dbl"}
          PatComps,   \* component ids used as literal tokens of LIST patterns
          MaxPat,     \* patterns have 0..MaxPat tokens
          RefComp,    \* references are "", RefComp, RefComp Delim
          Connector,  \* TRUE: connector updates are part of the behaviour
          Bounded,    \* TRUE: actions that would leave the bounds are disabled (exhaustive runs)
          Record,     \* TRUE: keep the behaviour in hist (simulation)
          MaxSteps,   \* length of a simulated behaviour
          QPerStep,   \* random queries per simulated step
          QFinal,     \* number of queries at the final state (>= all: every query)
          Modes       \* simulation: {"free"} or {"free", "steered"}; a steered behaviour never gives a new
                      \* mailbox a name that is subscribed without a mailbox and types RENAME targets plainly
                      \* (it walks around two known divergences of gluon so that it gets further)

\* cfg files do not process escapes in strings: the backslash delimiter is bound with  Delim <- DelimBackslash
DelimBackslash == "\\"

-----------------------------------------------------------------------------
(* characters *)

Chars(c) ==
  CASE c = "a"     -> <<"a">>
    [] c = "b"     -> <<"b">>
    [] c = "A"     -> <<"A">>      \* differs from "a" in letter case only (names are case-sensitive)
    [] c = "INBOX" -> <<"I", "N", "B", "O", "X">>
    [] c = "inbox" -> <<"i", "n", "b", "o", "x">>
    [] c = "Inbox" -> <<"I", "n", "b", "o", "x">>
    [] c = "U"     -> <<"U+00E4">>
    [] c = "a+b"   -> <<"a", "+", "b">>
    [] c = "x.y"   -> <<"x", ".", "y">>
    [] c = "[c]"   -> <<"[", "c", "]">>
    [] c = "(c"    -> <<"(", "c">>
    [] c = "R"     -> <<"Recovered Messages">>
    [] c = "r"     -> <<"recovered messages">>

ASSUME \A c \in Comps \cup PatComps \cup {RefComp} : \A i \in 1..Len(Chars(c)) : Chars(c)[i] # Delim

InboxVariants == {"INBOX", "inbox", "Inbox"}
InboxChars == Chars("INBOX")
Inbox == <<"INBOX">>
None == <<>>

Lower(ch) ==
  CASE ch = "I" -> "i" [] ch = "N" -> "n" [] ch = "B" -> "b" [] ch = "O" -> "o" [] ch = "X" -> "x"
    [] OTHER -> ch

FoldEq(s, t) == Len(s) = Len(t) /\ \A i \in 1..Len(s) : Lower(s[i]) = Lower(t[i])

RECURSIVE Flat(_)
Flat(n) == IF n = <<>> THEN <<>>
           ELSE Chars(n[1]) \o (IF Len(n) > 1 THEN <<Delim>> \o Flat(Tail(n)) ELSE <<>>)

-----------------------------------------------------------------------------
(* names *)

SeqsUpTo(S, k) == UNION {[1..j -> S] : j \in 1..k}
TypedNames == SeqsUpTo(Comps, MaxDepth) \cup {<<c>> : c \in RecComps}

Canon(n) == IF n # <<>> /\ n[1] \in InboxVariants THEN Inbox \o Tail(n) ELSE n
IsRec(n) == n # <<>> /\ n[1] \in {"R", "r"}
HasInboxVariant(n) == \E i \in 1..Len(n) : n[i] \in InboxVariants \ {"INBOX"} \/ (i > 1 /\ n[i] = "INBOX")

Supers(n) == {SubSeq(n, 1, k) : k \in 1..(Len(n) - 1)}
SupersOf(S) == UNION {Supers(n) : n \in S}
Inferiors(o, S) == {i \in S : o \in Supers(i)}
Moved(i, o, n) == n \o SubSeq(i, Len(o) + 1, Len(i))

\* what a client types: components + form
Raw(c, f) == [c |-> c, f |-> f]
Text(raw) ==
  LET fl == Flat(raw.c)
  IN CASE raw.f = "plain" -> fl
       [] raw.f = "trail" -> fl \o <<Delim>>
       [] raw.f = "lead"  -> <<Delim>> \o fl
       [] raw.f = "dbl"   -> IF Len(raw.c) >= 2 THEN Chars(raw.c[1]) \o <<Delim, Delim>> \o Flat(Tail(raw.c))
                             ELSE fl \o <<Delim, Delim>>
Arg(raw) == [t |-> Text(raw), f |-> raw.f, i |-> HasInboxVariant(raw.c), rec |-> raw.c # <<>> /\ raw.c[1] \in {"R", "r"}]

-----------------------------------------------------------------------------
VARIABLES boxes,   \* existing mailboxes (canonical names), INBOX included, the hidden recovery mailbox not
          subs,    \* the subscription list (names)
          holder,  \* the mailbox holding the test message, or None
          last,    \* the last step (hidden by the view)
          steps, hist,
          mode     \* simulation: "free" or "steered", fixed for the behaviour
vars == <<boxes, subs, holder, last, steps, hist, mode>>
view == <<boxes, subs, holder>>

-----------------------------------------------------------------------------
(* LIST / LSUB *)

RECURSIVE Glob(_, _)
Glob(p, s) ==
  IF p = <<>> THEN s = <<>>
  ELSE IF Head(p) = "*" THEN Glob(Tail(p), s) \/ (s # <<>> /\ Glob(p, Tail(s)))
  ELSE IF Head(p) = "%" THEN Glob(Tail(p), s) \/ (s # <<>> /\ Head(s) # Delim /\ Glob(p, Tail(s)))
  ELSE s # <<>> /\ Head(p) = Head(s) /\ Glob(Tail(p), Tail(s))

HasDelim(t) == \E i \in 1..Len(t) : t[i] = Delim
IdxDelim(t) == IF HasDelim(t) THEN CHOOSE i \in 1..Len(t) : t[i] = Delim /\ \A j \in 1..(i - 1) : t[j] # Delim
               ELSE Len(t) + 1
\* G9: the first level of the pattern, if it spells inbox, is INBOX
CanonPat(t) == IF FoldEq(SubSeq(t, 1, IdxDelim(t) - 1), InboxChars)
               THEN InboxChars \o SubSeq(t, IdxDelim(t), Len(t)) ELSE t
\* G8
Root(r) == IF HasDelim(r) THEN SubSeq(r, 1, IdxDelim(r)) ELSE <<>>

PatTokens == PatComps \cup {"%", "*", "D"}
TokChars(t) == IF t = "%" THEN <<"%">> ELSE IF t = "*" THEN <<"*">> ELSE IF t = "D" THEN <<Delim>> ELSE Chars(t)
RECURSIVE ToksChars(_)
ToksChars(ts) == IF ts = <<>> THEN <<>> ELSE TokChars(Head(ts)) \o ToksChars(Tail(ts))

Refs == {<<>>, <<RefComp>>, <<RefComp, "D">>}
Pats == UNION {[1..k -> PatTokens] : k \in 0..MaxPat}
AllQueries == [ref : Refs, pat : Pats, lsub : BOOLEAN]

Entry(n, ns) == [name |-> Flat(n), nosel |-> ns]

\* the listing as a function of (existing, subscribed, reference text, pattern text, lsub)
ListingOf(B, S, r, p, lsub) ==
  IF p = <<>> THEN (IF lsub THEN {} ELSE {[name |-> Root(r), nosel |-> TRUE]})
  ELSE LET P    == CanonPat(r \o p)
           base == IF lsub THEN S ELSE B
           sup  == SupersOf(base) \ base
           own  == {Entry(n, n \notin B) : n \in {m \in base : Glob(P, Flat(m))}}
           par  == IF lsub /\ p[Len(p)] # "%" THEN {}
                   ELSE {Entry(n, TRUE) : n \in {m \in sup : Glob(P, Flat(m))}}
       IN own \cup par

Listing(B, S, q) == ListingOf(B, S, ToksChars(q.ref), ToksChars(q.pat), q.lsub)

QueryClass(q) ==
  IF q.pat = <<>> THEN "empty"
  ELSE IF \E i \in 1..Len(q.pat) : q.pat[i] \in {"%", "*"} THEN "wild" ELSE "literal"
QueryInbox(q) == \E i \in 1..Len(q.pat) : q.pat[i] \in InboxVariants

QueryResult(B, S, q) ==
  [ref |-> ToksChars(q.ref), pat |-> ToksChars(q.pat), lsub |-> q.lsub,
   exp |-> Listing(B, S, q), judged |-> ~(q.lsub /\ q.pat = <<>>),
   cls |-> QueryClass(q), inbox |-> QueryInbox(q)]

ListAll(B, S) == ListingOf(B, S, <<>>, <<"*">>, FALSE)
LsubAll(B, S) == ListingOf(B, S, <<>>, <<"*">>, TRUE)

-----------------------------------------------------------------------------
(* steps *)

NoConn == [target |-> <<>>, comps |-> <<>>, rec |-> FALSE]

Rec(act, s, args, status, created, moved, removed, conn) ==
  [act |-> act, s |-> s, args |-> args, status |-> status,
   created |-> {Flat(n) : n \in created},
   moved |-> {<<Flat(m[1]), Flat(m[2])>> : m \in moved},
   removed |-> {Flat(n) : n \in removed}, conn |-> conn]

WithinBounds(B) == ~Bounded \/ (Cardinality(B) <= MaxBoxes + 1 /\ \A n \in B : Len(n) <= MaxDepth)
DsubWithinBounds(B, S) == ~Bounded \/ Cardinality(S \ B) <= MaxDsub

\* C17: an operation that would leave more than Limit mailboxes - counting every mailbox it creates, implicit
\* parents included - is refused as a whole
OverLimit(B) == Limit > 0 /\ Cardinality(B) > Limit

Refuse(act, s, args, status, conn) ==
  /\ last' = Rec(act, s, args, status, {}, {}, {}, conn)
  /\ UNCHANGED <<boxes, subs, holder>>

\* CREATE ------------------------------------------------------------------
CreateOk(raw) ==
  /\ raw.f \in {"plain", "trail"}       \* G1
  /\ ~IsRec(raw.c)                       \* G2
  /\ Canon(raw.c) \notin boxes           \* includes INBOX in any case

Create(s, raw) ==
  LET n   == Canon(raw.c)
      new == ({n} \cup Supers(n)) \ boxes
  IN IF CreateOk(raw) /\ ~OverLimit(boxes \cup new)
     THEN /\ WithinBounds(boxes \cup new)
          /\ boxes' = boxes \cup new
          /\ subs' = subs \cup new          \* G3
          /\ UNCHANGED holder
          /\ last' = Rec("CREATE", s, <<Arg(raw)>>, "OK", new, {}, {}, NoConn)
     ELSE Refuse("CREATE", s, <<Arg(raw)>>, "NO", NoConn)

\* DELETE ------------------------------------------------------------------
Delete(s, raw) ==
  LET n == Canon(raw.c)
  IN IF raw.f = "plain" /\ ~IsRec(raw.c) /\ n # Inbox /\ n \in boxes
     THEN /\ DsubWithinBounds(boxes \ {n}, subs)
          /\ boxes' = boxes \ {n}           \* G4
          /\ UNCHANGED subs                 \* stays on the subscription list
          /\ holder' = IF holder = n THEN None ELSE holder
          /\ last' = Rec("DELETE", s, <<Arg(raw)>>, "OK", {}, {}, {n}, NoConn)
     ELSE Refuse("DELETE", s, <<Arg(raw)>>, "NO", NoConn)

\* RENAME ------------------------------------------------------------------
RenameOk(src, dst) ==
  LET o == Canon(src.c)
      n == Canon(dst.c)
  IN /\ src.f = "plain"
     /\ dst.f \in {"plain", "trail"}        \* G11
     /\ ~IsRec(src.c) /\ ~IsRec(dst.c)      \* G2
     /\ o \in boxes
     /\ n \notin boxes
     /\ o \notin Supers(n)                  \* onto its own inferior
     \* names stay unique (a carried inferior may take a name that the rename itself vacates)
     /\ (o # Inbox => \A i \in Inferiors(o, boxes) : Moved(i, o, n) \notin (boxes \ ({o} \cup Inferiors(o, boxes))))

\* the mailboxes there are after the rename (INBOX: a new mailbox takes the messages; others: carried inferiors,
\* created superiors)
RenameBoxes(o, n) ==
  IF o = Inbox THEN boxes \cup {n} \cup Supers(n)
  ELSE LET olds == {o} \cup Inferiors(o, boxes)
       IN (boxes \ olds) \cup {Moved(i, o, n) : i \in olds} \cup Supers(n)

Rename(s, src, dst) ==
  LET o    == Canon(src.c)
      n    == Canon(dst.c)
      args == <<Arg(src), Arg(dst)>>
  IN IF RenameOk(src, dst) /\ ~OverLimit(RenameBoxes(o, n))
     THEN IF o = Inbox
          THEN LET new == ({n} \cup Supers(n)) \ boxes
               IN /\ WithinBounds(boxes \cup new)
                  /\ boxes' = boxes \cup new          \* INBOX stays, its inferiors are unaffected
                  /\ subs' = subs \cup new
                  /\ holder' = IF holder = Inbox THEN n ELSE holder     \* the messages move
                  /\ last' = Rec("RENAME", s, args, "OK", new, {}, {}, NoConn)
          ELSE LET olds == {o} \cup Inferiors(o, boxes)
                   mv   == {<<i, Moved(i, o, n)>> : i \in olds}
                   news == {m[2] : m \in mv}
                   par  == Supers(n) \ boxes
                   B2   == (boxes \ olds) \cup news \cup par
               IN /\ WithinBounds(B2)
                  /\ boxes' = B2
                  \* the subscription travels with the mailbox and replaces what the target name had
                  /\ subs' = ((subs \ olds) \ news) \cup {m[2] : m \in {x \in mv : x[1] \in subs}} \cup par
                  /\ holder' = IF holder \in olds THEN Moved(holder, o, n) ELSE holder
                  /\ last' = Rec("RENAME", s, args, "OK", par, mv, {}, NoConn)
     ELSE Refuse("RENAME", s, args, "NO", NoConn)

\* SUBSCRIBE / UNSUBSCRIBE -------------------------------------------------
Subscribe(s, raw) ==
  LET n == Canon(raw.c)
  IN IF raw.f = "plain" /\ n \in boxes /\ n \notin subs        \* G6
     THEN /\ subs' = subs \cup {n}
          /\ UNCHANGED <<boxes, holder>>
          /\ last' = Rec("SUBSCRIBE", s, <<Arg(raw)>>, "OK", {}, {}, {}, NoConn)
     ELSE Refuse("SUBSCRIBE", s, <<Arg(raw)>>, "NO", NoConn)

Unsubscribe(s, raw) ==
  LET n == Canon(raw.c)
  IN IF raw.f = "plain" /\ n \in subs
     THEN /\ subs' = subs \ {n}
          /\ UNCHANGED <<boxes, holder>>
          /\ last' = Rec("UNSUBSCRIBE", s, <<Arg(raw)>>, "OK", {}, {}, {}, NoConn)
     ELSE Refuse("UNSUBSCRIBE", s, <<Arg(raw)>>, "NO", NoConn)

\* APPEND of the test message to INBOX once it is gone ------------------------
Refill(s) ==
  /\ holder = None
  /\ holder' = Inbox
  /\ UNCHANGED <<boxes, subs>>
  /\ last' = Rec("APPEND", s, <<>>, "OK", {}, {}, {}, NoConn)

\* connector updates (G10) ---------------------------------------------------
CompsChars(n) == [i \in 1..Len(n) |-> Chars(n[i])]
Conn(t, n, rec) == [target |-> Flat(t), comps |-> CompsChars(n), rec |-> rec, more |-> <<>>]
ConnMany(ns) == [target |-> Flat(<<>>), comps |-> CompsChars(ns[1]), rec |-> FALSE,
                 more |-> [i \in 1..(Len(ns) - 1) |-> CompsChars(ns[i + 1])]]

ConnCreate(n) ==
  IF Canon(n) \notin boxes /\ ~OverLimit(boxes \cup {n})
  THEN /\ WithinBounds(boxes \cup {n})
       /\ boxes' = boxes \cup {n}
       /\ subs' = subs \cup {n}
       /\ UNCHANGED holder
       /\ last' = Rec("MailboxCreated", 0, <<>>, "ok", {n}, {}, {}, Conn(<<>>, n, FALSE))
  ELSE Refuse("MailboxCreated", 0, <<>>, "err", Conn(<<>>, n, FALSE))

\* connector.IMAPState.Write: the connector itself creates the mailboxes ns in ONE write transaction (one
\* IMAPStateWrite.CreateMailbox per name, connector_state_write.go) - all or nothing against the mailbox-count limit
ConnStateWrite(ns) ==
  LET new == {ns[i] : i \in 1..Len(ns)} IN
  /\ Len(ns) \in 1..2 /\ Cardinality(new) = Len(ns)
  /\ \A n \in new : Canon(n) \notin boxes /\ n[1] \notin InboxVariants
  /\ IF ~OverLimit(boxes \cup new)
     THEN /\ WithinBounds(boxes \cup new)
          /\ boxes' = boxes \cup new
          /\ subs' = subs \cup new
          /\ UNCHANGED holder
          /\ last' = Rec("StateWrite", 0, <<>>, "ok", new, {}, {}, ConnMany(ns))
     ELSE Refuse("StateWrite", 0, <<>>, "err", ConnMany(ns))

\* t: an existing mailbox other than INBOX; or INBOX re-announced in another case (no change)
ConnUpdate(t, n) ==
  IF t = Inbox
  THEN /\ n \in {<<c>> : c \in InboxVariants}
       /\ Refuse("MailboxUpdated", 0, <<>>, "ok", Conn(t, n, FALSE))
  ELSE IF n = t
       THEN Refuse("MailboxUpdated", 0, <<>>, "ok", Conn(t, n, FALSE))
       ELSE IF Canon(n) \in boxes
            THEN Refuse("MailboxUpdated", 0, <<>>, "err", Conn(t, n, FALSE))
            ELSE /\ WithinBounds((boxes \ {t}) \cup {n})
                 /\ boxes' = (boxes \ {t}) \cup {n}
                 /\ subs' = IF t \in subs THEN (subs \ {t}) \cup {n} ELSE subs \ {n}
                 /\ holder' = IF holder = t THEN n ELSE holder
                 /\ last' = Rec("MailboxUpdated", 0, <<>>, "ok", {}, {<<t, n>>}, {}, Conn(t, n, FALSE))

ConnDelete(t) ==
  /\ t \in boxes \ {Inbox}
  /\ boxes' = boxes \ {t}
  /\ subs' = subs \ {t}
  /\ holder' = IF holder = t THEN None ELSE holder
  /\ last' = Rec("MailboxDeleted", 0, <<>>, "ok", {}, {}, {t}, Conn(t, <<>>, FALSE))

\* updates naming the id of the recovery mailbox are refused
ConnRecovery(kind, n) == Refuse(kind, 0, <<>>, "err", Conn(<<>>, n, TRUE))

-----------------------------------------------------------------------------
Init ==
  /\ boxes = {Inbox}
  /\ subs = {Inbox}
  /\ holder = Inbox
  /\ last = Rec("init", 0, <<>>, "OK", {}, {}, {}, NoConn)
  /\ steps = 0
  /\ hist = <<>>
  /\ mode \in Modes

Sessions == {1, 2}
RawNames == {Raw(c, f) : c \in TypedNames, f \in Forms}
PlainNames == {Raw(c, "plain") : c \in TypedNames}
\* the connector does not spell the first level "inbox" except to re-announce / duplicate INBOX itself
ConnNames == {n \in SeqsUpTo(Comps, MaxDepth) : n[1] \notin InboxVariants} \cup {<<c>> : c \in InboxVariants \cap Comps}

ClientStep ==
  \/ \E s \in Sessions, r \in RawNames : Create(s, r)
  \/ \E s \in Sessions, r \in RawNames : Delete(s, r)
  \/ \E s \in Sessions, r \in PlainNames, d \in RawNames : Rename(s, r, d)
  \* (UN)SUBSCRIBE of the recovery mailbox is not judged by the property
  \/ \E s \in Sessions, r \in RawNames : ~IsRec(r.c) /\ Subscribe(s, r)
  \/ \E s \in Sessions, r \in RawNames : ~IsRec(r.c) /\ Unsubscribe(s, r)
  \/ \E s \in Sessions : Refill(s)

ConnStep ==
  /\ Connector
  /\ \/ \E n \in ConnNames : ConnCreate(n)
     \/ \E t \in boxes, n \in ConnNames : ConnUpdate(t, n)
     \/ \E t \in boxes : ConnDelete(t)
     \/ \E n \in ConnNames : ConnStateWrite(<<n>>)
     \/ \E n, m \in ConnNames : ConnStateWrite(<<n, m>>)
     \/ \E k \in {"MailboxCreated", "MailboxUpdated", "MailboxDeleted"} : ConnRecovery(k, <<"a">>)

Free == ClientStep \/ ConnStep

-----------------------------------------------------------------------------
(* simulation: one weighted random step *)

\* the sets below depend on the state on purpose: TLC must not enumerate them when it splits the
\* next-state relation into actions at start-up (the random choice would be made once for the run)
Pick(S) == RandomElement({x \in S : steps >= 0})

Kinds == <<"create", "create", "create", "create", "delete", "delete", "rename", "rename", "rename",
           "sub", "unsub", "unsub", "append">>
       \o (IF Connector THEN <<"ccreate", "ccreate", "cupdate", "cupdate", "cdelete", "crec", "cwrite", "cwrite">> ELSE <<>>)
KindSet == {<<i, Kinds[i]>> : i \in 1..Len(Kinds)}

\* names close to what exists: existing ones, subscribed ones, their children, their placeholders
\* the same name in the other letter case (components "a" / "A"): a rename that only changes the case is a rename
CaseSwapComp(c) == IF c = "a" /\ "A" \in Comps THEN "A" ELSE IF c = "A" /\ "a" \in Comps THEN "a" ELSE c
CaseSwap(n) == [i \in 1..Len(n) |-> CaseSwapComp(n[i])]
Near == boxes \cup subs \cup SupersOf(boxes) \cup {CaseSwap(n) : n \in boxes}
         \cup {Append(n, c) : n \in {m \in boxes : Len(m) < MaxDepth}, c \in Comps}
         \cup {<<c>> : c \in Comps}
\* spellings of a canonical name as a client may type it (first level inbox in other cases)
Spell(n) == IF n # <<>> /\ n[1] = "INBOX" /\ (InboxVariants \cap Comps) # {}
            THEN <<Pick(InboxVariants \cap Comps)>> \o Tail(n) ELSE n
PickTyped == IF Pick(1..4) = 1 THEN Pick(TypedNames) ELSE Spell(Pick(Near))
PickForm == IF Pick(1..6) = 1 THEN Pick(Forms) ELSE "plain"
PickExisting == IF Pick(1..5) = 1 THEN PickTyped ELSE Spell(Pick(boxes \cup subs))
PickConnName == IF Pick(1..3) = 1 THEN Pick(ConnNames) ELSE Pick({n \in Near : n \in ConnNames} \cup {<<c>> : c \in Comps})

\* steering: the names a step would newly give to mailboxes
Stale == subs \ boxes
CreateNews(c) == ({Canon(c)} \cup Supers(Canon(c))) \ boxes
RenameNews(c, d) ==
  LET o == Canon(c)
      n == Canon(d)
  IN IF o = Inbox THEN CreateNews(d)
     ELSE {Moved(i, o, n) : i \in {o} \cup Inferiors(o, boxes)} \cup (Supers(n) \ boxes)
Steered == mode = "steered"
\* mode "stalehit" steers the other way: whenever a RENAME exists that lands an INFERIOR of the renamed mailbox on a name that
\* is deleted but still subscribed, it is taken (the entry of that name has to go whichever code path gives the name away)
StalePrefixes == UNION {{SubSeq(st, 1, k) : k \in 1..(Len(st) - 1)} : st \in Stale}
HitPairs == {pr \in (boxes \ {Inbox}) \X StalePrefixes :
               pr[2] \notin boxes /\ \E i \in Inferiors(pr[1], boxes) : Moved(i, pr[1], pr[2]) \in Stale}
\* instead of the risky step a steered behaviour takes the stale name off the subscription list
Clean(s, news) == \E n \in {Pick(news \cap Stale)} : Unsubscribe(s, Raw(n, "plain"))

SimStep(k) ==
  \E s \in {Pick(Sessions)} :
    CASE k = "create"  -> \E c \in {PickTyped}, f \in {PickForm} :
                            IF Steered /\ CreateNews(c) \cap Stale # {} THEN Clean(s, CreateNews(c)) ELSE Create(s, Raw(c, f))
      [] k = "delete"  -> \E c \in {PickExisting}, f \in {PickForm} : Delete(s, Raw(c, f))
      [] k = "rename"  -> \E c \in {PickExisting}, d \in {PickTyped}, f \in {PickForm} :
                            IF mode = "stalehit" /\ HitPairs # {}
                            THEN \E pr \in {Pick(HitPairs)} : Rename(s, Raw(pr[1], "plain"), Raw(pr[2], "plain"))
                            ELSE IF Steered
                            THEN IF RenameNews(c, d) \cap Stale # {} THEN Clean(s, RenameNews(c, d))
                                 ELSE Rename(s, Raw(c, "plain"), Raw(d, "plain"))
                            ELSE Rename(s, Raw(c, "plain"), Raw(d, f))
      [] k = "sub"     -> \E c \in {PickExisting}, f \in {PickForm} :
                            IF IsRec(c) THEN Create(s, Raw(c, f)) ELSE Subscribe(s, Raw(c, f))
      [] k = "unsub"   -> \E c \in {PickExisting}, f \in {PickForm} :
                            IF IsRec(c) THEN Delete(s, Raw(c, f)) ELSE Unsubscribe(s, Raw(c, f))
      [] k = "append"  -> IF holder = None THEN Refill(s)
                          ELSE \E c \in {PickTyped} :
                                 IF Steered /\ CreateNews(c) \cap Stale # {} THEN Clean(s, CreateNews(c)) ELSE Create(s, Raw(c, "plain"))
      [] k = "ccreate" -> \E n \in {PickConnName} : IF Steered /\ n \in Stale THEN Clean(s, {n}) ELSE ConnCreate(n)
      [] k = "cwrite"  -> \E n \in {PickConnName}, m \in {Pick(ConnNames)}, two \in {Pick(1..2)} :
                            LET ns == IF two = 2 /\ m # n THEN <<n, m>> ELSE <<n>>
                                new == {ns[i] : i \in 1..Len(ns)}
                            IN IF Steered /\ new \cap Stale # {} THEN Clean(s, new)
                               ELSE IF \A x \in new : Canon(x) \notin boxes /\ x[1] \notin InboxVariants
                                    THEN ConnStateWrite(ns)
                                    ELSE ConnRecovery("MailboxCreated", <<"a">>)
      [] k = "cupdate" -> \E sw \in {Pick(1..3)}, n0 \in {PickConnName} :
                          \* every third connector rename only changes the letter case of a name (when there is such a mailbox)
                          LET swappable == {b \in boxes \ {Inbox} : CaseSwap(b) # b /\ CaseSwap(b) \in ConnNames} IN
                          \E t \in {IF sw = 1 /\ swappable # {} THEN Pick(swappable) ELSE Pick(boxes)} :
                            LET n == IF sw = 1 /\ t \in swappable THEN CaseSwap(t) ELSE n0 IN
                            IF t = Inbox THEN ConnUpdate(t, <<Pick(InboxVariants)>>)
                            ELSE IF Steered /\ n \in Stale THEN Clean(s, {n}) ELSE ConnUpdate(t, n)
      [] k = "cdelete" -> IF boxes = {Inbox} THEN Refuse("MailboxDeleted", 0, <<>>, "err", Conn(<<>>, <<"a">>, TRUE))
                          ELSE \E t \in {Pick(boxes \ {Inbox})} : ConnDelete(t)
      [] k = "crec"    -> \E kd \in {Pick({"MailboxCreated", "MailboxUpdated", "MailboxDeleted"})} : ConnRecovery(kd, <<"a">>)

\* when there are too many mailboxes the walk deletes one
SimFree ==
  IF Cardinality(boxes) > MaxBoxes + 1
  THEN \E t \in {Pick(boxes \ {Inbox})} : Delete(1, Raw(t, "plain"))
  ELSE \E k \in {Pick(KindSet)} : SimStep(k[2])

StepRecord ==
  [act |-> last'.act, s |-> last'.s, args |-> last'.args, status |-> last'.status,
   created |-> last'.created, moved |-> last'.moved, removed |-> last'.removed, conn |-> last'.conn,
   list |-> ListAll(boxes', subs'), lsub |-> LsubAll(boxes', subs'),
   boxes |-> {Flat(n) : n \in boxes'}, holder |-> Flat(holder'),
   qs |-> {QueryResult(boxes', subs', q) : q \in RandomSubset(QPerStep, AllQueries)}]

Keep == IF Record THEN hist' = Append(hist, StepRecord) ELSE hist' = hist

Next == Free /\ steps' = steps /\ Keep /\ UNCHANGED mode
SimNext == steps < MaxSteps /\ SimFree /\ steps' = steps + 1 /\ Keep /\ UNCHANGED mode

Spec == Init /\ [][Next]_vars

FinalQueries == IF QFinal >= Cardinality(AllQueries) THEN AllQueries ELSE RandomSubset(QFinal, AllQueries)

\* simulation: print the behaviour when it is complete (used as an "invariant")
EmitBehaviour ==
  (Record /\ steps >= MaxSteps) =>
     PrintT(ToJson([mode |-> mode, trace |-> hist, final |-> {QueryResult(boxes, subs, q) : q \in FinalQueries}]))

-----------------------------------------------------------------------------
(* invariants *)

TypeOK == /\ \A n \in boxes \cup subs : n # <<>>
          /\ holder = None \/ holder \in boxes

InboxExists == Inbox \in boxes
\* C17: the number of mailboxes never exceeds the configured maximum
WithinBoxLimit == Limit = 0 \/ Cardinality(boxes) <= Limit

\* names are unique also under the case-insensitivity of INBOX: nothing else spells the first level "inbox"
NamesUnique == \A n \in boxes \cup subs : Canon(n) = n

\* every level of hierarchy above a mailbox is a mailbox or listed as a \Noselect placeholder
SuperiorsListed ==
  \A n \in boxes : \A s \in Supers(n) : s \in boxes \/ Entry(s, TRUE) \in ListAll(boxes, subs)

\* the recovery mailbox is not in the client-visible namespace
RecoveryHidden == \A n \in boxes \cup subs : ~IsRec(n)

\* LIST "" "*" lists exactly the mailboxes and their placeholders, each once
StarListsAll ==
  /\ {e.name : e \in ListAll(boxes, subs)} = {Flat(n) : n \in boxes \cup SupersOf(boxes)}
  /\ \A e \in ListAll(boxes, subs) : e.nosel <=> (e.name \notin {Flat(n) : n \in boxes})
  /\ Cardinality(ListAll(boxes, subs)) = Cardinality(boxes \cup SupersOf(boxes))

\* LSUB "" "*" lists exactly the subscription list, \Noselect where the mailbox is gone
LsubStarIsSubs == LsubAll(boxes, subs) = {Entry(n, n \notin boxes) : n \in subs}

\* laws of the matcher, checked on every query in every state
MatcherLaws ==
  \A q \in AllQueries :
    LET r == Listing(boxes, subs, q)
        names == {e.name : e \in r}
        univ == IF q.lsub THEN {Flat(n) : n \in subs \cup SupersOf(subs)} ELSE {Flat(n) : n \in boxes \cup SupersOf(boxes)}
    IN q.pat # <<>> =>
         /\ names \subseteq univ
         /\ Cardinality(names) = Cardinality(r)                         \* one line per name
         \* a pattern without * that has k delimiters only lists names with exactly k delimiters
         /\ (\A i \in 1..Len(q.pat) : q.pat[i] # "*") =>
               \A nm \in names : Cardinality({i \in 1..Len(nm) : nm[i] = Delim})
                                  = Cardinality({i \in 1..Len(ToksChars(q.ref) \o ToksChars(q.pat)) : (ToksChars(q.ref) \o ToksChars(q.pat))[i] = Delim})
         \* replacing % by * never loses a name
         /\ LET q2 == [q EXCEPT !.pat = [i \in 1..Len(q.pat) |-> IF q.pat[i] = "%" THEN "*" ELSE q.pat[i]]]
            IN (~q.lsub) => names \subseteq {e.name : e \in Listing(boxes, subs, q2)}
         \* LSUB never lists more names than LIST would over the subscription list taken as mailboxes
         /\ q.lsub => names \subseteq {e.name : e \in ListingOf(subs, subs, ToksChars(q.ref), ToksChars(q.pat), FALSE)}

\* action properties ----------------------------------------------------------
\* a refused command changes nothing
FailedIsNoop == [][last'.status \in {"NO", "err"} => view' = view]_vars
\* clients never create, rename or delete the recovery mailbox, and INBOX never disappears
RecoveryProtected ==
  [][(\E i \in 1..Len(last'.args) : last'.args[i].rec) => (last'.status = "NO" /\ view' = view)]_vars
\* only MailboxDeleted and UNSUBSCRIBE shrink the subscription list
SubsStable == [][(subs \ subs' # {}) => last'.act \in {"UNSUBSCRIBE", "MailboxDeleted", "RENAME", "MailboxUpdated"}]_vars
\* RENAME (not of INBOX) keeps the number of mailboxes up to created superiors, and carries every inferior
RenameCarries ==
  [][(last'.act = "RENAME" /\ last'.status = "OK" /\ last'.moved # {}) =>
        /\ Cardinality(boxes') = Cardinality(boxes) + Cardinality(last'.created)
        /\ \A m \in last'.moved : m[2] \in {Flat(n) : n \in boxes'}]_vars
=============================================================================
