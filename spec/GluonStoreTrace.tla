--------------------------- MODULE GluonStoreTrace ---------------------------
(***************************************************************************)
(* Trace validation for the concurrent part of C09.                        *)
(*                                                                         *)
(* trace.ndjson is a recording of goroutines calling Get / Set / Delete /  *)
(* List of a real store.WriteControlledStore:                              *)
(*   {"e":"reset"}                         a new history (fresh store)     *)
(*   {"e":"start","p":g,"op":..,"id":..,"c":..}   call begins              *)
(*   {"e":"enter","p":g}  {"e":"exit","p":g}      the call is inside the   *)
(*                         wrapped store (behind the per-id lock)          *)
(*   {"e":"end","p":g,"st":..,"val":..}           call returned            *)
(* in the order of a global atomic counter.  TLC decides whether the       *)
(* history is a behaviour of GluonStore: every call takes effect as ONE    *)
(* atomic action of the KV layer (KVSet / KVGet / KVDelete) at some point  *)
(* between its enter and exit event (TLC chooses the point), and returns   *)
(* the reply the KV layer gives there.  MutualExclusion of the concurrency *)
(* layer is evaluated on the observed enter/exit events (TraceExclusion).  *)
(* List takes no lock and reads the directory while files come and go: it  *)
(* is not one atomic action.  What holds for it: an id it returns was      *)
(* stored at some moment while the call was inside the store, an id it     *)
(* does not return was absent at some such moment, and it returns nothing  *)
(* else ("ids" of its end event; an id nobody stores is not in TraceIds).  *)
(***************************************************************************)
EXTENDS GluonStore, IOUtils, TLCExt

CONSTANTS TraceProcs, TraceIds

TraceLog == ndJsonDeserialize("trace.ndjson")

VARIABLES l, pend, inside
traceVars == <<l, pend, inside>>

\* may / mayNot (List only): the ids seen present / absent at some moment while the call is inside the store
Idle == [op |-> "none", id |-> "", c |-> "", stage |-> "idle", st |-> "", val |-> "", may |-> {}, mayNot |-> {}]
Seen(pd, p, k) == IF pd[p].op = "List" /\ pd[p].stage = "inside"
                  THEN [pd[p] EXCEPT !.may = @ \cup Present(k), !.mayNot = @ \cup (TraceIds \ Present(k))] ELSE pd[p]

TraceInit ==
  /\ kv = [i \in TraceIds |-> Absent]
  /\ last = [op |-> "init", ids |-> <<>>, c |-> "", reply |-> Reply("ok", "", {})]
  /\ FileIdle /\ ConcIdle
  /\ l = 1
  /\ pend = [p \in TraceProcs |-> Idle]
  /\ inside = {}
  /\ TLCSet(1, 1)

Ev == TraceLog[l]
IsEvent(e) == l <= Len(TraceLog) /\ Ev.e = e /\ l' = l + 1
Frame == UNCHANGED <<fileVars, concVars>>

TReset ==
  /\ IsEvent("reset")
  /\ \A p \in TraceProcs : pend[p].stage = "idle"
  /\ kv' = [i \in TraceIds |-> Absent]
  /\ last' = last /\ pend' = pend /\ inside' = {}
  /\ Frame

TStart ==
  /\ IsEvent("start")
  /\ pend[Ev.p].stage = "idle"
  /\ pend' = [pend EXCEPT ![Ev.p] = [op |-> Ev.op, id |-> Ev.id, c |-> Ev.c, stage |-> "started", st |-> "", val |-> "", may |-> {}, mayNot |-> {}]]
  /\ UNCHANGED <<kv, last, inside>> /\ Frame

TEnter ==
  /\ IsEvent("enter")
  /\ pend[Ev.p].stage = "started"
  /\ pend' = [pend EXCEPT ![Ev.p].stage = "inside", ![Ev.p].may = Present(kv), ![Ev.p].mayNot = TraceIds \ Present(kv)]
  /\ inside' = inside \cup {Ev.p}
  /\ UNCHANGED <<kv, last>> /\ Frame

\* the call takes effect: one atomic action of the KV layer (not a logged event)
TLinearize(p) ==
  /\ l <= Len(TraceLog)
  /\ pend[p].stage = "inside" /\ pend[p].op # "List"
  /\ CASE pend[p].op = "Set"    -> KVSet(pend[p].id, pend[p].c, "Set")
       [] pend[p].op = "Get"    -> KVGet(pend[p].id)
       [] pend[p].op = "Delete" -> KVDelete(<<pend[p].id>>)
  \* every List that is inside the store right now may see the new state
  /\ pend' = [q \in TraceProcs |-> IF q = p THEN [pend[p] EXCEPT !.stage = "done", !.st = last'.reply.st, !.val = last'.reply.val]
                                   ELSE Seen(pend, q, kv')]
  /\ UNCHANGED <<l, inside>> /\ Frame

TExit ==
  /\ IsEvent("exit")
  /\ pend[Ev.p].stage = (IF pend[Ev.p].op = "List" THEN "inside" ELSE "done")
  /\ pend' = [pend EXCEPT ![Ev.p].stage = "left"]
  /\ inside' = inside \ {Ev.p}
  /\ UNCHANGED <<kv, last>> /\ Frame

\* the reply the caller saw is the reply of the KV layer
TEnd ==
  /\ IsEvent("end")
  /\ pend[Ev.p].stage = "left"
  /\ IF pend[Ev.p].op = "List"
     THEN LET listed == {Ev.ids[i] : i \in 1..Len(Ev.ids)} IN
          \* (a List that fails - the directory walk meets a file that a concurrent Delete has just removed - says nothing:
          \* the property does not quantify over List racing writers; a List that answers is held to what it answers)
          \/ Ev.st = "error"
          \/ /\ Ev.st = "ok"
             /\ listed \subseteq pend[Ev.p].may                      \* (an id outside TraceIds is in nobody's may)
             /\ (TraceIds \ listed) \subseteq pend[Ev.p].mayNot
     ELSE pend[Ev.p].st = Ev.st /\ pend[Ev.p].val = Ev.val
  /\ pend' = [pend EXCEPT ![Ev.p] = Idle]
  /\ UNCHANGED <<kv, last, inside>> /\ Frame

TraceNext ==
  \/ TReset \/ TStart \/ TEnter \/ TExit \/ TEnd
  \/ \E p \in TraceProcs : TLinearize(p)

TraceView == <<kv, pend, inside, l>>

TraceConstraint == IF l > TLCGet(1) THEN TLCSet(1, l) ELSE TRUE
\* POSTCONDITION: some interleaving of the linearization points consumed the whole log
TraceAccepted == TLCGet(1) = Len(TraceLog) + 1
\* printed at the end so that the harness knows how far the log could be followed
TraceReport == PrintT(ToJson([highwater |-> TLCGet(1), len |-> Len(TraceLog)])) /\ TraceAccepted

\* MutualExclusion of the concurrency layer, on what was observed: whoever is inside the wrapped
\* store together with somebody else on the same id is a reader, and so is the other one
TraceExclusion ==
  \A p \in inside, q \in inside :
     (p # q /\ pend[p].id = pend[q].id) => (pend[p].op = "Get" /\ pend[q].op = "Get")
=============================================================================
