---------------------------- MODULE GluonSession ----------------------------
(***************************************************************************)
(* IMAP sessions of a two-user server: protocol phases, the command by     *)
(* phase matrix, user isolation, the login jail (property C18) and the     *)
(* per-connection treatment of malformed input lines with the consecutive  *)
(* error counter (property C11).                                           *)
(*                                                                         *)
(* Users u1 and u2 have different passwords (p1, p2).  Both own a mailbox   *)
(* INBOX and an identically NAMED mailbox "shared" (different content; the  *)
(* harness marks every message with its owner), and may create "extra" and  *)
(* rename it to "moved".  The content of the mailboxes is not part of the   *)
(* state: a step says which components of which user MAY change (its        *)
(* effect class); everything else must be found unchanged by the harness.   *)
(*                                                                         *)
(* An input is a command class (a well-formed line, one fixed instance per  *)
(* class, rendered in several concrete spellings by the harness) or a       *)
(* malformed line class.  For every (state, input) the module gives the     *)
(* set of acceptable completion results, the tag the completion must carry, *)
(* whether the server closes the connection, the effect class and the next  *)
(* state.                                                                   *)
(*                                                                         *)
(* Two ways of use:                                                         *)
(*  Record = FALSE  the state graph is small; every explored transition is  *)
(*                  printed from the action constraint PrintStep and the    *)
(*                  harness covers every transition by a tour;              *)
(*  Record = TRUE   every input sequence of length MaxSteps is a behaviour; *)
(*                  the invariant EmitBehaviour prints each maximal one.    *)
(***************************************************************************)
EXTENDS Integers, Sequences, FiniteSets, TLC, Json

CONSTANTS Sessions,     \* e.g. {"s1"} or {"s1", "s2"}
          Watchers,     \* sessions that stay authenticated (as u2) and only answer the NOOP probe
          Cmds,         \* command classes that are inputs of this configuration
          Lines,        \* malformed line classes that are inputs of this configuration
          StartPhases,  \* phases a non-watcher session may start in (the harness performs the prelude as u1)
          MaxErr,       \* consecutive erroneous lines that close the connection (maxSessionError = 20)
          CountErrs,    \* TRUE: the error counter is part of the state
          MaxFail,      \* consecutive failed logins that arm the jail (maxLoginAttempts = 3)
          JailTime,     \* model ticks of the jail
          NsBudget,     \* how far the two namespaces together may deviate from the initial one
          Record,       \* TRUE: keep the behaviour in hist
          MaxSteps,     \* length of the behaviours (Record)
          Emit          \* "none" | "steps" | "behaviours"

Users == {"u1", "u2"}
None == "none"

-----------------------------------------------------------------------------
(* Input classes                                                             *)

AnyCmds   == {"CAPABILITY", "NOOP", "ID_GET", "ID_SET"}
\* LOGIN_<user><password>: ux / px are a user name / password nobody has
\* pw: the user's own password with white space in front of or behind it (a different password)
LoginCmds == {"LOGIN_u1p1", "LOGIN_u2p2", "LOGIN_u1p2", "LOGIN_u2p1", "LOGIN_u1px", "LOGIN_uxp1", "LOGIN_uxpx", "LOGIN_u1pw"}
AuthCmds  == {"SELECT_shared", "EXAMINE_shared", "SELECT_extra", "EXAMINE_extra",
              "CREATE_extra", "DELETE_extra", "DELETE_moved", "RENAME_em", "RENAME_me",
              "SUBSCRIBE_shared", "UNSUBSCRIBE_shared", "LIST", "LSUB",
              "STATUS_shared", "STATUS_extra", "APPEND_shared", "APPEND_extra"}
SelCmds   == {"CHECK", "CLOSE", "EXPUNGE", "UNSELECT", "SEARCH", "FETCH", "STORE", "COPY", "MOVE",
              "UID_FETCH", "UID_SEARCH", "UID_STORE", "UID_COPY", "UID_MOVE", "UID_EXPUNGE"}
OtherCmds == {"LOGOUT", "STARTTLS", "IDLE", "DONE", "RECONNECT"}
AllCmds   == AnyCmds \cup LoginCmds \cup AuthCmds \cup SelCmds \cup OtherCmds

\* who a LOGIN class authenticates (None: wrong credentials)
LoginUser(x) == CASE x = "LOGIN_u1p1" -> "u1" [] x = "LOGIN_u2p2" -> "u2" [] OTHER -> None

\* malformed lines that are complete (CRLF terminated); the parser must reject them
ErrLines  == {"unknown",      \* a1 FOO
              "badtag",       \* +x NOOP   (no valid tag at all)
              "tagonly",      \* a1        (and "a1 ")
              "empty",        \* just CRLF
              "missingarg",   \* a1 LOGIN user
              "trailing",     \* a1 NOOP extra
              "quoted_crlf",  \* a1 LOGIN "abc     (quoted string not closed at the end of the line)
              "num32", "num64"}   \* a number that does not fit 32 / 64 bits
\* complete lines on which a server may answer by its own choice (the property wants one completion)
OddLines  == {"quoted_ctl",   \* a quoted string holding NUL / bare CR / another control character
              "lit0",         \* a literal {0}
              "litbig",       \* a literal announced above the size cap (nothing is sent after it)
              "nest10", "nest1000", "nest1e6",   \* SEARCH with that many nested parentheses / NOTs
              "bigline",      \* a line holding a 1 MB atom
              "bare_lf",      \* a1 NOOP<LF>: the server resynchronises at line feeds (its recovery rule after a syntax error is
                              \* "skip to the next LF"): the line is answered at once - not only when another line arrives, and
                              \* not at the price of that other line
              "raw8bit"}      \* LIST / LSUB / STATUS whose strings hold bytes that are not UTF-8
\* streams that end: the client closes the connection in the middle of something (or gives up after a TLS hello)
EofLines  == {"quoted_eof", "lit_eof", "token_eof", "tlshello"}
HeavyLines == {"nest1e6", "bigline"}
AllLines  == ErrLines \cup OddLines \cup EofLines

ASSUME Cmds \subseteq AllCmds /\ Lines \subseteq AllLines /\ Watchers \subseteq Sessions
ASSUME CountErrs => Lines \subseteq ErrLines \cup EofLines /\ "DONE" \notin Cmds  \* only inputs whose counting is not a matter of choice
Inputs == Cmds \cup Lines

VARIABLES phase,     \* [Sessions -> {"NotAuth", "Auth", "Selected", "Closed"}]
          user,      \* [Sessions -> Users \cup {None}]
          sel,       \* [Sessions -> {None, "shared", "extra"}]
          ro,        \* [Sessions -> BOOLEAN]   selected with EXAMINE
          idle,      \* [Sessions -> BOOLEAN]   inside IDLE, waiting for DONE
          errs,      \* [Sessions -> 0..MaxErr] consecutive erroneous lines
          boxes,     \* [Users -> SUBSET {"extra", "moved"}]  mailboxes besides INBOX and shared
          subd,      \* [Users -> BOOLEAN]      "shared" is subscribed
          failures,  \* consecutive failed logins: ONE counter for the whole server (backend.loginErrorCount)
          jailLeft,  \* ticks until the jail opens (0: not armed)
          last,      \* the step that led here (not part of the view)
          start, steps, hist   \* behaviours (Record)

ctl  == <<phase, user, sel, ro, idle, errs>>
data == <<boxes, subd>>
vars == <<phase, user, sel, ro, idle, errs, boxes, subd, failures, jailLeft, last, start, steps, hist>>
view == <<phase, user, sel, ro, idle, errs, boxes, subd, failures, jailLeft>>

State == [phase |-> phase, user |-> user, sel |-> sel, ro |-> ro, idle |-> idle, errs |-> errs,
          boxes |-> boxes, subd |-> subd, failures |-> failures, jailLeft |-> jailLeft]

-----------------------------------------------------------------------------
(* Outcome of one input                                                      *)

Names(u) == {"INBOX", "shared"} \cup boxes[u]
Dev(bx, sb) == Cardinality(bx["u1"]) + Cardinality(bx["u2"])
               + (IF sb["u1"] THEN 0 ELSE 1) + (IF sb["u2"] THEN 0 ELSE 1)
Comp(u, b) == u \o "/" \o b
\* somebody authenticated as u has mailbox b selected
SelectedBySome(u, b) == \E t \in Sessions : user[t] = u /\ sel[t] = b

\* res: acceptable results. OK NO BAD = tagged completions; CONT = a continuation request and no completion yet;
\*      NONE = the client has closed, nothing is expected.
\* tag: "own" the completion carries the tag of the line; "none" the line has no tag (untagged or first word);
\*      "idle" the tag of the pending IDLE.
\* kind: how the line counts: "good" resets the error counter, "error" increments it, "keep" leaves it.
Base(s) == [res |-> {"OK"}, tag |-> "own", close |-> FALSE, kind |-> "good", bye |-> FALSE,
            phase |-> phase[s], user |-> user[s], sel |-> sel[s], ro |-> ro[s], idle |-> FALSE,
            boxes |-> boxes, subd |-> subd, effns |-> {}, effbox |-> {}, must |-> FALSE,
            login |-> None, sees |-> {}]
Ok(s)      == Base(s)
No(s)      == [Base(s) EXCEPT !.res = {"NO"}]
Refused(s) == [Base(s) EXCEPT !.res = {"NO", "BAD"}]      \* the property does not say which of the two
Bad(s)     == [Base(s) EXCEPT !.res = {"BAD"}, !.kind = "error"]
Gone(s)    == [Base(s) EXCEPT !.res = {"NONE"}, !.tag = "none", !.kind = "keep",
                              !.phase = "Closed", !.user = None, !.sel = None, !.ro = FALSE]

OutLogin(s, x) ==
  IF phase[s] # "NotAuth" THEN Refused(s)                      \* already authenticated: refused, nothing changes
  ELSE IF LoginUser(x) # None
       THEN [Base(s) EXCEPT !.phase = "Auth", !.user = LoginUser(x), !.login = "ok"]
       ELSE [No(s) EXCEPT !.login = "fail"]

OutAuth(s, x) ==
  LET u == user[s] IN
  IF phase[s] = "NotAuth" THEN Refused(s)
  ELSE CASE x = "SELECT_shared"  -> [Base(s) EXCEPT !.phase = "Selected", !.sel = "shared", !.ro = FALSE]
         [] x = "EXAMINE_shared" -> [Base(s) EXCEPT !.phase = "Selected", !.sel = "shared", !.ro = TRUE]
         [] x = "SELECT_extra"   -> IF "extra" \in boxes[u]
                                    THEN [Base(s) EXCEPT !.phase = "Selected", !.sel = "extra", !.ro = FALSE] ELSE No(s)
         [] x = "EXAMINE_extra"  -> IF "extra" \in boxes[u]
                                    THEN [Base(s) EXCEPT !.phase = "Selected", !.sel = "extra", !.ro = TRUE] ELSE No(s)
         [] x = "CREATE_extra"   -> IF "extra" \in boxes[u] THEN No(s)
                                    ELSE [Base(s) EXCEPT !.boxes = [boxes EXCEPT ![u] = @ \cup {"extra"}],
                                                         !.effns = {u}, !.effbox = {Comp(u, "extra")}, !.must = TRUE]
         [] x = "DELETE_extra"   -> IF "extra" \notin boxes[u] THEN No(s)
                                    ELSE [Base(s) EXCEPT !.boxes = [boxes EXCEPT ![u] = @ \ {"extra"}],
                                                         !.effns = {u}, !.effbox = {Comp(u, "extra")}, !.must = TRUE]
         [] x = "DELETE_moved"   -> IF "moved" \notin boxes[u] THEN No(s)
                                    ELSE [Base(s) EXCEPT !.boxes = [boxes EXCEPT ![u] = @ \ {"moved"}],
                                                         !.effns = {u}, !.effbox = {Comp(u, "moved")}, !.must = TRUE]
         [] x = "RENAME_em"      -> IF "extra" \notin boxes[u] \/ "moved" \in boxes[u] THEN No(s)
                                    ELSE [Base(s) EXCEPT !.boxes = [boxes EXCEPT ![u] = (@ \ {"extra"}) \cup {"moved"}],
                                                         !.effns = {u}, !.effbox = {Comp(u, "extra"), Comp(u, "moved")}, !.must = TRUE]
         [] x = "RENAME_me"      -> IF "moved" \notin boxes[u] \/ "extra" \in boxes[u] THEN No(s)
                                    ELSE [Base(s) EXCEPT !.boxes = [boxes EXCEPT ![u] = (@ \ {"moved"}) \cup {"extra"}],
                                                         !.effns = {u}, !.effbox = {Comp(u, "extra"), Comp(u, "moved")}, !.must = TRUE]
         [] x = "SUBSCRIBE_shared"   -> IF subd[u] THEN No(s)
                                        ELSE [Base(s) EXCEPT !.subd = [subd EXCEPT ![u] = TRUE], !.effns = {u}, !.must = TRUE]
         [] x = "UNSUBSCRIBE_shared" -> IF ~subd[u] THEN No(s)
                                        ELSE [Base(s) EXCEPT !.subd = [subd EXCEPT ![u] = FALSE], !.effns = {u}, !.must = TRUE]
         [] x = "LIST"           -> [Base(s) EXCEPT !.sees = Names(u)]
         [] x = "LSUB"           -> Ok(s)
         [] x = "STATUS_shared"  -> Ok(s)
         [] x = "STATUS_extra"   -> IF "extra" \in boxes[u] THEN Ok(s) ELSE No(s)
         [] x = "APPEND_shared"  -> [Base(s) EXCEPT !.effbox = {Comp(u, "shared")}, !.must = TRUE]
         [] x = "APPEND_extra"   -> IF "extra" \in boxes[u]
                                    THEN [Base(s) EXCEPT !.effbox = {Comp(u, "extra")}, !.must = TRUE] ELSE No(s)

\* message commands act on message 1 / on all messages of the selected mailbox; COPY and MOVE go to INBOX
OutSel(s, x) ==
  LET u == user[s]
      here == Comp(u, sel[s]) IN
  IF phase[s] # "Selected" THEN Refused(s)
  ELSE CASE x \in {"CHECK", "SEARCH", "FETCH", "UID_FETCH", "UID_SEARCH"} -> Ok(s)
         [] x = "UNSELECT" -> [Base(s) EXCEPT !.phase = "Auth", !.sel = None, !.ro = FALSE]
         [] x = "CLOSE"    -> [Base(s) EXCEPT !.phase = "Auth", !.sel = None, !.ro = FALSE,
                                              !.effbox = IF ro[s] THEN {} ELSE {here}]
         [] x \in {"EXPUNGE", "UID_EXPUNGE", "STORE", "UID_STORE"} ->
                IF ro[s] THEN No(s) ELSE [Base(s) EXCEPT !.effbox = {here}]
         [] x \in {"COPY", "UID_COPY"} ->
                \* copying out of a mailbox opened read-only reads only; some servers refuse it all the same
                IF ro[s] THEN [Base(s) EXCEPT !.res = {"OK", "NO"}, !.effbox = {Comp(u, "INBOX")}]
                ELSE [Base(s) EXCEPT !.effbox = {Comp(u, "INBOX")}, !.must = TRUE]
         [] x \in {"MOVE", "UID_MOVE"} ->
                IF ro[s] THEN No(s) ELSE [Base(s) EXCEPT !.effbox = {here, Comp(u, "INBOX")}, !.must = TRUE]

OutLine(s, x) ==
  CASE x \in {"unknown", "tagonly", "missingarg", "trailing", "quoted_crlf"} -> Bad(s)
    [] x \in {"badtag", "empty"} -> [Bad(s) EXCEPT !.tag = "none"]
    \* an oversized number is a syntax error wherever it stands
    [] x \in {"num32", "num64"} -> Bad(s)
    [] x \in {"quoted_ctl", "lit0", "litbig", "bigline"} -> [Refused(s) EXCEPT !.kind = "keep"]
    [] x \in {"bare_lf", "raw8bit"} -> [Base(s) EXCEPT !.res = {"OK", "NO", "BAD"}, !.kind = "keep"]
    \* SEARCH needs a selected mailbox; a server may also put a limit on the nesting
    [] x = "nest10" -> IF phase[s] = "Selected" THEN [Ok(s) EXCEPT !.kind = "keep"] ELSE [Refused(s) EXCEPT !.kind = "keep"]
    [] x \in {"nest1000", "nest1e6"} ->
         IF phase[s] = "Selected" THEN [Base(s) EXCEPT !.res = {"OK", "NO", "BAD"}, !.kind = "keep"]
         ELSE [Refused(s) EXCEPT !.kind = "keep"]
    [] x \in EofLines -> Gone(s)

\* inside IDLE the next line ends the IDLE, whatever it is; the completion is the one of the IDLE command
OutIdle(s, x) ==
  IF x \in EofLines THEN Gone(s)
  ELSE IF x = "DONE" THEN [Base(s) EXCEPT !.tag = "idle", !.kind = "keep"]
  ELSE [Base(s) EXCEPT !.res = {"BAD", "NO"}, !.tag = "idle", !.kind = "keep"]

Out(s, x) ==
  IF idle[s] THEN OutIdle(s, x)
  ELSE CASE x \in AnyCmds   -> Ok(s)
         [] x \in LoginCmds -> OutLogin(s, x)
         [] x \in AuthCmds  -> OutAuth(s, x)
         [] x \in SelCmds   -> OutSel(s, x)
         [] x = "LOGOUT"    -> [Base(s) EXCEPT !.close = TRUE, !.bye = TRUE]
         [] x = "STARTTLS"  -> Refused(s)                \* the servers of the harness have no TLS configuration
         [] x = "IDLE"      -> IF phase[s] = "NotAuth" THEN Refused(s)
                               ELSE [Base(s) EXCEPT !.res = {"CONT"}, !.idle = TRUE, !.kind = "keep"]
         [] x = "DONE"      -> [Refused(s) EXCEPT !.tag = "none", !.kind = "keep"]    \* DONE outside IDLE
         [] x \in AllLines  -> OutLine(s, x)

-----------------------------------------------------------------------------
(* Which inputs a configuration explores in which state                      *)

HeavyIn(h) == \E i \in 1..Len(h) : h[i].x \in HeavyLines

Explored(s, x) ==
  LET u == user[s]
      o == Out(s, x) IN
  \* a watcher only answers the NOOP probe (graph mode; in behaviours the harness probes after every step)
  /\ (s \in Watchers => x = "NOOP" /\ ~Record)
  \* a LOGIN that reaches the backend is not answered while the jail is armed
  /\ (x \in LoginCmds /\ phase[s] = "NotAuth" => jailLeft = 0)
  \* inside IDLE: DONE, one representative command, and the malformed lines
  /\ (idle[s] => x \in {"DONE", "NOOP"} \cup Lines)
  \* bounds of the namespace part
  /\ Dev(o.boxes, o.subd) <= NsBudget
  \* not explored (the outcome for the OTHER session is a race between its next command and the update):
  \* deleting or renaming a mailbox that somebody of the same user has selected
  /\ (x \in {"DELETE_extra", "RENAME_em"} /\ phase[s] # "NotAuth" => ~SelectedBySome(u, "extra"))
  \* ... nor removing messages from a mailbox that another session of the same user has selected
  /\ (x \in {"EXPUNGE", "UID_EXPUNGE", "MOVE", "UID_MOVE", "CLOSE"} /\ phase[s] = "Selected" /\ ~ro[s] =>
        ~\E t \in Sessions \ {s} : user[t] = u /\ sel[t] = sel[s])
  \* not judged: a SELECT/EXAMINE that fails while another mailbox is selected (RFC 3501: deselects; gluon: keeps)
  /\ (x \in {"SELECT_extra", "EXAMINE_extra"} /\ phase[s] = "Selected" => "extra" \in boxes[u])
  \* behaviours: a heavy line only as the first line, followed by one NOOP
  /\ (Record /\ x \in HeavyLines => steps = 0)
  /\ (Record /\ HeavyIn(hist) => x = "NOOP" /\ steps = 1)

-----------------------------------------------------------------------------
\* nphase .. nidle: where the acting session is after the step (for the harness, which carries no state of its own)
StepRec(s, x, o, closes, arms) ==
  LET gone == closes \/ o.phase = "Closed" IN
  [s |-> s, x |-> x, res |-> o.res, tag |-> o.tag, close |-> closes, bye |-> o.bye, kind |-> o.kind,
   effns |-> o.effns, effbox |-> o.effbox, must |-> o.must, login |-> o.login, arms |-> arms,
   sees |-> o.sees, was |-> phase[s], asuser |-> IF o.user # None THEN o.user ELSE user[s],
   inidle |-> idle[s],
   \* what a NOOP probe on every watcher must be answered after this step
   others |-> [t \in Watchers \ {s} |-> IF phase[t] # "Closed" /\ ~idle[t] THEN Out(t, "NOOP").res ELSE {}],
   nphase |-> IF gone THEN "Closed" ELSE o.phase, nuser |-> IF gone THEN None ELSE o.user,
   nsel |-> IF gone THEN None ELSE o.sel, nro |-> IF gone THEN FALSE ELSE o.ro, nidle |-> IF gone THEN FALSE ELSE o.idle]

Keep == /\ steps' = IF Record THEN steps + 1 ELSE steps
        /\ hist' = IF Record THEN Append(hist, last') ELSE hist
        /\ start' = start

Step(s, x) ==
  /\ phase[s] # "Closed"
  /\ x # "RECONNECT"
  /\ Explored(s, x)
  /\ LET o == Out(s, x)
         ne == IF ~CountErrs THEN 0
               ELSE CASE o.kind = "good" -> 0 [] o.kind = "error" -> errs[s] + 1 [] OTHER -> errs[s]
         closes == o.close \/ (CountErrs /\ ne >= MaxErr)
         gone == closes \/ o.phase = "Closed"
         nf == CASE o.login = "ok" -> 0 [] o.login = "fail" -> failures + 1 [] OTHER -> failures
         arms == o.login = "fail" /\ nf = MaxFail
     IN /\ phase' = [phase EXCEPT ![s] = IF gone THEN "Closed" ELSE o.phase]
        /\ user'  = [user  EXCEPT ![s] = IF gone THEN None ELSE o.user]
        /\ sel'   = [sel   EXCEPT ![s] = IF gone THEN None ELSE o.sel]
        /\ ro'    = [ro    EXCEPT ![s] = IF gone THEN FALSE ELSE o.ro]
        /\ idle'  = [idle  EXCEPT ![s] = IF gone THEN FALSE ELSE o.idle]
        /\ errs'  = [errs  EXCEPT ![s] = IF gone THEN 0 ELSE ne]
        /\ boxes' = o.boxes
        /\ subd'  = o.subd
        /\ failures' = nf
        /\ jailLeft' = IF arms THEN JailTime ELSE jailLeft
        /\ last' = StepRec(s, x, o, closes, arms)
  /\ Keep

\* a closed connection is replaced by a new one (graph mode only: keeps the graph strongly connected)
Reconnect(s) ==
  /\ phase[s] = "Closed"
  /\ "RECONNECT" \in Cmds
  /\ phase' = [phase EXCEPT ![s] = "NotAuth"]
  /\ UNCHANGED <<user, sel, ro, idle, errs, boxes, subd, failures, jailLeft>>
  /\ last' = [s |-> s, x |-> "RECONNECT", res |-> {"OK"}, tag |-> "none", close |-> FALSE, bye |-> FALSE, kind |-> "keep",
              effns |-> {}, effbox |-> {}, must |-> FALSE, login |-> None, arms |-> FALSE, sees |-> {},
              was |-> "Closed", asuser |-> None, inidle |-> FALSE, others |-> [t \in Watchers |-> {}],
              nphase |-> "NotAuth", nuser |-> None, nsel |-> None, nro |-> FALSE, nidle |-> FALSE]
  /\ Keep

\* model time passes; when the jail opens the failure counter starts again at 0
Tick ==
  /\ jailLeft > 0
  /\ jailLeft' = jailLeft - 1
  /\ failures' = IF jailLeft = 1 THEN 0 ELSE failures
  /\ UNCHANGED <<phase, user, sel, ro, idle, errs, boxes, subd>>
  /\ last' = [s |-> "-", x |-> "TICK", res |-> {}, tag |-> "none", close |-> FALSE, bye |-> FALSE, kind |-> "keep",
              effns |-> {}, effbox |-> {}, must |-> FALSE, login |-> None, arms |-> FALSE, sees |-> {},
              was |-> "-", asuser |-> None, inidle |-> FALSE, others |-> [t \in Watchers |-> {}],
              nphase |-> "-", nuser |-> None, nsel |-> None, nro |-> FALSE, nidle |-> FALSE]
  /\ Keep

Init ==
  /\ start \in StartPhases
  /\ phase = [s \in Sessions |-> IF s \in Watchers THEN "Auth" ELSE start]
  /\ user  = [s \in Sessions |-> IF s \in Watchers THEN "u2" ELSE IF start = "NotAuth" THEN None ELSE "u1"]
  /\ sel   = [s \in Sessions |-> IF s \notin Watchers /\ start = "Selected" THEN "shared" ELSE None]
  /\ ro    = [s \in Sessions |-> FALSE]
  /\ idle  = [s \in Sessions |-> FALSE]
  /\ errs  = [s \in Sessions |-> 0]
  /\ boxes = [u \in Users |-> {}]
  /\ subd  = [u \in Users |-> TRUE]
  /\ failures = 0
  /\ jailLeft = 0
  /\ last = [s |-> "-", x |-> "INIT"]
  /\ steps = 0
  /\ hist = <<>>

Next ==
  /\ (Record => steps < MaxSteps)
  /\ \/ \E s \in Sessions : \E x \in Inputs : Step(s, x)
     \/ \E s \in Sessions : Reconnect(s)
     \/ Tick

Spec == Init /\ [][Next]_vars

-----------------------------------------------------------------------------
(* Output for the harness                                                     *)

PrintStep == (Emit = "steps") => PrintT(ToJson([pre |-> State, act |-> last', post |-> State']))

Maximal == \/ steps >= MaxSteps
           \/ \A s \in Sessions \ Watchers : phase[s] = "Closed"
           \/ (HeavyIn(hist) /\ steps >= 2)
EmitBehaviour == (Emit = "behaviours" /\ Record /\ Maximal /\ steps > 0) => PrintT(ToJson([start |-> start, trace |-> hist]))

-----------------------------------------------------------------------------
(* Properties of the design                                                   *)

TypeOK ==
  /\ \A s \in Sessions :
       /\ phase[s] \in {"NotAuth", "Auth", "Selected", "Closed"}
       /\ (phase[s] \in {"NotAuth", "Closed"} <=> user[s] = None)
       /\ (phase[s] = "Selected" <=> sel[s] # None)
       /\ (sel[s] = "extra" => "extra" \in boxes[user[s]])
       /\ (ro[s] => phase[s] = "Selected")
       /\ (idle[s] => phase[s] \in {"Auth", "Selected"})
       /\ errs[s] \in 0..MaxErr
  /\ failures \in 0..MaxFail /\ jailLeft \in 0..JailTime

Acted == last'.x \notin {"TICK", "RECONNECT", "INIT"}
Refusal(l) == "OK" \notin l.res /\ "CONT" \notin l.res
NoEffect(l) == l.effns = {} /\ l.effbox = {} /\ UNCHANGED data

\* Before a successful LOGIN only the any-state commands and LOGIN have an effect: every mailbox or message command
\* (and IDLE) is refused, changes nothing and leaves the session where it is.  Without a selected mailbox the
\* commands that need one are refused and change nothing.
Gate == [][Acted =>
  LET l == last' IN
  /\ (l.was = "NotAuth" /\ l.x \in AuthCmds \cup SelCmds \cup {"IDLE"} =>
        Refusal(l) /\ NoEffect(l) /\ phase'[l.s] = "NotAuth" /\ user'[l.s] = None)
  /\ (l.was = "Auth" /\ ~l.inidle /\ l.x \in SelCmds =>
        Refusal(l) /\ NoEffect(l) /\ phase'[l.s] = "Auth" /\ sel'[l.s] = None)
  \* nothing but a LOGIN leads out of NotAuth (except towards Closed)
  /\ (l.was = "NotAuth" /\ phase'[l.s] \notin {"NotAuth", "Closed"} => l.x \in LoginCmds /\ l.res = {"OK"})
  \* nothing but SELECT / EXAMINE selects
  /\ (l.was = "Auth" /\ phase'[l.s] = "Selected" =>
        l.x \in {"SELECT_shared", "EXAMINE_shared", "SELECT_extra", "EXAMINE_extra"})]_vars

\* A step of a session leaves every variable of the other user and of every other session unchanged,
\* and its effect class names only components of the user it is authenticated as.
Isolation == [][Acted =>
  LET l == last'
      me == l.asuser IN
  /\ \A u \in Users : u # me => boxes'[u] = boxes[u] /\ subd'[u] = subd[u]
  /\ l.effns \subseteq {me}
  /\ \A c \in l.effbox : \E b \in {"INBOX", "shared", "extra", "moved"} : c = Comp(me, b)
  /\ \A t \in Sessions : t # l.s =>
        phase'[t] = phase[t] /\ user'[t] = user[t] /\ sel'[t] = sel[t] /\ ro'[t] = ro[t]
        /\ idle'[t] = idle[t] /\ errs'[t] = errs[t]
  /\ (l.sees # {} => l.sees = {"INBOX", "shared"} \cup boxes[me])]_vars

\* Only a LOGIN with the right password for that very user authenticates, and as that user; the user of a
\* session never changes afterwards.
WrongCredsNeverAuth == [][\A s \in Sessions :
  /\ (user'[s] # user[s] /\ user'[s] # None =>
        last'.s = s /\ last'.x \in LoginCmds /\ LoginUser(last'.x) = user'[s] /\ user[s] = None /\ last'.res = {"OK"})
  /\ (Acted /\ last'.s = s /\ last'.x \in LoginCmds /\ LoginUser(last'.x) = None =>
        user'[s] = user[s] /\ phase'[s] = phase[s] /\ Refusal(last'))]_vars

\* One global counter of consecutive failures; the MaxFail-th arms the jail; while it is armed no LOGIN that
\* reaches the backend is answered; when it opens the count restarts.
JailInv == (jailLeft > 0 => failures = MaxFail) /\ (failures = MaxFail => jailLeft > 0)
Jail == [][Acted =>
  LET l == last' IN
  /\ (l.login # None => jailLeft = 0)                       \* answered only with the jail open
  /\ (l.arms <=> (l.login = "fail" /\ failures = MaxFail - 1))
  /\ (l.arms => jailLeft' = JailTime)
  /\ (l.login = "ok" => failures' = 0)
  /\ (l.login = "fail" => failures' = failures + 1)
  /\ (l.login = None => failures' = failures)]_vars

\* C11: MaxErr consecutive erroneous lines close the connection, not one less; a good line resets the count.
ErrorCounter == [][Acted /\ CountErrs =>
  LET l == last' IN
  /\ (l.kind = "good" /\ phase'[l.s] # "Closed" => errs'[l.s] = 0)
  /\ (l.kind = "error" /\ errs[l.s] + 1 < MaxErr => errs'[l.s] = errs[l.s] + 1 /\ ~l.close)
  /\ (l.kind = "error" /\ errs[l.s] + 1 >= MaxErr => l.close /\ phase'[l.s] = "Closed")]_vars
ErrInv == \A s \in Sessions : errs[s] < MaxErr

\* Every complete line gets exactly one completion (res holds nothing but completions), with the tag of the line
\* when it has one; the only lines without completion are IDLE (continuation) and streams the client cut off.
OneCompletionPerLine == [][Acted =>
  LET l == last' IN
  /\ l.res # {}
  /\ (l.x \notin EofLines /\ l.x # "IDLE" => l.res \subseteq {"OK", "NO", "BAD"})
  /\ (l.x = "IDLE" => l.res \subseteq {"CONT", "NO", "BAD"})
  /\ (l.x \in EofLines <=> l.res = {"NONE"})
  /\ (l.tag = "none" => l.x \in {"badtag", "empty", "DONE"} \cup EofLines)
  /\ (l.tag = "idle" <=> (l.inidle /\ l.x \notin EofLines))
  \* the server closes only on LOGOUT or on the MaxErr-th consecutive error
  /\ (l.close => l.x = "LOGOUT" \/ (CountErrs /\ l.kind = "error" /\ errs[l.s] + 1 >= MaxErr))]_vars

\* After a refused or erroneous line the session is where it was (or closed by the error limit).
UsableAfterError == [][Acted =>
  LET l == last' IN
  (Refusal(l) /\ l.x \notin EofLines /\ ~l.inidle /\ ~l.close) =>
     phase'[l.s] = phase[l.s] /\ user'[l.s] = user[l.s] /\ sel'[l.s] = sel[l.s] /\ ro'[l.s] = ro[l.s] /\ ~idle'[l.s]]_vars

\* A watcher is never touched by what the other sessions send: it stays authenticated and its NOOP is answered OK.
OthersUnaffected == \A w \in Watchers : phase[w] = "Auth" /\ user[w] = "u2" /\ ~idle[w] /\ errs[w] = 0 /\ Out(w, "NOOP").res = {"OK"}
=============================================================================
