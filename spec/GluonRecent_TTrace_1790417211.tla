---- MODULE GluonRecent_TTrace_1790417211 ----
EXTENDS GluonRecent, Sequences, TLCExt, Toolbox, Naturals, TLC

_expression ==
    LET GluonRecent_TEExpression == INSTANCE GluonRecent_TEExpression
    IN GluonRecent_TEExpression!expression
----

_trace ==
    LET GluonRecent_TETrace == INSTANCE GluonRecent_TETrace
    IN GluonRecent_TETrace!trace
----

_inv ==
    ~(
        TLCGet("level") = Len(_TETrace)
        /\
        q = ([s1 |-> <<>>, s2 |-> <<2, 3>>])
        /\
        res = ([s1 |-> <<>>, s2 |-> <<>>])
        /\
        hist = (<<>>)
        /\
        last = ([recent |-> 1, s |-> "s1", act |-> "Arrive", k |-> "append", exists |-> 3, shown |-> <<>>])
        /\
        nextM = (4)
        /\
        sel = ([s1 |-> "rw", s2 |-> "rw"])
        /\
        rows = (<<[m |-> 1, recent |-> FALSE], [m |-> 2, recent |-> FALSE], [m |-> 3, recent |-> TRUE]>>)
        /\
        steps = (5)
        /\
        snap = ([s1 |-> <<[m |-> 1, recent |-> FALSE], [m |-> 2, recent |-> TRUE], [m |-> 3, recent |-> FALSE]>>, s2 |-> <<[m |-> 1, recent |-> FALSE], [m |-> 2, recent |-> TRUE]>>])
        /\
        target = (<<"none", "s1", "s1">>)
    )
----

_init ==
    /\ sel = _TETrace[1].sel
    /\ steps = _TETrace[1].steps
    /\ snap = _TETrace[1].snap
    /\ q = _TETrace[1].q
    /\ res = _TETrace[1].res
    /\ hist = _TETrace[1].hist
    /\ last = _TETrace[1].last
    /\ target = _TETrace[1].target
    /\ rows = _TETrace[1].rows
    /\ nextM = _TETrace[1].nextM
----

_next ==
    /\ \E i,j \in DOMAIN _TETrace:
        /\ \/ /\ j = i + 1
              /\ i = TLCGet("level")
        /\ sel  = _TETrace[i].sel
        /\ sel' = _TETrace[j].sel
        /\ steps  = _TETrace[i].steps
        /\ steps' = _TETrace[j].steps
        /\ snap  = _TETrace[i].snap
        /\ snap' = _TETrace[j].snap
        /\ q  = _TETrace[i].q
        /\ q' = _TETrace[j].q
        /\ res  = _TETrace[i].res
        /\ res' = _TETrace[j].res
        /\ hist  = _TETrace[i].hist
        /\ hist' = _TETrace[j].hist
        /\ last  = _TETrace[i].last
        /\ last' = _TETrace[j].last
        /\ target  = _TETrace[i].target
        /\ target' = _TETrace[j].target
        /\ rows  = _TETrace[i].rows
        /\ rows' = _TETrace[j].rows
        /\ nextM  = _TETrace[i].nextM
        /\ nextM' = _TETrace[j].nextM

\* Uncomment the ASSUME below to write the states of the error trace
\* to the given file in Json format. Note that you can pass any tuple
\* to `JsonSerialize`. For example, a sub-sequence of _TETrace.
    \* ASSUME
    \*     LET J == INSTANCE Json
    \*         IN J!JsonSerialize("GluonRecent_TTrace_1790417211.json", _TETrace)

=============================================================================

 Note that you can extract this module `GluonRecent_TEExpression`
  to a dedicated file to reuse `expression` (the module in the 
  dedicated `GluonRecent_TEExpression.tla` file takes precedence 
  over the module `GluonRecent_TEExpression` below).

---- MODULE GluonRecent_TEExpression ----
EXTENDS GluonRecent, Sequences, TLCExt, Toolbox, Naturals, TLC

expression == 
    [
        \* To hide variables of the `GluonRecent` spec from the error trace,
        \* remove the variables below.  The trace will be written in the order
        \* of the fields of this record.
        sel |-> sel
        ,steps |-> steps
        ,snap |-> snap
        ,q |-> q
        ,res |-> res
        ,hist |-> hist
        ,last |-> last
        ,target |-> target
        ,rows |-> rows
        ,nextM |-> nextM
        
        \* Put additional constant-, state-, and action-level expressions here:
        \* ,_stateNumber |-> _TEPosition
        \* ,_selUnchanged |-> sel = sel'
        
        \* Format the `sel` variable as Json value.
        \* ,_selJson |->
        \*     LET J == INSTANCE Json
        \*     IN J!ToJson(sel)
        
        \* Lastly, you may build expressions over arbitrary sets of states by
        \* leveraging the _TETrace operator.  For example, this is how to
        \* count the number of times a spec variable changed up to the current
        \* state in the trace.
        \* ,_selModCount |->
        \*     LET F[s \in DOMAIN _TETrace] ==
        \*         IF s = 1 THEN 0
        \*         ELSE IF _TETrace[s].sel # _TETrace[s-1].sel
        \*             THEN 1 + F[s-1] ELSE F[s-1]
        \*     IN F[_TEPosition - 1]
    ]

=============================================================================



Parsing and semantic processing can take forever if the trace below is long.
 In this case, it is advised to uncomment the module below to deserialize the
 trace from a generated binary file.

\*
\*---- MODULE GluonRecent_TETrace ----
\*EXTENDS GluonRecent, IOUtils, TLC
\*
\*trace == IODeserialize("GluonRecent_TTrace_1790417211.bin", TRUE)
\*
\*=============================================================================
\*

---- MODULE GluonRecent_TETrace ----
EXTENDS GluonRecent, TLC

trace == 
    <<
    ([q |-> [s1 |-> <<>>, s2 |-> <<>>],res |-> [s1 |-> <<>>, s2 |-> <<>>],hist |-> <<>>,last |-> [recent |-> 0, s |-> "none", act |-> "Init", k |-> "", exists |-> 0, shown |-> <<>>],nextM |-> 2,sel |-> [s1 |-> "none", s2 |-> "none"],rows |-> <<[m |-> 1, recent |-> FALSE]>>,steps |-> 0,snap |-> [s1 |-> <<>>, s2 |-> <<>>],target |-> <<"none", "none", "none">>]),
    ([q |-> [s1 |-> <<>>, s2 |-> <<>>],res |-> [s1 |-> <<>>, s2 |-> <<>>],hist |-> <<>>,last |-> [recent |-> 0, s |-> "s1", act |-> "Select", k |-> "", exists |-> 1, shown |-> <<FALSE>>],nextM |-> 2,sel |-> [s1 |-> "rw", s2 |-> "none"],rows |-> <<[m |-> 1, recent |-> FALSE]>>,steps |-> 1,snap |-> [s1 |-> <<[m |-> 1, recent |-> FALSE]>>, s2 |-> <<>>],target |-> <<"none", "none", "none">>]),
    ([q |-> [s1 |-> <<2>>, s2 |-> <<2>>],res |-> [s1 |-> <<>>, s2 |-> <<>>],hist |-> <<>>,last |-> [recent |-> 0, s |-> "s1", act |-> "Arrive", k |-> "conn", exists |-> 0, shown |-> <<>>],nextM |-> 3,sel |-> [s1 |-> "rw", s2 |-> "none"],rows |-> <<[m |-> 1, recent |-> FALSE], [m |-> 2, recent |-> TRUE]>>,steps |-> 2,snap |-> [s1 |-> <<[m |-> 1, recent |-> FALSE]>>, s2 |-> <<>>],target |-> <<"none", "none", "none">>]),
    ([q |-> [s1 |-> <<2>>, s2 |-> <<2>>],res |-> [s1 |-> <<>>, s2 |-> <<>>],hist |-> <<>>,last |-> [recent |-> 1, s |-> "s2", act |-> "Select", k |-> "", exists |-> 2, shown |-> <<FALSE, TRUE>>],nextM |-> 3,sel |-> [s1 |-> "rw", s2 |-> "rw"],rows |-> <<[m |-> 1, recent |-> FALSE], [m |-> 2, recent |-> FALSE]>>,steps |-> 3,snap |-> [s1 |-> <<[m |-> 1, recent |-> FALSE]>>, s2 |-> <<[m |-> 1, recent |-> FALSE], [m |-> 2, recent |-> TRUE]>>],target |-> <<"none", "none", "none">>]),
    ([q |-> [s1 |-> <<>>, s2 |-> <<2>>],res |-> [s1 |-> <<2>>, s2 |-> <<>>],hist |-> <<>>,last |-> [recent |-> 0, s |-> "s1", act |-> "Deliver", k |-> "applied", exists |-> 0, shown |-> <<>>],nextM |-> 3,sel |-> [s1 |-> "rw", s2 |-> "rw"],rows |-> <<[m |-> 1, recent |-> FALSE], [m |-> 2, recent |-> FALSE]>>,steps |-> 4,snap |-> [s1 |-> <<[m |-> 1, recent |-> FALSE]>>, s2 |-> <<[m |-> 1, recent |-> FALSE], [m |-> 2, recent |-> TRUE]>>],target |-> <<"none", "s1", "none">>]),
    ([q |-> [s1 |-> <<>>, s2 |-> <<2, 3>>],res |-> [s1 |-> <<>>, s2 |-> <<>>],hist |-> <<>>,last |-> [recent |-> 1, s |-> "s1", act |-> "Arrive", k |-> "append", exists |-> 3, shown |-> <<>>],nextM |-> 4,sel |-> [s1 |-> "rw", s2 |-> "rw"],rows |-> <<[m |-> 1, recent |-> FALSE], [m |-> 2, recent |-> FALSE], [m |-> 3, recent |-> TRUE]>>,steps |-> 5,snap |-> [s1 |-> <<[m |-> 1, recent |-> FALSE], [m |-> 2, recent |-> TRUE], [m |-> 3, recent |-> FALSE]>>, s2 |-> <<[m |-> 1, recent |-> FALSE], [m |-> 2, recent |-> TRUE]>>],target |-> <<"none", "s1", "s1">>])
    >>
----


=============================================================================

---- CONFIG GluonRecent_TTrace_1790417211 ----
CONSTANTS
    Sessions = { "s1" , "s2" }
    MaxArrivals = 2
    MaxSteps = 9
    Kinds = { "append" , "copy" , "move" , "conn" }
    Record = FALSE

INVARIANT
    _inv

CHECK_DEADLOCK
    \* CHECK_DEADLOCK off because of PROPERTY or INVARIANT above.
    FALSE

INIT
    _init

NEXT
    _next

CONSTANT
    _TETrace <- _trace

ALIAS
    _expression
=============================================================================
\* Generated on Sat Sep 26 10:06:53 UTC 2026