----------------------------- MODULE GluonDB -----------------------------
(***************************************************************************)
(* The message index of a gluon user as a plain relational model.          *)
(* Property C08: every operation of db.ReadOnly / db.Transaction has the   *)
(* same result and effect on the SQLite implementation as the operation of *)
(* the same name below, and a write transaction that ends in an error      *)
(* leaves no trace.                                                        *)
(*                                                                         *)
(* Relations (all inside the record db, so that Abort is db' = saved):     *)
(*   mb[b]   mailbox with internal id b: remote id, name, uidValidity,     *)
(*           subscribed, flags / permanent flags / attributes, the ordered *)
(*           rows (uid, message, deleted, recent) and next = the           *)
(*           autoincrement counter of the per-mailbox table                *)
(*   nextBox autoincrement counter of the mailboxes table                  *)
(*   msgs[m] message: remote id, deleted mark, flags (shared by all        *)
(*           mailboxes); date, size, body, structure, envelope are opaque  *)
(*           (bound by the harness to the values it created m with)        *)
(*   m2b     message_to_mailbox: set of [m, b]                             *)
(*   dsubs   deleted subscriptions: set of [name, rid]                     *)
(*   settings connector settings (SNull = never stored)                    *)
(*                                                                         *)
(* An abstract message stands for a CLONE GROUP: g concrete messages that  *)
(* are always passed together, g in {1,2,499,500,501,999,1000,1001,2001}   *)
(* (db.ChunkLimit and ChunkLimit/2 +- 1).  Nothing below depends on g, so  *)
(* any size-dependent behaviour of the code is a divergence.  Replies that *)
(* are counts are given as the SET of abstract messages counted; an        *)
(* abstract uid u stands for the block of concrete uids of its group.      *)
(*                                                                         *)
(* Meaning of an operation = what its SQL is meant to do (read_ops.go,     *)
(* write_ops.go), not its slips.  Reply classes: ok(value), notfound       *)
(* (db.ErrNotFound), error (any other error), unjudged.  A write operation *)
(* that replies error poisons the transaction: the only continuation is    *)
(* Abort (gluon propagates every db error out of the Write callback).      *)
(***************************************************************************)
EXTENDS Integers, Sequences, FiniteSets, TLC, Json

CONSTANTS
  MsgOrder,     \* the abstract messages in a fixed order, e.g. <<"m1","m2","m3">>
  MaxBox,       \* internal mailbox ids 1..MaxBox can be handed out
  RidOrder,     \* remote mailbox ids in a fixed order, e.g. <<"A","B","C">>
  BoxNames,     \* mailbox names, e.g. {"a","b","c"}
  Flags,        \* flag universe, e.g. {"f1","f2"}
  BoxFlagSets,  \* [fl, pf, at] combinations offered when a mailbox is created
  AltRids,      \* further remote message ids, e.g. {"x"}
  UVs,          \* uid validity values
  SettingsVals, \* connector settings values
  MaxUid,       \* bound: rows are added only while the new uids are <= MaxUid
  MaxTxOps,     \* bound: write operations per transaction
  ReadsInTx,    \* TRUE: read operations may also run inside a write transaction
  AllOrders,    \* TRUE: list arguments in every order; FALSE: only in the fixed order
  Ops,          \* names of the operations that are enabled (family selection)
  MaxSteps,     \* simulation: length of a behaviour
  Record,       \* simulation: keep the behaviour in hist and schedule operations by the wheel
  EmitLabels,   \* exhaustive: print every (operation, reply class, argument shape) once per worker
  TgtOp, TgtCls, TgtN, TgtK, TgtV  \* directed search: the label to reach ("" in TgtOp: none); see NotReached

VARIABLES
  db,      \* the relations
  saved,   \* the relations when the running transaction began (= db outside transactions)
  tx,      \* "none" | "write" | "poisoned"
  nops,    \* write operations executed in the running transaction
  last,    \* the step just taken: operation, arguments, expected reply, shape (not part of the view)
  steps,   \* simulation: steps taken
  nextop,  \* simulation: the operation scheduled next
  hist,    \* simulation: the behaviour so far
  goal     \* directed search: the target label has been taken
vars == <<db, saved, tx, nops, last, steps, nextop, hist, goal>>
view == <<db, saved, tx, nops, goal>>

-----------------------------------------------------------------------------
(* constants and argument domains *)

Range(s) == {s[i] : i \in DOMAIN s}
Msgs == Range(MsgOrder)
BoxRids == Range(RidOrder)
BoxIds == 1..MaxBox
MsgRids == Msgs \cup AltRids      \* remote message ids usable as arguments; the home remote id of m is m itself
Rnd == "rnd"                      \* the random remote id assigned by MarkMessageAsDeletedAndAssignRandomRemoteID
PadRid == "Z"                     \* a remote mailbox id that never exists (a group of unknown ids in a list)
SNull == "null"
Recent == "recent"

RECURSIVE Sel(_, _, _)
Sel(order, S, i) == IF i > Len(order) THEN <<>>
                    ELSE (IF i \in S THEN <<order[i]>> ELSE <<>>) \o Sel(order, S, i + 1)
SubLists(order) == {Sel(order, S, 1) : S \in SUBSET (1..Len(order))}
InjSeqs(S) == UNION {{s \in [1..k -> S] : \A i, j \in 1..k : i # j => s[i] # s[j]} : k \in 0..Cardinality(S)}
Lists(order) == IF AllOrders THEN InjSeqs(Range(order)) ELSE SubLists(order)

MsgLists == Lists(MsgOrder)
RidLists == Lists(RidOrder \o <<PadRid>>)
FlagSets == SUBSET Flags

NoBox == [ex |-> FALSE, rid |-> "", name |-> "", uv |-> 0, sub |-> FALSE,
          fl |-> {}, pf |-> {}, at |-> {}, rows |-> <<>>, next |-> 1]
NoMsg == [ex |-> FALSE, rid |-> "", del |-> FALSE, fl |-> {}]

EmptyDB == [mb |-> [b \in BoxIds |-> NoBox], nextBox |-> 1, msgs |-> [m \in Msgs |-> NoMsg],
            m2b |-> {}, dsubs |-> {}, settings |-> SNull]

-----------------------------------------------------------------------------
(* queries on a value d of the relations *)

Ex(d, b) == b \in BoxIds /\ d.mb[b].ex
ExBoxes(d) == {b \in BoxIds : d.mb[b].ex}
BoxByRid(d, r) == {b \in ExBoxes(d) : d.mb[b].rid = r}
BoxByName(d, n) == {b \in ExBoxes(d) : d.mb[b].name = n}
Pick(S) == CHOOSE x \in S : TRUE
MEx(d, m) == d.msgs[m].ex
ExMsgs(d) == {m \in Msgs : d.msgs[m].ex}
MsgByRid(d, r) == {m \in ExMsgs(d) : d.msgs[m].rid = r}
Rows(d, b) == d.mb[b].rows
RowMsgs(d, b) == {Rows(d, b)[i].m : i \in DOMAIN Rows(d, b)}
InBox(d, m, b) == Ex(d, b) /\ m \in RowMsgs(d, b)
BoxesOf(d, m) == {b \in ExBoxes(d) : m \in RowMsgs(d, b)}
MbRec(d, b) == [id |-> b, rid |-> d.mb[b].rid, name |-> d.mb[b].name, uv |-> d.mb[b].uv, sub |-> d.mb[b].sub]
SnapRow(d, row) == [m |-> row.m, rid |-> d.msgs[row.m].rid, uid |-> row.uid, rec |-> row.rec, del |-> row.del,
                    fl |-> d.msgs[row.m].fl]

\* simulation draws one argument value per step (TLC would otherwise enumerate every successor of the scheduled
\* operation at every step); the exhaustive runs range over the whole domain
Arg(S) == IF Record /\ S # {} THEN {RandomElement(S)} ELSE S
\* the same, drawing from the subset G (arguments the operation can act on) three times out of four
ArgP(S, G) == IF Record /\ S # {} THEN {RandomElement(IF G # {} /\ RandomElement(1..4) > 1 THEN G ELSE S)} ELSE S

ListsOver(S) == {l \in MsgLists : l # <<>> /\ Range(l) \subseteq S}
FreeRids == {r \in BoxRids : BoxByRid(db, r) = {}}
FreeNames == {n \in BoxNames : BoxByName(db, n) = {}}

\* box ids offered as arguments: every id handed out so far (existing or deleted) and the next one (never created)
BoxArgs == 1..db.nextBox

-----------------------------------------------------------------------------
(* replies and shapes *)

Ok(v) == [cls |-> "ok", val |-> v]
Done == [cls |-> "ok", val |-> ""]
NotFound == [cls |-> "notfound"]
Err == [cls |-> "error"]
Unjudged == [cls |-> "unjudged"]
Sh(n, k, v) == [n |-> n, k |-> k, v |-> v]
HM(c) == IF c THEN "hit" ELSE "miss"
Card(S) == Cardinality(S)

-----------------------------------------------------------------------------
(* step bookkeeping *)

\* cheap guard evaluated before the arguments of an operation are drawn
On(op) == op \in Ops /\ (Record => nextop = op)
\* simulation: a behaviour has MaxSteps steps; a transaction that is still open then is ended first
Sched(op) == op \in Ops /\ (Record => nextop = op /\ (steps < MaxSteps \/ tx # "none"))

\* the operations in the order of the wheel; weights below
TxOps == <<"BeginWrite", "Commit", "AbortError", "AbortPanic">>
ReadOps == <<"MailboxExistsWithID", "MailboxExistsWithRemoteID", "MailboxExistsWithName", "GetMailboxIDFromRemoteID",
  "GetMailboxName", "GetMailboxNameWithRemoteID", "GetMailboxMessageIDPairs", "GetAllMailboxesWithAttr",
  "GetAllMailboxesAsRemoteIDs", "GetMailboxByName", "GetMailboxByID", "GetMailboxByRemoteID", "GetMailboxRecentCount",
  "GetMailboxMessageCount", "GetMailboxMessageCountWithRemoteID", "GetMailboxFlags", "GetMailboxPermanentFlags",
  "GetMailboxAttributes", "GetMailboxUID", "GetMailboxMessageCountAndUID", "GetMailboxMessageForNewSnapshot",
  "MailboxTranslateRemoteIDs", "MailboxFilterContains", "GetMailboxCount", "GetAllMailboxesNameAndRemoteID",
  "MessageExists", "MessageExistsWithRemoteID", "GetMessageNoEdges", "GetTotalMessageCount", "GetMessageRemoteID",
  "GetImportedMessageData", "GetMessageDateAndSize", "GetMessageMailboxIDs", "GetMessagesFlags",
  "GetMessageIDsMarkedAsDelete", "GetMessageIDFromRemoteID", "GetMessageDeletedFlag", "GetAllMessagesIDsAsMap",
  "GetDeletedSubscriptionSet", "GetConnectorSettings">>
WriteOps == <<"CreateMailbox", "GetOrCreateMailbox", "GetOrCreateMailboxAlt", "CreateMailboxIfNotExists",
  "RenameMailboxWithRemoteID", "DeleteMailboxWithRemoteID", "AddMessagesToMailbox", "RemoveMessagesFromMailbox",
  "ClearRecentFlagInMailboxOnMessage", "ClearRecentFlagsInMailbox", "SetMailboxMessagesDeletedFlag",
  "SetMailboxSubscribed", "UpdateRemoteMailboxID", "SetMailboxUIDValidity", "AddFlagsToAllMailboxes",
  "AddPermFlagsToAllMailboxes", "CreateMessages", "CreateMessageAndAddToMailbox", "MarkMessageAsDeleted",
  "MarkMessageAsDeletedAndAssignRandomRemoteID", "MarkMessageAsDeletedWithRemoteID", "DeleteMessages",
  "UpdateRemoteMessageID", "AddFlagToMessages", "RemoveFlagFromMessages", "SetFlagsOnMessages",
  "AddDeletedSubscription", "RemoveDeletedSubscriptionWithName", "StoreConnectorSettings">>
ReadOpSet == Range(ReadOps)
WriteOpSet == Range(WriteOps)
AllOps == Range(TxOps) \cup ReadOpSet \cup WriteOpSet

Weight(op) ==
  CASE op = "BeginWrite" -> 30
    [] op = "Commit" -> 22
    [] op = "AbortError" -> 5
    [] op = "AbortPanic" -> 3
    [] op \in {"CreateMailbox", "CreateMessages", "AddMessagesToMailbox", "CreateMessageAndAddToMailbox"} -> 4
    [] op \in WriteOpSet -> 2
    [] OTHER -> 1
RECURSIVE Rep(_, _)
Rep(x, n) == IF n = 0 THEN <<>> ELSE <<x>> \o Rep(x, n - 1)
RECURSIVE WheelOf(_, _)
WheelOf(s, i) == IF i > Len(s) THEN <<>>
                 ELSE (IF s[i] \in Ops THEN Rep(s[i], Weight(s[i])) ELSE <<>>) \o WheelOf(s, i + 1)
Wheel == WheelOf(TxOps \o ReadOps \o WriteOps, 1)
IsRead(op) == op \in ReadOpSet
IsWrite(op) == op \in WriteOpSet
\* can operation o be the next step when the transaction state is t with n operations after st steps
App(o, t, n, st) ==
  /\ st >= MaxSteps => o \in {"Commit", "AbortError"}
  /\ CASE o = "BeginWrite" -> t = "none"
        [] o = "Commit" -> t = "write"
        [] o = "AbortError" -> t \in {"write", "poisoned"}
        [] o = "AbortPanic" -> t = "write"
        [] IsRead(o) -> t = "none" \/ (t = "write" /\ ReadsInTx)
        [] OTHER -> t = "write" /\ n < MaxTxOps
\* a database that is nearly empty is filled first: extra weight for the creating operations
TotalRows(d) == LET S == ExBoxes(d) IN IF S = {} THEN 0 ELSE Len(Rows(d, Pick(S))) + (IF Card(S) > 1 THEN Len(Rows(d, Pick(S \ {Pick(S)}))) ELSE 0)
Boost(d) ==
  (IF Card(ExBoxes(d)) < 2 THEN Rep("CreateMailbox", 60) \o Rep("GetOrCreateMailbox", 10) ELSE <<>>)
  \o (IF Card(ExMsgs(d)) < 2 THEN Rep("CreateMessages", 60) ELSE <<>>)
  \o (IF ExBoxes(d) # {} /\ ExMsgs(d) # {} /\ TotalRows(d) < 2 THEN Rep("AddMessagesToMailbox", 60) \o Rep("CreateMessageAndAddToMailbox", 20) ELSE <<>>)
\* the wheels per transaction state are constants (TLC evaluates them once)
WheelFor(t, n, st) == SelectSeq(Wheel, LAMBDA o : App(o, t, n, st))
W_None == WheelFor("none", 0, 0)
W_Write == WheelFor("write", 0, 0)
W_Full == WheelFor("write", MaxTxOps, 0)
W_Poisoned == WheelFor("poisoned", 0, 0)
W_EndWrite == WheelFor("write", 0, MaxSteps)
W_EndPoisoned == WheelFor("poisoned", 0, MaxSteps)
Spin == IF Record
        THEN LET w == IF steps' >= MaxSteps
                      THEN (IF tx' = "write" THEN W_EndWrite ELSE IF tx' = "poisoned" THEN W_EndPoisoned ELSE <<>>)
                      ELSE IF tx' = "none" THEN W_None
                      ELSE IF tx' = "poisoned" THEN W_Poisoned
                      ELSE IF nops' >= MaxTxOps THEN W_Full
                      ELSE W_Write \o SelectSeq(Boost(db'), LAMBDA o : o \in Ops) IN
             nextop' = IF Len(w) = 0 THEN "" ELSE w[RandomElement(1..Len(w))]
        ELSE nextop' = nextop

IsTarget(l) == l.op = TgtOp /\ l.r.cls = TgtCls /\ l.sh.n = TgtN /\ l.sh.k = TgtK /\ l.sh.v = TgtV
Keep == /\ steps' = IF Record THEN steps + 1 ELSE steps
        /\ goal' = (goal \/ (TgtOp # "" /\ IsTarget(last')))
        /\ Spin
        /\ hist' = IF Record THEN Append(hist, [act |-> last', tx |-> tx', db |-> db']) ELSE hist

DoRead(op, args, reply, sh) ==
  /\ Sched(op)
  /\ tx = "none" \/ (tx = "write" /\ ReadsInTx)
  /\ last' = [op |-> op, kind |-> "read", a |-> args, r |-> reply, sh |-> sh]
  /\ UNCHANGED <<db, saved, tx, nops>>
  /\ Keep

DoWrite(op, args, reply, sh, nd) ==
  /\ Sched(op)
  /\ tx = "write" /\ nops < MaxTxOps
  /\ last' = [op |-> op, kind |-> "write", a |-> args, r |-> reply, sh |-> sh]
  /\ nops' = nops + 1
  /\ saved' = saved
  /\ IF reply.cls = "error" THEN tx' = "poisoned" /\ db' = db ELSE tx' = tx /\ db' = nd
  /\ Keep

-----------------------------------------------------------------------------
(* transactions *)

BeginWrite ==
  /\ Sched("BeginWrite") /\ tx = "none"
  /\ tx' = "write" /\ saved' = db /\ nops' = 0 /\ db' = db
  /\ last' = [op |-> "BeginWrite", kind |-> "tx", a |-> [x |-> ""], r |-> Done, sh |-> Sh(0, 0, "")]
  /\ Keep

Commit ==
  /\ Sched("Commit") /\ tx = "write"
  /\ tx' = "none" /\ saved' = db /\ nops' = 0 /\ db' = db
  /\ last' = [op |-> "Commit", kind |-> "tx", a |-> [x |-> ""], r |-> Done, sh |-> Sh(nops, 0, "")]
  /\ Keep

\* the callback returns an error (or panics) after nops operations; a poisoned transaction can only end this way
Abort(op) ==
  /\ Sched(op)
  /\ tx = "write" \/ (tx = "poisoned" /\ op = "AbortError")
  /\ tx' = "none" /\ db' = saved /\ saved' = saved /\ nops' = 0
  /\ last' = [op |-> op, kind |-> "tx", a |-> [x |-> ""], r |-> Done,
              sh |-> Sh(nops, 0, IF tx = "poisoned" THEN "after-failed-operation" ELSE IF db = saved THEN "nothing-to-undo" ELSE "undo")]
  /\ Keep

-----------------------------------------------------------------------------
(* read operations: mailboxes *)

R_MailboxExistsWithID == On("MailboxExistsWithID") /\ \E b \in ArgP(BoxArgs, ExBoxes(db)) :
  DoRead("MailboxExistsWithID", [b |-> b], Ok(Ex(db, b)), Sh(0, 0, HM(Ex(db, b))))

R_MailboxExistsWithRemoteID == On("MailboxExistsWithRemoteID") /\ \E r \in Arg(BoxRids) :
  DoRead("MailboxExistsWithRemoteID", [r |-> r], Ok(BoxByRid(db, r) # {}), Sh(0, 0, HM(BoxByRid(db, r) # {})))

R_MailboxExistsWithName == On("MailboxExistsWithName") /\ \E n \in Arg(BoxNames) :
  DoRead("MailboxExistsWithName", [n |-> n], Ok(BoxByName(db, n) # {}), Sh(0, 0, HM(BoxByName(db, n) # {})))

R_GetMailboxIDFromRemoteID == On("GetMailboxIDFromRemoteID") /\ \E r \in Arg(BoxRids) :
  LET S == BoxByRid(db, r) IN
  DoRead("GetMailboxIDFromRemoteID", [r |-> r], IF S = {} THEN NotFound ELSE Ok(Pick(S)), Sh(0, 0, HM(S # {})))

R_GetMailboxName == On("GetMailboxName") /\ \E b \in ArgP(BoxArgs, ExBoxes(db)) :
  DoRead("GetMailboxName", [b |-> b], IF Ex(db, b) THEN Ok(db.mb[b].name) ELSE NotFound, Sh(0, 0, HM(Ex(db, b))))

R_GetMailboxNameWithRemoteID == On("GetMailboxNameWithRemoteID") /\ \E r \in Arg(BoxRids) :
  LET S == BoxByRid(db, r) IN
  DoRead("GetMailboxNameWithRemoteID", [r |-> r], IF S = {} THEN NotFound ELSE Ok(db.mb[Pick(S)].name), Sh(0, 0, HM(S # {})))

R_GetMailboxMessageIDPairs == On("GetMailboxMessageIDPairs") /\ \E b \in ArgP(BoxArgs, ExBoxes(db)) :
  DoRead("GetMailboxMessageIDPairs", [b |-> b],
         IF Ex(db, b) THEN Ok({[m |-> m, rid |-> db.msgs[m].rid] : m \in RowMsgs(db, b)}) ELSE Err,
         IF Ex(db, b) THEN Sh(Card(RowMsgs(db, b)), 0, "hit") ELSE Sh(0, 0, "miss"))

R_GetAllMailboxesWithAttr == On("GetAllMailboxesWithAttr") /\
  DoRead("GetAllMailboxesWithAttr", [x |-> ""],
         Ok({[mb |-> MbRec(db, b), at |-> db.mb[b].at] : b \in ExBoxes(db)}), Sh(Card(ExBoxes(db)), 0, ""))

R_GetAllMailboxesAsRemoteIDs == On("GetAllMailboxesAsRemoteIDs") /\
  DoRead("GetAllMailboxesAsRemoteIDs", [x |-> ""], Ok({db.mb[b].rid : b \in ExBoxes(db)}), Sh(Card(ExBoxes(db)), 0, ""))

R_GetMailboxByName == On("GetMailboxByName") /\ \E n \in Arg(BoxNames) :
  LET S == BoxByName(db, n) IN
  DoRead("GetMailboxByName", [n |-> n], IF S = {} THEN NotFound ELSE Ok(MbRec(db, Pick(S))), Sh(0, 0, HM(S # {})))

R_GetMailboxByID == On("GetMailboxByID") /\ \E b \in ArgP(BoxArgs, ExBoxes(db)) :
  DoRead("GetMailboxByID", [b |-> b], IF Ex(db, b) THEN Ok(MbRec(db, b)) ELSE NotFound, Sh(0, 0, HM(Ex(db, b))))

R_GetMailboxByRemoteID == On("GetMailboxByRemoteID") /\ \E r \in Arg(BoxRids) :
  LET S == BoxByRid(db, r) IN
  DoRead("GetMailboxByRemoteID", [r |-> r], IF S = {} THEN NotFound ELSE Ok(MbRec(db, Pick(S))), Sh(0, 0, HM(S # {})))

RecentMsgs(d, b) == {Rows(d, b)[i].m : i \in {j \in DOMAIN Rows(d, b) : Rows(d, b)[j].rec}}

R_GetMailboxRecentCount == On("GetMailboxRecentCount") /\ \E b \in ArgP(BoxArgs, ExBoxes(db)) :
  DoRead("GetMailboxRecentCount", [b |-> b], IF Ex(db, b) THEN Ok(RecentMsgs(db, b)) ELSE Err,
         IF Ex(db, b) THEN Sh(Card(RowMsgs(db, b)), Card(RecentMsgs(db, b)), "hit") ELSE Sh(0, 0, "miss"))

R_GetMailboxMessageCount == On("GetMailboxMessageCount") /\ \E b \in ArgP(BoxArgs, ExBoxes(db)) :
  DoRead("GetMailboxMessageCount", [b |-> b], IF Ex(db, b) THEN Ok(RowMsgs(db, b)) ELSE Err,
         IF Ex(db, b) THEN Sh(Card(RowMsgs(db, b)), 0, "hit") ELSE Sh(0, 0, "miss"))

R_GetMailboxMessageCountWithRemoteID == On("GetMailboxMessageCountWithRemoteID") /\ \E r \in Arg(BoxRids) :
  LET S == BoxByRid(db, r) IN
  DoRead("GetMailboxMessageCountWithRemoteID", [r |-> r], IF S = {} THEN NotFound ELSE Ok(RowMsgs(db, Pick(S))),
         IF S = {} THEN Sh(0, 0, "miss") ELSE Sh(Card(RowMsgs(db, Pick(S))), 0, "hit"))

R_GetMailboxFlags == On("GetMailboxFlags") /\ \E b \in ArgP(BoxArgs, ExBoxes(db)) :
  DoRead("GetMailboxFlags", [b |-> b], Ok(IF Ex(db, b) THEN db.mb[b].fl ELSE {}),
         IF Ex(db, b) THEN Sh(Card(db.mb[b].fl), 0, "hit") ELSE Sh(0, 0, "miss"))

R_GetMailboxPermanentFlags == On("GetMailboxPermanentFlags") /\ \E b \in ArgP(BoxArgs, ExBoxes(db)) :
  DoRead("GetMailboxPermanentFlags", [b |-> b], Ok(IF Ex(db, b) THEN db.mb[b].pf ELSE {}),
         IF Ex(db, b) THEN Sh(Card(db.mb[b].pf), 0, "hit") ELSE Sh(0, 0, "miss"))

R_GetMailboxAttributes == On("GetMailboxAttributes") /\ \E b \in ArgP(BoxArgs, ExBoxes(db)) :
  DoRead("GetMailboxAttributes", [b |-> b], Ok(IF Ex(db, b) THEN db.mb[b].at ELSE {}),
         IF Ex(db, b) THEN Sh(Card(db.mb[b].at), 0, "hit") ELSE Sh(0, 0, "miss"))

\* the next uid of a mailbox that does not exist is not judged (the code answers 1)
R_GetMailboxUID == On("GetMailboxUID") /\ \E b \in ArgP(BoxArgs, ExBoxes(db)) :
  DoRead("GetMailboxUID", [b |-> b], IF Ex(db, b) THEN Ok(db.mb[b].next) ELSE Unjudged,
         IF Ex(db, b) THEN Sh(Card(RowMsgs(db, b)), 0, IF db.mb[b].next = 1 THEN "fresh" ELSE "used") ELSE Sh(0, 0, "miss"))

R_GetMailboxMessageCountAndUID == On("GetMailboxMessageCountAndUID") /\ \E b \in ArgP(BoxArgs, ExBoxes(db)) :
  DoRead("GetMailboxMessageCountAndUID", [b |-> b],
         IF Ex(db, b) THEN Ok([cnt |-> RowMsgs(db, b), uid |-> db.mb[b].next]) ELSE Err,
         IF Ex(db, b) THEN Sh(Card(RowMsgs(db, b)), 0, IF db.mb[b].next = 1 THEN "fresh" ELSE "used") ELSE Sh(0, 0, "miss"))

R_GetMailboxMessageForNewSnapshot == On("GetMailboxMessageForNewSnapshot") /\ \E b \in ArgP(BoxArgs, ExBoxes(db)) :
  DoRead("GetMailboxMessageForNewSnapshot", [b |-> b],
         IF Ex(db, b) THEN Ok([seq |-> [i \in DOMAIN Rows(db, b) |-> SnapRow(db, Rows(db, b)[i])]]) ELSE Err,
         IF Ex(db, b) THEN Sh(Len(Rows(db, b)), 0, "hit") ELSE Sh(0, 0, "miss"))

R_MailboxTranslateRemoteIDs == On("MailboxTranslateRemoteIDs") /\ \E l \in Arg(RidLists) :
  LET hit == {b \in ExBoxes(db) : db.mb[b].rid \in Range(l)} IN
  DoRead("MailboxTranslateRemoteIDs", [rl |-> l], Ok(hit), Sh(Len(l), Card(hit), ""))

\* an empty list asks nothing (no statement), whatever the mailbox
R_MailboxFilterContains == On("MailboxFilterContains") /\ \E b \in ArgP(BoxArgs, ExBoxes(db)) : \E l \in Arg(MsgLists) :
  LET hit == {m \in Range(l) : InBox(db, m, b)} IN
  DoRead("MailboxFilterContains", [b |-> b, ml |-> l],
         IF l = <<>> THEN Ok({}) ELSE IF Ex(db, b) THEN Ok(hit) ELSE Err, Sh(Len(l), Card(hit), HM(Ex(db, b))))

R_GetMailboxCount == On("GetMailboxCount") /\
  DoRead("GetMailboxCount", [x |-> ""], Ok(Card(ExBoxes(db))), Sh(Card(ExBoxes(db)), 0, ""))

R_GetAllMailboxesNameAndRemoteID == On("GetAllMailboxesNameAndRemoteID") /\
  DoRead("GetAllMailboxesNameAndRemoteID", [x |-> ""],
         Ok({[name |-> db.mb[b].name, rid |-> db.mb[b].rid] : b \in ExBoxes(db)}), Sh(Card(ExBoxes(db)), 0, ""))

-----------------------------------------------------------------------------
(* read operations: messages, subscriptions, settings *)

MsgRec(d, m) == [m |-> m, rid |-> d.msgs[m].rid, del |-> d.msgs[m].del]

R_MessageExists == On("MessageExists") /\ \E m \in Arg(Msgs) :
  DoRead("MessageExists", [m |-> m], Ok(MEx(db, m)), Sh(0, 0, HM(MEx(db, m))))

R_MessageExistsWithRemoteID == On("MessageExistsWithRemoteID") /\ \E r \in Arg(MsgRids) :
  DoRead("MessageExistsWithRemoteID", [r |-> r], Ok(MsgByRid(db, r) # {}), Sh(0, 0, HM(MsgByRid(db, r) # {})))

R_GetMessageNoEdges == On("GetMessageNoEdges") /\ \E m \in Arg(Msgs) :
  DoRead("GetMessageNoEdges", [m |-> m], IF MEx(db, m) THEN Ok(MsgRec(db, m)) ELSE NotFound, Sh(0, 0, HM(MEx(db, m))))

R_GetTotalMessageCount == On("GetTotalMessageCount") /\
  DoRead("GetTotalMessageCount", [x |-> ""], Ok(ExMsgs(db)), Sh(Card(ExMsgs(db)), 0, ""))

R_GetMessageRemoteID == On("GetMessageRemoteID") /\ \E m \in Arg(Msgs) :
  DoRead("GetMessageRemoteID", [m |-> m], IF MEx(db, m) THEN Ok(db.msgs[m].rid) ELSE NotFound, Sh(0, 0, HM(MEx(db, m))))

R_GetImportedMessageData == On("GetImportedMessageData") /\ \E m \in Arg(Msgs) :
  DoRead("GetImportedMessageData", [m |-> m],
         IF MEx(db, m) THEN Ok([msg |-> MsgRec(db, m), fl |-> db.msgs[m].fl]) ELSE NotFound,
         Sh(IF MEx(db, m) THEN Card(db.msgs[m].fl) ELSE 0, 0, HM(MEx(db, m))))

\* date and size are opaque: the reply names the message whose date and size must come back
R_GetMessageDateAndSize == On("GetMessageDateAndSize") /\ \E m \in Arg(Msgs) :
  DoRead("GetMessageDateAndSize", [m |-> m], IF MEx(db, m) THEN Ok(m) ELSE NotFound, Sh(0, 0, HM(MEx(db, m))))

R_GetMessageMailboxIDs == On("GetMessageMailboxIDs") /\ \E m \in Arg(Msgs) :
  LET S == {e.b : e \in {x \in db.m2b : x.m = m}} IN
  DoRead("GetMessageMailboxIDs", [m |-> m], Ok(S), Sh(Card(S), 0, HM(MEx(db, m))))

R_GetMessagesFlags == On("GetMessagesFlags") /\ \E l \in Arg(MsgLists) :
  LET hit == {m \in Range(l) : MEx(db, m)} IN
  DoRead("GetMessagesFlags", [ml |-> l], Ok({[m |-> m, rid |-> db.msgs[m].rid, fl |-> db.msgs[m].fl] : m \in hit}),
         Sh(Len(l), Card(hit), ""))

R_GetMessageIDsMarkedAsDelete == On("GetMessageIDsMarkedAsDelete") /\
  LET S == {m \in ExMsgs(db) : db.msgs[m].del} IN
  DoRead("GetMessageIDsMarkedAsDelete", [x |-> ""], Ok(S), Sh(Card(ExMsgs(db)), Card(S), ""))

R_GetMessageIDFromRemoteID == On("GetMessageIDFromRemoteID") /\ \E r \in Arg(MsgRids) :
  LET S == MsgByRid(db, r) IN
  DoRead("GetMessageIDFromRemoteID", [r |-> r], IF S = {} THEN NotFound ELSE Ok(Pick(S)), Sh(0, 0, HM(S # {})))

R_GetMessageDeletedFlag == On("GetMessageDeletedFlag") /\ \E m \in Arg(Msgs) :
  DoRead("GetMessageDeletedFlag", [m |-> m], IF MEx(db, m) THEN Ok(db.msgs[m].del) ELSE NotFound,
         Sh(0, 0, IF MEx(db, m) THEN (IF db.msgs[m].del THEN "deleted" ELSE "kept") ELSE "miss"))

R_GetAllMessagesIDsAsMap == On("GetAllMessagesIDsAsMap") /\
  DoRead("GetAllMessagesIDsAsMap", [x |-> ""], Ok(ExMsgs(db)), Sh(Card(ExMsgs(db)), 0, ""))

R_GetDeletedSubscriptionSet == On("GetDeletedSubscriptionSet") /\
  DoRead("GetDeletedSubscriptionSet", [x |-> ""], Ok(db.dsubs), Sh(Card(db.dsubs), 0, ""))

R_GetConnectorSettings == On("GetConnectorSettings") /\
  DoRead("GetConnectorSettings", [x |-> ""],
         Ok([value |-> IF db.settings = SNull THEN "" ELSE db.settings, has |-> db.settings # SNull]),
         Sh(0, 0, HM(db.settings # SNull)))

-----------------------------------------------------------------------------
(* write operations: mailboxes *)

\* a name that exists (again) is no longer a deleted-but-subscribed name
NewBox(d, r, n, fs, uv) ==
  [d EXCEPT !.dsubs = {e \in @ : e.name # n},
            !.mb[d.nextBox] = [ex |-> TRUE, rid |-> r, name |-> n, uv |-> uv, sub |-> TRUE,
                               fl |-> fs.fl, pf |-> fs.pf, at |-> fs.at, rows |-> <<>>, next |-> 1],
            !.nextBox = d.nextBox + 1]
NewBoxRec(d, r, n, uv) == [id |-> d.nextBox, rid |-> r, name |-> n, uv |-> uv, sub |-> TRUE]
CreateTag(d, r, n) == IF BoxByRid(d, r) # {} THEN "remote-id-taken" ELSE IF BoxByName(d, n) # {} THEN "name-taken" ELSE "new"

W_CreateMailbox == On("CreateMailbox") /\ \E r \in ArgP(BoxRids, FreeRids), n \in ArgP(BoxNames, FreeNames), fs \in Arg(BoxFlagSets), uv \in Arg(UVs) :
  LET tag == CreateTag(db, r, n) IN
  /\ db.nextBox <= MaxBox
  /\ DoWrite("CreateMailbox", [r |-> r, n |-> n, fs |-> fs, uv |-> uv],
             IF tag = "new" THEN Ok(NewBoxRec(db, r, n, uv)) ELSE Err, Sh(0, 0, tag), NewBox(db, r, n, fs, uv))

\* returns the mailbox with that remote id if there is one (whatever its name), creates it otherwise
GetOrCreate(op, withReply) == On(op) /\ \E r \in ArgP(BoxRids, FreeRids), n \in ArgP(BoxNames, FreeNames), fs \in Arg(BoxFlagSets), uv \in Arg(UVs) :
  LET S == BoxByRid(db, r)
      tag == IF S # {} THEN "existing" ELSE CreateTag(db, r, n) IN
  /\ S # {} \/ db.nextBox <= MaxBox
  /\ DoWrite(op, [r |-> r, n |-> n, fs |-> fs, uv |-> uv],
             IF tag = "name-taken" THEN Err
             ELSE IF ~withReply THEN Done
             ELSE IF tag = "existing" THEN Ok(MbRec(db, Pick(S))) ELSE Ok(NewBoxRec(db, r, n, uv)),
             Sh(0, 0, tag), IF tag = "existing" THEN db ELSE NewBox(db, r, n, fs, uv))

W_GetOrCreateMailbox == GetOrCreate("GetOrCreateMailbox", TRUE)
W_GetOrCreateMailboxAlt == GetOrCreate("GetOrCreateMailboxAlt", TRUE)
W_CreateMailboxIfNotExists == GetOrCreate("CreateMailboxIfNotExists", FALSE)

W_RenameMailboxWithRemoteID == On("RenameMailboxWithRemoteID") /\ \E r \in Arg(BoxRids), n \in Arg(BoxNames) :
  LET S == BoxByRid(db, r)
      tag == IF S = {} THEN "miss" ELSE IF BoxByName(db, n) \ S # {} THEN "name-taken"
             ELSE IF db.mb[Pick(S)].name = n THEN "same-name" ELSE "renamed" IN
  DoWrite("RenameMailboxWithRemoteID", [r |-> r, n |-> n], IF tag \in {"miss", "name-taken"} THEN Err ELSE Done,
          Sh(0, 0, tag), [db EXCEPT !.mb[Pick(S)].name = n, !.dsubs = {e \in @ : e.name # n}])

\* deleted subscriptions: name -> remote id, both unique
DSClash(S, n, r) == \E e \in S : e.rid = r /\ e.name # n
DSAdd(S, n, r) == {e \in S : e.name # n} \cup {[name |-> n, rid |-> r]}

W_DeleteMailboxWithRemoteID == On("DeleteMailboxWithRemoteID") /\ \E r \in Arg(BoxRids) :
  LET S == BoxByRid(db, r)
      b == Pick(S)
      clash == S # {} /\ db.mb[b].sub /\ DSClash(db.dsubs, db.mb[b].name, r)
      tag == IF S = {} THEN "miss" ELSE IF clash THEN "subscription-clash"
             ELSE IF db.mb[b].sub THEN "subscribed" ELSE "unsubscribed" IN
  DoWrite("DeleteMailboxWithRemoteID", [r |-> r], IF clash THEN Err ELSE Done,
          Sh(IF S = {} THEN 0 ELSE Len(Rows(db, b)), 0, tag),
          IF S = {} THEN db
          ELSE [db EXCEPT !.mb[b] = NoBox, !.m2b = {e \in @ : e.b # b},
                          !.dsubs = IF db.mb[b].sub THEN DSAdd(@, db.mb[b].name, r) ELSE @])

\* an empty list adds nothing and asks nothing, whatever the mailbox
W_AddMessagesToMailbox == On("AddMessagesToMailbox") /\ \E b \in ArgP(BoxArgs, ExBoxes(db)) : \E l \in ArgP(MsgLists, ListsOver({m \in ExMsgs(db) : ~InBox(db, m, b)})) :
  LET ok == {m \in Range(l) : MEx(db, m) /\ ~InBox(db, m, b)}
      good == Ex(db, b) /\ ok = Range(l)
      n0 == IF Ex(db, b) THEN db.mb[b].next ELSE 1
      new == [i \in 1..Len(l) |-> [uid |-> n0 + i - 1, m |-> l[i], del |-> FALSE, rec |-> TRUE]]
      nd == [db EXCEPT !.mb[b].rows = @ \o new, !.mb[b].next = @ + Len(l),
                       !.m2b = @ \cup {[m |-> m, b |-> b] : m \in Range(l)}] IN
  /\ (good /\ l # <<>>) => n0 + Len(l) - 1 <= MaxUid
  /\ DoWrite("AddMessagesToMailbox", [b |-> b, ml |-> l],
             IF l = <<>> THEN Ok({})
             ELSE IF ~good THEN Err
             ELSE Ok({SnapRow(nd, new[i]) : i \in 1..Len(l)}),
             Sh(Len(l), Card(ok), HM(Ex(db, b))), IF l = <<>> THEN db ELSE nd)

DropRows(rows, S) == SelectSeq(rows, LAMBDA row : row.m \notin S)

W_RemoveMessagesFromMailbox == On("RemoveMessagesFromMailbox") /\ \E b \in ArgP(BoxArgs, ExBoxes(db)) : \E l \in Arg(MsgLists) :
  LET hit == {m \in Range(l) : InBox(db, m, b)} IN
  DoWrite("RemoveMessagesFromMailbox", [b |-> b, ml |-> l],
          IF l = <<>> THEN Done ELSE IF Ex(db, b) THEN Done ELSE Err, Sh(Len(l), Card(hit), HM(Ex(db, b))),
          IF l = <<>> THEN db
          ELSE [db EXCEPT !.mb[b].rows = DropRows(@, Range(l)), !.m2b = {e \in @ : ~(e.b = b /\ e.m \in Range(l))}])

MapRows(rows, F(_)) == [i \in DOMAIN rows |-> F(rows[i])]

W_ClearRecentFlagInMailboxOnMessage == On("ClearRecentFlagInMailboxOnMessage") /\ \E b \in ArgP(BoxArgs, ExBoxes(db)) : \E m \in Arg(Msgs) :
  DoWrite("ClearRecentFlagInMailboxOnMessage", [b |-> b, m |-> m], IF Ex(db, b) THEN Done ELSE Err,
          Sh(0, 0, IF ~Ex(db, b) THEN "miss" ELSE IF ~InBox(db, m, b) THEN "not-in-mailbox"
                   ELSE IF m \in RecentMsgs(db, b) THEN "recent" ELSE "not-recent"),
          [db EXCEPT !.mb[b].rows = MapRows(@, LAMBDA row : IF row.m = m THEN [row EXCEPT !.rec = FALSE] ELSE row)])

W_ClearRecentFlagsInMailbox == On("ClearRecentFlagsInMailbox") /\ \E b \in ArgP(BoxArgs, ExBoxes(db)) :
  DoWrite("ClearRecentFlagsInMailbox", [b |-> b], IF Ex(db, b) THEN Done ELSE Err,
          IF Ex(db, b) THEN Sh(Len(Rows(db, b)), Card(RecentMsgs(db, b)), "hit") ELSE Sh(0, 0, "miss"),
          [db EXCEPT !.mb[b].rows = MapRows(@, LAMBDA row : [row EXCEPT !.rec = FALSE])])

W_SetMailboxMessagesDeletedFlag == On("SetMailboxMessagesDeletedFlag") /\ \E b \in ArgP(BoxArgs, ExBoxes(db)) : \E l \in Arg(MsgLists) : \E d \in Arg(BOOLEAN) :
  LET hit == {m \in Range(l) : InBox(db, m, b)} IN
  DoWrite("SetMailboxMessagesDeletedFlag", [b |-> b, ml |-> l, d |-> d],
          IF l = <<>> THEN Done ELSE IF Ex(db, b) THEN Done ELSE Err,
          Sh(Len(l), Card(hit), IF ~Ex(db, b) THEN "miss" ELSE IF d THEN "set" ELSE "clear"),
          IF l = <<>> THEN db
          ELSE [db EXCEPT !.mb[b].rows = MapRows(@, LAMBDA row : IF row.m \in Range(l) THEN [row EXCEPT !.del = d] ELSE row)])

\* no check that the mailbox exists: nothing to update is not an error
W_SetMailboxSubscribed == On("SetMailboxSubscribed") /\ \E b \in ArgP(BoxArgs, ExBoxes(db)) : \E s \in Arg(BOOLEAN) :
  DoWrite("SetMailboxSubscribed", [b |-> b, s |-> s], Done,
          Sh(0, 0, IF ~Ex(db, b) THEN "miss" ELSE IF s THEN "subscribe" ELSE "unsubscribe"),
          IF Ex(db, b) THEN [db EXCEPT !.mb[b].sub = s] ELSE db)

W_UpdateRemoteMailboxID == On("UpdateRemoteMailboxID") /\ \E b \in ArgP(BoxArgs, ExBoxes(db)) : \E r \in Arg(BoxRids) :
  LET tag == IF ~Ex(db, b) THEN "miss" ELSE IF BoxByRid(db, r) \ {b} # {} THEN "remote-id-taken"
             ELSE IF db.mb[b].rid = r THEN "same-id" ELSE "changed" IN
  DoWrite("UpdateRemoteMailboxID", [b |-> b, r |-> r], IF tag \in {"miss", "remote-id-taken"} THEN Err ELSE Done,
          Sh(0, 0, tag), [db EXCEPT !.mb[b].rid = r])

W_SetMailboxUIDValidity == On("SetMailboxUIDValidity") /\ \E b \in ArgP(BoxArgs, ExBoxes(db)) : \E uv \in Arg(UVs) :
  DoWrite("SetMailboxUIDValidity", [b |-> b, uv |-> uv], IF Ex(db, b) THEN Done ELSE Err, Sh(0, 0, HM(Ex(db, b))),
          [db EXCEPT !.mb[b].uv = uv])

\* adding no flag at all changes nothing
W_AddFlagsToAllMailboxes == On("AddFlagsToAllMailboxes") /\ \E F \in Arg(FlagSets) :
  DoWrite("AddFlagsToAllMailboxes", [fl |-> F], Done, Sh(Card(F), Card(ExBoxes(db)), ""),
          [db EXCEPT !.mb = [b \in BoxIds |-> IF db.mb[b].ex THEN [db.mb[b] EXCEPT !.fl = @ \cup F] ELSE db.mb[b]]])

W_AddPermFlagsToAllMailboxes == On("AddPermFlagsToAllMailboxes") /\ \E F \in Arg(FlagSets) :
  DoWrite("AddPermFlagsToAllMailboxes", [fl |-> F], Done, Sh(Card(F), Card(ExBoxes(db)), ""),
          [db EXCEPT !.mb = [b \in BoxIds |-> IF db.mb[b].ex THEN [db.mb[b] EXCEPT !.pf = @ \cup F] ELSE db.mb[b]]])

-----------------------------------------------------------------------------
(* write operations: messages *)

\* a new message m arrives with its home remote id (= m); remote ids are unique among messages
CanCreate(d, S) == \A m \in S : ~MEx(d, m) /\ MsgByRid(d, m) = {}

W_CreateMessages == On("CreateMessages") /\ \E l \in ArgP(MsgLists, ListsOver(Msgs \ ExMsgs(db))) : \E F \in Arg(FlagSets) :
  LET ok == {m \in Range(l) : CanCreate(db, {m})} IN
  DoWrite("CreateMessages", [ml |-> l, fl |-> F], IF ok = Range(l) THEN Done ELSE Err, Sh(Len(l), Card(ok), ""),
          [db EXCEPT !.msgs = [m \in Msgs |-> IF m \in Range(l) THEN [ex |-> TRUE, rid |-> m, del |-> FALSE, fl |-> F]
                                              ELSE db.msgs[m]]])

W_CreateMessageAndAddToMailbox == On("CreateMessageAndAddToMailbox") /\ \E b \in ArgP(BoxArgs, ExBoxes(db)) : \E m \in ArgP(Msgs, Msgs \ ExMsgs(db)) : \E F \in Arg(FlagSets) :
  LET good == CanCreate(db, {m}) /\ Ex(db, b)
      n0 == IF Ex(db, b) THEN db.mb[b].next ELSE 1 IN
  /\ good => n0 <= MaxUid
  /\ DoWrite("CreateMessageAndAddToMailbox", [b |-> b, m |-> m, fl |-> F],
             IF good THEN Ok([uid |-> n0, fl |-> F \cup {Recent}]) ELSE Err,
             Sh(Card(F), 0, IF ~CanCreate(db, {m}) THEN "message-exists" ELSE HM(Ex(db, b))),
             [db EXCEPT !.msgs[m] = [ex |-> TRUE, rid |-> m, del |-> FALSE, fl |-> F],
                        !.mb[b].rows = Append(@, [uid |-> n0, m |-> m, del |-> FALSE, rec |-> TRUE]),
                        !.mb[b].next = @ + 1,
                        !.m2b = @ \cup {[m |-> m, b |-> b]}])

W_MarkMessageAsDeleted == On("MarkMessageAsDeleted") /\ \E m \in Arg(Msgs) :
  DoWrite("MarkMessageAsDeleted", [m |-> m], Done, Sh(0, 0, HM(MEx(db, m))),
          IF MEx(db, m) THEN [db EXCEPT !.msgs[m].del = TRUE] ELSE db)

\* domain of the operation: a message that has been removed from every mailbox (that is how gluon uses it; the
\* remote id copied into mailbox rows would otherwise be left behind)
W_MarkMessageAsDeletedAndAssignRandomRemoteID == On("MarkMessageAsDeletedAndAssignRandomRemoteID") /\ \E m \in Arg(Msgs) :
  /\ BoxesOf(db, m) = {}
  /\ DoWrite("MarkMessageAsDeletedAndAssignRandomRemoteID", [m |-> m], Done, Sh(0, 0, HM(MEx(db, m))),
             IF MEx(db, m) THEN [db EXCEPT !.msgs[m].del = TRUE, !.msgs[m].rid = Rnd] ELSE db)

W_MarkMessageAsDeletedWithRemoteID == On("MarkMessageAsDeletedWithRemoteID") /\ \E r \in Arg(MsgRids) :
  LET S == MsgByRid(db, r) IN
  DoWrite("MarkMessageAsDeletedWithRemoteID", [r |-> r], Done, Sh(0, 0, HM(S # {})),
          IF S # {} THEN [db EXCEPT !.msgs[Pick(S)].del = TRUE] ELSE db)

\* a message that is still in a mailbox cannot be deleted (the mailbox row refers to it)
W_DeleteMessages == On("DeleteMessages") /\ \E l \in ArgP(MsgLists, ListsOver({m \in Msgs : BoxesOf(db, m) = {}})) :
  LET hit == {m \in Range(l) : MEx(db, m)}
      held == {m \in hit : BoxesOf(db, m) # {}} IN
  DoWrite("DeleteMessages", [ml |-> l], IF held # {} THEN Err ELSE Done,
          Sh(Len(l), Card(hit), IF held # {} THEN "still-in-mailbox" ELSE ""),
          [db EXCEPT !.msgs = [m \in Msgs |-> IF m \in Range(l) THEN NoMsg ELSE db.msgs[m]],
                     !.m2b = {e \in @ : e.m \notin Range(l)}])

\* sets the remote id of that message (one attribute of the message, wherever it is shown)
W_UpdateRemoteMessageID == On("UpdateRemoteMessageID") /\ \E m \in ArgP(Msgs, ExMsgs(db)) : \E r \in Arg(MsgRids) :
  LET tag == IF ~MEx(db, m) THEN "miss" ELSE IF MsgByRid(db, r) \ {m} # {} THEN "remote-id-taken"
             ELSE IF db.msgs[m].rid = r THEN "same-id" ELSE "changed" IN
  DoWrite("UpdateRemoteMessageID", [m |-> m, r |-> r], IF tag \in {"miss", "remote-id-taken"} THEN Err ELSE Done,
          Sh(Card(BoxesOf(db, m)), 0, tag), [db EXCEPT !.msgs[m].rid = r])

\* a flag can only be attached to an existing message
W_AddFlagToMessages == On("AddFlagToMessages") /\ \E l \in ArgP(MsgLists, ListsOver(ExMsgs(db))) : \E f \in Arg(Flags) :
  LET hit == {m \in Range(l) : MEx(db, m)} IN
  DoWrite("AddFlagToMessages", [ml |-> l, f |-> f], IF hit = Range(l) THEN Done ELSE Err,
          Sh(Len(l), Card({m \in hit : f \notin db.msgs[m].fl}), IF hit = Range(l) THEN "" ELSE "unknown-message"),
          [db EXCEPT !.msgs = [m \in Msgs |-> IF m \in Range(l) THEN [db.msgs[m] EXCEPT !.fl = @ \cup {f}] ELSE db.msgs[m]]])

W_RemoveFlagFromMessages == On("RemoveFlagFromMessages") /\ \E l \in Arg(MsgLists) : \E f \in Arg(Flags) :
  LET hit == {m \in Range(l) : MEx(db, m)} IN
  DoWrite("RemoveFlagFromMessages", [ml |-> l, f |-> f], Done,
          Sh(Len(l), Card({m \in hit : f \in db.msgs[m].fl}), ""),
          [db EXCEPT !.msgs = [m \in Msgs |-> IF m \in hit THEN [db.msgs[m] EXCEPT !.fl = @ \ {f}] ELSE db.msgs[m]]])

W_SetFlagsOnMessages == On("SetFlagsOnMessages") /\ \E l \in ArgP(MsgLists, ListsOver(ExMsgs(db))) : \E F \in Arg(FlagSets) :
  LET hit == {m \in Range(l) : MEx(db, m)}
      bad == F # {} /\ hit # Range(l) IN
  DoWrite("SetFlagsOnMessages", [ml |-> l, fl |-> F], IF bad THEN Err ELSE Done,
          Sh(Len(l), Card(hit), IF bad THEN "unknown-message" ELSE IF F = {} THEN "clear" ELSE "set"),
          [db EXCEPT !.msgs = [m \in Msgs |-> IF m \in hit THEN [db.msgs[m] EXCEPT !.fl = F] ELSE db.msgs[m]]])

-----------------------------------------------------------------------------
(* write operations: deleted subscriptions, settings *)

W_AddDeletedSubscription == On("AddDeletedSubscription") /\ \E n \in Arg(BoxNames) : \E r \in Arg(BoxRids) :
  LET clash == DSClash(db.dsubs, n, r)
      tag == IF clash THEN "remote-id-taken" ELSE IF \E e \in db.dsubs : e.name = n THEN "replace" ELSE "new" IN
  DoWrite("AddDeletedSubscription", [n |-> n, r |-> r], IF clash THEN Err ELSE Done, Sh(0, 0, tag),
          [db EXCEPT !.dsubs = DSAdd(@, n, r)])

W_RemoveDeletedSubscriptionWithName == On("RemoveDeletedSubscriptionWithName") /\ \E n \in Arg(BoxNames) :
  LET S == {e \in db.dsubs : e.name = n} IN
  DoWrite("RemoveDeletedSubscriptionWithName", [n |-> n], Ok(Card(S)), Sh(0, 0, HM(S # {})),
          [db EXCEPT !.dsubs = @ \ S])

W_StoreConnectorSettings == On("StoreConnectorSettings") /\ \E s \in Arg(SettingsVals) :
  DoWrite("StoreConnectorSettings", [s |-> s], Done, Sh(0, 0, IF db.settings = SNull THEN "first" ELSE "again"),
          [db EXCEPT !.settings = s])

-----------------------------------------------------------------------------
Init ==
  /\ db = EmptyDB /\ saved = EmptyDB /\ tx = "none" /\ nops = 0
  /\ last = [op |-> "Init", kind |-> "tx", a |-> [x |-> ""], r |-> Done, sh |-> Sh(0, 0, "")]
  /\ steps = 0 /\ hist = <<>>
  /\ nextop = IF Record THEN "BeginWrite" ELSE ""
  /\ goal = FALSE
  /\ TLCSet(1, {})

Reads ==
  \/ R_MailboxExistsWithID \/ R_MailboxExistsWithRemoteID \/ R_MailboxExistsWithName \/ R_GetMailboxIDFromRemoteID
  \/ R_GetMailboxName \/ R_GetMailboxNameWithRemoteID \/ R_GetMailboxMessageIDPairs \/ R_GetAllMailboxesWithAttr
  \/ R_GetAllMailboxesAsRemoteIDs \/ R_GetMailboxByName \/ R_GetMailboxByID \/ R_GetMailboxByRemoteID
  \/ R_GetMailboxRecentCount \/ R_GetMailboxMessageCount \/ R_GetMailboxMessageCountWithRemoteID \/ R_GetMailboxFlags
  \/ R_GetMailboxPermanentFlags \/ R_GetMailboxAttributes \/ R_GetMailboxUID \/ R_GetMailboxMessageCountAndUID
  \/ R_GetMailboxMessageForNewSnapshot \/ R_MailboxTranslateRemoteIDs \/ R_MailboxFilterContains \/ R_GetMailboxCount
  \/ R_GetAllMailboxesNameAndRemoteID \/ R_MessageExists \/ R_MessageExistsWithRemoteID \/ R_GetMessageNoEdges
  \/ R_GetTotalMessageCount \/ R_GetMessageRemoteID \/ R_GetImportedMessageData \/ R_GetMessageDateAndSize
  \/ R_GetMessageMailboxIDs \/ R_GetMessagesFlags \/ R_GetMessageIDsMarkedAsDelete \/ R_GetMessageIDFromRemoteID
  \/ R_GetMessageDeletedFlag \/ R_GetAllMessagesIDsAsMap \/ R_GetDeletedSubscriptionSet \/ R_GetConnectorSettings

Writes ==
  \/ W_CreateMailbox \/ W_GetOrCreateMailbox \/ W_GetOrCreateMailboxAlt \/ W_CreateMailboxIfNotExists
  \/ W_RenameMailboxWithRemoteID \/ W_DeleteMailboxWithRemoteID \/ W_AddMessagesToMailbox \/ W_RemoveMessagesFromMailbox
  \/ W_ClearRecentFlagInMailboxOnMessage \/ W_ClearRecentFlagsInMailbox \/ W_SetMailboxMessagesDeletedFlag
  \/ W_SetMailboxSubscribed \/ W_UpdateRemoteMailboxID \/ W_SetMailboxUIDValidity \/ W_AddFlagsToAllMailboxes
  \/ W_AddPermFlagsToAllMailboxes \/ W_CreateMessages \/ W_CreateMessageAndAddToMailbox \/ W_MarkMessageAsDeleted
  \/ W_MarkMessageAsDeletedAndAssignRandomRemoteID \/ W_MarkMessageAsDeletedWithRemoteID \/ W_DeleteMessages
  \/ W_UpdateRemoteMessageID \/ W_AddFlagToMessages \/ W_RemoveFlagFromMessages \/ W_SetFlagsOnMessages
  \/ W_AddDeletedSubscription \/ W_RemoveDeletedSubscriptionWithName \/ W_StoreConnectorSettings

TxSteps == BeginWrite \/ Commit \/ Abort("AbortError") \/ Abort("AbortPanic")

Next == TxSteps \/ Reads \/ Writes

\* simulation: an operation with a bound of its own (ids, uids) may have no step here; schedule another one
BoundedOps == {"CreateMailbox", "GetOrCreateMailbox", "GetOrCreateMailboxAlt", "CreateMailboxIfNotExists",
               "AddMessagesToMailbox", "CreateMessageAndAddToMailbox", "MarkMessageAsDeletedAndAssignRandomRemoteID"}
Respin == /\ Record /\ nextop \in BoundedOps /\ steps < MaxSteps
          /\ UNCHANGED <<db, saved, tx, nops, last, steps, hist, goal>>
          /\ Spin
SimNext == Next \/ Respin

Spec == Init /\ [][Next]_vars

-----------------------------------------------------------------------------
(* output *)

\* simulation: one JSON document per finished behaviour
EmitBehaviour == (Record /\ steps >= MaxSteps /\ tx = "none") => PrintT(ToJson([trace |-> hist]))

\* directed search: violated by the shortest behaviour that takes the target label and ends outside a transaction
\* (TLC writes it with -dumpTrace; the harness replays it)
NotReached == ~(goal /\ tx = "none")

\* exhaustive: every (operation, reply class, shape) of the bounded model, once per worker
LabelOf(l) == [op |-> l.op, cls |-> l.r.cls, n |-> l.sh.n, k |-> l.sh.k, v |-> l.sh.v]
PrintLabels ==
  EmitLabels =>
    LET lab == LabelOf(last') IN
    IF lab \in TLCGet(1) THEN TRUE ELSE TLCSet(1, TLCGet(1) \cup {lab}) /\ PrintT(ToJson(lab))

-----------------------------------------------------------------------------
(* the design of the model itself, checked by TLC on every reachable state *)

RowsAscending == \A b \in ExBoxes(db) :
  /\ \A i \in DOMAIN Rows(db, b) : Rows(db, b)[i].uid >= 1 /\ Rows(db, b)[i].uid < db.mb[b].next
  /\ \A i, j \in DOMAIN Rows(db, b) : i < j => Rows(db, b)[i].uid < Rows(db, b)[j].uid

RowsDistinct == \A b \in ExBoxes(db) : \A i, j \in DOMAIN Rows(db, b) : i # j => Rows(db, b)[i].m # Rows(db, b)[j].m

RowsReferToMessages == \A b \in ExBoxes(db) : RowMsgs(db, b) \subseteq ExMsgs(db)

MembershipConsistent == db.m2b = {e \in [m : Msgs, b : BoxIds] : InBox(db, e.m, e.b)}

UniqueKeys ==
  /\ \A b1, b2 \in ExBoxes(db) : b1 # b2 => db.mb[b1].rid # db.mb[b2].rid /\ db.mb[b1].name # db.mb[b2].name
  /\ \A m1, m2 \in ExMsgs(db) : (m1 # m2 /\ db.msgs[m1].rid # Rnd) => db.msgs[m1].rid # db.msgs[m2].rid
  /\ \A e1, e2 \in db.dsubs : e1 # e2 => e1.name # e2.name /\ e1.rid # e2.rid

AbsentIsCanonical ==
  /\ \A b \in BoxIds : ~db.mb[b].ex => db.mb[b] = NoBox
  /\ \A b \in BoxIds : b >= db.nextBox => ~db.mb[b].ex
  /\ \A m \in Msgs : ~db.msgs[m].ex => db.msgs[m] = NoMsg

OutsideTxNothingPending == tx = "none" => (saved = db /\ nops = 0)

TypeOK ==
  /\ tx \in {"none", "write", "poisoned"}
  /\ nops \in 0..MaxTxOps
  /\ db.nextBox \in 1..(MaxBox + 1)
  /\ \A b \in ExBoxes(db) : db.mb[b].rid \in BoxRids /\ db.mb[b].name \in BoxNames /\ db.mb[b].uv \in UVs
  /\ \A m \in ExMsgs(db) : db.msgs[m].rid \in MsgRids \cup {Rnd} /\ db.msgs[m].fl \subseteq Flags

\* action properties
ReadsChangeNothing == [][last'.kind = "read" => (db' = db /\ tx' = tx /\ saved' = saved)]_vars
AbortRestores == [][last'.op \in {"AbortError", "AbortPanic"} => (db' = saved /\ tx' = "none")]_vars
CommitKeeps == [][last'.op = "Commit" => (db' = db /\ tx' = "none")]_vars
FailedWritePoisons == [][(last'.kind = "write" /\ last'.r.cls = "error") => tx' = "poisoned"]_vars
CountersNeverDecreaseInTx ==
  [][tx' # "none" => (db'.nextBox >= db.nextBox /\ \A b \in BoxIds : (db.mb[b].ex /\ db'.mb[b].ex) => db'.mb[b].next >= db.mb[b].next)]_vars
UidsAreNeverReused ==
  [][tx' # "none" => \A b \in BoxIds : (db.mb[b].ex /\ db'.mb[b].ex) =>
       \A i \in DOMAIN db'.mb[b].rows :
          (\E j \in DOMAIN db.mb[b].rows : db.mb[b].rows[j].uid = db'.mb[b].rows[i].uid /\ db.mb[b].rows[j].m = db'.mb[b].rows[i].m)
          \/ db'.mb[b].rows[i].uid >= db.mb[b].next]_vars

-----------------------------------------------------------------------------
(* values for the cfg files *)
MO_1 == <<"m1">>
MO_2 == <<"m1", "m2">>
MO_3 == <<"m1", "m2", "m3">>
MO_0 == <<>>
RO_1 == <<"A">>
RO_2 == <<"A", "B">>
RO_3 == <<"A", "B", "C">>
BFS_One == {[fl |-> {"f1"}, pf |-> {"f1"}, at |-> {}]}
BFS_Two == {[fl |-> {"f1"}, pf |-> {"f1"}, at |-> {}], [fl |-> {"f1", "f2"}, pf |-> {}, at |-> {"f2"}]}
BFS_Three == {[fl |-> {}, pf |-> {}, at |-> {}], [fl |-> {"f1"}, pf |-> {"f1"}, at |-> {"f1"}], [fl |-> {"f1", "f2"}, pf |-> {"f2"}, at |-> {"f1", "f2"}]}

Ops_All == AllOps
Ops_Tx == Range(TxOps)
Ops_Mailbox == Ops_Tx \cup {"MailboxExistsWithID", "MailboxExistsWithRemoteID", "MailboxExistsWithName", "GetMailboxIDFromRemoteID",
  "GetMailboxName", "GetMailboxNameWithRemoteID", "GetAllMailboxesWithAttr", "GetAllMailboxesAsRemoteIDs", "GetMailboxByName",
  "GetMailboxByID", "GetMailboxByRemoteID", "GetMailboxFlags", "GetMailboxPermanentFlags", "GetMailboxAttributes",
  "MailboxTranslateRemoteIDs", "GetMailboxCount", "GetAllMailboxesNameAndRemoteID", "GetDeletedSubscriptionSet",
  "GetConnectorSettings", "CreateMailbox", "GetOrCreateMailbox", "GetOrCreateMailboxAlt", "CreateMailboxIfNotExists",
  "RenameMailboxWithRemoteID", "DeleteMailboxWithRemoteID", "SetMailboxSubscribed", "UpdateRemoteMailboxID",
  "SetMailboxUIDValidity", "AddFlagsToAllMailboxes", "AddPermFlagsToAllMailboxes", "AddDeletedSubscription",
  "RemoveDeletedSubscriptionWithName", "StoreConnectorSettings"}
Ops_Message == Ops_Tx \cup {"MessageExists", "MessageExistsWithRemoteID", "GetMessageNoEdges", "GetTotalMessageCount",
  "GetMessageRemoteID", "GetImportedMessageData", "GetMessageDateAndSize", "GetMessageMailboxIDs", "GetMessagesFlags",
  "GetMessageIDsMarkedAsDelete", "GetMessageIDFromRemoteID", "GetMessageDeletedFlag", "GetAllMessagesIDsAsMap",
  "CreateMessages", "MarkMessageAsDeleted", "MarkMessageAsDeletedAndAssignRandomRemoteID", "MarkMessageAsDeletedWithRemoteID",
  "DeleteMessages", "UpdateRemoteMessageID", "AddFlagToMessages", "RemoveFlagFromMessages", "SetFlagsOnMessages"}
Ops_Membership == Ops_Tx \cup {"GetMailboxMessageIDPairs", "GetMailboxRecentCount", "GetMailboxMessageCount",
  "GetMailboxMessageCountWithRemoteID", "GetMailboxUID", "GetMailboxMessageCountAndUID", "GetMailboxMessageForNewSnapshot",
  "MailboxFilterContains", "GetMessageMailboxIDs", "GetTotalMessageCount", "CreateMailbox", "DeleteMailboxWithRemoteID",
  "AddMessagesToMailbox", "RemoveMessagesFromMailbox", "ClearRecentFlagInMailboxOnMessage", "ClearRecentFlagsInMailbox",
  "SetMailboxMessagesDeletedFlag", "CreateMessages", "CreateMessageAndAddToMailbox", "DeleteMessages",
  "UpdateRemoteMessageID", "MarkMessageAsDeletedAndAssignRandomRemoteID", "AddFlagToMessages"}
Ops_MembershipCore == Ops_Membership \ {"UpdateRemoteMessageID", "MarkMessageAsDeletedAndAssignRandomRemoteID", "AddFlagToMessages",
  "GetMailboxMessageCountWithRemoteID", "GetTotalMessageCount"}
Ops_MailboxThree == Ops_Mailbox \ {"AddPermFlagsToAllMailboxes", "GetMailboxPermanentFlags", "AddFlagsToAllMailboxes", "GetMailboxFlags",
  "GetMailboxAttributes", "SetMailboxUIDValidity", "StoreConnectorSettings", "GetConnectorSettings", "AddDeletedSubscription",
  "RemoveDeletedSubscriptionWithName"}
\* the remote id of a message that is shown in several mailboxes (every mailbox table keeps a copy of it)
Ops_RemoteID == Ops_Tx \cup {"CreateMailbox", "CreateMessages", "AddMessagesToMailbox", "RemoveMessagesFromMailbox", "UpdateRemoteMessageID",
  "GetMailboxMessageIDPairs", "GetMailboxMessageForNewSnapshot", "GetMessageRemoteID", "GetMessageIDFromRemoteID"}
Ops_TwoBox == Ops_MembershipCore \ {"ClearRecentFlagInMailboxOnMessage", "ClearRecentFlagsInMailbox", "SetMailboxMessagesDeletedFlag"}
=============================================================================
