---- MODULE GluonIdle_TTrace_1790410929 ----
EXTENDS Sequences, TLCExt, Toolbox, Naturals, TLC, GluonIdle

_expression ==
    LET GluonIdle_TEExpression == INSTANCE GluonIdle_TEExpression
    IN GluonIdle_TEExpression!expression
----

_trace ==
    LET GluonIdle_TETrace == INSTANCE GluonIdle_TETrace
    IN GluonIdle_TETrace!trace
----

_inv ==
    ~(
        TLCGet("level") = Len(_TETrace)
        /\
        mirror = (<<"?", "?">>)
        /\
        bad = ("count-differs")
        /\
        last = ([act |-> "Probe", k |-> "", n |-> 1])
        /\
        ticks = (0)
        /\
        nextUid = (3)
        /\
        probed = (TRUE)
        /\
        pushes = (1)
        /\
        afters = (0)
        /\
        hist = (<<>>)
        /\
        buf = (<<[seen |-> "?", k |-> "expunge", n |-> 1]>>)
        /\
        pc = ("ready")
        /\
        sender = ("running")
        /\
        closed = (TRUE)
        /\
        snap = (<<[seen |-> FALSE, uid |-> 2]>>)
    )
----

_init ==
    /\ bad = _TETrace[1].bad
    /\ mirror = _TETrace[1].mirror
    /\ nextUid = _TETrace[1].nextUid
    /\ snap = _TETrace[1].snap
    /\ ticks = _TETrace[1].ticks
    /\ pc = _TETrace[1].pc
    /\ sender = _TETrace[1].sender
    /\ hist = _TETrace[1].hist
    /\ probed = _TETrace[1].probed
    /\ afters = _TETrace[1].afters
    /\ last = _TETrace[1].last
    /\ pushes = _TETrace[1].pushes
    /\ buf = _TETrace[1].buf
    /\ closed = _TETrace[1].closed
----

_next ==
    /\ \E i,j \in DOMAIN _TETrace:
        /\ \/ /\ j = i + 1
              /\ i = TLCGet("level")
        /\ bad  = _TETrace[i].bad
        /\ bad' = _TETrace[j].bad
        /\ mirror  = _TETrace[i].mirror
        /\ mirror' = _TETrace[j].mirror
        /\ nextUid  = _TETrace[i].nextUid
        /\ nextUid' = _TETrace[j].nextUid
        /\ snap  = _TETrace[i].snap
        /\ snap' = _TETrace[j].snap
        /\ ticks  = _TETrace[i].ticks
        /\ ticks' = _TETrace[j].ticks
        /\ pc  = _TETrace[i].pc
        /\ pc' = _TETrace[j].pc
        /\ sender  = _TETrace[i].sender
        /\ sender' = _TETrace[j].sender
        /\ hist  = _TETrace[i].hist
        /\ hist' = _TETrace[j].hist
        /\ probed  = _TETrace[i].probed
        /\ probed' = _TETrace[j].probed
        /\ afters  = _TETrace[i].afters
        /\ afters' = _TETrace[j].afters
        /\ last  = _TETrace[i].last
        /\ last' = _TETrace[j].last
        /\ pushes  = _TETrace[i].pushes
        /\ pushes' = _TETrace[j].pushes
        /\ buf  = _TETrace[i].buf
        /\ buf' = _TETrace[j].buf
        /\ closed  = _TETrace[i].closed
        /\ closed' = _TETrace[j].closed

\* Uncomment the ASSUME below to write the states of the error trace
\* to the given file in Json format. Note that you can pass any tuple
\* to `JsonSerialize`. For example, a sub-sequence of _TETrace.
    \* ASSUME
    \*     LET J == INSTANCE Json
    \*         IN J!JsonSerialize("GluonIdle_TTrace_1790410929.json", _TETrace)

=============================================================================

 Note that you can extract this module `GluonIdle_TEExpression`
  to a dedicated file to reuse `expression` (the module in the 
  dedicated `GluonIdle_TEExpression.tla` file takes precedence 
  over the module `GluonIdle_TEExpression` below).

---- MODULE GluonIdle_TEExpression ----
EXTENDS Sequences, TLCExt, Toolbox, Naturals, TLC, GluonIdle

expression == 
    [
        \* To hide variables of the `GluonIdle` spec from the error trace,
        \* remove the variables below.  The trace will be written in the order
        \* of the fields of this record.
        bad |-> bad
        ,mirror |-> mirror
        ,nextUid |-> nextUid
        ,snap |-> snap
        ,ticks |-> ticks
        ,pc |-> pc
        ,sender |-> sender
        ,hist |-> hist
        ,probed |-> probed
        ,afters |-> afters
        ,last |-> last
        ,pushes |-> pushes
        ,buf |-> buf
        ,closed |-> closed
        
        \* Put additional constant-, state-, and action-level expressions here:
        \* ,_stateNumber |-> _TEPosition
        \* ,_badUnchanged |-> bad = bad'
        
        \* Format the `bad` variable as Json value.
        \* ,_badJson |->
        \*     LET J == INSTANCE Json
        \*     IN J!ToJson(bad)
        
        \* Lastly, you may build expressions over arbitrary sets of states by
        \* leveraging the _TETrace operator.  For example, this is how to
        \* count the number of times a spec variable changed up to the current
        \* state in the trace.
        \* ,_badModCount |->
        \*     LET F[s \in DOMAIN _TETrace] ==
        \*         IF s = 1 THEN 0
        \*         ELSE IF _TETrace[s].bad # _TETrace[s-1].bad
        \*             THEN 1 + F[s-1] ELSE F[s-1]
        \*     IN F[_TEPosition - 1]
    ]

=============================================================================



Parsing and semantic processing can take forever if the trace below is long.
 In this case, it is advised to uncomment the module below to deserialize the
 trace from a generated binary file.

\*
\*---- MODULE GluonIdle_TETrace ----
\*EXTENDS IOUtils, TLC, GluonIdle
\*
\*trace == IODeserialize("GluonIdle_TTrace_1790410929.bin", TRUE)
\*
\*=============================================================================
\*

---- MODULE GluonIdle_TETrace ----
EXTENDS TLC, GluonIdle

trace == 
    <<
    ([mirror |-> <<"?", "?">>,bad |-> "",last |-> [act |-> "Init", k |-> "", n |-> 0],ticks |-> 0,nextUid |-> 3,probed |-> FALSE,pushes |-> 0,afters |-> 0,hist |-> <<>>,buf |-> <<>>,pc |-> "idling",sender |-> "running",closed |-> FALSE,snap |-> <<[seen |-> FALSE, uid |-> 1], [seen |-> FALSE, uid |-> 2]>>]),
    ([mirror |-> <<"?", "?">>,bad |-> "",last |-> [act |-> "Push", k |-> "expunge", n |-> 1],ticks |-> 0,nextUid |-> 3,probed |-> FALSE,pushes |-> 1,afters |-> 0,hist |-> <<>>,buf |-> <<[seen |-> "?", k |-> "expunge", n |-> 1]>>,pc |-> "idling",sender |-> "running",closed |-> FALSE,snap |-> <<[seen |-> FALSE, uid |-> 2]>>]),
    ([mirror |-> <<"?", "?">>,bad |-> "",last |-> [act |-> "Done", k |-> "", n |-> 1],ticks |-> 0,nextUid |-> 3,probed |-> FALSE,pushes |-> 1,afters |-> 0,hist |-> <<>>,buf |-> <<[seen |-> "?", k |-> "expunge", n |-> 1]>>,pc |-> "ready",sender |-> "running",closed |-> TRUE,snap |-> <<[seen |-> FALSE, uid |-> 2]>>]),
    ([mirror |-> <<"?", "?">>,bad |-> "count-differs",last |-> [act |-> "Probe", k |-> "", n |-> 1],ticks |-> 0,nextUid |-> 3,probed |-> TRUE,pushes |-> 1,afters |-> 0,hist |-> <<>>,buf |-> <<[seen |-> "?", k |-> "expunge", n |-> 1]>>,pc |-> "ready",sender |-> "running",closed |-> TRUE,snap |-> <<[seen |-> FALSE, uid |-> 2]>>])
    >>
----


=============================================================================

---- CONFIG GluonIdle_TTrace_1790410929 ----
CONSTANTS
    Start = 2
    Kinds = { "exists" , "expunge" , "seen" }
    MaxPush = 3
    MaxTick = 2
    MaxAfter = 2
    FlushBeforeOk = FALSE
    Record = FALSE

INVARIANT
    _inv

CHECK_DEADLOCK
    \* CHECK_DEADLOCK off because of PROPERTY or INVARIANT above.
    FALSE

INIT
    _init

NEXT
    _next

CONSTANT
    _TETrace <- _trace

ALIAS
    _expression
=============================================================================
\* Generated on Sat Sep 26 08:22:10 UTC 2026