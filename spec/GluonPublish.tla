--------------------------- MODULE GluonPublish ---------------------------
(***************************************************************************)
(* C02 under true concurrency: the order in which state updates are        *)
(* PUBLISHED is not the order in which the changes were COMMITTED.         *)
(*                                                                         *)
(* A state-changing command (internal/state/state.go: stateDBWrite,        *)
(* stateDBWriteResult) works in two database transactions:                 *)
(*   Commit(a)   the first transaction changes the database and computes   *)
(*               the state updates that describe the change                *)
(*   Publish(a)  a SECOND transaction (QueueOrApplyStateUpdate) applies    *)
(*               them to the command's own state and appends them to the   *)
(*               update queue of every other state                         *)
(* The connector's updates do the same without any lock at all around the  *)
(* second half (internal/backend/connector_updates.go: userDBWrite:        *)
(* db.Write, then queueStateUpdate).  Sessions run in their own            *)
(* goroutines and the database lock is released between the two halves,    *)
(* so Commit and Publish of different parties interleave freely.           *)
(*                                                                         *)
(* The module follows ONE message m of mailbox A and ONE observing session *)
(* o that has A selected and only ever sends NOOP.  The acting parties     *)
(* (two sessions and the connector) each perform one operation out of Ops: *)
(*   addSeen / remSeen   STORE +FLAGS / -FLAGS (\Seen) resp. the           *)
(*                       connector's MessageFlagsUpdated: an update is     *)
(*                       produced only when the database value changes     *)
(*   moveOut             MOVE of m from A to B (EXPUNGE for A)             *)
(*   moveIn              MOVE / COPY of m into A: a new UID (EXISTS for A; *)
(*                       when m is in A already it is removed first)       *)
(*                                                                         *)
(* Ordered = TRUE is the intended design: an operation is published        *)
(* before any later commit (Commit and Publish are one critical section -  *)
(* what the code does since fix 6fecf1e, a per-user publish lock).         *)
(* Ordered = FALSE is the code as it was: Converges (the property C02)     *)
(* holds for the design and fails without the lock.  The configurations    *)
(* that generate behaviours keep Ordered = FALSE: every complete behaviour *)
(* is printed and the harness TRIES to force exactly that interleaving on  *)
(* the real server (hooks "state.committed" / "user.committed" park a      *)
(* party between its two halves).  Where the server does not let the       *)
(* second party commit, the two run one after the other; the verdict is    *)
(* the property's predicate on what the observer and a brand-new session   *)
(* show in the end, whichever order was realised.                          *)
(***************************************************************************)
EXTENDS Integers, Sequences, FiniteSets, TLC, Json

CONSTANTS Actors,     \* acting parties, e.g. {"s1", "s2"} or {"s1", "conn"}
          Ops,        \* [Actors -> operation]: what each party does (cfg: Ops <- Ops_...)
          StartIn,    \* m is in A at the beginning
          StartSeen,  \* m carries \Seen at the beginning
          Ordered,    \* see above
          Record

VARIABLES inA,      \* m is a row of mailbox A
          uidA,     \* its UID there (the last one handed out)
          seen,     \* the shared flag \Seen of m
          pc,       \* [Actors -> "idle" | "committed" | "done"]
          pend,     \* [Actors -> Seq(update)]  committed, not yet published
          oq,       \* the observer's update queue
          oIn, oUid, oSeen,   \* the observer's snapshot of m
          last, hist

vars == <<inA, uidA, seen, pc, pend, oq, oIn, oUid, oSeen, last, hist>>

Init ==
  /\ inA = StartIn /\ uidA = (IF StartIn THEN 1 ELSE 0) /\ seen = StartSeen
  /\ pc = [a \in Actors |-> "idle"]
  /\ pend = [a \in Actors |-> <<>>]
  /\ oq = <<>>
  /\ oIn = StartIn /\ oUid = (IF StartIn THEN 1 ELSE 0) /\ oSeen = StartSeen
  /\ last = [act |-> "Init", a |-> "", op |-> "", n |-> 0]
  /\ hist = <<>>

Flag(op) == [k |-> "Flag", op |-> op, uid |-> 0]
Expunge == [k |-> "Expunge", op |-> "", uid |-> 0]
Exists(u) == [k |-> "Exists", op |-> "", uid |-> u]

\* the first transaction
Commit(a) ==
  /\ pc[a] = "idle"
  /\ (Ordered => \A b \in Actors : pc[b] # "committed")
  /\ LET op == Ops[a] IN
     CASE op = "addSeen" ->
            /\ seen' = TRUE /\ UNCHANGED <<inA, uidA>>
            /\ pend' = [pend EXCEPT ![a] = IF seen THEN <<>> ELSE <<Flag("add")>>]
       [] op = "remSeen" ->
            /\ seen' = FALSE /\ UNCHANGED <<inA, uidA>>
            /\ pend' = [pend EXCEPT ![a] = IF seen THEN <<Flag("rem")>> ELSE <<>>]
       [] op = "moveOut" ->
            /\ inA' = FALSE /\ UNCHANGED <<uidA, seen>>
            /\ pend' = [pend EXCEPT ![a] = IF inA THEN <<Expunge>> ELSE <<>>]
       [] op = "moveIn" ->
            /\ inA' = TRUE /\ uidA' = uidA + 1 /\ UNCHANGED seen
            /\ pend' = [pend EXCEPT ![a] = (IF inA THEN <<Expunge>> ELSE <<>>) \o <<Exists(uidA + 1)>>]
  /\ pc' = [pc EXCEPT ![a] = "committed"]
  /\ last' = [act |-> "Commit", a |-> a, op |-> Ops[a], n |-> Len(pend'[a])]
  /\ UNCHANGED <<oq, oIn, oUid, oSeen>>

\* the second transaction
Publish(a) ==
  /\ pc[a] = "committed"
  /\ oq' = oq \o pend[a]
  /\ pend' = [pend EXCEPT ![a] = <<>>]
  /\ pc' = [pc EXCEPT ![a] = "done"]
  /\ last' = [act |-> "Publish", a |-> a, op |-> Ops[a], n |-> Len(pend[a])]
  /\ UNCHANGED <<inA, uidA, seen, oIn, oUid, oSeen>>

\* the observer applies its queue when everybody is done (NOOP): filters as in internal/state/filters.go - an update
\* for a message the snapshot does not hold (and whose arrival is not queued) is dropped
RECURSIVE ApplyAll(_, _)
ApplyAll(st, q) ==
  IF q = <<>> THEN st
  ELSE LET u == Head(q) IN
       ApplyAll(CASE u.k = "Flag" -> IF st.in THEN [st EXCEPT !.seen = (u.op = "add")] ELSE st
                  [] u.k = "Expunge" -> [st EXCEPT !.in = FALSE]
                  [] u.k = "Exists" -> IF st.in THEN st ELSE [st EXCEPT !.in = TRUE, !.uid = u.uid, !.seen = st.dbseen],
                Tail(q))

AllDone == \A a \in Actors : pc[a] = "done"

\* (an arriving message shows the flags the database has when its EXISTS is handled)
Observe ==
  /\ AllDone /\ oq # <<>>
  /\ LET r == ApplyAll([in |-> oIn, uid |-> oUid, seen |-> oSeen, dbseen |-> seen], oq)
     IN oIn' = r.in /\ oUid' = r.uid /\ oSeen' = r.seen
  /\ oq' = <<>>
  /\ last' = [act |-> "Observe", a |-> "o", op |-> "", n |-> Len(oq)]
  /\ UNCHANGED <<inA, uidA, seen, pc, pend>>

Step == (\E a \in Actors : Commit(a) \/ Publish(a)) \/ Observe
Keep == IF Record THEN hist' = Append(hist, last') ELSE hist' = hist
Next == Step /\ Keep
Spec == Init /\ [][Next]_vars

Quiescent == AllDone /\ oq = <<>>
Diverged == Quiescent /\ ~((oIn = inA) /\ (inA => (oUid = uidA /\ oSeen = seen)))

\* the behaviour, with the verdict of the model about it
EmitBehaviour == (Record /\ Quiescent) =>
  PrintT(ToJson([trace |-> hist, diverged |-> Diverged,
                 db |-> [in |-> inA, uid |-> uidA, seen |-> seen], obs |-> [in |-> oIn, uid |-> oUid, seen |-> oSeen]]))

-----------------------------------------------------------------------------
\* C02: once everything has been published and delivered the observer shows the mailbox as it is
Converges == ~Diverged

-----------------------------------------------------------------------------
(* operation assignments for the configurations *)
Ops_AddRem  == [a \in Actors |-> IF a = "s1" THEN "addSeen" ELSE "remSeen"]
Ops_OutIn   == [a \in Actors |-> IF a = "s1" THEN "moveOut" ELSE "moveIn"]
Ops_InIn    == [a \in Actors |-> "moveIn"]
Ops_ConnRem == [a \in Actors |-> IF a = "conn" THEN "remSeen" ELSE "addSeen"]
=============================================================================
