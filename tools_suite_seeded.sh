#!/bin/bash
# tools_suite_seeded.sh <seeded id>...: runs the repository's whole test suite (hooks off) with each seeded change applied, in a
# scratch worktree, and records in /verif/seeded/<id>/suite.txt which tests failed; a failing test is re-run alone up to 3 times on
# the changed tree (the update-delivery tests of ./tests are flaky under load on the unchanged tree as well).
export GOFLAGS=-mod=mod GOPROXY=off GOSUMDB=off GOTOOLCHAIN=local
for id in "$@"; do
  d=/verif/seeded/$id; wt=/tmp/suite-$id
  git -C /repo worktree add -q --detach $wt HEAD || continue
  ( cd $wt && git apply $d/patch.diff && go build ./... ) || { echo "$id: does not apply/build" > $d/suite.txt; git -C /repo worktree remove --force $wt; continue; }
  out=$(cd $wt && nice -n 10 go test -vet=off -count=1 -timeout 8m ./... 2>&1)
  fails=$(echo "$out" | grep -E '^--- FAIL: ' | awk '{print $3}' | sort -u | tr '\n' ' ')
  pk=$(echo "$out" | grep -E '^(FAIL|panic: test timed out)' | tr '\n' ';' | cut -c1-300)
  res="first run: failing tests=[${fails}] package lines=[${pk}]"
  still=""
  for t in $fails; do
    okc=0
    for k in 1 2 3; do
      if (cd $wt && go test -vet=off -count=1 -timeout 3m -run "^${t}\$" ./tests/ >/dev/null 2>&1); then okc=$((okc+1)); fi
    done
    res="$res; $t alone: $okc/3 pass"
    [ $okc -eq 0 ] && still="$still $t"
  done
  if echo "$pk" | grep -q "timed out"; then
    if (cd $wt && nice -n 10 go test -vet=off -count=1 -timeout 8m ./tests/ >/dev/null 2>&1); then res="$res; ./tests re-run after a hang: ok"; else res="$res; ./tests re-run after a hang: failed again"; fi
  fi
  verdict="suite passes with the change"
  [ -n "$still" ] && verdict="tests failing with the change also alone:$still"
  echo "$id: $verdict ($res)" > $d/suite.txt
  cat $d/suite.txt
  git -C /repo worktree remove --force $wt
done
