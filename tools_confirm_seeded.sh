#!/bin/bash
# tools_confirm_seeded.sh <seeded dir name>: in a scratch worktree of /repo HEAD confirm that the seeded change
# compiles, its demonstration passes on the clean tree and fails with the change. Prints one summary line.
d=/verif/seeded/$1
wt=/tmp/confirm-$1
export GOFLAGS=-mod=mod GOPROXY=off GOSUMDB=off GOTOOLCHAIN=local
cmd=$(grep -ho 'go test[^`]*' $d/notes.txt | head -1)
pkg=$(echo "$cmd" | grep -o '\./[A-Za-z0-9_/]*' | tail -1)
run=$(echo "$cmd" | sed -n "s/.*-run '\{0,1\}\([A-Za-z0-9_|]*\)'\{0,1\}.*/\1/p")
tags=""; echo "$cmd" | grep -q -- "-tags verif" && tags="-tags verif"
git -C /repo worktree add -q --detach $wt HEAD || exit 2
cp $d/demo_test.go $wt/$pkg/zz_seeded_demo_test.go
cd $wt
clean=$(timeout 300 go test $tags -vet=off -count=1 -timeout 200s -run "$run" $pkg 2>&1 | grep -E '^(ok|FAIL|---)' | tr '\n' ' ')
git apply $d/patch.diff || { echo "$1: patch does not apply"; cd /; git -C /repo worktree remove --force $wt; exit 1; }
build=$(go build ./... 2>&1 | tail -1)
mut=$(timeout 300 go test $tags -vet=off -count=1 -timeout 200s -run "$run" $pkg 2>&1 | grep -E '^(ok|FAIL|--- FAIL)' | head -3 | tr '\n' ' ')
cd /
git -C /repo worktree remove --force $wt
echo "$1: applies=yes build=[${build:-ok}] demo-on-clean=[$clean] demo-with-change=[$mut]"
