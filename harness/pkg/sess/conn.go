package sess

import (
	"errors"
	"fmt"
	"net"
	"regexp"
	"strconv"
	"strings"
	"time"
)

// RLine is one logical response line of the server (literals kept apart).
type RLine struct {
	Text string
	Lits [][]byte
}

// Outcome is what came back for one input line.
type Outcome struct {
	Status   string // OK NO BAD (a completion), CONT (continuation request), "" (none)
	Tag      string // tag of the completion ("" and "*" = untagged)
	Text     string
	Untagged []RLine
	Bye      bool
	Closed   bool // the server closed the connection (EOF / reset) before a completion arrived
	TimedOut bool // nothing (more) arrived within the wait
	Garbage  string
	Wait     time.Duration
}

func (o Outcome) Brief() string {
	switch {
	case o.Status != "":
		t := o.Tag
		if t == "" {
			t = "<empty tag>"
		}
		return fmt.Sprintf("%s %s %s", t, o.Status, clip(o.Text, 80))
	case o.Closed:
		if o.Bye {
			return "* BYE and connection closed, no completion"
		}
		return "connection closed by the server, no completion"
	case o.TimedOut:
		return fmt.Sprintf("no completion within %v", o.Wait.Round(time.Millisecond))
	}
	return "nothing"
}

func clip(s string, n int) string {
	if len(s) > n {
		return s[:n] + "..."
	}
	return s
}

// Conn is a raw IMAP connection: it sends the bytes it is given and classifies what comes back.
type Conn struct {
	c        net.Conn
	buf      []byte
	Greeting string
	ntag     int
	IdleTag  string // tag of the pending IDLE
	dead     bool
}

func Dial(addr string, wait time.Duration) (*Conn, error) {
	c, err := net.DialTimeout("tcp", addr, 5*time.Second)
	if err != nil {
		return nil, err
	}
	cn := &Conn{c: c}
	l, err := cn.readLine(time.Now().Add(wait))
	if err != nil {
		c.Close()
		return nil, fmt.Errorf("no greeting: %w", err)
	}
	cn.Greeting = l.Text
	return cn, nil
}

func (c *Conn) Close() {
	if c != nil && c.c != nil {
		_ = c.c.Close()
		c.dead = true
	}
}

func (c *Conn) Dead() bool { return c == nil || c.dead }

var tagForms = []string{"a%d", "A%d", "t.%d", "x-%d", "q_%d", "%d", "Z%dz", "tag%d"}

// NextTag returns a fresh, valid tag; the form varies with the counter.
func (c *Conn) NextTag() string {
	c.ntag++
	return fmt.Sprintf(tagForms[c.ntag%len(tagForms)], c.ntag)
}

var (
	reLitEnd = regexp.MustCompile(`\{(\d+)\}\r?\n$`)
	reCompl  = regexp.MustCompile(`^(\S*) (OK|NO|BAD)(?: (.*))?$`)
)

var errTimeout = errors.New("timeout")

// readLine reads one logical line (with its literals) or fails at the deadline / on EOF.
func (c *Conn) readLine(deadline time.Time) (RLine, error) {
	var line RLine
	var text strings.Builder
	need := 0 // literal bytes still to take
	for {
		if need > 0 {
			if len(c.buf) >= need {
				line.Lits = append(line.Lits, append([]byte{}, c.buf[:need]...))
				c.buf = c.buf[need:]
				need = 0
				continue
			}
		} else if i := indexByte(c.buf, '\n'); i >= 0 {
			part := string(c.buf[:i+1])
			c.buf = c.buf[i+1:]
			if m := reLitEnd.FindStringSubmatch(part); m != nil {
				n, _ := strconv.Atoi(m[1])
				text.WriteString(strings.TrimSuffix(part, m[0]))
				text.WriteString(fmt.Sprintf("{%d}", n))
				need = n
				if n == 0 {
					line.Lits = append(line.Lits, nil)
				}
				continue
			}
			text.WriteString(strings.TrimRight(part, "\r\n"))
			line.Text = text.String()
			return line, nil
		}
		_ = c.c.SetReadDeadline(deadline)
		tmp := make([]byte, 1<<16)
		n, err := c.c.Read(tmp)
		c.buf = append(c.buf, tmp[:n]...)
		if n == 0 && err != nil {
			var ne net.Error
			if errors.As(err, &ne) && ne.Timeout() {
				return line, errTimeout
			}
			return line, err
		}
	}
}

func indexByte(b []byte, x byte) int {
	for i, v := range b {
		if v == x {
			return i
		}
	}
	return -1
}

// Await reads until a completion or a continuation request arrives, the server closes, or `wait` is over.
func (c *Conn) Await(wait time.Duration) Outcome {
	var o Outcome
	t0 := time.Now()
	deadline := t0.Add(wait)
	for {
		l, err := c.readLine(deadline)
		if err != nil {
			o.Wait = time.Since(t0)
			if err == errTimeout {
				o.TimedOut = true
			} else {
				o.Closed = true
				c.dead = true
			}
			return o
		}
		switch {
		case strings.HasPrefix(l.Text, "+"):
			o.Status, o.Text = "CONT", l.Text
			o.Wait = time.Since(t0)
			return o
		case strings.HasPrefix(l.Text, "* BYE"):
			o.Bye = true
			o.Untagged = append(o.Untagged, l)
		case strings.HasPrefix(l.Text, "* BAD"):
			o.Status, o.Tag, o.Text = "BAD", "*", strings.TrimPrefix(l.Text, "* BAD")
			o.Wait = time.Since(t0)
			return o
		case strings.HasPrefix(l.Text, "* "):
			o.Untagged = append(o.Untagged, l)
		default:
			if m := reCompl.FindStringSubmatch(l.Text); m != nil {
				o.Status, o.Tag, o.Text = m[2], m[1], m[3]
				o.Wait = time.Since(t0)
				return o
			}
			if o.Garbage == "" {
				o.Garbage = clip(l.Text, 120)
			}
			o.Untagged = append(o.Untagged, l)
		}
	}
}

// Write sends bytes; an error means the peer has closed.
func (c *Conn) Write(b []byte) error {
	_ = c.c.SetWriteDeadline(time.Now().Add(30 * time.Second))
	for len(b) > 0 {
		n, err := c.c.Write(b)
		if err != nil {
			return err
		}
		b = b[n:]
	}
	return nil
}

// Do sends a rendered line chunk by chunk (waiting for the continuation request between the chunks)
// and returns the outcome. A completion that arrives before all chunks are sent ends the line.
func (c *Conn) Do(l *Line, wait time.Duration) Outcome {
	var o Outcome
	for i, ch := range l.Chunks {
		if err := c.Write(ch); err != nil {
			// the server had already closed; see what it left behind
			o = c.Await(200 * time.Millisecond)
			o.Closed = true
			c.dead = true
			return o
		}
		if l.EOF && i == len(l.Chunks)-1 {
			return Outcome{}
		}
		o2 := c.Await(wait)
		o2.Untagged = append(o.Untagged, o2.Untagged...)
		o2.Bye = o2.Bye || o.Bye
		o = o2
		if o.Status != "CONT" || i == len(l.Chunks)-1 {
			return o
		}
	}
	return o
}

// Cmd is a convenience for harness traffic that is not under test: "<tag> <text>".
func (c *Conn) Cmd(text string, wait time.Duration) Outcome {
	tag := c.NextTag()
	l := &Line{Chunks: [][]byte{[]byte(tag + " " + text + "\r\n")}, Tag: tag}
	o := c.Do(l, wait)
	if o.Status != "" && o.Status != "CONT" && o.Tag != tag {
		o.Garbage = "completion tagged " + o.Tag + " for " + tag
	}
	return o
}

// CmdLit sends "<tag> <prefix> {n}" + literal (harness traffic).
func (c *Conn) CmdLit(prefix string, lit []byte, wait time.Duration) Outcome {
	tag := c.NextTag()
	l := &Line{Tag: tag, Chunks: [][]byte{
		[]byte(fmt.Sprintf("%s %s {%d}\r\n", tag, prefix, len(lit))),
		append(append([]byte{}, lit...), '\r', '\n'),
	}}
	return c.Do(l, wait)
}

// Pipeline sends several harness commands at once and collects their outcomes in order.
func (c *Conn) Pipeline(texts []string, wait time.Duration) []Outcome {
	var buf []byte
	tags := make([]string, len(texts))
	for i, t := range texts {
		tags[i] = c.NextTag()
		buf = append(buf, tags[i]+" "+t+"\r\n"...)
	}
	outs := make([]Outcome, len(texts))
	if err := c.Write(buf); err != nil {
		for i := range outs {
			outs[i].Closed = true
		}
		c.dead = true
		return outs
	}
	for i := range texts {
		outs[i] = c.Await(wait)
		if outs[i].Status != "" && outs[i].Tag != tags[i] {
			outs[i].Garbage = "completion tagged " + outs[i].Tag + " for " + tags[i]
		}
		if outs[i].Status == "" {
			for j := i + 1; j < len(outs); j++ {
				outs[j] = outs[i]
			}
			break
		}
	}
	return outs
}

// DoPatient is Do for lines under test: when the wait expires it is repeated as long as there is evidence that
// the machine and not the server is the reason - this process was not scheduled meanwhile (heartbeat), or a probe
// through another connection of the same server (alive: its round trip time, negative = no answer) was slow too.
// A line is reported as unanswered only after the server has answered somebody else promptly in the meantime.
func (c *Conn) DoPatient(l *Line, wait time.Duration, alive func() time.Duration) Outcome {
	StartHeartbeat()
	t0 := time.Now()
	o := c.Do(l, wait)
	for round := 0; o.TimedOut && round < 5; round++ {
		stall := MaxStallSince(t0)
		probe := time.Duration(-1)
		if alive != nil {
			probe = alive()
		}
		next := wait
		if stall < 500*time.Millisecond && probe >= 0 && probe < 2*time.Second {
			next = 3 * time.Second // the server is there and so were we: a last short look, then it is a verdict
			round = 5
		}
		o2 := c.Await(next)
		o2.Untagged = append(o.Untagged, o2.Untagged...)
		o2.Bye = o2.Bye || o.Bye
		o2.Wait = time.Since(t0)
		o = o2
	}
	return o
}
