// Package sess is the Go side of spec/GluonSession.tla, shared by the C18 and C11 drivers:
// it runs TLC on one configuration, decodes the transitions / behaviours TLC printed,
// plans tours over the printed state graph, renders abstract inputs as bytes and talks
// raw IMAP to the server. It holds no expectation of its own: every expected result,
// tag, effect class and next state comes out of the TLC run.
package sess

import (
	"encoding/json"
	"fmt"
	"path/filepath"
	"sort"
	"time"

	"github.com/ProtonMail/gluon/verif/pkg/ev"
	"github.com/ProtonMail/gluon/verif/pkg/tlc"
)

// Act is the record `last` of the specification: one step with everything expected of it.
type Act struct {
	S      string   `json:"s"`
	X      string   `json:"x"`
	Res    []string `json:"res"`
	Tag    string   `json:"tag"`
	Close  bool     `json:"close"`
	Bye    bool     `json:"bye"`
	Kind   string   `json:"kind"`
	EffNs  []string `json:"effns"`
	EffBox []string `json:"effbox"`
	Must   bool     `json:"must"`
	Login  string   `json:"login"`
	Arms   bool     `json:"arms"`
	Sees   []string `json:"sees"`
	Was    string   `json:"was"`
	AsUser string   `json:"asuser"`
	InIdle bool     `json:"inidle"`
	// what a NOOP probe on every other open session must be answered after the step
	Others Probes `json:"others"`
	// where the acting session is after the step
	NPhase string `json:"nphase"`
	NUser  string `json:"nuser"`
	NSel   string `json:"nsel"`
	NRo    bool   `json:"nro"`
	NIdle  bool   `json:"nidle"`
}

// Probes maps a watcher session to the acceptable results of a NOOP (TLC prints an empty function as []).
type Probes map[string][]string

func (p *Probes) UnmarshalJSON(b []byte) error {
	*p = Probes{}
	if len(b) > 0 && b[0] == '[' {
		return nil
	}
	m := map[string][]string{}
	if err := json.Unmarshal(b, &m); err != nil {
		return err
	}
	*p = m
	return nil
}

func (a Act) Allows(status string) bool {
	for _, r := range a.Res {
		if r == status {
			return true
		}
	}
	return false
}

// St is the view of the specification.
type St struct {
	Phase    map[string]string   `json:"phase"`
	User     map[string]string   `json:"user"`
	Sel      map[string]string   `json:"sel"`
	Ro       map[string]bool     `json:"ro"`
	Idle     map[string]bool     `json:"idle"`
	Errs     map[string]int      `json:"errs"`
	Boxes    map[string][]string `json:"boxes"`
	Subd     map[string]bool     `json:"subd"`
	Failures int                 `json:"failures"`
	JailLeft int                 `json:"jailLeft"`
}

// Key is a canonical text of the state (encoding/json sorts map keys; sets are sorted here).
func (s *St) Key() string {
	for _, v := range s.Boxes {
		sort.Strings(v)
	}
	b, _ := json.Marshal(s)
	return string(b)
}

type Trans struct {
	Pre  St  `json:"pre"`
	Act  Act `json:"act"`
	Post St  `json:"post"`

	PreKey, PostKey string `json:"-"`
}

type Behaviour struct {
	Start string `json:"start"`
	Trace []Act  `json:"trace"`
}

func (b *Behaviour) Sig() string {
	s := b.Start
	for _, a := range b.Trace {
		s += " " + a.X
	}
	return s
}

// Model is the output of one TLC run.
type Model struct {
	Cfg        string
	Trans      []*Trans
	Behaviours []*Behaviour
	Init       string // key of the initial state (graph mode)
	Res        *tlc.Result
}

// RunTLC model-checks GluonSession with spec/cfg/GluonSession.<cfg>.cfg and collects what it printed.
// A run that does not finish cleanly is an error (machinery, never a verdict).
func RunTLC(cfg string) (*Model, error) {
	m := &Model{Cfg: cfg}
	seen := map[string]bool{}
	res, err := tlc.Run(tlc.Options{
		SpecDir: filepath.Join(ev.Root(), "spec"), Module: "GluonSession",
		Cfg:     filepath.Join(ev.Root(), "spec", "cfg", "GluonSession."+cfg+".cfg"),
		Workers: 4, Timeout: 10 * time.Minute, KeepOutput: true,
		OnJSON: func(raw []byte) {
			var probe struct {
				Pre   *json.RawMessage `json:"pre"`
				Trace *json.RawMessage `json:"trace"`
			}
			if json.Unmarshal(raw, &probe) != nil {
				return
			}
			if probe.Pre != nil {
				var t Trans
				if json.Unmarshal(raw, &t) == nil {
					t.PreKey, t.PostKey = t.Pre.Key(), t.Post.Key()
					k := t.PreKey + "|" + t.Act.S + "|" + t.Act.X
					if !seen[k] {
						seen[k] = true
						m.Trans = append(m.Trans, &t)
					}
				}
			} else if probe.Trace != nil {
				var b Behaviour
				if json.Unmarshal(raw, &b) == nil && len(b.Trace) > 0 {
					k := b.Sig()
					if !seen[k] {
						seen[k] = true
						m.Behaviours = append(m.Behaviours, &b)
					}
				}
			}
		},
	})
	if err != nil {
		return nil, fmt.Errorf("tlc %s: %v", cfg, err)
	}
	m.Res = res
	if res.Violated != "" || res.Error != "" || !res.Finished || res.TimedOut {
		out := res.Output
		if len(out) > 3000 {
			out = out[len(out)-3000:]
		}
		return nil, fmt.Errorf("TLC on GluonSession.%s did not finish cleanly (violated=%q error=%q timeout=%v): a model-level result, not a verdict about the code\n%s",
			cfg, res.Violated, res.Error, res.TimedOut, out)
	}
	// TLC workers print concurrently: put everything into one fixed order so that a seed decides the run
	sort.Slice(m.Trans, func(i, j int) bool {
		a, b := m.Trans[i], m.Trans[j]
		if a.PreKey != b.PreKey {
			return a.PreKey < b.PreKey
		}
		if a.Act.S != b.Act.S {
			return a.Act.S < b.Act.S
		}
		return a.Act.X < b.Act.X
	})
	sort.Slice(m.Behaviours, func(i, j int) bool { return m.Behaviours[i].Sig() < m.Behaviours[j].Sig() })
	if len(m.Trans) > 0 {
		m.Init = findInit(m.Trans)
	}
	return m, nil
}

// findInit: the initial state of the graph configurations is the one where every session is NotAuth (or a
// watcher), nothing is created and nothing has failed.
func findInit(ts []*Trans) string {
	for _, t := range ts {
		s := t.Pre
		ok := s.Failures == 0 && s.JailLeft == 0
		for _, b := range s.Boxes {
			ok = ok && len(b) == 0
		}
		for _, v := range s.Subd {
			ok = ok && v
		}
		for k, p := range s.Phase {
			ok = ok && (p == "NotAuth" || (p == "Auth" && s.User[k] == "u2" && k == "w")) && s.Errs[k] == 0 && !s.Idle[k]
		}
		if ok {
			return t.PreKey
		}
	}
	return ""
}

// ---- tours -------------------------------------------------------------------

// Segment is a walk that starts in the initial state on a fresh server.
type Segment []*Trans

// Planner hands out walks that together cover every transition of the model.
type Planner struct {
	out     map[string][]*Trans
	covered map[*Trans]bool
	mine    map[*Trans]bool
	avoid   map[*Trans]bool
	init    string
	left    int
}

// NewPlanner: the transitions are divided among `parts` walkers; walker `part` must cover its share
// (it may use any transition on the way, and those are checked as well).
func NewPlanner(m *Model, part, parts int) *Planner {
	p := &Planner{out: map[string][]*Trans{}, covered: map[*Trans]bool{}, mine: map[*Trans]bool{}, avoid: map[*Trans]bool{}, init: m.Init}
	// states in breadth-first order, so that one walker gets neighbouring states
	order := map[string]int{}
	queue := []string{m.Init}
	order[m.Init] = 0
	for _, t := range m.Trans {
		p.out[t.PreKey] = append(p.out[t.PreKey], t)
	}
	for len(queue) > 0 {
		k := queue[0]
		queue = queue[1:]
		for _, t := range p.out[k] {
			if _, ok := order[t.PostKey]; !ok {
				order[t.PostKey] = len(order)
				queue = append(queue, t.PostKey)
			}
		}
	}
	n := len(order)
	if n == 0 {
		n = 1
	}
	for _, t := range m.Trans {
		o, ok := order[t.PreKey]
		if !ok {
			continue // not reachable from the initial state: cannot be replayed (reported by Unreachable)
		}
		if o*parts/n == part {
			p.mine[t] = true
			p.left++
		}
	}
	return p
}

func (p *Planner) Left() int { return p.left }

// Avoid: the real server did not follow t; do not plan paths through it any more.
func (p *Planner) Avoid(t *Trans) { p.avoid[t] = true }

// MarkCovered records that t was executed (whether it was this walker's or not).
func (p *Planner) MarkCovered(t *Trans) {
	if p.mine[t] && !p.covered[t] {
		p.covered[t] = true
		p.left--
	}
}

// Next returns the transitions to execute from state cur: a shortest path to the nearest uncovered
// transition of this walker, ending with that transition. nil: nothing reachable is left from cur.
func (p *Planner) Next(cur string) []*Trans {
	type node struct {
		key  string
		via  *Trans
		prev *node
	}
	seen := map[string]bool{cur: true}
	queue := []*node{{key: cur}}
	for len(queue) > 0 {
		n := queue[0]
		queue = queue[1:]
		for _, t := range p.out[n.key] {
			if p.mine[t] && !p.covered[t] {
				path := []*Trans{t}
				for x := n; x.via != nil; x = x.prev {
					path = append([]*Trans{x.via}, path...)
				}
				return path
			}
		}
		for _, t := range p.out[n.key] {
			if !seen[t.PostKey] && !p.avoid[t] {
				seen[t.PostKey] = true
				queue = append(queue, &node{key: t.PostKey, via: t, prev: n})
			}
		}
	}
	return nil
}

// Init returns the key of the initial state.
func (p *Planner) InitKey() string { return p.init }
