package sess

import (
	"fmt"
	"os"
	"strconv"
	"strings"
	"sync"
	"time"
)

// CPUTicks returns utime+stime of a process in clock ticks (100 per second), -1 when it is gone.
func CPUTicks(pid int) int64 {
	b, err := os.ReadFile(fmt.Sprintf("/proc/%d/stat", pid))
	if err != nil {
		return -1
	}
	s := string(b)
	i := strings.LastIndexByte(s, ')') // the command name may hold spaces
	if i < 0 {
		return -1
	}
	f := strings.Fields(s[i+1:])
	if len(f) < 13 {
		return -1
	}
	u, _ := strconv.ParseInt(f[11], 10, 64)
	st, _ := strconv.ParseInt(f[12], 10, 64)
	return u + st
}

// Runnable reports whether some thread of the process is running or runnable right now (state R).
func Runnable(pid int) bool {
	ents, err := os.ReadDir(fmt.Sprintf("/proc/%d/task", pid))
	if err != nil {
		return false
	}
	for _, e := range ents {
		b, err := os.ReadFile(fmt.Sprintf("/proc/%d/task/%s/stat", pid, e.Name()))
		if err != nil {
			continue
		}
		s := string(b)
		if i := strings.LastIndexByte(s, ')'); i >= 0 && i+2 < len(s) && s[i+2] == 'R' {
			return true
		}
	}
	return false
}

// Monitor samples the resident set size of a process while something is going on.
type Monitor struct {
	rss  func() int64
	peak int64
	stop chan struct{}
	wg   sync.WaitGroup
}

func StartMonitor(rss func() int64) *Monitor {
	m := &Monitor{rss: rss, stop: make(chan struct{}), peak: rss()}
	m.wg.Add(1)
	go func() {
		defer m.wg.Done()
		t := time.NewTicker(20 * time.Millisecond)
		defer t.Stop()
		for {
			select {
			case <-m.stop:
				return
			case <-t.C:
				if v := m.rss(); v > m.peak {
					m.peak = v
				}
			}
		}
	}()
	return m
}

// Stop ends the sampling and returns the peak in KiB.
func (m *Monitor) Stop() int64 {
	close(m.stop)
	m.wg.Wait()
	if v := m.rss(); v > m.peak {
		m.peak = v
	}
	return m.peak
}

// ---- was the harness itself running? ---------------------------------------------

var hb struct {
	once sync.Once
	mu   sync.Mutex
	at   []time.Time
	gap  []time.Duration
}

// StartHeartbeat starts a goroutine that notices when this process is not scheduled (a loaded or frozen
// machine): a watchdog that expires during such a gap says nothing about the server.
func StartHeartbeat() {
	hb.once.Do(func() {
		go func() {
			prev := time.Now()
			for {
				time.Sleep(20 * time.Millisecond)
				now := time.Now()
				if d := now.Sub(prev) - 20*time.Millisecond; d > 200*time.Millisecond {
					hb.mu.Lock()
					hb.at = append(hb.at, now)
					hb.gap = append(hb.gap, d)
					if len(hb.at) > 2000 {
						hb.at, hb.gap = hb.at[1000:], hb.gap[1000:]
					}
					hb.mu.Unlock()
				}
				prev = now
			}
		}()
	})
}

// MaxStallSince returns the longest time this process was not scheduled since t.
func MaxStallSince(t time.Time) time.Duration {
	hb.mu.Lock()
	defer hb.mu.Unlock()
	var m time.Duration
	for i := len(hb.at) - 1; i >= 0 && hb.at[i].After(t); i-- {
		if hb.gap[i] > m {
			m = hb.gap[i]
		}
	}
	return m
}
