package sess

import (
	"fmt"
	"math/rand"
	"strings"
)

// The two accounts of every server of these checks. Names and passwords share prefixes on purpose.
var (
	UserName = map[string]string{"u1": "alice", "u2": "alice2"}
	UserPass = map[string]string{"u1": "pwAlpha1", "u2": "pwAlpha12"}
)

// Accounts in the form fixture.ChildConfig wants.
func Accounts() [][2]string {
	return [][2]string{{UserName["u1"], UserPass["u1"]}, {UserName["u2"], UserPass["u2"]}}
}

// Line is an abstract input rendered as bytes.
type Line struct {
	Chunks [][]byte // every chunk but the last ends with a literal announcement: wait for "+" before the next
	Tag    string   // the tag the line carries ("" = none)
	First  string   // first word of the line (a server may take it for the tag)
	EOF    bool     // the client closes the connection after the last chunk
	Text   string   // readable form (clipped)
	Size   int
	Odd    bool // rendered from a malformed / odd / cut-off line class (not a command class)
}

func (l *Line) finish() *Line {
	n := 0
	var sb strings.Builder
	for _, c := range l.Chunks {
		n += len(c)
		if sb.Len() < 200 {
			sb.WriteString(fmt.Sprintf("%q", clipBytes(c, 160)))
		}
	}
	l.Size = n
	l.Text = sb.String()
	if len(l.Chunks) > 0 {
		f := string(clipBytes(l.Chunks[0], 64))
		if i := strings.IndexAny(f, " \r\n"); i >= 0 {
			f = f[:i]
		}
		l.First = f
	}
	return l
}

func clipBytes(b []byte, n int) []byte {
	if len(b) > n {
		return append(append([]byte{}, b[:n/2]...), append([]byte("..."), b[len(b)-n/2:]...)...)
	}
	return b
}

// Renderer turns input classes into bytes; every choice comes from the seeded generator.
type Renderer struct {
	Rnd     *rand.Rand
	appends int
	Heavy   []int // nesting depths of the 10^6 class
}

func NewRenderer(seed int64) *Renderer {
	return &Renderer{Rnd: rand.New(rand.NewSource(seed)), Heavy: []int{1000000}}
}

func (r *Renderer) pick(xs ...string) string { return xs[r.Rnd.Intn(len(xs))] }

// Message returns a small valid message whose subject names its owner.
func Message(owner string, n int) []byte {
	return []byte(fmt.Sprintf("From: %s@example.org\r\nDate: Mon, 7 Feb 1994 21:52:25 -0800\r\nSubject: own-%s-%d\r\n\r\nbody of %s %d\r\n", owner, owner, n, owner, n))
}

// astr renders a string argument as atom, quoted string or literal (the chunks grow accordingly).
func (r *Renderer) astr(chunks *[]string, s string, atomOK bool) {
	last := len(*chunks) - 1
	k := r.Rnd.Intn(3)
	if k == 0 && (!atomOK || s == "") {
		k = 1
	}
	switch k {
	case 0:
		(*chunks)[last] += s
	case 1:
		(*chunks)[last] += `"` + strings.NewReplacer(`\`, `\\`, `"`, `\"`).Replace(s) + `"`
	default:
		if s == "" {
			(*chunks)[last] += `""`
			return
		}
		(*chunks)[last] += fmt.Sprintf("{%d}\r\n", len(s))
		*chunks = append(*chunks, s)
	}
}

func caseVariant(r *rand.Rand, s string) string {
	switch r.Intn(3) {
	case 0:
		return s
	case 1:
		return strings.ToLower(s)
	}
	b := []byte(s)
	for i := range b {
		if r.Intn(2) == 0 {
			b[i] = strings.ToLower(string(b[i]))[0]
		}
	}
	return string(b)
}

func mk(tag string, chunks []string, eof bool) *Line {
	l := &Line{Tag: tag, EOF: eof}
	for _, c := range chunks {
		l.Chunks = append(l.Chunks, []byte(c))
	}
	return l.finish()
}

// wrongName / wrongPass: values nobody has, close to the real ones.
func (r *Renderer) wrongName() string {
	return r.pick("alic", "alice3", "alice20", "ALICE", "Alice2", "alice ", " alice", "", "alice2x", "a", "alice*", "alice%", "bob")
}
func (r *Renderer) wrongPass() string {
	return r.pick("pwAlpha", "pwAlpha123", "pwAlpha2", "PWALPHA1", "pwalpha12", "", "pwAlpha1 ", " pwAlpha12", "pw", "*", "pwAlpha1pwAlpha12")
}

// Command renders a command class. owner is the user the session is authenticated as ("" before login).
func (r *Renderer) Command(x, tag, owner string) *Line {
	ch := []string{tag + " "}
	add := func(s string) { ch[len(ch)-1] += s }
	verb := func(s string) { add(caseVariant(r.Rnd, s)) }
	mbox := func(name string) { r.astr(&ch, name, true) }
	switch {
	case strings.HasPrefix(x, "LOGIN_"):
		u, p := x[6:8], x[8:10]
		name, ok := UserName[u]
		if !ok {
			name = r.wrongName()
		}
		pass, ok := UserPass["u"+p[1:]]
		if !ok {
			pass = r.wrongPass()
		}
		if p == "pw" {
			// the user's own password, padded with white space (or the user name padded): other credentials
			own := UserPass[u]
			pass = r.pick(" "+own, own+" ", own+"\t", "  "+own+"  ", own+"\r\n")
			if r.Rnd.Intn(4) == 0 {
				pass, name = own, name+" "
			}
		}
		verb("LOGIN")
		add(" ")
		cred := func(s string) {
			if strings.ContainsAny(s, "\r\n") { // only a literal can carry a line break
				ch[len(ch)-1] += fmt.Sprintf("{%d}\r\n", len(s))
				ch = append(ch, s)
				return
			}
			r.astr(&ch, s, !strings.ContainsAny(s, " *%\t"))
		}
		cred(name)
		add(" ")
		cred(pass)
	case x == "CAPABILITY" || x == "NOOP" || x == "LOGOUT" || x == "STARTTLS" || x == "CHECK" || x == "CLOSE" ||
		x == "EXPUNGE" || x == "UNSELECT" || x == "IDLE":
		verb(x)
	case x == "ID_GET":
		verb("ID")
		add(" NIL")
	case x == "ID_SET":
		verb("ID")
		add(` ("name" "verif" "version" "1.0")`)
	case x == "SELECT_shared" || x == "EXAMINE_shared" || x == "SELECT_extra" || x == "EXAMINE_extra":
		p := strings.SplitN(x, "_", 2)
		verb(p[0])
		add(" ")
		mbox(p[1])
	case x == "CREATE_extra":
		verb("CREATE")
		add(" ")
		mbox("extra")
	case x == "DELETE_extra" || x == "DELETE_moved":
		verb("DELETE")
		add(" ")
		mbox(x[7:])
	case x == "RENAME_em" || x == "RENAME_me":
		from, to := "extra", "moved"
		if x == "RENAME_me" {
			from, to = to, from
		}
		verb("RENAME")
		add(" ")
		mbox(from)
		add(" ")
		mbox(to)
	case x == "SUBSCRIBE_shared" || x == "UNSUBSCRIBE_shared":
		verb(strings.SplitN(x, "_", 2)[0])
		add(" ")
		mbox("shared")
	case x == "LIST" || x == "LSUB":
		verb(x)
		add(` "" "*"`)
	case x == "STATUS_shared" || x == "STATUS_extra":
		verb("STATUS")
		add(" ")
		mbox(x[7:])
		add(" (MESSAGES UIDNEXT)")
	case x == "APPEND_shared" || x == "APPEND_extra":
		r.appends++
		if owner == "" {
			owner = "anon"
		}
		msg := Message(owner, 1000+r.appends)
		verb("APPEND")
		add(" ")
		mbox(x[7:])
		if r.Rnd.Intn(2) == 0 {
			add(` (\Flagged)`)
		}
		add(fmt.Sprintf(" {%d}\r\n", len(msg)))
		ch = append(ch, string(msg))
	case x == "SEARCH":
		verb("SEARCH")
		add(" " + r.pick("ALL", "UNDELETED", "1:*", "OR ALL DELETED"))
	case x == "FETCH":
		verb("FETCH")
		add(" 1 (UID FLAGS BODY.PEEK[HEADER.FIELDS (SUBJECT)])")
	case x == "STORE":
		verb("STORE")
		add(` 1 +FLAGS.SILENT (\Deleted)`)
	case x == "COPY":
		verb("COPY")
		add(" 1 INBOX")
	case x == "MOVE":
		verb("MOVE")
		add(" 1 INBOX")
	case x == "UID_FETCH":
		verb("UID")
		add(" FETCH 1:* (FLAGS BODY.PEEK[HEADER.FIELDS (SUBJECT)])")
	case x == "UID_SEARCH":
		verb("UID")
		add(" SEARCH ALL")
	case x == "UID_STORE":
		verb("UID")
		add(` STORE 1:* +FLAGS.SILENT (\Deleted)`)
	case x == "UID_COPY":
		verb("UID")
		add(" COPY 1:* INBOX")
	case x == "UID_MOVE":
		verb("UID")
		add(" MOVE 1:* INBOX")
	case x == "UID_EXPUNGE":
		verb("UID")
		add(" EXPUNGE 1:*")
	case x == "DONE":
		l := mk("", []string{caseVariant(r.Rnd, "DONE") + "\r\n"}, false)
		return l
	default:
		return nil
	}
	ch[len(ch)-1] += "\r\n"
	return mk(tag, ch, false)
}

func tlsHello(r *rand.Rand) string {
	ver := []byte{0x01, 0x02, 0x03, 0x04, 0x00}[r.Intn(5)]
	maj := byte(0x03)
	if ver == 0x00 {
		maj = 0x00
	}
	b := []byte{0x16, maj, ver, 0x02, 0x00, 0x01, 0x00, 0x01, 0xfc, 0x03, 0x03}
	for i := 0; i < 506; i++ {
		// no '"' and no '{': strings and literals cut by a disconnect are classes of their own
		c := byte(r.Intn(256))
		for c == '"' || c == '{' {
			c = byte(r.Intn(256))
		}
		b = append(b, c)
	}
	// a real hello holds arbitrary bytes, line feeds included
	b[40], b[41] = '\r', '\n'
	return string(b)
}

// Malformed renders a malformed line class. For classes with a tag the line carries `tag`.
func (r *Renderer) Malformed(x, tag string) *Line {
	t := tag + " "
	big := func(n int) string { return strings.Repeat(r.pick("A", "x", "7", "."), n) }
	switch x {
	case "unknown":
		return mk(tag, []string{t + r.pick("FOO", "XYZZY arg", "LOGINX a b", "NOOPP", "FETCHH 1 (UID)", "UIDD FETCH 1 UID",
			"LOG IN a b", "AUTHENTICATE PLAIN", "NAMESPACE", "1234", "EHLO localhost", "GET / HTTP/1.0") + "\r\n"}, false)
	case "badtag":
		return mk("", []string{r.pick("+x", "(x", `"x"`, ")x", `\x`, "+", " x", "\tx") + " NOOP\r\n"}, false)
	case "tagonly":
		return mk(tag, []string{tag + r.pick("", " ") + "\r\n"}, false)
	case "empty":
		return mk("", []string{r.pick("", "", " ", "  ") + "\r\n"}, false)
	case "missingarg":
		return mk(tag, []string{t + r.pick("LOGIN", "LOGIN user", "SELECT", "EXAMINE", "FETCH", "FETCH 1", "STORE 1", "STORE 1 +FLAGS",
			"STATUS INBOX", "APPEND", "COPY 1", "MOVE", "SEARCH", "UID", "UID FETCH", "CREATE", "DELETE", "RENAME a", `LIST ""`, "ID",
			"SUBSCRIBE", "LSUB") + "\r\n"}, false)
	case "trailing":
		return mk(tag, []string{t + r.pick("NOOP extra", "CAPABILITY x", "LOGOUT now", "CHECK 1", "CLOSE x", "SELECT INBOX extra",
			"LOGIN a b c", "NOOP ", "EXPUNGE 1", "IDLE now", "UNSELECT INBOX", "STARTTLS x", "CREATE a b", "ID NIL NIL") + "\r\n"}, false)
	case "quoted_crlf":
		return mk(tag, []string{t + r.pick(`LOGIN "abc`, `SELECT "INBOX`, `LOGIN user "pw`, `CREATE "x`, `LIST "" "*`, `STATUS "INBOX (MESSAGES)`,
			`LOGIN "a\"b`, `ID ("name" "x)`) + "\r\n"}, false)
	case "num32":
		return mk(tag, []string{t + r.pick("FETCH 4294967296 (UID)", "FETCH 1:4294967296 (UID)", "UID FETCH 99999999999 (UID)",
			"APPEND INBOX {4294967296}", `STORE 4294967297 +FLAGS (\Seen)`, "SEARCH 4294967296", "SEARCH LARGER 4294967296",
			"COPY 4294967297 INBOX", "UID EXPUNGE 4294967296", "FETCH 4294967297:* (UID)") + "\r\n"}, false)
	case "num64":
		return mk(tag, []string{t + r.pick("FETCH 18446744073709551616 (UID)", "FETCH 18446744073709551617 (UID)",
			"UID FETCH 99999999999999999999999999 (UID)", "APPEND INBOX {18446744073709551617}",
			"SEARCH 340282366920938463463374607431768211457", "UID COPY 18446744073709551617 INBOX",
			"FETCH 1:18446744073709551617 (UID)", "SEARCH SMALLER 18446744073709551616") + "\r\n"}, false)
	case "quoted_ctl":
		c := r.pick("\x00", "\r", "\x01", "\x7f", "\x1b", "\x08")
		return mk(tag, []string{t + r.pick(`LOGIN "a`+c+`b" pw`, `LOGIN user "p`+c+`w"`, `STATUS "a`+c+`b" (MESSAGES)`, `LOGIN "`+c+`" "`+c+`"`) + "\r\n"}, false)
	case "lit0":
		switch r.Rnd.Intn(4) {
		case 0:
			return mk(tag, []string{t + "APPEND INBOX {0}\r\n", "\r\n"}, false)
		case 1:
			return mk(tag, []string{t + "LOGIN {0}\r\n", " pw\r\n"}, false)
		case 2:
			return mk(tag, []string{t + "STATUS {0}\r\n", " (MESSAGES)\r\n"}, false)
		}
		return mk(tag, []string{t + "LOGIN user {0}\r\n", "\r\n"}, false)
	case "litbig":
		n := r.pick("31457280", "31457281", "99999999", "2147483648", "4294967295", "1000000000")
		return mk(tag, []string{t + r.pick("APPEND INBOX {"+n+"}", "LOGIN {"+n+"}", "LOGIN user {"+n+"}", "STATUS {"+n+"}",
			`APPEND INBOX (\Seen) {`+n+"}") + "\r\n"}, false)
	case "nest10", "nest1000", "nest1e6":
		d := map[string]int{"nest10": 10, "nest1000": 1000}[x]
		if x == "nest1e6" {
			d = r.Heavy[r.Rnd.Intn(len(r.Heavy))]
		}
		switch r.Rnd.Intn(3) {
		case 0:
			return mk(tag, []string{t + "SEARCH " + strings.Repeat("(", d) + "ALL" + strings.Repeat(")", d) + "\r\n"}, false)
		case 1:
			return mk(tag, []string{t + "SEARCH " + strings.Repeat("NOT ", d) + "ALL\r\n"}, false)
		}
		return mk(tag, []string{t + "UID SEARCH " + strings.Repeat("NOT (", d/2) + "DELETED" + strings.Repeat(")", d/2) + "\r\n"}, false)
	case "bigline":
		n := 1 << 20
		return mk(tag, []string{t + r.pick(big(n), "NOOP"+strings.Repeat("A", n), "LOGIN "+big(n)+" x", `LOGIN "`+big(n)+`" x`, "SELECT "+big(n),
			"FETCH "+strings.Repeat("9", n)+" (UID)", "STATUS "+big(n)+" (MESSAGES)") + "\r\n"}, false)
	case "bare_lf":
		// the server's own recovery rule is "skip to the next line feed": a bare LF ends the (erroneous) line, which is
		// answered at once; what follows is the next line
		return mk(tag, []string{t + r.pick("NOOP\n", "CAPABILITY\n", "NOOP \n", "noop\n", "LOGIN a\n", "FOO\n")}, false)
	case "raw8bit":
		return mk(tag, []string{t + r.pick("LIST \"\xff\" \"*\"", "LIST \"\" \"\xff%\"", "LSUB \"\xfe\xff\" \"*\"", "LIST \"\xc3\" \"\xc3*\"",
			"STATUS \"\xff\xfe\" (MESSAGES)", "LIST \"\xed\xa0\x80\" \"%\"", "LSUB \"\" \"\x80\"") + "\r\n"}, false)
	case "quoted_eof":
		return mk(tag, []string{t + r.pick(`LOGIN "abc`, `SELECT "INB`, `LOGIN user "p`, `LOGIN "a\`, `LIST "" "`, `ID ("na`)}, true)
	case "lit_eof":
		switch r.Rnd.Intn(3) {
		case 0:
			return mk(tag, []string{t + "APPEND INBOX {100}\r\n", "From: x@y"}, true)
		case 1:
			return mk(tag, []string{t + "LOGIN {10}\r\n", "abc"}, true)
		}
		return mk(tag, []string{t + "APPEND INBOX {30000000}\r\n", strings.Repeat("x", 1024)}, true)
	case "token_eof":
		return mk(tag, []string{r.pick(t+"LOG", t+"NOOP\r", tag, t+"FETCH 1:", t+"SEARCH ((((", t+"UID ", t+"APPEND INBOX {12", t, t+"LOGIN user ",
			t+"STORE 1 +FLAGS (\\Se", t+"NOOP")}, true)
	case "tlshello":
		return mk("", []string{tlsHello(r.Rnd)}, true)
	}
	return nil
}

// Render renders any input class.
func (r *Renderer) Render(x, tag, owner string) *Line {
	if l := r.Command(x, tag, owner); l != nil {
		return l
	}
	l := r.Malformed(x, tag)
	if l != nil {
		l.Odd = true
	}
	return l
}
