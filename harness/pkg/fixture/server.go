package fixture

import (
	"context"
	"fmt"
	"io"
	"net"
	"os"
	"path/filepath"
	"time"

	"github.com/ProtonMail/gluon"
	"github.com/ProtonMail/gluon/async"
	"github.com/ProtonMail/gluon/db"
	"github.com/ProtonMail/gluon/imap"
	"github.com/ProtonMail/gluon/internal/backend"
	"github.com/ProtonMail/gluon/internal/db_impl/sqlite3"
	"github.com/ProtonMail/gluon/limits"
	"github.com/ProtonMail/gluon/store"
	"github.com/sirupsen/logrus"
)

func init() {
	logrus.SetOutput(io.Discard)
	logrus.SetLevel(logrus.PanicLevel)
}

// User is one account of a fixture.
type User struct {
	Name, Pass string
	ID         string
	Conn       *VConn
}

type Config struct {
	Dir          string // reused across restarts; created when empty
	Delimiter    string // default "/"
	Limits       *limits.IMAP
	JailTime     time.Duration
	IdleBulkTime time.Duration
	Users        []User // default: one user "user"/"pass"
	UIDValidity  imap.UIDValidityGenerator
	StoreBuilder store.Builder
	DBClient     db.ClientInterface
	NoInbox      bool
	PanicHandler async.PanicHandler
}

func (c *Config) fill() error {
	if c.Dir == "" {
		d, err := os.MkdirTemp("", "verif-gluon-")
		if err != nil {
			return err
		}
		c.Dir = d
	}
	if c.Delimiter == "" {
		c.Delimiter = "/"
	}
	if len(c.Users) == 0 {
		c.Users = []User{{Name: "user", Pass: "pass"}}
	}
	if c.UIDValidity == nil {
		c.UIDValidity = imap.NewIncrementalUIDValidityGenerator()
	}
	if c.StoreBuilder == nil {
		c.StoreBuilder = &store.OnDiskStoreBuilder{}
	}
	if c.DBClient == nil {
		c.DBClient = sqlite3.NewBuilder()
	}
	if c.PanicHandler == nil {
		c.PanicHandler = async.NoopPanicHandler{}
	}
	return nil
}

// Server is a real gluon.Server listening on loopback.
type Server struct {
	Cfg   Config
	S     *gluon.Server
	Addr  string
	Users []User
	l     net.Listener
}

// InboxUpdate creates the INBOX of a user through the connector, as connectors do on first sync.
func InboxUpdate(c *VConn) imap.Update {
	return imap.NewMailboxCreated(c.NewMailbox("0", "INBOX"))
}

// StartServer builds and serves a gluon server. Users that carry an ID are loaded, others added.
func StartServer(cfg Config) (*Server, error) {
	if err := cfg.fill(); err != nil {
		return nil, err
	}
	opts := []gluon.Option{
		gluon.WithDataDir(filepath.Join(cfg.Dir, "data")),
		gluon.WithDatabaseDir(filepath.Join(cfg.Dir, "db")),
		gluon.WithDelimiter(cfg.Delimiter),
		gluon.WithUIDValidityGenerator(cfg.UIDValidity),
		gluon.WithStoreBuilder(cfg.StoreBuilder),
		gluon.WithDBClient(cfg.DBClient),
		gluon.WithPanicHandler(cfg.PanicHandler),
	}
	if cfg.Limits != nil {
		opts = append(opts, gluon.WithIMAPLimits(*cfg.Limits))
	}
	if cfg.JailTime != 0 {
		opts = append(opts, gluon.WithLoginJailTime(cfg.JailTime))
	}
	if cfg.IdleBulkTime != 0 {
		opts = append(opts, gluon.WithIdleBulkTime(cfg.IdleBulkTime))
	}
	s, err := gluon.New(opts...)
	if err != nil {
		return nil, err
	}
	srv := &Server{Cfg: cfg, S: s}
	ctx := context.Background()
	for _, u := range cfg.Users {
		if u.Conn == nil {
			u.Conn = NewVConn(map[string]string{u.Name: u.Pass})
		}
		if u.ID == "" {
			id, err := s.AddUser(ctx, u.Conn, []byte(u.Pass))
			if err != nil {
				return nil, fmt.Errorf("AddUser: %w", err)
			}
			u.ID = id
			if !cfg.NoInbox {
				if err := u.Conn.Submit(InboxUpdate(u.Conn), 10*time.Second); err != nil {
					return nil, fmt.Errorf("create INBOX: %w", err)
				}
			}
		} else {
			if _, err := s.LoadUser(ctx, u.Conn, u.ID, []byte(u.Pass)); err != nil {
				return nil, fmt.Errorf("LoadUser: %w", err)
			}
		}
		srv.Users = append(srv.Users, u)
	}
	l, err := net.Listen("tcp", "127.0.0.1:0")
	if err != nil {
		return nil, err
	}
	srv.l = l
	srv.Addr = l.Addr().String()
	if err := s.Serve(ctx, l); err != nil {
		return nil, err
	}
	return srv, nil
}

// Close stops the server (clean shutdown). It reports whether Close returned within the timeout.
func (s *Server) Close(timeout time.Duration) error {
	done := make(chan error, 1)
	go func() {
		ctx, cancel := context.WithTimeout(context.Background(), timeout)
		defer cancel()
		done <- s.S.Close(ctx)
	}()
	select {
	case err := <-done:
		_ = s.l.Close()
		return err
	case <-time.After(timeout + time.Second):
		return fmt.Errorf("Server.Close did not return within %v", timeout)
	}
}

// RemoveDir deletes the server's directories.
func (s *Server) RemoveDir() { _ = os.RemoveAll(s.Cfg.Dir) }

// Backend is a bare backend (no listener, no session goroutines) for the state-level driver.
type Backend struct {
	Cfg   Config
	B     *backend.Backend
	Users []User
}

func StartBackend(cfg Config) (*Backend, error) {
	if err := cfg.fill(); err != nil {
		return nil, err
	}
	lim := limits.DefaultLimits()
	if cfg.Limits != nil {
		lim = *cfg.Limits
	}
	b, err := backend.New(filepath.Join(cfg.Dir, "data"), filepath.Join(cfg.Dir, "db"), cfg.StoreBuilder, cfg.Delimiter,
		cfg.JailTime, lim, cfg.PanicHandler, cfg.DBClient)
	if err != nil {
		return nil, err
	}
	be := &Backend{Cfg: cfg, B: b}
	ctx := context.Background()
	for _, u := range cfg.Users {
		if u.Conn == nil {
			u.Conn = NewVConn(map[string]string{u.Name: u.Pass})
		}
		fresh := u.ID == ""
		if fresh {
			u.ID = b.NewUserID()
		}
		if _, err := b.AddUser(ctx, u.ID, u.Conn, []byte(u.Pass), cfg.UIDValidity); err != nil {
			return nil, err
		}
		if fresh && !cfg.NoInbox {
			if err := u.Conn.Submit(InboxUpdate(u.Conn), 10*time.Second); err != nil {
				return nil, fmt.Errorf("create INBOX: %w", err)
			}
		}
		be.Users = append(be.Users, u)
	}
	return be, nil
}

func (b *Backend) Close() error {
	ctx, cancel := context.WithTimeout(context.Background(), 20*time.Second)
	defer cancel()
	return b.B.Close(ctx)
}

func (b *Backend) RemoveDir() { _ = os.RemoveAll(b.Cfg.Dir) }
