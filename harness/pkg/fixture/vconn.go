// Package fixture starts real gluon servers/backends for the drivers and provides the
// harness connector (VConn): a deterministic remote that echoes nothing unless asked,
// fails exactly the calls a schedule names, and lets the driver submit connector
// updates one at a time and observe the Waiter result of each.
package fixture

import (
	"bytes"
	"context"
	"errors"
	"fmt"
	"sync"
	"time"

	"github.com/ProtonMail/gluon/connector"
	"github.com/ProtonMail/gluon/imap"
)

// CallRecord is one connector call made by gluon.
type CallRecord struct {
	Call string
	Args []string
	Err  string
}

type VMsg struct {
	ID      imap.MessageID
	Literal []byte
	Flags   imap.FlagSet
	Date    time.Time
	Boxes   map[imap.MailboxID]bool
}

// VConn is the harness connector.
type VConn struct {
	mu       sync.Mutex
	Users    map[string]string // username -> password
	updateCh chan imap.Update
	closed   bool

	nextMbox, nextMsg int
	Mailboxes         map[imap.MailboxID][]string
	State             connector.IMAPState // handed over by gluon at Init
	WideIDs           bool                // mailbox ids of fixed width (see CreateMailbox)
	Dedup             bool                // CreateMessage answers with the id of a message that holds the same literal already
	Messages          map[imap.MessageID]*VMsg
	Visibility        map[imap.MailboxID]imap.MailboxVisibility

	// Fail is consulted before every remote call: a non-nil error makes the call fail.
	Fail  func(call string, n int) error
	nCall map[string]int
	Calls []CallRecord

	// MoveRemovesSource is what MoveMessages answers (true = folder semantics).
	MoveRemovesSource bool
	// ReuseMsgID, when set, is returned by the next CreateMessage instead of a fresh id.
	ReuseMsgID imap.MessageID

	Flags, PermFlags, Attrs imap.FlagSet
}

func NewVConn(users map[string]string) *VConn {
	fl := imap.NewFlagSet(imap.FlagSeen, imap.FlagFlagged, imap.FlagDeleted, imap.FlagAnswered, imap.FlagDraft)
	return &VConn{
		Users:             users,
		updateCh:          make(chan imap.Update, 16),
		Mailboxes:         map[imap.MailboxID][]string{},
		Messages:          map[imap.MessageID]*VMsg{},
		Visibility:        map[imap.MailboxID]imap.MailboxVisibility{},
		nCall:             map[string]int{},
		MoveRemovesSource: true,
		Flags:             fl, PermFlags: fl, Attrs: imap.NewFlagSet(),
	}
}

func (c *VConn) call(name string, args ...string) error {
	c.nCall[name]++
	var err error
	if c.Fail != nil {
		err = c.Fail(name, c.nCall[name])
	}
	rec := CallRecord{Call: name, Args: args}
	if err != nil {
		rec.Err = err.Error()
	}
	c.Calls = append(c.Calls, rec)
	return err
}

// TakeCalls returns and clears the recorded calls.
func (c *VConn) TakeCalls() []CallRecord {
	c.mu.Lock()
	defer c.mu.Unlock()
	r := c.Calls
	c.Calls = nil
	return r
}

// Init keeps the IMAPState handle: the harness uses it to act as a connector that writes mailboxes itself.
func (c *VConn) Init(_ context.Context, st connector.IMAPState) error {
	c.mu.Lock()
	c.State = st
	c.mu.Unlock()
	return nil
}

func (c *VConn) Authorize(_ context.Context, username string, password []byte) bool {
	c.mu.Lock()
	defer c.mu.Unlock()
	p, ok := c.Users[username]
	return ok && p == string(password)
}

func (c *VConn) CreateMailbox(_ context.Context, _ connector.IMAPStateWrite, name []string) (imap.Mailbox, error) {
	c.mu.Lock()
	defer c.mu.Unlock()
	if err := c.call("CreateMailbox", fmt.Sprint(name)); err != nil {
		return imap.Mailbox{}, err
	}
	c.nextMbox++
	id := imap.MailboxID(fmt.Sprintf("rb%d", c.nextMbox))
	if c.WideIDs {
		// fixed width: the order of the remote ids as strings is the order of creation (gluon translates lists of remote
		// ids with one SQL query whose result comes back in index order)
		id = imap.MailboxID(fmt.Sprintf("rb%07d", c.nextMbox))
	}
	c.Mailboxes[id] = append([]string{}, name...)
	return imap.Mailbox{ID: id, Name: name, Flags: c.Flags, PermanentFlags: c.PermFlags, Attributes: c.Attrs}, nil
}

func (c *VConn) GetMessageLiteral(_ context.Context, id imap.MessageID) ([]byte, error) {
	c.mu.Lock()
	defer c.mu.Unlock()
	if err := c.call("GetMessageLiteral", string(id)); err != nil {
		return nil, err
	}
	m, ok := c.Messages[id]
	if !ok {
		return nil, errors.New("no such message")
	}
	return m.Literal, nil
}

func (c *VConn) GetMailboxVisibility(_ context.Context, id imap.MailboxID) imap.MailboxVisibility {
	c.mu.Lock()
	defer c.mu.Unlock()
	if v, ok := c.Visibility[id]; ok {
		return v
	}
	return imap.Visible
}

func (c *VConn) UpdateMailboxName(_ context.Context, _ connector.IMAPStateWrite, id imap.MailboxID, newName []string) error {
	c.mu.Lock()
	defer c.mu.Unlock()
	if err := c.call("UpdateMailboxName", string(id), fmt.Sprint(newName)); err != nil {
		return err
	}
	c.Mailboxes[id] = append([]string{}, newName...)
	return nil
}

func (c *VConn) DeleteMailbox(_ context.Context, _ connector.IMAPStateWrite, id imap.MailboxID) error {
	c.mu.Lock()
	defer c.mu.Unlock()
	if err := c.call("DeleteMailbox", string(id)); err != nil {
		return err
	}
	delete(c.Mailboxes, id)
	return nil
}

func (c *VConn) CreateMessage(_ context.Context, _ connector.IMAPStateWrite, mboxID imap.MailboxID, literal []byte, flags imap.FlagSet, date time.Time) (imap.Message, []byte, error) {
	c.mu.Lock()
	defer c.mu.Unlock()
	if err := c.call("CreateMessage", string(mboxID)); err != nil {
		return imap.Message{}, nil, err
	}
	var id imap.MessageID
	if c.Dedup {
		// a remote that identifies messages by their content: what it already holds is not created again
		for eid, m := range c.Messages {
			if bytes.Equal(m.Literal, literal) {
				m.Boxes[mboxID] = true
				return imap.Message{ID: eid, Flags: flags, Date: date}, literal, nil
			}
		}
	}
	if c.ReuseMsgID != "" {
		id = c.ReuseMsgID
		c.ReuseMsgID = ""
	} else {
		c.nextMsg++
		id = imap.MessageID(fmt.Sprintf("rm%d", c.nextMsg))
	}
	m, ok := c.Messages[id]
	if !ok {
		m = &VMsg{ID: id, Literal: append([]byte{}, literal...), Flags: flags, Date: date, Boxes: map[imap.MailboxID]bool{}}
		c.Messages[id] = m
	}
	m.Boxes[mboxID] = true
	return imap.Message{ID: id, Flags: flags, Date: date}, literal, nil
}

func (c *VConn) AddMessagesToMailbox(_ context.Context, _ connector.IMAPStateWrite, ids []imap.MessageID, mboxID imap.MailboxID) error {
	c.mu.Lock()
	defer c.mu.Unlock()
	if err := c.call("AddMessagesToMailbox", fmt.Sprint(ids), string(mboxID)); err != nil {
		return err
	}
	for _, id := range ids {
		if m, ok := c.Messages[id]; ok {
			m.Boxes[mboxID] = true
		}
	}
	return nil
}

func (c *VConn) RemoveMessagesFromMailbox(_ context.Context, _ connector.IMAPStateWrite, ids []imap.MessageID, mboxID imap.MailboxID) error {
	c.mu.Lock()
	defer c.mu.Unlock()
	if err := c.call("RemoveMessagesFromMailbox", fmt.Sprint(ids), string(mboxID)); err != nil {
		return err
	}
	for _, id := range ids {
		if m, ok := c.Messages[id]; ok {
			delete(m.Boxes, mboxID)
		}
	}
	return nil
}

func (c *VConn) MoveMessages(_ context.Context, _ connector.IMAPStateWrite, ids []imap.MessageID, from, to imap.MailboxID) (bool, error) {
	c.mu.Lock()
	defer c.mu.Unlock()
	if err := c.call("MoveMessages", fmt.Sprint(ids), string(from), string(to)); err != nil {
		return false, err
	}
	for _, id := range ids {
		if m, ok := c.Messages[id]; ok {
			if c.MoveRemovesSource {
				delete(m.Boxes, from)
			}
			m.Boxes[to] = true
		}
	}
	return c.MoveRemovesSource, nil
}

func (c *VConn) MarkMessagesSeen(_ context.Context, _ connector.IMAPStateWrite, ids []imap.MessageID, v bool) error {
	c.mu.Lock()
	defer c.mu.Unlock()
	return c.call("MarkMessagesSeen", fmt.Sprint(ids), fmt.Sprint(v))
}

func (c *VConn) MarkMessagesFlagged(_ context.Context, _ connector.IMAPStateWrite, ids []imap.MessageID, v bool) error {
	c.mu.Lock()
	defer c.mu.Unlock()
	return c.call("MarkMessagesFlagged", fmt.Sprint(ids), fmt.Sprint(v))
}

func (c *VConn) MarkMessagesForwarded(_ context.Context, _ connector.IMAPStateWrite, ids []imap.MessageID, v bool) error {
	c.mu.Lock()
	defer c.mu.Unlock()
	return c.call("MarkMessagesForwarded", fmt.Sprint(ids), fmt.Sprint(v))
}

func (c *VConn) GetUpdates() <-chan imap.Update { return c.updateCh }

func (c *VConn) Close(context.Context) error {
	c.mu.Lock()
	defer c.mu.Unlock()
	if !c.closed {
		c.closed = true
		close(c.updateCh)
	}
	return nil
}

// ErrNoAck is returned by Submit when the update was not acknowledged in time.
var ErrNoAck = errors.New("update not acknowledged")

// Submit hands one update to gluon and waits for its acknowledgement.
// It returns the Waiter's error (nil = applied) or ErrNoAck.
func (c *VConn) Submit(u imap.Update, timeout time.Duration) error {
	select {
	case c.updateCh <- u:
	case <-time.After(timeout):
		return ErrNoAck
	}
	ctx, cancel := context.WithTimeout(context.Background(), timeout)
	defer cancel()
	err, ok := u.WaitContext(ctx)
	if ctx.Err() != nil {
		return ErrNoAck
	}
	if ok && err != nil {
		return err
	}
	return nil
}

// Push hands an update to gluon without waiting for its acknowledgement; false = stop was closed first.
func (c *VConn) Push(u imap.Update, stop <-chan struct{}) (ok bool) {
	defer func() {
		if recover() != nil { // the channel was closed under us
			ok = false
		}
	}()
	select {
	case c.updateCh <- u:
		return true
	case <-stop:
		return false
	}
}

// CarryOver makes this connector continue the remote state of an earlier one (server restart).
func (c *VConn) CarryOver(old *VConn) {
	old.mu.Lock()
	defer old.mu.Unlock()
	c.Mailboxes, c.Messages, c.Visibility = old.Mailboxes, old.Messages, old.Visibility
	c.nextMbox, c.nextMsg = old.nextMbox, old.nextMsg
	c.MoveRemovesSource = old.MoveRemovesSource
}

// NewMailbox is a helper for MailboxCreated updates issued by the remote itself.
func (c *VConn) NewMailbox(id string, name ...string) imap.Mailbox {
	c.mu.Lock()
	defer c.mu.Unlock()
	c.Mailboxes[imap.MailboxID(id)] = name
	return imap.Mailbox{ID: imap.MailboxID(id), Name: name, Flags: c.Flags, PermanentFlags: c.PermFlags, Attributes: c.Attrs}
}
