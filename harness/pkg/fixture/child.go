package fixture

import (
	"bufio"
	"encoding/json"
	"fmt"
	"os"
	"os/exec"
	"strconv"
	"strings"
	"sync"
	"syscall"
	"time"

	"github.com/ProtonMail/gluon/imap"
	"github.com/ProtonMail/gluon/limits"
)

// ChildConfig is the serialisable part of Config, for servers run in a child process
// (so that a crash of the server is an observation, not the death of the harness).
type ChildConfig struct {
	Dir          string      `json:"dir"`
	Delimiter    string      `json:"delimiter"`
	Users        [][2]string `json:"users"` // name, pass
	UserIDs      []string    `json:"user_ids"`
	JailMs       int         `json:"jail_ms"`
	IdleBulkMs   int         `json:"idle_bulk_ms"`
	EpochUIDV    bool        `json:"epoch_uidv"`
	UIDVStart    uint32      `json:"uidv_start"`
	MaxMailboxes int         `json:"max_mailboxes"`
	MaxMessages  int         `json:"max_messages"`
	MaxUID       uint32      `json:"max_uid"`
	MaxUIDV      uint32      `json:"max_uidv"`
}

type ChildServer struct {
	Cfg     ChildConfig
	Addr    string
	UserIDs []string
	cmd     *exec.Cmd
	mu      sync.Mutex
	errTail []string
	done    chan struct{}
	exitErr error
	stdin   interface{ Write([]byte) (int, error) }
	stdout  *bufio.Reader
}

// ServeChild is the entry point of the child process ("vcheck __serve").
func ServeChild() {
	var cc ChildConfig
	if err := json.Unmarshal([]byte(os.Getenv("VERIF_CHILD_CFG")), &cc); err != nil {
		fmt.Fprintln(os.Stderr, "child cfg:", err)
		os.Exit(3)
	}
	cfg := Config{Dir: cc.Dir, Delimiter: cc.Delimiter, JailTime: time.Duration(cc.JailMs) * time.Millisecond,
		IdleBulkTime: time.Duration(cc.IdleBulkMs) * time.Millisecond}
	for i, u := range cc.Users {
		usr := User{Name: u[0], Pass: u[1]}
		if i < len(cc.UserIDs) {
			usr.ID = cc.UserIDs[i]
		}
		cfg.Users = append(cfg.Users, usr)
	}
	if cc.EpochUIDV {
		cfg.UIDValidity = imap.DefaultEpochUIDValidityGenerator()
	} else if cc.UIDVStart > 0 {
		g := imap.NewIncrementalUIDValidityGenerator()
		for i := uint32(0); i < cc.UIDVStart; i++ {
			_, _ = g.Generate()
		}
		cfg.UIDValidity = g
	}
	if cc.MaxMailboxes > 0 || cc.MaxMessages > 0 || cc.MaxUID > 0 || cc.MaxUIDV > 0 {
		mm, mb, mu, mv := cc.MaxMessages, cc.MaxMailboxes, cc.MaxUID, cc.MaxUIDV
		if mm == 0 {
			mm = 1 << 30
		}
		if mb == 0 {
			mb = 1 << 30
		}
		if mu == 0 {
			mu = 1<<32 - 1
		}
		if mv == 0 {
			mv = 1<<32 - 1
		}
		l := limits.NewIMAPLimits(uint32(mb), uint32(mm), imap.UID(mu), imap.UID(mv))
		cfg.Limits = &l
	}
	srv, err := StartServer(cfg)
	if err != nil {
		fmt.Fprintln(os.Stderr, "child server:", err)
		os.Exit(3)
	}
	ids := make([]string, 0)
	for _, u := range srv.Users {
		ids = append(ids, u.ID)
	}
	fmt.Printf("ADDR %s %s\n", srv.Addr, strings.Join(ids, ","))
	// stay until stdin closes (parent gone or asked to stop)
	rd := bufio.NewReader(os.Stdin)
	for {
		line, err := rd.ReadString('\n')
		if err != nil {
			break
		}
		if strings.TrimSpace(line) == "close" {
			err := srv.Close(30 * time.Second)
			if err != nil {
				fmt.Printf("CLOSED err %v\n", err)
			} else {
				fmt.Printf("CLOSED ok\n")
			}
			os.Exit(0)
		}
	}
	os.Exit(0)
}

// StartChild runs a server in a child process of the same binary.
func StartChild(cc ChildConfig) (*ChildServer, error) {
	if cc.Dir == "" {
		d, err := os.MkdirTemp("", "verif-gluon-")
		if err != nil {
			return nil, err
		}
		cc.Dir = d
	}
	if len(cc.Users) == 0 {
		cc.Users = [][2]string{{"user", "pass"}}
	}
	b, _ := json.Marshal(cc)
	exe, err := os.Executable()
	if err != nil {
		return nil, err
	}
	cmd := exec.Command(exe, "__serve")
	cmd.Env = append(os.Environ(), "VERIF_CHILD_CFG="+string(b), "GOTRACEBACK=all")
	cmd.SysProcAttr = &syscall.SysProcAttr{Pdeathsig: syscall.SIGKILL}
	stdin, err := cmd.StdinPipe()
	if err != nil {
		return nil, err
	}
	_ = stdin
	stdout, err := cmd.StdoutPipe()
	if err != nil {
		return nil, err
	}
	stderr, err := cmd.StderrPipe()
	if err != nil {
		return nil, err
	}
	if err := cmd.Start(); err != nil {
		return nil, err
	}
	cs := &ChildServer{Cfg: cc, cmd: cmd, done: make(chan struct{})}
	cs.stdin = stdin
	go func() {
		sc := bufio.NewScanner(stderr)
		sc.Buffer(make([]byte, 1<<20), 1<<20)
		for sc.Scan() {
			cs.mu.Lock()
			if len(cs.errTail) < 60 {
				cs.errTail = append(cs.errTail, sc.Text())
			}
			cs.mu.Unlock()
		}
	}()
	rd := bufio.NewReader(stdout)
	cs.stdout = rd
	lineCh := make(chan string, 1)
	go func() {
		l, _ := rd.ReadString('\n')
		lineCh <- l
	}()
	select {
	case l := <-lineCh:
		f := strings.Fields(l)
		if len(f) < 2 || f[0] != "ADDR" {
			_ = cmd.Process.Kill()
			_ = cmd.Wait()
			return nil, fmt.Errorf("child did not start: %q %s", l, cs.CrashOutput())
		}
		cs.Addr = f[1]
		if len(f) > 2 {
			cs.UserIDs = strings.Split(f[2], ",")
		}
	case <-time.After(60 * time.Second):
		_ = cmd.Process.Kill()
		_ = cmd.Wait()
		return nil, fmt.Errorf("child start timeout")
	}
	go func() {
		cs.exitErr = cmd.Wait()
		close(cs.done)
	}()
	return cs, nil
}

// Alive reports whether the child process is still running.
func (c *ChildServer) Alive() bool {
	select {
	case <-c.done:
		return false
	default:
		return true
	}
}

// WaitExit waits up to d for the child to exit and reports whether it did.
func (c *ChildServer) WaitExit(d time.Duration) bool {
	select {
	case <-c.done:
		return true
	case <-time.After(d):
		return false
	}
}

// CrashOutput returns the head of the child's stderr (panic message and first frames).
func (c *ChildServer) CrashOutput() string {
	c.mu.Lock()
	defer c.mu.Unlock()
	return strings.Join(c.errTail, "\n")
}

// RSSKiB reads the resident set size of the child from /proc.
func (c *ChildServer) RSSKiB() int64 {
	b, err := os.ReadFile(fmt.Sprintf("/proc/%d/status", c.cmd.Process.Pid))
	if err != nil {
		return -1
	}
	for _, l := range strings.Split(string(b), "\n") {
		if strings.HasPrefix(l, "VmRSS:") {
			f := strings.Fields(l)
			if len(f) >= 2 {
				n, _ := strconv.ParseInt(f[1], 10, 64)
				return n
			}
		}
	}
	return -1
}

// Threads returns the number of OS threads of the child (a coarse liveness/bloat signal).
func (c *ChildServer) Pid() int { return c.cmd.Process.Pid }

// CloseClean asks the child to run Server.Close and reports its answer ("ok", "err ...", or "" on timeout/crash).
func (c *ChildServer) CloseClean(timeout time.Duration) string {
	if !c.Alive() {
		return ""
	}
	_, _ = c.stdin.Write([]byte("close\n"))
	ch := make(chan string, 1)
	go func() {
		l, _ := c.stdout.ReadString('\n')
		ch <- strings.TrimSpace(strings.TrimPrefix(l, "CLOSED "))
	}()
	select {
	case l := <-ch:
		c.WaitExit(5 * time.Second)
		return l
	case <-time.After(timeout):
		return ""
	}
}

// Kill terminates the child (SIGKILL) without any clean-up in the child.
func (c *ChildServer) Kill() {
	if c.Alive() {
		_ = c.cmd.Process.Kill()
		<-c.done
	}
}

// Stop kills the child and removes its directories.
func (c *ChildServer) Stop() {
	c.Kill()
	_ = os.RemoveAll(c.Cfg.Dir)
}
