// Package wire is a raw IMAP client: it sends bytes, handles synchronising literals,
// checks literal framing itself and returns the untagged responses of a command as
// parsed lines (with literals kept as byte slices).
package wire

import (
	"bufio"
	"bytes"
	"errors"
	"fmt"
	"net"
	"regexp"
	"strconv"
	"strings"
	"time"
)

// Line is one response line; Lits holds the literals that were announced inside it
// (the text has "{n}" placeholders replaced by "\x00<index>\x00").
type Line struct {
	Text string
	Lits [][]byte
}

func (l Line) String() string {
	s := l.Text
	for i, lit := range l.Lits {
		s = strings.Replace(s, fmt.Sprintf("\x00%d\x00", i), fmt.Sprintf("{%d}%q", len(lit), string(lit)), 1)
	}
	return s
}

// Result of one command.
type Result struct {
	Tag      string
	Status   string // OK NO BAD or "" (connection closed / timeout)
	Text     string // text after the status
	Untagged []Line
	Closed   bool
	TimedOut bool
	Bye      bool
}

// DefaultTimeout is how long a client waits for the next line of an answer (a check that re-runs a behaviour after a
// time-out on an overloaded machine raises it for the second attempt).
var DefaultTimeout = 20 * time.Second

type Client struct {
	c        net.Conn
	r        *bufio.Reader
	n        int
	Timeout  time.Duration
	Greeting string
}

func Dial(addr string) (*Client, error) {
	c, err := net.DialTimeout("tcp", addr, 5*time.Second)
	if err != nil {
		return nil, err
	}
	cl := &Client{c: c, r: bufio.NewReaderSize(c, 1<<16), Timeout: DefaultTimeout}
	l, err := cl.readLine()
	if err != nil {
		return nil, err
	}
	cl.Greeting = l.Text
	return cl, nil
}

func (c *Client) Close() { _ = c.c.Close() }

var reLit = regexp.MustCompile(`\{(\d+)\}$`)

// readLine reads one logical response line including its literals.
func (c *Client) readLine() (Line, error) {
	var line Line
	var text strings.Builder
	for {
		_ = c.c.SetReadDeadline(time.Now().Add(c.Timeout))
		b, err := c.r.ReadBytes('\n')
		if err != nil {
			return line, err
		}
		if len(b) < 2 || b[len(b)-2] != '\r' {
			return line, fmt.Errorf("response line not CRLF terminated: %q", b)
		}
		s := string(b[:len(b)-2])
		if m := reLit.FindStringSubmatch(s); m != nil {
			n, _ := strconv.Atoi(m[1])
			buf := make([]byte, n)
			if _, err := readFull(c.r, buf); err != nil {
				return line, fmt.Errorf("literal of %d bytes cut short: %w", n, err)
			}
			text.WriteString(s[:len(s)-len(m[0])])
			text.WriteString(fmt.Sprintf("\x00%d\x00", len(line.Lits)))
			line.Lits = append(line.Lits, buf)
			continue
		}
		text.WriteString(s)
		line.Text = text.String()
		return line, nil
	}
}

func readFull(r *bufio.Reader, buf []byte) (int, error) {
	n := 0
	for n < len(buf) {
		k, err := r.Read(buf[n:])
		n += k
		if err != nil {
			return n, err
		}
	}
	return n, nil
}

// NextTag returns a fresh tag.
func (c *Client) NextTag() string {
	c.n++
	return fmt.Sprintf("T%d", c.n)
}

// Cmd sends "<tag> <cmd>\r\n" and collects responses up to the tagged completion.
func (c *Client) Cmd(cmd string) Result {
	tag := c.NextTag()
	return c.Raw(tag, []byte(tag+" "+cmd+"\r\n"))
}

// CmdLit sends a command whose last argument is a synchronising literal:
// "<tag> <prefix> {n}\r\n" wait for "+" then lit + "\r\n".
func (c *Client) CmdLit(prefix string, lit []byte) Result {
	tag := c.NextTag()
	first := []byte(fmt.Sprintf("%s %s {%d}\r\n", tag, prefix, len(lit)))
	if _, err := c.c.Write(first); err != nil {
		return Result{Tag: tag, Closed: true}
	}
	// wait for continuation or a tagged refusal
	res := Result{Tag: tag}
	for {
		l, err := c.readLine()
		if err != nil {
			res.fail(err)
			return res
		}
		if strings.HasPrefix(l.Text, "+") {
			break
		}
		if done := res.absorb(l); done {
			return res
		}
	}
	return c.Raw(tag, append(append([]byte{}, lit...), '\r', '\n'))
}

func (r *Result) fail(err error) {
	var ne net.Error
	if errors.As(err, &ne) && ne.Timeout() {
		r.TimedOut = true
	} else {
		r.Closed = true
	}
}

func (r *Result) absorb(l Line) bool {
	if strings.HasPrefix(l.Text, r.Tag+" ") {
		rest := strings.TrimPrefix(l.Text, r.Tag+" ")
		sp := strings.SplitN(rest, " ", 2)
		r.Status = sp[0]
		if len(sp) > 1 {
			r.Text = sp[1]
		}
		return true
	}
	if strings.HasPrefix(l.Text, "* BYE") {
		r.Bye = true
	}
	r.Untagged = append(r.Untagged, l)
	return false
}

// Raw writes the bytes and reads until the completion tagged with tag.
func (c *Client) Raw(tag string, b []byte) Result {
	res := Result{Tag: tag}
	if _, err := c.c.Write(b); err != nil {
		res.Closed = true
		return res
	}
	for {
		l, err := c.readLine()
		if err != nil {
			res.fail(err)
			return res
		}
		if res.absorb(l) {
			return res
		}
	}
}

// Write sends raw bytes without reading anything.
func (c *Client) Write(b []byte) error {
	_, err := c.c.Write(b)
	return err
}

// ReadLine reads a single response line (for IDLE and free-form dialogs).
func (c *Client) ReadLine(timeout time.Duration) (Line, error) {
	old := c.Timeout
	c.Timeout = timeout
	defer func() { c.Timeout = old }()
	return c.readLine()
}

// Login is a convenience.
func (c *Client) Login(user, pass string) Result { return c.Cmd("LOGIN " + user + " " + pass) }

// Append sends APPEND with a literal; flags may be "".
func (c *Client) Append(mbox, flags string, lit []byte) Result {
	p := "APPEND " + Quote(mbox)
	if flags != "" {
		p += " (" + flags + ")"
	}
	return c.CmdLit(p, lit)
}

// Quote renders a quoted string.
func Quote(s string) string {
	var b bytes.Buffer
	b.WriteByte('"')
	for i := 0; i < len(s); i++ {
		if s[i] == '"' || s[i] == '\\' {
			b.WriteByte('\\')
		}
		b.WriteByte(s[i])
	}
	b.WriteByte('"')
	return b.String()
}

// ---- interpretation helpers -------------------------------------------------

var (
	reNum   = regexp.MustCompile(`^\* (\d+) (EXISTS|RECENT|EXPUNGE)$`)
	reFetch = regexp.MustCompile(`^\* (\d+) FETCH \((.*)\)$`)
	reUID   = regexp.MustCompile(`(?:^| )UID (\d+)`)
	reFlags = regexp.MustCompile(`FLAGS \(([^)]*)\)`)
)

// Ev is an interpreted untagged response relevant to the mailbox view.
type Ev struct {
	Kind     string // EXISTS RECENT EXPUNGE FETCH
	N        int
	UID      int      // 0 = not present
	Flags    []string // nil = not present; sorted lower-case without backslash normalisation
	HasFlags bool
}

// Events extracts EXISTS/RECENT/EXPUNGE/FETCH events from untagged lines, in order.
func Events(ls []Line) []Ev {
	var out []Ev
	for _, l := range ls {
		if m := reNum.FindStringSubmatch(l.Text); m != nil {
			n, _ := strconv.Atoi(m[1])
			out = append(out, Ev{Kind: m[2], N: n})
			continue
		}
		if m := reFetch.FindStringSubmatch(l.Text); m != nil {
			n, _ := strconv.Atoi(m[1])
			e := Ev{Kind: "FETCH", N: n}
			if u := reUID.FindStringSubmatch(m[2]); u != nil {
				e.UID, _ = strconv.Atoi(u[1])
			}
			if f := reFlags.FindStringSubmatch(m[2]); f != nil {
				e.HasFlags = true
				e.Flags = strings.Fields(f[1])
			}
			out = append(out, e)
		}
	}
	return out
}
