// Package ev is the verdict and evidence side of every check: it collects what a run
// covered, the violations it saw on the real code, matches them against
// /verif/known-findings.json, writes /verif/evidence/<id>.json and decides the exit code.
package ev

import (
	"crypto/sha1"
	"encoding/hex"
	"encoding/json"
	"fmt"
	"os"
	"path/filepath"
	"sort"
	"strconv"
	"strings"
	"sync"
	"time"
)

// Root is /verif (VERIF_ROOT is exported by ./check).
func Root() string {
	if r := os.Getenv("VERIF_ROOT"); r != "" {
		return r
	}
	return "/verif"
}

// Seed returns VERIF_SEED (default 1).
func Seed() int64 {
	if s := os.Getenv("VERIF_SEED"); s != "" {
		if n, err := strconv.ParseInt(s, 10, 64); err == nil {
			return n
		}
	}
	return 1
}

type Violation struct {
	Key    string      `json:"key"`    // signature used to match known findings
	Detail string      `json:"detail"` // human readable
	Replay interface{} `json:"replay,omitempty"`
}

type Finding struct {
	Property string `json:"property"`
	Status   string `json:"status"` // "known" | "fixed"
	Key      string `json:"key"`    // exact key or prefix ending in '*'
	What     string `json:"what"`
	Commit   string `json:"commit,omitempty"`
}

type Run struct {
	ID, Tier    string
	Level       string
	Cov         map[string]interface{}
	Assumptions []string

	mu         sync.Mutex
	start      time.Time
	violations []Violation
	seenKeys   map[string]bool
	machinery  []string
	samples    []interface{}
	nontrivial map[string]bool
	evals      int64
}

func New(id, tier, level string) *Run {
	return &Run{ID: id, Tier: tier, Level: level, Cov: map[string]interface{}{}, start: time.Now(),
		seenKeys: map[string]bool{}, nontrivial: map[string]bool{}}
}

// Violate records a violation observed on the real code.
func (r *Run) Violate(key, detail string, replay interface{}) {
	r.mu.Lock()
	defer r.mu.Unlock()
	if r.seenKeys[key] {
		return
	}
	r.seenKeys[key] = true
	r.violations = append(r.violations, Violation{Key: key, Detail: detail, Replay: replay})
}

// Violations returns a copy of the violations recorded so far.
func (r *Run) Violations() []Violation {
	r.mu.Lock()
	defer r.mu.Unlock()
	return append([]Violation{}, r.violations...)
}

// MachineryProblems returns the machinery problems recorded so far.
func (r *Run) MachineryProblems() []string {
	r.mu.Lock()
	defer r.mu.Unlock()
	return append([]string{}, r.machinery...)
}

// Evals returns the number of evaluations counted so far.
func (r *Run) Evals() int64 {
	r.mu.Lock()
	defer r.mu.Unlock()
	return r.evals
}

func (r *Run) NumViolations() int {
	r.mu.Lock()
	defer r.mu.Unlock()
	return len(r.violations)
}

// Machinery records a problem that is not a verdict (exit 2).
func (r *Run) Machinery(format string, a ...interface{}) {
	r.mu.Lock()
	defer r.mu.Unlock()
	r.machinery = append(r.machinery, fmt.Sprintf(format, a...))
}

// Sample keeps up to 8 written-out cases.
func (r *Run) Sample(s interface{}) {
	r.mu.Lock()
	defer r.mu.Unlock()
	if len(r.samples) < 8 {
		r.samples = append(r.samples, s)
	}
}

// Eval counts one executed case; sig identifies it for distinctness; nontrivial by the driver's rule.
func (r *Run) Eval(sig string, nontrivial bool) {
	r.mu.Lock()
	defer r.mu.Unlock()
	r.evals++
	if nontrivial {
		r.nontrivial[sig] = true
	}
}

func (r *Run) Add(key string, n int64) {
	r.mu.Lock()
	defer r.mu.Unlock()
	cur, _ := r.Cov[key].(int64)
	r.Cov[key] = cur + n
}

func (r *Run) Set(key string, v interface{}) {
	r.mu.Lock()
	defer r.mu.Unlock()
	r.Cov[key] = v
}

func loadFindings() []Finding {
	b, err := os.ReadFile(filepath.Join(Root(), "known-findings.json"))
	if err != nil {
		return nil
	}
	var f struct {
		Findings []Finding `json:"findings"`
	}
	if err := json.Unmarshal(b, &f); err != nil {
		fmt.Fprintf(os.Stderr, "known-findings.json unreadable: %v\n", err)
		return nil
	}
	return f.Findings
}

func matches(f Finding, prop, key string) bool {
	if f.Property != prop || f.Status != "known" {
		return false
	}
	if strings.HasSuffix(f.Key, "*") {
		return strings.HasPrefix(key, strings.TrimSuffix(f.Key, "*"))
	}
	return f.Key == key
}

// Shard returns (k, K): this process handles shard k of K (0, 1 when not sharded).
func Shard() (int, int) {
	k, _ := strconv.Atoi(os.Getenv("VERIF_SHARD"))
	n, _ := strconv.Atoi(os.Getenv("VERIF_SHARDS"))
	if n <= 1 {
		return 0, 1
	}
	return k, n
}

// Partial is what a shard hands back to the parent process.
type Partial struct {
	Cov         map[string]interface{} `json:"cov"`
	Violations  []Violation            `json:"violations"`
	Machinery   []string               `json:"machinery"`
	Samples     []interface{}          `json:"samples"`
	NonTrivial  []string               `json:"nontrivial"`
	Evals       int64                  `json:"evals"`
	Assumptions []string               `json:"assumptions"`
}

// WritePartial stores the run's results for the parent (used by shard processes instead of Finish).
func (r *Run) WritePartial(path string) error {
	r.mu.Lock()
	defer r.mu.Unlock()
	p := Partial{Cov: r.Cov, Violations: r.violations, Machinery: r.machinery, Samples: r.samples, Evals: r.evals, Assumptions: r.Assumptions}
	for k := range r.nontrivial {
		p.NonTrivial = append(p.NonTrivial, k)
	}
	b, err := json.Marshal(p)
	if err != nil {
		return err
	}
	return os.WriteFile(path, b, 0o644)
}

// Merge adds a shard's results: integer counters are summed, other values kept from the first shard.
func (r *Run) Merge(p *Partial) {
	r.mu.Lock()
	defer r.mu.Unlock()
	for k, v := range p.Cov {
		if f, ok := v.(float64); ok && f == float64(int64(f)) {
			cur, _ := r.Cov[k].(int64)
			r.Cov[k] = cur + int64(f)
		} else if _, have := r.Cov[k]; !have {
			r.Cov[k] = v
		}
	}
	for _, v := range p.Violations {
		if !r.seenKeys[v.Key] {
			r.seenKeys[v.Key] = true
			r.violations = append(r.violations, v)
		}
	}
	r.machinery = append(r.machinery, p.Machinery...)
	for _, s := range p.Samples {
		if len(r.samples) < 8 {
			r.samples = append(r.samples, s)
		}
	}
	for _, k := range p.NonTrivial {
		r.nontrivial[k] = true
	}
	r.evals += p.Evals
	if r.Assumptions == nil {
		r.Assumptions = p.Assumptions
	}
}

// Finish writes the evidence file, prints verdict lines and returns the exit code.
func (r *Run) Finish() int {
	r.mu.Lock()
	defer r.mu.Unlock()
	findings := loadFindings()
	var unknown []Violation
	known := map[string]Finding{}
	for _, v := range r.violations {
		hit := false
		for _, f := range findings {
			if matches(f, r.ID, v.Key) {
				known[f.Key] = f
				hit = true
				break
			}
		}
		if !hit {
			unknown = append(unknown, v)
		}
	}
	keys := make([]string, 0, len(known))
	for k := range known {
		keys = append(keys, k)
	}
	sort.Strings(keys)
	for _, k := range keys {
		fmt.Printf("KNOWN-FINDING: property=%s %s (%s)\n", r.ID, known[k].What, k)
	}

	cov := r.Cov
	if _, ok := cov["evaluations"]; !ok {
		cov["evaluations"] = r.evals
	}
	if _, ok := cov["distinct_nontrivial"]; !ok {
		cov["distinct_nontrivial"] = int64(len(r.nontrivial))
	}
	if _, ok := cov["samples"]; !ok {
		if len(r.samples) == 0 {
			r.samples = append(r.samples, "no case was executed")
		}
		cov["samples"] = r.samples
	}
	if st, ok := cov["states"].(int64); ok && st == 0 {
		if v, ok := cov["states_visited_in_simulation"].(int64); ok && v > 0 {
			cov["states"] = v
			cov["states_note"] = "no exhaustive TLC run in this tier: states = states visited by TLC in simulation mode (not distinct)"
		}
	}
	cov["known_findings_reproduced"] = keys
	if len(r.machinery) > 0 {
		cov["machinery_problems"] = r.machinery
	}
	evd := map[string]interface{}{
		"property_id": r.ID, "tier": r.Tier, "seed": Seed(), "level": r.Level,
		"coverage": cov, "assumptions": r.Assumptions,
		"wall_s": time.Since(r.start).Seconds(), "violations": len(unknown),
	}
	if r.Assumptions == nil {
		evd["assumptions"] = []string{}
	}
	b, _ := json.MarshalIndent(evd, "", " ")
	// a run against a scratch worktree (VERIF_REPO, seeded changes) or of one component alone (VERIF_ONLY*) is a
	// development run: its evidence does not replace that of the registered check against /repo
	evDir := "evidence"
	if os.Getenv("VERIF_REPO") != "" || os.Getenv("VERIF_ONLY") != "" || os.Getenv("VERIF_ONLY_ALL") != "" {
		evDir = filepath.Join(".scratch", "evidence-dev")
	}
	_ = os.MkdirAll(filepath.Join(Root(), evDir), 0o755)
	if err := os.WriteFile(filepath.Join(Root(), evDir, r.ID+".json"), b, 0o644); err != nil {
		fmt.Fprintf(os.Stderr, "cannot write evidence: %v\n", err)
		return 2
	}

	for _, v := range unknown {
		path := WriteReplay(r.ID, v)
		fmt.Printf("VIOLATION property=%s replay=%s\n", r.ID, path)
		fmt.Printf("  key=%s\n  %s\n", v.Key, strings.ReplaceAll(v.Detail, "\n", "\n  "))
	}
	if len(unknown) > 0 {
		return 1
	}
	if len(r.machinery) > 0 {
		for _, m := range r.machinery {
			fmt.Fprintf(os.Stderr, "MACHINERY property=%s %s\n", r.ID, m)
		}
		return 2
	}
	fmt.Printf("OK property=%s tier=%s evaluations=%v wall=%.1fs\n", r.ID, r.Tier, cov["evaluations"], time.Since(r.start).Seconds())
	return 0
}

// WriteReplay stores a failing case under /verif/replays and returns its path.
func WriteReplay(id string, v Violation) string {
	h := sha1.Sum([]byte(v.Key))
	name := fmt.Sprintf("%s-%s.json", id, hex.EncodeToString(h[:6]))
	dir := filepath.Join(Root(), "replays")
	_ = os.MkdirAll(dir, 0o755)
	p := filepath.Join(dir, name)
	b, _ := json.MarshalIndent(map[string]interface{}{"property": id, "key": v.Key, "detail": v.Detail, "replay": v.Replay}, "", " ")
	_ = os.WriteFile(p, b, 0o644)
	return p
}
