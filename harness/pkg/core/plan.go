package core

import (
	"bufio"
	"encoding/json"
	"fmt"
	"math/rand"
	"os"
	"path/filepath"
	"sort"
	"strings"
	"time"

	"github.com/ProtonMail/gluon/verif/pkg/ev"
	"github.com/ProtonMail/gluon/verif/pkg/tlc"
	"github.com/ProtonMail/gluon/verif/pkg/wire"
)

// SimCfg is one TLC simulation run whose behaviours are replayed.
type SimCfg struct {
	File  string // cfg file name under spec/cfg
	Num   int    // behaviours
	Depth int
}

// ExhCfg is one exhaustive TLC run (design-level evidence; invariants must hold).
type ExhCfg struct {
	File    string
	Timeout time.Duration
	Workers int
}

// AllCfg is a bounded-exhaustive configuration (NEXT AllNext): TLC enumerates EVERY behaviour of MaxSteps free
// steps after a scripted prefix; Max > 0 replays a seeded sample that covers as many distinct (action, session)
// sequences as possible, 0 replays all of them.
type AllCfg struct {
	File    string
	Max     int
	Timeout time.Duration
	// EndOnly: compare the authoritative content only at the end of each (short) behaviour, not after every step.
	EndOnly bool
}

type Plan struct {
	Prop       string
	Sims       []SimCfg
	Exhaustive []ExhCfg
	// Own tells whether a finding is a violation of this check's property.
	Own func(f Finding) bool
	// DriftIsViolation: for reference-model properties a divergence of these kinds is itself the violation.
	DriftKinds      map[string]bool
	Boxes           []string
	Sessions        []string
	CheckDBEachStep bool
	// ContinueAfterViewDrift: a behaviour in which a session's view left the model goes on and the mailboxes stay compared
	ContinueAfterViewDrift bool
	MaxMsgs, MaxUID        int // configured limits (C17)
	Alls                   []AllCfg
	// Scripts are cfg files whose Script constant fixes one schedule (witnesses of the known deviations):
	// each yields one behaviour, replayed before the simulated ones (by shard 0).
	Scripts []string
}

func specDir() string { return filepath.Join(ev.Root(), "spec") }

// Generate runs TLC in simulation mode and returns the behaviours it printed.
func Generate(cfg SimCfg, seed int64) ([]*Trace, *tlc.Result, error) {
	var traces []*Trace
	res, err := tlc.Run(tlc.Options{
		SpecDir: specDir(), Module: "GluonCore", Cfg: filepath.Join(specDir(), "cfg", cfg.File),
		Workers: 1, Simulate: true, SimNum: cfg.Num, SimDepth: cfg.Depth, Seed: seed,
		Timeout: 10 * time.Minute, KeepOutput: true,
		OnJSON: func(raw []byte) {
			var t Trace
			if err := json.Unmarshal(raw, &t); err == nil && len(t.Steps) > 0 {
				traces = append(traces, &t)
			}
		},
	})
	if err != nil {
		return nil, nil, err
	}
	return traces, res, nil
}

func tailStr(s string, n int) string {
	if len(s) > n {
		return s[len(s)-n:]
	}
	return s
}

// ReplayAll replays behaviours one after the other, each on a fresh server.
// hangs counts the behaviours of this process that hung again when they were re-run alone.
var hangs int

func ReplayAll(run *ev.Run, plan Plan, traces []*Trace, source string) {
	t0 := time.Now()
	defer func() { run.Add("replay_ms_"+source, time.Since(t0).Milliseconds()) }()
	g := NewGate()
	defer g.Release()
	drifts := 0
	opt := Options{Sessions: plan.Sessions, Boxes: plan.Boxes, CheckDBEachStep: plan.CheckDBEachStep, MaxMsgs: plan.MaxMsgs, MaxUID: plan.MaxUID,
		ContinueAfterViewDrift: plan.ContinueAfterViewDrift}
	var pool *Pool
	defer func() {
		if pool != nil {
			pool.Close()
		}
	}()
	for ti, t := range traces {
		// the verdict is settled long before: three behaviours that hung again when re-run alone (each costs minutes), or 25
		// violations in this worker - what remains of this source is not replayed
		if hangs >= 3 || run.NumViolations() >= 25 {
			run.Add("behaviours_not_replayed_after_the_verdict_was_settled", int64(len(traces)-ti))
			break
		}
		// one real server per worker; a fresh one after a behaviour that crashed or hung it
		if pool != nil && !pool.Healthy() {
			pool.Close()
			pool = nil
		}
		if pool == nil {
			p, err := NewPool(g, opt)
			if err != nil {
				run.Machinery("cannot start a server: %v", err)
				return
			}
			pool = p
		}
		rig, err := pool.NewRig()
		if err != nil {
			run.Machinery("cannot prepare a behaviour: %v", err)
			return
		}
		rep := rig.Run(t)
		rig.Close()
		if rep.Drift != nil && (rep.Drift.Kind == "connection" || rep.Drift.Kind == "deliver") && strings.Contains(rep.Drift.Detail, "timeout=true") || (rep.Drift != nil && rep.Drift.Kind == "deliver") {
			// No answer within the client's time-out: a hang - or a machine that is too busy. The behaviour is run once more,
			// alone on a fresh server and with a six times longer time-out; only what happens then counts.
			run.Add("behaviours_rerun_after_a_timeout", 1)
			pool.Close()
			old := wire.DefaultTimeout
			wire.DefaultTimeout = 6 * old
			p2, err := NewPool(g, opt)
			if err != nil {
				wire.DefaultTimeout = old
				run.Machinery("cannot start a server: %v", err)
				return
			}
			pool = p2
			if rig2, err := pool.NewRig(); err == nil {
				rep = rig2.Run(t)
				rig2.Close()
			}
			wire.DefaultTimeout = old
			if rep.Drift != nil && (rep.Drift.Kind == "connection" || rep.Drift.Kind == "deliver") {
				hangs++
			}
		}
		run.Eval(t.Sig(), t.NonTrivial())
		run.Add("steps_replayed", int64(rep.Steps))
		for i := 0; i < rep.Steps && i < len(t.Steps); i++ {
			k := "replayed_" + t.Steps[i].Act
			if t.Steps[i].Status != "OK" && t.Steps[i].Status != "" {
				k += "_" + t.Steps[i].Status
			}
			run.Add(k, 1)
		}
		run.Add("traces_validated_against_impl", 1)
		if ti < 2 {
			run.Sample(map[string]interface{}{"source": source, "abstract_steps": describeAll(t), "concrete": rep.Log})
		}
		for _, f := range rep.Findings {
			if plan.Own(f) {
				run.Violate(f.Key, fmt.Sprintf("%s\nbehaviour (%s #%d):\n  %s", f.Detail, source, ti, strings.Join(rep.Log, "\n  ")),
					map[string]interface{}{"trace": t, "finding": f})
			} else {
				run.Add("findings_of_other_properties", 1)
			}
		}
		if rep.Drift != nil {
			drifts++
			d := rep.Drift
			if plan.DriftKinds[d.Kind] {
				key := plan.Prop + "/drift-" + d.Kind + "/" + t.Steps[min(d.Step, len(t.Steps))-1].Act
				run.Violate(key, fmt.Sprintf("step %d: %s\nbehaviour (%s #%d):\n  %s", d.Step, d.Detail, source, ti, strings.Join(rep.Log, "\n  ")),
					map[string]interface{}{"trace": t, "drift": d})
			} else if d.Kind == "panic" || d.Kind == "connection" {
				// a crashed or hung command is never a behaviour of the model, whatever the property
				key := plan.Prop + "/" + d.Kind + "/" + t.Steps[min(d.Step, len(t.Steps))-1].Act
				run.Violate(key, fmt.Sprintf("step %d: %s\nbehaviour (%s #%d):\n  %s", d.Step, d.Detail, source, ti, strings.Join(rep.Log, "\n  ")),
					map[string]interface{}{"trace": t, "drift": d})
			} else if d.Kind == "harness" || d.Kind == "oracle" {
				run.Machinery("trace %d: %s", ti, d.Detail)
			} else {
				run.Add("drift_"+d.Kind, 1)
				if drifts <= 3 {
					// development aid: keep the behaviour so that it can be replayed alone
					ev.WriteReplay(plan.Prop+"-drift", ev.Violation{Key: fmt.Sprintf("drift-%s-%d", d.Kind, drifts), Detail: d.Detail, Replay: map[string]interface{}{"trace": t}})
					run.Sample(map[string]interface{}{"drift": d, "concrete": rep.Log})
				}
			}
		}
	}
	run.Add("drifted_traces", int64(drifts))
	// a specification that no longer describes the code decides nothing: too much drift is a machinery failure
	if (len(traces) >= 10 && drifts*5 > len(traces)) || (strings.Contains(source, ".script.") && drifts > 0) {
		run.Machinery("%d of %d behaviours of %s left the specification (see coverage.samples): the specification and the code disagree on something this property does not judge; the run decides nothing", drifts, len(traces), source)
	}
}

func min(a, b int) int {
	if a < b {
		return a
	}
	return b
}

func describeAll(t *Trace) []string {
	out := make([]string, 0, len(t.Steps))
	for i := range t.Steps {
		out = append(out, t.Steps[i].Describe())
	}
	return out
}

// RunPlan is the body of a GluonCore-based check.
func RunPlan(run *ev.Run, plan Plan, replay string) {
	if replay != "" {
		b, err := os.ReadFile(replay)
		if err != nil {
			run.Machinery("replay: %v", err)
			return
		}
		var rp struct {
			Replay struct {
				Trace *Trace `json:"trace"`
			} `json:"replay"`
		}
		if err := json.Unmarshal(b, &rp); err != nil || rp.Replay.Trace == nil {
			run.Machinery("replay file has no trace: %v", err)
			return
		}
		run.Set("states", 1)
		run.Set("transitions", int64(len(rp.Replay.Trace.Steps)))
		ReplayAll(run, plan, []*Trace{rp.Replay.Trace}, "replay")
		return
	}
	var states, transitions, simStates int64
	for ei, e := range plan.Exhaustive {
		if sh, n := ev.Shard(); ei%n != sh {
			continue // the exhaustive runs are divided among the shards
		}
		w := e.Workers
		if w == 0 {
			w = 16
		}
		res, err := tlc.Run(tlc.Options{SpecDir: specDir(), Module: "GluonCore", Cfg: filepath.Join(specDir(), "cfg", e.File),
			Workers: w, Timeout: e.Timeout, KeepOutput: true, HeapGB: 8})
		if err != nil {
			run.Machinery("tlc %s: %v", e.File, err)
			return
		}
		if res.Violated != "" || res.Error != "" || !res.Finished || res.TimedOut {
			run.Machinery("TLC on %s did not finish cleanly (violated=%q error=%q timeout=%v): this is a model-level result, not a verdict about the code\n%s",
				e.File, res.Violated, res.Error, res.TimedOut, tailStr(res.Output, 3000))
			return
		}
		states += res.Distinct
		transitions += res.Generated
		run.Set("exhaustive_"+e.File, map[string]interface{}{"distinct_states": res.Distinct, "generated": res.Generated, "depth": res.Depth, "wall_s": res.Wall.Seconds()})
	}
	if sh, _ := ev.Shard(); sh == 0 {
		for _, f := range plan.Scripts {
			traces, res, err := Generate(SimCfg{File: f, Num: 1, Depth: 200}, 1)
			if err != nil || len(traces) != 1 || res.Violated != "" || res.Error != "" {
				run.Machinery("scripted behaviour %s: err=%v traces=%d violated=%q error=%q", f, err, len(traces), res.Violated, res.Error)
				return
			}
			ReplayAll(run, plan, traces, f)
		}
	}
	for _, ac := range onlyAll(plan.Alls) {
		if !runAll(run, plan, ac) {
			return
		}
	}
	if os.Getenv("VERIF_ONLY_ALL") != "" {
		return
	}
	seed := ev.Seed()
	shard, nshards := ev.Shard()
	seed = seed*1000003 + int64(shard)*7919
	for i, sc := range plan.Sims {
		sc.Num = (sc.Num + nshards - 1) / nshards
		traces, res, err := Generate(sc, seed+int64(i)*1000)
		if err != nil {
			run.Machinery("tlc simulate %s: %v", sc.File, err)
			return
		}
		if res.Violated != "" || res.Error != "" {
			run.Machinery("TLC simulation of %s reported %q %q (model-level, not a verdict)\n%s", sc.File, res.Violated, res.Error, tailStr(res.Output, 3000))
			return
		}
		if len(traces) == 0 {
			run.Machinery("TLC simulation of %s produced no behaviour\n%s", sc.File, tailStr(res.Output, 2000))
			return
		}
		transitions += res.Generated
		simStates += res.Generated
		ReplayAll(run, plan, traces, sc.File)
	}
	run.Add("states", states)
	run.Add("transitions", transitions)
	run.Add("states_visited_in_simulation", simStates)
}

// onlyAll: development aid - VERIF_ONLY_ALL=<cfg file> replays that bounded-exhaustive configuration completely
// and nothing else.
func onlyAll(alls []AllCfg) []AllCfg {
	if f := os.Getenv("VERIF_ONLY_ALL"); f != "" {
		return []AllCfg{{File: f, EndOnly: true}}
	}
	return alls
}

// PrepareAlls runs the bounded-exhaustive TLC enumerations once (parent process) and stores the behaviours in dir.
func PrepareAlls(alls []AllCfg, dir string) error {
	alls = onlyAll(alls)
	for _, ac := range alls {
		to := ac.Timeout
		if to == 0 {
			to = 20 * time.Minute
		}
		f, err := os.Create(filepath.Join(dir, ac.File+".ndjson"))
		if err != nil {
			return err
		}
		n := 0
		res, err := tlc.Run(tlc.Options{SpecDir: specDir(), Module: "GluonCore", Cfg: filepath.Join(specDir(), "cfg", ac.File),
			Workers: 8, Timeout: to, KeepOutput: true, HeapGB: 8,
			OnJSON: func(raw []byte) {
				n++
				_, _ = f.Write(raw)
				_, _ = f.Write([]byte{'\n'})
			}})
		_ = f.Close()
		if err != nil || res.Violated != "" || res.Error != "" || !res.Finished || res.TimedOut || n == 0 {
			return fmt.Errorf("bounded-exhaustive TLC run %s: err=%v violated=%q error=%q finished=%v behaviours=%d (model-level, not a verdict)\n%s",
				ac.File, err, res.Violated, res.Error, res.Finished, n, tailStr(res.Output, 1500))
		}
		meta, _ := json.Marshal(map[string]interface{}{"behaviours_enumerated": n, "distinct_states": res.Distinct, "generated": res.Generated, "tlc_wall_s": res.Wall.Seconds()})
		if err := os.WriteFile(filepath.Join(dir, ac.File+".meta.json"), meta, 0o644); err != nil {
			return err
		}
	}
	return nil
}

// runAll replays this shard's part of the behaviours PrepareAlls enumerated.
func runAll(run *ev.Run, plan Plan, ac AllCfg) bool {
	dir := os.Getenv("VERIF_SHARED_DIR")
	if dir == "" {
		// not sharded: enumerate here
		d, err := os.MkdirTemp("", "verif-alls-")
		if err != nil {
			run.Machinery("%v", err)
			return false
		}
		defer os.RemoveAll(d)
		if err := PrepareAlls([]AllCfg{ac}, d); err != nil {
			run.Machinery("%v", err)
			return false
		}
		dir = d
	}
	fh, err := os.Open(filepath.Join(dir, ac.File+".ndjson"))
	if err != nil {
		run.Machinery("behaviours of %s not prepared: %v", ac.File, err)
		return false
	}
	defer fh.Close()
	// First pass: only what orders and groups the behaviours (action, session, arguments, status) is decoded - every shard reads
	// the whole file, and holding every behaviour with all its step records cost gigabytes per shard.
	type lightStep struct {
		Act    string            `json:"act"`
		S      string            `json:"s"`
		Args   []json.RawMessage `json:"args"`
		Status string            `json:"status"`
	}
	type lightTrace struct {
		Steps []lightStep `json:"trace"`
	}
	type ref struct {
		line  int
		sig   string
		group string
	}
	var refs []ref
	sc := bufio.NewScanner(fh)
	sc.Buffer(make([]byte, 1<<20), 1<<26)
	for line := 0; sc.Scan(); line++ {
		var lt lightTrace
		if err := json.Unmarshal(sc.Bytes(), &lt); err != nil || len(lt.Steps) == 0 {
			continue
		}
		var sig, grp strings.Builder
		for i := range lt.Steps {
			st := Step{Act: lt.Steps[i].Act, S: lt.Steps[i].S, Args: lt.Steps[i].Args, Status: lt.Steps[i].Status}
			sig.WriteString(st.Describe())
			sig.WriteByte(';')
			grp.WriteString(st.Act + "/" + st.S + ";")
		}
		refs = append(refs, ref{line: line, sig: sig.String(), group: grp.String()})
	}
	shard, n := ev.Shard()
	if shard == 0 {
		var meta map[string]interface{}
		if b, err := os.ReadFile(filepath.Join(dir, ac.File+".meta.json")); err == nil && json.Unmarshal(b, &meta) == nil {
			run.Set("all_"+ac.File, meta)
			if v, ok := meta["distinct_states"].(float64); ok {
				run.Add("states", int64(v))
			}
			if v, ok := meta["generated"].(float64); ok {
				run.Add("transitions", int64(v))
			}
		}
	}
	// deterministic order whatever the TLC worker interleaving was
	sort.Slice(refs, func(i, j int) bool { return refs[i].sig < refs[j].sig })
	pick := refs
	if ac.Max > 0 && len(refs) > ac.Max {
		groups := map[string][]ref{}
		var keys []string
		for _, t := range refs {
			if _, ok := groups[t.group]; !ok {
				keys = append(keys, t.group)
			}
			groups[t.group] = append(groups[t.group], t)
		}
		rnd := rand.New(rand.NewSource(ev.Seed()*104729 + 17))
		rnd.Shuffle(len(keys), func(i, j int) { keys[i], keys[j] = keys[j], keys[i] })
		pick = nil
		for round := 0; len(pick) < ac.Max; round++ {
			added := false
			for _, k := range keys {
				g := groups[k]
				if round < len(g) && len(pick) < ac.Max {
					pick = append(pick, g[(round+int(rnd.Int31n(int32(len(g)))))%len(g)])
					added = true
				}
			}
			if !added {
				break
			}
		}
		if shard == 0 {
			run.Set("all_"+ac.File+"_groups", len(keys))
		}
	}
	// second pass: this shard's share is decoded in full
	order := map[int]int{}
	for i, t := range pick {
		if _, dup := order[t.line]; i%n == shard && !dup {
			order[t.line] = len(order)
		}
	}
	mine := make([]*Trace, len(order))
	if _, err := fh.Seek(0, 0); err != nil {
		run.Machinery("%v", err)
		return false
	}
	sc = bufio.NewScanner(fh)
	sc.Buffer(make([]byte, 1<<20), 1<<26)
	for line := 0; sc.Scan(); line++ {
		pos, ok := order[line]
		if !ok {
			continue
		}
		var t Trace
		if err := json.Unmarshal(sc.Bytes(), &t); err != nil || len(t.Steps) == 0 {
			run.Machinery("behaviour %d of %s cannot be decoded: %v", line, ac.File, err)
			return false
		}
		mine[pos] = &t
	}
	if ac.EndOnly {
		plan.CheckDBEachStep = false
	}
	ReplayAll(run, plan, mine, ac.File)
	return true
}
