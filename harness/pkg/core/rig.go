package core

import (
	"bytes"
	"fmt"
	"regexp"
	"sort"
	"strconv"
	"strings"
	"sync"
	"time"

	"github.com/ProtonMail/gluon/imap"
	"github.com/ProtonMail/gluon/limits"
	"github.com/ProtonMail/gluon/verif/pkg/fixture"
	"github.com/ProtonMail/gluon/verif/pkg/wire"
)

// Finding is a property predicate that failed on what the real server sent.
type Finding struct {
	Prop   string // C01, C02, ...
	Key    string // signature (known findings are matched on it)
	Detail string
	Step   int
}

// Drift: the real server left the behaviour the specification predicts.
type Drift struct {
	Step   int
	Kind   string
	Detail string
	Sess   string // the session whose view differs (view kinds)
}

type Report struct {
	Drift    *Drift
	Findings []Finding
	Steps    int
	Log      []string // concrete rendering of the executed steps
}

type mentry struct {
	uid   int
	flags []string
	known bool // flags known
}

type rsess struct {
	name    string
	c       *wire.Client
	id      int64
	mirror  []mentry
	box     string
	idle    bool
	idleTag string
}

type panicRec struct {
	mu  sync.Mutex
	got []string
}

func (p *panicRec) HandlePanic(r interface{}) {
	if r == nil {
		return
	}
	p.mu.Lock()
	defer p.mu.Unlock()
	p.got = append(p.got, fmt.Sprint(r))
}

// Options of a rig.
type Options struct {
	Sessions []string
	Boxes    []string
	Limits   *limits.IMAP
	// ContinueAfterViewDrift: see Rig.Run
	ContinueAfterViewDrift bool
	// CheckDBEachStep compares the authoritative content (fresh EXAMINE) with the model after every
	// state-changing step instead of only at the end (C03, C06, C17, C20).
	CheckDBEachStep bool
	// configured limits of the server (0 = default limits)
	MaxMsgs, MaxUID int
}

// Rig is one fresh server with gated sessions, an ungated oracle session and the harness connector.
// Pool is one real server shared by the behaviours a worker process replays one after the other; every behaviour
// gets fresh mailboxes (model name + suffix), fresh sessions and literals of its own.
type Pool struct {
	opt   Options
	srv   *fixture.Server
	gate  *Gate
	conn  *fixture.VConn
	admin *wire.Client
	pan   *panicRec
	n     int
}

type Rig struct {
	pool   *Pool
	suffix string
	opt    Options
	srv    *fixture.Server
	gate   *Gate
	conn   *fixture.VConn
	sess   map[string]*rsess
	oracle *wire.Client
	remote map[string]imap.MessageID // model message -> remote id
	boxID  map[string]imap.MailboxID
	pan    *panicRec
	rep    *Report
	// observed UID history for C04: box -> uid -> message
	uidSeen     map[string]map[int]string
	uidNextSeen map[string]int
	blind       bool           // the view of a session has left the model: only the mailboxes are compared from here on
	validity    map[string]int // UIDVALIDITY per mailbox as last established (start of the behaviour / last bump)
}

func Literal(m string) []byte {
	return []byte("From: v@verif.test\r\nDate: Mon, 7 Feb 1994 21:52:25 -0800\r\nSubject: " + m + "\r\n\r\nbody of " + m + "\r\n")
}

// lit is the literal of model message m in this behaviour (distinct from every other behaviour's literals).
func (r *Rig) lit(m string) []byte {
	return []byte("From: v@verif.test\r\nDate: Mon, 7 Feb 1994 21:52:25 -0800\r\nX-Verif-Behaviour: " + r.suffix + "\r\nSubject: " + m + "\r\n\r\nbody of " + m + " " + r.suffix + "\r\n")
}

// real is the name of model mailbox b on the server.
func (r *Rig) real(b string) string { return b + r.suffix }

// NewPool starts the shared server of a worker.
func NewPool(g *Gate, opt Options) (*Pool, error) {
	pr := &panicRec{}
	conn := fixture.NewVConn(map[string]string{"user": "pass"})
	conn.WideIDs = true
	if opt.MaxMsgs > 0 || opt.MaxUID > 0 {
		mm, mu := uint32(1<<31), imap.UID(1<<31)
		if opt.MaxMsgs > 0 {
			mm = uint32(opt.MaxMsgs)
		}
		if opt.MaxUID > 0 {
			mu = imap.UID(opt.MaxUID)
		}
		l := limits.NewIMAPLimits(1<<31, mm, mu, 1<<31)
		opt.Limits = &l
	}
	srv, err := fixture.StartServer(fixture.Config{
		Users: []fixture.User{{Name: "user", Pass: "pass", Conn: conn}}, Limits: opt.Limits, PanicHandler: pr,
	})
	if err != nil {
		return nil, err
	}
	p := &Pool{opt: opt, srv: srv, gate: g, conn: conn, pan: pr}
	g.mu.Lock()
	g.GateNext = false
	g.mu.Unlock()
	p.admin, err = wire.Dial(srv.Addr)
	if err != nil {
		p.Close()
		return nil, err
	}
	if res := p.admin.Login("user", "pass"); res.Status != "OK" {
		p.Close()
		return nil, fmt.Errorf("admin login: %+v", res)
	}
	return p, nil
}

func (p *Pool) Close() {
	if p.admin != nil {
		p.admin.Close()
	}
	_ = p.srv.Close(15 * time.Second)
	p.srv.RemoveDir()
}

// Healthy tells whether the shared server can be used for another behaviour (no panic recorded, admin session alive).
func (p *Pool) Healthy() bool {
	p.pan.mu.Lock()
	n := len(p.pan.got)
	p.pan.mu.Unlock()
	if n > 0 {
		return false
	}
	return p.admin.Cmd("NOOP").Status == "OK"
}

// NewRig prepares one behaviour: fresh mailboxes and fresh gated sessions.
func (p *Pool) NewRig() (*Rig, error) {
	p.n++
	opt := p.opt
	r := &Rig{pool: p, suffix: fmt.Sprintf("x%d", p.n), opt: opt, srv: p.srv, gate: p.gate, conn: p.conn, sess: map[string]*rsess{}, remote: map[string]imap.MessageID{},
		boxID: map[string]imap.MailboxID{}, pan: p.pan, rep: &Report{}, uidSeen: map[string]map[int]string{}, uidNextSeen: map[string]int{}}
	g := p.gate
	g.mu.Lock()
	g.GateNext = false
	g.mu.Unlock()
	r.oracle = p.admin
	for _, b := range opt.Boxes {
		if res := p.admin.Cmd("CREATE " + r.real(b)); res.Status != "OK" {
			return nil, fmt.Errorf("CREATE %s: %+v", r.real(b), res)
		}
		r.uidSeen[b] = map[int]string{}
	}
	// remote ids of the mailboxes (the connector created them)
	p.conn.TakeCalls()
	for id, name := range p.conn.Mailboxes {
		if len(name) == 1 && strings.HasSuffix(name[0], r.suffix) {
			r.boxID[strings.TrimSuffix(name[0], r.suffix)] = id
		}
	}
	for _, s := range opt.Sessions {
		g.mu.Lock()
		g.GateNext = true
		g.mu.Unlock()
		c, err := wire.Dial(p.srv.Addr)
		if err != nil {
			r.Close()
			return nil, err
		}
		if res := c.Login("user", "pass"); res.Status != "OK" {
			r.Close()
			return nil, fmt.Errorf("login: %+v", res)
		}
		id, _ := g.LastState()
		r.sess[s] = &rsess{name: s, c: c, id: id}
		g.mu.Lock()
		g.GateNext = false
		g.mu.Unlock()
	}
	if v, err := r.validities(); err == nil {
		r.validity = v
	}
	return r, nil
}

// Close ends the behaviour: sessions go away, its mailboxes are deleted.
func (r *Rig) Close() {
	for _, s := range r.sess {
		s.c.Close()
	}
	for _, b := range r.opt.Boxes {
		r.pool.admin.Cmd("DELETE " + r.real(b))
	}
}

func (r *Rig) logf(format string, a ...interface{}) {
	if len(r.rep.Log) < 400 {
		r.rep.Log = append(r.rep.Log, fmt.Sprintf(format, a...))
	}
}

func (r *Rig) find(prop, key, detail string, step int) {
	r.rep.Findings = append(r.rep.Findings, Finding{Prop: prop, Key: key, Detail: detail, Step: step})
}

// wireFlag: a flag of the model as it is written on the wire (system flags carry a backslash, keywords do not)
func wireFlag(x string) string {
	if strings.HasSuffix(x, "Forwarded") {
		return x
	}
	return "\\" + x
}

func flagText(f []string) string {
	out := make([]string, 0, len(f))
	for _, x := range f {
		out = append(out, wireFlag(x))
	}
	return strings.Join(out, " ")
}

func setText(p []int) string {
	out := make([]string, 0, len(p))
	for _, x := range p {
		out = append(out, strconv.Itoa(x))
	}
	return strings.Join(out, ",")
}

// applyToMirror interprets the untagged responses of one command for session s and evaluates the
// stream predicates of C01 and C05 on them.
func (r *Rig) applyToMirror(s *rsess, st *Step, idx int, res []wire.Line, cmdKind string) {
	for _, e := range wire.Events(res) {
		switch e.Kind {
		case "EXISTS":
			if e.N < len(s.mirror) {
				r.find("C01", r.taintKey(st, s.name, "F13", "C01/exists-shrinks"),
					fmt.Sprintf("step %d %s: '* %d EXISTS' while the client counts %d messages", idx, st.Describe(), e.N, len(s.mirror)), idx)
				s.mirror = s.mirror[:e.N]
			}
			for len(s.mirror) < e.N {
				s.mirror = append(s.mirror, mentry{})
			}
		case "EXPUNGE":
			if cmdKind == "Fetch" || cmdKind == "FetchBody" || cmdKind == "Store" || cmdKind == "Search" {
				r.find("C05", "C05/expunge-during-"+cmdKind,
					fmt.Sprintf("step %d %s: '* %d EXPUNGE' sent while answering %s", idx, st.Describe(), e.N, cmdKind), idx)
			}
			if e.N < 1 || e.N > len(s.mirror) {
				r.find("C01", r.taintKey(st, s.name, "F13", "C01/expunge-beyond-count"),
					fmt.Sprintf("step %d %s: '* %d EXPUNGE' while the client counts %d messages", idx, st.Describe(), e.N, len(s.mirror)), idx)
				continue
			}
			s.mirror = append(s.mirror[:e.N-1], s.mirror[e.N:]...)
		case "FETCH":
			if e.N < 1 || e.N > len(s.mirror) {
				r.find("C01", r.taintKey(st, s.name, "F13", "C01/fetch-beyond-count"),
					fmt.Sprintf("step %d %s: '* %d FETCH' while the client counts %d messages", idx, st.Describe(), e.N, len(s.mirror)), idx)
				continue
			}
			m := &s.mirror[e.N-1]
			if e.UID != 0 {
				if m.uid != 0 && m.uid != e.UID {
					r.find("C01", r.taintKey(st, s.name, "F13", "C01/seq-uid-changed"),
						fmt.Sprintf("step %d %s: sequence %d was UID %d for this client, the server now says UID %d", idx, st.Describe(), e.N, m.uid, e.UID), idx)
				}
				m.uid = e.UID
			}
			if e.HasFlags {
				m.flags, m.known = normFlags(e.Flags), true
			}
		}
	}
}

// taintKey: a finding on a session that the specification marks with the given known deviation is
// attributed to that deviation; otherwise it keeps its own key.
func (r *Rig) taintKey(st *Step, sess, dev, key string) string {
	if st != nil {
		for _, t := range st.Taint[sess] {
			if t == dev {
				return dev + "/" + key
			}
		}
	}
	return key
}

func (r *Rig) anyTaintKey(st *Step, sess string, devs []string, key string) string {
	for _, d := range devs {
		if k := r.taintKey(st, sess, d, key); k != key {
			return k
		}
	}
	return key
}

var (
	reAppendUID = regexp.MustCompile(`\[APPENDUID (\d+) (\d+)\]`)
	reCopyUID   = regexp.MustCompile(`\[COPYUID (\d+) ([0-9,:]+) ([0-9,:]+)\]`)
)

func expandSet(s string) []int {
	var out []int
	for _, part := range strings.Split(s, ",") {
		if i := strings.Index(part, ":"); i >= 0 {
			a, _ := strconv.Atoi(part[:i])
			b, _ := strconv.Atoi(part[i+1:])
			if a > b {
				a, b = b, a
			}
			for x := a; x <= b; x++ {
				out = append(out, x)
			}
		} else {
			x, _ := strconv.Atoi(part)
			out = append(out, x)
		}
	}
	return out
}

func mirrorView(m []mentry) string {
	var b strings.Builder
	for i, e := range m {
		if i > 0 {
			b.WriteByte(' ')
		}
		if e.uid == 0 {
			b.WriteString("?")
		} else {
			b.WriteString(strconv.Itoa(e.uid))
		}
		if e.known {
			b.WriteString("(" + strings.Join(e.flags, ",") + ")")
		} else {
			b.WriteString("(?)")
		}
	}
	return "[" + b.String() + "]"
}

// mirrorConforms: the real client knows what the specification's client knows, or less about an entry it was
// never told about. (The code aliases the flag set of a queued EXISTS with the appending session's snapshot, so
// a flag set there before the EXISTS is flushed arrives inside the EXISTS instead of as a separate FETCH: the
// client simply learns nothing, which no property forbids. A real entry that IS known must agree.)
func mirrorConforms(real []mentry, spec []Entry) bool {
	if len(real) != len(spec) {
		return false
	}
	for i := range real {
		if real[i].uid != 0 && real[i].uid != spec[i].UID {
			return false
		}
		specKnown := !(len(spec[i].F) == 1 && spec[i].F[0] == "?")
		if real[i].known && (!specKnown || !sameFlags(real[i].flags, spec[i].F)) {
			return false
		}
	}
	return true
}

func specMirrorView(es []Entry) string {
	var b strings.Builder
	for i, e := range es {
		if i > 0 {
			b.WriteByte(' ')
		}
		if e.UID == 0 {
			b.WriteString("?")
		} else {
			b.WriteString(strconv.Itoa(e.UID))
		}
		if len(e.F) == 1 && e.F[0] == "?" {
			b.WriteString("(?)")
		} else {
			b.WriteString("(" + strings.Join(normFlags(e.F), ",") + ")")
		}
	}
	return "[" + b.String() + "]"
}

func entriesView(es []Entry) string {
	var b strings.Builder
	for i, e := range es {
		if i > 0 {
			b.WriteByte(' ')
		}
		fmt.Fprintf(&b, "%d:%s(%s)", e.UID, e.M, strings.Join(normFlags(e.F), ","))
	}
	return "[" + b.String() + "]"
}

func (r *Rig) driftOf(sess string, idx int, kind, format string, a ...interface{}) *Drift {
	d := r.drift(idx, kind, format, a...)
	if d != nil {
		d.Sess = sess
	}
	return d
}

func (r *Rig) drift(idx int, kind, format string, a ...interface{}) *Drift {
	if r.blind {
		switch kind {
		case "content", "connection", "panic", "harness", "oracle":
		default:
			// the session's view has left the model earlier in this behaviour (see Run): only the authoritative content is
			// still compared, the command sequence goes on
			r.logf("      (not compared any more: %s)", fmt.Sprintf(format, a...))
			return nil
		}
	}
	return &Drift{Step: idx, Kind: kind, Detail: fmt.Sprintf(format, a...)}
}

// Exec executes one step and compares with what the specification predicts. prev is the record of the
// previous step (nil for the first).
func (r *Rig) Exec(idx int, st *Step, prev *Step) *Drift {
	var s *rsess
	if st.S != "none" {
		s = r.sess[st.S]
		if s == nil {
			return r.drift(idx, "harness", "unknown session %q", st.S)
		}
	}
	posToUID := func(p []int) []int {
		out := make([]int, 0, len(p))
		if prev == nil {
			return out
		}
		sn := prev.Snaps[st.S]
		for _, x := range p {
			if x >= 1 && x <= len(sn) {
				out = append(out, sn[x-1].UID)
			}
		}
		return out
	}
	var res wire.Result
	cmdKind := st.Act
	switch st.Act {
	case "Select", "Examine":
		b := st.ArgStr(0)
		verb := "SELECT"
		if st.Act == "Examine" {
			verb = "EXAMINE"
		}
		res = s.c.Cmd(verb + " " + r.real(b))
		r.logf("[%s] %s %s -> %s %s", s.name, verb, r.real(b), res.Status, res.Text)
		if res.Status == "OK" {
			s.box = b
			s.mirror = nil
		}
	case "Close", "Unselect":
		res = s.c.Cmd(strings.ToUpper(st.Act))
		r.logf("[%s] %s -> %s", s.name, strings.ToUpper(st.Act), res.Status)
		if res.Status == "OK" {
			s.box = ""
			s.mirror = nil
		}
	case "Append":
		b, m := st.ArgStr(0), st.ArgStr(1)
		res = s.c.Append(r.real(b), "", r.lit(m))
		r.logf("[%s] APPEND %s %s -> %s %s", s.name, b, m, res.Status, res.Text)
		if res.Status == "OK" {
			// learn the remote id the connector handed out
			r.learnRemote(m)
			if mm := reAppendUID.FindStringSubmatch(res.Text); mm != nil {
				uid, _ := strconv.Atoi(mm[2])
				r.noteUID(idx, st, b, uid, m, "APPENDUID")
				if want := st.ArgInt(2); want != uid {
					return r.drift(idx, "uid", "APPENDUID %d, specification predicts %d", uid, want)
				}
			} else {
				return r.drift(idx, "uid", "APPEND OK without APPENDUID: %q", res.Text)
			}
		}
	case "Store":
		p := st.ArgInts(0)
		op, fl, silent, asuid := st.ArgStr(1), st.ArgStrs(2), st.ArgBool(3), st.ArgBool(4)
		item := map[string]string{"add": "+FLAGS", "rem": "-FLAGS", "set": "FLAGS"}[op]
		if silent {
			item += ".SILENT"
		}
		cmd := "STORE " + setText(p)
		if asuid {
			cmd = "UID STORE " + setText(posToUID(p))
		}
		cmd += " " + item + " (" + flagText(fl) + ")"
		res = s.c.Cmd(cmd)
		r.logf("[%s] %s -> %s %s", s.name, cmd, res.Status, res.Text)
	case "Refused":
		cmd := "STORE 1 +FLAGS (\\Seen)" // in a read-only selection
		cmdKind = "Store"
		if st.ArgStr(0) == "FetchNoPart" {
			cmd = "FETCH 1 (BODY.PEEK[7.1])"
			cmdKind = "Fetch"
		}
		if st.ArgStr(0) == "FetchBodyNoPart" {
			cmd = "FETCH 1 (BODY[7.1])"
			cmdKind = "Fetch"
		}
		res = s.c.Cmd(cmd)
		r.logf("[%s] %s -> %s %s", s.name, cmd, res.Status, res.Text)
	case "Expunge":
		res = s.c.Cmd("EXPUNGE")
		r.logf("[%s] EXPUNGE -> %s", s.name, res.Status)
	case "UidExpunge":
		u := posToUID(st.ArgInts(0))
		if len(u) == 0 {
			// an empty UID set cannot be written; the step is a no-op flush in the model: use NOOP
			res = s.c.Cmd("NOOP")
			r.logf("[%s] NOOP (UID EXPUNGE of nothing) -> %s", s.name, res.Status)
		} else {
			res = s.c.Cmd("UID EXPUNGE " + setText(u))
			r.logf("[%s] UID EXPUNGE %s -> %s", s.name, setText(u), res.Status)
		}
	case "Noop":
		res = s.c.Cmd("NOOP")
		r.logf("[%s] NOOP -> %s", s.name, res.Status)
	case "Check":
		res = s.c.Cmd("CHECK")
		r.logf("[%s] CHECK -> %s", s.name, res.Status)
	case "StatusSel", "StatusOther":
		b := st.ArgStr(0)
		res = s.c.Cmd("STATUS " + r.real(b) + " (MESSAGES UIDNEXT)")
		r.logf("[%s] STATUS %s (MESSAGES UIDNEXT) -> %s %s", s.name, b, res.Status, res.Text)
		if res.Status == "OK" {
			msgs, next := -1, -1
			for _, l := range res.Untagged {
				if i := strings.Index(l.Text, "MESSAGES "); i >= 0 && strings.Contains(l.Text, "STATUS") {
					fmt.Sscanf(l.Text[i:], "MESSAGES %d", &msgs)
				}
				if i := strings.Index(l.Text, "UIDNEXT "); i >= 0 && strings.Contains(l.Text, "STATUS") {
					fmt.Sscanf(l.Text[i:], "UIDNEXT %d", &next)
				}
			}
			if want := st.ArgInt(1); msgs != want {
				if st.Act == "StatusSel" && st.Sel[st.S] == b {
					r.find("C01", r.taintKey(st, s.name, "F13", "C01/status-count"),
						fmt.Sprintf("step %d %s: STATUS of the selected mailbox says MESSAGES %d, the specification predicts %d", idx, st.Describe(), msgs, want), idx)
				}
				return r.drift(idx, "mirror", "STATUS %s says MESSAGES %d, specification predicts %d", b, msgs, want)
			}
			if want := st.ArgInt(2); next != want {
				r.find("C04", "C04/uidnext", fmt.Sprintf("step %d %s: STATUS announces UIDNEXT %d, the model says %d", idx, st.Describe(), next, want), idx)
				return r.drift(idx, "uid", "STATUS %s says UIDNEXT %d, specification predicts %d", b, next, want)
			}
		}
	case "Fetch":
		before := append([]mentry{}, s.mirror...)
		res = s.c.Cmd("FETCH 1:* (UID FLAGS)")
		r.logf("[%s] FETCH 1:* (UID FLAGS) -> %s %s", s.name, res.Status, res.Text)
		r.probeAgainstMirror(idx, st, s, before, res)
	case "Search":
		key, byuid := st.ArgStr(0), st.ArgBool(1)
		cmd := "SEARCH " + key
		if byuid {
			cmd = "UID " + cmd
		}
		res = s.c.Cmd(cmd)
		r.logf("[%s] %s -> %s %s", s.name, cmd, res.Status, res.Text)
		if res.Status == "OK" {
			// the answer comes from the session's view: against the model's prediction and the client's own count (C01)
			var got []int
			lines := 0
			for _, l := range res.Untagged {
				if strings.HasPrefix(l.Text, "* SEARCH") {
					lines++
					for _, f := range strings.Fields(strings.TrimPrefix(l.Text, "* SEARCH")) {
						n, _ := strconv.Atoi(f)
						got = append(got, n)
					}
				}
			}
			var want []int
			for _, w := range st.Wire[st.S] {
				if w.T == "SEARCH" {
					want = w.Nums
				}
			}
			if lines != 1 {
				return r.drift(idx, "mirror", "%s answered with %d SEARCH lines", cmd, lines)
			}
			if !byuid {
				for _, n := range got {
					if n < 1 || n > len(s.mirror) {
						r.find("C01", r.taintKey(st, s.name, "F13", "C01/search-beyond-count"),
							fmt.Sprintf("step %d %s: SEARCH answers sequence number %d while the client counts %d messages", idx, st.Describe(), n, len(s.mirror)), idx)
					}
				}
				if key == "ALL" && len(got) != len(s.mirror) {
					r.find("C01", r.taintKey(st, s.name, "F13", "C01/search-count"),
						fmt.Sprintf("step %d %s: SEARCH ALL answers %d messages while the client counts %d", idx, st.Describe(), len(got), len(s.mirror)), idx)
				}
			}
			if fmt.Sprint(got) != fmt.Sprint(want) && !(len(got) == 0 && len(want) == 0) {
				return r.drift(idx, "mirror", "%s answered %v, specification predicts %v", cmd, got, want)
			}
		}
	case "FetchBody":
		res = s.c.Cmd("FETCH " + setText(st.ArgInts(0)) + " (BODY[])")
		r.logf("[%s] FETCH %s (BODY[]) -> %s", s.name, setText(st.ArgInts(0)), res.Status)
	case "Copy", "Move":
		p, d := st.ArgInts(0), st.ArgStr(1)
		verb := strings.ToUpper(st.Act)
		res = s.c.Cmd(verb + " " + setText(p) + " " + r.real(d))
		r.logf("[%s] %s %s %s -> %s %s", s.name, verb, setText(p), d, res.Status, res.Text)
		if res.Status == "OK" {
			text := res.Text
			for _, l := range res.Untagged {
				if strings.Contains(l.Text, "COPYUID") {
					text = l.Text
				}
			}
			want := st.ArgInts(2)
			if mm := reCopyUID.FindStringSubmatch(text); mm != nil {
				src, dst := expandSet(mm[2]), expandSet(mm[3])
				if fmt.Sprint(dst) != fmt.Sprint(want) {
					return r.drift(idx, "uid", "COPYUID destination UIDs %v, specification predicts %v", dst, want)
				}
				srcU := posToUID(p)
				if fmt.Sprint(src) != fmt.Sprint(srcU) && len(src) == len(srcU) {
					return r.drift(idx, "uid", "COPYUID source UIDs %v, addressed %v", src, srcU)
				}
				if len(src) != len(dst) {
					r.find("C04", "C04/copyuid-unpaired/"+st.Act, fmt.Sprintf("step %d %s: COPYUID lists %d source UIDs %v and %d destination UIDs %v", idx, st.Describe(), len(src), src, len(dst), dst), idx)
				} else if prev != nil {
					// the announcement pairs source UID i with destination UID i
					byUID := map[int]string{}
					for _, e := range prev.Snaps[st.S] {
						byUID[e.UID] = e.M
					}
					for i := range src {
						if m, ok := byUID[src[i]]; ok {
							r.noteUID(idx, st, d, dst[i], m, "COPYUID")
						}
					}
				}
			} else if len(want) > 0 {
				return r.drift(idx, "uid", "no COPYUID in %q, specification predicts %v", text, want)
			}
		}
	case "Deliver":
		upd, passed, err := r.gate.Deliver(s.id)
		r.logf("[%s] deliver %s passedFilter=%v err=%v", s.name, upd, passed, err)
		if err != nil {
			return r.drift(idx, "deliver", "%v", err)
		}
		if want := st.ArgBool(1); want != passed {
			return r.drift(idx, "filter", "update %q passedFilter=%v, specification predicts %v", upd, passed, want)
		}
		if s.idle {
			// inside IDLE the responders are handled at once and their responses pushed to the client
			r.readIdle(s, st, idx)
		}
	case "IdleBegin":
		tag := s.c.NextTag()
		if err := s.c.Write([]byte(tag + " IDLE\r\n")); err != nil {
			return r.drift(idx, "connection", "IDLE: %v", err)
		}
		var before []wire.Line
		for {
			l, err := s.c.ReadLine(wire.DefaultTimeout)
			if err != nil {
				return r.drift(idx, "connection", "connection lost / no completion for %s (closed=false timeout=true): %v", st.Describe(), err)
			}
			if strings.HasPrefix(l.Text, "+") {
				break
			}
			if strings.HasPrefix(l.Text, tag+" ") {
				return r.drift(idx, "status", "%s answered %q, specification predicts a continuation request", st.Describe(), l.Text)
			}
			before = append(before, l)
		}
		r.logf("[%s] IDLE -> + (continuation)", s.name)
		r.applyToMirror(s, st, idx, before, "Idle")
		s.idle, s.idleTag = true, tag
		r.readIdle(s, st, idx)
		s = nil
	case "IdleDone":
		if err := s.c.Write([]byte("DONE\r\n")); err != nil {
			return r.drift(idx, "connection", "DONE: %v", err)
		}
		var lines []wire.Line
		status := ""
		for status == "" {
			l, err := s.c.ReadLine(wire.DefaultTimeout)
			if err != nil {
				return r.drift(idx, "connection", "connection lost / no completion for %s (closed=false timeout=true): %v", st.Describe(), err)
			}
			if strings.HasPrefix(l.Text, s.idleTag+" ") {
				status = strings.Fields(strings.TrimPrefix(l.Text, s.idleTag+" "))[0]
			} else {
				lines = append(lines, l)
			}
		}
		r.logf("[%s] DONE -> %s", s.name, status)
		r.applyToMirror(s, st, idx, lines, "Idle")
		s.idle, s.idleTag = false, ""
		if status != "OK" {
			return r.drift(idx, "status", "DONE answered %s, specification predicts OK", status)
		}
		// what the sender goroutine of IDLE was still writing arrives in front of this NOOP's completion (the session has no
		// responders queued at this point: the NOOP is a no-op of the model)
		nb := s.c.Cmd("NOOP")
		r.applyToMirror(s, st, idx, nb.Untagged, "Noop")
		s = nil
	case "ConnSetBoxes":
		if d := r.connSetBoxes(idx, st, prev); d != nil {
			return d
		}
	case "ConnSetFlags":
		m, fl := st.ArgStr(0), st.ArgStrs(1)
		fs := imap.NewFlagSet()
		for _, f := range fl {
			fs.AddToSelf(wireFlag(f))
		}
		err := r.conn.Submit(imap.NewMessageFlagsUpdated(r.remote[m], fs), 10*time.Second)
		r.logf("[conn] MessageFlagsUpdated %s %v -> %v", m, fl, err)
		if err != nil {
			return r.drift(idx, "ack", "MessageFlagsUpdated acknowledged with %v", err)
		}
	case "ConnDelete":
		m := st.ArgStr(0)
		err := r.conn.Submit(imap.NewMessagesDeleted(r.remote[m]), 10*time.Second)
		r.logf("[conn] MessageDeleted %s -> %v", m, err)
		if err != nil {
			return r.drift(idx, "ack", "MessageDeleted acknowledged with %v", err)
		}
		delete(r.conn.Messages, r.remote[m])
		delete(r.remote, m)
	case "ConnUpdateSame", "ConnBad", "ConnCreateDup", "ConnCreateKnown", "ConnIDChanged":
		if d := r.connOther(idx, st, prev); d != nil {
			return d
		}
	case "ConnCreateWith", "ConnCreateBatch", "ConnCreateIgnore", "ConnUpdateNew", "ConnBump":
		if d := r.connMore(idx, st, prev); d != nil {
			return d
		}
	case "Bye":
		// any command of a session whose state was invalidated: untagged BYE, no completion, connection closed
		res = s.c.Cmd("NOOP")
		r.logf("[%s] NOOP (state invalidated) -> status=%q bye=%v closed=%v", s.name, res.Status, res.Bye, res.Closed)
		if res.Status != "" || !res.Bye {
			return r.drift(idx, "status", "%s: the session's state was invalidated (UIDVALIDITY bumped), its next command was answered %q %s (BYE seen: %v); the specification predicts an untagged BYE and no completion", st.Describe(), res.Status, res.Text, res.Bye)
		}
		if d := r.reconnect(idx, s); d != nil {
			return d
		}
		s = nil // nothing more to compare on the old connection
	default:
		return r.drift(idx, "harness", "unknown action %q", st.Act)
	}

	if s != nil && st.Act != "Deliver" {
		for _, l := range res.Untagged {
			if t := l.String(); len(t) < 160 && !strings.HasPrefix(t, "* OK") && !strings.HasPrefix(t, "* FLAGS") {
				r.logf("      %s", t)
			}
		}
		if res.Closed || res.TimedOut {
			if len(r.pan.got) > 0 {
				r.find("C19", "panic", fmt.Sprintf("step %d %s: server panic: %s", idx, st.Describe(), r.pan.got[0]), idx)
			}
			return r.drift(idx, "connection", "connection lost / no completion for %s (closed=%v timeout=%v)", st.Describe(), res.Closed, res.TimedOut)
		}
		want := st.Status
		if strings.HasPrefix(want, "OK") {
			want = "OK"
		}
		if res.Status != want {
			return r.drift(idx, "status", "%s answered %s %s, specification predicts %s", st.Describe(), res.Status, res.Text, st.Status)
		}
		if st.Act != "Close" && st.Act != "Unselect" {
			// (what CLOSE still flushes concerns a view the client has just given up)
			r.applyToMirror(s, st, idx, res.Untagged, cmdKind)
		}
		if st.Act == "Store" && st.ArgBool(3) && res.Status == "OK" {
			// after a .SILENT store the client no longer knows the flags of the addressed messages
			for _, p := range st.ArgInts(0) {
				if p >= 1 && p <= len(s.mirror) {
					s.mirror[p-1].known, s.mirror[p-1].flags = false, nil
				}
			}
		}
		// C05: FETCH/STORE that held back removals say so
		if (st.Act == "Fetch" || st.Act == "FetchBody" || st.Act == "Store" || st.Act == "Search") && res.Status == "OK" {
			has := strings.Contains(res.Text, "EXPUNGEISSUED")
			if has != st.Expunging[st.S] {
				r.find("C05", "C05/expungeissued", fmt.Sprintf("step %d %s: tagged reply %q, pending removals per specification: %v", idx, st.Describe(), res.Text, st.Expunging[st.S]), idx)
			}
		}
	}
	// conformance of the client-visible view after the step
	for name, rs := range r.sess {
		if st.Sel[name] == "none" {
			continue
		}
		if !mirrorConforms(rs.mirror, st.Mirrors[name]) {
			return r.driftOf(name, idx, "mirror", "after %s the client of %s has %s, specification predicts %s", st.Describe(), name, mirrorView(rs.mirror), specMirrorView(st.Mirrors[name]))
		}
	}
	// update queues: what was enqueued is exactly what the specification says
	for name, rs := range r.sess {
		if got, want := r.gate.Pending(rs.id), st.QLen[name]; got != want {
			return r.drift(idx, "queue", "after %s session %s has %d queued updates, specification predicts %d", st.Describe(), name, got, want)
		}
	}
	// internal snapshots (hook accessor): localises a divergence to the step that introduces it
	for name, rs := range r.sess {
		_, stt := rs.id, r.gate.states[rs.id]
		if stt == nil {
			continue
		}
		if inv := !stt.IsValid(); inv != st.Inv[name] {
			return r.drift(idx, "invalid", "after %s the state of %s is invalidated: %v, specification predicts %v", st.Describe(), name, inv, st.Inv[name])
		}
		sel, _, msgs := stt.VerifSnapshot()
		if !sel {
			if st.Sel[name] != "none" {
				return r.driftOf(name, idx, "snapshot", "session %s has nothing selected, specification predicts %s", name, st.Sel[name])
			}
			continue
		}
		var got []string
		for _, m := range msgs {
			got = append(got, fmt.Sprintf("%d(%s)", m.UID, strings.Join(normFlags(m.Flags), ",")))
		}
		var want []string
		for _, e := range st.Snaps[name] {
			want = append(want, fmt.Sprintf("%d(%s)", e.UID, strings.Join(normFlags(e.F), ",")))
		}
		if fmt.Sprint(got) != fmt.Sprint(want) {
			return r.driftOf(name, idx, "snapshot", "after %s the snapshot of %s is %v, specification predicts %v", st.Describe(), name, got, want)
		}
		if n := len(stt.VerifResponders()); n != st.ResLen[name] {
			return r.driftOf(name, idx, "responders", "after %s session %s has %d queued responders (%v), specification predicts %d", st.Describe(), name, n, stt.VerifResponders(), st.ResLen[name])
		}
	}
	if len(r.pan.got) > 0 {
		r.find("C19", "panic", fmt.Sprintf("step %d %s: server panic: %s", idx, st.Describe(), r.pan.got[0]), idx)
		return r.drift(idx, "panic", "%s", r.pan.got[0])
	}
	if r.opt.CheckDBEachStep && st.Act != "Deliver" && st.Act != "Noop" && st.Act != "Fetch" {
		for _, b := range r.opt.Boxes {
			v, _, err := r.OracleView(b)
			if err != nil {
				return r.drift(idx, "oracle", "%v", err)
			}
			if r.opt.MaxMsgs > 0 && len(v) > r.opt.MaxMsgs {
				r.find("C17", "C17/exceeded/messages/"+st.Act, fmt.Sprintf("step %d: after %s mailbox %s holds %d messages, the configured maximum is %d", idx, st.Describe(), b, len(v), r.opt.MaxMsgs), idx)
			}
			for _, e := range v {
				if r.opt.MaxUID > 0 && e.UID > r.opt.MaxUID {
					r.find("C17", "C17/exceeded/uid/"+st.Act, fmt.Sprintf("step %d: after %s mailbox %s holds UID %d, the configured maximum is %d", idx, st.Describe(), b, e.UID, r.opt.MaxUID), idx)
				}
			}
			if got, want := entriesView(v), entriesView(st.DB[b]); got != want {
				r.find("C03", "C03/content/"+st.Act, fmt.Sprintf("step %d: after %s mailbox %s holds %s, the reference model says %s", idx, st.Describe(), b, got, want), idx)
				return r.drift(idx, "content", "mailbox %s holds %s, the reference model says %s", b, got, want)
			}
		}
	}
	return nil
}

// readIdle reads what the server pushes to an idling client until the client knows what the specification predicts (or
// nothing arrives for the client's time-out: the comparison after the step then reports the difference).
func (r *Rig) readIdle(s *rsess, st *Step, idx int) {
	deadline := time.Now().Add(wire.DefaultTimeout)
	for !mirrorConforms(s.mirror, st.Mirrors[s.name]) && time.Now().Before(deadline) {
		l, err := s.c.ReadLine(time.Until(deadline))
		if err != nil {
			return
		}
		r.logf("      (idle) %s", l.String())
		r.applyToMirror(s, st, idx, []wire.Line{l}, "Idle")
	}
}

// untainted: the specification does not mark the session as hit by a known deviation at this step.
func untainted(st *Step, sess string) bool {
	return st == nil || len(st.Taint[sess]) == 0
}

// reconnect replaces the connection of a model session by a new gated one (the client logs in again).
func (r *Rig) reconnect(idx int, s *rsess) *Drift {
	s.c.Close()
	g := r.gate
	g.mu.Lock()
	g.GateNext = true
	g.mu.Unlock()
	defer func() {
		g.mu.Lock()
		g.GateNext = false
		g.mu.Unlock()
	}()
	c, err := wire.Dial(r.srv.Addr)
	if err != nil {
		return r.drift(idx, "harness", "reconnect: %v", err)
	}
	if res := c.Login("user", "pass"); res.Status != "OK" {
		return r.drift(idx, "connection", "login after BYE: %s %s", res.Status, res.Text)
	}
	id, _ := g.LastState()
	s.c, s.id, s.mirror, s.box, s.idle, s.idleTag = c, id, nil, "", false, ""
	return nil
}

// validities reads the UIDVALIDITY of the behaviour's mailboxes through the admin session.
func (r *Rig) validities() (map[string]int, error) {
	out := map[string]int{}
	for _, b := range r.opt.Boxes {
		res := r.pool.admin.Cmd("STATUS " + r.real(b) + " (UIDVALIDITY)")
		if res.Status != "OK" {
			return nil, fmt.Errorf("STATUS %s: %s %s", b, res.Status, res.Text)
		}
		v := -1
		for _, l := range res.Untagged {
			if i := strings.Index(l.Text, "UIDVALIDITY "); i >= 0 {
				fmt.Sscanf(l.Text[i:], "UIDVALIDITY %d", &v)
			}
		}
		if v < 0 {
			return nil, fmt.Errorf("STATUS %s: no UIDVALIDITY in the answer", b)
		}
		out[b] = v
	}
	return out, nil
}

// connMore: creation with flags / in batches / with ignored mailboxes, MessageUpdated with a new literal, UIDValidityBumped.
func (r *Rig) connMore(idx int, st *Step, prev *Step) *Drift {
	date := time.Unix(760000000, 0)
	boxIDs := func(bs []string) []imap.MailboxID {
		var ids []imap.MailboxID
		for _, b := range bs {
			ids = append(ids, r.boxID[b])
		}
		return ids
	}
	fresh := func(m string) (imap.MessageID, []byte, *imap.ParsedMessage, *Drift) {
		lit := r.lit(m)
		p, err := imap.NewParsedMessage(lit)
		if err != nil {
			return "", nil, nil, r.drift(idx, "harness", "literal does not parse: %v", err)
		}
		return imap.MessageID("cm-" + m + "-" + r.suffix), lit, p, nil
	}
	adopt := func(m string, rid imap.MessageID, lit []byte) {
		r.remote[m] = rid
		r.conn.Messages[rid] = &fixture.VMsg{ID: rid, Literal: lit, Boxes: map[imap.MailboxID]bool{}, Date: date}
	}
	noteViews := func(ms ...string) {
		for _, b := range r.opt.Boxes {
			for _, e := range st.DB[b] {
				for _, m := range ms {
					if e.M == m {
						r.noteUID(idx, st, b, e.UID, m, "view")
					}
				}
			}
		}
	}
	switch st.Act {
	case "ConnCreateWith":
		m, b, fl, how := st.ArgStr(0), st.ArgStr(1), st.ArgStrs(2), st.ArgStr(3)
		rid, lit, p, d := fresh(m)
		if d != nil {
			return d
		}
		var u imap.Update
		what := fmt.Sprintf("MessagesCreated %s in %s with flags %v", m, b, fl)
		if how == "updated" {
			what = fmt.Sprintf("MessageUpdated(allowCreate) of unknown %s in %s with flags %v", m, b, fl)
			u = imap.NewMessageUpdated(imap.Message{ID: rid, Flags: flagSet(fl), Date: date}, lit, boxIDs([]string{b}), p, true)
		} else {
			u = imap.NewMessagesCreated(false, &imap.MessageCreated{Message: imap.Message{ID: rid, Flags: flagSet(fl), Date: date}, Literal: lit, MailboxIDs: boxIDs([]string{b}), ParsedMessage: p})
		}
		if d := r.submit(idx, st, what, u); d != nil {
			return d
		}
		if st.Status == "OK" {
			adopt(m, rid, lit)
			noteViews(m)
		}
	case "ConnCreateBatch":
		m1, m2, b := st.ArgStr(0), st.ArgStr(1), st.ArgStr(2)
		rid1, lit1, p1, d := fresh(m1)
		if d != nil {
			return d
		}
		rid2, lit2, p2, d := fresh(m2)
		if d != nil {
			return d
		}
		u := imap.NewMessagesCreated(false,
			&imap.MessageCreated{Message: imap.Message{ID: rid1, Flags: imap.NewFlagSet(), Date: date}, Literal: lit1, MailboxIDs: boxIDs([]string{b}), ParsedMessage: p1},
			&imap.MessageCreated{Message: imap.Message{ID: rid2, Flags: imap.NewFlagSet(), Date: date}, Literal: lit2, MailboxIDs: boxIDs([]string{b}), ParsedMessage: p2})
		if d := r.submit(idx, st, fmt.Sprintf("MessagesCreated batch %s, %s in %s", m1, m2, b), u); d != nil {
			return d
		}
		if st.Status == "OK" {
			adopt(m1, rid1, lit1)
			adopt(m2, rid2, lit2)
			noteViews(m1, m2)
		}
	case "ConnCreateIgnore":
		m, boxes := st.ArgStr(0), st.ArgStrs(1)
		rid, lit, p, d := fresh(m)
		if d != nil {
			return d
		}
		ids := append([]imap.MailboxID{"no-such-mailbox-" + imap.MailboxID(r.suffix)}, boxIDs(boxes)...)
		u := imap.NewMessagesCreated(true, &imap.MessageCreated{Message: imap.Message{ID: rid, Flags: imap.NewFlagSet(), Date: date}, Literal: lit, MailboxIDs: ids, ParsedMessage: p})
		if d := r.submit(idx, st, fmt.Sprintf("MessagesCreated(ignore unknown mailboxes) %s in [unknown] + %v", m, boxes), u); d != nil {
			return d
		}
		if st.Status == "OK" {
			adopt(m, rid, lit)
			noteViews(m)
		}
	case "ConnUpdateNew":
		m, n, boxes, fl := st.ArgStr(0), st.ArgStr(1), st.ArgStrs(2), st.ArgStrs(3)
		rid, ok := r.remote[m]
		if !ok {
			return r.drift(idx, "harness", "no remote id known for %s", m)
		}
		_, lit, p, d := fresh(n)
		if d != nil {
			return d
		}
		u := imap.NewMessageUpdated(imap.Message{ID: rid, Flags: flagSet(fl), Date: date}, lit, boxIDs(boxes), p, false)
		if d := r.submit(idx, st, fmt.Sprintf("MessageUpdated(new literal) %s becomes %s in %v with flags %v", m, n, boxes, fl), u); d != nil {
			return d
		}
		if st.Status == "OK" {
			// the new entity carries the remote id of the old one
			delete(r.remote, m)
			adopt(n, rid, lit)
			noteViews(n)
		}
	case "ConnBump":
		before, err := r.validities()
		if err != nil {
			return r.drift(idx, "oracle", "%v", err)
		}
		if d := r.submit(idx, st, "UIDValidityBumped", imap.NewUIDValidityBumped()); d != nil {
			return d
		}
		after, err := r.validities()
		if err != nil {
			return r.drift(idx, "oracle", "%v", err)
		}
		for _, b := range r.opt.Boxes {
			if after[b] <= before[b] {
				r.find("C04", "C04/uidvalidity-not-greater/bump", fmt.Sprintf("step %d %s: UIDVALIDITY of %s was %d and is %d after UIDValidityBumped", idx, st.Describe(), b, before[b], after[b]), idx)
				return r.drift(idx, "content", "UIDVALIDITY of %s was %d and is %d after UIDValidityBumped", b, before[b], after[b])
			}
		}
		r.validity = after
	}
	return nil
}

func (r *Rig) learnRemote(m string) {
	r.conn.TakeCalls()
	want := string(r.lit(m))
	for id, vm := range r.conn.Messages {
		if string(vm.Literal) == want {
			if _, ok := r.remote[m]; !ok {
				r.remote[m] = id
			}
		}
	}
}

func (r *Rig) noteUID(idx int, st *Step, box string, uid int, m string, how string) {
	seen := r.uidSeen[box]
	if seen == nil {
		seen = map[int]string{}
		r.uidSeen[box] = seen
	}
	if old, ok := seen[uid]; ok && old != m {
		r.find("C04", "C04/uid-reused", fmt.Sprintf("step %d %s: %s hands out UID %d of %s for %s, it denoted %s before", idx, st.Describe(), how, uid, box, m, old), idx)
	}
	for u := range seen {
		if u >= uid && how != "view" && seen[u] != m {
			r.find("C04", "C04/uid-not-increasing", fmt.Sprintf("step %d %s: %s hands out UID %d of %s although UID %d was assigned before", idx, st.Describe(), how, uid, box, u), idx)
			break
		}
	}
	seen[uid] = m
}

func (r *Rig) connSetBoxes(idx int, st *Step, prev *Step) *Drift {
	m, boxes := st.ArgStr(0), st.ArgStrs(1)
	var ids []imap.MailboxID
	for _, b := range boxes {
		ids = append(ids, r.boxID[b])
	}
	rid, known := r.remote[m]
	var err error
	if !known {
		rid = imap.MessageID("cm-" + m + "-" + r.suffix)
		r.remote[m] = rid
		lit := r.lit(m)
		parsed, perr := imap.NewParsedMessage(lit)
		if perr != nil {
			return r.drift(idx, "harness", "literal does not parse: %v", perr)
		}
		r.conn.Messages[rid] = &fixture.VMsg{ID: rid, Literal: lit, Boxes: map[imap.MailboxID]bool{}}
		upd := imap.NewMessagesCreated(false, &imap.MessageCreated{
			Message: imap.Message{ID: rid, Flags: imap.NewFlagSet(), Date: time.Unix(760000000, 0)}, Literal: lit, MailboxIDs: ids, ParsedMessage: parsed})
		err = r.conn.Submit(upd, 10*time.Second)
		r.logf("[conn] MessagesCreated %s in %v -> %v", m, boxes, err)
	} else {
		fs := imap.NewFlagSet()
		if prev != nil {
			for _, f := range prev.Flg[m] {
				fs.AddToSelf(wireFlag(f))
			}
		}
		err = r.conn.Submit(imap.NewMessageMailboxesUpdated(rid, ids, fs), 10*time.Second)
		r.logf("[conn] MessageMailboxesUpdated %s -> %v : %v", m, boxes, err)
	}
	if st.Status == "ERR" {
		if err == nil {
			return r.drift(idx, "ack", "connector update acknowledged with success, specification predicts a refusal (limit)")
		}
		if !known {
			// the message was not created after all
			delete(r.conn.Messages, rid)
			delete(r.remote, m)
		}
		return nil
	}
	if err != nil {
		return r.drift(idx, "ack", "connector update acknowledged with %v, specification predicts success", err)
	}
	for _, b := range boxes {
		// which UID did it get? the specification's db tells; the oracle check at the end confirms
		for _, e := range st.DB[b] {
			if e.M == m {
				r.noteUID(idx, st, b, e.UID, m, "view")
			}
		}
	}
	return nil
}

func flagSet(fl []string) imap.FlagSet {
	fs := imap.NewFlagSet()
	for _, f := range fl {
		fs.AddToSelf(wireFlag(f))
	}
	return fs
}

// submit sends one connector update and compares the acknowledgement class with the specification.
func (r *Rig) submit(idx int, st *Step, what string, u imap.Update) *Drift {
	err := r.conn.Submit(u, 10*time.Second)
	r.logf("[conn] %s -> %v", what, err)
	if err == fixture.ErrNoAck {
		r.find("C06", "C06/not-acknowledged/"+st.Act, fmt.Sprintf("step %d %s: the update was never acknowledged (%s)", idx, st.Describe(), what), idx)
		return r.drift(idx, "ack", "%s was never acknowledged", what)
	}
	if (err != nil) != (st.Status == "ERR") {
		return r.drift(idx, "ack", "%s acknowledged with %v, specification predicts %s", what, err, st.Status)
	}
	return nil
}

func (r *Rig) connOther(idx int, st *Step, prev *Step) *Drift {
	parse := func(m string) (*imap.ParsedMessage, []byte) {
		lit := r.lit(m)
		p, _ := imap.NewParsedMessage(lit)
		return p, lit
	}
	boxIDs := func(bs []string) []imap.MailboxID {
		var ids []imap.MailboxID
		for _, b := range bs {
			ids = append(ids, r.boxID[b])
		}
		return ids
	}
	const recovery = imap.MailboxID("GLUON-INTERNAL-RECOVERY-MBOX")
	switch st.Act {
	case "ConnUpdateSame":
		m, boxes, fl := st.ArgStr(0), st.ArgStrs(1), st.ArgStrs(2)
		vm := r.conn.Messages[r.remote[m]]
		if vm == nil {
			return r.drift(idx, "harness", "no literal known for %s", m)
		}
		p, err := imap.NewParsedMessage(vm.Literal)
		if err != nil {
			return r.drift(idx, "harness", "%v", err)
		}
		return r.submit(idx, st, fmt.Sprintf("MessageUpdated(same literal) %s -> %v %v", m, boxes, fl),
			imap.NewMessageUpdated(imap.Message{ID: r.remote[m], Flags: flagSet(fl), Date: vm.Date}, vm.Literal, boxIDs(boxes), p, false))
	case "ConnCreateDup", "ConnCreateKnown":
		m, boxes := st.ArgStr(0), st.ArgStrs(1)
		vm := r.conn.Messages[r.remote[m]]
		if vm == nil {
			return r.drift(idx, "harness", "no literal known for %s", m)
		}
		p, err := imap.NewParsedMessage(vm.Literal)
		if err != nil {
			return r.drift(idx, "harness", "%v", err)
		}
		return r.submit(idx, st, fmt.Sprintf("MessagesCreated(known message) %s in %v", m, boxes),
			imap.NewMessagesCreated(false, &imap.MessageCreated{Message: imap.Message{ID: r.remote[m], Flags: imap.NewFlagSet(), Date: vm.Date},
				Literal: vm.Literal, MailboxIDs: boxIDs(boxes), ParsedMessage: p}))
	case "ConnIDChanged":
		m := st.ArgStr(0)
		// the internal id of m: from any session's snapshot is not enough (m may be nowhere selected): read X-Pm-Gluon-Id
		iid, err := r.internalID(m, prev)
		if err != nil {
			// not locatable through IMAP right now (in no mailbox): the step is skipped by sending a Noop
			return r.submit(idx, st, "Noop (message in no mailbox, id change skipped)", imap.NewNoop())
		}
		newID := imap.MessageID(string(r.remote[m]) + "'")
		if d := r.submit(idx, st, fmt.Sprintf("MessageIDChanged %s -> %s", m, newID), imap.NewMessageIDChanged(iid, newID)); d != nil {
			return d
		}
		if vm := r.conn.Messages[r.remote[m]]; vm != nil {
			delete(r.conn.Messages, r.remote[m])
			vm.ID = newID
			r.conn.Messages[newID] = vm
		}
		r.remote[m] = newID
		return nil
	case "ConnBad":
		k := st.ArgStr(0)
		p, lit := parse("zz")
		var u imap.Update
		switch k {
		case "Noop":
			u = imap.NewNoop()
		case "FlagsUnknownMsg":
			u = imap.NewMessageFlagsUpdated("no-such-message", imap.NewFlagSet("\\Seen"))
		case "BoxesUnknownMsg":
			u = imap.NewMessageMailboxesUpdated("no-such-message", boxIDs(r.opt.Boxes[:1]), imap.NewFlagSet())
		case "DeleteUnknownMsg":
			u = imap.NewMessagesDeleted("no-such-message")
		case "CreateUnknownBox":
			u = imap.NewMessagesCreated(false, &imap.MessageCreated{Message: imap.Message{ID: imap.MessageID("bad-create-1-" + r.suffix), Flags: imap.NewFlagSet(), Date: time.Unix(760000000, 0)},
				Literal: lit, MailboxIDs: []imap.MailboxID{"no-such-mailbox"}, ParsedMessage: p})
		case "BoxesIntoRecovery":
			// needs an existing message: take any known one, else an unknown id (also an error)
			id := imap.MessageID("no-such-message")
			for _, rid := range r.remote {
				id = rid
				break
			}
			u = imap.NewMessageMailboxesUpdated(id, []imap.MailboxID{recovery}, imap.NewFlagSet())
		case "CreateIntoRecovery":
			u = imap.NewMessagesCreated(false, &imap.MessageCreated{Message: imap.Message{ID: imap.MessageID("bad-create-2-" + r.suffix), Flags: imap.NewFlagSet(), Date: time.Unix(760000000, 0)},
				Literal: lit, MailboxIDs: []imap.MailboxID{recovery}, ParsedMessage: p})
		case "MailboxCreatedDup":
			b := r.opt.Boxes[0]
			u = imap.NewMailboxCreated(imap.Mailbox{ID: r.boxID[b], Name: []string{r.real(b)}, Flags: r.conn.Flags, PermanentFlags: r.conn.PermFlags, Attributes: r.conn.Attrs})
		case "MailboxDeletedRecovery":
			u = imap.NewMailboxDeleted(recovery)
		case "MailboxDeletedUnknown":
			u = imap.NewMailboxDeleted("no-such-mailbox")
		case "MailboxUpdatedUnknown":
			u = imap.NewMailboxUpdated("no-such-mailbox", []string{"whatever"})
		case "UpdatedUnknownNoCreate":
			u = imap.NewMessageUpdated(imap.Message{ID: "no-such-message", Flags: imap.NewFlagSet(), Date: time.Unix(760000000, 0)}, lit, boxIDs(r.opt.Boxes[:1]), p, false)
		default:
			return r.drift(idx, "harness", "unknown bad-update kind %q", k)
		}
		return r.submit(idx, st, k, u)
	}
	return nil
}

var reSubject = regexp.MustCompile(`(?m)^Subject: ([^\r\n]*)\r?$`)
var reGluonIDLine = regexp.MustCompile(`(?m)^X-Pm-Gluon-Id: [0-9a-fA-F-]{36}\r\n`)
var reSize = regexp.MustCompile(`RFC822\.SIZE (\d+)`)

// literalOf: the literal the harness connector holds for model message m (set when the message came through the connector).
func (r *Rig) literalOf(m string) ([]byte, bool) {
	if rid, ok := r.remote[m]; ok {
		if vm := r.conn.Messages[rid]; vm != nil && len(vm.Literal) > 0 {
			return vm.Literal, true
		}
	}
	return nil, false
}

func (r *Rig) bytesFinding(box string, uid int, m, what string, lit []byte) {
	if len(lit) > 400 {
		lit = lit[:400]
	}
	r.find("C03", "C03/bytes", fmt.Sprintf("mailbox %s, UID %d (message %s): BODY[] %s: %q", box, uid, m, what, lit), 0)
}

var reGluonID = regexp.MustCompile(`(?i)X-Pm-Gluon-Id: ([0-9a-fA-F-]+)`)

// internalID finds gluon's internal id of model message m through a fresh session (it is in the id header).
func (r *Rig) internalID(m string, prev *Step) (imap.InternalMessageID, error) {
	if prev == nil {
		return imap.InternalMessageID{}, fmt.Errorf("no state")
	}
	for _, b := range r.opt.Boxes {
		for _, e := range prev.DB[b] {
			if e.M != m {
				continue
			}
			oc, err := wire.Dial(r.srv.Addr)
			if err != nil {
				return imap.InternalMessageID{}, err
			}
			defer oc.Close()
			oc.Login("user", "pass")
			oc.Cmd("EXAMINE " + r.real(b))
			res := oc.Cmd(fmt.Sprintf("UID FETCH %d (BODY.PEEK[HEADER])", e.UID))
			oc.Cmd("LOGOUT")
			for _, l := range res.Untagged {
				for _, lit := range l.Lits {
					if mm := reGluonID.FindSubmatch(lit); mm != nil {
						return imap.InternalMessageIDFromString(string(mm[1]))
					}
				}
			}
		}
	}
	return imap.InternalMessageID{}, fmt.Errorf("not found")
}

// probeAgainstMirror: C01's own predicate on real data - what the client reconstructed must agree with
// what FETCH 1:* (UID FLAGS) answers.
func (r *Rig) probeAgainstMirror(idx int, st *Step, s *rsess, before []mentry, res wire.Result) {
	if res.Status != "OK" {
		return
	}
	var got []wire.Ev
	for _, e := range wire.Events(res.Untagged) {
		if e.Kind == "FETCH" && e.UID != 0 {
			got = append(got, e)
		}
	}
	// FETCH data may be produced in parallel: order by sequence number
	sort.SliceStable(got, func(i, j int) bool { return got[i].N < got[j].N })
	key := func(k string) string { return r.taintKey(st, s.name, "F13", k) }
	// the probe's own data lines come first, before anything the trailing flush adds
	n := 0
	for _, e := range got {
		if e.N == n+1 {
			n++
		} else {
			break
		}
	}
	if n != len(before) {
		r.find("C01", key("C01/count"), fmt.Sprintf("step %d: client of %s counts %d messages %s, FETCH 1:* answered %d", idx, s.name, len(before), mirrorView(before), n), idx)
		return
	}
	for i := 0; i < n; i++ {
		if before[i].uid != 0 && before[i].uid != got[i].UID {
			r.find("C01", key("C01/seq-uid"), fmt.Sprintf("step %d: client of %s learned sequence %d = UID %d, FETCH answers UID %d (client view %s)", idx, s.name, i+1, before[i].uid, got[i].UID, mirrorView(before)), idx)
			return
		}
		if before[i].known && !sameFlags(before[i].flags, got[i].Flags) {
			r.find("C01", key("C01/flags"), fmt.Sprintf("step %d: client of %s learned flags %v for sequence %d, FETCH answers %v", idx, s.name, before[i].flags, i+1, normFlags(got[i].Flags)), idx)
			return
		}
		if i > 0 && got[i].UID <= got[i-1].UID {
			r.find("C01", key("C01/uid-order"), fmt.Sprintf("step %d: FETCH 1:* of %s answers UIDs out of order: %d after %d", idx, s.name, got[i].UID, got[i-1].UID), idx)
			return
		}
	}
}

// OracleView returns the authoritative content of a mailbox as a fresh EXAMINE sees it.
func (r *Rig) OracleView(box string) ([]Entry, int, error) {
	// a brand-new session: its update queue is empty, so its snapshot is the database and nothing
	// older can be applied on top of it while we look
	oc, err := wire.Dial(r.srv.Addr)
	if err != nil {
		return nil, 0, err
	}
	defer oc.Close()
	if lr := oc.Login("user", "pass"); lr.Status != "OK" {
		return nil, 0, fmt.Errorf("oracle login: %s %s", lr.Status, lr.Text)
	}
	defer oc.Cmd("LOGOUT")
	return r.oracleViewOn(oc, box)
}

func (r *Rig) oracleViewOn(oc *wire.Client, box string) ([]Entry, int, error) {
	res := oc.Cmd("EXAMINE " + r.real(box))
	if res.Status != "OK" {
		return nil, 0, fmt.Errorf("oracle EXAMINE %s: %s %s", box, res.Status, res.Text)
	}
	uidnext := 0
	for _, l := range res.Untagged {
		if i := strings.Index(l.Text, "[UIDNEXT "); i >= 0 {
			fmt.Sscanf(l.Text[i:], "[UIDNEXT %d]", &uidnext)
		}
	}
	res = oc.Cmd("FETCH 1:* (UID FLAGS RFC822.SIZE BODY.PEEK[])")
	var out []Entry
	var seqOf []int
	if res.Status == "OK" {
		for _, l := range res.Untagged {
			le := wire.Events([]wire.Line{l})
			if len(le) != 1 || le[0].Kind != "FETCH" || le[0].UID == 0 {
				continue
			}
			e := Entry{UID: le[0].UID, F: normFlags(le[0].Flags)}
			n := le[0].N
			seqOf = append(seqOf, n)
			for _, lit := range l.Lits {
				// the message's identity is its Subject; its bytes must be the literal of that message with exactly one id
				// header line of gluon in front of the first header field (C03: "... and their bytes"), RFC822.SIZE their length
				if m := reSubject.FindSubmatch(lit); m != nil {
					e.M = strings.TrimSpace(string(m[1]))
				}
				plain := reGluonIDLine.ReplaceAll(lit, nil)
				want := r.lit(e.M)
				if w, ok := r.literalOf(e.M); ok {
					want = w
				}
				switch {
				case len(reGluonIDLine.FindAll(lit, -1)) != 1 || !reGluonIDLine.Match(lit[:min(len(lit), 80)]):
					r.bytesFinding(box, e.UID, e.M, "does not start with exactly one id header line", lit)
				case !bytes.Equal(plain, want):
					r.bytesFinding(box, e.UID, e.M, "is not the literal that was handed in", lit)
				}
				if mm := reSize.FindStringSubmatch(l.Text); mm != nil && mm[1] != strconv.Itoa(len(lit)) {
					r.bytesFinding(box, e.UID, e.M, "RFC822.SIZE "+mm[1]+" differs from the length of BODY[]", lit)
				}
			}
			out = append(out, e)
		}
	}
	idxs := make([]int, len(out))
	for i := range idxs {
		idxs[i] = i
	}
	sort.SliceStable(idxs, func(a, b int) bool { return seqOf[idxs[a]] < seqOf[idxs[b]] })
	sorted := make([]Entry, len(out))
	for i, j := range idxs {
		sorted[i] = out[j]
	}
	return sorted, uidnext, nil
}

// Finish runs the end-of-behaviour checks. last is the final record (the behaviour ends quiescent).
func (r *Rig) Finish(last *Step, idx int) {
	views := map[string][]Entry{}
	for _, b := range r.opt.Boxes {
		if _, known := last.UIDNext[b]; !known {
			continue // a configuration with fewer mailboxes than the plan: the model says nothing about this one
		}
		v, uidnext, err := r.OracleView(b)
		if err != nil {
			r.rep.Drift = r.drift(idx, "oracle", "%v", err)
			return
		}
		views[b] = v
		// C03: the authoritative content is the reference model's
		if got, want := entriesView(v), entriesView(last.DB[b]); got != want {
			r.find("C03", "C03/content/"+last.Act, fmt.Sprintf("mailbox %s holds %s, the reference model says %s", b, got, want), idx)
		}
		// C04
		if want := last.UIDNext[b]; uidnext != want {
			r.find("C04", "C04/uidnext", fmt.Sprintf("mailbox %s announces UIDNEXT %d, the model says %d", b, uidnext, want), idx)
		}
		for _, e := range v {
			if e.UID >= uidnext {
				r.find("C04", "C04/uid-above-uidnext", fmt.Sprintf("mailbox %s holds UID %d but announces UIDNEXT %d", b, e.UID, uidnext), idx)
			}
			if old, ok := r.uidSeen[b][e.UID]; ok && old != e.M {
				r.find("C04", "C04/announced-uid-wrong", fmt.Sprintf("mailbox %s: UID %d was announced for %s but holds %s", b, e.UID, old, e.M), idx)
			}
		}
		for i := 1; i < len(v); i++ {
			if v[i].UID <= v[i-1].UID {
				r.find("C04", "C04/uid-order", fmt.Sprintf("mailbox %s lists UID %d after %d", b, v[i].UID, v[i-1].UID), idx)
			}
		}
	}
	// C04: UIDVALIDITY changes through UIDValidityBumped only
	if r.validity != nil {
		if now, err := r.validities(); err == nil {
			for _, b := range r.opt.Boxes {
				if now[b] != r.validity[b] {
					r.find("C04", "C04/uidvalidity-changed", fmt.Sprintf("mailbox %s: UIDVALIDITY was %d after the last bump (or at the start) and is %d at the end, no bump in between", b, r.validity[b], now[b]), idx)
				}
			}
		}
	}
	// C01 + C02 per long-lived session: NOOP, FETCH 1:* vs client mirror and vs the fresh view
	names := make([]string, 0, len(r.sess))
	for n := range r.sess {
		names = append(names, n)
	}
	sort.Strings(names)
	for _, name := range names {
		s := r.sess[name]
		if s.box == "" {
			continue
		}
		res := s.c.Cmd("NOOP")
		r.applyToMirror(s, last, idx, res.Untagged, "Noop")
		before := append([]mentry{}, s.mirror...)
		res = s.c.Cmd("FETCH 1:* (UID FLAGS)")
		var got []Entry
		if res.Status == "OK" {
			r.probeAgainstMirror(idx, last, s, before, res)
			evs := wire.Events(res.Untagged)
			sort.SliceStable(evs, func(i, j int) bool { return evs[i].N < evs[j].N })
			for _, e := range evs {
				if e.Kind == "FETCH" && e.UID != 0 {
					got = append(got, Entry{UID: e.UID, F: normFlags(e.Flags)})
				}
			}
		} else if len(before) != 0 {
			r.find("C01", r.taintKey(last, name, "F13", "C01/count"), fmt.Sprintf("client of %s counts %d messages, FETCH 1:* answered %s", name, len(before), res.Status), idx)
		}
		want := views[s.box]
		same := len(got) == len(want)
		for i := 0; same && i < len(got); i++ {
			same = got[i].UID == want[i].UID && sameFlags(got[i].F, want[i].F)
		}
		if !same {
			strip := func(es []Entry) string {
				var b []string
				for _, e := range es {
					b = append(b, fmt.Sprintf("%d(%s)", e.UID, strings.Join(normFlags(e.F), ",")))
				}
				return "[" + strings.Join(b, " ") + "]"
			}
			key := r.anyTaintKey(last, name, []string{"F1", "F14", "F15"}, "C02/diverged")
			r.find("C02", key, fmt.Sprintf("at quiescence session %s shows %s of %s, a fresh session shows %s", name, strip(got), s.box, strip(want)), idx)
			r.removalNotAnnounced(last, name, s.box, got, want, idx)
		}
	}
}

// removalNotAnnounced is C05's "every removal is announced by the next command that permits it" on real data: at quiescence,
// after a NOOP (which permits EXPUNGE), the session still shows a message the mailbox no longer holds.
func (r *Rig) removalNotAnnounced(ref *Step, name, box string, got, want []Entry, idx int) {
	have := map[int]bool{}
	for _, e := range want {
		have[e.UID] = true
	}
	for _, e := range got {
		if !have[e.UID] {
			key := r.anyTaintKey(ref, name, []string{"F1", "F14", "F15"}, "C05/removal-not-announced")
			r.find("C05", key, fmt.Sprintf("after every update was delivered and session %s sent NOOP it still shows UID %d of %s (it shows %s); the mailbox holds %s: the removal was never announced", name, e.UID, box, entriesView(got), entriesView(want)), idx)
			return
		}
	}
}

// postDriftProbe evaluates C01's and C02's own predicates on the real server after it has left the model:
// client mirror vs FETCH 1:* in every session, then exact drain, NOOP and comparison with a brand-new session.
// Taints are those of the last step that still conformed.
func (r *Rig) postDriftProbe(idx int, st *Step, prev *Step) {
	ref := prev
	if ref == nil {
		ref = st
	}
	names := make([]string, 0, len(r.sess))
	for n := range r.sess {
		names = append(names, n)
	}
	sort.Strings(names)
	// drain: deliver everything that is queued, to every session
	for round := 0; round < 200; round++ {
		progressed := false
		for _, name := range names {
			s := r.sess[name]
			if r.gate.Pending(s.id) > 0 {
				if _, _, err := r.gate.Deliver(s.id); err != nil {
					return
				}
				progressed = true
			}
		}
		if !progressed {
			break
		}
	}
	views := map[string][]Entry{}
	for _, name := range names {
		s := r.sess[name]
		if s.box == "" {
			continue
		}
		res := s.c.Cmd("NOOP")
		if res.Status != "OK" {
			continue
		}
		r.applyToMirror(s, ref, idx, res.Untagged, "Noop")
		before := append([]mentry{}, s.mirror...)
		res = s.c.Cmd("FETCH 1:* (UID FLAGS)")
		var got []Entry
		if res.Status == "OK" {
			r.probeAgainstMirror(idx, ref, s, before, res)
			evs := wire.Events(res.Untagged)
			sort.SliceStable(evs, func(i, j int) bool { return evs[i].N < evs[j].N })
			for _, e := range evs {
				if e.Kind == "FETCH" && e.UID != 0 {
					got = append(got, Entry{UID: e.UID, F: normFlags(e.Flags)})
				}
			}
		} else if len(before) != 0 {
			r.find("C01", r.taintKey(ref, name, "F13", "C01/count"), fmt.Sprintf("client of %s counts %d messages, FETCH 1:* answered %s", name, len(before), res.Status), idx)
		}
		want, ok := views[s.box]
		if !ok {
			v, _, err := r.OracleView(s.box)
			if err != nil {
				continue
			}
			views[s.box], want = v, v
		}
		same := len(got) == len(want)
		for i := 0; same && i < len(got); i++ {
			same = got[i].UID == want[i].UID && sameFlags(got[i].F, want[i].F)
		}
		if !same {
			key := r.anyTaintKey(ref, name, []string{"F1", "F14", "F15"}, "C02/diverged")
			r.find("C02", key, fmt.Sprintf("(after the server left the model at step %d) at quiescence session %s shows %s of %s, a fresh session shows %s", idx, name, entriesView(got), s.box, entriesView(want)), idx)
			r.removalNotAnnounced(ref, name, s.box, got, want, idx)
		}
	}
}

// Run replays a whole behaviour.
func (r *Rig) Run(t *Trace) *Report {
	var prev *Step
	for i := range t.Steps {
		st := &t.Steps[i]
		if d := r.Exec(i+1, st, prev); d != nil {
			if r.opt.ContinueAfterViewDrift && !r.blind && (d.Kind == "mirror" || d.Kind == "snapshot" || d.Kind == "responders") && untainted(st, d.Sess) && untainted(prev, d.Sess) {
				// Reference-model properties (C03 ...): a session's view that differs from the model is not their business, what
				// such a view does to the mailboxes is. The behaviour goes on; from here only the authoritative content of the
				// mailboxes is compared with the model (after every state-changing step and at the end).
				r.blind = true
				r.rep.Drift = d
				r.logf("      the view of a session has left the model (%s: %s); the behaviour goes on, the mailboxes are still compared", d.Kind, d.Detail)
				prev = st
				continue
			}
			r.rep.Drift = d
			r.rep.Steps = i
			switch d.Kind {
			case "mirror", "snapshot", "responders", "queue", "filter", "status", "uid", "content", "ack":
				// the real server left the model: the model can no longer predict, but the properties' own
				// predicates can still be evaluated on the real server
				r.postDriftProbe(i+1, st, prev)
			}
			return r.rep
		}
		prev = st
	}
	r.rep.Steps = len(t.Steps)
	if prev != nil {
		r.Finish(prev, len(t.Steps))
	}
	return r.rep
}
