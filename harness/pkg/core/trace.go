package core

import (
	"encoding/json"
	"fmt"
	"sort"
	"strings"
)

// Entry is one message of a view as the specification prints it.
type Entry struct {
	UID int      `json:"uid"`
	F   []string `json:"f"`
	M   string   `json:"m"`
}

// WireEv is one untagged response the specification expects.
type WireEv struct {
	T    string          `json:"t"`
	N    int             `json:"n"`
	UID  int             `json:"uid"`
	F    json.RawMessage `json:"f"`
	Nums []int           `json:"nums"`
}

// Step is one StepRecord of GluonCore.
type Step struct {
	Act       string              `json:"act"`
	S         string              `json:"s"`
	Args      []json.RawMessage   `json:"args"`
	Status    string              `json:"status"`
	Wire      map[string][]WireEv `json:"wire"`
	Sel       map[string]string   `json:"sel"`
	Ro        map[string]bool     `json:"ro"`
	Idle      map[string]bool     `json:"idle"`
	Snaps     map[string][]Entry  `json:"snaps"`
	Mirrors   map[string][]Entry  `json:"mirrors"`
	ResLen    map[string]int      `json:"reslen"`
	Expunging map[string]bool     `json:"expunging"`
	QLen      map[string]int      `json:"qlen"`
	Taint     map[string][]string `json:"taint"`
	DB        map[string][]Entry  `json:"db"`
	Flg       map[string][]string `json:"flg"`
	Used      []string            `json:"used"`
	UIDNext   map[string]int      `json:"uidnext"`
	Inv       map[string]bool     `json:"inv"`
	Epoch     map[string]int      `json:"epoch"`
}

type Trace struct {
	Steps []Step `json:"trace"`
}

func (s *Step) ArgInts(i int) []int {
	var v []int
	if i < len(s.Args) {
		_ = json.Unmarshal(s.Args[i], &v)
	}
	return v
}

func (s *Step) ArgStr(i int) string {
	var v string
	if i < len(s.Args) {
		_ = json.Unmarshal(s.Args[i], &v)
	}
	return v
}

func (s *Step) ArgStrs(i int) []string {
	var v []string
	if i < len(s.Args) {
		_ = json.Unmarshal(s.Args[i], &v)
	}
	return v
}

func (s *Step) ArgBool(i int) bool {
	var v bool
	if i < len(s.Args) {
		_ = json.Unmarshal(s.Args[i], &v)
	}
	return v
}

func (s *Step) ArgInt(i int) int {
	var v int
	if i < len(s.Args) {
		_ = json.Unmarshal(s.Args[i], &v)
	}
	return v
}

// Describe renders a step for humans.
func (s *Step) Describe() string {
	parts := make([]string, 0, len(s.Args))
	for _, a := range s.Args {
		parts = append(parts, string(a))
	}
	return fmt.Sprintf("%s(%s %s) -> %s", s.Act, s.S, strings.Join(parts, " "), s.Status)
}

// Sig is a short signature of a whole trace (for distinctness counting).
func (t *Trace) Sig() string {
	var b strings.Builder
	for _, s := range t.Steps {
		b.WriteString(s.Describe())
		b.WriteByte(';')
	}
	return b.String()
}

// NonTrivial: the trace has a state-changing command and at least one delivery or connector step.
func (t *Trace) NonTrivial() bool {
	ch, other := false, false
	for _, s := range t.Steps {
		switch s.Act {
		case "Append", "Store", "Expunge", "UidExpunge", "Copy", "Move", "Close", "FetchBody":
			ch = true
		case "Deliver", "ConnSetBoxes", "ConnSetFlags", "ConnDelete":
			other = true
		}
	}
	return ch && other
}

func normFlags(f []string) []string {
	out := make([]string, 0, len(f))
	for _, x := range f {
		x = strings.TrimPrefix(x, "\\")
		if strings.EqualFold(x, "Recent") {
			continue
		}
		// canonical capitalisation of system flags
		switch strings.ToLower(x) {
		case "seen":
			x = "Seen"
		case "deleted":
			x = "Deleted"
		case "flagged":
			x = "Flagged"
		case "answered":
			x = "Answered"
		case "draft":
			x = "Draft"
		}
		out = append(out, x)
	}
	sort.Strings(out)
	return out
}

func sameFlags(a, b []string) bool {
	a, b = normFlags(a), normFlags(b)
	if len(a) != len(b) {
		return false
	}
	for i := range a {
		if a[i] != b[i] {
			return false
		}
	}
	return true
}
