package mimegen

import (
	"fmt"
	"strconv"
)

// Item is a node of a parsed parenthesised IMAP list (RFC 3501 section 9: envelope, body).
type Item struct {
	Kind byte // 'L' list, 'S' string (quoted or literal), 'N' NIL, 'D' number
	Str  string
	Num  int64
	Kids []*Item
}

func (it *Item) IsNil() bool    { return it != nil && it.Kind == 'N' }
func (it *Item) IsList() bool   { return it != nil && it.Kind == 'L' }
func (it *Item) IsString() bool { return it != nil && it.Kind == 'S' }
func (it *Item) IsNum() bool    { return it != nil && it.Kind == 'D' }

// NString returns the string value and true for a string, "" and true for NIL.
func (it *Item) NString() (string, bool) {
	if it.IsNil() {
		return "", true
	}
	if it.IsString() {
		return it.Str, true
	}
	return "", false
}

func (it *Item) String() string {
	switch it.Kind {
	case 'N':
		return "NIL"
	case 'D':
		return strconv.FormatInt(it.Num, 10)
	case 'S':
		return strconv.Quote(it.Str)
	}
	s := "("
	for i, k := range it.Kids {
		if i > 0 {
			s += " "
		}
		s += k.String()
	}
	return s + ")"
}

// ListError describes why a text is not a well-formed list; Kind is a stable class.
type ListError struct {
	Kind string
	Pos  int
	Msg  string
}

func (e *ListError) Error() string { return fmt.Sprintf("%s at offset %d: %s", e.Kind, e.Pos, e.Msg) }

type listParser struct {
	s   string
	pos int
}

// ParseList reads exactly one parenthesised list that must span the whole text. It is strict:
//
//	list    = "(" [item *(SP item)] ")"   - exactly one space between items, none after "(" or before ")";
//	          two adjacent lists may follow each other without a space (body: 1*body SP media-subtype)
//	item    = list / quoted / literal / "NIL" / number
//	quoted  = DQUOTE *QUOTED-CHAR DQUOTE; "\" may only precede DQUOTE or "\"; no CR, LF, NUL
//	          (octets above 127 are tolerated: UTF8=ACCEPT servers send them)
//	literal = "{" number "}" CRLF octets
func ParseList(s string) (*Item, error) {
	p := &listParser{s: s}
	if len(s) == 0 || s[0] != '(' {
		return nil, &ListError{"not-a-list", 0, "text does not start with ("}
	}
	it, err := p.list(0)
	if err != nil {
		return nil, err
	}
	if p.pos != len(s) {
		return nil, &ListError{"trailing-text", p.pos, fmt.Sprintf("%d octets after the closing parenthesis", len(s)-p.pos)}
	}
	return it, nil
}

const maxListDepth = 100000

func (p *listParser) list(depth int) (*Item, error) {
	if depth > maxListDepth {
		return nil, &ListError{"too-deep", p.pos, "nesting beyond the reader's limit"}
	}
	p.pos++ // (
	it := &Item{Kind: 'L'}
	if p.pos < len(p.s) && p.s[p.pos] == ')' {
		p.pos++
		return it, nil
	}
	for {
		if p.pos >= len(p.s) {
			return nil, &ListError{"unbalanced", p.pos, "text ends inside a list"}
		}
		k, err := p.item(depth)
		if err != nil {
			return nil, err
		}
		it.Kids = append(it.Kids, k)
		if p.pos >= len(p.s) {
			return nil, &ListError{"unbalanced", p.pos, "text ends inside a list"}
		}
		switch c := p.s[p.pos]; {
		case c == ')':
			p.pos++
			return it, nil
		case c == ' ':
			p.pos++
			if p.pos < len(p.s) && (p.s[p.pos] == ' ' || p.s[p.pos] == ')') {
				return nil, &ListError{"bad-spacing", p.pos, "space not followed by an item"}
			}
		case c == '(' && k.Kind == 'L':
			// adjacent lists
		default:
			return nil, &ListError{"bad-separator", p.pos, fmt.Sprintf("unexpected %q after an item", c)}
		}
	}
}

func (p *listParser) item(depth int) (*Item, error) {
	c := p.s[p.pos]
	switch {
	case c == '(':
		return p.list(depth + 1)
	case c == '"':
		start := p.pos
		p.pos++
		var b []byte
		for {
			if p.pos >= len(p.s) {
				return nil, &ListError{"unterminated-quoted", start, "quoted string not closed"}
			}
			ch := p.s[p.pos]
			switch {
			case ch == '"':
				p.pos++
				return &Item{Kind: 'S', Str: string(b)}, nil
			case ch == '\\':
				if p.pos+1 >= len(p.s) || (p.s[p.pos+1] != '"' && p.s[p.pos+1] != '\\') {
					nx := ""
					if p.pos+1 < len(p.s) {
						nx = string(p.s[p.pos+1])
					}
					return nil, &ListError{"bad-escape", p.pos, fmt.Sprintf("backslash followed by %q inside a quoted string (only \\\" and \\\\ exist)", nx)}
				}
				b = append(b, p.s[p.pos+1])
				p.pos += 2
			case ch == '\r' || ch == '\n' || ch == 0:
				return nil, &ListError{"bad-quoted-char", p.pos, fmt.Sprintf("octet %#x inside a quoted string", ch)}
			default:
				b = append(b, ch)
				p.pos++
			}
		}
	case c == '{':
		end := p.pos + 1
		for end < len(p.s) && p.s[end] >= '0' && p.s[end] <= '9' {
			end++
		}
		if end == p.pos+1 || end >= len(p.s) || p.s[end] != '}' {
			return nil, &ListError{"bad-literal", p.pos, "malformed literal prefix"}
		}
		n, err := strconv.Atoi(p.s[p.pos+1 : end])
		if err != nil {
			return nil, &ListError{"bad-literal", p.pos, "literal length"}
		}
		if end+3 > len(p.s) || p.s[end+1] != '\r' || p.s[end+2] != '\n' {
			return nil, &ListError{"bad-literal", p.pos, "literal prefix not followed by CRLF"}
		}
		if end+3+n > len(p.s) {
			return nil, &ListError{"bad-literal", p.pos, "literal longer than the text"}
		}
		it := &Item{Kind: 'S', Str: p.s[end+3 : end+3+n]}
		p.pos = end + 3 + n
		return it, nil
	case c >= '0' && c <= '9':
		end := p.pos
		for end < len(p.s) && p.s[end] >= '0' && p.s[end] <= '9' {
			end++
		}
		n, err := strconv.ParseInt(p.s[p.pos:end], 10, 64)
		if err != nil || n > 4294967295 {
			return nil, &ListError{"bad-number", p.pos, "number does not fit in 32 bits"}
		}
		p.pos = end
		return &Item{Kind: 'D', Num: n}, nil
	case len(p.s)-p.pos >= 3 && p.s[p.pos:p.pos+3] == "NIL":
		p.pos += 3
		return &Item{Kind: 'N'}, nil
	}
	return nil, &ListError{"bad-item", p.pos, fmt.Sprintf("unexpected %q where an item starts", c)}
}
