package mimegen

import (
	"hash/fnv"
	"sort"
	"strconv"
	"strings"
)

// Dedup keeps failure signatures apart from the shape they were seen under. Cases run in the order
// of the number of non-default shape dimensions; a signature already reported under a subset of the
// current dimensions (in particular under the default shape) has the same cause and is only counted;
// a signature that needs certain dimensions to appear carries them in front of its key.
type Dedup struct {
	seen map[string][][]string
	Also map[string]int
}

func NewDedup() *Dedup { return &Dedup{seen: map[string][][]string{}, Also: map[string]int{}} }

func subset(a, b []string) bool {
	for _, x := range a {
		found := false
		for _, y := range b {
			if x == y {
				found = true
				break
			}
		}
		if !found {
			return false
		}
	}
	return true
}

// Key returns the key to report and whether to report at all.
func (d *Dedup) Key(dims []string, key string) (string, bool) {
	dims = append([]string{}, dims...)
	sort.Strings(dims)
	for _, s := range d.seen[key] {
		if subset(s, dims) {
			d.Also[key]++
			return "", false
		}
	}
	d.seen[key] = append(d.seen[key], dims)
	if len(dims) == 0 {
		return key, true
	}
	return strings.Join(dims, ",") + ":" + key, true
}

// Dims lists the non-default dimensions of a shape.
func (s Shape) Dims() []string {
	var out []string
	if s.Hdr != "plain" {
		out = append(out, "hdr="+s.Hdr)
	}
	if s.Le != "crlf" {
		out = append(out, "le="+s.Le)
	}
	if s.Bnd != "normal" {
		out = append(out, "bnd="+s.Bnd)
	}
	if s.Dmg != "none" {
		out = append(out, "dmg="+s.Dmg)
	}
	if s.Size != "small" {
		out = append(out, "size="+s.Size)
	}
	return out
}

// Hash is a short stable name of a long signature (evidence counts distinct signatures).
func Hash(s string) string {
	h := fnv.New64a()
	_, _ = h.Write([]byte(s))
	return strconv.FormatUint(h.Sum64(), 36)
}
