// Package mimegen turns the abstract cases printed by TLC from GluonMime.tla (tree, shape,
// layout = sequence of chunks) into concrete message bytes. It records, by construction,
// the byte range of every chunk, so that "the value of section s" - which the
// specification gives as a sequence of chunk indexes - becomes a byte string without any
// parsing on the harness side. It contains no model of MIME or IMAP semantics: which chunks
// make up a header, a body, a part or a section is decided by the specification.
package mimegen

import (
	"bytes"
	"encoding/json"
	"fmt"
	"strconv"
	"strings"
)

// Tree is GluonMime's tree record.
type Tree struct {
	K    string  `json:"k"` // leaf | multi | emb
	Kind string  `json:"kind"`
	Sub  string  `json:"sub"`
	Kids []*Tree `json:"kids"`
	Pre  bool    `json:"pre"`
	Epi  bool    `json:"epi"`
}

// Shape is GluonMime's shape record.
type Shape struct {
	Hdr  string `json:"hdr"`
	Le   string `json:"le"`
	Bnd  string `json:"bnd"`
	Dmg  string `json:"dmg"`
	Size string `json:"size"`
}

// Chunk is one element of the layout.
type Chunk struct {
	C string `json:"c"` // idline fld blank body pre delim close closenl epi
	A []int  `json:"a"`
	F string `json:"f"`
}

// Sect is a section of GluonMime.
type Sect struct {
	Path []int  `json:"path"`
	Kind string `json:"kind"` // "" HEADER TEXT MIME FIELDS NOT  (LAYOUT, "-": pseudo)
	Fs   int    `json:"fs"`
}

// Leaf kinds: must agree with LeafDef of the specification only in the *names*; the
// type/subtype/encoding that are compared come from the specification's expected structure.
type leafDef struct{ ctype, cte, body string }

var leafDefs = map[string]leafDef{
	"plain":  {"text/plain; charset=utf-8", "7bit", "lines"},
	"html":   {"text/html; charset=iso-8859-1", "quoted-printable", "nonl"},
	"bin":    {"application/octet-stream; name=\"f.bin\"", "base64", "b64"},
	"empty":  {"text/plain; charset=us-ascii", "7bit", "empty"},
	"eight":  {"text/plain; charset=iso-8859-1", "8bit", "eightbit"},
	"blank":  {"text/plain; charset=utf-8", "7bit", "blanklines"},
	"dashes": {"text/plain; charset=utf-8", "7bit", "dashes"},
}

// NodeInfo is what the builder wrote for one node (values of the parameters etc.).
type NodeInfo struct {
	Addr     []int
	Params   map[string]string // Content-Type parameters written (lower-case names)
	Boundary string
	// for message roots (top level and embedded): the semantic values of the envelope fields written
	Env map[string]string // Date, Subject, Message-Id, From, To  (addresses as mailbox@host)
	// Ext: the values behind BODYSTRUCTURE's extension data as written for this node (header shape "ext"):
	// filename (of Content-Disposition: attachment), language, location, md5
	Ext map[string]string
}

// Built is a rendered message.
type Built struct {
	Bytes  []byte
	Chunks [][]byte // bytes of every chunk, in layout order (idline chunks are empty until SetIDLine)
	Layout []Chunk
	Nodes  map[string]*NodeInfo // key: AddrKey(addr)
	IDLine int                  // index of the idline chunk or -1
}

func AddrKey(a []int) string {
	s := make([]string, len(a))
	for i, x := range a {
		s[i] = strconv.Itoa(x)
	}
	return strings.Join(s, ".")
}

func (t *Tree) At(a []int) *Tree {
	n := t
	for _, i := range a {
		if n == nil || i < 1 || i > len(n.Kids) {
			return nil
		}
		n = n.Kids[i-1]
	}
	return n
}

// String renders a tree compactly: leaf kinds, M(sub|pre|epi: kids), E(tree).
func (t *Tree) String() string {
	switch t.K {
	case "leaf":
		return t.Kind
	case "emb":
		return "E(" + t.Kids[0].String() + ")"
	}
	var ks []string
	for _, k := range t.Kids {
		ks = append(ks, k.String())
	}
	f := ""
	if t.Pre {
		f += "p"
	}
	if t.Epi {
		f += "e"
	}
	return "M" + f + "[" + t.Sub + "](" + strings.Join(ks, ",") + ")"
}

func (s Shape) String() string {
	return fmt.Sprintf("hdr=%s le=%s bnd=%s dmg=%s size=%s", s.Hdr, s.Le, s.Bnd, s.Dmg, s.Size)
}

// Key identifies (tree, shape).
func Key(t *Tree, s Shape) string { return t.String() + " " + s.String() }

// IDLineLen is the length of the header line the server inserts: "X-Pm-Gluon-Id: " + uuid + CRLF.
const IDLineLen = len("X-Pm-Gluon-Id: ") + 36 + 2

// StoreBlock is the block size of gluon's on-disk store (store/disk.go: blockSize).
const StoreBlock = 64 * 4096

type builder struct {
	t      *Tree
	sh     Shape
	nlN    int
	nodes  map[string]*NodeInfo
	tag    string
	outerB []string
}

func (b *builder) nl() string {
	switch b.sh.Le {
	case "lf":
		return "\n"
	case "mixed":
		b.nlN++
		if b.nlN%2 == 0 {
			return "\n"
		}
		return "\r\n"
	}
	return "\r\n"
}

func (b *builder) node(a []int) *NodeInfo {
	k := AddrKey(a)
	n := b.nodes[k]
	if n == nil {
		n = &NodeInfo{Addr: append([]int{}, a...), Params: map[string]string{}, Env: map[string]string{}, Ext: map[string]string{}}
		b.nodes[k] = n
	}
	return n
}

// boundary of the multipart at address a.
func (b *builder) boundary(a []int) string {
	if b.sh.Dmg == "dupboundary" {
		return "SAMEBOUNDARY"
	}
	id := strings.ReplaceAll(AddrKey(a), ".", "x")
	if b.sh.Bnd == "quoted" {
		// every bchar of RFC 2046 that needs quoting, space inside (not at the end)
		return "=_q" + id + "(')+_,-./:=? z"
	}
	return "BnD" + id + "r"
}

// enclosing returns the boundaries of all multiparts on the way to address a (outermost first).
func (b *builder) enclosing(a []int) []string {
	var out []string
	n := b.t
	for i := 0; ; i++ {
		if n.K == "multi" {
			out = append(out, b.boundary(a[:i]))
		}
		if i == len(a) {
			break
		}
		n = n.Kids[a[i]-1]
	}
	return out
}

const longLen = 3000

func (b *builder) field(a []int, f string, nth int) string {
	n := b.t.At(a)
	info := b.node(a)
	top := len(a) == 0
	who := "alice"
	if !top {
		who = "carol" + strings.ReplaceAll(AddrKey(a), ".", "")
	}
	h := b.sh.Hdr
	sep := ": "
	var v string
	switch f {
	case "From":
		v = who + "@example.org"
		info.Env["From"] = v
	case "To":
		addr := "bob@example.com"
		info.Env["To"] = addr
		switch {
		case h == "comment1":
			v = "(a comment) " + addr
		case h == "comment3":
			v = "(one (two (three \\) still three))) " + addr
		case b.sh.Dmg == "opencomment":
			v = "(unclosed (comment " + addr
		default:
			v = addr
		}
	case "Date":
		v = "Mon, 7 Feb 1994 21:52:25 -0800"
		info.Env["Date"] = v
	case "Subject":
		switch {
		case h == "folded":
			info.Env["Subject"] = "folded subject of " + who + " continues here"
			return "Subject: folded subject of " + who + b.nl() + " continues here" + b.nl()
		case h == "utf8":
			v = "caf\xc3\xa9 ol\xc3\xa9 " + who
		case h == "tab":
			v = "tab\there " + who
		case h == "longline":
			v = who + " " + strings.Repeat("long ", longLen/5)
			v = strings.TrimRight(v, " ")
		case h == "nospace":
			sep = ":"
			v = "nospace-" + who
		case b.sh.Dmg == "latin1hdr":
			v = "caf\xe9 " + who
		case b.sh.Dmg == "nul":
			v = "nul\x00here " + who
		default:
			v = "subject of " + who
		}
		info.Env["Subject"] = v
	case "Message-Id":
		v = "<" + who + "." + b.tag + "@example.org>"
		info.Env["Message-Id"] = v
	case "MIME-Version":
		v = "1.0"
		if h == "comment1" || h == "comment3" {
			v = "1.0 (produced by (the harness))"
		}
	case "X-Dup":
		v = "occurrence-" + strconv.Itoa(nth)
	case "X-Empty":
		return "X-Empty:" + b.nl()
	case "Content-Transfer-Encoding":
		v = leafDefs[n.Kind].cte
	case "Content-Type":
		switch n.K {
		case "leaf":
			v = leafDefs[n.Kind].ctype
			if b.sh.Dmg == "badct" {
				v = "text/plain; charset; =;;\"unterminated"
			} else {
				main := strings.SplitN(v, "; ", 2)
				kv := strings.SplitN(main[1], "=", 2)
				info.Params[kv[0]] = strings.Trim(kv[1], "\"")
				if h == "folded" {
					return "Content-Type: " + main[0] + ";" + b.nl() + "\t" + main[1] + b.nl()
				}
			}
		case "emb":
			v = "message/rfc822"
		case "multi":
			bd := b.boundary(a)
			info.Boundary = bd
			info.Params["boundary"] = bd
			p := "boundary=" + bd
			if b.sh.Bnd == "quoted" {
				p = "boundary=\"" + bd + "\""
			}
			if b.sh.Bnd == "emptyparam" {
				p = "boundary=\"\""
			}
			if b.sh.Dmg == "openquote" {
				p = "boundary=\"" + bd
			}
			if h == "folded" {
				return "Content-Type: multipart/" + n.Sub + ";" + b.nl() + " " + p + b.nl()
			}
			v = "multipart/" + n.Sub + "; " + p
		}
	case "Content-Disposition":
		info.Ext["filename"] = "f" + strings.ReplaceAll(AddrKey(a), ".", "_") + ".bin"
		v = "attachment; filename=\"" + info.Ext["filename"] + "\""
	case "Content-Language":
		v = "en-x" + strings.ReplaceAll(AddrKey(a), ".", "")
		info.Ext["language"] = v
	case "Content-Location":
		v = "loc-" + strings.ReplaceAll(AddrKey(a), ".", "-")
		info.Ext["location"] = v
	case "Content-MD5":
		v = "md5" + strings.ReplaceAll(AddrKey(a), ".", "") + "AAAAAAAAAAAAAAAA=="
		info.Ext["md5"] = v
	default:
		v = "value"
	}
	return f + sep + v + b.nl()
}

func (b *builder) body(a []int) string {
	n := b.t.At(a)
	var s strings.Builder
	line := func(x string) { s.WriteString(x); s.WriteString(b.nl()) }
	enc := b.enclosing(a)
	if b.sh.Bnd == "inline" {
		for _, bd := range enc {
			line("text --" + bd + " inside a line")
			line("x--" + bd)
		}
	}
	if b.sh.Dmg == "prefixline" {
		for _, bd := range enc {
			line("--" + bd + "X")
		}
	}
	switch leafDefs[n.Kind].body {
	case "lines":
		line("line one of " + AddrKey(a))
		line("line two")
	case "nonl":
		s.WriteString("<p>caf=E9 " + AddrKey(a) + "</p>")
	case "b64":
		line("AAECAwQFBgcICQoLDA0ODxAREhMUFRYXGBkaGxwdHh8gISIjJCUmJygpKissLS4vMDEyMzQ1Njc4")
		line("OTo7PD0+P0BBQkNERUZHSElKS0xNTk9QUVJTVFVWV1hZWltcXV5fYGFiY2RlZmdoaWprbG1ub3Bx")
		line("cnN0dQ==")
	case "empty":
	case "eightbit":
		line("caf\xe9 \xff\xfe " + AddrKey(a))
		line("second\x80 line")
	case "blanklines":
		line("")
		line("")
		line("text after two blank lines")
		line("")
		line("")
	case "dashes":
		line("--")
		line("-- ")
		line("--x")
		line("---")
		line("--BnD")
	}
	if b.sh.Dmg == "nul" {
		line("nul\x00in body")
	}
	if b.sh.Dmg == "barecr" || b.sh.Dmg == "barecrhdr" {
		s.WriteString("bare\rcr\rlines\r")
	}
	return s.String()
}

// Build renders the layout. tag makes messages distinct (Message-Id); family "fetch" layouts carry
// an idline chunk, which stays empty here (see SetIDLine). stored = the server adds the id line:
// size classes then aim at the length of the stored message.
func Build(t *Tree, sh Shape, layout []Chunk, tag string) *Built {
	b := &builder{t: t, sh: sh, nodes: map[string]*NodeInfo{}, tag: tag}
	out := &Built{Layout: layout, Nodes: b.nodes, IDLine: -1}
	out.Chunks = make([][]byte, len(layout))
	dupN := map[string]int{}
	firstBody := -1
	hasID := false
	for i, ch := range layout {
		var s string
		switch ch.C {
		case "idline":
			out.IDLine = i
			hasID = true
		case "fld":
			k := AddrKey(ch.A) + "/" + ch.F
			dupN[k]++
			s = b.field(ch.A, ch.F, dupN[k])
		case "blank":
			s = b.nl()
		case "body":
			if firstBody < 0 {
				firstBody = i
			}
			s = b.body(ch.A)
		case "pre":
			s = "This is the preamble of " + AddrKey(ch.A) + "." + b.nl() + "It has two lines"
		case "delim":
			parent := ch.A[:len(ch.A)-1]
			first := ch.A[len(ch.A)-1] == 1 && !b.t.At(parent).Pre
			if !first {
				s = b.nl()
			}
			s += "--" + b.boundary(parent)
			if sh.Bnd == "padding" {
				s += " \t "
			}
			s += b.nl()
		case "close":
			s = b.nl() + "--" + b.boundary(ch.A) + "--"
			if sh.Bnd == "padding" {
				s += "  "
			}
		case "closenl":
			s = b.nl()
		case "epi":
			s = "This is the epilogue of " + AddrKey(ch.A) + "." + b.nl()
		}
		out.Chunks[i] = []byte(s)
	}
	// damage that changes bytes of chunks (the chunk sequence stays a decomposition of the message)
	switch sh.Dmg {
	case "badkey":
		for i, ch := range layout {
			if ch.C == "fld" && len(ch.A) == 0 && ch.F == "Subject" {
				out.Chunks[i] = append([]byte("Bad Key\xe9: v"+b.nl()), out.Chunks[i]...)
			}
		}
	case "barecrhdr":
		for i, ch := range layout {
			if ch.C == "fld" && ch.F == "Subject" {
				out.Chunks[i] = bytes.Replace(out.Chunks[i], []byte("subject"), []byte("sub\rject"), 1)
			}
		}
	case "noblank", "trunchdr":
		cut := false
		for i, ch := range layout {
			if cut {
				out.Chunks[i] = nil
				continue
			}
			if ch.C == "blank" && len(ch.A) == 0 {
				cut = true
				out.Chunks[i] = nil
				if sh.Dmg == "trunchdr" && i > 0 {
					prev := out.Chunks[i-1]
					out.Chunks[i-1] = prev[:len(prev)/2]
				}
			}
		}
	}
	total := func() int {
		n := 0
		for _, c := range out.Chunks {
			n += len(c)
		}
		return n
	}
	// size classes: pad the first leaf body so that the stored message has the target length
	target := 0
	switch sh.Size {
	case "blkm1":
		target = StoreBlock - 1
	case "blk":
		target = StoreBlock
	case "blkp1":
		target = StoreBlock + 1
	case "blk2":
		target = 2 * StoreBlock
	case "big":
		target = 600 * 1024
	}
	if target > 0 && firstBody >= 0 {
		cur := total()
		if hasID {
			cur += IDLineLen
		}
		need := target - cur
		var pad bytes.Buffer
		for need > 200 {
			nl := b.nl()
			pad.WriteString(strings.Repeat("p", 100-len(nl)))
			pad.WriteString(nl)
			need -= 100
		}
		if need >= 3 {
			nl := b.nl()
			pad.WriteString(strings.Repeat("q", need-len(nl)))
			pad.WriteString(nl)
		}
		out.Chunks[firstBody] = append(pad.Bytes(), out.Chunks[firstBody]...)
	}
	if sh.Bnd == "nofinalnl" {
		for i := len(out.Chunks) - 1; i >= 0; i-- {
			c := out.Chunks[i]
			if len(c) == 0 {
				continue
			}
			if bytes.HasSuffix(c, []byte("\r\n")) {
				out.Chunks[i] = c[:len(c)-2]
			} else if bytes.HasSuffix(c, []byte("\n")) {
				out.Chunks[i] = c[:len(c)-1]
			}
			break
		}
	}
	if sh.Dmg == "cutpart" {
		keep := total() * 6 / 10
		for i := range out.Chunks {
			if keep >= len(out.Chunks[i]) {
				keep -= len(out.Chunks[i])
				continue
			}
			out.Chunks[i] = out.Chunks[i][:keep]
			keep = 0
		}
	}
	out.assemble()
	return out
}

func (o *Built) assemble() {
	var buf bytes.Buffer
	for _, c := range o.Chunks {
		buf.Write(c)
	}
	o.Bytes = buf.Bytes()
}

// Appended returns the bytes to hand to APPEND: the message without the id line.
func (o *Built) Appended() []byte {
	var buf bytes.Buffer
	for i, c := range o.Chunks {
		if i != o.IDLine {
			buf.Write(c)
		}
	}
	return buf.Bytes()
}

// SetIDLine gives the idline chunk its bytes (read back from the server).
func (o *Built) SetIDLine(line []byte) {
	if o.IDLine >= 0 {
		o.Chunks[o.IDLine] = append([]byte{}, line...)
		o.assemble()
	}
}

// Offset of the start of chunk i (0-based) in Bytes; Offset(len(Chunks)) = len(Bytes).
func (o *Built) Offset(i int) int {
	n := 0
	for j := 0; j < i && j < len(o.Chunks); j++ {
		n += len(o.Chunks[j])
	}
	return n
}

// Value concatenates the chunks with the given 1-based indexes (a section value of the specification).
func (o *Built) Value(idx []int) []byte {
	var buf bytes.Buffer
	for _, i := range idx {
		if i >= 1 && i <= len(o.Chunks) {
			buf.Write(o.Chunks[i-1])
		}
	}
	return buf.Bytes()
}

// RangeBytes returns the bytes of the chunk range [lo,hi] (1-based, inclusive); <<0,0>> is empty.
// It also returns the byte offset of the range start (-1 for an empty range without position).
func (o *Built) RangeBytes(r [2]int) ([]byte, int) {
	if r[0] == 0 {
		return nil, -1
	}
	from := o.Offset(r[0] - 1)
	to := o.Offset(r[1])
	return o.Bytes[from:to], from
}

// TextLines is the specification's definition of "size in text lines" of a byte string:
// the number of line terminators, plus one for a last line that is not terminated.
func TextLines(b []byte) int {
	n := bytes.Count(b, []byte("\n"))
	if len(b) > 0 && b[len(b)-1] != '\n' {
		n++
	}
	return n
}

// SectionText renders a section for a FETCH: BODY.PEEK[<text>]. variant changes the case of
// field names (the specification's names are canonical).
func SectionText(s Sect, fields []string, variant int) string {
	var parts []string
	for _, p := range s.Path {
		parts = append(parts, strconv.Itoa(p))
	}
	switch s.Kind {
	case "HEADER", "TEXT", "MIME":
		parts = append(parts, s.Kind)
	case "FIELDS", "NOT":
		fs := make([]string, len(fields))
		for i, f := range fields {
			switch (variant + i) % 3 {
			case 1:
				f = strings.ToUpper(f)
			case 2:
				f = strings.ToLower(f)
			}
			fs[i] = f
		}
		k := "HEADER.FIELDS"
		if s.Kind == "NOT" {
			k = "HEADER.FIELDS.NOT"
		}
		parts = append(parts, k+" ("+strings.Join(fs, " ")+")")
	}
	return strings.Join(parts, ".")
}

// MustJSON is a helper for replay objects.
func MustJSON(v interface{}) json.RawMessage {
	b, _ := json.Marshal(v)
	return b
}

func kindOf(n *Tree) string {
	if n.K == "emb" && len(n.Kids) == 1 {
		return "emb(" + n.Kids[0].K + ")"
	}
	return n.K
}

// PathCtx describes a section path by the kinds of the nodes it goes through, for failure
// signatures: e.g. "multi.emb.own(leaf)" = second level part 1 of a message/rfc822 whose message is
// not a multipart. It is a label only; nothing is compared with it.
func PathCtx(t *Tree, path []int) string {
	var msg func(t *Tree, path []int) string
	var node func(n *Tree, rest []int) string
	node = func(n *Tree, rest []int) string {
		if len(rest) == 0 {
			return kindOf(n)
		}
		switch n.K {
		case "multi":
			if rest[0] >= 1 && rest[0] <= len(n.Kids) {
				return "multi." + node(n.Kids[rest[0]-1], rest[1:])
			}
		case "emb":
			return "emb." + msg(n.Kids[0], rest)
		}
		return "?"
	}
	msg = func(t *Tree, path []int) string {
		if len(path) == 0 {
			return "top"
		}
		if t.K == "multi" {
			return node(t, path)
		}
		if len(path) == 1 {
			return "own(" + kindOf(t) + ")"
		}
		if t.K == "emb" {
			return "own(emb)." + msg(t.Kids[0], path[1:])
		}
		return "?"
	}
	return msg(t, path)
}
