// Package tlc runs the TLC model checker on the specifications under /verif/spec and
// parses what it prints. TLC is the only oracle of the framework: everything the Go
// side compares real behaviour with comes out of a TLC run through this package.
package tlc

import (
	"bufio"
	"context"
	"encoding/json"
	"fmt"
	"io"
	"os"
	"os/exec"
	"path/filepath"
	"regexp"
	"strconv"
	"strings"
	"syscall"
	"time"
)

const (
	jar     = "/opt/veriftools/tla/tla2tools.jar"
	depsJar = "/opt/veriftools/tla/CommunityModules-deps.jar"
)

// Options describes one TLC run.
type Options struct {
	SpecDir string // directory holding the .tla files (copied to a scratch dir)
	Module  string // module name without .tla
	Cfg     string // path of the cfg file (copied as <Module>.cfg)
	CfgText string // alternative to Cfg: literal cfg content
	Workers int    // default 8
	Timeout time.Duration
	HeapGB  int // default 8

	Simulate bool
	SimNum   int
	SimDepth int
	Seed     int64

	Deque               bool   // depth-first state queue (trace validation)
	DumpTrace           string // file name (inside scratch) for -dumpTrace json
	Coverage            bool
	ExtraFiles          map[string][]byte // written into the scratch dir before the run (trace.ndjson, ...)
	MaxDepth            int               // -depth for BFS (unused when 0)
	ContinueOnViolation bool              // -continue

	// OnJSON is called for every line TLC prints that is a JSON document (PrintT(ToJson(..))).
	OnJSON func(raw []byte)
	// KeepOutput keeps the non-JSON output (bounded) in Result.Output.
	KeepOutput bool
}

// Result is what a run reported.
type Result struct {
	Generated     int64
	Distinct      int64
	Depth         int
	Finished      bool // "Model checking completed" or simulation finished
	TimedOut      bool
	Violated      string // name of violated invariant / property ("" if none)
	ViolationKind string // "invariant" | "action" | "temporal" | "deadlock" | "postcondition" | "assert"
	PostFalse     bool   // POSTCONDITION evaluated to FALSE
	Error         string // TLC reported an evaluation / parse error
	JSONLines     int64
	Output        string
	Wall          time.Duration
	ExitCode      int
	Scratch       string           // scratch dir (removed unless KeepScratch)
	TraceJSON     []byte           // content of the -dumpTrace json file, if any
	Coverage      map[string]int64 // action name -> distinct states found through it (when Coverage)
	Cmd           string
}

var (
	reStates    = regexp.MustCompile(`^(\d+) states generated, (\d+) distinct states found`)
	reDepth     = regexp.MustCompile(`^The depth of the complete state graph search is (\d+)`)
	reInv       = regexp.MustCompile(`^Error: Invariant (\S+) is violated`)
	reAct       = regexp.MustCompile(`^Error: Action property (\S+) is violated`)
	reActLine   = regexp.MustCompile(`^Error: Action property line`)
	reTemporal  = regexp.MustCompile(`^Error: Temporal properties were violated`)
	reDeadlock  = regexp.MustCompile(`^Error: Deadlock reached`)
	rePost      = regexp.MustCompile(`POSTCONDITION .* (is|evaluated to) (FALSE|false)|Error: The postcondition .* (violated|false)`)
	reErr       = regexp.MustCompile(`^Error: (.*)`)
	reCov       = regexp.MustCompile(`^<(\w+) line \d+, col \d+ to line \d+, col \d+ of module (\w+)>: (\d+):(\d+)`)
	reSimStates = regexp.MustCompile(`^The number of states generated: (\d+)`)
	reSimProg   = regexp.MustCompile(`^Progress: (\d+) states checked, (\d+) traces generated`)
	reProgress  = regexp.MustCompile(`^Progress\(\d+\) at .*: ([\d,]+) states generated.*, ([\d,]+) distinct states found`)
)

// Run executes TLC. It never returns an error for a property violation; err is for
// "the tool could not be run".
func Run(o Options) (*Result, error) {
	if o.Workers == 0 {
		o.Workers = 8
	}
	if o.Timeout == 0 {
		o.Timeout = 10 * time.Minute
	}
	if o.HeapGB == 0 {
		o.HeapGB = 8
	}
	scratch, err := os.MkdirTemp("", "verif-tlc-")
	if err != nil {
		return nil, err
	}
	defer os.RemoveAll(scratch)

	ents, err := os.ReadDir(o.SpecDir)
	if err != nil {
		return nil, err
	}
	for _, e := range ents {
		if e.IsDir() || !strings.HasSuffix(e.Name(), ".tla") {
			continue
		}
		b, err := os.ReadFile(filepath.Join(o.SpecDir, e.Name()))
		if err != nil {
			return nil, err
		}
		if err := os.WriteFile(filepath.Join(scratch, e.Name()), b, 0o644); err != nil {
			return nil, err
		}
	}
	cfgText := o.CfgText
	if cfgText == "" {
		b, err := os.ReadFile(o.Cfg)
		if err != nil {
			return nil, err
		}
		cfgText = string(b)
	}
	if err := os.WriteFile(filepath.Join(scratch, o.Module+".cfg"), []byte(cfgText), 0o644); err != nil {
		return nil, err
	}
	for n, b := range o.ExtraFiles {
		if err := os.WriteFile(filepath.Join(scratch, n), b, 0o644); err != nil {
			return nil, err
		}
	}

	// TLC unpacks its standard modules into java.io.tmpdir/tlc-<n> and leaves them there: keep them inside the scratch directory
	jtmp := filepath.Join(scratch, "jtmp")
	_ = os.MkdirAll(jtmp, 0o755)
	args := []string{"-XX:+UseParallelGC", fmt.Sprintf("-Xmx%dg", o.HeapGB), "-Xss64m", "-Djava.io.tmpdir=" + jtmp}
	if o.Deque {
		args = append(args, "-Dtlc2.tool.queue.IStateQueue=StateDeque")
	}
	args = append(args, "-cp", jar+":"+depsJar, "tlc2.TLC",
		"-workers", strconv.Itoa(o.Workers), "-metadir", filepath.Join(scratch, "md"),
		"-config", o.Module+".cfg", "-noGenerateSpecTE")
	if o.Simulate {
		sim := "num=" + strconv.Itoa(o.SimNum)
		args = append(args, "-simulate", sim, "-depth", strconv.Itoa(o.SimDepth), "-seed", strconv.FormatInt(o.Seed, 10))
	} else if o.MaxDepth > 0 {
		args = append(args, "-depth", strconv.Itoa(o.MaxDepth))
	}
	if o.DumpTrace != "" {
		args = append(args, "-dumpTrace", "json", o.DumpTrace)
	}
	if o.Coverage {
		args = append(args, "-coverage", "1")
	}
	if o.ContinueOnViolation {
		args = append(args, "-continue")
	}
	args = append(args, o.Module+".tla")

	ctx, cancel := context.WithTimeout(context.Background(), o.Timeout)
	defer cancel()
	cmd := exec.CommandContext(ctx, "java", args...)
	cmd.Dir = scratch
	cmd.SysProcAttr = &syscall.SysProcAttr{Setpgid: true}
	cmd.Cancel = func() error { return syscall.Kill(-cmd.Process.Pid, syscall.SIGKILL) }
	cmd.Env = append(os.Environ(), "JAVA_TOOL_OPTIONS=")
	stdout, err := cmd.StdoutPipe()
	if err != nil {
		return nil, err
	}
	cmd.Stderr = cmd.Stdout
	res := &Result{Coverage: map[string]int64{}, Cmd: "java " + strings.Join(args, " ")}
	start := time.Now()
	if err := cmd.Start(); err != nil {
		return nil, err
	}
	var out strings.Builder
	rd := bufio.NewReaderSize(stdout, 1<<20)
	for {
		line, err := readLine(rd)
		if len(line) > 0 {
			res.handleLine(line, &o, &out)
		}
		if err != nil {
			break
		}
	}
	werr := cmd.Wait()
	res.Wall = time.Since(start)
	if ctx.Err() == context.DeadlineExceeded {
		res.TimedOut = true
	}
	if werr != nil {
		if ee, ok := werr.(*exec.ExitError); ok {
			res.ExitCode = ee.ExitCode()
		} else {
			res.ExitCode = -1
		}
	}
	res.Output = out.String()
	if o.DumpTrace != "" {
		if b, err := os.ReadFile(filepath.Join(scratch, o.DumpTrace)); err == nil {
			res.TraceJSON = b
		}
	}
	return res, nil
}

func readLine(rd *bufio.Reader) ([]byte, error) {
	var buf []byte
	for {
		part, isPrefix, err := rd.ReadLine()
		buf = append(buf, part...)
		if err != nil {
			if err == io.EOF && len(buf) > 0 {
				return buf, err
			}
			return buf, err
		}
		if !isPrefix {
			return buf, nil
		}
	}
}

func (r *Result) handleLine(line []byte, o *Options, out *strings.Builder) {
	if len(line) > 2 && line[0] == '"' && (line[1] == '{' || line[1] == '[') {
		s, err := strconv.Unquote(string(line))
		if err == nil {
			r.JSONLines++
			if o.OnJSON != nil {
				o.OnJSON([]byte(s))
			}
			return
		}
		// TLC escapes are a subset of Go's; fall through if not
	}
	s := string(line)
	if out.Len() < 1<<20 {
		out.WriteString(s)
		out.WriteByte('\n')
	}
	switch {
	case reStates.MatchString(s):
		m := reStates.FindStringSubmatch(s)
		r.Generated, _ = strconv.ParseInt(m[1], 10, 64)
		r.Distinct, _ = strconv.ParseInt(m[2], 10, 64)
	case reProgress.MatchString(s):
		m := reProgress.FindStringSubmatch(s)
		r.Generated, _ = strconv.ParseInt(strings.ReplaceAll(m[1], ",", ""), 10, 64)
		r.Distinct, _ = strconv.ParseInt(strings.ReplaceAll(m[2], ",", ""), 10, 64)
	case reSimStates.MatchString(s):
		r.Generated, _ = strconv.ParseInt(reSimStates.FindStringSubmatch(s)[1], 10, 64)
	case reSimProg.MatchString(s):
		r.Generated, _ = strconv.ParseInt(reSimProg.FindStringSubmatch(s)[1], 10, 64)
	case reDepth.MatchString(s):
		r.Depth, _ = strconv.Atoi(reDepth.FindStringSubmatch(s)[1])
	case strings.HasPrefix(s, "Model checking completed") || strings.HasPrefix(s, "Finished in"):
		r.Finished = true
	case reInv.MatchString(s):
		r.Violated, r.ViolationKind = reInv.FindStringSubmatch(s)[1], "invariant"
	case reAct.MatchString(s):
		r.Violated, r.ViolationKind = reAct.FindStringSubmatch(s)[1], "action"
	case reActLine.MatchString(s):
		r.Violated, r.ViolationKind = "action-property", "action"
	case reTemporal.MatchString(s):
		r.Violated, r.ViolationKind = "temporal", "temporal"
	case reDeadlock.MatchString(s):
		r.Violated, r.ViolationKind = "deadlock", "deadlock"
	case rePost.MatchString(s):
		r.PostFalse = true
	case reCov.MatchString(s):
		m := reCov.FindStringSubmatch(s)
		n, _ := strconv.ParseInt(m[4], 10, 64)
		r.Coverage[m[1]] += n
	case reErr.MatchString(s):
		if r.Error == "" && r.Violated == "" {
			r.Error = reErr.FindStringSubmatch(s)[1]
		}
	}
}

// DumpedTrace is the JSON TLC writes with -dumpTrace json.
type DumpedTrace struct {
	State []json.RawMessage `json:"state"`
}

// Sany parses a module (syntax + semantic check) and returns the tool output on failure.
func Sany(specDir, module string) error {
	cmd := exec.Command("java", "-cp", jar+":"+depsJar, "tla2sany.SANY", module+".tla")
	cmd.Dir = specDir
	b, err := cmd.CombinedOutput()
	if err != nil || strings.Contains(string(b), "*** Errors") || strings.Contains(string(b), "Fatal errors") {
		return fmt.Errorf("sany %s: %v\n%s", module, err, b)
	}
	return nil
}
