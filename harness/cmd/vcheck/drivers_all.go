package main

// Every driver package registers itself in drivers.Registry from init().
import (
	_ "github.com/ProtonMail/gluon/verif/drivers/c03"
	_ "github.com/ProtonMail/gluon/verif/drivers/c16"
	_ "github.com/ProtonMail/gluon/verif/drivers/selftest"
)
