// vcheck <id> <quick|thorough> [--replay file]
package main

import (
	"fmt"
	"os"
	"sort"

	"github.com/ProtonMail/gluon/verif/drivers"
	"github.com/ProtonMail/gluon/verif/pkg/ev"
	"github.com/ProtonMail/gluon/verif/pkg/fixture"
)

func main() {
	if len(os.Args) < 2 {
		usage()
	}
	id := os.Args[1]
	if id == "__serve" {
		fixture.ServeChild()
		return
	}
	tier := "quick"
	replay := ""
	for i := 2; i < len(os.Args); i++ {
		switch os.Args[i] {
		case "quick", "thorough":
			tier = os.Args[i]
		case "--replay":
			if i+1 < len(os.Args) {
				replay = os.Args[i+1]
				i++
			}
		}
	}
	if t := os.Getenv("VERIF_TIER"); t == "quick" || t == "thorough" {
		if len(os.Args) < 3 {
			tier = t
		}
	}
	e, ok := drivers.Registry[id]
	if !ok {
		usage()
	}
	run := ev.New(e.ID, tier, e.Level)
	func() {
		defer func() {
			if p := recover(); p != nil {
				run.Machinery("harness panic: %v", p)
			}
		}()
		e.Fn(run, tier, replay)
	}()
	os.Exit(run.Finish())
}

func usage() {
	ids := make([]string, 0)
	for k := range drivers.Registry {
		ids = append(ids, k)
	}
	sort.Strings(ids)
	fmt.Fprintf(os.Stderr, "usage: vcheck <id> <quick|thorough> [--replay file]\nknown ids: %v\n", ids)
	os.Exit(2)
}
