// vcheck <id> <quick|thorough> [--replay file]
package main

import (
	"encoding/json"
	"fmt"
	"os"
	"os/exec"
	"path/filepath"
	"runtime/debug"
	"sort"
	"strconv"
	"sync"

	"github.com/ProtonMail/gluon/verif/drivers"
	"github.com/ProtonMail/gluon/verif/pkg/ev"
	"github.com/ProtonMail/gluon/verif/pkg/fixture"
)

func main() {
	if len(os.Args) < 2 {
		usage()
	}
	id := os.Args[1]
	if id == "__serve" {
		fixture.ServeChild()
		return
	}
	tier := "quick"
	replay := ""
	for i := 2; i < len(os.Args); i++ {
		switch os.Args[i] {
		case "quick", "thorough":
			tier = os.Args[i]
		case "--replay":
			if i+1 < len(os.Args) {
				replay = os.Args[i+1]
				i++
			}
		}
	}
	if t := os.Getenv("VERIF_TIER"); t == "quick" || t == "thorough" {
		if len(os.Args) < 3 {
			tier = t
		}
	}
	e, ok := drivers.Registry[id]
	if !ok {
		usage()
	}
	run := ev.New(e.ID, tier, e.Level)
	if part := os.Getenv("VERIF_PARTIAL"); part != "" {
		// shard process: do the work, hand the results to the parent
		func() {
			defer func() {
				if p := recover(); p != nil {
					run.Machinery("harness panic in shard: %v\n%s", p, debug.Stack())
				}
			}()
			e.Fn(run, tier, replay)
		}()
		if err := run.WritePartial(part); err != nil {
			fmt.Fprintln(os.Stderr, "shard:", err)
			os.Exit(2)
		}
		os.Exit(0)
	}
	shards := e.ShardsQuick
	if tier == "thorough" {
		shards = e.ShardsThorough
	}
	if shards > 1 && replay == "" {
		os.Exit(runSharded(run, e, tier, shards))
	}
	func() {
		defer func() {
			if p := recover(); p != nil {
				run.Machinery("harness panic: %v\n%s", p, debug.Stack())
			}
		}()
		e.Fn(run, tier, replay)
	}()
	os.Exit(run.Finish())
}

func usage() {
	ids := make([]string, 0)
	for k := range drivers.Registry {
		ids = append(ids, k)
	}
	sort.Strings(ids)
	fmt.Fprintf(os.Stderr, "usage: vcheck <id> <quick|thorough> [--replay file]\nknown ids: %v\n", ids)
	os.Exit(2)
}

// runSharded runs the check in n worker processes and merges what they found.
func runSharded(run *ev.Run, e drivers.Entry, tier string, n int) int {
	id := e.ID
	dir, err := os.MkdirTemp("", "verif-shards-")
	if err != nil {
		run.Machinery("%v", err)
		return run.Finish()
	}
	defer os.RemoveAll(dir)
	if e.Prepare != nil {
		if err := e.Prepare(tier, dir); err != nil {
			run.Machinery("prepare: %v", err)
			return run.Finish()
		}
	}
	exe, _ := os.Executable()
	var wg sync.WaitGroup
	outs := make([][]byte, n)
	errs := make([]error, n)
	for k := 0; k < n; k++ {
		wg.Add(1)
		go func(k int) {
			defer wg.Done()
			cmd := exec.Command(exe, id, tier)
			cmd.Env = append(os.Environ(), "VERIF_SHARD="+strconv.Itoa(k), "VERIF_SHARDS="+strconv.Itoa(n),
				"VERIF_PARTIAL="+filepath.Join(dir, strconv.Itoa(k)+".json"), "VERIF_SHARED_DIR="+dir)
			outs[k], errs[k] = cmd.CombinedOutput()
		}(k)
	}
	wg.Wait()
	for k := 0; k < n; k++ {
		b, err := os.ReadFile(filepath.Join(dir, strconv.Itoa(k)+".json"))
		if err != nil {
			tail := string(outs[k])
			if len(tail) > 3000 {
				tail = tail[len(tail)-3000:]
			}
			run.Machinery("shard %d produced no result (%v): %s", k, errs[k], tail)
			continue
		}
		var p ev.Partial
		if err := json.Unmarshal(b, &p); err != nil {
			run.Machinery("shard %d: %v", k, err)
			continue
		}
		run.Merge(&p)
	}
	run.Set("worker_processes", n)
	return run.Finish()
}
