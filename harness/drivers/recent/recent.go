// Package recent binds GluonRecent.tla (the \Recent flag, which GluonCore leaves out) to the real server: behaviours of
// two sessions that select / examine / leave one mailbox while messages arrive in it (APPEND to the selected or to a
// non-selected mailbox, COPY, MOVE, the connector's MessagesCreated), with the arrivals delivered one at a time through
// the update gate and flushed by NOOP. The model predicts every EXISTS / RECENT announcement and which positions a
// FETCH shows with \Recent; a difference is a drift of the specification (counted; too many decide nothing). The verdict
// of C01 is its own predicate on real data: within one selection a message never gains or loses \Recent once the
// client has learned its flags (nothing announces such a change).
package recent

import (
	"encoding/json"
	"fmt"
	"path/filepath"
	"regexp"
	"sort"
	"strconv"
	"strings"
	"time"

	"github.com/ProtonMail/gluon/imap"
	"github.com/ProtonMail/gluon/verif/pkg/core"
	"github.com/ProtonMail/gluon/verif/pkg/ev"
	"github.com/ProtonMail/gluon/verif/pkg/fixture"
	"github.com/ProtonMail/gluon/verif/pkg/tlc"
	"github.com/ProtonMail/gluon/verif/pkg/wire"
)

type step struct {
	Act    string `json:"act"`
	S      string `json:"s"`
	K      string `json:"k"`
	Exists int    `json:"exists"`
	Recent int    `json:"recent"`
	Shown  []bool `json:"shown"`
}

type trace struct {
	Src   string `json:"src"`
	Steps []step `json:"trace"`
}

func (t *trace) sig() string {
	var b strings.Builder
	for _, s := range t.Steps {
		fmt.Fprintf(&b, "%s.%s.%s ", s.Act[:2], s.S, s.K)
	}
	return b.String()
}

func lit(tag string) []byte {
	return []byte("From: v@verif.test\r\nDate: Mon, 7 Feb 1994 21:52:25 -0800\r\nSubject: " + tag + "\r\n\r\nbody " + tag + "\r\n")
}

var reNum = regexp.MustCompile(`^\* (\d+) (EXISTS|RECENT)$`)

// announced: the EXISTS / RECENT counts among untagged lines (0 = no such line; -1 = "* 0 ...")
func announced(ls []wire.Line) (exists, recent int, hasE, hasR bool) {
	for _, l := range ls {
		if m := reNum.FindStringSubmatch(l.Text); m != nil {
			n, _ := strconv.Atoi(m[1])
			if m[2] == "EXISTS" {
				exists, hasE = n, true
			} else {
				recent, hasR = n, true
			}
		}
	}
	return
}

// Run is called by the C01 check (one worker).
func Run(r *ev.Run, tier string) {
	specDir := filepath.Join(ev.Root(), "spec")
	res, err := tlc.Run(tlc.Options{SpecDir: specDir, Module: "GluonRecent", Cfg: filepath.Join(specDir, "cfg", "GluonRecent.mc.cfg"), Workers: 4, Timeout: 10 * time.Minute, KeepOutput: true})
	if err != nil || res.Violated != "" || res.Error != "" || !res.Finished {
		r.Machinery("TLC on GluonRecent.mc.cfg: err=%v violated=%q error=%q (model-level, not a verdict)", err, res.Violated, res.Error)
		return
	}
	r.Add("states", res.Distinct)
	r.Add("transitions", res.Generated)
	res, err = tlc.Run(tlc.Options{SpecDir: specDir, Module: "GluonRecent", Cfg: filepath.Join(specDir, "cfg", "GluonRecent.ascode.one.cfg"), Workers: 1, Timeout: 5 * time.Minute, KeepOutput: true})
	if err != nil || res.Violated != "OneClaimant" {
		r.Machinery("TLC on GluonRecent.ascode.one.cfg was expected to report OneClaimant violated (documented deviation of the code): err=%v violated=%q error=%q", err, res.Violated, res.Error)
		return
	}
	maxAll, simNum := 500, 150
	if tier == "thorough" {
		maxAll, simNum = 0, 4000
	}
	var all []*trace
	res, err = tlc.Run(tlc.Options{SpecDir: specDir, Module: "GluonRecent", Cfg: filepath.Join(specDir, "cfg", "GluonRecent.all4.cfg"), Workers: 2, Timeout: 10 * time.Minute, KeepOutput: true,
		OnJSON: func(raw []byte) {
			var t trace
			if json.Unmarshal(raw, &t) == nil && len(t.Steps) > 0 {
				t.Src = "GluonRecent.all4.cfg"
				all = append(all, &t)
			}
		}})
	if err != nil || res.Violated != "" || res.Error != "" || !res.Finished || len(all) == 0 {
		r.Machinery("TLC on GluonRecent.all4.cfg: err=%v violated=%q error=%q behaviours=%d", err, res.Violated, res.Error, len(all))
		return
	}
	r.Add("states", res.Distinct)
	r.Add("transitions", res.Generated)
	r.Add("recent_behaviours_enumerated", int64(len(all)))
	sort.Slice(all, func(i, j int) bool { return all[i].sig() < all[j].sig() })
	// only behaviours in which something arrives say anything about \Recent
	var interesting []*trace
	for _, t := range all {
		for _, s := range t.Steps {
			if s.Act == "Arrive" {
				interesting = append(interesting, t)
				break
			}
		}
	}
	all = interesting
	if maxAll > 0 && len(all) > maxAll {
		sel := make([]*trace, 0, maxAll)
		off := int(ev.Seed()) % len(all)
		for i := 0; i < maxAll; i++ {
			sel = append(sel, all[(off+i*len(all)/maxAll)%len(all)])
		}
		all = sel
	}
	var sims []*trace
	res, err = tlc.Run(tlc.Options{SpecDir: specDir, Module: "GluonRecent", Cfg: filepath.Join(specDir, "cfg", "GluonRecent.sim.cfg"), Workers: 1, Simulate: true, SimNum: simNum / 8, SimDepth: 12,
		Seed: ev.Seed()*7919 + 13, Timeout: 10 * time.Minute, KeepOutput: true,
		OnJSON: func(raw []byte) {
			var t trace
			if len(sims) < simNum && json.Unmarshal(raw, &t) == nil && len(t.Steps) > 0 {
				t.Src = "GluonRecent.sim.cfg"
				sims = append(sims, &t)
			}
		}})
	if err != nil || res.Violated != "" || res.Error != "" || len(sims) == 0 {
		r.Machinery("TLC simulation of GluonRecent.sim.cfg: err=%v violated=%q error=%q behaviours=%d", err, res.Violated, res.Error, len(sims))
		return
	}
	r.Add("states_visited_in_simulation", res.Generated)
	replayAll(r, append(all, sims...))
}

// ReplayFile re-executes one recorded behaviour.
func ReplayFile(r *ev.Run, raw json.RawMessage) bool {
	var t trace
	if json.Unmarshal(raw, &t) != nil || len(t.Steps) == 0 {
		return false
	}
	replayAll(r, []*trace{&t})
	return true
}

var driftExamples int

type sess struct {
	name  string
	c     *wire.Client
	id    int64
	src   string         // the session's own source mailbox (COPY / MOVE from there; "not selected" in the model)
	inA   bool           // A selected
	known map[int]string // position -> "T"/"F": \Recent as a FETCH of this selection showed it
	count int
}

func replayAll(r *ev.Run, traces []*trace) bool {
	g := core.NewGate()
	defer g.Release()
	conn := fixture.NewVConn(map[string]string{"user": "pass"})
	srv, err := fixture.StartServer(fixture.Config{Users: []fixture.User{{Name: "user", Pass: "pass", Conn: conn}}})
	if err != nil {
		r.Machinery("recent: cannot start a server: %v", err)
		return false
	}
	defer func() { _ = srv.Close(20 * time.Second); srv.RemoveDir() }()
	login := func(gated bool) (*wire.Client, int64, error) {
		g.SetGateNext(gated)
		defer g.SetGateNext(false)
		w, err := wire.Dial(srv.Addr)
		if err != nil {
			return nil, 0, err
		}
		if res := w.Login("user", "pass"); res.Status != "OK" {
			return nil, 0, fmt.Errorf("login: %s %s", res.Status, res.Text)
		}
		id, _ := g.LastState()
		return w, id, nil
	}
	aux, _, err := login(false)
	if err != nil {
		r.Machinery("recent: %v", err)
		return false
	}
	defer aux.Close()
	drifts := 0
	for ti, t := range traces {
		ok, drifted := replayOne(r, g, conn, aux, login, ti, t)
		if !ok {
			return false
		}
		if drifted {
			drifts++
		}
	}
	r.Add("recent_drifted_behaviours", int64(drifts))
	if len(traces) >= 10 && drifts*5 > len(traces) {
		r.Machinery("%d of %d behaviours of GluonRecent left the specification: it no longer describes the code; this part of the run decides nothing", drifts, len(traces))
	}
	return true
}

func replayOne(r *ev.Run, g *core.Gate, conn *fixture.VConn, aux *wire.Client, login func(bool) (*wire.Client, int64, error), ti int, t *trace) (ok, drifted bool) {
	boxA := fmt.Sprintf("ra%d", ti)
	var log []string
	logf := func(f string, a ...interface{}) { log = append(log, fmt.Sprintf(f, a...)) }
	mach := func(f string, a ...interface{}) (bool, bool) {
		r.Machinery("recent (%s #%d): %s\n  %s", t.Src, ti, fmt.Sprintf(f, a...), strings.Join(log, "\n  "))
		return false, false
	}
	drift := func(f string, a ...interface{}) {
		if !drifted {
			drifted = true
			r.Add("recent_drift", 1)
			if driftExamples < 5 {
				driftExamples++
				r.Set(fmt.Sprintf("recent_drift_example_%d", driftExamples), map[string]interface{}{"drift": fmt.Sprintf(f, a...), "source": t.Src, "concrete": append([]string{}, log...)})
			}
		}
		logf("      (drift: %s)", fmt.Sprintf(f, a...))
	}
	boxes := []string{boxA, boxA + "s1", boxA + "s2"}
	for _, b := range boxes {
		if res := aux.Cmd("CREATE " + b); res.Status != "OK" {
			return mach("CREATE %s: %s %s", b, res.Status, res.Text)
		}
	}
	defer func() {
		for _, b := range boxes {
			aux.Cmd("DELETE " + b)
		}
	}()
	if res := aux.Append(boxA, "", lit(fmt.Sprintf("old-%d", ti))); res.Status != "OK" {
		return mach("APPEND: %s %s", res.Status, res.Text)
	}
	for _, b := range boxes[1:] {
		for i := 1; i <= 3; i++ {
			if res := aux.Append(b, "", lit(fmt.Sprintf("%s-%d", b, i))); res.Status != "OK" {
				return mach("APPEND: %s %s", res.Status, res.Text)
			}
		}
	}
	// a SELECT clears the recent bits: the old message of A is not recent, the supplies are not either
	for _, b := range boxes {
		aux.Cmd("SELECT " + b)
	}
	aux.Cmd("UNSELECT")
	var ridA imap.MailboxID
	for id, name := range conn.Mailboxes {
		if len(name) == 1 && name[0] == boxA {
			ridA = id
		}
	}
	ss := map[string]*sess{}
	for _, n := range []string{"s1", "s2"} {
		c, id, err := login(true)
		if err != nil {
			return mach("%v", err)
		}
		defer c.Close()
		s := &sess{name: n, c: c, id: id, src: boxA + n, known: map[int]string{}}
		if res := c.Cmd("SELECT " + s.src); res.Status != "OK" {
			return mach("SELECT %s: %s %s", s.src, res.Status, res.Text)
		}
		ss[n] = s
	}
	nextSrc := map[string]int{"s1": 1, "s2": 1} // UID of the next unused supply message
	narr := 0
	for i, st := range t.Steps {
		s := ss[st.S]
		switch st.Act {
		case "Select", "Examine":
			verb := strings.ToUpper(st.Act)
			res := s.c.Cmd(verb + " " + boxA)
			if res.Status != "OK" {
				return mach("%s: %s %s", verb, res.Status, res.Text)
			}
			e, rc, _, _ := announced(res.Untagged)
			logf("[%s] %s %s -> %d EXISTS %d RECENT", s.name, verb, boxA, e, rc)
			s.inA, s.known, s.count = true, map[int]string{}, e
			if e != st.Exists || rc != st.Recent {
				drift("step %d: %s announced %d EXISTS %d RECENT, the specification predicts %d / %d", i+1, verb, e, rc, st.Exists, st.Recent)
			}
		case "Close":
			if res := s.c.Cmd("SELECT " + s.src); res.Status != "OK" {
				return mach("SELECT %s: %s %s", s.src, res.Status, res.Text)
			}
			logf("[%s] SELECT %s (leaves %s)", s.name, s.src, boxA)
			s.inA, s.known = false, map[int]string{}
		case "Arrive":
			narr++
			tag := fmt.Sprintf("arr-%d-%d", ti, narr)
			var res wire.Result
			switch st.K {
			case "append":
				res = s.c.Append(boxA, "", lit(tag))
				logf("[%s] APPEND %s -> %s", s.name, boxA, res.Status)
			case "copy", "move":
				verb := map[string]string{"copy": "UID COPY", "move": "UID MOVE"}[st.K]
				res = s.c.Cmd(fmt.Sprintf("%s %d %s", verb, nextSrc[s.name], boxA))
				logf("[%s] %s %d %s -> %s %s", s.name, verb, nextSrc[s.name], boxA, res.Status, res.Text)
				nextSrc[s.name]++
			case "conn":
				l := lit(tag)
				pm, err := imap.NewParsedMessage(l)
				if err != nil {
					return mach("parse: %v", err)
				}
				rid := imap.MessageID(fmt.Sprintf("conn-%d-%d", ti, narr))
				conn.Messages[rid] = &fixture.VMsg{ID: rid, Literal: l, Flags: imap.NewFlagSet(), Date: time.Unix(760000000, 0), Boxes: map[imap.MailboxID]bool{ridA: true}}
				err = conn.Submit(imap.NewMessagesCreated(false, &imap.MessageCreated{Message: imap.Message{ID: rid, Flags: imap.NewFlagSet(), Date: time.Unix(760000000, 0)},
					Literal: l, MailboxIDs: []imap.MailboxID{ridA}, ParsedMessage: pm}), 20*time.Second)
				logf("[conn] MessagesCreated in %s -> %v", boxA, err)
				if err != nil {
					return mach("MessagesCreated: %v", err)
				}
				res.Status = "OK"
			}
			if res.Status != "OK" {
				return mach("arrival %s: %s %s", st.K, res.Status, res.Text)
			}
			e, rc, hasE, hasR := announced(res.Untagged)
			if hasE || hasR {
				logf("      * %d EXISTS / * %d RECENT (present: %v %v)", e, rc, hasE, hasR)
			}
			if e != st.Exists || rc != st.Recent {
				drift("step %d: the arrival (%s) announced %d EXISTS %d RECENT to its author, the specification predicts %d / %d", i+1, st.K, e, rc, st.Exists, st.Recent)
			}
		case "Deliver":
			for g.Pending(s.id) > 0 && !strings.HasPrefix(g.NextUpdate(s.id), "ExistsStateUpdate") {
				if _, _, err := g.Deliver(s.id); err != nil {
					return mach("deliver: %v", err)
				}
			}
			if g.Pending(s.id) == 0 {
				drift("step %d: nothing is queued for %s, the specification delivers an arrival", i+1, s.name)
				break
			}
			// the removal a MOVE causes in its source mailbox is broadcast as well: not an arrival, no session has that
			// mailbox selected but its author - handed over silently
			for g.Pending(s.id) > 1 && !strings.HasPrefix(g.NextUpdate(s.id), "ExistsStateUpdate") {
				if _, _, err := g.Deliver(s.id); err != nil {
					return mach("deliver: %v", err)
				}
			}
			u, passed, err := g.Deliver(s.id)
			if err != nil {
				return mach("deliver: %v", err)
			}
			logf("[%s] applies %.60s (passed its filter: %v)", s.name, u, passed)
			if passed != (st.K == "applied") {
				drift("step %d: the update passed the filter of %s: %v, the specification says %s", i+1, s.name, passed, st.K)
			}
		case "Noop":
			res := s.c.Cmd("NOOP")
			e, rc, _, _ := announced(res.Untagged)
			logf("[%s] NOOP -> %d EXISTS %d RECENT", s.name, e, rc)
			if e != st.Exists || rc != st.Recent {
				drift("step %d: NOOP announced %d EXISTS %d RECENT, the specification predicts %d / %d", i+1, e, rc, st.Exists, st.Recent)
			}
		case "Fetch":
			res := s.c.Cmd("FETCH 1:* (FLAGS)")
			if res.Status != "OK" {
				drift("step %d: FETCH 1:* (FLAGS) answered %s", i+1, res.Status)
				break
			}
			got := map[int]string{}
			n := 0
			for _, e := range wire.Events(res.Untagged) {
				if e.Kind != "FETCH" || !e.HasFlags {
					continue
				}
				v := "F"
				for _, f := range e.Flags {
					if strings.EqualFold(f, `\Recent`) {
						v = "T"
					}
				}
				got[e.N] = v
				if e.N > n {
					n = e.N
				}
			}
			var show []string
			for p := 1; p <= n; p++ {
				show = append(show, got[p])
			}
			logf("[%s] FETCH 1:* (FLAGS) -> \\Recent per position: %v", s.name, show)
			// C01: what the client learned in this selection stays (nothing announces a change of \Recent)
			for p, v := range s.known {
				if g2, ok := got[p]; ok && g2 != v {
					r.Violate("C01/recent-changed", fmt.Sprintf("step %d: position %d of %s was shown with \\Recent=%s earlier in this selection, now \\Recent=%s, and no untagged FETCH or EXPUNGE announced a change\nbehaviour (%s):\n  %s",
						i+1, p, s.name, v, g2, t.Src, strings.Join(log, "\n  ")), map[string]interface{}{"recent": t})
				}
			}
			for p, v := range got {
				s.known[p] = v
			}
			if len(st.Shown) != n {
				drift("step %d: FETCH shows %d messages, the specification predicts %d", i+1, n, len(st.Shown))
				break
			}
			for p := 1; p <= n; p++ {
				if (got[p] == "T") != st.Shown[p-1] {
					drift("step %d: position %d shown with \\Recent=%s, the specification predicts %v", i+1, p, got[p], st.Shown[p-1])
				}
			}
		}
	}
	// leave nothing behind in the gate
	for _, s := range ss {
		for g.Pending(s.id) > 0 {
			if _, _, err := g.Deliver(s.id); err != nil {
				break
			}
		}
	}
	r.Eval("recent:"+t.Src+":"+t.sig(), true)
	r.Add("traces_validated_against_impl", 1)
	r.Add("recent_behaviours_replayed", 1)
	if ti == 0 {
		r.Sample(map[string]interface{}{"source": t.Src, "concrete": log})
	}
	return true, drifted
}
