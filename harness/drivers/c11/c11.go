// Package c11: arbitrary client bytes never crash, hang or bloat the server.
// TLC enumerates, from spec/GluonSession.tla, every sequence of input classes (malformed line
// classes and a few valid commands) of a bounded length from every protocol phase, and the state
// graph of the consecutive-error counter. The harness instantiates each class with seeded concrete
// byte strings, sends them to a server running in a child process and checks: exactly one
// completion per complete line with the line's tag, the session stays usable, the connection is
// closed exactly at the error limit, a second session keeps answering NOOP, the process neither
// dies nor spins nor grows, and after a client vanished in the middle of a token / string / literal
// new connections are accepted and the CPU time of the server stops growing.
package c11

import (
	"crypto/sha1"
	"encoding/hex"
	"encoding/json"
	"fmt"
	"github.com/ProtonMail/gluon/verif/drivers/c10"
	"math/rand"
	"os"
	"sort"
	"strings"
	"sync"
	"time"

	"github.com/ProtonMail/gluon/verif/drivers"
	"github.com/ProtonMail/gluon/verif/pkg/ev"
	"github.com/ProtonMail/gluon/verif/pkg/fixture"
	"github.com/ProtonMail/gluon/verif/pkg/sess"
)

func init() { drivers.Register("C11", "exploration", run) }

// a server that is still computing gets this long before it is called hung (set per tier)
var busyMax = 150 * time.Second

// the server sits idle (no CPU time used) for two such windows: then it waits for input (set per tier)
var idleWindow = 5 * time.Second

const (
	watch     = 20 * time.Second // no completion within this => the line is not answered ...
	bloatKiB  = 300 * 1024       // growth of the resident set during one line
	spinTicks = 10               // CPU ticks (1/100 s) per second that count as "still running" (an idle server uses 0 to 2)
)

type shared struct {
	mu        sync.Mutex
	silent    map[string]string // signatures whose line is known to stay unanswered (already reported): "silent" | "hang"
	instances map[string]bool
	classes   map[string]bool
	perClass  map[string]int64
	spinDone  map[string]int
	lines     int64
	probes    int64
	eofs      int64
	spinFull  int64
	restarts  int64
	maxRSS    int64
	slowest   time.Duration
	slowLine  string
	spent     map[string]time.Duration // where the wall time of the workers went
}

func (sh *shared) clock(what string, t0 time.Time) {
	sh.mu.Lock()
	if sh.spent == nil {
		sh.spent = map[string]time.Duration{}
	}
	sh.spent[what] += time.Since(t0)
	sh.mu.Unlock()
}

type world struct {
	r      *ev.Run
	sh     *shared
	source string
	srv    *fixture.ChildServer
	conns  map[string]*sess.Conn // the model's sessions: s1 and the watcher w
	rend   *sess.Renderer
	seed   int64
	log    []string
	acts   []sess.Act
	start  string

	heavy    []int
	curB     *sess.Behaviour // the sequence being replayed and the index of the current step
	curK     int
	suspects []suspect       // sequences whose connection was closed since the server was last seen idle
	isolated bool            // this world re-runs one suspect alone: no CPU checks inside the steps
	found    map[string]bool // isolated world: the keys it would have reported
	patient  bool            // isolated world that confirms a clock verdict: no short cuts for known signatures
}

// suspect: a replayed prefix of a sequence, after which the client closed the connection.
type suspect struct {
	b    *sess.Behaviour
	upto int
	seed int64
}

func (s suspect) last() *sess.Act { return &s.b.Trace[s.upto] }

func (s suspect) sig() string {
	l := s.last()
	ph := l.Was
	if l.InIdle {
		ph += "+idle"
	}
	return ph + "/" + l.X
}

func newWorld(r *ev.Run, sh *shared, source string, seed int64) (*world, error) {
	srv, err := fixture.StartChild(fixture.ChildConfig{Users: sess.Accounts(), JailMs: 1})
	if err != nil {
		return nil, err
	}
	w := &world{r: r, sh: sh, source: source, srv: srv, conns: map[string]*sess.Conn{}, seed: seed}
	c, err := sess.Dial(srv.Addr, watch)
	if err != nil {
		srv.Stop()
		return nil, err
	}
	defer c.Close()
	steps := []string{"LOGIN " + sess.UserName["u1"] + " " + sess.UserPass["u1"], "CREATE shared"}
	for _, s := range steps {
		if o := c.Cmd(s, watch); o.Status != "OK" {
			srv.Stop()
			return nil, fmt.Errorf("setup %s: %s", s, o.Brief())
		}
	}
	for i := 0; i < 3; i++ {
		if o := c.CmdLit("APPEND shared", sess.Message("u1", i+1), watch); o.Status != "OK" {
			srv.Stop()
			return nil, fmt.Errorf("setup APPEND: %s", o.Brief())
		}
	}
	if err := w.openWatcher(); err != nil {
		srv.Stop()
		return nil, err
	}
	return w, nil
}

func (w *world) openWatcher() error {
	c, err := sess.Dial(w.srv.Addr, watch)
	if err != nil {
		return err
	}
	if o := c.Cmd("LOGIN "+sess.UserName["u2"]+" "+sess.UserPass["u2"], watch); o.Status != "OK" {
		return fmt.Errorf("watcher login: %s", o.Brief())
	}
	w.conns["w"] = c
	return nil
}

func (w *world) stop() {
	for _, c := range w.conns {
		c.Close()
	}
	w.srv.Stop()
}

// timed: a verdict that rests on a clock (nothing came within ...) is only reported when the same sequence, replayed
// alone on a fresh server, ends in the same verdict again: a machine that stalls does not do so twice at the same line.
func (w *world) timed(key, detail string) bool {
	if w.isolated || w.curB == nil {
		w.violate(key, detail)
		return true
	}
	w.sh.mu.Lock()
	state := w.sh.silent["reported:"+key]
	if state == "" {
		w.sh.silent["reported:"+key] = "pending"
	}
	w.sh.mu.Unlock()
	switch state {
	case "yes": // another occurrence of something that has been through the second run already
		w.violate(key, detail)
		return true
	case "pending": // another worker is at it
		return false
	}
	ok := w.confirmed(key)
	w.sh.mu.Lock()
	if ok {
		w.sh.silent["reported:"+key] = "yes"
	} else {
		delete(w.sh.silent, "reported:"+key)
	}
	w.sh.mu.Unlock()
	if !ok {
		w.r.Add("clock_verdicts_not_confirmed_by_a_second_run", 1)
		w.log = append(w.log, "(not reported, a second run on a fresh server did not show it: "+key+")")
		return false
	}
	w.violate(key, detail)
	return true
}

// confirmed replays the current sequence up to the current step alone on a fresh server.
func (w *world) confirmed(key string) bool {
	defer w.sh.clock("confirm_runs", time.Now())
	nw, err := newWorld(w.r, w.sh, w.source, w.seed)
	if err != nil {
		return true
	}
	defer func() {
		if nw.srv != nil {
			nw.stop()
		}
	}()
	nw.isolated, nw.patient, nw.found = true, true, map[string]bool{}
	nw.rend = sess.NewRenderer(w.seed)
	nw.rend.Heavy, nw.heavy = w.heavy, w.heavy
	nw.start = w.curB.Start
	if nw.prelude("s1", nw.start) != nil {
		return true
	}
	for k := 0; k <= w.curK && k < len(w.curB.Trace); k++ {
		ok, err := nw.step(&w.curB.Trace[k])
		if err != nil || !ok || nw.srv == nil {
			break
		}
	}
	return nw.found[key]
}

func (w *world) violate(key, detail string) {
	if w.isolated {
		if w.found != nil {
			w.found[key] = true
		}
		return
	}
	tail := w.log
	if len(tail) > 10 {
		tail = tail[len(tail)-10:]
	}
	w.r.Violate(key, detail+"\nlast lines of this connection:\n  "+strings.Join(tail, "\n  "),
		map[string]interface{}{"source": w.source, "start": w.start, "render_seed": w.seed, "acts": w.acts})
}

// prelude brings a new connection into the start phase of a behaviour (as u1).
func (w *world) prelude(s, start string) error {
	defer w.sh.clock("preludes", time.Now())
	if c := w.conns[s]; c != nil {
		c.Close()
	}
	c, err := sess.Dial(w.srv.Addr, watch)
	if err != nil {
		return err
	}
	w.conns[s] = c
	if start == "Auth" || start == "Selected" {
		if o := c.Cmd("LOGIN "+sess.UserName["u1"]+" "+sess.UserPass["u1"], watch); o.Status != "OK" {
			return fmt.Errorf("prelude login: %s", o.Brief())
		}
	}
	if start == "Selected" {
		if o := c.Cmd("SELECT shared", watch); o.Status != "OK" {
			return fmt.Errorf("prelude select: %s", o.Brief())
		}
	}
	return nil
}

func hashLine(l *sess.Line) string {
	h := sha1.New()
	for _, c := range l.Chunks {
		h.Write(c)
		h.Write([]byte{0})
	}
	return hex.EncodeToString(h.Sum(nil)[:8])
}

// await sends the line and waits for its completion the patient way: a silent, idle server is given
// idleWindow, a silent computing server up to busyMax. kind: "" (answered), "silent", "hang".
func (w *world) await(c *sess.Conn, line *sess.Line, sig string) (sess.Outcome, string, time.Duration) {
	defer w.sh.clock("waiting_for_completions", time.Now())
	pid := w.srv.Pid()
	w.sh.mu.Lock()
	known := w.sh.silent[sig]
	w.sh.mu.Unlock()
	if w.patient {
		known = "" // a confirmation run takes its time
	}
	t0 := time.Now()
	first := idleWindow
	if known != "" {
		first = 400 * time.Millisecond // the verdict for this signature exists already; do not spend the time again
	}
	sess.StartHeartbeat()
	cpu0 := sess.CPUTicks(pid)
	cpuStart := cpu0
	winStart := time.Now()
	o := c.Do(line, first)
	idleFor := time.Duration(0)
	for o.TimedOut {
		waited := time.Since(t0)
		cpu1 := sess.CPUTicks(pid)
		if cpu1 < 0 || !w.srv.Alive() {
			return o, "", waited
		}
		if known != "" {
			return o, known, waited
		}
		busy := cpu1-cpu0 > int64(first/time.Second)*5+5 // more than ~5% of a core during the window
		if busy || sess.MaxStallSince(winStart) > 500*time.Millisecond || sess.Runnable(pid) {
			// computing - or the machine keeps this process or the server from running: that window says nothing
			idleFor = 0
		} else {
			idleFor += first
		}
		if idleFor >= 2*idleWindow {
			// "waits for input" only if the server answers somebody else promptly right now
			if wc := w.conns["w"]; wc != nil && !wc.Dead() {
				p0 := time.Now()
				if po := wc.Cmd("NOOP", watch); po.Status != "OK" || time.Since(p0) > 2*time.Second {
					idleFor = 0
					goto again
				}
			}
			return o, "silent", waited
		}
	again:
		// hung = still computing after having used the CPU time of busyMax seconds (CPU time, not wall time: a
		// loaded machine makes everything slow, but it does not make a line cost more)
		if busy && cpu1-cpuStart >= int64(busyMax/time.Second)*80 {
			return o, "hang", waited
		}
		if waited >= 20*busyMax {
			return o, "silent", waited
		}
		cpu0 = cpu1
		first = idleWindow
		winStart = time.Now()
		o2 := c.Await(first)
		o2.Untagged = append(o.Untagged, o2.Untagged...)
		o2.Bye = o2.Bye || o.Bye
		o = o2
	}
	return o, "", time.Since(t0)
}

// step sends one input of the model and checks everything the property asks for. It returns false when
// the rest of the behaviour cannot be replayed (connection out of step / server restarted).
func (w *world) step(a *sess.Act) (bool, error) {
	w.acts = append(w.acts, *a)
	phase := a.Was
	if a.InIdle {
		phase += "+idle"
	}
	sig := phase + "/" + a.X
	if a.X == "RECONNECT" {
		if err := w.prelude(a.S, "NotAuth"); err != nil {
			if w.crashed("RECONNECT") {
				return false, nil
			}
			return false, err
		}
		w.log = append(w.log, a.S+": (new connection)")
		return true, nil
	}
	c := w.conns[a.S]
	if c == nil || c.Dead() {
		return false, fmt.Errorf("no open connection for %s at %s", a.S, sig)
	}
	tag := c.NextTag()
	owner := ""
	if a.AsUser != "none" {
		owner = a.AsUser
	}
	line := w.rend.Render(a.X, tag, owner)
	if line == nil {
		return false, fmt.Errorf("no rendering for input class %q", a.X)
	}
	malformed := line.Odd
	w.sh.mu.Lock()
	w.sh.lines++
	w.sh.classes[sig] = true
	w.sh.perClass[a.X]++
	if malformed {
		w.sh.instances[a.X+":"+hashLine(line)] = true
	}
	w.sh.mu.Unlock()
	w.r.Eval(a.X+":"+hashLine(line), malformed)

	rss0 := w.srv.RSSKiB()
	mon := sess.StartMonitor(w.srv.RSSKiB)
	o, kind, waited := w.await(c, line, sig)
	peak := mon.Stop()
	w.log = append(w.log, fmt.Sprintf("%s [%s]: %s  =>  %s", a.S, phase, line.Text, o.Brief()))
	if len(w.log) > 30 {
		w.log = w.log[len(w.log)-15:]
	}
	w.sh.mu.Lock()
	if peak > w.sh.maxRSS {
		w.sh.maxRSS = peak
	}
	if waited > w.sh.slowest && o.Status != "" {
		w.sh.slowest, w.sh.slowLine = waited, sig+" "+clip(line.Text, 60)
	}
	w.sh.mu.Unlock()
	where := fmt.Sprintf("%s (%d bytes) in phase %s", line.Text, line.Size, phase)

	// the process (a dying process may still be writing its goroutine dump)
	if o.Status == "" && o.Closed && !w.srv.WaitExit(100*time.Millisecond) {
		// dropped connection: is the process on its way out? Not if it still answers the watcher.
		if wc := w.conns["w"]; wc == nil || wc.Dead() || wc.Cmd("NOOP", 3*time.Second).Status != "OK" {
			w.srv.WaitExit(5 * time.Second)
		}
	}
	if w.crashed(where) {
		return false, nil
	}
	bloated := peak-rss0 > bloatKiB
	if bloated {
		w.violate(a.X+"/bloat/"+phase, fmt.Sprintf("%s: the resident set of the server grew from %d MiB to %d MiB while it handled a line of %d bytes (%s)",
			where, rss0/1024, peak/1024, line.Size, o.Brief()))
	}
	if kind == "hang" {
		if w.timed(a.X+"/hang/"+phase, fmt.Sprintf("%s: no completion after %v and the server is still using CPU time (resident set %d MiB)", where, waited.Round(time.Second), peak/1024)) {
			w.sh.mu.Lock()
			w.sh.silent[sig] = "hang"
			w.sh.mu.Unlock()
		}
	}
	if bloated || kind == "hang" {
		w.restart()
		return false, nil
	}

	if line.EOF {
		c.Close()
		w.sh.mu.Lock()
		w.sh.eofs++
		w.sh.mu.Unlock()
		ok, err := w.afterDisconnect(sig, where)
		if !ok || err != nil {
			return false, err
		}
		return w.probeOthers(a, sig, where), nil
	}

	insync := true
	switch {
	case kind == "silent":
		if w.timed(a.X+"/no-completion/"+phase, fmt.Sprintf("%s: a complete line, but no completion arrived (%v, server idle: it waits for more input); the specification wants one of %v",
			where, waited.Round(100*time.Millisecond), a.Res)) {
			w.sh.mu.Lock()
			w.sh.silent[sig] = "silent"
			w.sh.mu.Unlock()
		}
		insync = false
	case o.Status == "":
		w.violate(a.X+"/closed/"+phase, fmt.Sprintf("%s: %s; the specification wants one of %v and the connection kept open", where, o.Brief(), a.Res))
		insync = false
	case !a.Allows(o.Status):
		w.violate(a.X+"/result/"+phase, fmt.Sprintf("%s was answered %q; the specification wants one of %v", where, o.Brief(), a.Res))
		insync = false
	default:
		want := tag
		switch a.Tag {
		case "idle":
			want = c.IdleTag
		case "none":
			want = ""
		}
		if !(o.Status == "CONT" || o.Tag == want || (a.Tag == "none" && (o.Tag == "*" || o.Tag == line.First))) {
			w.violate(a.X+"/tag/"+phase, fmt.Sprintf("%s: the completion %q does not carry the tag of the line (%q)", where, o.Brief(), want))
		}
	}
	if insync {
		if o.Status == "CONT" && a.X == "IDLE" {
			c.IdleTag = tag
		} else if a.InIdle {
			c.IdleTag = ""
		}
		if a.Close {
			if end := c.Await(watch); !end.Closed {
				w.timed(a.X+"/not-closed/"+phase, fmt.Sprintf("%s: the specification closes the connection here (LOGOUT or error limit); the server did not (%s)", where, end.Brief()))
				insync = false
			}
			c.Close()
		}
	}
	if !insync {
		// the harness gives this connection up. An unanswered line may have left the server inside a string: end
		// it first, so that the disconnect is not one more stream cut inside a string (that is a class of its own)
		if kind == "silent" {
			if c.Write([]byte("\"\r\n")) == nil {
				c.Await(time.Second)
			}
		}
		c.Close()
		if !w.idleAfterClose(sig) {
			return false, nil
		}
	}
	if !w.probeOthers(a, sig, where) {
		return false, nil
	}
	return insync, nil
}

// probeOthers: every other open session answers NOOP as the model says, whatever this session has sent.
func (w *world) probeOthers(a *sess.Act, sig, where string) bool {
	defer w.sh.clock("other_session_probes", time.Now())
	for t, want := range a.Others {
		c := w.conns[t]
		if len(want) == 0 || c == nil || t == a.S {
			continue
		}
		p0 := time.Now()
		o := c.Cmd("NOOP", watch)
		for try := 0; o.TimedOut && try < 4 && (sess.MaxStallSince(p0) > 500*time.Millisecond || sess.Runnable(w.srv.Pid())); try++ {
			// this process was not scheduled, or the server is waiting for a CPU: the clock said nothing
			p0 = time.Now()
			o = c.Await(watch)
		}
		w.sh.mu.Lock()
		w.sh.probes++
		w.sh.mu.Unlock()
		ok := o.Garbage == ""
		if ok {
			ok = false
			for _, r := range want {
				ok = ok || r == o.Status
			}
		}
		if !ok {
			if w.crashed(where) {
				return false
			}
			w.timed(kindKey(sig, "others-affected"), fmt.Sprintf("after %s on another connection, the NOOP of session %s was answered: %s %s", where, t, o.Brief(), o.Garbage))
			w.restart()
			return false
		}
	}
	return true
}

func (w *world) crashed(where string) bool {
	if w.srv.Alive() {
		return false
	}
	w.srv.WaitExit(time.Second)
	out := w.srv.CrashOutput()
	first := strings.SplitN(out, "\n", 2)[0]
	key := "crash/" + clip(first, 60)
	w.violate(key, fmt.Sprintf("the server process died on %s\n%s", where, clip(out, 2500)))
	w.restart()
	return true
}

// restart replaces the server (after a crash, a hang or a bloat the old one says nothing about the next lines).
func (w *world) restart() {
	defer w.sh.clock("restart", time.Now())
	w.stop()
	w.sh.mu.Lock()
	w.sh.restarts++
	w.sh.mu.Unlock()
	nw, err := newWorld(w.r, w.sh, w.source, w.seed)
	if err != nil {
		w.r.Machinery("cannot restart the server: %v", err)
		w.srv = nil
		return
	}
	w.srv, w.conns = nw.srv, nw.conns
}

// afterDisconnect: the client has vanished in the middle of something. The server must still accept
// connections, and its CPU time must stop growing (sampled twice from /proc/<pid>/stat).
func (w *world) afterDisconnect(sig, where string) (bool, error) {
	c, err := sess.Dial(w.srv.Addr, watch)
	if err != nil {
		if w.crashed(where) {
			return false, nil
		}
		w.timed(kindKey(sig, "no-new-connections"), fmt.Sprintf("after %s and a disconnect, a new connection was not greeted: %v", where, err))
		w.restart()
		return false, nil
	}
	o := c.Cmd("NOOP", watch)
	c.Close()
	if o.Status != "OK" {
		w.timed(kindKey(sig, "no-new-connections"), fmt.Sprintf("after %s and a disconnect, NOOP on a new connection: %s", where, o.Brief()))
	}
	return w.idleAfterClose(sig), nil
}

// idleAfterClose: a connection of the current sequence was just closed by the client. It reports whether the
// server can be used further (false: it was found spinning - or is known to spin after this - and has been replaced).
func (w *world) idleAfterClose(sig string) bool {
	if w.isolated || w.srv == nil {
		return true
	}
	w.sh.mu.Lock()
	known := w.sh.silent[sig+"/spin"] != ""
	n := w.sh.spinDone[sig]
	w.sh.spinDone[sig]++
	w.sh.mu.Unlock()
	if known {
		// reported for this signature already: do not measure again, only get a clean server
		w.restart()
		return false
	}
	// the first time for a signature: the long look, even though the quick one may see nothing yet
	if (n < 1 || w.quickSpin()) && w.spinning() {
		var cur *suspect
		if w.curB != nil {
			cur = &suspect{b: w.curB, upto: w.curK, seed: w.seed}
		}
		w.spinDetected(cur, sig)
		return false
	}
	return true
}

// quickSpin is a cheap look (a quarter of a second) whether the server is burning CPU right now; it only
// decides whether the full check is worth its time.
func (w *world) quickSpin() bool {
	defer w.sh.clock("quick_cpu_looks", time.Now())
	pid := w.srv.Pid()
	// a goroutine that spins keeps a thread runnable all the time; an idle server has none most of the time
	for i := 0; i < 4; i++ {
		if !sess.Runnable(pid) {
			return false
		}
		time.Sleep(3 * time.Millisecond)
	}
	c0 := sess.CPUTicks(pid)
	time.Sleep(250 * time.Millisecond)
	c1 := sess.CPUTicks(pid)
	return c0 >= 0 && c1-c0 >= 3
}

// spinning measures: does the server keep using CPU time (three consecutive seconds) while no client of the
// checked connection is there any more?
func (w *world) spinning() bool {
	defer w.sh.clock("cpu_measurements", time.Now())
	pid := w.srv.Pid()
	w.sh.mu.Lock()
	w.sh.spinFull++
	w.sh.mu.Unlock()
	time.Sleep(300 * time.Millisecond)
	busy, _ := busyFor3s(pid)
	return busy
}

// busyFor3s: CPU time used in three seconds; busy = at least spinTicks per second on average (an idle server uses
// next to nothing; a server that used less than 3 ticks in the first second is not looked at any longer).
func busyFor3s(pid int) (bool, int64) {
	c0 := sess.CPUTicks(pid)
	for i := 0; i < 3; i++ {
		time.Sleep(time.Second)
		c1 := sess.CPUTicks(pid)
		if c1 < 0 || c0 < 0 {
			return false, 0
		}
		if i == 0 && c1-c0 < 3 {
			return false, c1 - c0
		}
		if i == 2 {
			return c1-c0 >= 3*spinTicks, (c1 - c0) / 3
		}
	}
	return false, 0
}

// spinDetected: the server was measured spinning. Whose doing it is, is decided by running the candidates (the
// current sequence, then the ones closed before it) one by one on a server of their own.
func (w *world) spinDetected(cur *suspect, curSig string) {
	rss := w.srv.RSSKiB()
	cands := []suspect{}
	if cur != nil {
		cands = append(cands, *cur)
	}
	for i := len(w.suspects) - 1; i >= 0 && len(cands) < 6; i-- {
		cands = append(cands, w.suspects[i])
	}
	w.suspects = nil
	w.restart()
	var tried []string
	for _, c := range cands {
		tried = append(tried, c.b.Sig())
		spin, log, pct, r0, r1 := w.isolate(c)
		if !spin {
			continue
		}
		sig := c.sig()
		w.sh.mu.Lock()
		w.sh.silent[sig+"/spin"] = "spin"
		w.sh.mu.Unlock()
		keepLog, keepActs, keepStart, keepSeed := w.log, w.acts, w.start, w.seed
		w.log, w.acts, w.start, w.seed = log, c.b.Trace[:c.upto+1], c.b.Start, c.seed
		w.violate(kindKey(sig, "spin-after-disconnect"), fmt.Sprintf("after the last line below the client closed the connection (sequence %s, alone on a fresh server): 3 s later the server still uses %d%% of a core with no client talking to it, resident set %d -> %d MiB in those 3 s",
			c.b.Sig(), pct, r0/1024, r1/1024))
		w.log, w.acts, w.start, w.seed = keepLog, keepActs, keepStart, keepSeed
		return
	}
	if len(cands) == 0 {
		w.violate(kindKey(curSig, "spin-after-disconnect"), fmt.Sprintf("the server keeps using CPU time with no client talking to it (resident set %d MiB)", rss/1024))
		return
	}
	// nobody does it alone on a fresh server: what was measured was not the doing of one of these clients (a loaded
	// machine, a garbage collection after a 30 MB literal): counted, not reported
	w.r.Add("cpu_activity_after_disconnect_not_reproduced_alone", 1)
	w.r.Sample(map[string]interface{}{"cpu_activity_after_these_sequences_not_reproduced_alone": tried})
}

// isolate replays one suspect alone on a fresh server, closes the connection and measures.
func (w *world) isolate(c suspect) (spin bool, log []string, pct, rss0, rss1 int64) {
	defer w.sh.clock("isolation_runs", time.Now())
	nw, err := newWorld(w.r, w.sh, w.source, c.seed)
	if err != nil {
		return false, nil, 0, 0, 0
	}
	defer func() {
		if nw.srv != nil {
			nw.stop()
		}
	}()
	nw.isolated = true
	nw.rend = sess.NewRenderer(c.seed)
	nw.rend.Heavy = w.heavy
	nw.start = c.b.Start
	nw.log = []string{"--- new connection, brought to " + c.b.Start + " by the harness"}
	if nw.prelude("s1", c.b.Start) != nil {
		return false, nil, 0, 0, 0
	}
	for k := 0; k <= c.upto && k < len(c.b.Trace); k++ {
		ok, err := nw.step(&c.b.Trace[k])
		if err != nil || nw.srv == nil {
			return false, nw.log, 0, 0, 0
		}
		if !ok {
			break
		}
	}
	if cn := nw.conns["s1"]; cn != nil {
		cn.Close()
	}
	if nw.srv == nil || !nw.srv.Alive() {
		return false, nw.log, 0, 0, 0
	}
	pid := nw.srv.Pid()
	time.Sleep(500 * time.Millisecond)
	rss0 = nw.srv.RSSKiB()
	busy, pct := busyFor3s(pid)
	if !busy {
		return false, nw.log, 0, 0, 0
	}
	return true, nw.log, pct, rss0, nw.srv.RSSKiB()
}

// ---- behaviours and the error-counter graph -------------------------------------

func behaviourSeed(seed int64, sig string) int64 {
	h := sha1.Sum([]byte(sig))
	v := int64(0)
	for _, b := range h[:7] {
		v = v<<8 | int64(b)
	}
	return v ^ seed*7919
}

func replayBehaviours(r *ev.Run, sh *shared, bs []*sess.Behaviour, part, parts int, seed int64, heavy []int, sampleEvery int) {
	w, err := newWorld(r, sh, "lines", seed)
	if err != nil {
		r.Machinery("cannot start a server: %v", err)
		return
	}
	defer func() {
		if w.srv != nil {
			w.stop()
		}
	}()
	n := 0
	for i, b := range bs {
		if i%parts != part {
			continue
		}
		if w.srv == nil {
			return
		}
		w.seed = behaviourSeed(seed, b.Sig())
		w.rend = sess.NewRenderer(w.seed)
		w.rend.Heavy, w.heavy = heavy, heavy
		w.acts, w.start = nil, b.Start
		w.curB, w.curK = b, 0
		w.log = []string{"--- new connection, brought to " + b.Start + " by the harness"}
		if err := w.prelude("s1", b.Start); err != nil {
			if w.crashed("the prelude of a behaviour") {
				continue
			}
			r.Machinery("prelude: %v", err)
			return
		}
		// did one of the clients that left before this sequence leave something running?
		if len(w.suspects) > 0 {
			if w.quickSpin() && w.spinning() {
				w.spinDetected(nil, "")
				if w.srv == nil {
					return
				}
				if err := w.prelude("s1", b.Start); err != nil {
					r.Machinery("prelude: %v", err)
					return
				}
			} else {
				w.suspects = w.suspects[len(w.suspects)-1:]
			}
		}
		ok := true
		for k := range b.Trace {
			w.curK = k
			if ok, err = w.step(&b.Trace[k]); err != nil {
				r.Machinery("%v", err)
				return
			}
			if !ok || w.srv == nil {
				break
			}
		}
		// a last well-formed line: whatever completions were left over would be read here
		if ok && w.srv != nil {
			if c := w.conns["s1"]; c != nil && !c.Dead() && c.IdleTag == "" {
				last := b.Trace[len(b.Trace)-1]
				if o := c.Cmd("NOOP", watch); o.Status != "OK" || o.Garbage != "" {
					w.violate(last.X+"/leftover/"+last.Was, fmt.Sprintf("a NOOP after the behaviour %s was answered: %s %s", b.Sig(), o.Brief(), o.Garbage))
				}
			}
		}
		if c := w.conns["s1"]; c != nil && !c.Dead() && w.srv != nil {
			// the sequence is over and the client leaves; nothing may be left running for it
			c.Close()
			w.suspects = append(w.suspects, suspect{b: b, upto: w.curK, seed: w.seed})
			if len(w.suspects) > 8 {
				w.suspects = w.suspects[len(w.suspects)-8:]
			}
		}
		r.Add("behaviours_replayed", 1)
		n++
		if sampleEvery > 0 && n%sampleEvery == 1 {
			r.Sample(map[string]interface{}{"start": b.Start, "classes": b.Sig(), "concrete": append([]string{}, w.log...)})
		}
	}
	if w.srv != nil && len(w.suspects) > 0 && w.quickSpin() && w.spinning() {
		w.spinDetected(nil, "")
	}
}

func walkGraph(r *ev.Run, sh *shared, m *sess.Model, seed int64) {
	pl := sess.NewPlanner(m, 0, 1)
	w, err := newWorld(r, sh, "errrun", seed)
	if err != nil {
		r.Machinery("cannot start a server: %v", err)
		return
	}
	defer func() {
		if w.srv != nil {
			w.stop()
		}
	}()
	w.rend = sess.NewRenderer(w.seed)
	w.start = "NotAuth"
	resets := 0
	for pl.Left() > 0 && resets < 600 {
		// a new connection is the initial state of this configuration (the server keeps nothing else)
		if w.srv == nil {
			r.Machinery("errrun: no server")
			return
		}
		w.acts = nil
		if err := w.prelude("s1", "NotAuth"); err != nil {
			r.Machinery("errrun: %v", err)
			return
		}
		w.log = append(w.log, "--- new connection")
		cur := m.Init
		fresh := true
		ok := true
		for ok && pl.Left() > 0 {
			path := pl.Next(cur)
			if path == nil {
				if fresh {
					r.Machinery("errrun: %d transitions cannot be reached from the initial state", pl.Left())
					return
				}
				break
			}
			for _, t := range path {
				fresh = false
				ok, err = w.step(&t.Act)
				pl.MarkCovered(t)
				if err != nil {
					r.Machinery("errrun: %v", err)
					return
				}
				if !ok || w.srv == nil {
					ok = false
					pl.Avoid(t)
					break
				}
				cur = t.PostKey
			}
		}
		resets++
	}
	if pl.Left() > 0 {
		r.Machinery("errrun: %d transitions not executed", pl.Left())
	}
}

func run(r *ev.Run, tier, replay string) {
	seed := ev.Seed()
	sh := &shared{silent: map[string]string{}, instances: map[string]bool{}, classes: map[string]bool{}, perClass: map[string]int64{}, spinDone: map[string]int{}}
	heavy := []int{1000000}
	busyMax, idleWindow = 30*time.Second, 3*time.Second
	if tier == "thorough" {
		idleWindow = 5 * time.Second
		heavy = []int{1000000, 2000000, 4000000}
		busyMax = 150 * time.Second
	}
	if replay != "" {
		if b, err := os.ReadFile(replay); err == nil {
			var rp struct {
				Replay struct {
					T json.RawMessage `json:"truncated"`
				} `json:"replay"`
			}
			if json.Unmarshal(b, &rp) == nil && len(rp.Replay.T) > 0 && c10.TruncationReplay(r, rp.Replay.T) {
				r.Set("states", 1)
				r.Set("transitions", 1)
				return
			}
		}
		runReplay(r, sh, replay, heavy)
		return
	}
	// parser level: every command of the bounded grammar cut off after every byte, the stream ends there
	c10.TruncationSweep(r, tier)
	var lines, errrun *sess.Model
	var e1, e2 error
	var wg sync.WaitGroup
	wg.Add(2)
	go func() { defer wg.Done(); lines, e1 = sess.RunTLC("lines." + tier) }()
	go func() { defer wg.Done(); errrun, e2 = sess.RunTLC("errrun") }()
	wg.Wait()
	for _, err := range []error{e1, e2} {
		if err != nil {
			r.Machinery("%v", err)
			return
		}
	}
	if len(lines.Behaviours) == 0 || len(errrun.Trans) == 0 || errrun.Init == "" {
		r.Machinery("TLC printed %d behaviours and %d transitions", len(lines.Behaviours), len(errrun.Trans))
		return
	}
	// behaviours with a heavy first line are few and slow: they get servers of their own
	var bs, hv []*sess.Behaviour
	// the long sequences are sampled by the seed when there are too many to replay (the short ones are all replayed)
	long := 0
	for _, b := range lines.Behaviours {
		if len(b.Trace) >= 3 {
			long++
		}
	}
	const maxLong = 40000
	pick := rand.New(rand.NewSource(seed * 104729))
	for _, b := range lines.Behaviours {
		switch {
		case isHeavy(b):
			hv = append(hv, b)
		case len(b.Trace) < 3 || long <= maxLong || pick.Intn(long) < maxLong:
			bs = append(bs, b)
		}
	}
	parts := 8
	if tier == "thorough" {
		parts = 12
	}
	t0 := time.Now()
	for p := 0; p < parts; p++ {
		wg.Add(1)
		go func(p int) {
			defer wg.Done()
			defer sh.clock(fmt.Sprintf("wall_of_worker_%d", p), time.Now())
			replayBehaviours(r, sh, bs, p, parts, seed, heavy, len(bs)/parts/2+1)
		}(p)
	}
	hparts := len(hv)
	if hparts > 6 {
		hparts = 6
	}
	for p := 0; p < hparts; p++ {
		wg.Add(1)
		go func(p int) {
			defer wg.Done()
			defer sh.clock(fmt.Sprintf("wall_of_heavy_worker_%d", p), time.Now())
			replayBehaviours(r, sh, hv, p, hparts, seed, heavy, 1)
		}(p)
	}
	wg.Add(1)
	go func() {
		defer wg.Done()
		defer sh.clock("wall_of_error_counter_walk", time.Now())
		walkGraph(r, sh, errrun, seed)
	}()
	wg.Wait()

	classes := map[string]bool{}
	for k := range sh.perClass {
		classes[k] = true
	}
	var names []string
	for k := range classes {
		names = append(names, k)
	}
	sort.Strings(names)
	r.Set("input_classes_covered", names)
	r.Set("input_classes_covered_count", int64(len(names)))
	r.Set("phase_class_pairs_covered", int64(len(sh.classes)))
	r.Set("malformed_instances_tried_distinct", int64(len(sh.instances)))
	r.Set("lines_sent", sh.lines)
	r.Set("lines_sent_per_class", sh.perClass)
	r.Set("class_sequences_enumerated_by_tlc", int64(len(lines.Behaviours)))
	r.Set("class_sequences_replayed", r.Cov["behaviours_replayed"])
	r.Set("class_sequences_selected_for_replay", int64(len(bs)+len(hv)))
	r.Set("error_counter_graph_transitions", int64(len(errrun.Trans)))
	r.Set("tlc_runs", map[string]interface{}{
		"lines." + tier: map[string]interface{}{"distinct_states": lines.Res.Distinct, "generated": lines.Res.Generated, "wall_s": lines.Res.Wall.Seconds()},
		"errrun":        map[string]interface{}{"distinct_states": errrun.Res.Distinct, "generated": errrun.Res.Generated, "wall_s": errrun.Res.Wall.Seconds()},
	})
	r.Set("other_session_noop_probes", sh.probes)
	r.Set("streams_cut_by_disconnect", sh.eofs)
	r.Set("cpu_settle_checks", sh.spinFull)
	r.Set("server_restarts", sh.restarts)
	r.Set("peak_rss_mib", sh.maxRSS/1024)
	r.Set("slowest_answered_line", fmt.Sprintf("%v: %s", sh.slowest.Round(time.Millisecond), sh.slowLine))
	r.Set("replay_wall_s", time.Since(t0).Seconds())
	spent := map[string]float64{}
	for k, v := range sh.spent {
		spent[k] = v.Seconds()
	}
	r.Set("worker_seconds_spent_in", spent)
	r.Set("exhaustive", false)
	r.Set("rule", "classes: TLC enumerates exhaustively every sequence of input classes of the configured length from each start phase (NotAuth, Auth, Selected) and the whole graph of the consecutive-error counter, with the acceptable results; bytes: each class occurrence is rendered as one of several concrete byte strings chosen by the seed (VERIF_SEED); evaluations = lines sent; non-trivial = a malformed / odd / cut-off line (not the valid commands in between); distinct = distinct (class, byte string). classes covered and instances tried are reported separately (input_classes_covered, phase_class_pairs_covered, malformed_instances_tried_distinct)")
	r.Assumptions = []string{
		"inside a class the bytes are sampled, not exhausted: the claim is exploration, not model checking",
		"hang: no completion although the server has used 24 s (quick) / 120 s (thorough) of CPU time on the line and is still computing; not answered: no completion while the server used no CPU time for 6 s (quick) / 10 s (thorough), answered another session promptly, and the same happened again when the sequence was replayed alone on a fresh server; bloat: resident set +300 MiB during one line; spinning: on average more than 10% of a core over three seconds with no client connected to the worked connection",
		"a heavy line (10^6 nesting, 1 MB atom) is only explored as the first line of a sequence, followed by one NOOP",
		"raw TLS hello: the client gives up after sending it; whether the server answers BAD or closes is not judged",
		"the servers run without TLS; login jail time 1 ms so that failed logins inside malformed lines do not delay later lines",
	}
}

// kindKey turns a signature "phase/class" into the key "class/kind/phase" (known findings match by prefix).
func kindKey(sig, kind string) string {
	p := strings.SplitN(sig, "/", 2)
	if len(p) != 2 {
		return sig + "/" + kind
	}
	return p[1] + "/" + kind + "/" + p[0]
}

func isHeavy(b *sess.Behaviour) bool {
	return len(b.Trace) > 0 && (b.Trace[0].X == "nest1e6" || b.Trace[0].X == "bigline")
}

func clip(s string, n int) string {
	if len(s) > n {
		return s[:n] + "..."
	}
	return s
}

func runReplay(r *ev.Run, sh *shared, path string, heavy []int) {
	b, err := os.ReadFile(path)
	if err != nil {
		r.Machinery("replay: %v", err)
		return
	}
	var rp struct {
		Replay struct {
			Source string     `json:"source"`
			Start  string     `json:"start"`
			Seed   int64      `json:"render_seed"`
			Acts   []sess.Act `json:"acts"`
		} `json:"replay"`
	}
	if err := json.Unmarshal(b, &rp); err != nil || len(rp.Replay.Acts) == 0 {
		r.Machinery("replay file has no steps: %v", err)
		return
	}
	w, err := newWorld(r, sh, rp.Replay.Source, rp.Replay.Seed)
	if err != nil {
		r.Machinery("cannot start a server: %v", err)
		return
	}
	defer func() {
		if w.srv != nil {
			w.stop()
		}
	}()
	w.rend = sess.NewRenderer(rp.Replay.Seed)
	w.rend.Heavy = heavy
	w.start = rp.Replay.Start
	if w.start == "" {
		w.start = "NotAuth"
	}
	if err := w.prelude("s1", w.start); err != nil {
		r.Machinery("%v", err)
		return
	}
	for i := range rp.Replay.Acts {
		ok, err := w.step(&rp.Replay.Acts[i])
		if err != nil {
			r.Machinery("%v", err)
			return
		}
		if !ok || w.srv == nil {
			break
		}
	}
	r.Sample(w.log)
}
