// Package c07: acknowledged state survives restart, crashes and failing storage steps (GluonCrash.tla).
//
// TLC enumerates every (operation, step index, kill | error) triple of the step lists in GluonCrash.tla,
// checks AckedSurvives / BeforeOrAfter / EveryListedFetchable / NoOrphans on the model and prints each
// triple with the steps that are reached and the state(s) allowed after recovery. Every triple is executed
// on the real server: a child process runs the operation with the message store and the database wrapped
// (gluon.WithStoreBuilder / gluon.WithDBClient) by a step counter and kills itself (SIGKILL) or makes the
// wrapped call fail at step k; a second child starts a fresh server on what is left in the directories and
// reports what a new IMAP session sees plus the rows and files below it. The steps the real code went
// through must be the spec's step list (otherwise: "spec out of date", exit 2), the state after recovery
// must be one TLC allows (otherwise: VIOLATION).
package c07

import (
	"bufio"
	"encoding/json"
	"fmt"
	"os"
	"os/exec"
	"syscall"
	"time"

	"github.com/ProtonMail/gluon/verif/drivers"
)

func init() {
	if os.Getenv("C07_WORKER") != "" {
		worker()
		os.Exit(0)
	}
	drivers.Register("C07", "fault_enumeration", run)
}

// event is one line a worker printed.
type event struct {
	T      string    `json:"t"`
	N      int       `json:"n"`
	Name   string    `json:"name"`
	Status string    `json:"status"`
	Text   string    `json:"text"`
	Msg    string    `json:"msg"`
	User   string    `json:"user"`
	Err    string    `json:"err"`
	Steps  []string  `json:"steps"`
	Obs    *obsState `json:"obs"`
}

type workerResult struct {
	Events   []event
	Killed   bool // died by SIGKILL
	ExitCode int
	TimedOut bool
	Stderr   string
}

func (w *workerResult) find(t string) *event {
	for i := range w.Events {
		if w.Events[i].T == t {
			return &w.Events[i]
		}
	}
	return nil
}

func (w *workerResult) steps() []string {
	var out []string
	for _, e := range w.Events {
		if e.T == "step" {
			out = append(out, e.Name)
		}
	}
	return out
}

// runWorker re-executes the harness binary as a worker and collects what it printed.
func runWorker(cfg wcfg, timeout time.Duration) (*workerResult, error) {
	exe, err := os.Executable()
	if err != nil {
		return nil, err
	}
	b, _ := json.Marshal(cfg)
	cmd := exec.Command(exe, "C07")
	cmd.Env = append(os.Environ(), "C07_WORKER="+string(b), "GOTRACEBACK=all")
	cmd.SysProcAttr = &syscall.SysProcAttr{Pdeathsig: syscall.SIGKILL}
	stdout, err := cmd.StdoutPipe()
	if err != nil {
		return nil, err
	}
	var errBuf tailBuf
	cmd.Stderr = &errBuf
	if err := cmd.Start(); err != nil {
		return nil, err
	}
	res := &workerResult{}
	done := make(chan struct{})
	go func() {
		defer close(done)
		sc := bufio.NewScanner(stdout)
		sc.Buffer(make([]byte, 1<<20), 64<<20)
		for sc.Scan() {
			var e event
			if err := json.Unmarshal(sc.Bytes(), &e); err == nil && e.T != "" {
				res.Events = append(res.Events, e)
			}
		}
	}()
	timer := time.AfterFunc(timeout, func() {
		res.TimedOut = true
		_ = cmd.Process.Kill()
	})
	<-done
	werr := cmd.Wait()
	timer.Stop()
	res.Stderr = errBuf.String()
	if werr != nil {
		if ee, ok := werr.(*exec.ExitError); ok {
			res.ExitCode = ee.ExitCode()
			if ws, ok := ee.Sys().(syscall.WaitStatus); ok && ws.Signaled() && ws.Signal() == syscall.SIGKILL && !res.TimedOut {
				res.Killed = true
			}
		} else {
			return res, werr
		}
	}
	return res, nil
}

// tailBuf keeps the first 8 KiB written to it.
type tailBuf struct{ b []byte }

func (t *tailBuf) Write(p []byte) (int, error) {
	if len(t.b) < 8192 {
		n := 8192 - len(t.b)
		if n > len(p) {
			n = len(p)
		}
		t.b = append(t.b, p[:n]...)
	}
	return len(p), nil
}
func (t *tailBuf) String() string { return string(t.b) }

// copyDir copies the prepared directories (database and store) for one triple.
func copyDir(src, dst string) error {
	out, err := exec.Command("cp", "-a", src, dst).CombinedOutput()
	if err != nil {
		return fmt.Errorf("cp: %v %s", err, out)
	}
	return nil
}
