package c07

import (
	"encoding/json"
	"fmt"
	"os"
	"path/filepath"
	"strings"
	"time"

	"github.com/ProtonMail/gluon/verif/pkg/ev"
)

var allOps = []string{"APPEND", "COPY", "MOVE", "EXPUNGE", "STORE", "CREATE", "DELETE", "RENAME", "SUBSCRIBE", "UNSUBSCRIBE",
	"CONN_CREATE", "CONN_UPDATE", "CONN_DELETE", "RELEASE"}

func run(r *ev.Run, tier, replay string) {
	if os.Getenv("C07_TRACE") != "" {
		devTrace(r)
		return
	}
}

func devTrace(r *ev.Run) {
	base, err := os.MkdirTemp("", "c07-")
	if err != nil {
		r.Machinery("%v", err)
		return
	}
	defer os.RemoveAll(base)
	setupDir := filepath.Join(base, "setup")
	t0 := time.Now()
	res, err := runWorker(wcfg{Mode: "setup", Dir: setupDir}, 60*time.Second)
	if err != nil || res.find("setup") == nil {
		r.Machinery("setup failed: %v %+v", err, res)
		return
	}
	se := res.find("setup")
	b, _ := json.MarshalIndent(se.Obs, "", " ")
	fmt.Printf("setup %.2fs user=%s\n%s\n", time.Since(t0).Seconds(), se.User, b)
	ops := allOps
	if f := os.Getenv("C07_TRACE"); f != "1" {
		ops = strings.Split(f, ",")
	}
	for _, op := range ops {
		fail := 0
		kind := "none"
		if i := strings.Index(op, ":"); i > 0 {
			fmt.Sscanf(op[i+1:], "%d", &fail)
			op = op[:i]
			kind = "error"
		}
		d := filepath.Join(base, "t-"+op)
		if err := copyDir(setupDir, d); err != nil {
			r.Machinery("%v", err)
			return
		}
		t0 = time.Now()
		res, err := runWorker(wcfg{Mode: "run", Dir: d, UserID: se.User, Op: op, Kind: kind, FailAt: fail}, 60*time.Second)
		if err != nil {
			r.Machinery("%v", err)
			return
		}
		fmt.Printf("== %s (%.2fs) killed=%v exit=%d\n", op, time.Since(t0).Seconds(), res.Killed, res.ExitCode)
		for _, e := range res.Events {
			switch e.T {
			case "step":
				fmt.Printf("  %2d %s\n", e.N, e.Name)
			case "live":
				b, _ := json.Marshal(e.Obs)
				fmt.Printf("  live %s\n", b)
			default:
				b, _ := json.Marshal(e)
				fmt.Printf("  %s\n", b)
			}
		}
		if res.Stderr != "" {
			fmt.Printf("  stderr: %s\n", res.Stderr)
		}
		t0 = time.Now()
		res, err = runWorker(wcfg{Mode: "observe", Dir: d, UserID: se.User, Remote: map[string]string{"rm4": "m4", "c5": "m5"}}, 60*time.Second)
		if err != nil {
			r.Machinery("%v", err)
			return
		}
		if o := res.find("obs"); o != nil {
			b, _ := json.Marshal(o.Obs)
			fmt.Printf("  after restart (%.2fs) %s\n", time.Since(t0).Seconds(), b)
		} else {
			fmt.Printf("  observer failed: %+v\n", res)
		}
	}
}
