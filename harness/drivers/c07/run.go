package c07

import (
	"encoding/json"
	"fmt"
	"math/rand"
	"os"
	"path/filepath"
	"sort"
	"strings"
	"sync"
	"time"

	"github.com/ProtonMail/gluon/verif/pkg/ev"
	"github.com/ProtonMail/gluon/verif/pkg/tlc"
)

const recoveryBox = "Recovered Messages"

// ---- what TLC prints ------------------------------------------------------------------------------

type sEnt struct {
	ID  string `json:"id"`
	UID int    `json:"uid"`
	Del bool   `json:"del"`
}

type sBox struct {
	Sub  bool   `json:"sub"`
	Msgs []sEnt `json:"msgs"`
	UIDV string `json:"uidv"`
	Next int    `json:"next"`
}

type sRow struct {
	Marked bool     `json:"marked"`
	Flags  []string `json:"flags"`
}

type sState struct {
	Boxes map[string]sBox `json:"boxes"`
	Rows  map[string]sRow `json:"rows"`
	Dsubs []string        `json:"dsubs"`
	Files []string        `json:"files"`
}

// tcase is one (operation, step, kill|error) triple (kind "none": clean restart after the operation).
type tcase struct {
	Op     string   `json:"op"`
	K      int      `json:"k"`
	Kind   string   `json:"kind"`
	NSteps int      `json:"nsteps"`
	Steps  []string `json:"steps"` // the steps reached, in order (a faulted step is reached, not executed)
	Ack    string   `json:"ack"`
	Live   struct {
		None  bool                `json:"none"`
		Boxes map[string]sBox     `json:"boxes"`
		Dsubs []string            `json:"dsubs"`
		Flags map[string][]string `json:"flags"`
	} `json:"live"`
	Allowed []sState `json:"allowed"` // what the property allows after the restart
	// Yields is the state the specification's model of the code ends in; Deviation names the known way in which that
	// state is NOT allowed ("" = it is allowed)
	Yields    sState            `json:"yields"`
	Deviation string            `json:"deviation"`
	Pre       sState            `json:"pre"`
	Post      sState            `json:"post"`
	Content   map[string]string `json:"content"`
}

func (c *tcase) sig() string { return fmt.Sprintf("%s/%d/%s", c.Op, c.K, c.Kind) }

func (c *tcase) stepName() string {
	if c.Kind == "none" {
		return "clean-restart"
	}
	if c.K > c.NSteps {
		return "after-ack"
	}
	if c.K >= 1 && c.K <= len(c.Steps) {
		return c.Steps[c.K-1]
	}
	return "?"
}

// ---- projection of both sides to one comparable form -----------------------------------------------

type cMsg struct {
	UID     int    `json:"uid"`
	Content string `json:"content"`
	Flags   string `json:"flags"`
}

type cBox struct {
	UIDV string `json:"uidv"`
	Next int    `json:"next"`
	Msgs []cMsg `json:"msgs"`
}

type canon struct {
	Boxes   map[string]cBox `json:"boxes"`
	Lsub    []string        `json:"lsub"`
	Rows    []string        `json:"rows,omitempty"`    // "<content of the file | nofile>|<marked>" per message row
	Orphans []string        `json:"orphans,omitempty"` // content of files without a row
}

func (c canon) String() string { b, _ := json.Marshal(c); return string(b) }

// canonSpec projects an abstract state. withDisk = include rows and files; withRecovery = include the recovery mailbox.
func canonSpec(boxes map[string]sBox, rows map[string]sRow, dsubs, files []string, content map[string]string, withDisk, withRecovery bool) canon {
	out := canon{Boxes: map[string]cBox{}, Lsub: []string{}}
	for name, b := range boxes {
		if name == recoveryBox && (!withRecovery || len(b.Msgs) == 0) {
			continue // gluon hides the recovery mailbox while it is empty
		}
		cb := cBox{UIDV: b.UIDV, Next: b.Next, Msgs: []cMsg{}}
		for _, e := range b.Msgs {
			fl := append([]string{}, rows[e.ID].Flags...)
			if e.Del {
				fl = append(fl, "Deleted")
			}
			sort.Strings(fl)
			cb.Msgs = append(cb.Msgs, cMsg{UID: e.UID, Content: content[e.ID], Flags: strings.Join(fl, ",")})
		}
		out.Boxes[name] = cb
		if b.Sub {
			out.Lsub = append(out.Lsub, name)
		}
	}
	out.Lsub = append(out.Lsub, dsubs...)
	sort.Strings(out.Lsub)
	if withDisk {
		have := map[string]bool{}
		for _, f := range files {
			have[f] = true
		}
		for id, r := range rows {
			c := "nofile"
			if have[id] {
				c = content[id]
			}
			out.Rows = append(out.Rows, fmt.Sprintf("%s|%v", c, r.Marked))
		}
		for _, f := range files {
			if _, ok := rows[f]; !ok {
				out.Orphans = append(out.Orphans, content[f])
			}
		}
		sort.Strings(out.Rows)
		sort.Strings(out.Orphans)
	}
	return out
}

func (c *tcase) canonState(s *sState) canon {
	return canonSpec(s.Boxes, s.Rows, s.Dsubs, s.Files, c.Content, true, true)
}

// canonObs projects what the real server showed. uidvName: UIDVALIDITY values of the prepared state.
func canonObs(o *obsState, uidvName map[int]string, withDisk, withRecovery bool) canon {
	out := canon{Boxes: map[string]cBox{}, Lsub: []string{}}
	for name, b := range o.Boxes {
		if name == recoveryBox && !withRecovery {
			continue
		}
		cb := cBox{Next: b.Next, Msgs: []cMsg{}}
		switch {
		case name == recoveryBox:
			cb.UIDV = "any"
		case uidvName[b.UIDV] != "":
			cb.UIDV = "v:" + uidvName[b.UIDV]
		case b.UIDV > 1000:
			cb.UIDV = "new" // the generator of the process that ran the operation starts above 1000
		default:
			cb.UIDV = fmt.Sprintf("unknown:%d", b.UIDV)
		}
		for _, m := range b.Msgs {
			var fl []string
			for _, f := range m.Flags {
				fl = append(fl, strings.TrimPrefix(f, `\`))
			}
			sort.Strings(fl)
			cb.Msgs = append(cb.Msgs, cMsg{UID: m.UID, Content: m.Content, Flags: strings.Join(fl, ",")})
		}
		out.Boxes[name] = cb
	}
	for _, n := range o.Lsub {
		if n == recoveryBox && !withRecovery {
			continue
		}
		out.Lsub = append(out.Lsub, n)
	}
	sort.Strings(out.Lsub)
	if withDisk {
		for _, r := range o.Rows {
			c := r.File
			if c == "" {
				c = "nofile"
			}
			out.Rows = append(out.Rows, fmt.Sprintf("%s|%v", c, r.Marked))
		}
		for _, c := range o.Orphans {
			out.Orphans = append(out.Orphans, c)
		}
		sort.Strings(out.Rows)
		sort.Strings(out.Orphans)
	}
	return out
}

// ---- the check ---------------------------------------------------------------------------------------

type drv struct {
	r        *ev.Run
	base     string
	setupDir string
	userID   string
	uidvName map[int]string
	mu       sync.Mutex
	counts   map[string]int64
	seq      int
	idem     bool // also restart a second time and require the same state
}

func (d *drv) add(k string) {
	d.mu.Lock()
	d.counts[k]++
	d.mu.Unlock()
}

func (d *drv) violate(c *tcase, class, detail string) {
	// the key names the shape (operation, kind of fault, what is wrong); the step is in the detail and in the replay object
	kind := c.Kind
	if kind == "errkill" {
		kind = "error" // same fault; the kill afterwards only decides how the server goes down
	}
	key := fmt.Sprintf("%s/%s/%s", c.Op, kind, class)
	what := "process killed"
	switch c.Kind {
	case "error":
		what = "the call returns an error"
	case "errkill":
		what = "the call returns an error, the operation is answered, then the process is killed"
	case "none":
		what = "no fault, clean shutdown and restart"
	}
	d.r.Violate(key, fmt.Sprintf("operation %s, step %d of %d in GluonCrash.tla (%s): %s\n%s", c.Op, c.K, c.NSteps, c.stepName(), what, detail),
		map[string]interface{}{"op": c.Op, "k": c.K, "kind": c.Kind})
}

func tail(s string) string {
	if len(s) > 3000 {
		return s[len(s)-3000:]
	}
	return s
}

// remoteFor is what the remote holds once the operation has been issued (the connector is re-created from it).
func remoteFor(op string) map[string]string {
	switch op {
	case "APPEND":
		return map[string]string{"rm5": "m4"}
	case "MOVE_REC", "COPY_REC":
		return map[string]string{"rm5": "m0"}
	case "CONN_CREATE":
		return map[string]string{"c5": "m5"}
	case "CONN_UPDATE":
		return map[string]string{"rm1": "m1v2"}
	case "CONN_CREATE_BIG":
		m := map[string]string{}
		for i := 1; i <= bigN; i++ {
			m[fmt.Sprintf("cb%d", i)] = fmt.Sprintf("b%d", i)
		}
		return m
	}
	return map[string]string{}
}

func sameSteps(a, b []string) bool {
	if len(a) != len(b) {
		return false
	}
	for i := range a {
		if a[i] != b[i] {
			return false
		}
	}
	return true
}

// exec runs one triple on the real server. It returns false when the machinery failed (or the specification's
// step list / answer is not what the code does: "spec out of date"); what the real server shows after the restart
// is judged in either case - against the allowed states while the step list still matches, against the
// property's own predicates (fetchable, no orphans, nothing marked) always.
func (d *drv) exec(c *tcase) bool {
	d.mu.Lock()
	d.seq++
	dir := filepath.Join(d.base, fmt.Sprintf("t%d", d.seq))
	d.mu.Unlock()
	defer os.RemoveAll(dir)
	if err := copyDir(d.setupDir, dir); err != nil {
		d.r.Machinery("%v", err)
		return false
	}
	cfg := wcfg{Mode: "run", Dir: dir, UserID: d.userID, Op: c.Op, Kind: "none"}
	switch c.Kind {
	case "kill":
		if c.K > c.NSteps {
			cfg.KillAfterAck = true
		} else {
			cfg.Kind, cfg.FailAt = "kill", c.K
		}
	case "error":
		cfg.Kind, cfg.FailAt = "error", c.K
	case "errkill":
		cfg.Kind, cfg.FailAt, cfg.KillAfterAck = "error", c.K, true
	}
	if c.Op == "RECOVER" {
		// the directory a killed process left behind: the remote has deleted m1 while a session still showed it (marked for
		// deletion, file present); the process died before that session's state was released
		pre, err := runWorker(wcfg{Mode: "run", Dir: dir, UserID: d.userID, Op: "RELEASE", Kind: "kill", FailAt: 1}, 120*time.Second)
		if err != nil || !pre.Killed {
			d.r.Machinery("%s: cannot prepare the directory (RELEASE killed in front of its first step): %v", c.sig(), err)
			return false
		}
	}
	res, err := runWorker(cfg, 120*time.Second)
	if err != nil {
		d.r.Machinery("%s: worker: %v", c.sig(), err)
		return false
	}
	if f := res.find("fatal"); f != nil {
		d.r.Machinery("%s: worker: %s\n%s", c.sig(), f.Msg, tail(res.Stderr))
		return false
	}
	if res.TimedOut {
		d.violate(c, "hang", "the server process did not finish the operation, the observation and its shutdown within 120 s\nsteps reached: "+strings.Join(res.steps(), " "))
		return true
	}
	ok := true      // machinery and model fine
	modelOK := true // the step list matches: the allowed states apply
	// the step list of the specification must be what the code really goes through
	got := res.steps()
	if c.Kind != "kill" && c.Kind != "errkill" {
		if dn := res.find("done"); dn != nil {
			got = dn.Steps
		}
	}
	if !sameSteps(got, c.Steps) {
		d.r.Machinery("spec out of date: %s: GluonCrash.tla lists the steps\n   %s\nthe code went through\n   %s\n%s", c.sig(),
			strings.Join(c.Steps, " "), strings.Join(got, " "), tail(res.Stderr))
		ok, modelOK = false, false
	}
	ack := res.find("ack")
	switch c.Kind {
	case "kill", "errkill":
		if !res.Killed {
			if modelOK {
				d.r.Machinery("%s: the worker was to be killed but exited with %d\n%s", c.sig(), res.ExitCode, tail(res.Stderr))
			}
			return false
		}
		if c.Kind == "errkill" && ack != nil && strings.HasPrefix(ack.Status, "LOST") {
			d.violate(c, "no-reply", "the client / connector got no completion for the operation: "+ack.Status)
		} else if c.Kind == "errkill" && modelOK && (ack == nil || ack.Status != c.Ack) {
			d.r.Machinery("spec out of date: %s: the specification says the operation is answered %s, worker saw %+v", c.sig(), c.Ack, ack)
			ok = false
		}
		if c.Kind == "kill" && modelOK && (c.Ack == "OK") != (ack != nil && ack.Status == "OK") {
			d.r.Machinery("spec out of date: %s: acknowledgement expected %q, worker saw %+v", c.sig(), c.Ack, ack)
			ok = false
		}
	default:
		if res.Killed || res.ExitCode != 0 {
			d.violate(c, "server-died", fmt.Sprintf("the server process died (killed=%v exit=%d)\n%s", res.Killed, res.ExitCode, tail(res.Stderr)))
			return true
		}
		if ack == nil {
			d.r.Machinery("%s: no acknowledgement event\n%s", c.sig(), tail(res.Stderr))
			return false
		}
		if strings.HasPrefix(ack.Status, "LOST") {
			d.violate(c, "no-reply", "the client / connector got no completion for the operation: "+ack.Status)
		} else if ack.Status != c.Ack && modelOK {
			d.r.Machinery("spec out of date: %s: the specification says the operation is answered %s, the server answered %s %s", c.sig(), c.Ack, ack.Status, ack.Text)
			ok = false
		}
		if c.Op == "RECOVER" && res.find("startfailed") != nil {
			// the server did not start: nothing to observe live, nothing to shut down
		} else if lv := res.find("live"); lv == nil || lv.Obs == nil {
			d.r.Machinery("%s: no live observation\n%s", c.sig(), tail(res.Stderr))
			return false
		} else if lv.Obs.Err != "" {
			d.violate(c, "live-observation-failed", "a fresh session on the running server: "+lv.Obs.Err)
		} else if modelOK {
			want := c.canonLive()
			have := canonObs(lv.Obs, d.uidvName, false, true)
			if have.String() != want.String() {
				d.violate(c, "live-state-not-allowed", fmt.Sprintf("after the operation was answered %s a fresh session on the running server sees\n   %s\nthe specification allows\n   %s", ack.Status, have, want))
			}
		}
		if c.Op == "RECOVER" && res.find("startfailed") != nil {
		} else if cl := res.find("closed"); cl == nil {
			d.r.Machinery("%s: the worker did not report its shutdown\n%s", c.sig(), tail(res.Stderr))
			return false
		} else if cl.Err != "" {
			d.violate(c, "close-failed", "clean shutdown after the operation: "+cl.Err)
		}
	}

	// restart on what is left and compare
	var first canon
	rounds := 1
	if d.idem {
		rounds = 2
	}
	for round := 0; round < rounds; round++ {
		ob, err := runWorker(wcfg{Mode: "observe", Dir: dir, UserID: d.userID, Remote: remoteFor(c.Op)}, 120*time.Second)
		if err != nil {
			d.r.Machinery("%s: observer: %v", c.sig(), err)
			return false
		}
		if f := ob.find("fatal"); f != nil {
			if strings.HasPrefix(f.Msg, "server start:") {
				d.violate(c, "restart-failed", "a server cannot be started on the directories: "+f.Msg)
				return ok
			}
			d.r.Machinery("%s: observer: %s\n%s", c.sig(), f.Msg, tail(ob.Stderr))
			return false
		}
		o := ob.find("obs")
		if ob.TimedOut || o == nil || o.Obs == nil {
			d.violate(c, "restart-hang-or-crash", fmt.Sprintf("the restarted server did not produce an observation (timeout=%v exit=%d)\n%s", ob.TimedOut, ob.ExitCode, tail(ob.Stderr)))
			return ok
		}
		if o.Obs.Err != "" {
			d.violate(c, "observation-failed", "fresh session after restart: "+o.Obs.Err)
			return ok
		}
		have := canonObs(o.Obs, d.uidvName, true, true)
		if round == 1 {
			if have.String() != first.String() {
				d.violate(c, "second-restart-differs", fmt.Sprintf("after a clean shutdown and another restart the state is\n   %s\nit was\n   %s", have, first))
			}
			break
		}
		first = have
		d.judge(c, o.Obs, have, modelOK, ack != nil && ack.Status == "OK" && c.Op != "RELEASE")
		if cl := ob.find("closed"); cl == nil || cl.Err != "" {
			d.violate(c, "close-after-restart-failed", fmt.Sprintf("clean shutdown of the restarted server: %+v\n%s", cl, tail(ob.Stderr)))
		}
	}
	return ok
}

// canonLive projects the state the specification has at the acknowledgement (user mailboxes, subscriptions, flags).
func (c *tcase) canonLive() canon {
	rows := map[string]sRow{}
	for id, fl := range c.Live.Flags {
		rows[id] = sRow{Flags: fl}
	}
	return canonSpec(c.Live.Boxes, rows, c.Live.Dsubs, nil, c.Content, false, true)
}

// judge compares the state after restart with what TLC allows, most specific complaint first.
func (d *drv) judge(c *tcase, o *obsState, have canon, modelOK, ackOK bool) {
	var allowed []string
	ok := false
	for i := range c.Allowed {
		a := c.canonState(&c.Allowed[i])
		allowed = append(allowed, a.String())
		if a.String() == have.String() {
			ok = true
		}
	}
	// the property's own predicates on the real state
	for name, b := range o.Boxes {
		if b.Err != "" {
			d.violate(c, "mailbox-unreadable", fmt.Sprintf("mailbox %q after restart: %s", name, b.Err))
			return
		}
		for _, m := range b.Msgs {
			if strings.HasPrefix(m.Content, "UNFETCHABLE") || strings.HasPrefix(m.Content, "CORRUPT") {
				d.violate(c, "listed-not-fetchable", fmt.Sprintf("mailbox %q lists UID %d but BODY[] gives %s\nstate: %s", name, m.UID, m.Content, have))
				return
			}
		}
	}
	if ok {
		return
	}
	if modelOK && c.Deviation != "" && c.canonState(&c.Yields).String() == have.String() {
		// the specification's model of the code predicts exactly this state and says the property does not allow it
		pre, post := c.canonState(&c.Pre), c.canonState(&c.Post)
		d.violate(c, c.Deviation, fmt.Sprintf("answered %s; a fresh session after restart sees\n   %s\nbefore the operation: %s\nafter the operation:  %s\n%s",
			c.Ack, fullView(have), fullView(pre), fullView(post), deviationText[c.Deviation]))
		return
	}
	if !modelOK {
		// the allowed states belong to a step list the code no longer follows: only the property's own predicates
		allowed = []string{"(not applicable: step list out of date)"}
	}
	if len(o.Orphans) > 0 {
		d.violate(c, "orphan-file", fmt.Sprintf("store files without a message row are left after start-up: %v\nstate   %s\nallowed %s", o.Orphans, have, strings.Join(allowed, "\n        ")))
		return
	}
	for _, r := range o.Rows {
		if r.Marked {
			d.violate(c, "marked-row-left", fmt.Sprintf("a message marked for deletion is left after start-up: %+v\nstate   %s\nallowed %s", r, have, strings.Join(allowed, "\n        ")))
			return
		}
	}
	// before-or-after does not depend on the step list: all mailboxes and the subscription list are those before
	// or those after the operation; only the rescue of a failing APPEND may add to the recovery mailbox on top
	pre, post := c.canonState(&c.Pre), c.canonState(&c.Post)
	hu, pu, qu := fullView(have), fullView(pre), fullView(post)
	boa := hu.String() == pu.String() || hu.String() == qu.String()
	if !boa && c.Op == "APPEND" && (c.Kind == "error" || c.Kind == "errkill") {
		// the designed outcome of an APPEND that could not be performed: target untouched, message rescued
		boa = userView(have).String() == userView(pre).String() && recoveryKeeps(pre, have)
	}
	if !boa {
		d.violate(c, "neither-before-nor-after", fmt.Sprintf("a fresh session after restart sees\n   %s\nbefore the operation: %s\nafter the operation:  %s", hu, pu, qu))
		return
	}
	if ackOK && hu.String() != qu.String() {
		d.violate(c, "acknowledged-state-lost", fmt.Sprintf("the operation was acknowledged, but a fresh session after restart sees the state before it\n   %s\nafter the operation: %s", hu, qu))
		return
	}
	if !modelOK {
		return
	}
	d.violate(c, "state-not-allowed", fmt.Sprintf("a fresh session after restart sees\n   %s\nthe specification allows\n   %s\n(before the operation: %s)\n(after the operation:  %s)", have, strings.Join(allowed, "\n   "), pre, post))
}

var deviationText = map[string]string{
	"appended-and-rescued": "the message is in the target mailbox AND a copy is in the recovery mailbox, and the client was told NO: " +
		"stateDBWriteResult returns an error when only its second transaction (state updates) fails, and Mailbox.Append then rescues a message that the first transaction has already committed",
}

// fullView keeps what a client sees: all mailboxes and the subscription list.
func fullView(c canon) canon { return canon{Boxes: c.Boxes, Lsub: c.Lsub} }

// recoveryKeeps: every message the recovery mailbox held before is still in it.
func recoveryKeeps(pre, have canon) bool {
	for _, m := range pre.Boxes[recoveryBox].Msgs {
		found := false
		for _, h := range have.Boxes[recoveryBox].Msgs {
			if h == m {
				found = true
			}
		}
		if !found {
			return false
		}
	}
	return true
}

// userView keeps what the user's own mailboxes and subscription list show.
func userView(c canon) canon {
	out := canon{Boxes: map[string]cBox{}, Lsub: []string{}}
	for n, b := range c.Boxes {
		if n != recoveryBox {
			out.Boxes[n] = b
		}
	}
	for _, n := range c.Lsub {
		if n != recoveryBox {
			out.Lsub = append(out.Lsub, n)
		}
	}
	return out
}

func run(r *ev.Run, tier, replay string) {
	if os.Getenv("C07_TRACE") != "" {
		devTrace(r)
		return
	}
	seed := ev.Seed()
	// ---- the fault plan: every triple, from TLC
	var cases []*tcase
	var bad int
	res, err := tlc.Run(tlc.Options{
		SpecDir: filepath.Join(ev.Root(), "spec"), Module: "GluonCrash",
		Cfg:     filepath.Join(ev.Root(), "spec", "cfg", "GluonCrash."+tier+".cfg"),
		Workers: 4, Timeout: 10 * time.Minute, KeepOutput: true,
		OnJSON: func(raw []byte) {
			var c tcase
			if err := json.Unmarshal(raw, &c); err != nil || c.Op == "" {
				bad++
				return
			}
			cases = append(cases, &c)
		},
	})
	if err != nil {
		r.Machinery("tlc: %v", err)
		return
	}
	if res.Violated != "" || res.Error != "" || !res.Finished || res.TimedOut || bad > 0 {
		r.Machinery("TLC on GluonCrash did not finish cleanly: violated=%q error=%q timeout=%v unparsed=%d\n%s", res.Violated, res.Error, res.TimedOut, bad, tail(res.Output))
		return
	}
	r.Set("states", res.Distinct)
	r.Set("transitions", res.Generated)
	r.Set("tlc_wall_s", res.Wall.Seconds())
	// merge the allowed states of one triple (a triple reached along several behaviours)
	byKey := map[string]*tcase{}
	var plan []*tcase
	for _, c := range cases {
		if p, ok := byKey[c.sig()]; ok {
			p.Allowed = append(p.Allowed, c.Allowed...)
			continue
		}
		byKey[c.sig()] = c
		plan = append(plan, c)
	}
	sort.Slice(plan, func(i, j int) bool {
		a, b := plan[i], plan[j]
		if a.Op != b.Op {
			return a.Op < b.Op
		}
		if a.Kind != b.Kind {
			return a.Kind < b.Kind
		}
		return a.K < b.K
	})
	// every (operation, step, kill) and (operation, step, error) must be in the plan
	perOp := map[string]*tcase{}
	for _, c := range plan {
		perOp[c.Op] = c
	}
	for op, c := range perOp {
		if op == "CONN_CREATE_BIG" {
			// the steps of the big batch are sampled at the chunk edges by the specification itself (FaultPoint)
			n := 0
			for key := range byKey {
				if strings.HasPrefix(key, op+"/") {
					n++
				}
			}
			if n < 10 {
				r.Machinery("the plan TLC printed has only %d triples of %s", n, op)
				return
			}
			continue
		}
		for k := 1; k <= c.NSteps+1; k++ {
			if byKey[fmt.Sprintf("%s/%d/kill", op, k)] == nil || (k <= c.NSteps && byKey[fmt.Sprintf("%s/%d/error", op, k)] == nil) {
				r.Machinery("the plan TLC printed lacks a triple of %s at step %d", op, k)
				return
			}
		}
		if errThenKill := byKey[fmt.Sprintf("%s/1/errkill", op)] != nil; tier == "thorough" && !errThenKill {
			r.Machinery("the plan TLC printed lacks the error-then-kill triples of %s", op)
			return
		}
		if byKey[op+"/0/none"] == nil {
			r.Machinery("the plan TLC printed lacks the clean restart of %s", op)
			return
		}
	}
	// the invariants must reject broken designs (thorough): otherwise "TLC found no error" would mean nothing
	if tier == "thorough" && replay == "" {
		base, err := os.ReadFile(filepath.Join(ev.Root(), "spec", "cfg", "GluonCrash."+tier+".cfg"))
		if err != nil {
			r.Machinery("%v", err)
			return
		}
		rejected := map[string]string{}
		for design, inv := range map[string]string{"no_cleanup": "NoOrphans", "no_purge": "NoOrphans", "row_first": "EveryListedFetchable", "split_move": "BeforeOrAfter"} {
			txt := strings.Replace(strings.Replace(string(base), `Design = "code"`, `Design = "`+design+`"`, 1), "Emit = TRUE", "Emit = FALSE", 1)
			mres, err := tlc.Run(tlc.Options{SpecDir: filepath.Join(ev.Root(), "spec"), Module: "GluonCrash", CfgText: txt, Workers: 2, Timeout: 5 * time.Minute, KeepOutput: true})
			if err != nil {
				r.Machinery("tlc (design %s): %v", design, err)
				return
			}
			if mres.Violated != inv {
				r.Machinery("the broken design %q should violate %s, TLC says violated=%q error=%q\n%s", design, inv, mres.Violated, mres.Error, tail(mres.Output))
				return
			}
			rejected[design] = mres.Violated
		}
		r.Set("broken_designs_rejected_by_tlc", rejected)
	}
	r.Set("triples_enumerated", int64(len(plan)))
	r.Set("operations", int64(len(perOp)))

	todo := plan
	exhaustive := true
	if replay != "" {
		b, err := os.ReadFile(replay)
		if err != nil {
			r.Machinery("replay: %v", err)
			return
		}
		var rp struct {
			Replay struct {
				Op   string `json:"op"`
				K    int    `json:"k"`
				Kind string `json:"kind"`
			} `json:"replay"`
		}
		if err := json.Unmarshal(b, &rp); err != nil {
			r.Machinery("replay file: %v", err)
			return
		}
		c := byKey[fmt.Sprintf("%s/%d/%s", rp.Replay.Op, rp.Replay.K, rp.Replay.Kind)]
		if c == nil {
			r.Machinery("replay: the triple %+v is not in the plan", rp.Replay)
			return
		}
		todo, exhaustive = []*tcase{c}, false
	} else if frac := os.Getenv("C07_FRACTION"); frac != "" {
		// development aid: a seeded fraction of the plan
		var f float64
		fmt.Sscanf(frac, "%g", &f)
		rnd := rand.New(rand.NewSource(seed))
		todo = nil
		for _, c := range plan {
			if rnd.Float64() < f {
				todo = append(todo, c)
			}
		}
		exhaustive = false
	}
	// the order of execution is seeded (it must not matter)
	rnd := rand.New(rand.NewSource(seed))
	rnd.Shuffle(len(todo), func(i, j int) { todo[i], todo[j] = todo[j], todo[i] })

	// ---- the prepared state
	base, err := os.MkdirTemp("", "verif-c07-")
	if err != nil {
		r.Machinery("%v", err)
		return
	}
	defer os.RemoveAll(base)
	d := &drv{r: r, base: base, setupDir: filepath.Join(base, "setup"), uidvName: map[int]string{}, counts: map[string]int64{}, idem: tier == "thorough" || replay != ""}
	sres, err := runWorker(wcfg{Mode: "setup", Dir: d.setupDir}, 120*time.Second)
	if err != nil || sres.find("setup") == nil {
		r.Machinery("preparing the initial state failed: %v %+v", err, sres)
		return
	}
	se := sres.find("setup")
	d.userID = se.User
	for name, b := range se.Obs.Boxes {
		if d.uidvName[b.UIDV] != "" {
			r.Machinery("setup: two mailboxes share UIDVALIDITY %d", b.UIDV)
			return
		}
		d.uidvName[b.UIDV] = name
	}
	var any *tcase
	for _, c := range plan {
		if c.Op != "RELEASE" {
			any = c
			break
		}
	}
	if any != nil {
		want, have := any.canonState(&any.Pre), canonObs(se.Obs, d.uidvName, true, true)
		if want.String() != have.String() {
			r.Machinery("spec out of date: the prepared state is not the specification's Base\n   have %s\n   want %s", have, want)
			return
		}
	}

	// ---- execute the plan
	start := time.Now()
	par := 4
	ch := make(chan *tcase)
	var wg sync.WaitGroup
	var failed bool
	var nfail int
	for w := 0; w < par; w++ {
		wg.Add(1)
		go func() {
			defer wg.Done()
			for c := range ch {
				d.mu.Lock()
				stop := failed
				d.mu.Unlock()
				if stop {
					continue
				}
				ok := d.exec(c)
				d.mu.Lock()
				if !ok {
					nfail++
					failed = nfail >= 12
				}
				d.mu.Unlock()
				if ok {
					r.Eval(c.sig(), c.Kind != "none")
					d.add(c.Kind)
					d.add("op:" + c.Op)
				}
			}
		}()
	}
	for _, c := range todo {
		ch <- c
	}
	close(ch)
	wg.Wait()
	if nfail > 0 {
		failed = true
		exhaustive = false
	}
	for i, c := range todo {
		if i%(len(todo)/6+1) == 0 {
			r.Sample(map[string]interface{}{"op": c.Op, "step": c.K, "of": c.NSteps, "step_name": c.stepName(), "fault": c.Kind,
				"steps_reached": c.Steps, "answer": c.Ack, "code_yields_after_restart": c.canonState(&c.Yields), "allowed_by_property": len(c.Allowed) > 0})
		}
	}
	r.Set("exec_wall_s", time.Since(start).Seconds())
	r.Set("executed_by_fault", map[string]int64{"kill": d.counts["kill"], "error": d.counts["error"], "error_then_kill": d.counts["errkill"], "clean_restart": d.counts["none"]})
	perOpN := map[string]int64{}
	for k, v := range d.counts {
		if strings.HasPrefix(k, "op:") {
			perOpN[strings.TrimPrefix(k, "op:")] = v
		}
	}
	r.Set("executed_by_operation", perOpN)
	r.Set("traces_validated_against_impl", d.counts["kill"]+d.counts["error"]+d.counts["errkill"]+d.counts["none"])
	r.Set("second_restart_checked", d.idem)
	r.Set("exhaustive", exhaustive && !failed)
	r.Set("rule", "one case = (operation, step index, kill | error) or the clean restart of an operation, enumerated exhaustively by TLC from the step lists of GluonCrash.tla "+
		"(step = each message-store call, BEGIN, each method called on the write transaction, COMMIT); every case is executed on the real server in a child process "+
		"with store and database wrapped through WithStoreBuilder/WithDBClient, the steps actually passed must equal the spec's list, then a fresh server is started on the "+
		"directories and LIST, LSUB, UIDVALIDITY, UIDNEXT, FETCH 1:* (UID FLAGS BODY.PEEK[]) of every mailbox plus message rows and store files are compared with the state(s) TLC allows; "+
		"non-trivial = a fault was really injected (everything but the clean restarts); distinct = distinct (operation, step, fault)")
	r.Assumptions = []string{
		"a kill is SIGKILL of the server process at a step boundary (between two calls), not a loss of power: the page cache survives, so SQLite's WAL without synchronous=FULL is not exercised",
		"one fault per operation (thorough: also a failing step followed by a kill right after the answer); faults during start-up recovery itself and other double faults are not enumerated",
		"plain db.Client.Read calls are not step boundaries (they cannot change what is on disk); reads inside a write transaction are",
		"connector-driven operations run while the only session watches a mailbox they do not touch (a session applies queued updates on its own goroutine, which would make step numbers scheduler-dependent)",
		"the remote is fixture.VConn re-created with the messages it held; it never rejects a call",
		"\\Recent is not compared",
	}
}

func devTrace(r *ev.Run) {
	base, err := os.MkdirTemp("", "c07-")
	if err != nil {
		r.Machinery("%v", err)
		return
	}
	defer os.RemoveAll(base)
	setupDir := filepath.Join(base, "setup")
	res, err := runWorker(wcfg{Mode: "setup", Dir: setupDir}, 60*time.Second)
	if err != nil || res.find("setup") == nil {
		r.Machinery("setup failed: %v %+v", err, res)
		return
	}
	se := res.find("setup")
	for i, op := range strings.Split(os.Getenv("C07_TRACE"), ",") {
		fail := 0
		kind := "none"
		if j := strings.Index(op, ":"); j > 0 {
			fmt.Sscanf(op[j+1:], "%d", &fail)
			op = op[:j]
			kind = "error"
		}
		d := filepath.Join(base, fmt.Sprintf("t%d", i))
		if err := copyDir(setupDir, d); err != nil {
			r.Machinery("%v", err)
			return
		}
		if op == "RECOVER" {
			if pre, err := runWorker(wcfg{Mode: "run", Dir: d, UserID: se.User, Op: "RELEASE", Kind: "kill", FailAt: 1}, 60*time.Second); err != nil || !pre.Killed {
				r.Machinery("pre-state of RECOVER: %v %+v", err, pre)
				return
			}
		}
		res, err := runWorker(wcfg{Mode: "run", Dir: d, UserID: se.User, Op: op, Kind: kind, FailAt: fail}, 60*time.Second)
		if err != nil {
			r.Machinery("%v", err)
			return
		}
		fmt.Printf("== %s killed=%v exit=%d\n", op, res.Killed, res.ExitCode)
		for _, e := range res.Events {
			b, _ := json.Marshal(e)
			fmt.Printf("  %s\n", b)
		}
		if res.Stderr != "" {
			fmt.Printf("  stderr: %s\n", res.Stderr)
		}
	}
}
