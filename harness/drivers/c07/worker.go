package c07

import (
	"bytes"
	"context"
	"crypto/sha1"
	"encoding/hex"
	"encoding/json"
	"fmt"
	"os"
	"regexp"
	"sort"
	"strconv"
	"strings"
	"sync"
	"syscall"
	"time"

	"github.com/ProtonMail/gluon/db"
	"github.com/ProtonMail/gluon/imap"
	"github.com/ProtonMail/gluon/internal/db_impl/sqlite3"
	"github.com/ProtonMail/gluon/store"
	"github.com/ProtonMail/gluon/verif/pkg/fixture"
	"github.com/ProtonMail/gluon/verif/pkg/wire"
)

// wcfg is the job of one worker process (env C07_WORKER).
type wcfg struct {
	Mode   string `json:"mode"` // setup | run | observe
	Dir    string `json:"dir"`
	UserID string `json:"user_id"`
	Op     string `json:"op"`
	FailAt int    `json:"fail_at"` // 0 = no fault
	Kind   string `json:"kind"`    // kill | error | none
	// KillAfterAck: (kind none) the process kills itself right after the acknowledgement instead of closing cleanly
	KillAfterAck bool `json:"kill_after_ack"`
	// Remote: what the remote holds, remote message id -> content tag (the connector is re-created from it)
	Remote map[string]string `json:"remote"`
}

var outMu sync.Mutex

// emit writes one JSON line to stdout with a single write(2): what was written before a SIGKILL stays in the pipe.
func emit(v interface{}) {
	b, _ := json.Marshal(v)
	b = append(b, '\n')
	outMu.Lock()
	_, _ = os.Stdout.Write(b)
	outMu.Unlock()
}

func fatal(format string, a ...interface{}) {
	emit(map[string]interface{}{"t": "fatal", "msg": fmt.Sprintf(format, a...)})
	os.Exit(3)
}

// lit is the message with the given content tag; the tag identifies the exact bytes.
func lit(tag string) []byte {
	return []byte("From: a@b.c\r\nDate: Mon, 7 Feb 1994 21:52:25 -0800\r\nSubject: " + tag + "\r\n\r\nbody of " + tag + " " + strings.Repeat(tag+".", 20) + "\r\n")
}

var msgDate = time.Date(1994, 2, 7, 21, 52, 25, 0, time.UTC)

var reGluonID = regexp.MustCompile(`(?m)^X-Pm-Gluon-Id: ([^\r\n]*)\r\n`)
var reSubject = regexp.MustCompile(`(?m)^Subject: ([^\r\n]*)\r\n`)

// contentOf maps message bytes back to the content tag: the bytes without gluon's own id header must be
// exactly lit(tag); anything else is reported as corrupt (with a hash, so that two corruptions differ).
func contentOf(b []byte) (tag string, internalID string) {
	if m := reGluonID.FindSubmatch(b); m != nil {
		internalID = string(m[1])
	}
	plain := reGluonID.ReplaceAll(b, nil)
	if m := reSubject.FindSubmatch(plain); m != nil {
		if bytes.Equal(plain, lit(string(m[1]))) {
			return string(m[1]), internalID
		}
	}
	h := sha1.Sum(b)
	return "CORRUPT:" + hex.EncodeToString(h[:4]), internalID
}

// strictContent is contentOf plus the rule about gluon's id header: a message in a normal mailbox (and its cache
// file) carries exactly one X-Pm-Gluon-Id line; a literal rescued into the recovery mailbox is kept as handed in.
func strictContent(b []byte, recovered bool) string {
	tag, id := contentOf(b)
	n := len(reGluonID.FindAll(b, -1))
	switch {
	case strings.HasPrefix(tag, "CORRUPT:"):
		return tag
	case n > 1:
		return fmt.Sprintf("%s(with %d id header lines)", tag, n)
	case id == "" && !recovered:
		return tag + "(without id header)"
	}
	return tag
}

// bigN is the batch size of CONN_CREATE_BIG (BigN in the configurations of GluonCrash.tla).
const bigN = 1001

// Fixed remote ids of the scenario (fixture.VConn numbers what it creates: rb<n> mailboxes, rm<n> messages).
const (
	ridA, ridAK, ridB = "rb1", "rb2", "rb3"
)

// server is the real gluon server of a worker with the wrapped store and database.
type server struct {
	srv  *fixture.Server
	conn *fixture.VConn
	cnt  *counter
	dbb  *dbBuilderWrap
	stb  *storeBuilderWrap
}

// newConn re-creates the remote: three mailboxes and the messages of cfg.Remote. The counters of the
// connector are advanced by really creating rm1..rm3, so that the next APPEND is answered with rm4.
func newConn(remote map[string]string, fresh bool) *fixture.VConn {
	c := fixture.NewVConn(map[string]string{"user": "pass"})
	if fresh {
		return c
	}
	ctx := context.Background()
	for _, n := range [][]string{{"A"}, {"A", "K"}, {"B"}} {
		_, _ = c.CreateMailbox(ctx, nil, n)
	}
	c.NewMailbox("0", "INBOX")
	// rm4 is the message whose APPEND failed locally during set-up (the remote had accepted it)
	for i, box := range []string{ridA, ridA, ridB, ridB} {
		tag := fmt.Sprintf("m%d", (i+1)%4)
		_, _, _ = c.CreateMessage(ctx, nil, imap.MailboxID(box), lit(tag), imap.NewFlagSet(), msgDate)
	}
	for id, tag := range remote {
		c.Messages[imap.MessageID(id)] = &fixture.VMsg{ID: imap.MessageID(id), Literal: lit(tag), Flags: imap.NewFlagSet(), Date: msgDate, Boxes: map[imap.MailboxID]bool{}}
	}
	c.TakeCalls()
	return c
}

func startServer(cfg *wcfg, uidvStart int) *server {
	s, err := startServerArmed(cfg, uidvStart, 0, "")
	if err != nil {
		fatal("server start: %v", err)
	}
	return s
}

// startServerArmed: kind != "" arms the step counter before the server exists - the start-up (recovery) is the operation.
func startServerArmed(cfg *wcfg, uidvStart int, failAt int, kind string) (*server, error) {
	s := &server{cnt: &counter{}}
	if kind != "" {
		s.cnt.arm(failAt, kind)
	}
	s.dbb = &dbBuilderWrap{in: sqlite3.NewBuilder(), c: s.cnt}
	s.stb = &storeBuilderWrap{in: &store.OnDiskStoreBuilder{}, c: s.cnt}
	s.conn = newConn(cfg.Remote, cfg.UserID == "")
	gen := imap.NewIncrementalUIDValidityGenerator()
	for i := 0; i < uidvStart; i++ {
		_, _ = gen.Generate()
	}
	srv, err := fixture.StartServer(fixture.Config{
		Dir: cfg.Dir, StoreBuilder: s.stb, DBClient: s.dbb, UIDValidity: gen,
		Users: []fixture.User{{Name: "user", Pass: "pass", ID: cfg.UserID, Conn: s.conn}},
	})
	if err != nil {
		return s, err
	}
	s.srv = srv
	return s, nil
}

func dial(addr string) *wire.Client {
	c, err := wire.Dial(addr)
	if err != nil {
		fatal("dial: %v", err)
	}
	c.Timeout = 30 * time.Second
	if res := c.Login("user", "pass"); res.Status != "OK" {
		fatal("login: %+v", res)
	}
	return c
}

func must(c *wire.Client, cmd string) wire.Result {
	res := c.Cmd(cmd)
	if res.Status != "OK" {
		fatal("%s: %s %s (closed=%v timeout=%v)", cmd, res.Status, res.Text, res.Closed, res.TimedOut)
	}
	return res
}

// worker is the entry point of a child process.
func worker() {
	var cfg wcfg
	if err := json.Unmarshal([]byte(os.Getenv("C07_WORKER")), &cfg); err != nil {
		fatal("worker cfg: %v", err)
	}
	switch cfg.Mode {
	case "setup":
		workerSetup(&cfg)
	case "run":
		workerRun(&cfg)
	case "observe":
		workerObserve(&cfg)
	default:
		fatal("unknown mode %q", cfg.Mode)
	}
}

// workerSetup builds the common initial state (see GluonCrash.tla, Base) on a fresh directory and closes cleanly.
func workerSetup(cfg *wcfg) {
	s := startServer(cfg, 0)
	c := dial(s.srv.Addr)
	for _, cmd := range []string{"CREATE A", "CREATE A/K", "CREATE B", "UNSUBSCRIBE A/K"} {
		must(c, cmd)
	}
	for _, a := range []struct{ box, flags, tag string }{{"A", `\Seen`, "m1"}, {"A", "", "m2"}, {"B", "", "m3"}} {
		if res := c.Append(a.box, a.flags, lit(a.tag)); res.Status != "OK" {
			fatal("APPEND %s: %+v", a.tag, res)
		}
	}
	must(c, "SELECT A")
	must(c, `STORE 2 +FLAGS.SILENT (\Deleted)`)
	must(c, "UNSELECT")
	// a message that could not be stored (the store fails once) is rescued into the recovery mailbox: r0
	s.cnt.mu.Lock()
	s.cnt.armed, s.cnt.failName, s.cnt.failAt = true, "store.Set", -1
	s.cnt.mu.Unlock()
	if res := c.Append("B", "", lit("m0")); res.Status != "NO" {
		fatal("APPEND with a failing store: %+v", res)
	}
	s.cnt.disarm()
	c.Cmd("LOGOUT")
	c.Close()
	o := observe(s)
	emit(map[string]interface{}{"t": "setup", "user": s.srv.Users[0].ID, "obs": o})
	if err := s.srv.Close(20 * time.Second); err != nil {
		fatal("close after setup: %v", err)
	}
}

// workerRun loads the prepared state, performs one operation with the step counter armed and a fault
// planned, and reports what the client / the connector saw.
func workerRun(cfg *wcfg) {
	if cfg.Op == "RECOVER" {
		workerRecover(cfg)
		return
	}
	s := startServer(cfg, 1000)
	s1 := dial(s.srv.Addr)
	if strings.HasSuffix(cfg.Op, "_REC") {
		must(s1, "SELECT "+wire.Quote("Recovered Messages"))
	} else if strings.HasPrefix(cfg.Op, "CONN_") {
		// The session of a connector-driven operation watches a mailbox the operation does not touch: a session
		// applies the updates queued for it on its own goroutine whenever it gets to it, and those (empty)
		// transactions would make the step numbering depend on the scheduler.
		must(s1, "SELECT INBOX")
	} else {
		must(s1, "SELECT A")
	}

	if cfg.Op == "RELEASE" {
		// precondition: the remote deleted m1 while this session still shows it; the session has been told
		// (it answers the EXPUNGE) before the counter is armed
		if err := s.conn.Submit(imap.NewMessagesDeleted("rm1"), 20*time.Second); err != nil {
			fatal("precondition MessageDeleted: %v", err)
		}
		told := false
		for i := 0; i < 2000 && !told; i++ {
			for _, e := range wire.Events(must(s1, "NOOP").Untagged) {
				if e.Kind == "EXPUNGE" {
					told = true
				}
			}
			if !told {
				time.Sleep(time.Millisecond)
			}
		}
		if !told {
			fatal("precondition: the session never reported the EXPUNGE of m1")
		}
	}

	s.cnt.arm(cfg.FailAt, cfg.Kind)
	status, text := "", ""
	imapCmd := func(cmd string) {
		res := s1.Cmd(cmd)
		status, text = res.Status, res.Text
		if res.Closed || res.TimedOut {
			status = fmt.Sprintf("LOST(closed=%v,timeout=%v)", res.Closed, res.TimedOut)
		}
	}
	submit := func(u imap.Update) {
		err := s.conn.Submit(u, 30*time.Second)
		switch {
		case err == nil:
			status = "OK"
		case err == fixture.ErrNoAck:
			status = "LOST(no ack)"
		default:
			status, text = "NO", err.Error()
		}
	}
	switch cfg.Op {
	case "APPEND":
		res := s1.Append("A", "", lit("m4"))
		status, text = res.Status, res.Text
		if res.Closed || res.TimedOut {
			status = fmt.Sprintf("LOST(closed=%v,timeout=%v)", res.Closed, res.TimedOut)
		}
	case "FETCH":
		res := s1.Cmd("FETCH 1 (BODY.PEEK[])")
		status, text = res.Status, res.Text
		if res.Closed || res.TimedOut {
			status = fmt.Sprintf("LOST(closed=%v,timeout=%v)", res.Closed, res.TimedOut)
		}
		if res.Status == "OK" {
			// the bytes the command returned belong to the acknowledgement: they must be the message
			got := "no literal in the answer"
			for _, l := range res.Untagged {
				if strings.Contains(l.Text, " FETCH (") && len(l.Lits) > 0 {
					got = strictContent(l.Lits[0], false)
				}
			}
			if got != "m1" {
				status, text = "WRONG-BYTES", "FETCH 1 (BODY.PEEK[]) answered OK with "+got+" instead of m1"
			}
		}
	case "COPY":
		imapCmd("COPY 1 B")
	case "MOVE":
		imapCmd("MOVE 1 B")
	case "MOVE_REC":
		imapCmd("MOVE 1 B")
	case "COPY_REC":
		imapCmd("COPY 1 B")
	case "EXPUNGE":
		imapCmd("EXPUNGE")
	case "STORE":
		imapCmd(`STORE 1 +FLAGS (\Flagged)`)
	case "CREATE":
		imapCmd("CREATE C/D")
	case "DELETE":
		imapCmd("DELETE B")
	case "RENAME":
		imapCmd("RENAME A X")
	case "SUBSCRIBE":
		imapCmd("SUBSCRIBE A/K")
	case "UNSUBSCRIBE":
		imapCmd("UNSUBSCRIBE B")
	case "CONN_CREATE":
		l := lit("m5")
		pm, err := imap.NewParsedMessage(l)
		if err != nil {
			fatal("parse: %v", err)
		}
		submit(imap.NewMessagesCreated(false, &imap.MessageCreated{
			Message: imap.Message{ID: "c5", Flags: imap.NewFlagSet(imap.FlagFlagged), Date: msgDate},
			Literal: l, MailboxIDs: []imap.MailboxID{ridA, ridB}, ParsedMessage: pm}))
	case "CONN_CREATE_BIG":
		// one MessagesCreated update with bigN new messages for B (more than one chunk of 1000)
		var ms []*imap.MessageCreated
		for i := 1; i <= bigN; i++ {
			l := lit(fmt.Sprintf("b%d", i))
			pm, err := imap.NewParsedMessage(l)
			if err != nil {
				fatal("parse: %v", err)
			}
			ms = append(ms, &imap.MessageCreated{Message: imap.Message{ID: imap.MessageID(fmt.Sprintf("cb%d", i)), Flags: imap.NewFlagSet(), Date: msgDate},
				Literal: l, MailboxIDs: []imap.MailboxID{ridB}, ParsedMessage: pm})
		}
		submit(imap.NewMessagesCreated(false, ms...))
	case "CONN_UPDATE":
		l := lit("m1v2")
		pm, err := imap.NewParsedMessage(l)
		if err != nil {
			fatal("parse: %v", err)
		}
		submit(imap.NewMessageUpdated(imap.Message{ID: "rm1", Flags: imap.NewFlagSet(imap.FlagSeen), Date: msgDate},
			l, []imap.MailboxID{ridA}, pm, false))
	case "CONN_DELETE":
		submit(imap.NewMessagesDeleted("rm3"))
	case "RELEASE":
		res := s1.Cmd("LOGOUT")
		status = res.Status
		// the server releases the session's state and then closes the connection: end of stream is the acknowledgement
		for {
			if _, err := s1.ReadLine(30 * time.Second); err != nil {
				if !strings.Contains(err.Error(), "EOF") && !strings.Contains(err.Error(), "reset") {
					status = "LOST(" + err.Error() + ")"
				}
				break
			}
		}
	default:
		fatal("unknown op %q", cfg.Op)
	}
	emit(map[string]interface{}{"t": "ack", "status": status, "text": text})
	if cfg.KillAfterAck {
		_ = syscall.Kill(os.Getpid(), syscall.SIGKILL)
		select {}
	}
	if cfg.Op != "RELEASE" {
		// quiesce: the session handles one command at a time, so after this NOOP it has applied what was queued for it
		s.cnt.disarm()
		s1.Cmd("NOOP")
	}
	names := s.cnt.disarm()
	emit(map[string]interface{}{"t": "done", "steps": names})
	emit(map[string]interface{}{"t": "live", "obs": observe(s)})
	if cfg.Op != "RELEASE" {
		s1.Cmd("LOGOUT")
		s1.Close()
	}
	err := s.srv.Close(30 * time.Second)
	e := ""
	if err != nil {
		e = err.Error()
	}
	emit(map[string]interface{}{"t": "closed", "err": e})
}

// workerRecover: the operation is the start-up itself on a directory that holds a message marked for deletion (left by
// a process that was killed before it released the last state showing it): the purge of marked messages and the clean-up
// of files without a row run with the step counter armed and a fault planned.
func workerRecover(cfg *wcfg) {
	kind := cfg.Kind
	if kind == "" {
		kind = "none"
	}
	s, err := startServerArmed(cfg, 1000, cfg.FailAt, kind)
	if err != nil {
		names := s.cnt.disarm()
		emit(map[string]interface{}{"t": "ack", "status": "NO", "text": "server start: " + err.Error()})
		if cfg.KillAfterAck {
			_ = syscall.Kill(os.Getpid(), syscall.SIGKILL)
			select {}
		}
		emit(map[string]interface{}{"t": "done", "steps": names})
		emit(map[string]interface{}{"t": "startfailed"})
		return
	}
	names := s.cnt.disarm()
	emit(map[string]interface{}{"t": "ack", "status": "OK", "text": ""})
	if cfg.KillAfterAck {
		_ = syscall.Kill(os.Getpid(), syscall.SIGKILL)
		select {}
	}
	emit(map[string]interface{}{"t": "done", "steps": names})
	emit(map[string]interface{}{"t": "live", "obs": observe(s)})
	cerr := s.srv.Close(30 * time.Second)
	e := ""
	if cerr != nil {
		e = cerr.Error()
	}
	emit(map[string]interface{}{"t": "closed", "err": e})
}

// workerObserve starts a server on the directory a previous process left behind and reports what a fresh
// session sees plus the rows of the database and the files of the store.
func workerObserve(cfg *wcfg) {
	s := startServer(cfg, 2000)
	o := observe(s)
	emit(map[string]interface{}{"t": "obs", "obs": o})
	err := s.srv.Close(30 * time.Second)
	e := ""
	if err != nil {
		e = err.Error()
	}
	emit(map[string]interface{}{"t": "closed", "err": e})
}

// ---- observation ------------------------------------------------------------------------------

type obsMsg struct {
	UID     int      `json:"uid"`
	Content string   `json:"content"`
	Flags   []string `json:"flags"`
	ID      string   `json:"id"` // gluon's internal id as found in the fetched bytes
}

type obsBox struct {
	UIDV int      `json:"uidv"`
	Next int      `json:"next"`
	Msgs []obsMsg `json:"msgs"`
	Err  string   `json:"err,omitempty"`
}

type obsRow struct {
	ID     string `json:"id"`
	Remote string `json:"remote"`
	Marked bool   `json:"marked"`
	File   string `json:"file"` // content of the store file of this row, "" = no file
}

type obsState struct {
	Boxes map[string]*obsBox `json:"boxes"`
	Lsub  []string           `json:"lsub"`
	Rows  []obsRow           `json:"rows"`
	// Orphans: store files without a row (id -> content)
	Orphans map[string]string `json:"orphans"`
	Err     string            `json:"err,omitempty"`
}

var (
	reList  = regexp.MustCompile(`^\* (?:LIST|LSUB) \(([^)]*)\) (?:"[^"]*"|NIL) (.*)$`)
	reUIDV  = regexp.MustCompile(`\[UIDVALIDITY (\d+)\]`)
	reNext  = regexp.MustCompile(`\[UIDNEXT (\d+)\]`)
	reExist = regexp.MustCompile(`^\* (\d+) EXISTS$`)
	reFUID  = regexp.MustCompile(`UID (\d+)`)
	reFFlag = regexp.MustCompile(`FLAGS \(([^)]*)\)`)
)

func listNames(res wire.Result) []string {
	var out []string
	for _, l := range res.Untagged {
		m := reList.FindStringSubmatch(l.Text)
		if m == nil {
			continue
		}
		name := m[2]
		if strings.HasPrefix(name, "\x00") && len(l.Lits) > 0 {
			name = string(l.Lits[0])
		} else if strings.HasPrefix(name, `"`) {
			if u, err := strconv.Unquote(name); err == nil {
				name = u
			}
		}
		out = append(out, name)
	}
	sort.Strings(out)
	return out
}

// observe is what the property talks about: LIST, LSUB, and per mailbox UIDVALIDITY, UIDNEXT and
// FETCH 1:* (UID FLAGS BODY.PEEK[]) through a fresh session, then the rows and files below it.
func observe(s *server) *obsState {
	o := &obsState{Boxes: map[string]*obsBox{}, Orphans: map[string]string{}}
	c, err := wire.Dial(s.srv.Addr)
	if err != nil {
		o.Err = "dial: " + err.Error()
		return o
	}
	defer c.Close()
	c.Timeout = 30 * time.Second
	if res := c.Login("user", "pass"); res.Status != "OK" {
		o.Err = fmt.Sprintf("login: %+v", res)
		return o
	}
	res := c.Cmd(`LIST "" "*"`)
	if res.Status != "OK" {
		o.Err = fmt.Sprintf("LIST: %s %s", res.Status, res.Text)
		return o
	}
	names := listNames(res)
	res = c.Cmd(`LSUB "" "*"`)
	if res.Status != "OK" {
		o.Err = fmt.Sprintf("LSUB: %s %s", res.Status, res.Text)
		return o
	}
	o.Lsub = listNames(res)
	for _, n := range names {
		b := &obsBox{Msgs: []obsMsg{}}
		o.Boxes[n] = b
		res := c.Cmd("EXAMINE " + wire.Quote(n))
		if res.Status != "OK" {
			b.Err = fmt.Sprintf("EXAMINE: %s %s", res.Status, res.Text)
			continue
		}
		exists := 0
		for _, l := range res.Untagged {
			if m := reUIDV.FindStringSubmatch(l.Text); m != nil {
				b.UIDV, _ = strconv.Atoi(m[1])
			}
			if m := reNext.FindStringSubmatch(l.Text); m != nil {
				b.Next, _ = strconv.Atoi(m[1])
			}
			if m := reExist.FindStringSubmatch(l.Text); m != nil {
				exists, _ = strconv.Atoi(m[1])
			}
		}
		if exists == 0 {
			continue
		}
		// meta data first, then the bytes one message at a time: one unreadable message must not hide the others
		res = c.Cmd("FETCH 1:* (UID FLAGS)")
		if res.Status != "OK" {
			b.Err = fmt.Sprintf("FETCH 1:* (UID FLAGS): %s %s", res.Status, res.Text)
			continue
		}
		var seqs []int
		for _, l := range res.Untagged {
			if !strings.Contains(l.Text, " FETCH (") {
				continue
			}
			var m obsMsg
			if u := reFUID.FindStringSubmatch(l.Text); u != nil {
				m.UID, _ = strconv.Atoi(u[1])
			}
			m.Flags = []string{}
			if f := reFFlag.FindStringSubmatch(l.Text); f != nil {
				for _, x := range strings.Fields(f[1]) {
					if !strings.EqualFold(x, `\Recent`) {
						m.Flags = append(m.Flags, x)
					}
				}
			}
			sort.Strings(m.Flags)
			seq := 0
			fmt.Sscanf(l.Text, "* %d FETCH", &seq)
			seqs = append(seqs, seq)
			b.Msgs = append(b.Msgs, m)
		}
		// the lines of one FETCH are produced by parallel workers and may arrive out of order: sequence order is what counts
		idx := make([]int, len(b.Msgs))
		for i := range idx {
			idx[i] = i
		}
		sort.SliceStable(idx, func(x, y int) bool { return seqs[idx[x]] < seqs[idx[y]] })
		sorted := make([]obsMsg, len(b.Msgs))
		for i, j := range idx {
			sorted[i] = b.Msgs[j]
		}
		b.Msgs = sorted
		if len(b.Msgs) != exists {
			b.Err = fmt.Sprintf("EXISTS %d but FETCH 1:* answered %d messages", exists, len(b.Msgs))
		}
		for i := range b.Msgs {
			m := &b.Msgs[i]
			res := c.Cmd(fmt.Sprintf("UID FETCH %d (BODY.PEEK[])", m.UID))
			m.Content = fmt.Sprintf("UNFETCHABLE(%s)", res.Status)
			if res.Status == "OK" {
				for _, l := range res.Untagged {
					if strings.Contains(l.Text, " FETCH (") && len(l.Lits) > 0 {
						_, m.ID = contentOf(l.Lits[0])
						m.Content = strictContent(l.Lits[0], n == "Recovered Messages")
					}
				}
			}
		}
		c.Cmd("UNSELECT")
	}
	// the session stays open until the rows and files have been read: releasing a session makes gluon purge
	// messages marked for deletion, which must not happen (and hide left-overs) while we look
	defer c.Cmd("LOGOUT")

	// below the protocol: rows of the message table and files of the store, through gluon's own interfaces
	s.dbb.mu.Lock()
	cl := s.dbb.last
	s.dbb.mu.Unlock()
	s.stb.mu.Lock()
	st := s.stb.last
	s.stb.mu.Unlock()
	files := map[string]string{}
	raw := map[string][]byte{}
	ids, err := st.List()
	if err != nil {
		o.Err = "store.List: " + err.Error()
		return o
	}
	for _, id := range ids {
		b, err := st.Get(id)
		if err != nil {
			files[id.String()] = "UNREADABLE: " + err.Error()
			continue
		}
		files[id.String()], _ = contentOf(b)
		raw[id.String()] = b
	}
	err = cl.Read(context.Background(), func(ctx context.Context, rd db.ReadOnly) error {
		all, err := rd.GetAllMessagesIDsAsMap(ctx)
		if err != nil {
			return err
		}
		marked, err := rd.GetMessageIDsMarkedAsDelete(ctx)
		if err != nil {
			return err
		}
		mk := map[string]bool{}
		for _, id := range marked {
			mk[id.String()] = true
		}
		for id := range all {
			r := obsRow{ID: id.String(), Marked: mk[id.String()], File: files[id.String()]}
			if rid, err := rd.GetMessageRemoteID(ctx, id); err == nil {
				r.Remote = string(rid)
			}
			if b, ok := raw[id.String()]; ok {
				// the cache file of a message holds what FETCH returns: with the id header of this very row
				r.File = strictContent(b, strings.HasPrefix(r.Remote, "GLUON-RECOVERED-MESSAGE") || r.Remote == "")
				if _, hid := contentOf(b); hid != "" && hid != id.String() {
					r.File += "(id header of another message)"
				}
			}
			o.Rows = append(o.Rows, r)
			delete(files, id.String())
		}
		return nil
	})
	if err != nil {
		o.Err = "db read: " + err.Error()
		return o
	}
	sort.Slice(o.Rows, func(i, j int) bool { return o.Rows[i].ID < o.Rows[j].ID })
	o.Orphans = files
	return o
}
