package c07

import (
	"context"
	"errors"
	"fmt"
	"io"
	"os"
	"sync"
	"syscall"

	"github.com/ProtonMail/gluon/db"
	"github.com/ProtonMail/gluon/imap"
	"github.com/ProtonMail/gluon/store"
)

// errInjected is what a faulted step returns.
var errInjected = errors.New("c07: injected step failure")

// counter numbers the step boundaries of the armed operation: every call of the message store, the begin
// and the commit of every write transaction and every method called on the transaction. At step failAt
// the process kills itself (kind "kill": the step and everything after it never happens) or the call
// returns errInjected without being executed (kind "error"). Every step is reported on stdout before the
// fault is applied, so the parent knows exactly where the process died.
type counter struct {
	mu     sync.Mutex
	armed  bool
	n      int
	failAt int
	kind   string
	names  []string
	// failName (set-up only): the first step with this name returns errInjected
	failName string
}

func (c *counter) arm(failAt int, kind string) {
	c.mu.Lock()
	defer c.mu.Unlock()
	c.armed, c.n, c.failAt, c.kind, c.names = true, 0, failAt, kind, nil
}

func (c *counter) disarm() []string {
	c.mu.Lock()
	defer c.mu.Unlock()
	c.armed = false
	return append([]string{}, c.names...)
}

func (c *counter) count() int {
	c.mu.Lock()
	defer c.mu.Unlock()
	return c.n
}

func (c *counter) step(name string) error {
	c.mu.Lock()
	defer c.mu.Unlock()
	if !c.armed {
		return nil
	}
	c.n++
	c.names = append(c.names, name)
	if c.failName != "" {
		if name == c.failName {
			c.failName = ""
			return errInjected
		}
		return nil
	}
	emit(map[string]interface{}{"t": "step", "n": c.n, "name": name})
	if c.n != c.failAt {
		return nil
	}
	switch c.kind {
	case "kill":
		_ = syscall.Kill(os.Getpid(), syscall.SIGKILL)
		select {} // never continue past the boundary (the lock stays held: no other step can pass either)
	case "error":
		return errInjected
	}
	return nil
}

// ---- database ---------------------------------------------------------------------------------

type dbBuilderWrap struct {
	in db.ClientInterface
	c  *counter
	mu sync.Mutex
	// last client handed out (the fixture has one user): used by the observer to read the rows directly
	last db.Client
}

func (b *dbBuilderWrap) New(path, userID string) (db.Client, bool, error) {
	cl, isNew, err := b.in.New(path, userID)
	if err != nil {
		return nil, isNew, err
	}
	b.mu.Lock()
	b.last = cl
	b.mu.Unlock()
	return &dbWrap{in: cl, c: b.c}, isNew, nil
}

func (b *dbBuilderWrap) Delete(path, userID string) error { return b.in.Delete(path, userID) }

type dbWrap struct {
	in db.Client
	c  *counter
}

var _ db.Client = (*dbWrap)(nil)

func (d *dbWrap) Init(ctx context.Context, g imap.UIDValidityGenerator) error {
	return d.in.Init(ctx, g)
}
func (d *dbWrap) Close() error { return d.in.Close() }

// Read is not a step boundary: a read outside a write transaction cannot change what is on disk.
func (d *dbWrap) Read(ctx context.Context, op func(context.Context, db.ReadOnly) error) error {
	return d.in.Read(ctx, op)
}

// Write: "tx.begin" is the boundary right after BEGIN, "tx.commit" the boundary right before COMMIT
// (the closure returning nil is what makes the real client commit; returning an error makes it roll back,
// which is exactly what a failing COMMIT does to the transaction).
func (d *dbWrap) Write(ctx context.Context, op func(context.Context, db.Transaction) error) error {
	return d.in.Write(ctx, func(ctx context.Context, tx db.Transaction) error {
		if err := d.c.step("tx.begin"); err != nil {
			return err
		}
		if err := op(ctx, &txWrap{in: tx, c: d.c}); err != nil {
			return err
		}
		if err := d.c.step("tx.commit"); err != nil {
			return fmt.Errorf("%v: %w", err, db.ErrTransactionFailed)
		}
		return nil
	})
}

// ---- message store ----------------------------------------------------------------------------

type storeBuilderWrap struct {
	in   store.Builder
	c    *counter
	mu   sync.Mutex
	last store.Store
}

func (b *storeBuilderWrap) New(dir, userID string, pass []byte) (store.Store, error) {
	s, err := b.in.New(dir, userID, pass)
	if err != nil {
		return nil, err
	}
	b.mu.Lock()
	b.last = s
	b.mu.Unlock()
	return &storeWrap{in: s, c: b.c}, nil
}

func (b *storeBuilderWrap) Delete(dir, userID string) error { return b.in.Delete(dir, userID) }

type storeWrap struct {
	in store.Store
	c  *counter
}

var _ store.Store = (*storeWrap)(nil)

func (s *storeWrap) Get(id imap.InternalMessageID) ([]byte, error) {
	if err := s.c.step("store.Get"); err != nil {
		return nil, err
	}
	return s.in.Get(id)
}

func (s *storeWrap) Set(id imap.InternalMessageID, r io.Reader) error {
	if err := s.c.step("store.Set"); err != nil {
		return err
	}
	return s.in.Set(id, r)
}

func (s *storeWrap) Delete(ids ...imap.InternalMessageID) error {
	if err := s.c.step("store.Delete"); err != nil {
		return err
	}
	return s.in.Delete(ids...)
}

func (s *storeWrap) List() ([]imap.InternalMessageID, error) {
	if err := s.c.step("store.List"); err != nil {
		return nil, err
	}
	return s.in.List()
}

func (s *storeWrap) Close() error { return s.in.Close() }
