package c10

import (
	"fmt"
	"math/rand"
	"strconv"
)

// The renderer is a pretty printer of the abstract commands of GluonGrammar.tla: it writes what the
// RFC grammar says for each node and follows the choices recorded in the case. It knows nothing of gluon.

type rendered struct {
	b     []byte
	marks []int // offsets where splitting the stream is interesting
	gates []int // offset of the first byte after every literal header (literal data, withheld until continuation)
	lits  int
}

type rend struct {
	rendered
	kc  string
	rnd *rand.Rand
}

type renderError string

func (e renderError) Error() string { return string(e) }

func bad(format string, a ...interface{}) { panic(renderError(fmt.Sprintf(format, a...))) }

func gm(v interface{}) map[string]interface{} {
	m, ok := v.(map[string]interface{})
	if !ok {
		bad("expected an object, have %T %v", v, v)
	}
	return m
}
func gf(m map[string]interface{}, k string) interface{} {
	v, ok := m[k]
	if !ok {
		bad("field %q missing in %v", k, m)
	}
	return v
}
func gs(m map[string]interface{}, k string) string {
	s, ok := gf(m, k).(string)
	if !ok {
		bad("field %q is not a string in %v", k, m)
	}
	return s
}
func gb(m map[string]interface{}, k string) bool {
	s, ok := gf(m, k).(bool)
	if !ok {
		bad("field %q is not a boolean in %v", k, m)
	}
	return s
}
func gl(m map[string]interface{}, k string) []interface{} {
	s, ok := gf(m, k).([]interface{})
	if !ok {
		bad("field %q is not a list in %v", k, m)
	}
	return s
}
func num(v interface{}) int64 {
	f, ok := v.(float64)
	if !ok || f != float64(int64(f)) {
		bad("not an integer: %v", v)
	}
	return int64(f)
}
func gi(m map[string]interface{}, k string) int64 { return num(gf(m, k)) }

// leafBytes: a string value is text s followed by raw bytes hi.
func leafBytes(m map[string]interface{}) []byte {
	b := []byte(gs(m, "s"))
	for _, x := range gl(m, "hi") {
		b = append(b, byte(num(x)))
	}
	return b
}

func (r *rend) raw(s string) { r.b = append(r.b, s...) }
func (r *rend) mark()        { r.marks = append(r.marks, len(r.b)) }
func (r *rend) sp()          { r.raw(" ") }
func (r *rend) dec(n int64)  { r.raw(strconv.FormatInt(n, 10)) }

// kw writes a keyword in the letter case of the case.
func (r *rend) kw(w string) {
	i := 0
	for _, c := range []byte(w) {
		lower := c >= 'a' && c <= 'z'
		upper := c >= 'A' && c <= 'Z'
		if lower || upper {
			var up bool
			switch r.kc {
			case "upper":
				up = true
			case "lower":
				up = false
			case "mixed":
				up = i%2 == 1
			case "mixed2":
				up = i%2 == 0
			case "random":
				up = r.rnd.Intn(2) == 0
			default:
				bad("unknown keyword case %q", r.kc)
			}
			if up && lower {
				c -= 'a' - 'A'
			} else if !up && upper {
				c += 'a' - 'A'
			}
			i++
		}
		r.b = append(r.b, c)
	}
}

// str writes a string leaf in the encoding it chose.
func (r *rend) str(v interface{}) {
	m := gm(v)
	data := leafBytes(m)
	switch e := gs(m, "e"); e {
	case "atom":
		if len(data) == 0 {
			bad("empty atom")
		}
		r.b = append(r.b, data...)
	case "quoted":
		// quoted = DQUOTE *QUOTED-CHAR DQUOTE ; QUOTED-CHAR = TEXT-CHAR except quoted-specials / "\" quoted-specials
		r.raw(`"`)
		for _, c := range data {
			if c == '"' || c == '\\' {
				r.raw(`\`)
				r.mark()
			}
			r.b = append(r.b, c)
		}
		r.mark()
		r.raw(`"`)
	case "literal":
		// literal = "{" number "}" CRLF *CHAR8
		r.lits++
		n := strconv.Itoa(len(data))
		r.mark()
		r.raw("{")
		r.mark()
		r.raw(n[:1])
		if len(n) > 1 {
			r.mark()
			r.raw(n[1:])
		}
		r.mark()
		r.raw("}")
		r.mark()
		r.raw("\r")
		r.mark()
		r.raw("\n")
		r.mark()
		r.gates = append(r.gates, len(r.b))
		if len(data) > 1 {
			r.b = append(r.b, data[:len(data)/2]...)
			r.mark()
			r.b = append(r.b, data[len(data)/2:]...)
		} else {
			r.b = append(r.b, data...)
		}
		r.mark()
	default:
		bad("unknown encoding %q", e)
	}
}

func (r *rend) seqNum(v interface{}) {
	m := gm(v)
	switch k := gs(m, "k"); k {
	case "n":
		r.dec(gi(m, "v"))
	case "star":
		r.raw("*")
	case "max32":
		r.raw("4294967295")
	default:
		bad("unknown number kind %q", k)
	}
}

// sequence-set = (seq-number / seq-range) *("," sequence-set)
func (r *rend) seqSet(v []interface{}) {
	if len(v) == 0 {
		bad("empty sequence set")
	}
	for i, x := range v {
		if i > 0 {
			r.raw(",")
		}
		m := gm(x)
		r.seqNum(gf(m, "a"))
		if !gb(m, "single") {
			r.raw(":")
			r.seqNum(gf(m, "b"))
		}
	}
}

var months = []string{"Jan", "Feb", "Mar", "Apr", "May", "Jun", "Jul", "Aug", "Sep", "Oct", "Nov", "Dec"}

func (r *rend) month(n int64) {
	if n < 1 || n > 12 {
		bad("month %d", n)
	}
	r.kw(months[n-1])
}

// date = date-text / DQUOTE date-text DQUOTE ; date-text = date-day "-" date-month "-" date-year
func (r *rend) date(v interface{}) {
	m := gm(v)
	q := gb(m, "q")
	if q {
		r.raw(`"`)
	}
	if gb(m, "pad") {
		r.raw(fmt.Sprintf("%02d", gi(m, "day")))
	} else {
		r.dec(gi(m, "day"))
	}
	r.raw("-")
	r.month(gi(m, "mon"))
	r.raw("-")
	r.raw(fmt.Sprintf("%04d", gi(m, "year")))
	if q {
		r.raw(`"`)
	}
}

// date-time = DQUOTE date-day-fixed "-" date-month "-" date-year SP time SP zone DQUOTE
func (r *rend) dateTime(v interface{}) {
	m := gm(v)
	r.raw(`"`)
	if gb(m, "dsp") {
		r.raw(fmt.Sprintf(" %d", gi(m, "day")))
	} else {
		r.raw(fmt.Sprintf("%02d", gi(m, "day")))
	}
	r.raw("-")
	r.month(gi(m, "mon"))
	r.raw(fmt.Sprintf("-%04d %02d:%02d:%02d ", gi(m, "year"), gi(m, "hh"), gi(m, "mi"), gi(m, "ss")))
	r.raw(gs(m, "zs"))
	r.raw(fmt.Sprintf("%02d%02d", gi(m, "zh"), gi(m, "zm")))
	r.raw(`"`)
}

func (r *rend) flags(v []interface{}) {
	for i, f := range v {
		if i > 0 {
			r.sp()
		}
		s, ok := f.(string)
		if !ok || s == "" {
			bad("flag %v", f)
		}
		r.raw(s)
	}
}

func (r *rend) strList(v []interface{}) {
	r.raw("(")
	for i, x := range v {
		if i > 0 {
			r.sp()
		}
		r.str(x)
	}
	r.raw(")")
}

// section-msgtext / "MIME"
func (r *rend) secText(m map[string]interface{}) {
	switch sk := gs(m, "sk"); sk {
	case "HEADER", "TEXT", "MIME":
		r.kw(sk)
	case "FIELDS":
		r.kw("HEADER.FIELDS")
		r.sp()
		r.strList(gl(m, "flds"))
	case "NOTFIELDS":
		r.kw("HEADER.FIELDS.NOT")
		r.sp()
		r.strList(gl(m, "flds"))
	default:
		bad("section text %q", sk)
	}
}

// section-spec = section-msgtext / (section-part ["." section-text])
func (r *rend) section(v interface{}) {
	m := gm(v)
	if gs(m, "sk") != "PART" {
		r.secText(m)
		return
	}
	for i, p := range gl(m, "path") {
		if i > 0 {
			r.raw(".")
		}
		r.dec(num(p))
	}
	for _, s := range gl(m, "sub") {
		r.raw(".")
		r.secText(gm(s))
	}
}

func (r *rend) fetchAtt(v interface{}) {
	m := gm(v)
	a := gs(m, "a")
	if a != "BODYSEC" {
		r.kw(a)
		return
	}
	r.kw("BODY")
	if gb(m, "peek") {
		r.kw(".PEEK")
	}
	r.raw("[")
	for _, s := range gl(m, "sec") {
		r.section(s)
	}
	r.raw("]")
	for _, p := range gl(m, "part") {
		pm := gm(p)
		r.raw("<")
		r.dec(gi(pm, "off"))
		r.raw(".")
		r.dec(gi(pm, "cnt"))
		r.raw(">")
	}
}

func (r *rend) searchKey(v interface{}) {
	m := gm(v)
	k := gs(m, "k")
	strs, dates, nums, sets, subs := gl(m, "str"), gl(m, "date"), gl(m, "num"), gl(m, "set"), gl(m, "sub")
	switch k {
	case "SEQ":
		r.seqSet(sets[0].([]interface{}))
		return
	case "LIST":
		r.raw("(")
		for i, s := range subs {
			if i > 0 {
				r.sp()
			}
			r.searchKey(s)
		}
		r.raw(")")
		return
	}
	r.kw(k)
	for _, s := range strs {
		r.sp()
		r.str(s)
	}
	for _, d := range dates {
		r.sp()
		r.date(d)
	}
	for _, n := range nums {
		r.sp()
		r.dec(num(n))
	}
	for _, s := range sets {
		r.sp()
		r.seqSet(s.([]interface{}))
	}
	for _, s := range subs {
		r.sp()
		r.searchKey(s)
	}
}

var plainName = map[string]string{"UIDEXPUNGE": "EXPUNGE"}

func render(tag, kc string, cmd map[string]interface{}, rnd *rand.Rand) (out *rendered, err error) {
	r := &rend{kc: kc, rnd: rnd}
	defer func() {
		if x := recover(); x != nil {
			if re, ok := x.(renderError); ok {
				out, err = nil, re
				return
			}
			panic(x)
		}
	}()
	k := gs(cmd, "k")
	if k == "DONE" {
		r.kw("DONE")
	} else {
		if tag == "" {
			bad("empty tag")
		}
		r.raw(tag)
		r.sp()
		uid := k == "UIDEXPUNGE"
		if v, ok := cmd["uid"]; ok {
			uid = v.(bool)
		}
		if uid {
			r.kw("UID")
			r.sp()
		}
		if n, ok := plainName[k]; ok {
			r.kw(n)
		} else {
			r.kw(k)
		}
	}
	switch k {
	case "CAPABILITY", "NOOP", "LOGOUT", "STARTTLS", "CHECK", "CLOSE", "EXPUNGE", "UNSELECT", "IDLE", "DONE":
	case "LOGIN":
		r.sp()
		r.str(gf(cmd, "user"))
		r.sp()
		r.str(gf(cmd, "pass"))
	case "SELECT", "EXAMINE", "CREATE", "DELETE", "SUBSCRIBE", "UNSUBSCRIBE":
		r.sp()
		r.str(gf(cmd, "mbox"))
	case "RENAME":
		r.sp()
		r.str(gf(cmd, "mbox"))
		r.sp()
		r.str(gf(cmd, "to"))
	case "LIST", "LSUB":
		r.sp()
		r.str(gf(cmd, "mbox"))
		r.sp()
		r.str(gf(cmd, "pat"))
	case "STATUS":
		r.sp()
		r.str(gf(cmd, "mbox"))
		r.sp()
		r.raw("(")
		for i, a := range gl(cmd, "satts") {
			if i > 0 {
				r.sp()
			}
			r.kw(a.(string))
		}
		r.raw(")")
	case "APPEND":
		r.sp()
		r.str(gf(cmd, "mbox"))
		if gb(cmd, "hasflags") {
			r.sp()
			r.raw("(")
			r.flags(gl(cmd, "flags"))
			r.raw(")")
		}
		for _, d := range gl(cmd, "dt") {
			r.sp()
			r.dateTime(d)
		}
		r.sp()
		r.str(gf(cmd, "lit"))
	case "COPY", "MOVE":
		r.sp()
		r.seqSet(gl(cmd, "set"))
		r.sp()
		r.str(gf(cmd, "mbox"))
	case "UIDEXPUNGE":
		r.sp()
		r.seqSet(gl(cmd, "set"))
	case "STORE":
		r.sp()
		r.seqSet(gl(cmd, "set"))
		r.sp()
		switch a := gs(cmd, "act"); a {
		case "add":
			r.raw("+")
		case "rem":
			r.raw("-")
		case "set":
		default:
			bad("store action %q", a)
		}
		r.kw("FLAGS")
		if gb(cmd, "silent") {
			r.kw(".SILENT")
		}
		r.sp()
		if gb(cmd, "paren") {
			r.raw("(")
			r.flags(gl(cmd, "flags"))
			r.raw(")")
		} else {
			r.flags(gl(cmd, "flags"))
		}
	case "FETCH":
		r.sp()
		r.seqSet(gl(cmd, "set"))
		r.sp()
		atts := gl(cmd, "atts")
		paren := gb(cmd, "paren")
		if !paren && len(atts) != 1 {
			bad("%d attributes without parentheses", len(atts))
		}
		if paren {
			r.raw("(")
		}
		for i, a := range atts {
			if i > 0 {
				r.sp()
			}
			r.fetchAtt(a)
		}
		if paren {
			r.raw(")")
		}
	case "SEARCH":
		for _, c := range gl(cmd, "charset") {
			r.sp()
			r.kw("CHARSET")
			r.sp()
			r.str(c)
		}
		for _, key := range gl(cmd, "keys") {
			r.sp()
			r.searchKey(key)
		}
	case "ID":
		r.sp()
		if gb(cmd, "nil") {
			r.kw("NIL")
			break
		}
		r.raw("(")
		for i, p := range gl(cmd, "params") {
			if i > 0 {
				r.sp()
			}
			pm := gm(p)
			r.str(gf(pm, "key"))
			r.sp()
			val := gl(pm, "val")
			if len(val) == 0 {
				r.kw("NIL")
			} else {
				r.str(val[0])
			}
		}
		r.raw(")")
	default:
		bad("unknown command kind %q", k)
	}
	r.mark()
	r.raw("\r")
	r.mark()
	r.raw("\n")
	r.mark() // the next command arrives in a read of its own
	// de-duplicate the marks
	seen := map[int]bool{}
	var ms []int
	for _, m := range r.marks {
		if m > 0 && m <= len(r.b) && !seen[m] {
			seen[m] = true
			ms = append(ms, m)
		}
	}
	r.marks = ms
	return &r.rendered, nil
}
