package c10

import (
	"fmt"
	"sort"
	"time"

	"github.com/ProtonMail/gluon/imap/command"
)

// project maps the public AST of imap/command 1:1 onto the shape of Expected(cmd) in GluonGrammar.tla
// (objects, lists, numbers, strings). It interprets nothing: a field of the AST becomes a field of the tree.

type obj = map[string]interface{}
type list = []interface{}

func n(i int64) interface{} { return float64(i) }

func strs(s []string) list {
	out := list{}
	for _, x := range s {
		out = append(out, x)
	}
	return out
}

func pSeqNum(s command.SeqNum) obj {
	switch {
	case s == command.SeqNumValueAsterisk:
		return obj{"k": "star", "v": n(0)}
	case int64(s) == 4294967295:
		return obj{"k": "max32", "v": n(0)}
	}
	return obj{"k": "n", "v": n(int64(s))}
}

func pSet(s []command.SeqRange) list {
	out := list{}
	for _, r := range s {
		out = append(out, obj{"a": pSeqNum(r.Begin), "b": pSeqNum(r.End)})
	}
	return out
}

func pDate(t time.Time) obj {
	o := obj{"day": n(int64(t.Day())), "mon": n(int64(t.Month())), "year": n(int64(t.Year()))}
	_, off := t.Zone()
	if t.Hour() != 0 || t.Minute() != 0 || t.Second() != 0 || t.Nanosecond() != 0 || off != 0 {
		o["time"] = t.Format(time.RFC3339Nano) // a date is midnight UTC
	}
	return o
}

func pDateTime(t time.Time) obj {
	_, off := t.Zone()
	o := obj{"day": n(int64(t.Day())), "mon": n(int64(t.Month())), "year": n(int64(t.Year())),
		"hh": n(int64(t.Hour())), "mi": n(int64(t.Minute())), "ss": n(int64(t.Second())), "off": n(int64(off))}
	if t.Nanosecond() != 0 {
		o["ns"] = n(int64(t.Nanosecond()))
	}
	return o
}

func pSecLeaf(s command.BodySection) obj {
	o := obj{"flds": list{}, "path": list{}, "sub": list{}}
	switch x := s.(type) {
	case *command.BodySectionHeader:
		o["sk"] = "HEADER"
	case *command.BodySectionText:
		o["sk"] = "TEXT"
	case *command.BodySectionMIME:
		o["sk"] = "MIME"
	case *command.BodySectionHeaderFields:
		o["sk"] = "FIELDS"
		if x.Negate {
			o["sk"] = "NOTFIELDS"
		}
		o["flds"] = strs(x.Fields)
	case *command.BodySectionPart:
		o["sk"] = "PART"
		p := list{}
		for _, i := range x.Part {
			p = append(p, n(int64(i)))
		}
		o["path"] = p
		if x.Section != nil {
			o["sub"] = list{pSecLeaf(x.Section)}
		}
	default:
		o["sk"] = fmt.Sprintf("?%T", s)
	}
	return o
}

func pAtt(a command.FetchAttribute) obj {
	o := obj{"peek": false, "sec": list{}, "part": list{}}
	switch x := a.(type) {
	case *command.FetchAttributeAll:
		o["a"] = "ALL"
	case *command.FetchAttributeFull:
		o["a"] = "FULL"
	case *command.FetchAttributeFast:
		o["a"] = "FAST"
	case *command.FetchAttributeEnvelope:
		o["a"] = "ENVELOPE"
	case *command.FetchAttributeFlags:
		o["a"] = "FLAGS"
	case *command.FetchAttributeInternalDate:
		o["a"] = "INTERNALDATE"
	case *command.FetchAttributeRFC822:
		o["a"] = "RFC822"
	case *command.FetchAttributeRFC822Header:
		o["a"] = "RFC822.HEADER"
	case *command.FetchAttributeRFC822Size:
		o["a"] = "RFC822.SIZE"
	case *command.FetchAttributeRFC822Text:
		o["a"] = "RFC822.TEXT"
	case *command.FetchAttributeBody:
		o["a"] = "BODY"
	case *command.FetchAttributeBodyStructure:
		o["a"] = "BODYSTRUCTURE"
	case *command.FetchAttributeUID:
		o["a"] = "UID"
	case *command.FetchAttributeBodySection:
		o["a"] = "BODYSEC"
		o["peek"] = x.Peek
		if x.Section != nil {
			o["sec"] = list{pSecLeaf(x.Section)}
		}
		if x.Partial != nil {
			o["part"] = list{obj{"off": n(x.Partial.Offset), "cnt": n(x.Partial.Count)}}
		}
	default:
		o["a"] = fmt.Sprintf("?%T", a)
	}
	return o
}

func key(k string) obj {
	return obj{"k": k, "str": list{}, "date": list{}, "num": list{}, "set": list{}, "sub": list{}}
}
func keyS(k string, s ...string) obj          { o := key(k); o["str"] = strs(s); return o }
func keyD(k string, t time.Time) obj          { o := key(k); o["date"] = list{pDate(t)}; return o }
func keyN(k string, v int) obj                { o := key(k); o["num"] = list{n(int64(v))}; return o }
func keyQ(k string, s []command.SeqRange) obj { o := key(k); o["set"] = list{pSet(s)}; return o }

func pKey(sk command.SearchKey) obj {
	switch x := sk.(type) {
	case *command.SearchKeyAll:
		return key("ALL")
	case *command.SearchKeyAnswered:
		return key("ANSWERED")
	case *command.SearchKeyDeleted:
		return key("DELETED")
	case *command.SearchKeyFlagged:
		return key("FLAGGED")
	case *command.SearchKeyNew:
		return key("NEW")
	case *command.SearchKeyOld:
		return key("OLD")
	case *command.SearchKeyRecent:
		return key("RECENT")
	case *command.SearchKeySeen:
		return key("SEEN")
	case *command.SearchKeyUnanswered:
		return key("UNANSWERED")
	case *command.SearchKeyUndeleted:
		return key("UNDELETED")
	case *command.SearchKeyUnflagged:
		return key("UNFLAGGED")
	case *command.SearchKeyUnseen:
		return key("UNSEEN")
	case *command.SearchKeyDraft:
		return key("DRAFT")
	case *command.SearchKeyUndraft:
		return key("UNDRAFT")
	case *command.SearchKeyBCC:
		return keyS("BCC", x.Value)
	case *command.SearchKeyBody:
		return keyS("BODY", x.Value)
	case *command.SearchKeyCC:
		return keyS("CC", x.Value)
	case *command.SearchKeyFrom:
		return keyS("FROM", x.Value)
	case *command.SearchKeySubject:
		return keyS("SUBJECT", x.Value)
	case *command.SearchKeyText:
		return keyS("TEXT", x.Value)
	case *command.SearchKeyTo:
		return keyS("TO", x.Value)
	case *command.SearchKeyKeyword:
		return keyS("KEYWORD", x.Value)
	case *command.SearchKeyUnkeyword:
		return keyS("UNKEYWORD", x.Value)
	case *command.SearchKeyHeader:
		return keyS("HEADER", x.Field, x.Value)
	case *command.SearchKeyBefore:
		return keyD("BEFORE", x.Value)
	case *command.SearchKeyOn:
		return keyD("ON", x.Value)
	case *command.SearchKeySince:
		return keyD("SINCE", x.Value)
	case *command.SearchKeySentBefore:
		return keyD("SENTBEFORE", x.Value)
	case *command.SearchKeySentOn:
		return keyD("SENTON", x.Value)
	case *command.SearchKeySentSince:
		return keyD("SENTSINCE", x.Value)
	case *command.SearchKeyLarger:
		return keyN("LARGER", x.Value)
	case *command.SearchKeySmaller:
		return keyN("SMALLER", x.Value)
	case *command.SearchKeyUID:
		return keyQ("UID", x.SeqSet)
	case *command.SearchKeySeqSet:
		return keyQ("SEQ", x.SeqSet)
	case *command.SearchKeyNot:
		o := key("NOT")
		o["sub"] = list{pKey(x.Key)}
		return o
	case *command.SearchKeyOr:
		o := key("OR")
		o["sub"] = list{pKey(x.Key1), pKey(x.Key2)}
		return o
	case *command.SearchKeyList:
		o := key("LIST")
		l := list{}
		for _, k := range x.Keys {
			l = append(l, pKey(k))
		}
		o["sub"] = l
		return o
	}
	return key(fmt.Sprintf("?%T", sk))
}

func statusAtt(a command.StatusAttribute) string {
	switch a {
	case command.StatusAttributeMessages:
		return "MESSAGES"
	case command.StatusAttributeRecent:
		return "RECENT"
	case command.StatusAttributeUIDNext:
		return "UIDNEXT"
	case command.StatusAttributeUIDValidity:
		return "UIDVALIDITY"
	case command.StatusAttributeUnseen:
		return "UNSEEN"
	}
	return fmt.Sprintf("?%d", int(a))
}

func project(p command.Payload) obj { return projectUID(p, false) }

func projectUID(p command.Payload, uid bool) obj {
	mb := func(k, m string) obj { return obj{"k": k, "mbox": m} }
	switch x := p.(type) {
	case nil:
		return obj{"k": "?nil"}
	case *command.Capability:
		return obj{"k": "CAPABILITY"}
	case *command.Noop:
		return obj{"k": "NOOP"}
	case *command.Logout:
		return obj{"k": "LOGOUT"}
	case *command.StartTLS:
		return obj{"k": "STARTTLS"}
	case *command.Check:
		return obj{"k": "CHECK"}
	case *command.Close:
		return obj{"k": "CLOSE"}
	case *command.Expunge:
		return obj{"k": "EXPUNGE"}
	case *command.Unselect:
		return obj{"k": "UNSELECT"}
	case *command.Idle:
		return obj{"k": "IDLE"}
	case *command.Done:
		return obj{"k": "DONE"}
	case *command.Login:
		return obj{"k": "LOGIN", "user": x.UserID, "pass": x.Password}
	case *command.Select:
		return mb("SELECT", x.Mailbox)
	case *command.Examine:
		return mb("EXAMINE", x.Mailbox)
	case *command.Create:
		return mb("CREATE", x.Mailbox)
	case *command.Delete:
		return mb("DELETE", x.Mailbox)
	case *command.Subscribe:
		return mb("SUBSCRIBE", x.Mailbox)
	case *command.Unsubscribe:
		return mb("UNSUBSCRIBE", x.Mailbox)
	case *command.Rename:
		return obj{"k": "RENAME", "mbox": x.From, "to": x.To}
	case *command.List:
		return obj{"k": "LIST", "mbox": x.Mailbox, "pat": x.ListMailbox}
	case *command.LSub:
		return obj{"k": "LSUB", "mbox": x.Mailbox, "pat": x.LSubMailbox}
	case *command.Status:
		l := list{}
		for _, a := range x.Attributes {
			l = append(l, statusAtt(a))
		}
		return obj{"k": "STATUS", "mbox": x.Mailbox, "satts": l}
	case *command.Append:
		dt := list{}
		if x.HasDateTime() {
			dt = list{pDateTime(x.DateTime)}
		}
		return obj{"k": "APPEND", "mbox": x.Mailbox, "flags": strs(x.Flags), "dt": dt, "lit": string(x.Literal)}
	case *command.Copy:
		return obj{"k": "COPY", "uid": uid, "set": pSet(x.SeqSet), "mbox": x.Mailbox}
	case *command.Move:
		return obj{"k": "MOVE", "uid": uid, "set": pSet(x.SeqSet), "mbox": x.Mailbox}
	case *command.UIDExpunge:
		return obj{"k": "UIDEXPUNGE", "set": pSet(x.SeqSet)}
	case *command.Store:
		act := fmt.Sprintf("?%d", int(x.Action))
		switch x.Action {
		case command.StoreActionAddFlags:
			act = "add"
		case command.StoreActionRemFlags:
			act = "rem"
		case command.StoreActionSetFlags:
			act = "set"
		}
		return obj{"k": "STORE", "uid": uid, "set": pSet(x.SeqSet), "act": act, "silent": x.Silent, "flags": strs(x.Flags)}
	case *command.Fetch:
		l := list{}
		for _, a := range x.Attributes {
			l = append(l, pAtt(a))
		}
		return obj{"k": "FETCH", "uid": uid, "set": pSet(x.SeqSet), "atts": l}
	case *command.Search:
		cs := list{}
		if x.Charset != "" {
			cs = list{x.Charset}
		}
		l := list{}
		for _, k := range x.Keys {
			l = append(l, pKey(k))
		}
		return obj{"k": "SEARCH", "uid": uid, "charset": cs, "keys": l}
	case *command.IDGet:
		return obj{"k": "ID", "nil": true, "params": list{}}
	case *command.IDSet:
		ks := make([]string, 0, len(x.Values))
		for k := range x.Values {
			ks = append(ks, k)
		}
		sort.Strings(ks)
		l := list{}
		for _, k := range ks {
			l = append(l, obj{"key": k, "val": x.Values[k]})
		}
		return obj{"k": "ID", "nil": false, "params": l}
	case *command.UID:
		if uid {
			return obj{"k": "?UID(UID)"}
		}
		return projectUID(x.Command, true)
	}
	return obj{"k": fmt.Sprintf("?%T", p)}
}

// normExp prepares the tree TLC printed for comparison: a string value {s, hi} becomes the string it
// denotes, and the parameter list of ID (a map in the AST) is put in key order.
func normExp(v interface{}) interface{} {
	switch x := v.(type) {
	case map[string]interface{}:
		if len(x) == 2 {
			if s, ok := x["s"].(string); ok {
				if hi, ok := x["hi"].([]interface{}); ok {
					b := []byte(s)
					for _, h := range hi {
						b = append(b, byte(h.(float64)))
					}
					return string(b)
				}
			}
		}
		o := obj{}
		for k, e := range x {
			o[k] = normExp(e)
		}
		if o["k"] == "ID" {
			if ps, ok := o["params"].([]interface{}); ok {
				sort.SliceStable(ps, func(i, j int) bool {
					a, _ := ps[i].(obj)["key"].(string)
					b, _ := ps[j].(obj)["key"].(string)
					return a < b
				})
			}
		}
		return o
	case []interface{}:
		l := make(list, len(x))
		for i, e := range x {
			l[i] = normExp(e)
		}
		return l
	}
	return v
}

// diff finds the first difference between what the spec expects and what was parsed.
// path names the fields only (stable key); detail carries the indices and both values.
func diff(exp, act interface{}, at string) (path, what, detail string) {
	join := func(a, b string) string {
		if a == "" {
			return b
		}
		return a + "." + b
	}
	switch e := exp.(type) {
	case map[string]interface{}:
		a, ok := act.(map[string]interface{})
		if !ok {
			return at, "type", fmt.Sprintf("at %s: expected %s, parsed %s", at, js(exp), js(act))
		}
		// the kind first: the most telling difference
		names := make([]string, 0, len(e))
		for k := range e {
			names = append(names, k)
		}
		sort.Slice(names, func(i, j int) bool {
			ki := names[i] == "k" || names[i] == "a" || names[i] == "sk"
			kj := names[j] == "k" || names[j] == "a" || names[j] == "sk"
			if ki != kj {
				return ki
			}
			return names[i] < names[j]
		})
		for _, k := range names {
			av, ok := a[k]
			if !ok {
				return join(at, k), "missing", fmt.Sprintf("at %s: %s expected %s, nothing parsed", at, k, js(e[k]))
			}
			if p, w, d := diff(e[k], av, join(at, k)); w != "" {
				return p, w, d
			}
		}
		for k := range a {
			if _, ok := e[k]; !ok {
				return join(at, k), "extra", fmt.Sprintf("at %s: parsed %s=%s which the command does not contain", at, k, js(a[k]))
			}
		}
		return "", "", ""
	case []interface{}:
		a, ok := act.([]interface{})
		if !ok {
			return at, "type", fmt.Sprintf("at %s: expected %s, parsed %s", at, js(exp), js(act))
		}
		for i := 0; i < len(e) && i < len(a); i++ {
			if p, w, d := diff(e[i], a[i], at); w != "" {
				return p, w, fmt.Sprintf("[element %d] %s", i+1, d)
			}
		}
		if len(e) != len(a) {
			w := "dropped"
			if len(a) > len(e) {
				w = "added"
			}
			return at, w, fmt.Sprintf("at %s: expected %d elements %s, parsed %d %s", at, len(e), js(exp), len(a), js(act))
		}
		return "", "", ""
	default:
		if exp != act {
			return at, "value", fmt.Sprintf("at %s: expected %s, parsed %s", at, js(exp), js(act))
		}
		return "", "", ""
	}
}
