package c10

import (
	"encoding/json"
	"errors"
	"fmt"
	"path/filepath"
	"runtime"
	"sync"
	"time"

	"github.com/ProtonMail/gluon/imap/command"
	"github.com/ProtonMail/gluon/rfcparser"
	"github.com/ProtonMail/gluon/verif/pkg/ev"
	"github.com/ProtonMail/gluon/verif/pkg/tlc"
)

// truncated parses the first cut bytes of input followed by the end of the stream; "" = the parser returned.
func truncated(input []byte, cut int) (key, detail string) {
	src := newChunkReader(input[:cut], nil, nil, false)
	parser := command.NewParserWithLiteralContinuationCb(rfcparser.NewScanner(src), func() error { return nil })
	_, perror, pan, stack := safeParse(parser)
	switch {
	case pan != nil:
		if e, ok := pan.(error); ok && errors.Is(e, errSpin) {
			return "spin", "the parser never returns: it keeps reading after the end of the input (a session's reader goroutine spins on a closed connection, its buffer grows)"
		}
		return "panic", fmt.Sprintf("the parser panicked: %v\n%s", pan, tailStr(stack, 1200))
	case perror == nil && cut < len(input):
		// a proper prefix of a command line is not a command (the line's CRLF is missing)
		return "accepted", "the parser returned a command although the line was cut off before its end"
	}
	return "", ""
}

// TruncationSweep is the parser-level part of C11 ("streams that end in the middle of a token, string or literal"): every
// command of the bounded grammar GluonGrammar enumerates is cut off after every byte (long lines: a spread of positions)
// and handed to the real parser with the end of the stream behind it. The parser has to return - it must not panic, not
// read on at the end of the input, not accept the torso as a command.
func TruncationSweep(r *ev.Run, tier string) {
	type item struct {
		idx int64
		raw []byte
	}
	type hit struct {
		idx         int64
		key, detail string
		input       []byte
		cut         int
	}
	nw := runtime.NumCPU()
	if nw > 8 {
		nw = 8
	}
	ch := make(chan item, 4096)
	var (
		mu      sync.Mutex
		best    = map[string]hit{}
		parses  int64
		cases   int64
		wg      sync.WaitGroup
		stride  = int64(1)
		machine []string
	)
	if tier == "thorough" {
		stride = 3 // every third case of the larger grammar: the positions inside a command are what matters
	}
	for w := 0; w < nw; w++ {
		wg.Add(1)
		go func() {
			defer wg.Done()
			for it := range ch {
				var c tcase
				if err := json.Unmarshal(it.raw, &c); err != nil || c.Cmd == nil {
					continue
				}
				kind, _ := c.Cmd["k"].(string)
				rd, err := render(c.Tag, c.KC, c.Cmd, nil)
				if err != nil {
					mu.Lock()
					if len(machine) < 3 {
						machine = append(machine, fmt.Sprintf("cannot render case %.200s: %v", it.raw, err))
					}
					mu.Unlock()
					continue
				}
				n := len(rd.b)
				var local int64
				for p := 1; p < n; p++ {
					if n > 240 && p > 120 && p < n-60 && p%7 != 0 {
						continue
					}
					local++
					if key, detail := truncated(rd.b, p); key != "" {
						k := "truncated/" + key + "/" + kind
						mu.Lock()
						if h, ok := best[k]; !ok || it.idx < h.idx || (it.idx == h.idx && p < h.cut) {
							best[k] = hit{idx: it.idx, key: k, input: append([]byte{}, rd.b...), cut: p,
								detail: fmt.Sprintf("%s\ninput cut off after byte %d of %d: %q (the whole line: %q)", detail, p, n, rd.b[:p], rd.b)}
						}
						mu.Unlock()
					}
				}
				mu.Lock()
				parses += local
				cases++
				mu.Unlock()
			}
		}()
	}
	var idx int64
	cfg := filepath.Join(ev.Root(), "spec", "cfg", "GluonGrammar."+tier+".cfg")
	res, err := tlc.Run(tlc.Options{
		SpecDir: filepath.Join(ev.Root(), "spec"), Module: "GluonGrammar", Cfg: cfg,
		Workers: 8, Timeout: 20 * time.Minute, KeepOutput: true,
		OnJSON: func(raw []byte) {
			if idx%stride == 0 {
				ch <- item{idx: idx, raw: append([]byte{}, raw...)}
			}
			idx++
		},
	})
	close(ch)
	wg.Wait()
	if err != nil || res.Violated != "" || res.Error != "" || !res.Finished || res.TimedOut {
		r.Machinery("truncation sweep: TLC on GluonGrammar did not finish cleanly: err=%v violated=%q error=%q", err, res.Violated, res.Error)
		return
	}
	for _, m := range machine {
		r.Machinery("truncation sweep: %s", m)
	}
	for _, h := range best {
		r.Violate(h.key, h.detail, map[string]interface{}{"truncated": map[string]interface{}{"input": string(h.input), "cut": h.cut}})
	}
	r.Add("truncation_cases", cases)
	r.Add("truncation_parser_runs", parses)
	r.Add("states", res.Distinct)
	r.Add("transitions", res.Generated)
}

// TruncationReplay re-executes one recorded truncation.
func TruncationReplay(r *ev.Run, raw json.RawMessage) bool {
	var t struct {
		Input string `json:"input"`
		Cut   int    `json:"cut"`
	}
	if json.Unmarshal(raw, &t) != nil || t.Input == "" || t.Cut <= 0 || t.Cut > len(t.Input) {
		return false
	}
	if key, detail := truncated([]byte(t.Input), t.Cut); key != "" {
		r.Violate("truncated/"+key+"/replay", detail, map[string]interface{}{"truncated": t})
	}
	r.Add("truncation_parser_runs", 1)
	return true
}
