// Package c10: every valid IMAP command parses to exactly the command that was written.
//
// TLC enumerates the cases of spec/GluonGrammar.tla: an abstract command whose string leaves carry
// an encoding choice (atom / quoted / literal) plus the letter case of keywords and the tag, and
// prints each with Expected(cmd), the command without those choices. This driver
//
//	(a) renders the bytes of the case (render.go: a pretty printer that follows the choices),
//	(b) feeds them, followed by a second command, to the real imap/command.Parser in one piece and
//	    split across reads (every byte, every boundary of a literal header / CRLF / quoted escape,
//	    seeded random cuts, and with the literal data withheld until the continuation callback),
//	(c) projects the public AST back to the shape of Expected (project.go) and compares.
//
// The Go side holds no second model: what is expected comes from TLC.
package c10

import (
	"encoding/json"
	"errors"
	"fmt"
	"hash/fnv"
	"io"
	"math/rand"
	"os"
	"path/filepath"
	"regexp"
	"runtime"
	"runtime/debug"
	"sort"
	"strings"
	"sync"
	"time"

	"github.com/ProtonMail/gluon/imap/command"
	"github.com/ProtonMail/gluon/rfcparser"
	"github.com/ProtonMail/gluon/verif/drivers"
	"github.com/ProtonMail/gluon/verif/pkg/ev"
	"github.com/ProtonMail/gluon/verif/pkg/tlc"
)

func init() { drivers.Register("C10", "model_checking", run) }

type tcase struct {
	Tag string                 `json:"tag"`
	KC  string                 `json:"kc"`
	Cmd map[string]interface{} `json:"cmd"`
	Exp map[string]interface{} `json:"exp"`
}

// sentinel is a second, pipelined command: it must come out intact whatever the first one was.
const (
	sentinelTag  = "ZZ9"
	sentinelLine = sentinelTag + " NOOP\r\n"
	// the follower of mode "pipelined" carries literals of its own: whatever the first command returned must not change
	// while the parser goes on with the connection (APPEND hands out the literal it read)
	sentinelPipe = sentinelTag + " LOGIN {1}\r\n~ {1}\r\n~\r\n"
)

var (
	errWouldBlock = errors.New("verif: the parser reads on although the client is waiting for the command continuation request")
	errSpin       = errors.New("verif: the parser keeps reading at end of input")
)

// chunkReader hands the stream out in pieces: a Read never crosses a cut and, when gated, never
// passes a gate (first byte of literal data) before the continuation callback was invoked.
type chunkReader struct {
	data     []byte
	pos      int
	cuts     []int // sorted
	gates    []int // sorted; nil = not gated
	gateIdx  int
	released int
	blocked  bool
	eofReads int
	reads    int
}

func newChunkReader(data []byte, cuts []int, gates []int, gated bool) *chunkReader {
	r := &chunkReader{data: data, cuts: cuts, released: len(data)}
	if gated {
		r.gates = gates
		if len(gates) > 0 {
			r.released = gates[0]
		}
	}
	return r
}

func (r *chunkReader) cont() {
	if r.gates == nil {
		return
	}
	r.gateIdx++
	if r.gateIdx < len(r.gates) {
		r.released = r.gates[r.gateIdx]
	} else {
		r.released = len(r.data)
	}
}

func (r *chunkReader) Read(p []byte) (int, error) {
	r.reads++
	if r.pos >= len(r.data) {
		r.eofReads++
		if r.eofReads > 5000 {
			panic(errSpin)
		}
		return 0, io.EOF
	}
	if r.pos >= r.released {
		r.blocked = true
		return 0, errWouldBlock
	}
	limit := r.released
	i := sort.SearchInts(r.cuts, r.pos+1)
	if i < len(r.cuts) && r.cuts[i] < limit {
		limit = r.cuts[i]
	}
	n := copy(p, r.data[r.pos:limit])
	r.pos += n
	return n, nil
}

type mode struct {
	pipe  bool // the following command holds literals (pipelined client)
	name  string
	cuts  []int
	gated bool
	cb    bool
	kc    string // "" = the keyword case of the case
}

// problem is one disagreement between the real parser and the case.
type problem struct {
	key, detail string
	hist        []string // connection mode: the commands parsed earlier on the same connection
}

type outcome struct {
	problems  []problem
	machinery string
	parses    int
}

func perr(err error) string {
	var pe *rfcparser.Error
	if errors.As(err, &pe) {
		return pe.Message
	}
	return err.Error()
}

var quotedData = regexp.MustCompile(`'[^']*'?`)

func keyText(s string) string {
	s = quotedData.ReplaceAllString(s, "'_'") // the offending text is data, not part of the shape
	s = strings.Map(func(r rune) rune {
		if r < 32 || r > 126 || r == '/' {
			return '_'
		}
		return r
	}, s)
	if len(s) > 70 {
		s = s[:70]
	}
	return s
}

// safeParse runs one Parse of the real parser; a panic is an observation, not a crash of the harness.
func safeParse(p *command.Parser) (cmd command.Command, err error, panicked interface{}, stack string) {
	defer func() {
		if x := recover(); x != nil {
			panicked = x
			stack = string(debug.Stack())
		}
	}()
	cmd, err = p.Parse()
	return
}

// execute runs one case under one mode and returns what disagrees.
func execute(c *tcase, kind string, exp interface{}, m mode, rng *rand.Rand) (out []problem, machinery string) {
	kc := c.KC
	if m.kc != "" {
		kc = m.kc
	}
	rd, err := render(c.Tag, kc, c.Cmd, rng)
	if err != nil {
		return nil, fmt.Sprintf("cannot render case %v: %v", c.Cmd, err)
	}
	sentinelLine := sentinelLine
	if m.pipe {
		sentinelLine = sentinelPipe
	}
	stream := append(append([]byte{}, rd.b...), sentinelLine...)
	cuts := m.cuts
	switch m.name {
	case "marks", "gated":
		cuts = rd.marks
	case "bytewise":
		cuts = make([]int, len(stream))
		for i := range cuts {
			cuts[i] = i
		}
	case "random":
		set := map[int]bool{}
		for i, n := 0, 1+rng.Intn(3); i < n; i++ {
			set[1+rng.Intn(len(stream)-1)] = true
		}
		for _, mk := range rd.marks {
			if rng.Intn(3) == 0 {
				set[mk] = true
			}
		}
		cuts = cuts[:0]
		for k := range set {
			cuts = append(cuts, k)
		}
		sort.Ints(cuts)
	}
	src := newChunkReader(stream, cuts, rd.gates, m.gated)
	calls := 0
	var parser *command.Parser
	if m.cb {
		parser = command.NewParserWithLiteralContinuationCb(rfcparser.NewScanner(src), func() error {
			calls++
			src.cont()
			return nil
		})
	} else {
		parser = command.NewParser(rfcparser.NewScanner(src))
	}
	where := func() string {
		return fmt.Sprintf("input %q\nmode %s (reads split before offsets %v, gated=%v, callback=%v)\nspec expects tag=%q %s",
			rd.b, m.name, cuts, m.gated, m.cb, c.Tag, js(exp))
	}
	add := func(key, format string, a ...interface{}) {
		out = append(out, problem{key: key, detail: fmt.Sprintf(format, a...) + "\n" + where()})
	}

	got, perror, pan, stack := safeParse(parser)
	switch {
	case pan != nil:
		if e, ok := pan.(error); ok && errors.Is(e, errSpin) {
			add("hang-at-eof/"+kind, "the parser never returns: it keeps reading after the end of the input")
		} else {
			add("panic/"+kind, "the parser panicked: %v\n%s", pan, tailStr(stack, 1500))
		}
		return
	case perror != nil && src.blocked:
		add("literal-continuation/read-before-continuation/"+kind,
			"the parser tried to read literal data (or beyond) before asking for the command continuation request: a real client would wait forever (error: %v)", perror)
		return
	case perror != nil:
		add("parse-error/"+keyText(perr(perror))+"/"+kind, "a valid command was refused: %v", perror)
		return
	}
	// what happened around the parse: continuation requests, and the command that follows on the connection
	var side []problem
	note := func(key, format string, a ...interface{}) {
		side = append(side, problem{key: key, detail: fmt.Sprintf(format, a...)})
	}
	if m.cb && calls != rd.lits {
		w := "missing"
		if calls > rd.lits {
			w = "extra"
		}
		note("literal-continuation/"+w+"/"+kind, "the command holds %d literals but the continuation callback was invoked %d times", rd.lits, calls)
	}
	got2, perror2, pan2, stack2 := safeParse(parser)
	switch {
	case pan2 != nil:
		if e, ok := pan2.(error); ok && errors.Is(e, errSpin) {
			note("stream-desync/hang/"+kind, "parsing the next command (%q) never returns", sentinelLine)
		} else {
			note("stream-desync/panic/"+kind, "parsing the next command (%q) panicked: %v\n%s", sentinelLine, pan2, tailStr(stack2, 1500))
		}
	case perror2 != nil:
		note("stream-desync/error/"+kind, "the next command on the connection (%q) was refused: %v: the first one did not consume exactly its own bytes", sentinelLine, perror2)
	default:
		ok2 := false
		if m.pipe {
			l, ok := got2.Payload.(*command.Login)
			ok2 = ok && l.UserID == "~" && l.Password == "~"
		} else {
			_, ok2 = got2.Payload.(*command.Noop)
		}
		if !ok2 || got2.Tag != sentinelTag {
			note("stream-desync/wrong/"+kind, "the next command on the connection (%q) was parsed as tag=%q %s", sentinelLine, got2.Tag, js(project(got2.Payload)))
		}
	}
	// the result itself; when it is wrong, the side effects are consequences and go into its detail
	act := project(got.Payload)
	path, what, detail := diff(exp, act, "")
	if got.Tag != c.Tag || what != "" {
		var also strings.Builder
		for _, p := range side {
			also.WriteString("\nalso: " + p.detail)
		}
		if got.Tag != c.Tag {
			add(kind+"/tag/value", "parsed tag %q%s", got.Tag, also.String())
		}
		if what != "" {
			add(kind+"/"+path+"/"+what, "%s\nparsed as %s%s", detail, js(act), also.String())
		}
		return
	}
	for _, p := range side {
		add(p.key, "%s", p.detail)
	}
	return
}

// connState is one long-lived connection: ONE parser instance parses command after command, as a session does (the
// parser, its scanner and whatever they remember live as long as the connection).
type connState struct {
	rd     *growReader
	parser *command.Parser
	hist   []string
}

type growReader struct {
	buf []byte
	pos int
}

func (g *growReader) Read(p []byte) (int, error) {
	if g.pos >= len(g.buf) {
		return 0, io.EOF
	}
	n := copy(p, g.buf[g.pos:])
	g.pos += n
	return n, nil
}

func (cs *connState) reset() {
	cs.rd = &growReader{}
	cs.parser = command.NewParserWithLiteralContinuationCb(rfcparser.NewScanner(cs.rd), func() error { return nil })
	cs.hist = nil
}

// replayHistory: (replay of a connection-mode violation) the commands that came first on that connection
var replayHistory []string

// feed parses the case as the next command of the connection; nil = as expected.
func (cs *connState) feed(c *tcase, kind string, exp interface{}) *problem {
	if cs.parser == nil {
		cs.reset()
		for _, h := range replayHistory {
			cs.rd.buf = append(cs.rd.buf[cs.rd.pos:], h...)
			cs.rd.pos = 0
			cs.hist = append(cs.hist, h)
			if _, err, pan, _ := safeParse(cs.parser); err != nil || pan != nil {
				cs.reset()
			}
		}
	}
	rd, err := render(c.Tag, c.KC, c.Cmd, nil)
	if err != nil {
		return nil
	}
	cs.rd.buf = append(cs.rd.buf[cs.rd.pos:], rd.b...)
	cs.rd.pos = 0
	before := len(cs.hist)
	got, perror, pan, stack := safeParse(cs.parser)
	fail := func(key, format string, a ...interface{}) *problem {
		h := cs.hist
		if len(h) > 400 {
			h = h[len(h)-400:]
		}
		p := &problem{key: "connection-state/" + key, hist: append([]string{}, h...),
			detail: fmt.Sprintf(format, a...) + fmt.Sprintf("\ninput %q parsed as command number %d of one connection (one parser instance); the same bytes parse as expected on a fresh parser\nspec expects tag=%q %s\nthe commands before it (last 5 of %d): %q",
				rd.b, before+1, c.Tag, js(exp), before, cs.hist[max(0, before-5):])}
		cs.reset()
		return p
	}
	switch {
	case pan != nil:
		return fail("panic/"+kind, "the parser panicked: %v\n%s", pan, tailStr(stack, 1200))
	case perror != nil:
		return fail("parse-error/"+keyText(perr(perror))+"/"+kind, "a valid command was refused: %v", perror)
	}
	act := project(got.Payload)
	path, what, detail := diff(exp, act, "")
	if got.Tag != c.Tag {
		return fail(kind+"/tag/value", "parsed tag %q", got.Tag)
	}
	if what != "" {
		return fail(kind+"/"+path+"/"+what, "%s\nparsed as %s", detail, js(act))
	}
	cs.hist = append(cs.hist, string(rd.b))
	if len(cs.hist) > 5000 {
		cs.reset() // a new connection now and then
	}
	return nil
}

func tailStr(s string, n int) string {
	if len(s) > n {
		return s[len(s)-n:]
	}
	return s
}

func js(v interface{}) string {
	b, _ := json.Marshal(v)
	return string(b)
}

var simpleKinds = map[string]bool{"CAPABILITY": true, "NOOP": true, "LOGOUT": true, "STARTTLS": true, "CHECK": true,
	"CLOSE": true, "EXPUNGE": true, "UNSELECT": true, "IDLE": true, "DONE": true}

// runCase executes one case under every mode. Problems that show only when the input is split carry the prefix "split/".
func runCase(c *tcase, seed int64, counts map[string]int64) (o outcome, sig string) {
	kind, _ := c.Cmd["k"].(string)
	exp := normExp(c.Exp)
	base, err := render(c.Tag, c.KC, c.Cmd, nil)
	if err != nil {
		o.machinery = fmt.Sprintf("cannot render case %s: %v", js(c.Cmd), err)
		return
	}
	sig = string(base.b)
	h := fnv.New64a()
	h.Write(base.b)
	rng := rand.New(rand.NewSource(seed*1000003 + int64(h.Sum64()>>1)))
	modes := []mode{
		{name: "whole"},
		{name: "whole-cb", cb: true},
		{name: "pipelined", pipe: true},
		{name: "bytewise", cb: true},
		{name: "marks", cb: true},
		{name: "gated", cb: true, gated: true},
		{name: "random", cb: true, gated: rng.Intn(2) == 0},
		{name: "random-case", cb: true, kc: "random"},
	}
	wholeBad := false
	seen := map[string]bool{}
	for _, m := range modes {
		ps, mach := execute(c, kind, exp, m, rng)
		counts[m.name]++
		o.parses++
		if mach != "" {
			o.machinery = mach
			return
		}
		if m.name == "whole" && len(ps) > 0 {
			wholeBad = true
		}
		for _, p := range ps {
			if m.name != "whole" && m.name != "whole-cb" && !wholeBad && !strings.HasPrefix(p.key, "literal-continuation/") {
				if m.name == "random-case" {
					p.key = "keyword-case/" + p.key
				} else if m.name == "pipelined" {
					p.key = "pipelined/" + p.key
				} else {
					p.key = "split/" + p.key
				}
			}
			if !seen[p.key] {
				seen[p.key] = true
				o.problems = append(o.problems, p)
			}
		}
	}
	return
}

type found struct {
	idx int64
	p   problem
	raw json.RawMessage
}

func run(r *ev.Run, tier, replay string) {
	seed := ev.Seed()
	type item struct {
		idx int64
		raw []byte
	}
	nw := runtime.NumCPU()
	if nw > 12 {
		nw = 12
	}
	if nw < 2 {
		nw = 2
	}
	ch := make(chan item, 4096)
	var (
		mu        sync.Mutex
		best      = map[string]found{} // per key: the earliest case
		machinery []string
		executed  int64
		parses    int64
		counts    = map[string]int64{}
		kinds     = map[string]int64{}
		samples   = map[string]interface{}{}
		wg        sync.WaitGroup
	)
	for w := 0; w < nw; w++ {
		wg.Add(1)
		go func() {
			defer wg.Done()
			lc := map[string]int64{}
			cs := &connState{}
			for it := range ch {
				var c tcase
				if err := json.Unmarshal(it.raw, &c); err != nil || c.Cmd == nil || c.Exp == nil {
					mu.Lock()
					machinery = append(machinery, fmt.Sprintf("case %d is not a case document: %v: %.200s", it.idx, err, it.raw))
					mu.Unlock()
					continue
				}
				var o outcome
				var sig string
				func() {
					defer func() {
						if x := recover(); x != nil {
							o.machinery = fmt.Sprintf("harness panic on case %.300s: %v\n%s", it.raw, x, tailStr(string(debug.Stack()), 1500))
						}
					}()
					o, sig = runCase(&c, seed, lc)
					if o.machinery == "" && len(o.problems) == 0 {
						// the eighth way: the same parser instance that has parsed every earlier case of this worker
						kind, _ := c.Cmd["k"].(string)
						if p := cs.feed(&c, kind, normExp(c.Exp)); p != nil {
							o.problems = append(o.problems, *p)
						}
						lc["connection"]++
						o.parses++
					}
				}()
				kind, _ := c.Cmd["k"].(string)
				r.Eval(fmt.Sprintf("%q", sig), !simpleKinds[kind])
				mu.Lock()
				executed++
				parses += int64(o.parses)
				kinds[kind]++
				if o.machinery != "" && len(machinery) < 5 {
					machinery = append(machinery, o.machinery)
				}
				for _, p := range o.problems {
					if f, ok := best[p.key]; !ok || it.idx < f.idx {
						best[p.key] = found{idx: it.idx, p: p, raw: append(json.RawMessage{}, it.raw...)}
					}
				}
				if kind == "FETCH" || kind == "SEARCH" || kind == "APPEND" || kind == "LIST" || kind == "STORE" || kind == "ID" {
					if cur, ok := samples[kind]; !ok || (len(sig) <= 140 && len(sig) > len(cur.(map[string]interface{})["input"].(string))) {
						samples[kind] = map[string]interface{}{"input": sig, "keyword_case": c.KC, "expected": c.Exp}
					}
				}
				mu.Unlock()
			}
			mu.Lock()
			for k, v := range lc {
				counts[k] += v
			}
			mu.Unlock()
		}()
	}

	var idx int64
	clean := true
	if replay != "" {
		b, err := os.ReadFile(replay)
		if err != nil {
			r.Machinery("replay: %v", err)
			close(ch)
			wg.Wait()
			return
		}
		var rp struct {
			Replay struct {
				Case    json.RawMessage `json:"case"`
				Seed    int64           `json:"seed"`
				History []string        `json:"history"`
			} `json:"replay"`
		}
		if err := json.Unmarshal(b, &rp); err != nil || len(rp.Replay.Case) == 0 {
			r.Machinery("replay file: %v", err)
			close(ch)
			wg.Wait()
			return
		}
		if rp.Replay.Seed != 0 {
			seed = rp.Replay.Seed
		}
		replayHistory = rp.Replay.History
		ch <- item{idx: 0, raw: rp.Replay.Case}
		idx = 1
		close(ch)
		wg.Wait()
		r.Set("states", 1)
		r.Set("transitions", 1)
	} else {
		cfg := filepath.Join(ev.Root(), "spec", "cfg", "GluonGrammar."+tier+".cfg")
		res, err := tlc.Run(tlc.Options{
			SpecDir: filepath.Join(ev.Root(), "spec"), Module: "GluonGrammar", Cfg: cfg,
			Workers: 8, Timeout: 20 * time.Minute, KeepOutput: true,
			OnJSON: func(raw []byte) {
				ch <- item{idx: idx, raw: append([]byte{}, raw...)}
				idx++
			},
		})
		close(ch)
		wg.Wait()
		if err != nil {
			r.Machinery("tlc: %v", err)
			return
		}
		if res.Violated != "" || res.Error != "" || !res.Finished || res.TimedOut {
			r.Machinery("TLC on GluonGrammar did not finish cleanly: violated=%q error=%q timeout=%v\n%s", res.Violated, res.Error, res.TimedOut, tailStr(res.Output, 3000))
			clean = false
		} else if idx != res.Distinct {
			r.Machinery("TLC printed %d cases but found %d states", idx, res.Distinct)
			clean = false
		}
		r.Set("states", res.Distinct)
		r.Set("transitions", res.Generated)
		r.Set("tlc_wall_s", res.Wall.Seconds())
	}
	for _, m := range machinery {
		r.Machinery("%s", m)
	}
	if !clean {
		return // no verdict from an unclean enumeration
	}
	keys := make([]string, 0, len(best))
	for k := range best {
		keys = append(keys, k)
	}
	sort.Slice(keys, func(i, j int) bool {
		if best[keys[i]].idx != best[keys[j]].idx {
			return best[keys[i]].idx < best[keys[j]].idx
		}
		return keys[i] < keys[j]
	})
	for _, k := range keys {
		f := best[k]
		rp := map[string]interface{}{"case": f.raw, "seed": seed}
		if len(f.p.hist) > 0 {
			rp["history"] = f.p.hist
		}
		r.Violate(k, f.p.detail, rp)
	}
	skeys := make([]string, 0, len(samples))
	for k := range samples {
		skeys = append(skeys, k)
	}
	sort.Strings(skeys)
	for _, k := range skeys {
		r.Sample(samples[k])
	}
	r.Set("traces_validated_against_impl", executed)
	r.Set("parser_runs", parses)
	r.Set("parser_runs_per_mode", counts)
	r.Set("cases_per_command", kinds)
	r.Set("distinct_failure_shapes", int64(len(best)))
	r.Set("exhaustive", true)
	r.Set("rule", "one case = (abstract command with an atom/quoted/literal choice per string argument and the optional-syntax choices, keyword letter case, tag) enumerated exhaustively by TLC from GluonGrammar together with Expected(cmd); every case is rendered and parsed by imap/command.Parser 8 times (as the next command of a long-lived connection - one parser instance for thousands of consecutive cases, as a session keeps one; whole without and with continuation callback, byte by byte, split at every literal-header/CRLF/quoted-escape boundary, the same with literal data withheld until the continuation callback, seeded random cuts, seeded random keyword case), each followed by a pipelined NOOP that must parse intact; the projected AST must equal Expected; non-trivial = the command has arguments (all but the ten argument-less commands); distinct = distinct rendered bytes. Exhaustive over the bounded grammar of the cfg, not over the unbounded one; the random cuts and random keyword case are samples on top")
	r.Assumptions = []string{
		"the renderer (harness/drivers/c10/render.go) is a faithful pretty printer of the RFC 3501/2971/4315/6851/2177/3691 grammar for the abstract commands of GluonGrammar",
		"TLC integers stop at 2^31-1: 4294967295 is symbolic in sequence sets (max32) and rendered by the harness; non-ASCII text is carried as bytes (field hi)",
		"deliberate normalisations modelled in Expected: INBOX in any letter case is INBOX; seq-number x is the range x:x; a zone is its offset in seconds; a date is midnight UTC; NIL as an ID value is the empty string; APPEND without flag list and with () both have no flags; ID parameters are a map",
	}
}
