// Package validity is the UIDVALIDITY part of C04 (GluonValidity.tla): mailbox names are created, deleted and
// re-created, all validities are bumped by the connector and the server is restarted on the same directories with
// the real default (epoch) generator; a name must never get a UIDVALIDITY that is not above every value it had.
package validity

import (
	"encoding/json"
	"fmt"
	"path/filepath"
	"regexp"
	"strconv"
	"strings"
	"time"

	"github.com/ProtonMail/gluon/imap"
	"github.com/ProtonMail/gluon/verif/pkg/ev"
	"github.com/ProtonMail/gluon/verif/pkg/fixture"
	"github.com/ProtonMail/gluon/verif/pkg/tlc"
	"github.com/ProtonMail/gluon/verif/pkg/wire"
)

type step struct {
	Act   string         `json:"act"`
	S     string         `json:"s"`
	Name  string         `json:"name"`
	Dt    int            `json:"dt"`
	Value int            `json:"value"`
	F16   bool           `json:"f16"`
	Val   map[string]int `json:"val"`
	Ahead bool           `json:"ahead"`
}

type trace struct {
	Steps []step `json:"trace"`
}

func (t *trace) sig() string {
	var b strings.Builder
	for _, s := range t.Steps {
		fmt.Fprintf(&b, "%s/%s/%s/%d;", s.Act, s.S, s.Name, s.Dt)
	}
	return b.String()
}

type rig struct {
	srv  *fixture.Server
	conn *fixture.VConn
	c    *wire.Client            // observer: STATUS
	cs   map[string]*wire.Client // the model's client sessions
	now  int
	log  []string
}

func (r *rig) logf(f string, a ...interface{}) { r.log = append(r.log, fmt.Sprintf(f, a...)) }

// epoch such that "seconds since epoch" is `now` and stays so for the next ~0.9 s
func epochFor(now int) time.Time {
	return time.Now().Add(-time.Duration(now)*time.Second - 50*time.Millisecond)
}

func start(now int, old *rig) (*rig, error) {
	cfg := fixture.Config{}
	conn := fixture.NewVConn(map[string]string{"user": "pass"})
	if old != nil {
		cfg = old.srv.Cfg
		conn.CarryOver(old.conn)
		cfg.Users = []fixture.User{{Name: "user", Pass: "pass", ID: old.srv.Users[0].ID, Conn: conn}}
	} else {
		cfg.Users = []fixture.User{{Name: "user", Pass: "pass", Conn: conn}}
	}
	cfg.UIDValidity = imap.NewEpochUIDValidityGenerator(epochFor(now))
	srv, err := fixture.StartServer(cfg)
	if err != nil {
		return nil, err
	}
	c, err := wire.Dial(srv.Addr)
	if err != nil {
		return nil, err
	}
	if res := c.Login("user", "pass"); res.Status != "OK" {
		return nil, fmt.Errorf("login: %s %s", res.Status, res.Text)
	}
	rg := &rig{srv: srv, conn: conn, c: c, now: now, cs: map[string]*wire.Client{}}
	for _, name := range []string{"s1", "s2"} {
		sc, err := wire.Dial(srv.Addr)
		if err != nil {
			return nil, err
		}
		if res := sc.Login("user", "pass"); res.Status != "OK" {
			return nil, fmt.Errorf("login: %s %s", res.Status, res.Text)
		}
		rg.cs[name] = sc
	}
	return rg, nil
}

func (r *rig) closeClients() {
	r.c.Close()
	for _, c := range r.cs {
		c.Close()
	}
}

// session returns the connection of a model session ("" in scripted witnesses = s1).
func (r *rig) session(s string) *wire.Client {
	if c := r.cs[s]; c != nil {
		return c
	}
	return r.cs["s1"]
}

// remoteID of a mailbox the connector knows by name.
func (r *rig) remoteID(name string) (imap.MailboxID, bool) {
	for id, n := range r.conn.Mailboxes {
		if len(n) == 1 && n[0] == name {
			return id, true
		}
	}
	return "", false
}

var reUIDV = regexp.MustCompile(`UIDVALIDITY (\d+)`)

func (r *rig) validity(name string) (int, error) {
	res := r.c.Cmd("STATUS " + name + " (UIDVALIDITY)")
	if res.Status != "OK" {
		return 0, fmt.Errorf("STATUS %s: %s %s", name, res.Status, res.Text)
	}
	for _, l := range res.Untagged {
		if m := reUIDV.FindStringSubmatch(l.Text); m != nil {
			return strconv.Atoi(m[1])
		}
	}
	return 0, fmt.Errorf("STATUS %s: no UIDVALIDITY in %v", name, res.Untagged)
}

// Run is called by the C04 check (one worker): model-checks GluonValidity and replays simulated behaviours.
func Run(r *ev.Run, tier string) {
	specDir := filepath.Join(ev.Root(), "spec")
	for _, cfg := range []string{"GluonValidity.intended.cfg", "GluonValidity.code.cfg"} {
		res, err := tlc.Run(tlc.Options{SpecDir: specDir, Module: "GluonValidity", Cfg: filepath.Join(specDir, "cfg", cfg), Workers: 4, Timeout: 10 * time.Minute, KeepOutput: true})
		if err != nil || res.Violated != "" || res.Error != "" || !res.Finished {
			r.Machinery("TLC on %s: err=%v violated=%q error=%q (model-level, not a verdict)", cfg, err, res.Violated, res.Error)
			return
		}
		r.Add("states", res.Distinct)
		r.Add("transitions", res.Generated)
	}
	num := 40
	if tier == "thorough" {
		num = 600
	}
	var traces []*trace
	res, err := tlc.Run(tlc.Options{SpecDir: specDir, Module: "GluonValidity", Cfg: filepath.Join(specDir, "cfg", "GluonValidity.sim.cfg"),
		Workers: 1, Simulate: true, SimNum: num, SimDepth: 40, Seed: ev.Seed()*13 + 1, Timeout: 10 * time.Minute, KeepOutput: true,
		OnJSON: func(raw []byte) {
			var t trace
			if json.Unmarshal(raw, &t) == nil && len(t.Steps) > 0 {
				traces = append(traces, &t)
			}
		}})
	if err != nil || res.Violated != "" || res.Error != "" || len(traces) == 0 {
		r.Machinery("TLC simulation of GluonValidity: err=%v violated=%q error=%q behaviours=%d", err, res.Violated, res.Error, len(traces))
		return
	}
	// bounded exhaustive: every behaviour of 6 CREATE / refused CREATE / DELETE steps of two sessions on one name
	// (GluonValidity.all.cfg), replayed on ONE server whose sessions live through all of them; each behaviour
	// uses a name of its own
	if !runAll(r, specDir) {
		return
	}
	// the scripted witness of F16 first: three creates in one second, delete the last, restart at once, re-create it
	witness := &trace{Steps: []step{{Act: "Create", Name: "va"}, {Act: "Create", Name: "vb"}, {Act: "Create", Name: "vc"},
		{Act: "Delete", Name: "vc"}, {Act: "Restart", Dt: 0, Ahead: true}, {Act: "Create", Name: "vc", F16: true, Ahead: true}}}
	traces = append([]*trace{witness}, traces...)
	for ti, t := range traces {
		if !replaySim(r, ti, t) {
			return
		}
	}
}

// replaySim replays one behaviour (with restarts) on a server of its own. false = machinery problem, stop.
func replaySim(r *ev.Run, ti int, t *trace) bool {
	{
		rg, err := start(1, nil)
		if err != nil {
			r.Machinery("validity: cannot start a server: %v", err)
			return false
		}
		best := map[string]int{}
		ahead := false
		check := func(i int, st *step, name string) bool {
			v, err := rg.validity(name)
			if err != nil {
				r.Machinery("validity behaviour %d step %d: %v", ti, i, err)
				return false
			}
			rg.logf("  %s has UIDVALIDITY %d (highest before: %d)", name, v, best[name])
			if v <= best[name] {
				key := "C04/validity-not-greater/" + st.Act
				// known deviation: the generator was ahead of the clock and lost its state at a restart
				if ahead {
					key = "F16/" + key
				}
				r.Violate(key, fmt.Sprintf("step %d %s %s: the name %s gets UIDVALIDITY %d, it had %d before\nbehaviour:\n  %s", i, st.Act, st.Name, name, v, best[name], strings.Join(rg.log, "\n  ")),
					map[string]interface{}{"validity_trace": t})
				return false
			}
			if v != st.Val[name] && st.Val != nil {
				r.Add("drift_validity_value", 1)
			}
			best[name] = v
			return true
		}
		ok := true
		for i := range t.Steps {
			st := &t.Steps[i]
			ahead = st.Ahead
			switch st.Act {
			case "Create":
				if st.S == "conn" {
					id := imap.MailboxID(fmt.Sprintf("vm-%s-%d-%d", st.Name, ti, i))
					err := rg.conn.Submit(imap.NewMailboxCreated(imap.Mailbox{ID: id, Name: []string{st.Name}, Flags: rg.conn.Flags, PermanentFlags: rg.conn.PermFlags, Attributes: rg.conn.Attrs}), 10*time.Second)
					rg.logf("connector MailboxCreated %s -> %v", st.Name, err)
					if err != nil {
						r.Machinery("validity behaviour %d: MailboxCreated %s acknowledged with %v", ti, st.Name, err)
						ok = false
						break
					}
					rg.conn.Mailboxes[id] = []string{st.Name}
					ok = check(i+1, st, st.Name)
					break
				}
				res := rg.session(st.S).Cmd("CREATE " + st.Name)
				rg.logf("[%s] CREATE %s -> %s", st.S, st.Name, res.Status)
				if res.Status != "OK" {
					r.Machinery("validity behaviour %d: CREATE %s answered %s %s", ti, st.Name, res.Status, res.Text)
					ok = false
				} else {
					ok = check(i+1, st, st.Name)
				}
			case "RenameInbox":
				res := rg.session(st.S).Cmd("RENAME INBOX " + st.Name)
				rg.logf("[%s] RENAME INBOX %s -> %s", st.S, st.Name, res.Status)
				if res.Status != "OK" {
					r.Machinery("validity behaviour %d: RENAME INBOX %s answered %s %s", ti, st.Name, res.Status, res.Text)
					ok = false
				} else {
					ok = check(i+1, st, st.Name)
				}
			case "CreateRefused":
				res := rg.session(st.S).Cmd("CREATE " + st.Name)
				rg.logf("[%s] CREATE %s (exists) -> %s", st.S, st.Name, res.Status)
				if res.Status != "NO" {
					r.Machinery("validity behaviour %d: CREATE of the existing %s answered %s %s", ti, st.Name, res.Status, res.Text)
					ok = false
				} else {
					// the existing mailbox keeps its value
					v, err := rg.validity(st.Name)
					if err == nil && v != best[st.Name] {
						r.Violate("C04/validity-changed/CreateRefused", fmt.Sprintf("step %d: a refused CREATE %s changed the UIDVALIDITY of the existing mailbox from %d to %d\nbehaviour:\n  %s", i+1, st.Name, best[st.Name], v, strings.Join(rg.log, "\n  ")),
							map[string]interface{}{"validity_trace": t})
						ok = false
					}
				}
			case "Delete":
				if st.S == "conn" {
					if id, found := rg.remoteID(st.Name); found {
						err := rg.conn.Submit(imap.NewMailboxDeleted(id), 10*time.Second)
						rg.logf("connector MailboxDeleted %s -> %v", st.Name, err)
						if err == nil {
							delete(rg.conn.Mailboxes, id)
							break
						}
					}
				}
				res := rg.session(st.S).Cmd("DELETE " + st.Name)
				rg.logf("[%s] DELETE %s -> %s", st.S, st.Name, res.Status)
				if res.Status != "OK" {
					r.Machinery("validity behaviour %d: DELETE %s answered %s %s", ti, st.Name, res.Status, res.Text)
					ok = false
				}
			case "Bump":
				err := rg.conn.Submit(imap.NewUIDValidityBumped(), 10*time.Second)
				rg.logf("connector UIDValidityBumped -> %v", err)
				if err != nil {
					r.Violate("C04/bump-not-applied", fmt.Sprintf("UIDValidityBumped acknowledged with %v", err), map[string]interface{}{"validity_trace": t})
					ok = false
					break
				}
				for name, v := range st.Val {
					if v != 0 && ok {
						ok = check(i+1, st, name)
					}
				}
			case "Restart":
				rg.closeClients()
				if err := rg.srv.Close(20 * time.Second); err != nil {
					r.Machinery("validity: close: %v", err)
					ok = false
					break
				}
				n, err := start(rg.now+st.Dt, rg)
				if err != nil {
					r.Machinery("validity: restart: %v", err)
					ok = false
					break
				}
				n.log = append(rg.log, fmt.Sprintf("server closed and reopened, %d s later", st.Dt))
				rg = n
			}
			if !ok {
				break
			}
			r.Add("validity_steps_replayed", 1)
		}
		rg.closeClients()
		_ = rg.srv.Close(15 * time.Second)
		rg.srv.RemoveDir()
		r.Eval("validity:"+t.sig(), true)
		r.Add("traces_validated_against_impl", 1)
		if ti == 0 {
			r.Sample(map[string]interface{}{"source": "GluonValidity witness F16", "concrete": rg.log})
		}
	}
	return true
}

// ReplayFile re-executes the behaviour stored in a replay file of this family. false = not such a file.
func ReplayFile(r *ev.Run, raw json.RawMessage, history json.RawMessage) bool {
	var hist []*trace
	if len(history) > 0 && json.Unmarshal(history, &hist) == nil && len(hist) > 0 {
		// a behaviour of the shared-server family: what the sessions kept from the behaviours before it matters
		runTraces(r, hist)
		return true
	}
	var t trace
	if json.Unmarshal(raw, &t) != nil || len(t.Steps) == 0 {
		return false
	}
	shared := true
	for _, st := range t.Steps {
		if st.Act == "Restart" || st.Act == "Bump" || st.S == "conn" || st.S == "" {
			shared = false
		}
	}
	if shared {
		// the two-session family: the behaviour is replayed on the sessions of one server, twice over (what a session
		// kept from the first round may matter in the second)
		runTraces(r, []*trace{&t, &t})
	} else {
		replaySim(r, 1, &t)
	}
	return true
}

func runAll(r *ev.Run, specDir string) bool {
	var traces []*trace
	res, err := tlc.Run(tlc.Options{SpecDir: specDir, Module: "GluonValidity", Cfg: filepath.Join(specDir, "cfg", "GluonValidity.all.cfg"),
		Workers: 4, Timeout: 10 * time.Minute, KeepOutput: true,
		OnJSON: func(raw []byte) {
			var t trace
			if json.Unmarshal(raw, &t) == nil && len(t.Steps) > 0 {
				traces = append(traces, &t)
			}
		}})
	if err != nil || res.Violated != "" || res.Error != "" || !res.Finished || len(traces) == 0 {
		r.Machinery("TLC on GluonValidity.all.cfg: err=%v violated=%q error=%q behaviours=%d", err, res.Violated, res.Error, len(traces))
		return false
	}
	r.Add("states", res.Distinct)
	r.Add("transitions", res.Generated)
	return runTraces(r, traces)
}

func runTraces(r *ev.Run, traces []*trace) bool {
	rg, err := start(1, nil)
	if err != nil {
		r.Machinery("validity: cannot start a server: %v", err)
		return false
	}
	defer func() {
		rg.closeClients()
		_ = rg.srv.Close(15 * time.Second)
		rg.srv.RemoveDir()
	}()
	for ti, t := range traces {
		rg.log = nil
		best := 0
		name := func(n string) string { return fmt.Sprintf("%sx%d", n, ti) }
		for i := range t.Steps {
			st := &t.Steps[i]
			c := rg.session(st.S)
			switch st.Act {
			case "Create", "CreateRefused", "RenameInbox":
				cmd := "CREATE " + name(st.Name)
				if st.Act == "RenameInbox" {
					cmd = "RENAME INBOX " + name(st.Name)
				}
				res := c.Cmd(cmd)
				rg.logf("[%s] %s -> %s", st.S, cmd, res.Status)
				want := map[string]string{"Create": "OK", "CreateRefused": "NO", "RenameInbox": "OK"}[st.Act]
				if res.Status != want {
					r.Machinery("validity (all) behaviour %d step %d: %s answered %s %s, the specification says %s", ti, i+1, cmd, res.Status, res.Text, want)
					return false
				}
				v, err := rg.validity(name(st.Name))
				if err != nil {
					r.Machinery("validity (all) behaviour %d step %d: %v", ti, i+1, err)
					return false
				}
				rg.logf("  %s has UIDVALIDITY %d (highest before: %d)", name(st.Name), v, best)
				if (st.Act != "CreateRefused" && v <= best) || (st.Act == "CreateRefused" && v != best) {
					r.Violate("C04/validity-not-greater/"+st.Act+"/two-sessions", fmt.Sprintf("step %d %s by %s: the name %s has UIDVALIDITY %d, its highest value before was %d\nbehaviour (sessions s1 and s2 of one server, no restart):\n  %s", i+1, st.Act, st.S, name(st.Name), v, best, strings.Join(rg.log, "\n  ")),
						map[string]interface{}{"validity_trace": t, "validity_history": traces[:ti+1]})
					return true
				}
				best = v
			case "Delete":
				res := c.Cmd("DELETE " + name(st.Name))
				rg.logf("[%s] DELETE %s -> %s", st.S, name(st.Name), res.Status)
				if res.Status != "OK" {
					r.Machinery("validity (all) behaviour %d step %d: DELETE answered %s %s", ti, i+1, res.Status, res.Text)
					return false
				}
			}
			r.Add("validity_steps_replayed", 1)
		}
		// leave nothing behind
		rg.c.Cmd("DELETE " + name("va"))
		r.Eval("validity-all:"+t.sig(), true)
		r.Add("traces_validated_against_impl", 1)
		r.Add("validity_all_behaviours", 1)
	}
	return true
}
