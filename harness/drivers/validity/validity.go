// Package validity is the UIDVALIDITY part of C04 (GluonValidity.tla): mailbox names are created, deleted and
// re-created, all validities are bumped by the connector and the server is restarted on the same directories with
// the real default (epoch) generator; a name must never get a UIDVALIDITY that is not above every value it had.
package validity

import (
	"encoding/json"
	"fmt"
	"path/filepath"
	"regexp"
	"strconv"
	"strings"
	"time"

	"github.com/ProtonMail/gluon/imap"
	"github.com/ProtonMail/gluon/verif/pkg/ev"
	"github.com/ProtonMail/gluon/verif/pkg/fixture"
	"github.com/ProtonMail/gluon/verif/pkg/tlc"
	"github.com/ProtonMail/gluon/verif/pkg/wire"
)

type step struct {
	Act   string         `json:"act"`
	Name  string         `json:"name"`
	Dt    int            `json:"dt"`
	Value int            `json:"value"`
	F16   bool           `json:"f16"`
	Val   map[string]int `json:"val"`
	Ahead bool           `json:"ahead"`
}

type trace struct {
	Steps []step `json:"trace"`
}

func (t *trace) sig() string {
	var b strings.Builder
	for _, s := range t.Steps {
		fmt.Fprintf(&b, "%s/%s/%d;", s.Act, s.Name, s.Dt)
	}
	return b.String()
}

type rig struct {
	srv  *fixture.Server
	conn *fixture.VConn
	c    *wire.Client
	now  int
	log  []string
}

func (r *rig) logf(f string, a ...interface{}) { r.log = append(r.log, fmt.Sprintf(f, a...)) }

// epoch such that "seconds since epoch" is `now` and stays so for the next ~0.9 s
func epochFor(now int) time.Time {
	return time.Now().Add(-time.Duration(now)*time.Second - 50*time.Millisecond)
}

func start(now int, old *rig) (*rig, error) {
	cfg := fixture.Config{}
	conn := fixture.NewVConn(map[string]string{"user": "pass"})
	if old != nil {
		cfg = old.srv.Cfg
		conn.CarryOver(old.conn)
		cfg.Users = []fixture.User{{Name: "user", Pass: "pass", ID: old.srv.Users[0].ID, Conn: conn}}
	} else {
		cfg.Users = []fixture.User{{Name: "user", Pass: "pass", Conn: conn}}
	}
	cfg.UIDValidity = imap.NewEpochUIDValidityGenerator(epochFor(now))
	srv, err := fixture.StartServer(cfg)
	if err != nil {
		return nil, err
	}
	c, err := wire.Dial(srv.Addr)
	if err != nil {
		return nil, err
	}
	if res := c.Login("user", "pass"); res.Status != "OK" {
		return nil, fmt.Errorf("login: %s %s", res.Status, res.Text)
	}
	return &rig{srv: srv, conn: conn, c: c, now: now}, nil
}

var reUIDV = regexp.MustCompile(`UIDVALIDITY (\d+)`)

func (r *rig) validity(name string) (int, error) {
	res := r.c.Cmd("STATUS " + name + " (UIDVALIDITY)")
	if res.Status != "OK" {
		return 0, fmt.Errorf("STATUS %s: %s %s", name, res.Status, res.Text)
	}
	for _, l := range res.Untagged {
		if m := reUIDV.FindStringSubmatch(l.Text); m != nil {
			return strconv.Atoi(m[1])
		}
	}
	return 0, fmt.Errorf("STATUS %s: no UIDVALIDITY in %v", name, res.Untagged)
}

// Run is called by the C04 check (one worker): model-checks GluonValidity and replays simulated behaviours.
func Run(r *ev.Run, tier string) {
	specDir := filepath.Join(ev.Root(), "spec")
	for _, cfg := range []string{"GluonValidity.intended.cfg", "GluonValidity.code.cfg"} {
		res, err := tlc.Run(tlc.Options{SpecDir: specDir, Module: "GluonValidity", Cfg: filepath.Join(specDir, "cfg", cfg), Workers: 4, Timeout: 10 * time.Minute, KeepOutput: true})
		if err != nil || res.Violated != "" || res.Error != "" || !res.Finished {
			r.Machinery("TLC on %s: err=%v violated=%q error=%q (model-level, not a verdict)", cfg, err, res.Violated, res.Error)
			return
		}
		r.Add("states", res.Distinct)
		r.Add("transitions", res.Generated)
	}
	num := 40
	if tier == "thorough" {
		num = 600
	}
	var traces []*trace
	res, err := tlc.Run(tlc.Options{SpecDir: specDir, Module: "GluonValidity", Cfg: filepath.Join(specDir, "cfg", "GluonValidity.sim.cfg"),
		Workers: 1, Simulate: true, SimNum: num, SimDepth: 40, Seed: ev.Seed()*13 + 1, Timeout: 10 * time.Minute, KeepOutput: true,
		OnJSON: func(raw []byte) {
			var t trace
			if json.Unmarshal(raw, &t) == nil && len(t.Steps) > 0 {
				traces = append(traces, &t)
			}
		}})
	if err != nil || res.Violated != "" || res.Error != "" || len(traces) == 0 {
		r.Machinery("TLC simulation of GluonValidity: err=%v violated=%q error=%q behaviours=%d", err, res.Violated, res.Error, len(traces))
		return
	}
	// the scripted witness of F16 first: three creates in one second, delete the last, restart at once, re-create it
	witness := &trace{Steps: []step{{Act: "Create", Name: "va"}, {Act: "Create", Name: "vb"}, {Act: "Create", Name: "vc"},
		{Act: "Delete", Name: "vc"}, {Act: "Restart", Dt: 0, Ahead: true}, {Act: "Create", Name: "vc", F16: true, Ahead: true}}}
	traces = append([]*trace{witness}, traces...)
	for ti, t := range traces {
		rg, err := start(1, nil)
		if err != nil {
			r.Machinery("validity: cannot start a server: %v", err)
			return
		}
		best := map[string]int{}
		ahead := false
		check := func(i int, st *step, name string) bool {
			v, err := rg.validity(name)
			if err != nil {
				r.Machinery("validity behaviour %d step %d: %v", ti, i, err)
				return false
			}
			rg.logf("  %s has UIDVALIDITY %d (highest before: %d)", name, v, best[name])
			if v <= best[name] {
				key := "C04/validity-not-greater/" + st.Act
				// known deviation: the generator was ahead of the clock and lost its state at a restart
				if ahead {
					key = "F16/" + key
				}
				r.Violate(key, fmt.Sprintf("step %d %s %s: the name %s gets UIDVALIDITY %d, it had %d before\nbehaviour:\n  %s", i, st.Act, st.Name, name, v, best[name], strings.Join(rg.log, "\n  ")),
					map[string]interface{}{"validity_trace": t})
				return false
			}
			if v != st.Val[name] && st.Val != nil {
				r.Add("drift_validity_value", 1)
			}
			best[name] = v
			return true
		}
		ok := true
		for i := range t.Steps {
			st := &t.Steps[i]
			ahead = st.Ahead
			switch st.Act {
			case "Create":
				res := rg.c.Cmd("CREATE " + st.Name)
				rg.logf("CREATE %s -> %s", st.Name, res.Status)
				if res.Status != "OK" {
					r.Machinery("validity behaviour %d: CREATE %s answered %s %s", ti, st.Name, res.Status, res.Text)
					ok = false
				} else {
					ok = check(i+1, st, st.Name)
				}
			case "Delete":
				res := rg.c.Cmd("DELETE " + st.Name)
				rg.logf("DELETE %s -> %s", st.Name, res.Status)
			case "Bump":
				err := rg.conn.Submit(imap.NewUIDValidityBumped(), 10*time.Second)
				rg.logf("connector UIDValidityBumped -> %v", err)
				if err != nil {
					r.Violate("C04/bump-not-applied", fmt.Sprintf("UIDValidityBumped acknowledged with %v", err), map[string]interface{}{"validity_trace": t})
					ok = false
					break
				}
				for name, v := range st.Val {
					if v != 0 && ok {
						ok = check(i+1, st, name)
					}
				}
			case "Restart":
				rg.c.Close()
				if err := rg.srv.Close(20 * time.Second); err != nil {
					r.Machinery("validity: close: %v", err)
					ok = false
					break
				}
				n, err := start(rg.now+st.Dt, rg)
				if err != nil {
					r.Machinery("validity: restart: %v", err)
					ok = false
					break
				}
				n.log = append(rg.log, fmt.Sprintf("server closed and reopened, %d s later", st.Dt))
				rg = n
			}
			if !ok {
				break
			}
			r.Add("validity_steps_replayed", 1)
		}
		rg.c.Close()
		_ = rg.srv.Close(15 * time.Second)
		rg.srv.RemoveDir()
		r.Eval("validity:"+t.sig(), true)
		r.Add("traces_validated_against_impl", 1)
		if ti == 0 {
			r.Sample(map[string]interface{}{"source": "GluonValidity witness F16", "concrete": rg.log})
		}
	}
}
