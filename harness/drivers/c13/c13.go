// Package c13: FETCH returns byte-exact message data for every section and partial.
// TLC enumerates (tree, shape, section, partial class) from GluonMime.tla (Family = "fetch") with
// the value of the section as a sequence of chunk indexes of the message's layout; pkg/mimegen
// renders the layout to bytes; every message is APPENDed to a real server (child process) and every
// case FETCHed over the wire with the raw client, which checks literal framing itself. The bytes
// returned are compared with the concatenation of the chunks the specification names.
package c13

import (
	"bytes"
	"encoding/json"
	"fmt"
	"math/rand"
	"os"
	"path/filepath"
	"regexp"
	"sort"
	"strings"
	"time"

	"github.com/ProtonMail/gluon/verif/drivers"
	"github.com/ProtonMail/gluon/verif/pkg/ev"
	"github.com/ProtonMail/gluon/verif/pkg/fixture"
	"github.com/ProtonMail/gluon/verif/pkg/mimegen"
	"github.com/ProtonMail/gluon/verif/pkg/tlc"
	"github.com/ProtonMail/gluon/verif/pkg/wire"
)

func init() { drivers.Register("C13", "model_checking", run) }

type tcase struct {
	Tree   *mimegen.Tree   `json:"tree"`
	Shape  mimegen.Shape   `json:"shape"`
	Sect   mimegen.Sect    `json:"sect"`
	Pc     string          `json:"pc"`
	Fields []string        `json:"fields"`
	Layout []mimegen.Chunk `json:"layout,omitempty"`
	// layout case only: the arrival paths the specification wants this group's cases run through
	Arrivals []string `json:"arrivals,omitempty"`
	Exp      struct {
		Strong bool  `json:"strong"`
		Value  []int `json:"value"`
	} `json:"exp"`
}

type group struct {
	key    string
	layout *tcase
	cases  []*tcase
}

type drv struct {
	r         *ev.Run
	srv       *fixture.ChildServer
	c         *wire.Client
	rnd       *rand.Rand
	crashes   int
	dd        *mimegen.Dedup
	alsoPc    map[string]int
	nMsg      int
	refused   map[string]int
	perKind   map[string]int64
	perPc     map[string]int64
	bytesRx   int64
	noPartial map[string]bool
	// second server for the arrival paths through the recovery mailbox: at most one message per mailbox, so that an
	// APPEND into the full mailbox "full" is refused and its literal kept in the recovery mailbox
	srvR       *fixture.ChildServer
	cR         *wire.Client
	arrival    string
	perArrival map[string]int64
}

const recoveryBox = `"Recovered Messages"`

func (d *drv) connectR() error {
	if d.cR != nil {
		d.cR.Close()
		d.cR = nil
	}
	if d.srvR == nil || !d.srvR.Alive() {
		if d.srvR != nil {
			d.srvR.Stop()
		}
		ns, err := fixture.StartChild(fixture.ChildConfig{MaxMessages: 1})
		if err != nil {
			return err
		}
		d.srvR = ns
	}
	c, err := wire.Dial(d.srvR.Addr)
	if err != nil {
		return err
	}
	c.Timeout = 60 * time.Second
	if res := c.Login("user", "pass"); res.Status != "OK" {
		return fmt.Errorf("login (recovery server): %+v", res)
	}
	c.Cmd("CREATE full")
	c.Cmd("CREATE dst")
	if res := c.Cmd("STATUS full (MESSAGES)"); !strings.Contains(fmt.Sprint(res.Untagged), "MESSAGES 1") {
		if res := c.Append("full", "", []byte("From: filler@verif.test\r\nDate: Mon, 7 Feb 1994 21:52:25 -0800\r\nSubject: filler\r\n\r\nfiller\r\n")); res.Status != "OK" {
			return fmt.Errorf("filler APPEND: %+v", res)
		}
	}
	for _, b := range []string{recoveryBox, "dst"} {
		if res := c.Cmd("SELECT " + b); res.Status == "OK" {
			c.Cmd("STORE 1:* +FLAGS.SILENT (\\Deleted)")
			c.Cmd("EXPUNGE")
		}
	}
	d.cR = c
	return nil
}

// arrive puts the message where the arrival path says and selects that mailbox on the connection it returns:
// the message is message 1 there. ok=false: nothing to examine (refusal already judged or reported).
func (d *drv) arrive(g *group, arrival string, app []byte) (c *wire.Client, cleanup func(), ok bool, alive bool) {
	lc := g.layout
	if arrival == "append" {
		res := d.c.Append("box", "", app)
		if res.Closed || res.TimedOut {
			return nil, nil, false, d.alive(g, nil, "APPEND", res, app)
		}
		if res.Status != "OK" {
			if lc.Exp.Strong {
				d.violate(g, nil, "append-refused", fmt.Sprintf("APPEND of a well-formed message answered %s %s", res.Status, res.Text), app)
			} else {
				d.refused[lc.Shape.Dmg+"/"+lc.Shape.Bnd]++
			}
			return nil, nil, false, true
		}
		cc := d.c
		return cc, func() {
			cc.Cmd("STORE 1:* +FLAGS.SILENT (\\Deleted)")
			cc.Cmd("EXPUNGE")
		}, true, true
	}
	if d.cR == nil {
		if err := d.connectR(); err != nil {
			d.r.Machinery("recovery server: %v", err)
			return nil, nil, false, false
		}
	}
	c = d.cR
	lost := func(cmd string, res wire.Result) (*wire.Client, func(), bool, bool) {
		if d.srvR.WaitExit(500 * time.Millisecond) {
			d.violate(g, nil, "server-crash", "the server process died while handling "+cmd+"\n"+d.srvR.CrashOutput(), app)
			d.crashes++
		} else {
			d.violate(g, nil, "connection-lost", "the server did not complete "+cmd, app)
		}
		if err := d.connectR(); err != nil {
			d.r.Machinery("recovery server: %v", err)
			return nil, nil, false, false
		}
		return nil, nil, false, d.crashes <= 10
	}
	res := c.Append("full", "", app)
	if res.Closed || res.TimedOut {
		return lost("APPEND into a full mailbox", res)
	}
	if res.Status == "OK" {
		d.r.Machinery("the APPEND into the full mailbox of the recovery server was accepted: %s", res.Text)
		return nil, nil, false, false
	}
	cleanup = func() {
		for _, b := range []string{recoveryBox, "dst"} {
			if res := c.Cmd("SELECT " + b); res.Status == "OK" {
				c.Cmd("STORE 1:* +FLAGS.SILENT (\\Deleted)")
				c.Cmd("EXPUNGE")
			}
		}
	}
	sres := c.Cmd("SELECT " + recoveryBox)
	if sres.Closed || sres.TimedOut {
		return lost("SELECT of the recovery mailbox", sres)
	}
	if sres.Status != "OK" || !strings.Contains(fmt.Sprint(sres.Untagged), "1 EXISTS") {
		if lc.Exp.Strong {
			d.violate(g, nil, "refused-append-not-recovered", fmt.Sprintf("APPEND into a full mailbox answered %s %s; SELECT of the recovery mailbox answered %s %v: the literal is not there as its only message", res.Status, res.Text, sres.Status, sres.Untagged), app)
		}
		cleanup()
		return nil, nil, false, true
	}
	if arrival == "movedout" {
		mres := c.Cmd("MOVE 1 dst")
		if mres.Closed || mres.TimedOut {
			return lost("MOVE out of the recovery mailbox", mres)
		}
		if mres.Status != "OK" {
			d.violate(g, nil, "move-out-refused", fmt.Sprintf("MOVE 1 dst out of the recovery mailbox answered %s %s", mres.Status, mres.Text), app)
			cleanup()
			return nil, nil, false, true
		}
		if s2 := c.Cmd("SELECT dst"); s2.Status != "OK" || !strings.Contains(fmt.Sprint(s2.Untagged), "1 EXISTS") {
			d.violate(g, nil, "move-out-lost", fmt.Sprintf("after MOVE 1 dst out of the recovery mailbox SELECT dst answered %s %v", s2.Status, s2.Untagged), app)
			cleanup()
			return nil, nil, false, true
		}
	}
	return c, cleanup, true, true
}

func nonDefault(s mimegen.Shape) string { return strings.Join(s.Dims(), ",") }

func quoteTrim(b []byte, n int) string {
	if len(b) > n {
		return fmt.Sprintf("%q... (%d octets in all)", b[:n], len(b))
	}
	return fmt.Sprintf("%q", b)
}

// violate: groups with the default shape run first; a signature seen there is not reported again under
// other shapes; a signature that appears only under a non-default shape carries the shape in front.
func (d *drv) violate(g *group, c *tcase, key, detail string, msg []byte) {
	if d.arrival != "" && d.arrival != "append" {
		key = d.arrival + ":" + key
		detail = "arrival path: " + d.arrival + "\n" + detail
	}
	key, report := d.dd.Key(g.layout.Shape.Dims(), key)
	if !report {
		return
	}
	rp := map[string]interface{}{"layout": g.layout}
	if c != nil {
		rp["case"] = c
	}
	d.r.Violate(key, fmt.Sprintf("message %s\n%s\nappended message: %s", g.key, detail, quoteTrim(msg, 1500)), rp)
}

var reID = regexp.MustCompile(`^X-Pm-Gluon-Id: [0-9a-fA-F]{8}-[0-9a-fA-F]{4}-[0-9a-fA-F]{4}-[0-9a-fA-F]{4}-[0-9a-fA-F]{12}\r\n$`)

// findInserted locates the single insertion that turns a into b: b = a[:p] + ins + a[p:]. ok=false if
// b is not a with one piece inserted.
func findInserted(a, b []byte) (p int, ins []byte, ok bool) {
	if len(b) < len(a) {
		return 0, nil, false
	}
	l := len(b) - len(a)
	for p < len(a) && a[p] == b[p] {
		p++
	}
	// the insertion point may be earlier than the first difference (if the inserted text starts like
	// what follows); try all candidates from the first difference backwards
	for q := p; q >= 0; q-- {
		if bytes.Equal(b[:q], a[:q]) && bytes.Equal(b[q+l:], a[q:]) {
			if reID.Match(b[q : q+l]) {
				return q, b[q : q+l], true
			}
		}
	}
	return 0, nil, false
}

// fetch1 sends FETCH 1 (<items>) and returns the untagged FETCH line.
func (d *drv) fetch1(items string) (wire.Line, wire.Result, bool) {
	res := d.c.Cmd("FETCH 1 (" + items + ")")
	for _, l := range res.Untagged {
		if strings.HasPrefix(l.Text, "* 1 FETCH (") {
			return l, res, res.Status == "OK"
		}
	}
	return wire.Line{}, res, false
}

var reItem = regexp.MustCompile(`(BODY\[[^\]]*\](?:<\d+>)?|RFC822(?:\.[A-Z]+)?) (?:\x00(\d+)\x00|"((?:[^"\\]|\\.)*)"|(NIL|\d+))`)

type fitem struct {
	name string
	val  []byte
}

// itemList extracts the "NAME value" pairs of a FETCH line in order; literal values are returned as bytes.
func itemList(l wire.Line) []fitem {
	var out []fitem
	txt := strings.TrimSuffix(strings.TrimPrefix(l.Text, "* 1 FETCH ("), ")")
	for _, m := range reItem.FindAllStringSubmatch(txt, -1) {
		it := fitem{name: strings.ToUpper(m[1])}
		switch {
		case m[2] != "":
			var i int
			fmt.Sscanf(m[2], "%d", &i)
			if i < len(l.Lits) {
				it.val = l.Lits[i]
			}
		case m[4] == "NIL":
		case m[4] != "":
			it.val = []byte(m[4])
		default:
			it.val = []byte(strings.ReplaceAll(strings.ReplaceAll(m[3], `\"`, `"`), `\\`, `\`))
		}
		out = append(out, it)
	}
	return out
}

func items(l wire.Line) map[string][]byte {
	out := map[string][]byte{}
	for _, it := range itemList(l) {
		if _, dup := out[it.name]; !dup {
			out[it.name] = it.val
		}
	}
	return out
}

func (d *drv) connect() error {
	if d.c != nil {
		d.c.Close()
	}
	c, err := wire.Dial(d.srv.Addr)
	if err != nil {
		return err
	}
	c.Timeout = 60 * time.Second
	d.c = c
	if res := c.Login("user", "pass"); res.Status != "OK" {
		return fmt.Errorf("login: %+v", res)
	}
	c.Cmd("CREATE box")
	if res := c.Cmd("SELECT box"); res.Status != "OK" {
		return fmt.Errorf("SELECT: %+v", res)
	}
	// leftovers of an interrupted group
	c.Cmd("STORE 1:* +FLAGS.SILENT (\\Deleted)")
	c.Cmd("EXPUNGE")
	return nil
}

// alive is called after a command did not complete: it decides between a lost connection and a
// dead server, reports, and re-establishes the session. false = give up.
func (d *drv) alive(g *group, c *tcase, cmd string, res wire.Result, msg []byte) bool {
	if d.arrival != "" && d.arrival != "append" {
		// the command ran on the recovery server
		if d.srvR.WaitExit(500 * time.Millisecond) {
			d.violate(g, c, "server-crash", "the server process died while handling "+cmd+"\n"+d.srvR.CrashOutput(), msg)
			d.crashes++
			if d.crashes > 10 {
				d.r.Machinery("more than 10 server crashes, giving up")
				return false
			}
		} else {
			d.violate(g, c, "connection-lost", "the server did not complete "+cmd, msg)
		}
		if err := d.connectR(); err != nil {
			d.r.Machinery("cannot reconnect to the recovery server: %v", err)
			return false
		}
		return true
	}
	if d.srv.WaitExit(500 * time.Millisecond) {
		d.violate(g, c, "server-crash", "the server process died while handling "+cmd+"\n"+d.srv.CrashOutput(), msg)
		d.crashes++
		if d.crashes > 10 {
			d.r.Machinery("more than 10 server crashes, giving up")
			return false
		}
		d.srv.Stop()
		ns, err := fixture.StartChild(fixture.ChildConfig{})
		if err != nil {
			d.r.Machinery("restart server: %v", err)
			return false
		}
		d.srv = ns
	} else {
		what := "closed the connection"
		if res.TimedOut {
			what = "did not answer within the client's timeout"
		}
		d.violate(g, c, "connection-lost", "the server "+what+" instead of completing "+cmd, msg)
	}
	if err := d.connect(); err != nil {
		d.r.Machinery("cannot reconnect: %v", err)
		return false
	}
	return true
}

// partial picks the concrete <o.n> of a partial class for a value of the given length.
func (d *drv) partial(pc string, n int) (o, cnt int64, has bool) {
	rn := func(k int) int64 {
		if k <= 0 {
			return 0
		}
		return int64(d.rnd.Intn(k))
	}
	switch pc {
	case "zero":
		return 0, 1 + rn(n+3), true
	case "mid":
		if n < 2 {
			return int64(n), 1, true // degenerates to atlen
		}
		o = 1 + rn(n-1)
		return o, 1 + rn(n-int(o)+3), true
	case "atlen":
		return int64(n), 1 + rn(10), true
	case "beyond":
		return int64(n) + 1 + rn(3), 1 + rn(10), true
	case "midhuge":
		if n < 2 {
			return 0, 4294967295, true
		}
		return 1 + rn(n-1), 4294967295, true
	}
	return 0, 0, false
}

func slice(v []byte, o, cnt int64) []byte {
	if o >= int64(len(v)) {
		return []byte{}
	}
	end := o + cnt
	if end > int64(len(v)) {
		end = int64(len(v))
	}
	return v[o:end]
}

// runGroup appends one message and executes its cases. false = stop the run.
func (d *drv) runGroup(g *group, tag string) bool {
	arrivals := g.layout.Arrivals
	if len(arrivals) == 0 {
		arrivals = []string{"append"}
	}
	for _, a := range arrivals {
		if !d.runGroupVia(g, tag, a) {
			return false
		}
	}
	return true
}

func (d *drv) runGroupVia(g *group, tag, arrival string) bool {
	lc := g.layout
	if arrival != "append" {
		tag += arrival // distinct bytes per arrival path: the recovery mailbox keeps a literal once
	}
	b := mimegen.Build(lc.Tree, lc.Shape, lc.Layout, tag)
	app := b.Appended()
	d.nMsg++
	d.arrival = arrival
	defer func() { d.arrival = "" }()
	conn, cleanup, ok, alive := d.arrive(g, arrival, app)
	if !ok {
		return alive
	}
	d.perArrival[arrival]++
	saved := d.c
	d.c = conn
	defer func() {
		if arrival == "append" || conn == d.cR {
			cleanup() // (not on a connection that was replaced meanwhile)
		}
		if arrival != "append" {
			d.c = saved
		}
	}()
	// the whole message, the id line, and the RFC822 family
	line, fres, ok := d.fetch1("RFC822.SIZE BODY.PEEK[] RFC822 RFC822.HEADER RFC822.TEXT BODY.PEEK[HEADER] BODY.PEEK[TEXT]")
	if fres.Closed || fres.TimedOut {
		return d.alive(g, nil, "FETCH 1 (RFC822.SIZE BODY.PEEK[] RFC822 ...)", fres, app)
	}
	d.r.Eval(mimegen.Hash("whole "+g.key), true)
	if !ok {
		d.violate(g, nil, "fetch-whole/failed", fmt.Sprintf("FETCH 1 (RFC822.SIZE BODY.PEEK[] RFC822 RFC822.HEADER RFC822.TEXT) answered %s %s", fres.Status, fres.Text), app)
		return true
	}
	it := items(line)
	whole, have := it["BODY[]"]
	if !have {
		d.violate(g, nil, "fetch-whole/no-body", "no BODY[] item in "+quoteTrim([]byte(line.String()), 300), app)
		return true
	}
	d.bytesRx += int64(len(whole))
	p, idline, okIns := findInserted(app, whole)
	if arrival == "recovered" && bytes.Equal(whole, app) {
		// a refused literal is kept as handed in: the server adds its id line when a message enters a real mailbox
		p, idline, okIns = b.Offset(max(b.IDLine, 0)), []byte{}, true
	}
	if !okIns {
		d.violate(g, nil, "body-not-appended-plus-id-line", fmt.Sprintf("BODY[] is not the appended message with exactly one X-Pm-Gluon-Id header line inserted\nBODY[] = %s", quoteTrim(whole, 1500)), app)
		return true
	}
	if b.IDLine >= 0 && p != b.Offset(b.IDLine) {
		d.violate(g, nil, "id-line-position", fmt.Sprintf("the id line was inserted at offset %d, the first header field starts at %d", p, b.Offset(b.IDLine)), app)
		return true
	}
	b.SetIDLine(idline)
	if sz := string(it["RFC822.SIZE"]); sz != fmt.Sprint(len(whole)) {
		d.violate(g, nil, "rfc822-size", fmt.Sprintf("RFC822.SIZE %s, BODY[] has %d octets", sz, len(whole)), app)
	}
	if r, ok := it["RFC822"]; !ok || !bytes.Equal(r, whole) {
		d.violate(g, nil, "rfc822-not-body", fmt.Sprintf("RFC822 (%d octets) differs from BODY[] (%d octets)", len(r), len(whole)), app)
	}
	rh, rt := it["RFC822.HEADER"], it["RFC822.TEXT"]
	if !bytes.Equal(append(append([]byte{}, rh...), rt...), whole) {
		d.violate(g, nil, "rfc822-header-text", fmt.Sprintf("RFC822.HEADER (%d octets) followed by RFC822.TEXT (%d octets) is not BODY[] (%d octets)\nRFC822.HEADER = %s\nRFC822.TEXT = %s", len(rh), len(rt), len(whole), quoteTrim(rh, 400), quoteTrim(rt, 400)), app)
	}
	bh, bt := it["BODY[HEADER]"], it["BODY[TEXT]"]
	if !bytes.Equal(append(append([]byte{}, bh...), bt...), whole) {
		d.violate(g, nil, "body-header-text", fmt.Sprintf("BODY[HEADER] (%d octets) followed by BODY[TEXT] (%d octets) is not BODY[] (%d octets)", len(bh), len(bt), len(whole)), app)
	}
	if !bytes.Equal(bh, rh) || !bytes.Equal(bt, rt) {
		d.violate(g, nil, "rfc822-vs-body-sections", "RFC822.HEADER / RFC822.TEXT differ from BODY[HEADER] / BODY[TEXT]", app)
	}
	// the cases: all partial classes of one section go into one FETCH; the items come back in order
	tree := lc.Tree
	for i := 0; i < len(g.cases); {
		j := i
		for j < len(g.cases) && sameSect(g.cases[j], g.cases[i]) {
			j++
		}
		batch := g.cases[i:j]
		i = j
		type expd struct {
			item, name string
			want       []byte
		}
		var exps []expd
		var req []string
		c0 := batch[0]
		sect := mimegen.SectionText(c0.Sect, c0.Fields, d.nMsg+i)
		kind := c0.Sect.Kind
		if kind == "" {
			kind = "BODY"
		}
		ctx := mimegen.PathCtx(tree, c0.Sect.Path)
		for _, c := range batch {
			want := b.Value(c.Exp.Value)
			o, cnt, has := d.partial(c.Pc, len(want))
			e := expd{item: "BODY.PEEK[" + sect + "]", name: "BODY[" + strings.ToUpper(sect) + "]"}
			if has {
				e.item += fmt.Sprintf("<%d.%d>", o, cnt)
				e.name += fmt.Sprintf("<%d>", o)
				want = slice(want, o, cnt)
			}
			e.want = want
			exps = append(exps, e)
			req = append(req, e.item)
			d.perKind[kind]++
			d.perPc[c.Pc]++
			d.r.Eval(mimegen.Hash(g.key+" "+e.item), true)
		}
		cmd := strings.Join(req, " ")
		l, res, ok := d.fetch1(cmd)
		if res.Closed || res.TimedOut {
			return d.alive(g, c0, "FETCH 1 ("+cmd+")", res, app)
		}
		keyBase := fmt.Sprintf("fetch/%s/%s", kind, ctx)
		if !ok {
			d.violatePc(g, c0, keyBase+"/refused", fmt.Sprintf("FETCH 1 (%s) answered %s %s\nexpected for %s %d octets: %s", cmd, res.Status, res.Text, exps[0].item, len(exps[0].want), quoteTrim(exps[0].want, 300)), app)
			continue
		}
		got := itemList(l)
		if len(got) != len(exps) {
			d.violatePc(g, c0, keyBase+"/item-count", fmt.Sprintf("FETCH 1 (%s): %d items asked, %d BODY items returned: %s", cmd, len(exps), len(got), quoteTrim([]byte(l.String()), 400)), app)
			continue
		}
		for k, e := range exps {
			c := batch[k]
			if got[k].name != e.name {
				d.violatePc(g, c, keyBase+"/item-name", fmt.Sprintf("FETCH 1 (%s): item %d is named %s, expected %s", cmd, k+1, got[k].name, e.name), app)
				continue
			}
			d.bytesRx += int64(len(got[k].val))
			if !bytes.Equal(got[k].val, e.want) {
				d.violatePc(g, c, keyBase+"/wrong-bytes", fmt.Sprintf("FETCH 1 (%s)\nreturned %d octets: %s\nexpected %d octets: %s", e.item, len(got[k].val), quoteTrim(got[k].val, 500), len(e.want), quoteTrim(e.want, 500)), app)
			}
		}
	}
	return true
}

func sameSect(a, b *tcase) bool {
	return a.Sect.Kind == b.Sect.Kind && a.Sect.Fs == b.Sect.Fs && fmt.Sprint(a.Sect.Path) == fmt.Sprint(b.Sect.Path)
}

var pcOrder = map[string]int{"none": 0, "zero": 1, "mid": 2, "atlen": 3, "beyond": 4, "midhuge": 5}

// violatePc: a failure signature seen for the whole section (no partial) is not reported again for its
// partials; one that only appears with a partial carries the partial class.
func (d *drv) violatePc(g *group, c *tcase, key, detail string, msg []byte) {
	if c.Pc != "none" {
		if d.noPartial[key] {
			d.alsoPc[key]++
			return
		}
		key += "/partial=" + c.Pc
	} else {
		d.noPartial[key] = true
	}
	d.violate(g, c, key, detail, msg)
}

func loadGroups(r *ev.Run, tier string) ([]*group, bool) {
	names := []string{"GluonMime.fetch." + tier + ".cfg"}
	if tier == "thorough" {
		names = append(names, "GluonMime.fetch.thorough2.cfg")
	}
	groups := map[string]*group{}
	var states, gen int64
	var wall float64
	perCfg := map[string]int64{}
	seenCase := map[string]bool{}
	for _, name := range names {
		bad, n := 0, 0
		res, err := tlc.Run(tlc.Options{
			SpecDir: filepath.Join(ev.Root(), "spec"), Module: "GluonMime", Cfg: filepath.Join(ev.Root(), "spec", "cfg", name),
			Workers: 8, Timeout: 25 * time.Minute, KeepOutput: true,
			OnJSON: func(raw []byte) {
				var c tcase
				if err := json.Unmarshal(raw, &c); err != nil || c.Tree == nil {
					bad++
					return
				}
				n++
				k := mimegen.Key(c.Tree, c.Shape)
				g := groups[k]
				if g == nil {
					g = &group{key: k}
					groups[k] = g
				}
				if c.Sect.Kind == "LAYOUT" {
					if g.layout == nil {
						g.layout = &c
					}
					return
				}
				ck := mimegen.Hash(fmt.Sprintf("%s|%v|%s|%d|%s", k, c.Sect.Path, c.Sect.Kind, c.Sect.Fs, c.Pc))
				if !seenCase[ck] {
					seenCase[ck] = true
					c.Tree = nil // the group's layout case holds tree and shape
					g.cases = append(g.cases, &c)
				}
			},
		})
		if err != nil {
			r.Machinery("tlc: %v", err)
			return nil, false
		}
		if res.Violated != "" || res.Error != "" || !res.Finished || res.TimedOut {
			r.Machinery("TLC on GluonMime (%s) did not finish cleanly: violated=%q error=%q timeout=%v\n%s", name, res.Violated, res.Error, res.TimedOut, tail(res.Output))
			return nil, false
		}
		if int64(n) != res.Distinct || bad > 0 {
			r.Machinery("TLC (%s) printed %d usable cases (%d unusable) but found %d states", name, n, bad, res.Distinct)
			return nil, false
		}
		states += res.Distinct
		gen += res.Generated
		wall += res.Wall.Seconds()
		perCfg[name] = res.Distinct
	}
	var out []*group
	for _, g := range groups {
		if g.layout == nil {
			r.Machinery("TLC printed cases of %s without its layout", g.key)
			return nil, false
		}
		sort.SliceStable(g.cases, func(i, j int) bool {
			a, b := g.cases[i], g.cases[j]
			ka, kb := fmt.Sprint(a.Sect.Path, a.Sect.Kind, a.Sect.Fs), fmt.Sprint(b.Sect.Path, b.Sect.Kind, b.Sect.Fs)
			if ka != kb {
				return ka < kb
			}
			return pcOrder[a.Pc] < pcOrder[b.Pc]
		})
		out = append(out, g)
	}
	sort.SliceStable(out, func(i, j int) bool {
		di, dj := len(out[i].layout.Shape.Dims()), len(out[j].layout.Shape.Dims())
		if di != dj {
			return di < dj
		}
		return out[i].key < out[j].key
	})
	r.Set("states", states)
	r.Set("transitions", gen)
	r.Set("tlc_wall_s", wall)
	r.Set("states_per_cfg", perCfg)
	return out, true
}

func run(r *ev.Run, tier, replay string) {
	d := &drv{r: r, rnd: rand.New(rand.NewSource(ev.Seed())), dd: mimegen.NewDedup(), alsoPc: map[string]int{},
		noPartial: map[string]bool{}, refused: map[string]int{}, perKind: map[string]int64{}, perPc: map[string]int64{}, perArrival: map[string]int64{}}
	var groups []*group
	if replay != "" {
		b, err := os.ReadFile(replay)
		if err != nil {
			r.Machinery("replay: %v", err)
			return
		}
		var rp struct {
			Replay struct {
				Layout *tcase `json:"layout"`
				Case   *tcase `json:"case"`
			} `json:"replay"`
		}
		if err := json.Unmarshal(b, &rp); err != nil || rp.Replay.Layout == nil {
			r.Machinery("replay file: %v", err)
			return
		}
		g := &group{key: mimegen.Key(rp.Replay.Layout.Tree, rp.Replay.Layout.Shape), layout: rp.Replay.Layout}
		if rp.Replay.Case != nil {
			g.cases = []*tcase{rp.Replay.Case}
		}
		groups = []*group{g}
		r.Set("states", 1+len(g.cases))
		r.Set("transitions", 1+len(g.cases))
	} else {
		var ok bool
		groups, ok = loadGroups(r, tier)
		if !ok {
			return
		}
	}
	srv, err := fixture.StartChild(fixture.ChildConfig{})
	if err != nil {
		r.Machinery("server: %v", err)
		return
	}
	d.srv = srv
	defer func() { d.srv.Stop() }()
	if err := d.connect(); err != nil {
		r.Machinery("%v", err)
		return
	}
	defer d.c.Close()
	defer func() {
		if d.cR != nil {
			d.cR.Close()
		}
		if d.srvR != nil {
			d.srvR.Stop()
		}
	}()
	nCases := 0
	dims := map[string]map[string]int{"hdr": {}, "le": {}, "bnd": {}, "dmg": {}, "size": {}}
	for i, g := range groups {
		if !d.runGroup(g, fmt.Sprintf("g%d", i)) {
			return
		}
		nCases += len(g.cases) * max(1, len(g.layout.Arrivals))
		s := g.layout.Shape
		dims["hdr"][s.Hdr]++
		dims["le"][s.Le]++
		dims["bnd"][s.Bnd]++
		dims["dmg"][s.Dmg]++
		dims["size"][s.Size]++
		if i%(len(groups)/6+1) == 0 && len(g.cases) > 0 {
			c := g.cases[len(g.cases)/2]
			r.Sample(map[string]interface{}{"message": g.key, "section": mimegen.SectionText(c.Sect, c.Fields, 0), "partial_class": c.Pc, "expected_chunks": c.Exp.Value})
		}
	}
	r.Set("traces_validated_against_impl", int64(nCases))
	r.Set("messages_appended", d.nMsg)
	r.Set("messages_per_arrival_path", d.perArrival)
	r.Set("messages_refused_by_append_damaged", d.refused)
	r.Set("fetches_per_section_kind", d.perKind)
	r.Set("fetches_per_partial_class", d.perPc)
	r.Set("message_dimensions", dims)
	r.Set("octets_compared", d.bytesRx)
	r.Set("failure_signatures_repeated_under_other_shapes", d.dd.Also)
	r.Set("failure_signatures_repeated_under_partials", d.alsoPc)
	r.Set("server_crashes", d.crashes)
	r.Set("exhaustive", true)
	r.Set("rule", "one case = (tree, shape, section, partial class) enumerated exhaustively by TLC from GluonMime (Family fetch) within the cfg bounds, with the section's value as chunk indexes of the layout; every (tree, shape) is rendered and APPENDed once, every case is one FETCH 1 (BODY.PEEK[section]<o.n>) compared octet by octet; per message also RFC822.SIZE, RFC822, RFC822.HEADER+RFC822.TEXT, BODY[HEADER]+BODY[TEXT] against BODY[]; offsets of a partial class are seeded; non-trivial = every executed FETCH; distinct = distinct (message, FETCH item)")
	r.Assumptions = []string{
		"bounded: trees of depth <= 3 within the cfg's node budget; one rendering per (tree, shape)",
		"a top level message whose own type is message/rfc822 is excluded (RFC 3501 does not settle its part numbering)",
		"for damaged messages only BODY[] / RFC822 / RFC822.SIZE / HEADER+TEXT = BODY[] are judged",
		"the concrete offsets of a partial class are chosen with VERIF_SEED; 'huge' is 4294967295",
		"the server's id line is read back from BODY[] (must be exactly one well-formed X-Pm-Gluon-Id line at the first header field) and then used as the bytes of the layout's idline chunk",
		"size classes pad the first leaf body so that the stored message is 256 KiB - 1, 256 KiB, 256 KiB + 1, 600 KiB (store block = 256 KiB)",
	}
}

func tail(s string) string {
	if len(s) > 3000 {
		return s[len(s)-3000:]
	}
	return s
}
