// Package selftest checks that the tool chain itself works: TLC runs, JSON lines are
// parsed, a real server starts and answers.
package selftest

import (
	"github.com/ProtonMail/gluon/verif/drivers"
	"github.com/ProtonMail/gluon/verif/pkg/ev"
	"github.com/ProtonMail/gluon/verif/pkg/fixture"
	"github.com/ProtonMail/gluon/verif/pkg/wire"
	"time"
)

func init() { drivers.Register("selftest", "other", run) }

func run(r *ev.Run, tier, replay string) {
	srv, err := fixture.StartServer(fixture.Config{})
	if err != nil {
		r.Machinery("server: %v", err)
		return
	}
	defer srv.RemoveDir()
	defer srv.Close(10 * time.Second)
	c, err := wire.Dial(srv.Addr)
	if err != nil {
		r.Machinery("dial: %v", err)
		return
	}
	defer c.Close()
	res := c.Login("user", "pass")
	if res.Status != "OK" {
		r.Machinery("login: %+v", res)
		return
	}
	res = c.Append("INBOX", "", []byte("From: a@b.c\r\nDate: Mon, 7 Feb 1994 21:52:25 -0800\r\n\r\nhello"))
	r.Sample(res.Status + " " + res.Text)
	res = c.Cmd("SELECT INBOX")
	for _, l := range res.Untagged {
		r.Sample(l.String())
	}
	res = c.Cmd("FETCH 1 (UID FLAGS BODY.PEEK[])")
	for _, l := range res.Untagged {
		r.Sample(l.String())
	}
	r.Eval("a", true)
	r.Eval("b", true)
	r.Set("explanation", "tool chain self test")
}
