// Package publish is the true-concurrency part of C02 (GluonPublish.tla): a state-changing command commits its change
// in one database transaction and publishes the state updates in a second one; commit and publish of different parties
// interleave. TLC enumerates every interleaving of the two halves of two parties (two sessions, or a session and the
// connector); each is forced on the real server with the blocking hooks "state.committed" / "user.committed" (a party
// is parked between its two halves), the observer's updates are delivered through the update gate, and the property's
// own predicate is evaluated on real data: after NOOP the observing session shows the mailbox as a brand-new session does.
package publish

import (
	"encoding/json"
	"fmt"
	"path/filepath"
	"sort"
	"strings"
	"sync"
	"time"

	"github.com/ProtonMail/gluon/imap"
	"github.com/ProtonMail/gluon/verif/pkg/core"
	"github.com/ProtonMail/gluon/verif/pkg/ev"
	"github.com/ProtonMail/gluon/verif/pkg/fixture"
	"github.com/ProtonMail/gluon/verif/pkg/tlc"
	"github.com/ProtonMail/gluon/verif/pkg/wire"
)

type step struct {
	Act string `json:"act"`
	A   string `json:"a"`
	Op  string `json:"op"`
	N   int    `json:"n"`
}

type view struct {
	In   bool `json:"in"`
	UID  int  `json:"uid"`
	Seen bool `json:"seen"`
}

type trace struct {
	Cfg      string `json:"cfg"`
	Steps    []step `json:"trace"`
	Diverged bool   `json:"diverged"`
	DB       view   `json:"db"`
	Obs      view   `json:"obs"`
}

func (t *trace) sig() string {
	var b strings.Builder
	b.WriteString(t.Cfg + ":")
	for _, s := range t.Steps {
		b.WriteString(s.Act[:1] + s.A + " ")
	}
	return b.String()
}

// ops: who does what, per configuration (the specification's Ops_... constants)
type cfgT struct {
	file      string
	startIn   bool
	startSeen bool
}

var cfgs = []cfgT{
	{"GluonPublish.addrem.cfg", true, false},
	{"GluonPublish.addrem.seen.cfg", true, true},
	{"GluonPublish.outin.cfg", true, false},
	{"GluonPublish.outin.absent.cfg", false, false},
	{"GluonPublish.inin.cfg", true, false},
	{"GluonPublish.conn.cfg", true, false},
	{"GluonPublish.conn.seen.cfg", true, true},
}

// parking: an armed party blocks in the hook until it is released
type parking struct {
	mu     sync.Mutex
	armed  map[string]bool
	parked map[string]chan struct{}
	free   map[string]chan struct{}
}

func key(kind string, id int64) string {
	if kind == "user.committed" {
		return "conn"
	}
	return fmt.Sprintf("s%d", id)
}

func (p *parking) event(kind string, id int64, _ string) {
	if kind != "state.committed" && kind != "user.committed" {
		return
	}
	k := key(kind, id)
	p.mu.Lock()
	if !p.armed[k] {
		p.mu.Unlock()
		return
	}
	p.armed[k] = false
	pk, fr := p.parked[k], p.free[k]
	p.mu.Unlock()
	close(pk)
	select {
	case <-fr:
	case <-time.After(60 * time.Second): // never keep a server goroutine for good
	}
}

func (p *parking) arm(k string) (parked, free chan struct{}) {
	p.mu.Lock()
	defer p.mu.Unlock()
	parked, free = make(chan struct{}), make(chan struct{})
	p.armed[k], p.parked[k], p.free[k] = true, parked, free
	return
}

func (p *parking) disarm(k string) {
	p.mu.Lock()
	p.armed[k] = false
	p.mu.Unlock()
}

func lit(tag string) []byte {
	return []byte("From: v@verif.test\r\nDate: Mon, 7 Feb 1994 21:52:25 -0800\r\nSubject: " + tag + "\r\n\r\nbody " + tag + "\r\n")
}

// Run is called by the C02 check (one worker).
func Run(r *ev.Run, tier string) {
	specDir := filepath.Join(ev.Root(), "spec")
	res, err := tlc.Run(tlc.Options{SpecDir: specDir, Module: "GluonPublish", Cfg: filepath.Join(specDir, "cfg", "GluonPublish.design.cfg"), Workers: 1, Timeout: 5 * time.Minute, KeepOutput: true})
	if err != nil || res.Violated != "" || res.Error != "" || !res.Finished {
		r.Machinery("TLC on GluonPublish.design.cfg: err=%v violated=%q error=%q (model-level, not a verdict)", err, res.Violated, res.Error)
		return
	}
	r.Add("states", res.Distinct)
	r.Add("transitions", res.Generated)
	res, err = tlc.Run(tlc.Options{SpecDir: specDir, Module: "GluonPublish", Cfg: filepath.Join(specDir, "cfg", "GluonPublish.ascode.cfg"), Workers: 1, Timeout: 5 * time.Minute, KeepOutput: true})
	if err != nil || res.Violated != "Converges" {
		r.Machinery("TLC on GluonPublish.ascode.cfg was expected to report Converges violated (publication order differs from commit order): err=%v violated=%q error=%q", err, res.Violated, res.Error)
		return
	}
	var all []*trace
	for _, c := range cfgs {
		c := c
		var traces []*trace
		res, err := tlc.Run(tlc.Options{SpecDir: specDir, Module: "GluonPublish", Cfg: filepath.Join(specDir, "cfg", c.file), Workers: 1, Timeout: 5 * time.Minute, KeepOutput: true,
			OnJSON: func(raw []byte) {
				var t trace
				if json.Unmarshal(raw, &t) == nil && len(t.Steps) > 0 {
					t.Cfg = c.file
					traces = append(traces, &t)
				}
			}})
		if err != nil || res.Violated != "" || res.Error != "" || !res.Finished || len(traces) == 0 {
			r.Machinery("TLC on %s: err=%v violated=%q error=%q behaviours=%d", c.file, err, res.Violated, res.Error, len(traces))
			return
		}
		r.Add("states", res.Distinct)
		r.Add("transitions", res.Generated)
		sort.Slice(traces, func(i, j int) bool { return traces[i].sig() < traces[j].sig() })
		all = append(all, traces...)
	}
	r.Add("publish_interleavings_enumerated", int64(len(all)))
	replayAll(r, all)
}

// ReplayFile re-executes one recorded interleaving.
func ReplayFile(r *ev.Run, raw json.RawMessage) bool {
	var t trace
	if json.Unmarshal(raw, &t) != nil || len(t.Steps) == 0 {
		return false
	}
	replayAll(r, []*trace{&t})
	return true
}

func cfgOf(file string) cfgT {
	for _, c := range cfgs {
		if c.file == file {
			return c
		}
	}
	return cfgs[0]
}

func replayAll(r *ev.Run, traces []*trace) bool {
	g := core.NewGate()
	defer g.Release()
	pk := &parking{armed: map[string]bool{}, parked: map[string]chan struct{}{}, free: map[string]chan struct{}{}}
	g.Events = pk.event
	conn := fixture.NewVConn(map[string]string{"user": "pass"})
	srv, err := fixture.StartServer(fixture.Config{Users: []fixture.User{{Name: "user", Pass: "pass", Conn: conn}}})
	if err != nil {
		r.Machinery("publish: cannot start a server: %v", err)
		return false
	}
	defer func() { _ = srv.Close(20 * time.Second); srv.RemoveDir() }()
	login := func(gated bool) (*wire.Client, int64, error) {
		g.SetGateNext(gated)
		defer g.SetGateNext(false)
		w, err := wire.Dial(srv.Addr)
		if err != nil {
			return nil, 0, err
		}
		if res := w.Login("user", "pass"); res.Status != "OK" {
			return nil, 0, fmt.Errorf("login: %s %s", res.Status, res.Text)
		}
		id, _ := g.LastState()
		return w, id, nil
	}
	aux, _, err := login(false)
	if err != nil {
		r.Machinery("publish: %v", err)
		return false
	}
	defer aux.Close()
	for ti, t := range traces {
		c := cfgOf(t.Cfg)
		boxA, boxB := fmt.Sprintf("pa%d", ti), fmt.Sprintf("pb%d", ti)
		var log []string
		logf := func(f string, a ...interface{}) { log = append(log, fmt.Sprintf(f, a...)) }
		fail := func(k, detail string) {
			r.Violate(k, detail+"\ninterleaving ("+t.Cfg+"):\n  "+strings.Join(log, "\n  "), map[string]interface{}{"publish": t})
		}
		mach := func(f string, a ...interface{}) bool {
			r.Machinery("publish (%s #%d): %s\n  %s", t.Cfg, ti, fmt.Sprintf(f, a...), strings.Join(log, "\n  "))
			return false
		}
		// set-up: m in B always (the source of moveIn), in A when the configuration says so, \Seen likewise
		for _, cmd := range []string{"CREATE " + boxA, "CREATE " + boxB} {
			if res := aux.Cmd(cmd); res.Status != "OK" {
				return mach("%s: %s %s", cmd, res.Status, res.Text)
			}
		}
		fl := ""
		if c.startSeen {
			fl = `\Seen`
		}
		if res := aux.Append(boxB, fl, lit(fmt.Sprintf("m-%d", ti))); res.Status != "OK" {
			return mach("APPEND: %s %s", res.Status, res.Text)
		}
		if c.startIn {
			aux.Cmd("SELECT " + boxB)
			if res := aux.Cmd("COPY 1 " + boxA); res.Status != "OK" {
				return mach("COPY: %s %s", res.Status, res.Text)
			}
			aux.Cmd("UNSELECT")
		}
		// remote id of the message (for the connector's flag update)
		var rid imap.MessageID
		for id, vm := range conn.Messages {
			if strings.Contains(string(vm.Literal), fmt.Sprintf("Subject: m-%d\r\n", ti)) {
				rid = id
			}
		}
		// the observer (gated) and the acting sessions, each with the mailbox its operation needs
		obs, obsID, err := login(true)
		if err != nil {
			return mach("%v", err)
		}
		if res := obs.Cmd("SELECT " + boxA); res.Status != "OK" {
			obs.Close()
			return mach("observer SELECT: %s %s", res.Status, res.Text)
		}
		opOf := map[string]string{}
		for _, s := range t.Steps {
			if s.A != "o" {
				opOf[s.A] = s.Op
			}
		}
		cl := map[string]*wire.Client{}
		sid := map[string]string{}
		ok := true
		for a, op := range opOf {
			if a == "conn" {
				continue
			}
			w, id, err := login(false)
			if err != nil {
				return mach("%v", err)
			}
			box := boxA
			if op == "moveIn" {
				box = boxB
			}
			if res := w.Cmd("SELECT " + box); res.Status != "OK" {
				return mach("SELECT %s: %s %s", box, res.Status, res.Text)
			}
			cl[a], sid[a] = w, fmt.Sprintf("s%d", id)
		}
		cmdOf := func(a string) string {
			switch opOf[a] {
			case "addSeen":
				return `STORE 1 +FLAGS (\Seen)`
			case "remSeen":
				return `STORE 1 -FLAGS (\Seen)`
			case "moveOut":
				return "MOVE 1 " + boxB
			}
			return "COPY 1 " + boxA // moveIn
		}
		type flight struct {
			done     chan string
			parked   chan struct{}
			free     chan struct{}
			released bool
			finished bool
			heldBack bool // did not reach its commit while another party was parked: the server serialises the two
		}
		fls := map[string]*flight{}
		var order []string
		// finish lets a released party run to completion
		finish := func(a string) bool {
			f := fls[a]
			if f.finished {
				return true
			}
			select {
			case d := <-f.done:
				f.finished = true
				logf("[%s] published -> %s", a, d)
				return true
			case <-time.After(30 * time.Second):
				return mach("released %s of %s did not complete within 30 s", opOf[a], a)
			}
		}
		release := func(a string) bool {
			f := fls[a]
			if !f.released {
				f.released = true
				close(f.free)
			}
			return finish(a)
		}
		for _, st := range t.Steps {
			if !ok {
				break
			}
			switch st.Act {
			case "Commit":
				f := &flight{done: make(chan string, 1)}
				k := "conn"
				if st.A != "conn" {
					k = sid[st.A]
				}
				f.parked, f.free = pk.arm(k)
				fls[st.A] = f
				order = append(order, st.A)
				if st.A == "conn" {
					fs := imap.NewFlagSet()
					if st.Op == "addSeen" {
						fs = imap.NewFlagSet(imap.FlagSeen)
					}
					go func() {
						err := conn.Submit(imap.NewMessageFlagsUpdated(rid, fs), 60*time.Second)
						f.done <- fmt.Sprintf("acknowledged: %v", err)
					}()
				} else {
					go func(w *wire.Client, cmd string) {
						res := w.Cmd(cmd)
						f.done <- res.Status + " " + res.Text
					}(cl[st.A], cmdOf(st.A))
				}
				othersParked := false
				for b, o := range fls {
					if b != st.A && !o.released && !o.finished {
						othersParked = true
					}
				}
				wait := 30 * time.Second
				if othersParked {
					// provocation only, no verdict depends on it: when the server does not let this party commit while the
					// other one is between its two halves, the interleaving TLC printed cannot happen and the parties run
					// one after the other
					wait = 400 * time.Millisecond
				}
				select {
				case <-f.parked:
					logf("[%s] %s: committed, parked before the publication of its update(s)", st.A, st.Op)
				case d := <-f.done:
					f.finished, f.released = true, true
					pk.disarm(k)
					close(f.free)
					logf("[%s] %s -> %s (completed without passing the commit hook)", st.A, st.Op, d)
				case <-time.After(wait):
					if !othersParked {
						return mach("%s of %s neither reached the hook nor completed within 30 s", st.Op, st.A)
					}
					f.heldBack = true
					r.Add("publish_commits_held_back_by_the_server", 1)
					logf("[%s] %s: not committed while another party is between commit and publication (held back by the server)", st.A, st.Op)
				}
			case "Publish":
				f := fls[st.A]
				if f.heldBack && !f.finished {
					// it can only go on once the parked parties have published: they go first, then this one passes its hook
					for _, b := range order {
						if b != st.A && !fls[b].heldBack {
							if !release(b) {
								return false
							}
						}
					}
					select {
					case <-f.parked:
					case d := <-f.done:
						f.finished, f.released = true, true
						logf("[%s] -> %s", st.A, d)
					case <-time.After(30 * time.Second):
						return mach("%s of %s was held back and did not go on after the other party had published", st.Op, st.A)
					}
					f.heldBack = false
				}
				if !release(st.A) {
					return false
				}
			case "Observe":
			}
		}
		for _, a := range order {
			if !fls[a].finished && !release(a) {
				return false
			}
		}
		// deliver everything queued for the observer, in queue order
		for g.Pending(obsID) > 0 {
			u, passed, err := g.Deliver(obsID)
			if err != nil {
				return mach("deliver: %v", err)
			}
			logf("[o] applies %s (passed its filter: %v)", u, passed)
		}
		res := obs.Cmd("NOOP")
		for _, l := range res.Untagged {
			logf("[o] NOOP: %s", l.Text)
		}
		got := fetchView(obs)
		fresh, _, err := login(false)
		if err != nil {
			return mach("%v", err)
		}
		fresh.Cmd("EXAMINE " + boxA)
		want := fetchView(fresh)
		fresh.Cmd("LOGOUT")
		fresh.Close()
		logf("[o] FETCH 1:* (UID FLAGS) -> %s", got)
		logf("a brand-new session sees %s", want)
		if got != want {
			shape := strings.TrimSuffix(strings.TrimPrefix(t.Cfg, "GluonPublish."), ".cfg")
			fail("C02/diverged/publish-order/"+shape, fmt.Sprintf("once every update has been delivered and the observer has sent NOOP it shows %s of mailbox A; a brand-new session shows %s (the specification predicts divergence for this interleaving: %v)", got, want, t.Diverged))
		} else if t.Diverged {
			r.Add("publish_model_divergence_not_observed", 1)
		}
		obs.Close()
		for _, w := range cl {
			w.Close()
		}
		aux.Cmd("DELETE " + boxA)
		aux.Cmd("DELETE " + boxB)
		r.Eval("publish:"+t.sig(), true)
		r.Add("traces_validated_against_impl", 1)
		r.Add("publish_interleavings_replayed", 1)
		if ti == 0 {
			r.Sample(map[string]interface{}{"source": t.Cfg, "concrete": log})
		}
	}
	return true
}

// fetchView renders FETCH 1:* (UID FLAGS) of the selected mailbox without \Recent, in sequence order.
func fetchView(c *wire.Client) string {
	res := c.Cmd("FETCH 1:* (UID FLAGS)")
	if res.Status != "OK" {
		return "[]" // FETCH 1:* on an empty mailbox is refused
	}
	evs := wire.Events(res.Untagged)
	sort.SliceStable(evs, func(i, j int) bool { return evs[i].N < evs[j].N })
	var out []string
	for _, e := range evs {
		if e.Kind != "FETCH" {
			continue
		}
		var fl []string
		for _, f := range e.Flags {
			if !strings.EqualFold(f, `\Recent`) {
				fl = append(fl, f)
			}
		}
		sort.Strings(fl)
		out = append(out, fmt.Sprintf("%d:uid%d(%s)", e.N, e.UID, strings.Join(fl, " ")))
	}
	return "[" + strings.Join(out, " ") + "]"
}
