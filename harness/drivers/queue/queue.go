// Package queue binds GluonQueue.tla to async.QueuedChannel (C02: "FIFO, loss-free queue between writer and session"):
// TLC model-checks the pump / channel design (Fifo, Conserved, NoLoss, PumpEnds) and enumerates every behaviour of a few
// external calls (Enqueue of batches on both sides of the channel buffer and of the slice capacity, Receive, Close,
// CloseAndDiscardQueued); each is executed on a real QueuedChannel with the parameters gluon uses (32, 128) and what the
// reader gets is compared with the model.
package queue

import (
	"encoding/json"
	"fmt"
	"path/filepath"
	"strings"
	"time"

	"github.com/ProtonMail/gluon/async"
	"github.com/ProtonMail/gluon/verif/pkg/ev"
	"github.com/ProtonMail/gluon/verif/pkg/tlc"
)

type call struct {
	C    string `json:"c"`
	N    int    `json:"n"`
	OK   bool   `json:"ok"`
	Want []int  `json:"want"`
}

type behaviour struct {
	Calls     []call `json:"calls"`
	Closed    bool   `json:"closed"`
	Discarded bool   `json:"discarded"`
	Accepted  int    `json:"accepted"`
	Rest      []int  `json:"rest"`
}

func (b *behaviour) sig() string {
	var s []string
	for _, c := range b.Calls {
		s = append(s, fmt.Sprintf("%s(%d)", c.C, c.N))
	}
	return strings.Join(s, " ")
}

const watchdog = 10 * time.Second

// exec runs one behaviour; returns "" or (key, detail).
func exec(b *behaviour) (key, detail string) {
	q := async.NewQueuedChannel[int](32, 128, async.NoopPanicHandler{}, "verif")
	next := 1
	closed := false
	recv := func() (int, bool, bool) { // value, open, in time
		select {
		case v, ok := <-q.GetChannel():
			return v, ok, true
		case <-time.After(watchdog):
			return 0, false, false
		}
	}
	cleanup := func() {
		if !closed {
			q.CloseAndDiscardQueued()
		}
	}
	for i, c := range b.Calls {
		switch c.C {
		case "Enqueue":
			items := make([]int, c.N)
			for k := range items {
				items[k] = next + k
			}
			ok := q.Enqueue(items...)
			if ok {
				next += c.N
			}
			if ok != c.OK {
				cleanup()
				return "queue/enqueue-result", fmt.Sprintf("call %d of [%s]: Enqueue of %d items returned %v, the specification says %v", i+1, b.sig(), c.N, ok, c.OK)
			}
		case "Receive":
			for k, want := range c.Want {
				v, open, inTime := recv()
				if !inTime {
					cleanup()
					return "queue/item-never-arrives", fmt.Sprintf("call %d of [%s]: item %d (the %d. of %d to receive) did not arrive within %v", i+1, b.sig(), want, k+1, len(c.Want), watchdog)
				}
				if !open {
					return "queue/closed-early", fmt.Sprintf("call %d of [%s]: the channel is closed although item %d is still to come", i+1, b.sig(), want)
				}
				if v != want {
					cleanup()
					return "queue/order", fmt.Sprintf("call %d of [%s]: received item %d, the specification says %d (FIFO)", i+1, b.sig(), v, want)
				}
			}
		case "Close":
			q.Close()
			closed = true
		case "CloseDiscard":
			q.CloseAndDiscardQueued()
			closed = true
		}
	}
	if !closed {
		q.CloseAndDiscardQueued()
		closed = true
		b = &behaviour{Calls: b.Calls, Closed: true, Discarded: true, Rest: b.Rest}
	}
	// the reader reads on until the channel is closed
	var tail []int
	for {
		v, open, inTime := recv()
		if !inTime {
			return "queue/never-closed", fmt.Sprintf("[%s]: the queue was closed but its channel is neither closed nor delivering after %v (got %v so far, the specification expects %v)", b.sig(), watchdog, tail, b.Rest)
		}
		if !open {
			break
		}
		tail = append(tail, v)
	}
	if b.Discarded {
		if len(tail) > len(b.Rest) || fmt.Sprint(tail) != fmt.Sprint(b.Rest[:len(tail)]) {
			return "queue/order-after-discard", fmt.Sprintf("[%s]: after CloseAndDiscardQueued the reader got %v, which is not a prefix of what was queued: %v", b.sig(), tail, b.Rest)
		}
	} else if fmt.Sprint(tail) != fmt.Sprint(b.Rest) && !(len(tail) == 0 && len(b.Rest) == 0) {
		return "queue/lost-or-reordered", fmt.Sprintf("[%s]: after Close the reader got %v until the channel was closed, the specification says %v", b.sig(), tail, b.Rest)
	}
	done := make(chan struct{})
	go func() { q.Wait(); close(done) }()
	select {
	case <-done:
	case <-time.After(watchdog):
		return "queue/pump-not-ended", fmt.Sprintf("[%s]: the pump goroutine has not ended %v after the channel was closed", b.sig(), watchdog)
	}
	return "", ""
}

// Run is called by the C02 check (one worker).
func Run(r *ev.Run, tier string) {
	specDir := filepath.Join(ev.Root(), "spec")
	res, err := tlc.Run(tlc.Options{SpecDir: specDir, Module: "GluonQueue", Cfg: filepath.Join(specDir, "cfg", "GluonQueue.mc.cfg"), Workers: 2, Timeout: 5 * time.Minute, KeepOutput: true})
	if err != nil || res.Violated != "" || res.Error != "" || !res.Finished {
		r.Machinery("TLC on GluonQueue.mc.cfg: err=%v violated=%q error=%q (model-level, not a verdict)", err, res.Violated, res.Error)
		return
	}
	r.Add("states", res.Distinct)
	r.Add("transitions", res.Generated)
	n := 0
	res, err = tlc.Run(tlc.Options{SpecDir: specDir, Module: "GluonQueue", Cfg: filepath.Join(specDir, "cfg", "GluonQueue.all."+tier+".cfg"), Workers: 4, Timeout: 15 * time.Minute, KeepOutput: true,
		OnJSON: func(raw []byte) {
			var b behaviour
			if json.Unmarshal(raw, &b) != nil || len(b.Calls) == 0 {
				return
			}
			n++
			if key, detail := exec(&b); key != "" {
				r.Violate(key, detail, map[string]interface{}{"queue": b})
			}
			r.Eval("queue:"+b.sig(), true)
		}})
	if err != nil || res.Violated != "" || res.Error != "" || !res.Finished || n == 0 {
		r.Machinery("TLC on GluonQueue.all.%s.cfg: err=%v violated=%q error=%q behaviours=%d", tier, err, res.Violated, res.Error, n)
		return
	}
	r.Add("states", res.Distinct)
	r.Add("transitions", res.Generated)
	r.Add("queue_behaviours_replayed", int64(n))
	r.Add("traces_validated_against_impl", int64(n))
}

// ReplayFile re-executes one stored behaviour.
func ReplayFile(r *ev.Run, raw json.RawMessage) bool {
	var b behaviour
	if json.Unmarshal(raw, &b) != nil || len(b.Calls) == 0 {
		return false
	}
	if key, detail := exec(&b); key != "" {
		r.Violate(key, detail, map[string]interface{}{"queue": b})
	}
	r.Eval("queue:"+b.sig(), true)
	return true
}
