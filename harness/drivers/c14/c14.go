// Package c14: the mailbox namespace and LIST/LSUB follow GluonNamespace.tla.
//
// TLC (a) explores the bounded namespace model exhaustively and checks its invariants and the
// laws of the glob matcher, and (b) prints simulated behaviours: sequences of CREATE, DELETE,
// RENAME, SUBSCRIBE, UNSUBSCRIBE (and, for the connector family, MailboxCreated / Updated /
// Deleted updates) with the expected tagged result of every command, the expected LIST "" "*"
// and LSUB "" "*" after every step, a few random LIST/LSUB queries per step and the table of
// all queries at the final state.  The driver replays each behaviour on a real server (one
// family per hierarchy delimiter in a child process, the connector family in-process) and
// compares what the server says with what TLC printed.  Nothing of the model lives here: the
// driver renders abstract characters to bytes (modified UTF-7, IMAP quoting), parses replies
// and compares sets.
package c14

import (
	"context"
	"encoding/base64"
	"encoding/json"
	"fmt"
	"github.com/ProtonMail/gluon/connector"
	"github.com/ProtonMail/gluon/limits"
	"os"
	"path/filepath"
	"regexp"
	"sort"
	"strconv"
	"strings"
	"sync"
	"time"
	"unicode/utf16"

	"github.com/ProtonMail/gluon/imap"
	"github.com/ProtonMail/gluon/internal/ids"
	"github.com/ProtonMail/gluon/verif/drivers"
	"github.com/ProtonMail/gluon/verif/pkg/ev"
	"github.com/ProtonMail/gluon/verif/pkg/fixture"
	"github.com/ProtonMail/gluon/verif/pkg/tlc"
	"github.com/ProtonMail/gluon/verif/pkg/wire"
)

func init() { drivers.Register("C14", "model_checking", run) }

// ---- what TLC prints ---------------------------------------------------------

type chars []string // abstract characters

type argT struct {
	T   chars  `json:"t"`
	F   string `json:"f"`
	I   bool   `json:"i"`
	Rec bool   `json:"rec"`
}

type entryT struct {
	Name  chars `json:"name"`
	Nosel bool  `json:"nosel"`
}

type queryT struct {
	Ref    chars    `json:"ref"`
	Pat    chars    `json:"pat"`
	Lsub   bool     `json:"lsub"`
	Exp    []entryT `json:"exp"`
	Judged bool     `json:"judged"`
	Cls    string   `json:"cls"`
	Inbox  bool     `json:"inbox"`
}

type connT struct {
	Target chars     `json:"target"`
	Comps  []chars   `json:"comps"`
	Rec    bool      `json:"rec"`
	More   [][]chars `json:"more"` // StateWrite: the further mailboxes of the same write transaction
}

type stepT struct {
	Act     string     `json:"act"`
	S       int        `json:"s"`
	Args    []argT     `json:"args"`
	Status  string     `json:"status"`
	Created []chars    `json:"created"`
	Moved   [][2]chars `json:"moved"`
	Removed []chars    `json:"removed"`
	Conn    connT      `json:"conn"`
	List    []entryT   `json:"list"`
	Lsub    []entryT   `json:"lsub"`
	Boxes   []chars    `json:"boxes"`
	Holder  chars      `json:"holder"`
	Qs      []queryT   `json:"qs"`
}

type behT struct {
	Mode  string   `json:"mode"`
	Trace []stepT  `json:"trace"`
	Final []queryT `json:"final"`
}

// ---- rendering -----------------------------------------------------------------

// text renders abstract characters to the UTF-8 string they stand for.
func text(cs chars) string {
	var b strings.Builder
	for _, c := range cs {
		if strings.HasPrefix(c, "U+") {
			if n, err := strconv.ParseUint(c[2:], 16, 32); err == nil {
				b.WriteRune(rune(n))
				continue
			}
		}
		b.WriteString(c)
	}
	return b.String()
}

// utf7 encodes a string in IMAP's modified UTF-7 (RFC 3501 5.1.3).
func utf7(s string) string {
	var b strings.Builder
	var pending []rune
	flush := func() {
		if len(pending) == 0 {
			return
		}
		u := utf16.Encode(pending)
		raw := make([]byte, 0, 2*len(u))
		for _, x := range u {
			raw = append(raw, byte(x>>8), byte(x))
		}
		enc := base64.StdEncoding.WithPadding(base64.NoPadding).EncodeToString(raw)
		b.WriteByte('&')
		b.WriteString(strings.ReplaceAll(enc, "/", ","))
		b.WriteByte('-')
		pending = nil
	}
	for _, r := range s {
		if r >= 0x20 && r <= 0x7e {
			flush()
			if r == '&' {
				b.WriteString("&-")
			} else {
				b.WriteRune(r)
			}
		} else {
			pending = append(pending, r)
		}
	}
	flush()
	return b.String()
}

func wireName(cs chars) string { return wire.Quote(utf7(text(cs))) }

var delimClass = map[string]string{"/": "slash", ".": "dot", "|": "pipe", "]": "bracket", "\\": "backslash"}

// ---- families --------------------------------------------------------------------

type family struct {
	Name   string // cfg name and delimiter class
	Delim  string
	InProc bool // connector family: in-process server + harness connector
	Limit  int  // C17: mailbox-count limit of the family's cfg (0 = default limits); not part of C14's own run
}

var families = []family{
	{Name: "slash", Delim: "/"},
	{Name: "dot", Delim: "."},
	{Name: "pipe", Delim: "|"},
	{Name: "bracket", Delim: "]"},
	{Name: "backslash", Delim: "\\"},
	{Name: "conn", Delim: "/", InProc: true},
	{Name: "limit", Delim: "/", InProc: true, Limit: 4},
}

func famByName(n string) *family {
	for i := range families {
		if families[i].Name == n {
			return &families[i]
		}
	}
	return nil
}

func (f *family) class() string { return delimClass[f.Delim] }

type replayObj struct {
	Family string `json:"family"`
	Beh    *behT  `json:"beh"`
}

// ---- servers -----------------------------------------------------------------------

type userEnv struct {
	name string
	conn *fixture.VConn // in-process only
}

type env struct {
	fam    *family
	child  *fixture.ChildServer
	inproc *fixture.Server
	addr   string
	users  []userEnv
	next   int
}

const usersPerServer = 12

func startEnv(f *family) (*env, error) {
	e := &env{fam: f}
	if f.InProc {
		var us []fixture.User
		for i := 0; i < usersPerServer; i++ {
			n := fmt.Sprintf("u%d", i)
			us = append(us, fixture.User{Name: n, Pass: "pass", Conn: fixture.NewVConn(map[string]string{n: "pass"})})
		}
		cfg := fixture.Config{Delimiter: f.Delim, Users: us}
		if f.Limit > 0 {
			// the hidden recovery mailbox counts as well
			l := limits.NewIMAPLimits(uint32(f.Limit+1), 1<<20, 1<<30, 1<<30)
			cfg.Limits = &l
		}
		s, err := fixture.StartServer(cfg)
		if err != nil {
			return nil, err
		}
		e.inproc, e.addr = s, s.Addr
		for _, u := range s.Users {
			e.users = append(e.users, userEnv{name: u.Name, conn: u.Conn})
		}
		return e, nil
	}
	var us [][2]string
	for i := 0; i < usersPerServer; i++ {
		us = append(us, [2]string{fmt.Sprintf("u%d", i), "pass"})
		e.users = append(e.users, userEnv{name: fmt.Sprintf("u%d", i)})
	}
	c, err := fixture.StartChild(fixture.ChildConfig{Delimiter: f.Delim, Users: us})
	if err != nil {
		return nil, err
	}
	e.child, e.addr = c, c.Addr
	return e, nil
}

func (e *env) stop() {
	if e.child != nil {
		e.child.Stop()
	}
	if e.inproc != nil {
		_ = e.inproc.Close(20 * time.Second)
		e.inproc.RemoveDir()
	}
}

// ---- replay of one behaviour ---------------------------------------------------------

type outcome struct {
	steps     int
	queries   int
	crashed   bool // the server process died
	abandoned bool // the behaviour was left (status divergence, lost connection)
	machinery string
}

type player struct {
	r        *ev.Run
	fam      *family
	e        *env
	u        userEnv
	beh      *behT
	c        [3]*wire.Client // sessions 1 and 2
	rid      map[string]imap.MailboxID
	nID      int
	skip     map[string]bool // query shapes that crashed this family's server before (shared per family)
	mu       *sync.Mutex
	diverged bool
}

func marker() []byte {
	return []byte("From: a@b.c\r\nDate: Mon, 7 Feb 1994 21:52:25 -0800\r\nSubject: marker\r\n\r\nbody\r\n")
}

func (p *player) prefix(upto int) *replayObj {
	b := &behT{Trace: p.beh.Trace[:upto+1]}
	return &replayObj{Family: p.fam.Name, Beh: b}
}

func (p *player) describe(upto int) string {
	var b strings.Builder
	for i := 0; i <= upto && i < len(p.beh.Trace); i++ {
		s := &p.beh.Trace[i]
		fmt.Fprintf(&b, "  %2d. %s -> %s\n", i+1, cmdText(s), s.Status)
	}
	return b.String()
}

func cmdText(s *stepT) string {
	switch s.Act {
	case "CREATE", "DELETE", "SUBSCRIBE", "UNSUBSCRIBE":
		return s.Act + " " + wireName(s.Args[0].T)
	case "RENAME":
		return "RENAME " + wireName(s.Args[0].T) + " " + wireName(s.Args[1].T)
	case "APPEND":
		return "APPEND INBOX {marker}"
	case "MailboxCreated", "MailboxUpdated", "MailboxDeleted", "StateWrite":
		var cs []string
		for _, c := range s.Conn.Comps {
			cs = append(cs, text(c))
		}
		t := text(s.Conn.Target)
		if s.Conn.Rec {
			t = "<recovery mailbox id>"
		}
		return fmt.Sprintf("connector %s(target=%q name=%q)", s.Act, t, cs)
	}
	return s.Act
}

func argQual(s *stepT, withInbox bool) string {
	var q []string
	for _, a := range s.Args {
		if a.F != "plain" {
			q = append(q, a.F)
		}
		if a.I && withInbox {
			q = append(q, "inbox")
		}
		if a.Rec {
			q = append(q, "recovery")
		}
	}
	if s.Conn.Rec {
		q = append(q, "recovery")
	}
	for _, c := range s.Conn.Comps {
		if strings.EqualFold(text(c), "inbox") && withInbox {
			q = append(q, "inbox")
			break
		}
	}
	if len(q) == 0 {
		return ""
	}
	// forms first, so that a known finding can be named by a key prefix
	rank := map[string]int{"dbl": 0, "lead": 0, "trail": 0, "recovery": 1, "inbox": 2}
	sort.Slice(q, func(i, j int) bool {
		if rank[q[i]] != rank[q[j]] {
			return rank[q[i]] < rank[q[j]]
		}
		return q[i] < q[j]
	})
	var u []string
	for _, x := range q {
		if len(u) == 0 || u[len(u)-1] != x {
			u = append(u, x)
		}
	}
	return ":" + strings.Join(u, ",")
}

func (p *player) violate(act, what string, upto int, detail string, extra *queryT) {
	key := fmt.Sprintf("%s/%s/%s", act, what, p.fam.class())
	ro := p.prefix(upto)
	if extra != nil {
		ro.Beh.Final = []queryT{*extra}
	}
	kind := "child-process server"
	if p.fam.InProc {
		kind = "in-process server with the harness connector"
	}
	p.r.Violate(key, fmt.Sprintf("delimiter %q (%s)\n%s\ncommand sequence on a fresh account (INBOX holding one message):\n%s", p.fam.Delim, kind, detail, p.describe(upto)), ro)
	p.diverged = true
}

var reList = regexp.MustCompile(`^\* (LIST|LSUB) \(([^)]*)\) (NIL|"(?:[^"\\]|\\.)*") (.*)$`)

type listing struct {
	ent   map[string]bool // wire name -> \Noselect
	dup   []string
	delim []string // delimiters other than the configured one
	junk  []string
}

func (p *player) parseListing(res wire.Result, kind string) listing {
	l := listing{ent: map[string]bool{}}
	for _, ln := range res.Untagged {
		m := reList.FindStringSubmatch(ln.Text)
		if m == nil || m[1] != kind {
			if strings.HasPrefix(ln.Text, "* "+kind) {
				l.junk = append(l.junk, ln.String())
			}
			continue
		}
		name := m[4]
		if strings.HasPrefix(name, "\"") {
			if u, err := strconv.Unquote(name); err == nil {
				name = u
			}
		}
		del := m[3]
		if u, err := strconv.Unquote(del); err == nil {
			del = u
		}
		if del != p.fam.Delim {
			l.delim = append(l.delim, del)
		}
		nosel := false
		for _, a := range strings.Fields(m[2]) {
			if strings.EqualFold(a, `\Noselect`) {
				nosel = true
			}
		}
		if _, have := l.ent[name]; have {
			l.dup = append(l.dup, name)
		}
		l.ent[name] = nosel
	}
	return l
}

func fmtEntries(m map[string]bool) string {
	var ks []string
	for k, ns := range m {
		if ns {
			ks = append(ks, fmt.Sprintf("%q(\\Noselect)", k))
		} else {
			ks = append(ks, fmt.Sprintf("%q", k))
		}
	}
	sort.Strings(ks)
	return "{" + strings.Join(ks, " ") + "}"
}

// compareListing returns the kind of difference (nil = none; one kind, the most basic one) with a description.
func compareListing(exp []entryT, got listing) ([]string, string) {
	want := map[string]bool{}
	for _, e := range exp {
		want[utf7(text(e.Name))] = e.Nosel
	}
	var kinds []string
	add := func(k string) {
		for _, x := range kinds {
			if x == k {
				return
			}
		}
		kinds = append(kinds, k)
	}
	for n, ns := range want {
		g, ok := got.ent[n]
		if !ok {
			add("1names-differ")
		} else if g != ns {
			add("2noselect-differs")
		}
	}
	for n := range got.ent {
		if _, ok := want[n]; !ok {
			add("1names-differ")
		}
	}
	if len(got.dup) > 0 {
		add("3duplicate-lines")
	}
	if len(got.delim) > 0 {
		add("4delimiter-wrong")
	}
	if len(got.junk) > 0 {
		add("5unparsable-line")
	}
	sort.Strings(kinds)
	if len(kinds) > 0 {
		kinds = []string{kinds[0][1:]}
	}
	return kinds, fmt.Sprintf("server answered %s, the specification expects %s", fmtEntries(got.ent), fmtEntries(want))
}

// lost classifies a command that got no tagged reply. It returns the violation kind.
func (p *player) lost() string {
	if p.e.child != nil && p.e.child.WaitExit(1500*time.Millisecond) {
		return "server-crash"
	}
	return "connection-lost"
}

func queryShape(q *queryT) string {
	s := ""
	for _, c := range q.Pat {
		if c == "%" && !strings.Contains(s, "%") {
			s += "%"
		}
		if c == "*" && !strings.Contains(s, "*") {
			s += "*"
		}
	}
	return s
}

func containsAll(shape, wild string) bool {
	for _, c := range wild {
		if !strings.ContainsRune(shape, c) {
			return false
		}
	}
	return true
}

func queryCmd(q *queryT) string {
	k := "LIST"
	if q.Lsub {
		k = "LSUB"
	}
	return fmt.Sprintf("%s %s %s", k, wireName(q.Ref), wireName(q.Pat))
}

// doQuery executes one LIST/LSUB and compares. It returns false when the connection is gone.
func (p *player) doQuery(q *queryT, sess int, upto int, out *outcome) bool {
	kind := "LIST"
	if q.Lsub {
		kind = "LSUB"
	}
	shape := queryShape(q)
	p.mu.Lock()
	sk := false
	for crashed := range p.skip {
		// a query of this kind whose pattern had these wildcards killed the server of this family before:
		// asking again only costs a server (the crash is reported once; this is sampling, not a verdict)
		if strings.HasPrefix(crashed, kind) && containsAll(shape, crashed[len(kind):]) {
			sk = true
		}
	}
	p.mu.Unlock()
	if sk {
		p.r.Add("queries_skipped_after_crash_of_same_shape", 1)
		return true
	}
	cmd := queryCmd(q)
	res := p.c[sess].Cmd(cmd)
	out.queries++
	p.r.Eval(p.fam.Name+"|"+cmd+"|"+fmtExp(q.Exp), len(q.Exp) > 0 && q.Judged)
	if res.Closed || res.TimedOut {
		what := p.lost()
		if what == "server-crash" {
			out.crashed = true
			p.mu.Lock()
			p.skip[kind+shape] = true
			p.mu.Unlock()
		}
		crash := ""
		if p.e.child != nil {
			crash = "\n" + head(p.e.child.CrashOutput(), 1500)
		}
		p.violate(kind, what, upto, fmt.Sprintf("no tagged reply to %s%s", cmd, crash), q)
		out.abandoned = true
		return false
	}
	if !q.Judged {
		return true
	}
	if res.Status != "OK" {
		p.violate(kind, "status-"+res.Status+"-expected-OK"+queryQual(q), upto, fmt.Sprintf("%s answered %s %s", cmd, res.Status, res.Text), q)
		return true
	}
	kinds, desc := compareListing(q.Exp, p.parseListing(res, kind))
	for _, k := range kinds {
		p.violate(kind, k+queryQual(q), upto, fmt.Sprintf("after the sequence below, %s: %s", cmd, desc), q)
	}
	return true
}

func queryQual(q *queryT) string {
	switch {
	case q.Cls == "empty":
		return ":empty-pattern"
	case q.Inbox:
		return ":inbox-token"
	}
	return ""
}

func fmtExp(es []entryT) string {
	var ks []string
	for _, e := range es {
		k := text(e.Name)
		if e.Nosel {
			k += "!"
		}
		ks = append(ks, k)
	}
	sort.Strings(ks)
	return strings.Join(ks, ",")
}

func head(s string, n int) string {
	if len(s) > n {
		return s[:n]
	}
	return s
}

var reStatus = regexp.MustCompile(`\(MESSAGES (\d+)\)`)

func (p *player) messages(sess int, name chars) (int, bool) {
	res := p.c[sess].Cmd("STATUS " + wireName(name) + " (MESSAGES)")
	if res.Status != "OK" {
		return -1, !(res.Closed || res.TimedOut)
	}
	for _, l := range res.Untagged {
		if m := reStatus.FindStringSubmatch(l.Text); m != nil {
			n, _ := strconv.Atoi(m[1])
			return n, true
		}
	}
	return -1, true
}

// bind keeps the remote ids of the mailboxes of the in-process family, following what the
// specification says was created / moved / removed by the step.
func (p *player) bind(s *stepT, createdID imap.MailboxID) string {
	if !p.fam.InProc {
		return ""
	}
	nm := map[string]imap.MailboxID{}
	for _, mv := range s.Moved {
		id, ok := p.rid[text(mv[0])]
		if !ok {
			return fmt.Sprintf("no remote id known for moved mailbox %q", text(mv[0]))
		}
		delete(p.rid, text(mv[0]))
		nm[text(mv[1])] = id
	}
	for k, v := range nm {
		p.rid[k] = v
	}
	for _, rm := range s.Removed {
		delete(p.rid, text(rm))
	}
	bound := map[imap.MailboxID]bool{}
	for _, id := range p.rid {
		bound[id] = true
	}
	for _, cr := range s.Created {
		name := text(cr)
		if createdID != "" {
			p.rid[name] = createdID
			continue
		}
		found := false
		for id, comps := range p.u.conn.Mailboxes {
			if !bound[id] && strings.Join(comps, p.fam.Delim) == name {
				p.rid[name] = id
				bound[id] = true
				found = true
				break
			}
		}
		if !found {
			return fmt.Sprintf("the connector was not asked to create %q", name)
		}
	}
	return ""
}

func (p *player) connStep(s *stepT) (string, string) {
	var comps []string
	for _, c := range s.Conn.Comps {
		comps = append(comps, text(c))
	}
	if s.Act == "StateWrite" {
		// the connector creates the mailboxes itself through the IMAPState handle gluon gave it: one write transaction
		st := p.u.conn.State
		if st == nil {
			return "", "the harness connector never received an IMAPState (Init not called?)"
		}
		names := [][]string{comps}
		for _, m := range s.Conn.More {
			var cs []string
			for _, c := range m {
				cs = append(cs, text(c))
			}
			names = append(names, cs)
		}
		var made []imap.MailboxID
		ctx, cancel := context.WithTimeout(context.Background(), 20*time.Second)
		defer cancel()
		err := st.Write(ctx, func(ctx context.Context, w connector.IMAPStateWrite) error {
			for _, n := range names {
				p.nID++
				id := imap.MailboxID(fmt.Sprintf("vw-%s-%d", p.u.name, p.nID))
				if err := w.CreateMailbox(ctx, imap.Mailbox{ID: id, Name: n, Flags: p.u.conn.Flags, PermanentFlags: p.u.conn.PermFlags, Attributes: p.u.conn.Attrs}); err != nil {
					return err
				}
				made = append(made, id)
			}
			return nil
		})
		if err != nil {
			return "err", ""
		}
		for i, id := range made {
			p.u.conn.Mailboxes[id] = names[i]
		}
		if s.Status == "ok" {
			if m := p.bind(s, ""); m != "" {
				return "ok", m
			}
		}
		return "ok", ""
	}
	var id imap.MailboxID
	if s.Conn.Rec {
		id = ids.GluonInternalRecoveryMailboxRemoteID
	} else if s.Act == "MailboxCreated" {
		p.nID++
		id = imap.MailboxID(fmt.Sprintf("vc-%s-%d", p.u.name, p.nID))
	} else {
		var ok bool
		id, ok = p.rid[text(s.Conn.Target)]
		if !ok {
			return "", fmt.Sprintf("no remote id known for %q", text(s.Conn.Target))
		}
	}
	var up imap.Update
	switch s.Act {
	case "MailboxCreated":
		up = imap.NewMailboxCreated(imap.Mailbox{ID: id, Name: comps, Flags: p.u.conn.Flags, PermanentFlags: p.u.conn.PermFlags, Attributes: p.u.conn.Attrs})
	case "MailboxUpdated":
		up = imap.NewMailboxUpdated(id, comps)
	case "MailboxDeleted":
		up = imap.NewMailboxDeleted(id)
	}
	err := p.u.conn.Submit(up, 20*time.Second)
	if err == fixture.ErrNoAck {
		return "", "connector update not acknowledged within 20 s"
	}
	st := "ok"
	if err != nil {
		st = "err"
	}
	if st == "ok" && !s.Conn.Rec {
		// the harness connector only records what gluon asks of it: keep its table of remote mailboxes
		// in step with what the "remote" itself just announced
		switch s.Act {
		case "MailboxUpdated":
			p.u.conn.Mailboxes[id] = comps
		case "MailboxDeleted":
			delete(p.u.conn.Mailboxes, id)
		}
	}
	if st == "ok" && s.Status == "ok" && s.Act == "MailboxCreated" {
		if m := p.bind(s, id); m != "" {
			return st, m
		}
	} else if st == "ok" && s.Status == "ok" {
		if m := p.bind(s, ""); m != "" {
			return st, m
		}
	}
	return st, ""
}

func (p *player) run() outcome {
	var out outcome
	for i := 1; i <= 2; i++ {
		c, err := wire.Dial(p.e.addr)
		if err != nil {
			out.machinery = fmt.Sprintf("dial: %v", err)
			return out
		}
		defer c.Close()
		if res := c.Login(p.u.name, "pass"); res.Status != "OK" {
			out.machinery = fmt.Sprintf("login %s: %+v", p.u.name, res)
			return out
		}
		p.c[i] = c
	}
	if res := p.c[1].Append("INBOX", "", marker()); res.Status != "OK" {
		out.machinery = fmt.Sprintf("initial APPEND: %+v", res)
		return out
	}
	if p.fam.InProc {
		p.rid = map[string]imap.MailboxID{"INBOX": "0"}
	}
	for i := range p.beh.Trace {
		s := &p.beh.Trace[i]
		sess := s.S
		if sess < 1 || sess > 2 {
			sess = 1
		}
		other := 3 - sess
		var got string
		var res wire.Result
		isConn := strings.HasPrefix(s.Act, "Mailbox") || s.Act == "StateWrite"
		if isConn {
			if !p.fam.InProc {
				out.machinery = "connector step in a wire-only family"
				return out
			}
			st, mach := p.connStep(s)
			if mach != "" {
				if p.diverged {
					out.abandoned = true
					return out
				}
				out.machinery = mach + "\n" + p.describe(i)
				return out
			}
			got = st
		} else {
			if s.Act == "APPEND" {
				res = p.c[sess].Append("INBOX", "", marker())
			} else {
				res = p.c[sess].Cmd(cmdText(s))
			}
			if res.Closed || res.TimedOut {
				what := p.lost()
				out.crashed = what == "server-crash"
				crash := ""
				if p.e.child != nil {
					crash = "\n" + head(p.e.child.CrashOutput(), 1500)
				}
				p.violate(s.Act, what, i, "no tagged reply to "+cmdText(s)+crash, nil)
				out.abandoned = true
				return out
			}
			got = res.Status
		}
		out.steps++
		p.r.Eval(p.fam.Name+"|"+cmdText(s)+"|"+fmtExp(s.List)+"|"+fmtExp(s.Lsub), s.Status == "OK" || s.Status == "ok" || argQual(s, true) != "")
		if got != s.Status {
			p.violate(s.Act, "status-"+got+"-expected-"+s.Status+argQual(s, true), i,
				fmt.Sprintf("%s answered %s %s; the specification expects %s", cmdText(s), got, res.Text, s.Status), nil)
			out.abandoned = true
			return out
		}
		if !isConn && s.Status == "OK" && p.fam.InProc {
			if m := p.bind(s, ""); m != "" {
				if !p.diverged {
					out.machinery = m + "\n" + p.describe(i)
					return out
				}
				out.abandoned = true
				return out
			}
		}
		// the namespace after the step, seen by the other session
		stateOff := false
		for _, lk := range []struct {
			kind string
			exp  []entryT
		}{{"LIST", s.List}, {"LSUB", s.Lsub}} {
			r2 := p.c[other].Cmd(lk.kind + ` "" "*"`)
			if r2.Closed || r2.TimedOut {
				what := p.lost()
				out.crashed = what == "server-crash"
				p.violate(s.Act, "after-"+lk.kind+"-"+what, i, "no tagged reply to "+lk.kind+` "" "*"`, nil)
				out.abandoned = true
				return out
			}
			if r2.Status != "OK" {
				p.violate(s.Act, "after-"+lk.kind+"-status-"+r2.Status, i, lk.kind+` "" "*" answered `+r2.Status+" "+r2.Text, nil)
				stateOff = true
				continue
			}
			kinds, desc := compareListing(lk.exp, p.parseListing(r2, lk.kind))
			for _, k := range kinds {
				p.violate(s.Act, "after-"+lk.kind+"-"+k+argQual(s, false), i, fmt.Sprintf("after the last command below, %s \"\" \"*\": %s", lk.kind, desc), nil)
				stateOff = true
			}
			if stateOff {
				break
			}
		}
		// where the test message is
		if stateOff {
			out.abandoned = true
			return out
		}
		if len(s.Holder) > 0 {
			if n, alive := p.messages(sess, s.Holder); alive && n != 1 {
				p.violate(s.Act, "messages-misplaced"+argQual(s, false), i, fmt.Sprintf("STATUS %s (MESSAGES) = %d, the specification expects the test message there", wireName(s.Holder), n), nil)
				stateOff = true
			}
		}
		if text(s.Holder) != "INBOX" {
			if n, alive := p.messages(sess, chars{"INBOX"}); alive && n != 0 {
				p.violate(s.Act, "messages-left-in-INBOX"+argQual(s, false), i, fmt.Sprintf("STATUS INBOX (MESSAGES) = %d, the specification expects 0", n), nil)
				stateOff = true
			}
		}
		if stateOff {
			// the server's namespace is no longer the model's: what follows would only repeat it
			out.abandoned = true
			return out
		}
		for qi := range s.Qs {
			if !p.doQuery(&s.Qs[qi], 1+(qi%2), i, &out) {
				return out
			}
		}
	}
	for qi := range p.beh.Final {
		if !p.doQuery(&p.beh.Final[qi], 1+(qi%2), len(p.beh.Trace)-1, &out) {
			return out
		}
	}
	return out
}

// ---- TLC runs ---------------------------------------------------------------------------

var reSimStates = regexp.MustCompile(`The number of states generated: (\d+)`)

func specDir() string { return filepath.Join(ev.Root(), "spec") }

func simulate(f *family, num int, seed int64) ([]*behT, *tlc.Result, error) {
	var behs []*behT
	res, err := tlc.Run(tlc.Options{
		SpecDir: specDir(), Module: "GluonNamespace", Cfg: filepath.Join(specDir(), "cfg", "GluonNamespace."+f.Name+".cfg"),
		Workers: 1, Simulate: true, SimNum: num, SimDepth: 40, Seed: seed, Timeout: 15 * time.Minute, KeepOutput: true, HeapGB: 2,
		OnJSON: func(raw []byte) {
			var b behT
			if err := json.Unmarshal(raw, &b); err == nil && len(b.Trace) > 0 {
				behs = append(behs, &b)
			}
		},
	})
	return behs, res, err
}

func modelCheck(cfg string, workers int) (*tlc.Result, error) {
	return tlc.Run(tlc.Options{
		SpecDir: specDir(), Module: "GluonNamespace", Cfg: filepath.Join(specDir(), "cfg", cfg),
		Workers: workers, Timeout: 25 * time.Minute, KeepOutput: true, HeapGB: 6,
	})
}

func tail(s string) string {
	if len(s) > 3000 {
		return s[len(s)-3000:]
	}
	return s
}

// ---- the check -----------------------------------------------------------------------------

func replayFamily(r *ev.Run, f *family, behs []*behT, sampleN int) {
	skip := map[string]bool{}
	var mu sync.Mutex
	var e *env
	defer func() {
		if e != nil {
			e.stop()
		}
	}()
	crashes := 0
	for bi, b := range behs {
		if e == nil || e.next >= len(e.users) {
			if e != nil {
				e.stop()
			}
			var err error
			e, err = startEnv(f)
			if err != nil {
				r.Machinery("family %s: cannot start a server: %v", f.Name, err)
				e = nil
				return
			}
		}
		u := e.users[e.next]
		e.next++
		p := &player{r: r, fam: f, e: e, u: u, beh: b, skip: skip, mu: &mu}
		out := p.run()
		if out.machinery != "" {
			r.Machinery("family %s behaviour %d: %s", f.Name, bi, out.machinery)
			return
		}
		r.Add("steps_replayed", int64(out.steps))
		r.Add("queries_replayed", int64(out.queries))
		r.Add("traces_validated_against_impl", 1)
		if out.abandoned {
			r.Add("behaviours_left_after_divergence", 1)
		}
		if bi < sampleN {
			var cmds []string
			for i := range b.Trace {
				cmds = append(cmds, cmdText(&b.Trace[i])+" -> "+b.Trace[i].Status)
			}
			last := b.Trace[len(b.Trace)-1]
			r.Sample(map[string]interface{}{"family": f.Name, "delimiter": f.Delim, "commands": cmds,
				"expected_final_LIST": fmtExp(last.List), "expected_final_LSUB": fmtExp(last.Lsub),
				"final_queries": len(b.Final), "steps_executed": out.steps, "queries_executed": out.queries})
		}
		if out.crashed {
			crashes++
			e.stop()
			e = nil
			if crashes > 12 {
				r.Machinery("family %s: more than 12 server crashes, the rest of the family was not replayed", f.Name)
				return
			}
		}
	}
}

func run(r *ev.Run, tier, replay string) {
	seed := ev.Seed()
	r.Set("rule", "TLC checks GluonNamespace exhaustively on the bounded configurations (invariants, matcher laws, action properties) and generates behaviours by simulation, one family per hierarchy delimiter plus a connector family; every behaviour is replayed over the wire on a fresh account: tagged result of every command, LIST \"\" \"*\" and LSUB \"\" \"*\" after every step (from the other session), STATUS of the mailbox holding the test message, random LIST/LSUB queries per step and all queries (patterns of <= 3 tokens over components, %, *, delimiter; references \"\", a, a<delim>) at the final state; evaluation = one command or one query; non-trivial = state-changing or oddly formed command / query with a non-empty expected answer; distinct = distinct (family, command text, expected namespace) resp. (family, query, expected answer)")
	r.Assumptions = []string{
		"abstract characters are rendered by the harness: U+00E4 is a-umlaut sent in modified UTF-7, names are sent as quoted strings",
		"gluon decisions the property does not judge are adopted by the specification (G1-G11 in GluonNamespace.tla)",
		"(UN)SUBSCRIBE of the recovery mailbox, LSUB with an empty pattern and non-ASCII references are not judged",
		"the connector does not rename or delete INBOX and spells the first level 'inbox' only as the whole name",
	}
	if replay != "" {
		b, err := os.ReadFile(replay)
		if err != nil {
			r.Machinery("replay: %v", err)
			return
		}
		var rp struct {
			Replay replayObj `json:"replay"`
		}
		if err := json.Unmarshal(b, &rp); err != nil || rp.Replay.Beh == nil {
			r.Machinery("replay file: %v", err)
			return
		}
		f := famByName(rp.Replay.Family)
		if f == nil {
			r.Machinery("replay file: unknown family %q", rp.Replay.Family)
			return
		}
		r.Set("states", 1)
		r.Set("transitions", len(rp.Replay.Beh.Trace))
		replayFamily(r, f, []*behT{rp.Replay.Beh}, 1)
		r.Set("exhaustive", false)
		return
	}

	num := map[string]int{"slash": 8, "dot": 5, "pipe": 5, "bracket": 5, "backslash": 6, "conn": 10}
	mcCfgs := []string{"GluonNamespace.mc.quick.cfg"}
	if tier == "thorough" {
		num = map[string]int{"slash": 60, "dot": 36, "pipe": 36, "bracket": 36, "backslash": 36, "conn": 72}
		mcCfgs = []string{"GluonNamespace.mc.quick.cfg", "GluonNamespace.mc.deep.cfg", "GluonNamespace.mc.conn.cfg", "GluonNamespace.mc.inbox.cfg"}
	}

	var wg sync.WaitGroup
	// exhaustive exploration of the model
	var mcMu sync.Mutex
	var states, transitions int64
	mcInfo := map[string]interface{}{}
	wg.Add(1)
	go func() {
		defer wg.Done()
		for _, cfg := range mcCfgs {
			res, err := modelCheck(cfg, 8)
			if err != nil {
				r.Machinery("tlc %s: %v", cfg, err)
				return
			}
			if res.Violated != "" || res.Error != "" || !res.Finished || res.TimedOut {
				r.Machinery("TLC on %s did not finish cleanly: violated=%q error=%q timeout=%v\n%s", cfg, res.Violated, res.Error, res.TimedOut, tail(res.Output))
				return
			}
			mcMu.Lock()
			states += res.Distinct
			transitions += res.Generated
			mcInfo[cfg] = map[string]interface{}{"distinct_states": res.Distinct, "transitions": res.Generated, "depth": res.Depth, "wall_s": res.Wall.Seconds()}
			mcMu.Unlock()
		}
	}()
	// behaviours per family
	for i := range families {
		f := &families[i]
		if f.Limit > 0 {
			continue
		}
		wg.Add(1)
		go func(i int) {
			defer wg.Done()
			behs, res, err := simulate(f, num[f.Name], seed*100+int64(i))
			if err != nil {
				r.Machinery("tlc simulate %s: %v", f.Name, err)
				return
			}
			if res.Violated != "" || res.Error != "" || res.TimedOut || !res.Finished {
				r.Machinery("TLC simulation of family %s did not finish cleanly: violated=%q error=%q timeout=%v\n%s", f.Name, res.Violated, res.Error, res.TimedOut, tail(res.Output))
				return
			}
			if len(behs) > num[f.Name] {
				behs = behs[:num[f.Name]]
			}
			if len(behs) != num[f.Name] {
				r.Machinery("TLC printed %d behaviours of family %s, %d were asked for\n%s", len(behs), f.Name, num[f.Name], tail(res.Output))
				return
			}
			r.Add("behaviours_generated", int64(len(behs)))
			if m := reSimStates.FindStringSubmatch(res.Output); m != nil {
				n, _ := strconv.ParseInt(m[1], 10, 64)
				r.Add("simulation_states_generated", n)
			}
			for _, b := range behs {
				if b.Mode == "steered" {
					r.Add("behaviours_steered_around_known_divergences", 1)
				}
			}
			replayFamily(r, f, behs, 1)
		}(i)
	}
	wg.Wait()
	r.Set("states", states)
	r.Set("transitions", transitions)
	r.Set("exhaustive_configurations", mcInfo)
	r.Set("exhaustive", false)
	r.Set("exhaustive_note", "the model is explored exhaustively by TLC on the bounded configurations; conformance of gluon is sampled by simulated behaviours")
	r.Set("families", len(families))
}

// ReplayNamespace re-executes a replay file written by a namespace family (used by C06 and C17, which run families of
// this module); it reports false when the file is not such a replay.
func ReplayNamespace(r *ev.Run, path string) bool {
	b, err := os.ReadFile(path)
	if err != nil {
		return false
	}
	var rp struct {
		Replay replayObj `json:"replay"`
	}
	if err := json.Unmarshal(b, &rp); err != nil || rp.Replay.Beh == nil || famByName(rp.Replay.Family) == nil {
		return false
	}
	r.Set("states", 1)
	r.Set("transitions", len(rp.Replay.Beh.Trace))
	replayFamily(r, famByName(rp.Replay.Family), []*behT{rp.Replay.Beh}, 1)
	return true
}

// RunLimitFamily model-checks the mailbox-count configuration and replays the "limit" family (C17): CREATE and
// RENAME with implicit parents and connector creations against a server configured with the same limit.
func RunLimitFamily(r *ev.Run, num int, seed int64) {
	res, err := modelCheck("GluonNamespace.mc.limit.cfg", 4)
	if err != nil || res.Violated != "" || res.Error != "" || !res.Finished || res.TimedOut {
		r.Machinery("TLC on GluonNamespace.mc.limit.cfg did not finish cleanly: err=%v violated=%q error=%q\n%s", err, res.Violated, res.Error, tail(res.Output))
		return
	}
	r.Add("states", res.Distinct)
	r.Add("transitions", res.Generated)
	f := famByName("limit")
	behs, sres, err := simulate(f, num, seed)
	if err != nil || sres.Violated != "" || sres.Error != "" || sres.TimedOut || !sres.Finished || len(behs) < num {
		r.Machinery("TLC simulation of family limit: err=%v violated=%q error=%q behaviours=%d\n%s", err, sres.Violated, sres.Error, len(behs), tail(sres.Output))
		return
	}
	behs = behs[:num]
	refused := 0
	for _, b := range behs {
		for _, st := range b.Trace {
			if (st.Status == "NO" || st.Status == "err") && (st.Act == "CREATE" || st.Act == "RENAME" || st.Act == "MailboxCreated" || st.Act == "StateWrite") {
				refused++
			}
		}
	}
	r.Add("namespace_limit_behaviours", int64(len(behs)))
	r.Add("namespace_limit_refusals_predicted", int64(refused))
	replayFamily(r, f, behs, 1)
}

// RunConnectorFamily simulates and replays only the connector family (client commands interleaved with
// MailboxCreated / MailboxUpdated / MailboxDeleted updates, in-process server). C06 uses it for the mailbox-level
// update kinds and keeps the findings about connector steps.
func RunConnectorFamily(r *ev.Run, num int, seed int64) {
	f := famByName("conn")
	behs, res, err := simulate(f, num, seed)
	if err != nil {
		r.Machinery("tlc simulate %s: %v", f.Name, err)
		return
	}
	if res.Violated != "" || res.Error != "" || res.TimedOut || !res.Finished {
		r.Machinery("TLC simulation of family %s did not finish cleanly: violated=%q error=%q timeout=%v\n%s", f.Name, res.Violated, res.Error, res.TimedOut, tail(res.Output))
		return
	}
	if len(behs) > num {
		behs = behs[:num]
	}
	r.Add("namespace_connector_behaviours", int64(len(behs)))
	replayFamily(r, f, behs, 1)
}
