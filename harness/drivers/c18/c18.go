// Package c18: commands are gated by the authentication state and users are isolated.
// TLC explores spec/GluonSession.tla (command x phase matrix with the namespace, pairs of
// sessions of the same / of different users, the credential pairs with the global login jail,
// and every sequence of phase-moving commands); every printed transition / behaviour is replayed
// over the wire on a real two-user server. After every step the tagged result is compared with
// the result classes TLC printed and BOTH users' data are projected through observer sessions:
// everything outside the step's effect class must be unchanged.
package c18

import (
	"crypto/sha1"
	"encoding/hex"
	"encoding/json"
	"fmt"
	"os"
	"regexp"
	"sort"
	"strconv"
	"strings"
	"sync"
	"time"

	"github.com/ProtonMail/gluon/verif/drivers"
	"github.com/ProtonMail/gluon/verif/pkg/ev"
	"github.com/ProtonMail/gluon/verif/pkg/fixture"
	"github.com/ProtonMail/gluon/verif/pkg/sess"
)

func init() { drivers.Register("C18", "model_checking", run) }

const (
	watch   = 20 * time.Second // per-line watchdog
	keepMin = 2                // every mailbox holds at least this many messages before a step
	keepMax = 14               // ... and is trimmed back when it grows beyond this
)

// proj is what an observer session sees of one user.
type proj struct {
	NS     string            // LIST and LSUB output
	List   []string          // names
	Lsub   []string          // names
	Box    map[string]string // name -> STATUS + every message (uid, flags, subject)
	Count  map[string]int
	Status map[string]string // name -> "MESSAGES n UIDNEXT m"
}

type world struct {
	r       *ev.Run
	family  string
	jailMs  int
	srv     *fixture.ChildServer
	obs     map[string]*sess.Conn
	ts      map[string]*sess.Conn
	owner   map[string]string   // test session -> user it is authenticated as (as the model says)
	cur     map[string]sess.Act // test session -> the last step of it (nphase .. nidle: where the model says it is)
	idleBox map[string]string   // test session in IDLE -> its selected mailbox as projected after the session's last step before the IDLE
	lastBox map[string]string   // test session -> its selected mailbox as projected after its last step
	rend    *sess.Renderer
	base    map[string]*proj
	armed   bool
	armAt   time.Time
	hist    []sess.Act
	nextMsg int
	log     []string
	stats   *stats
}

type stats struct {
	mu        sync.Mutex
	steps     int64
	projected int64
	jailWaits int64
	minJail   time.Duration
	restarts  int64
	uncovered int64
	perCmd    map[string]int64
}

func (s *stats) add(f func(*stats)) { s.mu.Lock(); f(s); s.mu.Unlock() }

func newWorld(r *ev.Run, family string, jailMs int, seed int64, st *stats) (*world, error) {
	srv, err := fixture.StartChild(fixture.ChildConfig{Users: sess.Accounts(), JailMs: jailMs})
	if err != nil {
		return nil, err
	}
	w := &world{r: r, family: family, jailMs: jailMs, srv: srv, obs: map[string]*sess.Conn{}, ts: map[string]*sess.Conn{},
		owner: map[string]string{}, cur: map[string]sess.Act{}, idleBox: map[string]string{}, lastBox: map[string]string{}, rend: sess.NewRenderer(seed), base: map[string]*proj{}, stats: st}
	for _, u := range []string{"u1", "u2"} {
		c, err := sess.Dial(srv.Addr, watch)
		if err != nil {
			w.stop()
			return nil, err
		}
		w.obs[u] = c
		if o := c.Cmd("LOGIN "+sess.UserName[u]+" "+sess.UserPass[u], watch); o.Status != "OK" {
			w.stop()
			return nil, fmt.Errorf("observer login %s: %s", u, o.Brief())
		}
		if o := c.Cmd("CREATE shared", watch); o.Status != "OK" {
			w.stop()
			return nil, fmt.Errorf("setup CREATE shared: %s", o.Brief())
		}
	}
	// identically named mailboxes, different content
	for _, a := range []struct {
		u, box string
		n      int
	}{{"u1", "INBOX", 2}, {"u1", "shared", 4}, {"u2", "INBOX", 3}, {"u2", "shared", 2}} {
		for i := 0; i < a.n; i++ {
			if err := w.appendAs(a.u, a.box); err != nil {
				w.stop()
				return nil, err
			}
		}
	}
	if w.base, err = w.projectBoth(); err != nil {
		w.stop()
		return nil, err
	}
	return w, nil
}

func (w *world) stop() {
	for _, c := range w.obs {
		c.Close()
	}
	for _, c := range w.ts {
		c.Close()
	}
	w.srv.Stop()
}

func (w *world) appendAs(u, box string) error {
	w.nextMsg++
	o := w.obs[u].CmdLit("APPEND "+box, sess.Message(u, w.nextMsg), watch)
	if o.Status != "OK" {
		return fmt.Errorf("maintenance APPEND %s/%s: %s", u, box, o.Brief())
	}
	return nil
}

var (
	reListName = regexp.MustCompile(`^\* (?:LIST|LSUB) \([^)]*\) (?:"[^"]*"|NIL) (.*)$`)
	reStatus   = regexp.MustCompile(`^\* STATUS (\S+|"[^"]*") \((.*)\)$`)
	reExists   = regexp.MustCompile(`^\* (\d+) EXISTS$`)
	reUID      = regexp.MustCompile(`UID (\d+)`)
	reFlags    = regexp.MustCompile(`FLAGS \(([^)]*)\)`)
	reFetch    = regexp.MustCompile(`^\* (\d+) FETCH `)
)

func unq(s string) string {
	s = strings.TrimSpace(s)
	if len(s) >= 2 && s[0] == '"' && s[len(s)-1] == '"' {
		return strings.NewReplacer(`\"`, `"`, `\\`, `\`).Replace(s[1 : len(s)-1])
	}
	return s
}

func names(ls []sess.RLine) []string {
	var out []string
	for _, l := range ls {
		if m := reListName.FindStringSubmatch(l.Text); m != nil {
			n := unq(m[1])
			if len(l.Lits) > 0 {
				n = string(l.Lits[0])
			}
			out = append(out, n)
		}
	}
	sort.Strings(out)
	return out
}

type msgRow struct {
	uid     int
	flags   string
	subject string
}

func fetchRows(ls []sess.RLine) []msgRow {
	var rows []msgRow
	for _, l := range ls {
		if !reFetch.MatchString(l.Text) {
			continue
		}
		var m msgRow
		if x := reUID.FindStringSubmatch(l.Text); x != nil {
			m.uid, _ = strconv.Atoi(x[1])
		}
		if x := reFlags.FindStringSubmatch(l.Text); x != nil {
			var fl []string
			for _, f := range strings.Fields(x[1]) {
				if !strings.EqualFold(f, `\Recent`) {
					fl = append(fl, strings.ToLower(f))
				}
			}
			sort.Strings(fl)
			m.flags = strings.Join(fl, " ")
		}
		if len(l.Lits) > 0 {
			m.subject = strings.TrimSpace(string(l.Lits[0]))
		}
		rows = append(rows, m)
	}
	// FETCH responses of one command may come in any order
	sort.Slice(rows, func(i, j int) bool { return rows[i].uid < rows[j].uid })
	return rows
}

// project reads everything user u owns through u's observer session: LIST, LSUB and, for every mailbox name the
// specification knows, STATUS + EXAMINE + FETCH 1:* (one pipelined batch; a name that does not exist answers NO).
var boxNames = []string{"INBOX", "shared", "extra", "moved"}

func (w *world) project(u string) (*proj, error) {
	c := w.obs[u]
	p := &proj{Box: map[string]string{}, Count: map[string]int{}, Status: map[string]string{}}
	cmds := []string{`LIST "" "*"`, `LSUB "" "*"`}
	for _, n := range boxNames {
		cmds = append(cmds, "STATUS "+n+" (MESSAGES UIDNEXT UIDVALIDITY)", "EXAMINE "+n,
			"FETCH 1:* (UID FLAGS BODY.PEEK[HEADER.FIELDS (SUBJECT)])", "UNSELECT")
	}
	outs := c.Pipeline(cmds, watch)
	for i, o := range outs {
		if o.Status == "" || o.Garbage != "" {
			return nil, fmt.Errorf("observer %s %s: %s %s", u, cmds[i], o.Brief(), o.Garbage)
		}
	}
	if outs[0].Status != "OK" || outs[1].Status != "OK" {
		return nil, fmt.Errorf("observer %s LIST/LSUB: %s / %s", u, outs[0].Brief(), outs[1].Brief())
	}
	p.List = names(outs[0].Untagged)
	p.Lsub = names(outs[1].Untagged)
	p.NS = "LIST " + strings.Join(p.List, ",") + " LSUB " + strings.Join(p.Lsub, ",")
	known := map[string]bool{}
	for i, n := range boxNames {
		known[n] = true
		st, ex, fe := outs[2+4*i], outs[3+4*i], outs[4+4*i]
		if !has(p.List, n) {
			if st.Status == "OK" || ex.Status == "OK" {
				w.violate("isolation/unlisted-mailbox", fmt.Sprintf("mailbox %q of %s is not listed but STATUS/EXAMINE answer %s / %s", n, u, st.Brief(), ex.Brief()))
			}
			continue
		}
		if st.Status != "OK" || ex.Status != "OK" {
			return nil, fmt.Errorf("observer %s: %s is listed but STATUS/EXAMINE answer %s / %s", u, n, st.Brief(), ex.Brief())
		}
		status := ""
		for _, l := range st.Untagged {
			if m := reStatus.FindStringSubmatch(l.Text); m != nil {
				status = m[2]
			}
		}
		cnt := -1
		for _, l := range ex.Untagged {
			if m := reExists.FindStringSubmatch(l.Text); m != nil {
				cnt, _ = strconv.Atoi(m[1])
			}
		}
		var sb strings.Builder
		sb.WriteString(status)
		rows := fetchRows(fe.Untagged)
		if cnt > 0 && fe.Status != "OK" {
			return nil, fmt.Errorf("observer %s FETCH %s: %s", u, n, fe.Brief())
		}
		if cnt >= 0 && len(rows) != cnt {
			return nil, fmt.Errorf("observer %s: %s announces %d messages, FETCH 1:* shows %d", u, n, cnt, len(rows))
		}
		for _, m := range rows {
			sb.WriteString(fmt.Sprintf(" | %d (%s) %s", m.uid, m.flags, m.subject))
			if !strings.HasPrefix(m.subject, "Subject: own-"+u+"-") {
				w.violate("isolation/foreign-message", fmt.Sprintf("mailbox %q of %s holds a message that was not appended by %s: %q", n, u, u, m.subject))
			}
		}
		p.Status[n] = status
		p.Count[n] = cnt
		p.Box[n] = sb.String()
	}
	for _, n := range p.List {
		if !known[n] {
			w.violate("isolation/unknown-mailbox", fmt.Sprintf("%s has a mailbox %q that no step of the specification creates", u, n))
		}
	}
	w.stats.add(func(s *stats) { s.projected++ })
	return p, nil
}

// projectBoth projects the two users at the same time.
func (w *world) projectBoth() (map[string]*proj, error) {
	out := map[string]*proj{}
	var mu sync.Mutex
	var wg sync.WaitGroup
	var first error
	for _, u := range []string{"u1", "u2"} {
		wg.Add(1)
		go func(u string) {
			defer wg.Done()
			p, err := w.project(u)
			mu.Lock()
			defer mu.Unlock()
			if err != nil && first == nil {
				first = err
			}
			out[u] = p
		}(u)
	}
	wg.Wait()
	return out, first
}

// violate: keys are "<input class>/<kind>/<phase>/<family>" so that a known finding can match a class by prefix.
func (w *world) violate(key, detail string) {
	if p := strings.Split(key, "/"); len(p) == 3 && (p[0] == "NotAuth" || p[0] == "Auth" || p[0] == "Selected" || strings.HasSuffix(p[0], "+idle")) {
		key = p[1] + "/" + p[2] + "/" + p[0]
	}
	tail := w.log
	if len(tail) > 12 {
		tail = tail[len(tail)-12:]
	}
	acts := w.hist
	w.r.Violate(key+"/"+w.family, detail+"\nlast steps:\n  "+strings.Join(tail, "\n  "),
		map[string]interface{}{"family": w.family, "jail_ms": w.jailMs, "acts": acts})
}

func has(xs []string, x string) bool {
	for _, v := range xs {
		if v == x {
			return true
		}
	}
	return false
}

// frame compares the projections before and after a step with the effect class TLC printed.
func (w *world) frame(a *sess.Act, before, after map[string]*proj) {
	changed := false
	sig := a.Was + "/" + a.X
	for _, u := range []string{"u1", "u2"} {
		b, n := before[u], after[u]
		if b.NS != n.NS {
			if has(a.EffNs, u) {
				changed = true
			} else {
				who := "the other user"
				if u == a.AsUser {
					who = "its own user"
				}
				w.violate(sig+"/namespace-changed", fmt.Sprintf("%s by a session of %s changed the mailbox list of %s (%s): %s -> %s; the step may change: namespaces %v, mailboxes %v",
					a.X, a.AsUser, u, who, b.NS, n.NS, a.EffNs, a.EffBox))
			}
		}
		all := map[string]bool{}
		for k := range b.Box {
			all[k] = true
		}
		for k := range n.Box {
			all[k] = true
		}
		for k := range all {
			if b.Box[k] == n.Box[k] {
				continue
			}
			if has(a.EffBox, u+"/"+k) {
				changed = true
				continue
			}
			who := "the other user"
			if u == a.AsUser {
				who = "its own user"
			}
			w.violate(sig+"/mailbox-changed", fmt.Sprintf("%s by a session of %s (phase %s) changed mailbox %q of %s (%s):\n  before: %s\n  after:  %s\nthe step may change: namespaces %v, mailboxes %v",
				a.X, a.AsUser, a.Was, k, u, who, b.Box[k], n.Box[k], a.EffNs, a.EffBox))
		}
	}
	if a.Must && !changed {
		w.violate(sig+"/no-effect", fmt.Sprintf("%s was answered as successful but nothing it should change did change (namespaces %v, mailboxes %v)", a.X, a.EffNs, a.EffBox))
	}
}

// observed checks what the acting session was shown against its own user's data.
func (w *world) observed(a *sess.Act, o sess.Outcome, after map[string]*proj) {
	if o.Status != "OK" || a.AsUser == "none" {
		return
	}
	own := after[a.AsUser]
	sig := a.Was + "/" + a.X
	switch {
	case a.X == "LIST":
		got := names(o.Untagged)
		want := append([]string{}, a.Sees...)
		sort.Strings(want)
		if strings.Join(got, ",") != strings.Join(want, ",") {
			w.violate(sig+"/sees", fmt.Sprintf("LIST by a session of %s shows %v, the specification says %v", a.AsUser, got, want))
		}
	case a.X == "LSUB":
		if got := names(o.Untagged); strings.Join(got, ",") != strings.Join(own.Lsub, ",") {
			w.violate(sig+"/sees", fmt.Sprintf("LSUB by a session of %s shows %v, its observer sees %v", a.AsUser, got, own.Lsub))
		}
	case strings.HasPrefix(a.X, "STATUS_"):
		box := a.X[7:]
		for _, l := range o.Untagged {
			if m := reStatus.FindStringSubmatch(l.Text); m != nil {
				if !strings.HasPrefix(own.Status[box], m[2]) {
					w.violate(sig+"/sees", fmt.Sprintf("STATUS %s by a session of %s shows (%s), the mailbox of %s has (%s)", box, a.AsUser, m[2], a.AsUser, own.Status[box]))
				}
			}
		}
	case strings.HasPrefix(a.X, "SELECT_") || strings.HasPrefix(a.X, "EXAMINE_"):
		box := strings.SplitN(a.X, "_", 2)[1]
		// the count of the new mailbox is the EXISTS after its FLAGS line (what was pending for the mailbox
		// selected before is sent first)
		n, flagsSeen := -1, false
		for _, l := range o.Untagged {
			if strings.HasPrefix(l.Text, "* FLAGS ") {
				flagsSeen = true
			}
			if m := reExists.FindStringSubmatch(l.Text); m != nil && flagsSeen {
				n, _ = strconv.Atoi(m[1])
			}
		}
		if n >= 0 && n != own.Count[box] {
			w.violate(sig+"/sees", fmt.Sprintf("%s by a session of %s announces %d messages, the mailbox of %s holds %d", a.X, a.AsUser, n, a.AsUser, own.Count[box]))
		}
	case a.X == "FETCH" || a.X == "UID_FETCH":
		for _, m := range fetchRows(o.Untagged) {
			if m.subject != "" && !strings.HasPrefix(m.subject, "Subject: own-"+a.AsUser+"-") {
				w.violate(sig+"/sees", fmt.Sprintf("%s by a session of %s returned a message of somebody else: %q", a.X, a.AsUser, m.subject))
			}
		}
	}
}

// maintain keeps every mailbox between keepMin and keepMax messages (the specification assumes that the
// mailboxes are not empty) and returns whether it changed anything. selected: "u/box" -> test sessions.
func (w *world) maintain(selected map[string][]string) (bool, error) {
	did := false
	for _, u := range []string{"u1", "u2"} {
		p := w.base[u]
		for box, n := range p.Count {
			if n < keepMin {
				for i := n; i < keepMin+1; i++ {
					if err := w.appendAs(u, box); err != nil {
						return did, err
					}
				}
				did = true
				for _, s := range selected[u+"/"+box] {
					if err := w.syncView(s); err != nil {
						return did, err
					}
				}
			} else if n > keepMax && len(selected[u+"/"+box]) == 0 {
				c := w.obs[u]
				for _, cmd := range []string{`SELECT "` + box + `"`, fmt.Sprintf(`STORE 1:%d +FLAGS.SILENT (\Deleted)`, n-keepMin-1), "EXPUNGE", "UNSELECT"} {
					if o := c.Cmd(cmd, watch); o.Status != "OK" {
						return did, fmt.Errorf("maintenance %s on %s/%s: %s", cmd, u, box, o.Brief())
					}
				}
				did = true
			}
		}
	}
	return did, nil
}

// syncView lets a selected test session take notice of the messages the maintenance added (NOOP is an
// any-state command without effect; it is repeated until the session has announced the new count).
func (w *world) syncView(s string) error {
	c := w.ts[s]
	if c.Dead() || c.IdleTag != "" {
		return nil
	}
	for i := 0; i < 200; i++ {
		o := c.Cmd("NOOP", watch)
		if o.Status != "OK" {
			return fmt.Errorf("sync NOOP on %s: %s", s, o.Brief())
		}
		for _, l := range o.Untagged {
			if m := reExists.FindStringSubmatch(l.Text); m != nil {
				if n, _ := strconv.Atoi(m[1]); n >= keepMin {
					return nil
				}
			}
		}
	}
	return fmt.Errorf("session %s never announced the messages added by the maintenance", s)
}

func sigOf(a *sess.Act, pre string) string {
	h := sha1.Sum([]byte(pre))
	return a.S + "|" + a.X + "|" + a.Was + "|" + hex.EncodeToString(h[:5])
}

// exec performs one step of the model on the real server. It returns false when the real server can no
// longer be assumed to be in the state the model is in (the walk must start again on a fresh server).
func (w *world) exec(a *sess.Act, preKey string) (bool, error) {
	w.hist = append(w.hist, *a)
	w.stats.add(func(s *stats) { s.steps++; s.perCmd[a.X]++ })
	switch a.X {
	case "TICK":
		// model time; real time is what the server sees: a LOGIN sent too early has to be held back by the server
		w.log = append(w.log, "(tick)")
		return true, nil
	case "RECONNECT":
		if c := w.ts[a.S]; c != nil {
			c.Close()
		}
		c, err := sess.Dial(w.srv.Addr, watch)
		if err != nil {
			if w.srv.WaitExit(300 * time.Millisecond) {
				w.violate("crash", "the server process died:\n"+w.srv.CrashOutput())
				return false, nil
			}
			return false, fmt.Errorf("cannot connect: %v", err)
		}
		w.ts[a.S] = c
		w.owner[a.S] = ""
		w.cur[a.S] = *a
		w.log = append(w.log, a.S+": (new connection) "+c.Greeting)
		w.r.Eval(sigOf(a, preKey), false)
		return true, nil
	}
	c := w.ts[a.S]
	if c == nil {
		var err error
		if c, err = sess.Dial(w.srv.Addr, watch); err != nil {
			return false, fmt.Errorf("cannot connect: %v", err)
		}
		w.ts[a.S] = c
	}
	tag := c.NextTag()
	line := w.rend.Render(a.X, tag, w.owner[a.S])
	if line == nil {
		return false, fmt.Errorf("no rendering for input class %q", a.X)
	}
	reaches := a.Login != "none" // a LOGIN that reaches the backend
	t0 := time.Now()
	o := c.DoPatient(line, watch, func() time.Duration {
		p0 := time.Now()
		if po := w.obs["u1"].Cmd("NOOP", 3*watch); po.Status != "OK" {
			return -1
		}
		return time.Since(p0)
	})
	took := time.Since(t0)
	w.log = append(w.log, fmt.Sprintf("%s [%s as %s]: %s  =>  %s", a.S, a.Was, a.AsUser, line.Text, o.Brief()))
	if len(w.log) > 40 {
		w.log = w.log[len(w.log)-20:]
	}
	w.r.Eval(sigOf(a, preKey), true)
	sig := a.Was + "/" + a.X
	if a.InIdle {
		sig = a.Was + "+idle/" + a.X
	}
	sync := true

	// 1. result class, tag, closing
	switch {
	case o.Status == "" && !w.srv.Alive():
		w.violate("crash", fmt.Sprintf("the server process died on %s:\n%s", line.Text, w.srv.CrashOutput()))
		return false, nil
	case o.Status == "":
		w.violate(sig+"/no-completion", fmt.Sprintf("%s in phase %s: %s; the specification wants one of %v", line.Text, a.Was, o.Brief(), a.Res))
		sync = false
	case !a.Allows(o.Status):
		w.violate(sig+"/result", fmt.Sprintf("%s in phase %s (session of %s) was answered %q; the specification wants one of %v", line.Text, a.Was, a.AsUser, o.Brief(), a.Res))
		sync = false
	default:
		want := tag
		switch a.Tag {
		case "idle":
			want = c.IdleTag
		case "none":
			want = ""
		}
		okTag := o.Status == "CONT" || o.Tag == want || (a.Tag == "none" && (o.Tag == "*" || o.Tag == line.First))
		if !okTag {
			w.violate(sig+"/tag", fmt.Sprintf("%s: the completion %q does not carry the tag %q", line.Text, o.Brief(), want))
		}
	}
	if o.Status == "CONT" && a.X == "IDLE" {
		c.IdleTag = tag
		// what the session has been told so far is the mailbox as of its previous step: changes since then are
		// announced when the IDLE begins, later ones while it lasts
		if v, ok := w.lastBox[a.S]; ok && a.NSel != "none" {
			w.idleBox[a.S] = v
		}
	} else if a.InIdle {
		c.IdleTag = ""
		// while idle a session is told about changes of ITS selected mailbox only: if that mailbox is as it was
		// when the IDLE began, nothing about messages may have been announced
		if was, ok := w.idleBox[a.S]; ok && w.base[a.AsUser] != nil {
			if now := w.base[a.AsUser].Box[w.cur[a.S].NSel]; now == was {
				for _, l := range o.Untagged {
					if reExists.MatchString(l.Text) || reFetch.MatchString(l.Text) || strings.HasSuffix(l.Text, " EXPUNGE") {
						w.violate(sig+"/foreign-update", fmt.Sprintf("the idle session of %s was sent %q although its selected mailbox %q has not changed since the step of this session before the IDLE", a.AsUser, l.Text, w.cur[a.S].NSel))
					}
				}
			}
		}
		delete(w.idleBox, a.S)
	}
	if a.Bye && sync && !o.Bye {
		w.violate(sig+"/no-bye", fmt.Sprintf("%s: completed without the untagged BYE", line.Text))
	}
	if a.Close && sync {
		if end := c.Await(watch); !end.Closed {
			w.violate(sig+"/not-closed", fmt.Sprintf("%s: the server did not close the connection (%s)", line.Text, end.Brief()))
		}
		c.Close()
	}

	// 2. the jail: a LOGIN that reaches the backend after the arming failure is not answered before the jail time
	//    has passed since that failure was sent (a lower bound only)
	if reaches && sync {
		if w.armed {
			since := time.Since(w.armAt)
			w.stats.add(func(s *stats) {
				s.jailWaits++
				if s.minJail == 0 || since < s.minJail {
					s.minJail = since
				}
			})
			if since < time.Duration(w.jailMs)*time.Millisecond {
				w.violate("LOGIN/jail-answered-early", fmt.Sprintf("%s by %s was answered (%s) %v after the third consecutive failed LOGIN was sent (its own round trip took %v); the configured jail time is %d ms",
					line.Text, a.S, o.Brief(), since.Round(time.Millisecond), took.Round(time.Millisecond), w.jailMs))
			}
			w.armed = false
		}
		if a.Arms {
			w.armed, w.armAt = true, t0
		}
	}
	if sync && o.Status == "OK" && a.Login == "ok" {
		w.owner[a.S] = a.AsUser
	}
	if a.Close || a.X == "LOGOUT" {
		w.owner[a.S] = ""
	}

	// 3. both users' data against the effect class
	after, err := w.projectBoth()
	if err != nil {
		if !w.srv.Alive() {
			w.violate("crash", fmt.Sprintf("the server process died after %s:\n%s", line.Text, w.srv.CrashOutput()))
			return false, nil
		}
		return false, err
	}
	if sync {
		w.frame(a, w.base, after)
		w.observed(a, o, after)
	} else {
		// whatever the server answered, a refused step must not have changed anything; an accepted one only its own user's data
		w.frame(&sess.Act{X: a.X, Was: a.Was, AsUser: a.AsUser, EffNs: a.EffNs, EffBox: a.EffBox}, w.base, after)
	}
	w.base = after
	if !sync {
		// only the connection is lost and the model says the session is where it was: put it back there
		if o.Status == "" && o.Closed && w.family != "jail" && a.NPhase == a.Was && !a.InIdle {
			if err := w.restore(a.S); err == nil {
				return true, nil
			}
		}
		return false, nil
	}
	w.cur[a.S] = *a
	if a.NSel != "none" && a.NSel != "" && after[a.NUser] != nil {
		// only steps after which nothing is held back for the session: a new snapshot, or NOOP / CHECK
		if o.Status == "OK" && (strings.HasPrefix(a.X, "SELECT_") || strings.HasPrefix(a.X, "EXAMINE_") || a.X == "NOOP" || a.X == "CHECK") {
			w.lastBox[a.S] = after[a.NUser].Box[a.NSel]
		}
	} else {
		delete(w.lastBox, a.S)
	}

	// 4. keep the mailboxes populated for the next step
	selected := map[string][]string{}
	for s, l := range w.cur {
		if l.NSel != "none" && l.NSel != "" {
			selected[l.NUser+"/"+l.NSel] = append(selected[l.NUser+"/"+l.NSel], s)
		}
	}
	did, err := w.maintain(selected)
	if err != nil {
		return false, err
	}
	if did {
		if w.base, err = w.projectBoth(); err != nil {
			return false, err
		}
	}
	return true, nil
}

// restore opens a new connection for session s and brings it to where the model says the session is
// (harness traffic; used after the server dropped the connection on a line it should only have refused).
func (w *world) restore(s string) error {
	l, ok := w.cur[s]
	if c := w.ts[s]; c != nil {
		c.Close()
	}
	c, err := sess.Dial(w.srv.Addr, watch)
	if err != nil {
		return err
	}
	w.ts[s] = c
	w.owner[s] = ""
	if !ok || l.NPhase == "NotAuth" || l.NPhase == "Closed" || l.NPhase == "" {
		return nil
	}
	if o := c.Cmd("LOGIN "+sess.UserName[l.NUser]+" "+sess.UserPass[l.NUser], watch); o.Status != "OK" {
		return fmt.Errorf("restore login: %s", o.Brief())
	}
	w.owner[s] = l.NUser
	if l.NPhase == "Selected" {
		cmd := "SELECT "
		if l.NRo {
			cmd = "EXAMINE "
		}
		if o := c.Cmd(cmd+l.NSel, watch); o.Status != "OK" {
			return fmt.Errorf("restore %s: %s", cmd, o.Brief())
		}
	}
	w.log = append(w.log, s+": (connection re-established by the harness: "+l.NPhase+" as "+l.NUser+" "+l.NSel+")")
	return nil
}

// ---- graph families ------------------------------------------------------------

type family struct {
	name, cfg string
	jailMs    int
	walkers   int
	graph     bool
}

func walk(r *ev.Run, f family, m *sess.Model, part int, seed int64, st *stats) {
	pl := sess.NewPlanner(m, part, f.walkers)
	restarts := 0
	for pl.Left() > 0 {
		w, err := newWorld(r, f.name, f.jailMs, seed+int64(part)*101+int64(restarts), st)
		if err != nil {
			r.Machinery("%s: cannot start a server: %v", f.name, err)
			return
		}
		cur := m.Init
		fresh := true
		for pl.Left() > 0 {
			path := pl.Next(cur)
			if path == nil {
				if fresh {
					r.Machinery("%s: %d transitions cannot be reached from the initial state", f.name, pl.Left())
					w.stop()
					return
				}
				break
			}
			ok := true
			for _, t := range path {
				fresh = false
				var err error
				ok, err = w.exec(&t.Act, t.PreKey)
				pl.MarkCovered(t)
				if err != nil {
					r.Machinery("%s: %v", f.name, err)
					w.stop()
					return
				}
				if !ok {
					pl.Avoid(t)
					break
				}
				cur = t.PostKey
			}
			if !ok {
				break
			}
		}
		w.stop()
		restarts++
		st.add(func(s *stats) { s.restarts++ })
		if restarts > 400 {
			r.Machinery("%s: more than 400 restarts of the server, giving up", f.name)
			st.add(func(s *stats) { s.uncovered += int64(pl.Left()) })
			return
		}
	}
}

// replayBehaviours runs whole behaviours (Record mode), each on a new connection.
func replayBehaviours(r *ev.Run, f family, bs []*sess.Behaviour, part int, seed int64, st *stats) {
	var w *world
	defer func() {
		if w != nil {
			w.stop()
		}
	}()
	dirty := false // the previous behaviour left failed logins behind
	for i, b := range bs {
		if i%f.walkers != part {
			continue
		}
		if w == nil {
			var err error
			if w, err = newWorld(r, f.name, f.jailMs, seed+int64(part)*977+int64(i), st); err != nil {
				r.Machinery("%s: cannot start a server: %v", f.name, err)
				return
			}
		}
		if dirty {
			// a successful login sets the server's failure counter back to 0, as the model's initial state has it
			c, err := sess.Dial(w.srv.Addr, watch)
			if err == nil {
				c.Cmd("LOGIN "+sess.UserName["u1"]+" "+sess.UserPass["u1"], 2*watch)
				c.Close()
			}
			w.armed = false
		}
		dirty = false
		w.hist = nil
		w.log = append(w.log, "--- behaviour "+b.Sig())
		for s, c := range w.ts {
			c.Close()
			delete(w.ts, s)
			delete(w.cur, s)
			w.owner[s] = ""
		}
		ok := true
		for k := range b.Trace {
			a := &b.Trace[k]
			if a.Login == "fail" {
				dirty = true
			}
			var err error
			ok, err = w.exec(a, b.Sig()+strconv.Itoa(k))
			if err != nil {
				r.Machinery("%s: %v", f.name, err)
				return
			}
			if !ok {
				break
			}
		}
		r.Add("behaviours_replayed", 1)
		if !ok {
			w.stop()
			w = nil
		}
	}
}

func run(r *ev.Run, tier, replay string) {
	seed := ev.Seed()
	st := &stats{perCmd: map[string]int64{}}
	if replay != "" {
		runReplay(r, replay, seed, st)
		return
	}
	jail := 250
	fams := []family{
		{name: "matrix", cfg: "matrix." + tier, jailMs: jail, walkers: 14, graph: true},
		{name: "pairs", cfg: "pairs." + tier, jailMs: jail, walkers: 14, graph: true},
		{name: "jail", cfg: "jail." + tier, jailMs: jail, walkers: 6, graph: true},
		{name: "phases", cfg: "phases." + tier, jailMs: jail, walkers: 14},
	}
	var states, transitions, executed int64
	tlcInfo := map[string]interface{}{}
	models := make([]*sess.Model, len(fams))
	errs := make([]error, len(fams))
	var twg sync.WaitGroup
	for i, f := range fams {
		twg.Add(1)
		go func(i int, cfg string) {
			defer twg.Done()
			models[i], errs[i] = sess.RunTLC(cfg)
		}(i, f.cfg)
	}
	twg.Wait()
	for _, err := range errs {
		if err != nil {
			r.Machinery("%v", err)
			return
		}
	}
	famWall := map[string]float64{}
	for i, f := range fams {
		m := models[i]
		t0 := time.Now()
		states += m.Res.Distinct
		transitions += m.Res.Generated
		tlcInfo[f.cfg] = map[string]interface{}{"distinct_states": m.Res.Distinct, "transitions": m.Res.Generated, "depth": m.Res.Depth,
			"wall_s": m.Res.Wall.Seconds(), "printed_transitions": len(m.Trans), "printed_behaviours": len(m.Behaviours)}
		var wg sync.WaitGroup
		if f.graph {
			if len(m.Trans) == 0 || m.Init == "" {
				r.Machinery("%s: TLC printed no transitions", f.cfg)
				return
			}
			for p := 0; p < f.walkers; p++ {
				wg.Add(1)
				go func(p int) {
					defer wg.Done()
					walk(r, f, m, p, seed, st)
				}(p)
			}
			executed += int64(len(m.Trans))
		} else {
			if len(m.Behaviours) == 0 {
				r.Machinery("%s: TLC printed no behaviours", f.cfg)
				return
			}
			for p := 0; p < f.walkers; p++ {
				wg.Add(1)
				go func(p int) {
					defer wg.Done()
					replayBehaviours(r, f, m.Behaviours, p, seed, st)
				}(p)
			}
			executed += int64(len(m.Behaviours))
		}
		wg.Wait()
		famWall[f.name] = time.Since(t0).Seconds()
	}
	r.Set("replay_wall_s_per_family", famWall)
	r.Set("states", states)
	r.Set("transitions", transitions)
	r.Set("traces_validated_against_impl", executed)
	r.Set("tlc_runs", tlcInfo)
	r.Set("steps_executed_on_the_server", st.steps)
	r.Set("projections_of_a_user", st.projected)
	r.Set("server_restarts", st.restarts)
	r.Set("jail_delayed_logins_observed", st.jailWaits)
	r.Set("jail_ms_configured", jail)
	r.Set("jail_shortest_answer_after_arming_ms", st.minJail.Milliseconds())
	r.Set("steps_per_command_class", st.perCmd)
	r.Set("printed_transitions_not_executed", st.uncovered)
	r.Set("exhaustive", st.uncovered == 0)
	r.Set("rule", "graph families (matrix, pairs, jail): TLC explores the whole state graph of the configuration and prints every transition (state, session, input class) with the acceptable result classes, tag, effect class and next state; tours over the graph execute every printed transition on a real two-user server; phases: every input sequence of the given length is one behaviour, each replayed on a new connection. traces_validated_against_impl = printed transitions + behaviours, all executed; evaluations = steps sent to the server (tours repeat transitions on the way); non-trivial = every step that sends a line (not model ticks / reconnects); distinct = distinct (state, session, input class)")
	r.Assumptions = []string{
		"mailbox contents are not part of the specification's state: a step names the components (namespace / mailbox of a user) it may change, and the harness compares LIST, LSUB and per mailbox STATUS (MESSAGES UIDNEXT UIDVALIDITY) + FETCH 1:* (UID FLAGS SUBJECT) of BOTH users before and after every step (\\Recent is ignored); observers are persistent sessions that EXAMINE every mailbox anew for each projection",
		"between steps the harness keeps every mailbox between 2 and 14 messages through the observer sessions (the message commands of the specification act on message 1 and need it to exist); a selected test session is synchronised with NOOP",
		"one fixed instance per command class (spelled in several ways: case, atom / quoted / literal arguments; wrong credentials drawn from names and passwords close to the real ones)",
		"not explored: DELETE / RENAME of a mailbox another session of the same user has selected, removal of messages from a mailbox another session of the same user has selected (outcome for the other session is a race with the update), SELECT of a missing mailbox while another one is selected (RFC 3501 deselects, gluon keeps the selection; not part of this property), STARTTLS on a server with TLS",
		"jail: only a lower bound is asserted (answer of the next LOGIN that reaches the backend - time just before the arming LOGIN was sent >= configured jail time), with Go's monotonic clock; never an upper bound",
	}
}

// ---- replay -------------------------------------------------------------------

func runReplay(r *ev.Run, path string, seed int64, st *stats) {
	b, err := os.ReadFile(path)
	if err != nil {
		r.Machinery("replay: %v", err)
		return
	}
	var rp struct {
		Replay struct {
			Family string     `json:"family"`
			JailMs int        `json:"jail_ms"`
			Acts   []sess.Act `json:"acts"`
		} `json:"replay"`
	}
	if err := json.Unmarshal(b, &rp); err != nil || len(rp.Replay.Acts) == 0 {
		r.Machinery("replay file has no steps: %v", err)
		return
	}
	w, err := newWorld(r, rp.Replay.Family, rp.Replay.JailMs, seed, st)
	if err != nil {
		r.Machinery("cannot start a server: %v", err)
		return
	}
	defer w.stop()
	for i := range rp.Replay.Acts {
		a := &rp.Replay.Acts[i]
		ok, err := w.exec(a, "replay"+strconv.Itoa(i))
		if err != nil {
			r.Machinery("%v", err)
			return
		}
		if !ok {
			break
		}
	}
	r.Set("states", 1)
	r.Set("transitions", int64(len(rp.Replay.Acts)))
	r.Set("traces_validated_against_impl", 1)
	r.Sample(w.log)
}
